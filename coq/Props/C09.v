(** C09 — Exported QCSchema instances conform to the exported schemas; schema translation stable.
    Property theorems only.  Models: Common/JsonS.v (JSON, draft-04 validator for the keywords in use,
    validity relation [Valid]), Model/QCSchema.v (pydantic descriptors [ftype], values [pval],
    emission [emit] = Model.json(exclude_unset, exclude_none), inhabitation [Inh], checker [compat]),
    Model/SchemaMol.v (to_schema/from_schema index+units core), Model/SchemaTrans.v (whole-record to_schema / from_schema
    on C04's molrec and from_arrays model).  Generated on every run from /repo:
    Gen/Schemas.v (Model.schema() of the six models), Gen/FieldTypes.v (__fields__ descriptors),
    Gen/ToSchemaGen.v (unit branch of to_schema), Gen/SchemaKeys.v (key tables, headers, recognition rules, from_arrays defaults).

    CLAUSE MAP (statement / quantifier of properties.jsonl C09 -> theorems here)
    A. "for every model QCElemental publishes a schema for (six models), the JSON emitted for any valid instance (unset and null
       fields excluded) validates against that schema"
         generic, all instances:      C09_compatible_sound, C09_compatible_never_rejected (+ C09_validator_sound/_complete,
                                      C09_inhabits_checker_sound: the executable pieces decide the relations used)
         Molecule / Provenance / AtomicResultProperties:  C09_{Molecule,Provenance,AtomicResultProperties}_conforms   (FULL)
         BasisSet / AtomicInput / AtomicResult:  FALSE as stated -> C09_BasisSet_conforms_refuted (known findings C09-uniqueitems,
                                      -ecp); exact replacement C09_{BasisSet,AtomicInput,AtomicResult}_valid_iff_duplicate_free,
                                      C09_*_conforms_modulo_uniqueItems, C09_strip_unique_weakens, C09_duplicate_free_enforced,
                                      C09_incompat_sites_exact, C09_BasisSet_incompat_sites
         "any valid instance" includes 0-d arrays where no validator guards the shape: C09_unguarded_array_fields,
                                      C09_Molecule_0d_sites, C09_*_conforms_0d_exact, C09_scalar_in_array_field_refuted
                                      (known finding C09-scalar-array-0d)
         only correspondence: "a valid instance inhabits its field descriptors" (pydantic validation; checked per instance),
                                      "the emitted text is [emit]" (checked per instance), by_alias/exclude_unset forcing (translator guard)
    B. "translating a validated molecule to a schema dictionary and back, schema version 1 or 2, reproduces it"
         whole record, Bohr molrec:   C09_schema_roundtrip_full (every molrec accepted by from_arrays under from_schema's settings, units
                                      Bohr, non-empty, separators >= 0: from_schema(to_schema m v) is accepted and equals m but for
                                      input_units_to_au; composition with C04_idempotent), C09_schema_second_translation (to_schema of the
                                      result is the same dictionary), C09_headers_recognised (whatever header to_schema writes is
                                      recognised by from_schema's rules), C09_schema_keys_inverse / _complete (key tables from the AST)
         hypothesis "separators >= 0" is needed: C09_roundtrip_negative_separators_refuted (finding C09-negative-separators)
         index core (any units):      C09_fragments_cover, C09_separators_roundtrip, C09_fragments_roundtrip, C09_schema_roundtrip_core
         whole record, Angstrom molrec: C09_schema_roundtrip_angstrom (same, result = the molrec expressed in Bohr; hypothesis
                                      Bohr-per-Angstrom factor >= 1, which the window check of from_arrays / the conversion factor give)
         name / comment:             C09_name_comment_roundtrip (what comes back: the name - the formula for an unnamed molecule - and the
                                      comment exactly as it was), C09_named_molrec_extras_roundtrip, C09_name_comment_second_translation,
                                      C09_comment_exported_iff_present; pieces from the ASTs of to_schema / from_schema / from_arrays /
                                      validate_and_fill_units (Gen/SchemaExtras.v), formula_generator a parameter, stream extras
         gaps: provenance is not carried (from_schema stamps its own; its validation by from_arrays is oracle / damaged-schema only);
               "with numpy or plain-list output": both are the same abstract value in the model, np_out (ndarray vs list
               representation, JSON-ability) is oracle only
    C. "a Molecule rebuilt from its own dictionary is equal to the original with the same hash"
         geometry (the field a rebuild could disturb: __init__ may re-round it, get_hash rounds it): C09_rebuilt_keeps_geometry (a
         dictionary that says validated=True, as mol.dict() of a validated molecule does, is stored coordinate for coordinate, whatever
         truncation - geometry_noise, scramble()/align() use 13 - the original was stored with), C09_rebuilt_same_hashed_geometry,
         C09_revalidated_same_hashed_geometry (the same dictionary re-validated from scratch at the default truncation feeds the digest
         the same coordinates: needs float_prep idempotent at GEOMETRY_NOISE, which is C11_prep_idempotent for C11's model of float_prep),
         C09_unvalidated_keeps_geometry (validate=False); branch, flag and noise constants from the AST of Molecule.__init__ / get_hash
         (Gen/MolGeomInit.v), correspondence stream geom-init.  The other fields: oracle on the implementation (Molecule rebuilt from
         mol.dict() / dict(encoding="json") / its JSON: ==, get_hash; re-validation keeps the hash; molecules handed back by scramble(),
         align(), orient_molecule(), finer geometry_noise, validated=True payloads with unrounded coordinates, validate=False); the
         molrec-level content is B (Molecule.__init__ validates through from_schema -> to_schema) and the digest itself is C11
    D. "the exported geometry is always in Bohr"
         C09_exported_geometry_in_bohr (unit branch from the AST), C09_to_schema_exports_bohr (whole record: an export succeeds only
         for units = Bohr and dtype 1/2, geometry = stored * Bohr-per-unit), C09_to_schema_refuses_other_units (ValidationError),
         C09_from_schema_reads_bohr (whatever from_schema accepts is a Bohr molrec without input_units_to_au) *)
From Coq Require Import ZArith NArith QArith List String Bool.
Require Import QV.Common.Outcome QV.Common.JsonS QV.Proofs.JsonS QV.Model.QCSchema QV.Proofs.QCSchema
               QV.Gen.Schemas QV.Gen.FieldTypes QV.Gen.ToSchemaGen QV.Model.SchemaMol QV.Proofs.SchemaMol
               QV.Model.MolRec QV.Proofs.MolRec QV.Gen.SchemaKeys QV.Model.SchemaTrans QV.Proofs.SchemaTrans QV.Proofs.SchemaTransAng
               QV.Gen.MolGeomInit QV.Model.GeomInit QV.Proofs.GeomInit QV.Gen.SchemaExtras QV.Model.SchemaExtras QV.Proofs.SchemaExtras.
Import ListNotations.
Open Scope string_scope.

(** The executable validator decides the specification [Valid] whenever it gives a verdict. *)
Theorem C09_validator_sound : forall n defs S j, validates n defs S j = Ok true -> Valid defs S j.
Proof. exact validates_sound. Qed.
Theorem C09_validator_complete : forall n defs S j, validates n defs S j = Ok false -> ~ Valid defs S j.
Proof. exact validates_complete. Qed.

(** The executable inhabitation test used by the correspondence implies the relation the theorems use. *)
Theorem C09_inhabits_checker_sound : forall n z env D v, inhabitsb n z env D v = true -> Inh z env D v.
Proof. exact inhabitsb_sound. Qed.

(** Generic, unbounded over instances: if the checker accepts descriptor D against schema S then the JSON
    emitted (unset and None fields dropped, ndarrays flattened) for EVERY value inhabiting D is valid. *)
Theorem C09_compatible_sound : forall z env defs n D S,
    compat z env defs n D S = true -> forall v, Inh z env D v -> Valid defs S (emit v).
Proof. exact compat_sound. Qed.

Theorem C09_compatible_never_rejected : forall z env defs n m D S v,
    compat z env defs n D S = true -> Inh z env D v -> validates m defs S (emit v) <> Ok false.
Proof. exact compat_never_rejected. Qed.

(** Per model, re-established on every run against the regenerated schemas and descriptors. *)
Theorem C09_Molecule_conforms :
  forall v, Inh false env (TModel "Molecule") v -> Valid defs_Molecule S_Molecule (emit v).
Proof. apply (compat_sound false env defs_Molecule 64). vm_compute. reflexivity. Qed.

Theorem C09_Provenance_conforms :
  forall v, Inh false env (TModel "Provenance") v -> Valid defs_Provenance S_Provenance (emit v).
Proof. apply (compat_sound false env defs_Provenance 64). vm_compute. reflexivity. Qed.

Theorem C09_AtomicResultProperties_conforms :
  forall v, Inh false env (TModel "AtomicResultProperties") v ->
            Valid defs_AtomicResultProperties S_AtomicResultProperties (emit v).
Proof. apply (compat_sound false env defs_AtomicResultProperties 64). vm_compute. reflexivity. Qed.

(** BasisSet and the two models that embed it conform to their schemas with every "uniqueItems" removed ... *)
Theorem C09_BasisSet_conforms_modulo_uniqueItems :
  forall v, Inh false env (TModel "BasisSet") v ->
            Valid (strip_defs defs_BasisSet) (strip_unique S_BasisSet) (emit v).
Proof. apply (compat_sound false env (strip_defs defs_BasisSet) 64). vm_compute. reflexivity. Qed.

Theorem C09_AtomicInput_conforms_modulo_uniqueItems :
  forall v, Inh false env (TModel "AtomicInput") v ->
            Valid (strip_defs defs_AtomicInput) (strip_unique S_AtomicInput) (emit v).
Proof. apply (compat_sound false env (strip_defs defs_AtomicInput) 64). vm_compute. reflexivity. Qed.

Theorem C09_AtomicResult_conforms_modulo_uniqueItems :
  forall v, Inh false env (TModel "AtomicResult") v ->
            Valid (strip_defs defs_AtomicResult) (strip_unique S_AtomicResult) (emit v).
Proof. apply (compat_sound false env (strip_defs defs_AtomicResult) 64). vm_compute. reflexivity. Qed.

(** Removing every "uniqueItems" only weakens a schema (so conformance to the exported schema implies the
    "modulo" statements above). *)
Theorem C09_strip_unique_weakens : forall defs S j, Valid defs S j -> Valid (strip_defs defs) (strip_unique S) j.
Proof. exact strip_unique_weakens. Qed.

(** [env_u]: the descriptors with exactly the four List fields that carry "uniqueItems"
    (ElectronShell/ECPPotential.angular_momentum, BasisCenter.electron_shells/ecp_potentials) declared duplicate-free. *)
Definition env_u : env_t := uniq_env basis_unique_sites env.

(** Generic converse at the uniqueItems sites: if [enf] accepts (D, S) then validity of an inhabitant's JSON forces
    the listed fields to hold pairwise different items. *)
Theorem C09_duplicate_free_enforced : forall sites env defs n D S v,
    enf sites env defs n D S = true -> Inh false env D v -> Valid defs S (emit v) ->
    Inh false (uniq_env sites env) D v.
Proof. exact enf_sound. Qed.

(** Exact characterisation, for every instance: its JSON is valid against the schema exactly as exported iff its four
    uniqueItems-carrying lists are duplicate-free. *)
Theorem C09_BasisSet_valid_iff_duplicate_free :
  forall v, Inh false env (TModel "BasisSet") v ->
            (Valid defs_BasisSet S_BasisSet (emit v) <-> Inh false env_u (TModel "BasisSet") v).
Proof.
  intros v H. split.
  - apply (enf_sound basis_unique_sites env defs_BasisSet 64); [vm_compute; reflexivity|exact H].
  - apply (compat_sound false env_u defs_BasisSet 64). vm_compute. reflexivity.
Qed.

Theorem C09_AtomicInput_valid_iff_duplicate_free :
  forall v, Inh false env (TModel "AtomicInput") v ->
            (Valid defs_AtomicInput S_AtomicInput (emit v) <-> Inh false env_u (TModel "AtomicInput") v).
Proof.
  intros v H. split.
  - apply (enf_sound basis_unique_sites env defs_AtomicInput 64); [vm_compute; reflexivity|exact H].
  - apply (compat_sound false env_u defs_AtomicInput 64). vm_compute. reflexivity.
Qed.

Theorem C09_AtomicResult_valid_iff_duplicate_free :
  forall v, Inh false env (TModel "AtomicResult") v ->
            (Valid defs_AtomicResult S_AtomicResult (emit v) <-> Inh false env_u (TModel "AtomicResult") v).
Proof.
  intros v H. split.
  - apply (enf_sound basis_unique_sites env defs_AtomicResult 64); [vm_compute; reflexivity|exact H].
  - apply (compat_sound false env_u defs_AtomicResult 64). vm_compute. reflexivity.
Qed.

(** Where the checker fails, it names the sites: [incompat] is empty exactly when [compat] accepts, and for BasisSet
    it lists exactly the four uniqueItems keywords (schema paths; '#X' = through $ref X). *)
Theorem C09_incompat_sites_exact : forall z env defs n p D S,
    incompat z env defs n p D S = [] <-> compat z env defs n D S = true.
Proof. exact incompat_nil_iff. Qed.

Theorem C09_BasisSet_incompat_sites :
  incompat false env defs_BasisSet 64 [] (TModel "BasisSet") S_BasisSet =
  [ ["center_data"; "additionalProperties"; "#BasisCenter"; "electron_shells"; "items"; "#ElectronShell"; "angular_momentum"; "uniqueItems"];
    ["center_data"; "additionalProperties"; "#BasisCenter"; "electron_shells"; "uniqueItems"];
    ["center_data"; "additionalProperties"; "#BasisCenter"; "ecp_potentials"; "items"; "#ECPPotential"; "angular_momentum"; "uniqueItems"];
    ["center_data"; "additionalProperties"; "#BasisCenter"; "ecp_potentials"; "uniqueItems"] ].
Proof. vm_compute. reflexivity. Qed.

(** ... but NOT in general (known finding C09-uniqueitems): the List-typed fields carry
    "uniqueItems" in the schema but nothing makes the model refuse repeated entries.  Witnesses: a center
    with the same shell twice; a fused shell with angular_momentum [0,0]. *)
Definition shell0 : pval :=
  PModel [("angular_momentum", PList [PInt 0]); ("harmonic_type", PStr "spherical");
          ("exponents", PList [PFloat 1]); ("coefficients", PList [PList [PFloat 1]])].
Definition shell00 : pval :=
  PModel [("angular_momentum", PList [PInt 0; PInt 0]); ("harmonic_type", PStr "spherical");
          ("exponents", PList [PFloat 1]); ("coefficients", PList [PList [PFloat 1]; PList [PFloat 1]])].
Definition basis_with (shells : list pval) : pval :=
  PModel [("name", PStr "x"); ("center_data", PDict [("a", PModel [("electron_shells", PList shells)])]);
          ("atom_map", PList [PStr "a"])].

Theorem C09_BasisSet_conforms_refuted :
  exists v1 v2,
    (Inh false env (TModel "BasisSet") v1 /\ ~ Valid defs_BasisSet S_BasisSet (emit v1)) /\
    (Inh false env (TModel "BasisSet") v2 /\ ~ Valid defs_BasisSet S_BasisSet (emit v2)).
Proof.
  exists (basis_with [shell0; shell0]), (basis_with [shell00]). split; split;
    try (apply (inhabitsb_sound 64); vm_compute; reflexivity);
    apply (validates_complete 64); vm_compute; reflexivity.
Qed.

(** ** ndarray fields and 0-d arrays.  In the generated descriptors an ndarray field is [TArrS] when one of its validators
    (read from the source on every run) reshapes it or takes its len(), and plain [TArr] otherwise; under [Inh true] a plain
    [TArr] may hold the 0-d array np.asarray(scalar), which is emitted as a bare scalar.  The fields that are still plain: *)
Theorem C09_unguarded_array_fields :
  plain_array_fields env =
  [ ("Molecule", "atom_labels"); ("Molecule", "atomic_numbers"); ("Molecule", "mass_numbers"); ("Molecule", "fragments");
    ("WavefunctionProperties", "localized_fock_a"); ("WavefunctionProperties", "localized_fock_b") ].
Proof. vm_compute. reflexivity. Qed.

(** With 0-d arrays admitted wherever no validator excludes them, the checker fails at exactly those fields ... *)
Theorem C09_Molecule_0d_sites :
  incompat true env defs_Molecule 64 [] (TModel "Molecule") S_Molecule =
  [ ["atom_labels"; "<0-d array as scalar>"; "type"]; ["atomic_numbers"; "<0-d array as scalar>"; "type"];
    ["mass_numbers"; "<0-d array as scalar>"; "type"]; ["fragments"; "items"; "<0-d array as scalar>"; "type"] ].
Proof. vm_compute. reflexivity. Qed.

(** ... and every instance whose arrays at those fields have at least one dimension conforms ([env_s]: those fields
    declared never 0-d; all other ndarray fields are covered by their validators; a 0-d return_result is a valid number). *)
Definition env_s : env_t := shape_env (plain_array_fields env) env.

Theorem C09_Molecule_conforms_0d_exact :
  forall v, Inh true env_s (TModel "Molecule") v -> Valid defs_Molecule S_Molecule (emit v).
Proof. apply (compat_sound true env_s defs_Molecule 64). vm_compute. reflexivity. Qed.

Theorem C09_AtomicResultProperties_conforms_0d_exact :
  forall v, Inh true env (TModel "AtomicResultProperties") v ->
            Valid defs_AtomicResultProperties S_AtomicResultProperties (emit v).
Proof. apply (compat_sound true env defs_AtomicResultProperties 64). vm_compute. reflexivity. Qed.

Theorem C09_AtomicResult_conforms_0d_exact :
  forall v, Inh true (uniq_env basis_unique_sites env_s) (TModel "AtomicResult") v ->
            Valid defs_AtomicResult S_AtomicResult (emit v).
Proof. apply (compat_sound true (uniq_env basis_unique_sites env_s) defs_AtomicResult 64). vm_compute. reflexivity. Qed.

(** A second finding (C09-scalar-array-0d): a scalar given to an ndarray field that has no shape validator is kept
    as a 0-d array and emitted as a bare number, which the schema ("type": "array") rejects.  [Inh true] admits
    0-d arrays.  After /repo e040dda the fields this can still happen to are WavefunctionProperties.localized_fock_a/_b
    (reached through AtomicResult.wavefunction) and, for a molecule built with validate=False,
    Molecule.atomic_numbers / mass_numbers / atom_labels. *)
Definition he_atom : pval :=
  PModel [("symbols", PArr AStr [1%N] [PStr "He"]); ("geometry", PArr AFloat [1%N; 3%N] [PFloat 0; PFloat 0; PFloat 0])].
Definition result_with_scalar_localized_fock : pval :=
  PModel [("molecule", he_atom); ("driver", PStr "energy"); ("model", PModel [("method", PStr "hf")]);
          ("protocols", PModel [("wavefunction", PStr "all")]);
          ("provenance", PModel [("creator", PStr "x")]); ("properties", PModel []);
          ("wavefunction", PModel [("basis", basis_with [shell0]); ("restricted", PBool true);
                                   ("localized_fock_a", PArr AFloat [] [PFloat 1])]);
          ("return_result", PFloat 1); ("success", PBool true)].
Definition unvalidated_molecule_scalar_Z : pval :=
  PModel [("symbols", PArr AStr [1%N] [PStr "He"]); ("geometry", PArr AFloat [1%N; 3%N] [PFloat 0; PFloat 0; PFloat 0]);
          ("atomic_numbers", PArr AInt [] [PInt 2]); ("extras", PDict [])].

Theorem C09_scalar_in_array_field_refuted :
  (Inh true env (TModel "AtomicResult") result_with_scalar_localized_fock /\
   ~ Valid (strip_defs defs_AtomicResult) (strip_unique S_AtomicResult) (emit result_with_scalar_localized_fock)) /\
  (Inh true env (TModel "Molecule") unvalidated_molecule_scalar_Z /\
   ~ Valid defs_Molecule S_Molecule (emit unvalidated_molecule_scalar_Z)).
Proof.
  split; split; try (apply (inhabitsb_sound 64); vm_compute; reflexivity);
    apply (validates_complete 64); vm_compute; reflexivity.
Qed.

(** to_schema / from_schema core. Fragments built from separators list every atom exactly once, in order
    (hence from_schema accepts them without reordering) ... *)
Theorem C09_fragments_cover : forall n seps, wf_seps n seps ->
    List.concat (frags_of_seps n seps) = List.seq 0 n /\ contiguous (frags_of_seps n seps) /\
    List.length (frags_of_seps n seps) = S (List.length seps).
Proof. intros n seps H. split; [apply frags_cover|split; [apply frags_contiguous|apply frags_count]]; assumption. Qed.

(** ... and from_schema recovers the separators. *)
Theorem C09_separators_roundtrip : forall n seps, wf_seps n seps -> seps_of_frags (frags_of_seps n seps) = seps.
Proof. exact seps_roundtrip. Qed.

(** Conversely a contiguous fragment pattern (what from_schema accepts without reordering) is reproduced by
    from_schema followed by to_schema. *)
Theorem C09_fragments_roundtrip : forall frags, frags <> [] -> contiguous frags ->
    frags_of_seps (List.length (List.concat frags)) (seps_of_frags frags) = frags.
Proof. exact frags_roundtrip. Qed.

(** QCSchema dtypes export only Bohr, and the exported coordinates are the stored ones times the molrec's own
    Bohr-per-unit factor (1 for Bohr; input_units_to_au if present, else the conversion factor, for Angstrom). *)
Theorem C09_exported_geometry_in_bohr : forall m u conv s, to_schema_core m u conv = Ok s ->
    u = Bohr /\ sc_frags s = frags_of_seps (mc_nat m) (mc_seps m) /\
    sc_geom s = map (fun x => (x * bohr_per_unit (mc_units m) (mc_iu2au m) conv)%Q) (mc_geom m) \/
    mc_units m = OtherUnit.
Proof. exact to_schema_core_ok. Qed.

Theorem C09_schema_roundtrip_core : forall m conv s,
    wf_seps (mc_nat m) (mc_seps m) -> to_schema_core m Bohr conv = Ok s ->
    let m' := from_schema_core s in
    mc_nat m' = mc_nat m /\ mc_seps m' = mc_seps m /\ mc_units m' = Bohr /\
    exists s', to_schema_core m' Bohr conv = Ok s' /\ sc_frags s' = sc_frags s /\
               Forall2 Qeq (sc_geom s') (sc_geom s).
Proof. exact core_roundtrip. Qed.

(** ** Whole-record translation (Model/SchemaTrans.v on C04's molrec / from_arrays model).
    Every molrec that from_arrays accepts under the settings from_schema uses (tooclose, mtol, zero_ghost_fragments at from_arrays'
    defaults, read from its signature), stored in Bohr, with at least one atom and non-negative separators: to_schema (dtype 1 or 2)
    succeeds, from_schema accepts the exported dictionary, and the molrec it returns is the original one (masses up to equality of
    rationals) except that input_units_to_au is gone. *)
Theorem C09_schema_roundtrip_full : forall r m dtype conv,
    from_arrays r = Ok m -> schema_settings r -> m_units m = "Bohr" -> m_geom m <> [] ->
    Forall (fun s => (0 <= s)%Z) (m_seps m) -> dtype = 1%Z \/ dtype = 2%Z ->
    exists d m', to_schema_full m dtype Bohr conv = Ok d /\ from_schema_full (r_nonphysical r) d = Ok m' /\
                 molrec_equiv m' (forget_iutau m).
Proof. exact schema_roundtrip_full. Qed.

(** The same for a molrec stored in Angstrom: the exported coordinates are the stored ones times the Bohr-per-Angstrom factor f
    (the molrec's own input_units_to_au, else the conversion factor); for f >= 1 (from_arrays only accepts input_units_to_au within
    0.05 of 1/bohr2angstroms = 1.88..., and the conversion factor is that number) the rescaled atoms are at least as far apart, from_schema
    accepts the dictionary and returns the same molecule expressed in Bohr. *)
Theorem C09_schema_roundtrip_angstrom : forall r m dtype conv,
    from_arrays r = Ok m -> schema_settings r -> m_units m = "Angstrom" -> m_geom m <> [] ->
    Forall (fun s => (0 <= s)%Z) (m_seps m) -> dtype = 1%Z \/ dtype = 2%Z -> (1 <= bohr_factor m conv)%Q ->
    exists d m', to_schema_full m dtype Bohr conv = Ok d /\ from_schema_full (r_nonphysical r) d = Ok m' /\
                 molrec_equiv m' (in_bohr (bohr_factor m conv) m).
Proof. exact schema_roundtrip_angstrom. Qed.

(** ... and translating the molrec that came back exports the same dictionary again. *)
Theorem C09_schema_second_translation : forall r m dtype conv d m',
    from_arrays r = Ok m -> m_units m = "Bohr" -> dtype = 1%Z \/ dtype = 2%Z ->
    to_schema_full m dtype Bohr conv = Ok d -> molrec_equiv m' (forget_iutau m) ->
    exists d', to_schema_full m' dtype Bohr conv = Ok d' /\ d_name d' = d_name d /\ d_version d' = d_version d /\
               match d_nested d', d_nested d with
               | Some a, Some b => smol_equiv a b
               | None, None => smol_equiv (d_top d') (d_top d)
               | _, _ => False
               end.
Proof. exact schema_second_translation. Qed.

(** The hypothesis on the separators cannot be dropped: from_arrays accepts fragment_separators=[-1] (numpy reads it as a slice
    index) and keeps it; the exported fragments are [[0,1],[2]] and from_schema returns separators [2]. *)
Theorem C09_roundtrip_negative_separators_refuted :
  exists r m d m', from_arrays r = Ok m /\ schema_settings r /\ m_units m = "Bohr" /\ m_geom m <> [] /\
    to_schema_full m 2 Bohr 1 = Ok d /\ from_schema_full (r_nonphysical r) d = Ok m' /\
    m_seps m = [(-1)%Z] /\ m_seps m' = [2%Z] /\ s_fragments (doc_mol d) = Some [[0; 1]; [2]]%Z.
Proof. exact roundtrip_negative_separators_refuted. Qed.

(** Whatever header to_schema writes for a dtype (generated table) is recognised by from_schema's rules (generated), which then
    select the dictionary that holds the molecule. *)
Theorem C09_headers_recognised : forall dtype name ver nested mol,
    to_schema_header dtype = Some (name, ver, nested) ->
    select_mol (match nested with
                | Some _ => {| d_name := Some name; d_version := Some ver; d_top := no_mol; d_nested := Some mol |}
                | None => {| d_name := Some name; d_version := Some ver; d_top := mol; d_nested := None |}
                end) = Ok mol.
Proof. exact header_recognised. Qed.

(** Key tables read from the two ASTs: a molrec key exported under schema key k is the from_arrays argument filled from k ... *)
Theorem C09_schema_keys_inverse : forall mk sk, In (mk, sk) exported_pairs -> In (mk, sk) read_pairs.
Proof. exact schema_keys_inverse. Qed.

(** ... every exported key but "validated" is read, nothing is read that is not written, and a key that from_schema requires
    (ms[key]) is written unconditionally. *)
Theorem C09_schema_keys_complete :
  (forall sk s c, In (sk, s, c) to_schema_fields -> s <> SConstTrue -> exists kw rq ct, In (kw, sk, rq, ct) from_schema_reads) /\
  (forall kw sk rq ct, In (kw, sk, rq, ct) from_schema_reads -> exists s c, In (sk, s, c) to_schema_fields) /\
  (forall kw sk ct, In (kw, sk, true, ct) from_schema_reads -> exists s, In (sk, s, false) to_schema_fields).
Proof. exact schema_keys_complete. Qed.

(** Bohr, whole record: an export succeeds only for units Bohr and dtype 1 or 2 and carries the stored coordinates through the unit
    branch; any other unit is refused with ValidationError; whatever from_schema accepts is a Bohr molrec. *)
Theorem C09_to_schema_exports_bohr : forall m dtype u conv d, to_schema_full m dtype u conv = Ok d ->
    u = Bohr /\ (dtype = 1%Z \/ dtype = 2%Z) /\ doc_mol d = export_mol m Bohr conv /\
    s_geometry (doc_mol d) = Some (geom_scale (lunit_of (m_units m)) Bohr (m_iutau m) conv (m_geom m)).
Proof. exact to_schema_full_ok. Qed.

Theorem C09_to_schema_refuses_other_units : forall m dtype u conv, u <> Bohr ->
    exists k, to_schema_full m dtype u conv = Err k /\ k = Validation.
Proof. exact to_schema_refuses_other_units. Qed.

Theorem C09_from_schema_reads_bohr : forall np d m', from_schema_full np d = Ok m' -> m_units m' = "Bohr" /\ m_iutau m' = None.
Proof. exact from_schema_reads_bohr. Qed.

(** Non-vacuity: a two-fragment molecule (He ... ghost He) with connectivity inhabits the Molecule descriptor,
    its emission is accepted by the validator; a basis set with a fused sp shell and an ECP likewise. *)
Definition ex_mol : pval :=
  PModel [("schema_name", PStr "qcschema_molecule"); ("schema_version", PInt 2); ("validated", PBool true);
          ("symbols", PArr AStr [2%N] [PStr "He"; PStr "He"]);
          ("geometry", PArr AFloat [2%N; 3%N] [PFloat 0; PFloat 0; PFloat 0; PFloat 0; PFloat 0; PFloat (7 # 2)]);
          ("name", PStr "He2"); ("comment", PNone); ("molecular_charge", PFloat 0); ("molecular_multiplicity", PInt 1);
          ("real", PArr ABool [2%N] [PBool true; PBool false]);
          ("connectivity", PList [PList [PInt 0; PInt 1; PFloat 1]]);
          ("fragments", PList [PArr AInt [1%N] [PInt 0]; PArr AInt [1%N] [PInt 1]]);
          ("fragment_charges", PList [PFloat 0; PFloat 0]); ("fragment_multiplicities", PList [PInt 1; PInt 1]);
          ("fix_com", PBool false); ("fix_orientation", PBool false);
          ("provenance", PModel [("creator", PStr "QCElemental"); ("version", PStr "x"); ("routine", PStr "r")]);
          ("extras", PDict [("k", PNone)])].
Example C09_ex_molecule :
  Inh false env (TModel "Molecule") ex_mol /\ validates 64 defs_Molecule S_Molecule (emit ex_mol) = Ok true /\
  is_obj (emit ex_mol) = true.
Proof. split; [apply (inhabitsb_sound 64); vm_compute; reflexivity|split; vm_compute; reflexivity]. Qed.

Definition ex_basis : pval :=
  PModel [("name", PStr "b"); ("center_data", PDict [("c", PModel [
            ("electron_shells", PList [PModel [("angular_momentum", PList [PInt 0; PInt 1]); ("harmonic_type", PStr "cartesian");
                                               ("exponents", PList [PFloat (1 # 2); PFloat 3]);
                                               ("coefficients", PList [PList [PFloat 1; PFloat 2]; PList [PFloat 3; PFloat 4]])]]);
            ("ecp_electrons", PInt 10);
            ("ecp_potentials", PList [PModel [("ecp_type", PStr "scalar"); ("angular_momentum", PList [PInt 2]);
                                              ("r_exponents", PList [PInt 2]); ("gaussian_exponents", PList [PFloat 1]);
                                              ("coefficients", PList [PList [PFloat 1]])]])])]);
          ("atom_map", PList [PStr "c"; PStr "c"]); ("nbf", PInt 8)].
Example C09_ex_basis :
  Inh false env (TModel "BasisSet") ex_basis /\ Inh false env_u (TModel "BasisSet") ex_basis /\
  validates 64 defs_BasisSet S_BasisSet (emit ex_basis) = Ok true.
Proof. split; [|split]; try (apply (inhabitsb_sound 64); vm_compute; reflexivity). vm_compute; reflexivity. Qed.

Example C09_ex_roundtrip :
  wf_seps 5 [2; 3]%nat /\ frags_of_seps 5 [2; 3]%nat = [[0; 1]; [2]; [3; 4]]%nat /\
  seps_of_frags [[0; 1]; [2]; [3; 4]]%nat = [2; 3]%nat /\ contiguous [[0; 1]; [2]; [3; 4]]%nat.
Proof. repeat split; vm_compute; auto. Qed.

(** Clause B, the free-text entries: name and comment through to_schema (dtype 1 or 2) and from_schema.  [formula] =
    formula_generator(elem), the name to_schema gives an unnamed molecule (a parameter). *)
Theorem C09_name_comment_roundtrip : forall formula x,
    from_schema_extras (to_schema_extras formula x) =
    {| x_name := Some (match x_name x with Some n => n | None => formula end); x_comment := x_comment x |}.
Proof. exact extras_roundtrip. Qed.
Theorem C09_named_molrec_extras_roundtrip : forall formula n c,
    from_schema_extras (to_schema_extras formula {| x_name := Some n; x_comment := c |}) = {| x_name := Some n; x_comment := c |}.
Proof. exact extras_roundtrip_named. Qed.
Theorem C09_name_comment_second_translation : forall formula formula' x,
    to_schema_extras formula' (from_schema_extras (to_schema_extras formula x)) = to_schema_extras formula x.
Proof. exact extras_second_translation. Qed.
Theorem C09_comment_exported_iff_present : forall formula x, x_comment (to_schema_extras formula x) = None <-> x_comment x = None.
Proof. exact comment_exported_iff. Qed.

(** Clause C, geometry.  [prep] = float_prep, [orient_fn] = _orient_molecule_internal (parameters); the branch of Molecule.__init__
    and the noise constants are generated from the AST on every run (Gen/MolGeomInit.v).
    A dictionary that says validated=True (what mol.dict() of a validated molecule says) is stored coordinate for coordinate. *)
Theorem C09_rebuilt_keeps_geometry : forall (G : Type) (prep : Z -> G -> G) (orient_fn : G -> G) noise_kw g,
    stored_geometry G prep orient_fn false None true false noise_kw g = g.
Proof. exact rebuilt_keeps_geometry. Qed.
Theorem C09_rebuilt_same_hashed_geometry : forall (G : Type) (prep : Z -> G -> G) (orient_fn : G -> G) noise_kw g,
    hashed_geometry G prep (stored_geometry G prep orient_fn false None true false noise_kw g) = hashed_geometry G prep g.
Proof. exact rebuilt_same_hashed_geometry. Qed.
(** The same dictionary without the flag is validated again, at the default truncation: get_hash is fed the same coordinates,
    provided float_prep is idempotent at GEOMETRY_NOISE. *)
Theorem C09_revalidated_same_hashed_geometry : forall (G : Type) (prep : Z -> G -> G) (orient_fn : G -> G),
    (forall g, prep hash_geometry_noise (prep hash_geometry_noise g) = prep hash_geometry_noise g) ->
    forall g, hashed_geometry G prep (stored_geometry G prep orient_fn false None false false None g) = hashed_geometry G prep g.
Proof. exact revalidated_same_hashed_geometry. Qed.
Theorem C09_unvalidated_keeps_geometry : forall (G : Type) (prep : Z -> G -> G) (orient_fn : G -> G) validated_kw noise_kw g,
    stored_geometry G prep orient_fn false (Some false) validated_kw false noise_kw g = g.
Proof. exact explicit_novalidate_keeps_geometry. Qed.
Example C09_ex_prep_idempotent :
  (forall g, trunc_prep hash_geometry_noise (trunc_prep hash_geometry_noise g) = trunc_prep hash_geometry_noise g) /\
  trunc_prep hash_geometry_noise [12345678912345678912; -5] = [12345678000000000000; -1000000000000] /\
  stored_geometry (list Z) trunc_prep (fun g => g) false None false false (Some 13) [12345678912345678912] = [12345678912340000000].
Proof. split; [exact trunc_prep_idem | split; vm_compute; reflexivity]. Qed.

Print Assumptions C09_validator_sound.
Print Assumptions C09_validator_complete.
Print Assumptions C09_inhabits_checker_sound.
Print Assumptions C09_compatible_sound.
Print Assumptions C09_compatible_never_rejected.
Print Assumptions C09_Molecule_conforms.
Print Assumptions C09_Provenance_conforms.
Print Assumptions C09_AtomicResultProperties_conforms.
Print Assumptions C09_BasisSet_conforms_modulo_uniqueItems.
Print Assumptions C09_AtomicInput_conforms_modulo_uniqueItems.
Print Assumptions C09_AtomicResult_conforms_modulo_uniqueItems.
Print Assumptions C09_strip_unique_weakens.
Print Assumptions C09_duplicate_free_enforced.
Print Assumptions C09_BasisSet_valid_iff_duplicate_free.
Print Assumptions C09_AtomicInput_valid_iff_duplicate_free.
Print Assumptions C09_AtomicResult_valid_iff_duplicate_free.
Print Assumptions C09_incompat_sites_exact.
Print Assumptions C09_BasisSet_incompat_sites.
Print Assumptions C09_BasisSet_conforms_refuted.
Print Assumptions C09_unguarded_array_fields.
Print Assumptions C09_Molecule_0d_sites.
Print Assumptions C09_Molecule_conforms_0d_exact.
Print Assumptions C09_AtomicResultProperties_conforms_0d_exact.
Print Assumptions C09_AtomicResult_conforms_0d_exact.
Print Assumptions C09_scalar_in_array_field_refuted.
Print Assumptions C09_fragments_cover.
Print Assumptions C09_separators_roundtrip.
Print Assumptions C09_fragments_roundtrip.
Print Assumptions C09_exported_geometry_in_bohr.
Print Assumptions C09_schema_roundtrip_core.
Print Assumptions C09_schema_roundtrip_full.
Print Assumptions C09_schema_roundtrip_angstrom.
Print Assumptions C09_schema_second_translation.
Print Assumptions C09_roundtrip_negative_separators_refuted.
Print Assumptions C09_headers_recognised.
Print Assumptions C09_schema_keys_inverse.
Print Assumptions C09_schema_keys_complete.
Print Assumptions C09_to_schema_exports_bohr.
Print Assumptions C09_to_schema_refuses_other_units.
Print Assumptions C09_from_schema_reads_bohr.
Print Assumptions C09_name_comment_roundtrip.
Print Assumptions C09_named_molrec_extras_roundtrip.
Print Assumptions C09_name_comment_second_translation.
Print Assumptions C09_comment_exported_iff_present.
Print Assumptions C09_rebuilt_keeps_geometry.
Print Assumptions C09_rebuilt_same_hashed_geometry.
Print Assumptions C09_revalidated_same_hashed_geometry.
Print Assumptions C09_unvalidated_keeps_geometry.
