(** C12 — Alignment finds the optimal proper rigid motion and recovers known ones.
    Property theorems only.  [genF]/[genU] (Gen/Quat.v) are regenerated from the F[i,j] = ... and U[i,j] = ...
    assignments of qcelemental.molutil.align.kabsch_quaternion on every run, [gen_kabsch_align] (Gen/KabschAlign.v)
    from the body of kabsch_align; Model/Kabsch.v models kabsch_align (weight=None) and the candidate loop of B787,
    Model/KabschPerm.v the 'permutative' candidate generator, Model/KabschDriver.v their composition (the whole
    B787 driver for algorithm='permutative'); LAPACK's eigh enters only through the
    hypothesis [eigh_spec] / [eigtop_ok] (F V = V diag(w), V^T V = V V^T = I, w ascending), which the
    correspondence evaluates on what LAPACK actually returned.
    [residual Rs Cs q] = sum_k |r_k - c_k . U(q)|^2  (row vectors, as the code's C.dot(RR)).

    CLAUSE MAP (statement of C12 in properties.jsonl, clause by clause):
    (a) "returns a proper rotation (orthogonal, determinant +1)":  C12_U_gram, C12_U_det, C12_U_proper (against the
        translated U); C12_kabsch_align_rotation_always_proper (kabsch_align, short-cut path included);
        weighted: C12_weighted_kabsch_align_optimal.
    (b) "a shift, and an RMSD that equals the RMSD actually obtained by applying them":
        C12_reported_rmsd_is_applied_rmsd (kabsch_align vs the AlignmentMill B787 builds, any ordering);
        C12_kabsch_align_shortcut (on the allclose short-cut the recipe is the identity, reported 0, and the
        geometries differ by at most the allclose tolerance - the only case where reported and applied differ);
        driver: C12_selected_solution_attains_reported_rmsd (the solution B787 holds is one of its trials and
        best_rmsd is that trial's RMSD), restated for the composed driver in C12_driver_recovers_shuffled_rigid_copy.
    (c) "not larger than that of any other proper rotation about the centroids":  C12_residual_identity,
        C12_top_eigvec_optimal, C12_kabsch_optimal_over_quaternions, C12_kabsch_minimum_value,
        C12_every_proper_rotation_is_U, C12_kabsch_optimal_over_proper_rotations,
        C12_kabsch_align_proper_and_optimal; over the trials of the driver: C12_selected_rmsd_is_minimal,
        C12_selected_rmsd_is_minimal_or_converged (any run_to_completion / mols_align setting).
    (d) "translated, rotated ... copy: RMSD zero, maps it back atom by atom, ... for non-collinear molecules the
        rotation and shift are those that were applied":  C12_recovers_rigid_copy (fixed atom map, ANY proper
        rotation and shift).
    (e) "... and (for the permutation search) atom-shuffled copy ... with elements matching":
        C12_candidates_are_label_preserving_permutations, C12_true_ordering_is_a_candidate,
        C12_rigid_motion_preserves_distances, and the end-to-end C12_driver_recovers_shuffled_rigid_copy (whole
        'permutative' driver: RMSD is that of a zero residual, returned map is a label-preserving permutation,
        the returned recipe applied to the copy gives the reference atom by atom - the last under the stated
        "RMSD 0 only for residual 0" hypothesis, i.e. up to the rounding to 8 decimals).
        With a symmetry-equivalent atom map another rotation is equally exact: "the applied rotation" is claimed
        for the fixed map only (d); for the search only correspondence/oracle.
    (f) "Mirror images are matched only when mirror matching is requested":  C12_mirror_only_on_request (selection
        loop), restated for the composed driver in C12_driver_recovers_shuffled_rigid_copy (mirror flag false
        unless run_mirror and not superimposable).  That a proper rotation cannot superimpose a chiral molecule on
        its mirror image is the definition of chirality: only oracle (chiral molecules vs mirror images).
    (g) errors:  C12_no_solution_only_if_no_trial_below_100, C12_driver_errors (ValidationError / the AttributeError
        of an empty search only).
    (h) model = code:  C12_translated_kabsch_align_is_model (generated from the source); F/U are used directly from
        Gen/Quat.v; selection loop, candidate generator, applied residual: correspondence at K = Q.
    (i) the scramble generator (anchored mechanism):  C12_random_rotation_is_proper, C12_random_rotation_domain,
        C12_random_rotation_no_deflection (against the translated matrix algebra of random_rotation_matrix).
    Only correspondence/oracle: Molecule.align / Molecule.scramble wrappers, compute_scramble,
    algorithm='hungarian_uno' (needs networkx; solver covered by C14). *)
From Coq Require Import List Arith Lia Lra Reals Bool QArith.
Open Scope bool_scope.
Require Import QV.Common.Outcome QV.Common.AlignAlg QV.Common.AlignAlgFacts QV.Common.AlignAlgQuat QV.Common.AlignAlgR
               QV.Gen.Quat QV.Model.Mill QV.Model.Kabsch QV.Proofs.Mill QV.Proofs.Kabsch QV.Proofs.KabschR QV.Proofs.KabschSurj
               QV.Model.KabschPerm QV.Proofs.KabschPerm QV.Gen.KabschAlign QV.Proofs.KabschGen
               QV.Model.KabschDriver QV.Proofs.KabschDriver QV.Model.Rand3dRot QV.Gen.Rand3dRot QV.Proofs.Rand3dRot.
Import ListNotations.

(** U(q)^T U(q) = (|q|^2)^2 I and det U(q) = (|q|^2)^3, over any commutative ring, by [ring] against the
    translated source polynomials. *)
Theorem C12_U_gram :
  forall (K : Type) (KO : Ops K) (KR : RingLaws K) (q : quat K),
  mmul (mtrans (genU q)) (genU q) = mscale (kmul (n2 q) (n2 q)) mid.
Proof. exact @U_gram. Qed.

Theorem C12_U_det :
  forall (K : Type) (KO : Ops K) (KR : RingLaws K) (q : quat K),
  det3 (genU q) = kmul (kmul (n2 q) (n2 q)) (n2 q).
Proof. exact @U_det. Qed.

(** For a unit quaternion the returned matrix is a proper rotation. *)
Theorem C12_U_proper :
  forall (K : Type) (KO : Ops K) (KR : RingLaws K) (q : quat K),
  n2 q = k1 -> orthogonal (genU q) /\ det3 (genU q) = k1.
Proof. exact @U_proper. Qed.

(** The residual identity, for every quaternion and ANY number of points (induction on the point list):
    sum |r_k - c_k.U(q)|^2 = sum|r|^2 + |q|^4 sum|c|^2 - 2 q^T F q  with F = genF(cov), cov = sum_k r_k c_k^T. *)
Theorem C12_residual_identity :
  forall (K : Type) (KO : Ops K) (KR : RingLaws K) (q : quat K) (Rs Cs : list (vec3 K)),
  length Rs = length Cs ->
  sumsq (lsub Rs (map (fun c => vmat c (genU q)) Cs)) =
  ksub (kadd (sumsq Rs) (kmul (kmul (n2 q) (n2 q)) (sumsq Cs))) (kmul (kadd k1 k1) (quad4 (genF (cov_of Rs Cs)) q)).
Proof. exact @residual_identity_gen. Qed.

(** Rayleigh: under the eigh specification, q^T F q <= lambda_max |q|^2 for every q, with equality at the
    last column of V, which is a unit vector. *)
Theorem C12_top_eigvec_optimal :
  forall (F : mat4 R) (w : quat R) (V : mat4 R), eigh_spec F w V ->
  (forall q, (quad4 F q <= qcomp w 3 * n2 q)%R) /\ quad4 F (m4col V 3) = qcomp w 3 /\ n2 (m4col V 3) = 1%R.
Proof. exact top_eigvec_optimal. Qed.

(** Optimality over all rotations U(q), |q| = 1, and the value of the minimum. *)
Theorem C12_kabsch_optimal_over_quaternions :
  forall (Rs Cs : list (vec3 R)) (w : quat R) (V : mat4 R),
  length Rs = length Cs -> eigh_spec (genF (cov_of Rs Cs)) w V ->
  forall q, n2 q = 1%R -> (residual Rs Cs (m4col V 3) <= residual Rs Cs q)%R.
Proof. exact kabsch_optimal_over_quaternions_partial. Qed.

Theorem C12_kabsch_minimum_value :
  forall (Rs Cs : list (vec3 R)) (w : quat R) (V : mat4 R),
  length Rs = length Cs -> eigh_spec (genF (cov_of Rs Cs)) w V ->
  residual Rs Cs (m4col V 3) = (sumsq Rs + sumsq Cs - 2 * qcomp w 3)%R.
Proof. exact kabsch_minimum_value. Qed.

(** Every proper rotation (M^T M = I, det M = 1) is U(q) for some unit quaternion q. *)
Theorem C12_every_proper_rotation_is_U :
  forall M : mat3 R, mmul (mtrans M) M = mid -> det3 M = 1%R -> exists q : quat R, n2 q = 1%R /\ genU q = M.
Proof. exact every_proper_rotation_is_U. Qed.

(** Hence: optimal among ALL proper rotations ([residual_rot Rs Cs M] = sum_k |r_k - c_k . M|^2). *)
Theorem C12_kabsch_optimal_over_proper_rotations :
  forall (Rs Cs : list (vec3 R)) (w : quat R) (V : mat4 R),
  length Rs = length Cs -> eigh_spec (genF (cov_of Rs Cs)) w V ->
  forall M, proper M -> (residual Rs Cs (m4col V 3) <= residual_rot Rs Cs M)%R.
Proof. exact kabsch_optimal_over_proper_rotations. Qed.

(** kabsch_align (outside its allclose short-cut): the returned rotation is proper and the reported
    residual is not larger than that of any other proper rotation about the centroids. *)
Theorem C12_kabsch_align_proper_and_optimal :
  forall eigtop atol rtol (Rg Cg : list (vec3 R)),
  eigtop_ok eigtop (kabsch_F Rg Cg) -> length Rg = length Cg -> allclose atol rtol Rg Cg = false ->
  let o := kabsch_align eigtop atol rtol Rg Cg in
  proper (k_rot o) /\
  forall M, proper M -> (k_ssd o <= residual_rot (centred (length Rg) Rg) (centred (length Rg) Cg) M)%R.
Proof. exact kabsch_align_proper_and_optimal_full. Qed.

(** The RMSD reported by kabsch_align for cgeom[ordering] is the RMSD B787 obtains by applying
    AlignmentMill(shift=TT, rotation=RR, atommap=ordering) to cgeom. *)
Theorem C12_reported_rmsd_is_applied_rmsd :
  forall eigtop atol rtol (Rg Cg : list (vec3 R)) ordering Cp,
  eigtop_ok eigtop (kabsch_F Rg Cp) ->
  gather Cg ordering = Ok Cp -> length Rg = length Cp -> allclose atol rtol Rg Cp = false ->
  let o := kabsch_align eigtop atol rtol Rg Cp in
  applied_ssd o ordering Rg Cg = Ok (k_ssd o).
Proof. exact reported_rmsd_is_applied_rmsd. Qed.

(** A rigid copy c_k = r_k . Rot + t, for ANY proper rotation Rot and any shift t, is recovered: residual
    exactly zero, the returned recipe maps the copy back onto the reference atom by atom, and if the
    molecule is not collinear the returned rotation and shift are the applied ones (rotation = Rot^T,
    shift = t — the convention Molecule.scramble tests). *)
Theorem C12_recovers_rigid_copy :
  forall eigtop atol rtol (Rg : list (vec3 R)) (Rot : mat3 R) (t : vec3 R),
  proper Rot -> (0 < length Rg)%nat ->
  let Cg := map (fun r => vadd (vmat r Rot) t) Rg in
  eigtop_ok eigtop (kabsch_F Rg Cg) -> allclose atol rtol Rg Cg = false ->
  let o := kabsch_align eigtop atol rtol Rg Cg in
  k_ssd o = 0%R /\ align_coordinates (solution_mill o (seq 0 (length Rg)) false) false Cg = Ok Rg /\
  (forall i j, cross (nth i (centred (length Rg) Rg) v0) (nth j (centred (length Rg) Rg) v0) <> v0 ->
     k_rot o = mtrans Rot /\ k_shift o = t).
Proof. exact recovers_any_rigid_copy. Qed.

(** The candidate loop of B787 returns a mirror recipe only when run_mirror was requested (and the system
    is not superimposable on its mirror image). *)
Theorem C12_mirror_only_on_request :
  forall (K : Type) (KD : DivOps K) run_mirror superimposable rtc aconv hundred cs best i mir,
  run_mirror = false \/ superimposable = true ->
  b787_select run_mirror superimposable rtc aconv hundred cs = Ok (best, i, mir) -> mir = false.
Proof.
  intros K KD rm sup rtc aconv hundred cs best i mir [->| ->] H.
  - exact (mirror_only_on_request sup rtc aconv hundred cs best i mir H).
  - exact (mirror_not_tried_when_superimposable rm rtc aconv hundred cs best i mir H).
Qed.

(** Run to completion, the loop returns a minimum of the RMSDs of all trials it made (for any total,
    transitive comparison). *)
Theorem C12_selected_rmsd_is_minimal :
  forall (K : Type) (KD : DivOps K),
  (forall a b : K, kleb a b = true \/ kleb b a = true) ->
  (forall a b c : K, kleb a b = true -> kleb b c = true -> kleb a c = true) ->
  forall run_mirror superimposable aconv hundred cs best i mir,
  b787_select run_mirror superimposable true aconv hundred cs = Ok (best, i, mir) ->
  Forall (fun c => kleb best (c_rmsd c) = true /\
                   (run_mirror && negb superimposable = true -> kleb best (c_rmsd_m c) = true)) cs.
Proof. exact @b787_best_is_min. Qed.

(** ---- the atom-map search: _plausible_atom_orderings(algorithm="permutative") (Model/KabschPerm.v) ---- *)
(** Every candidate ordering the generator yields is a permutation of 0..n-1 that maps each reference atom
    to a concern atom carrying the same label (element/mass hash): whatever ordering B787 finally returns,
    elements match atom by atom.  For any distance matrices and tolerances. *)
Theorem C12_candidates_are_label_preserving_permutations :
  forall (K : Type) (KO : Ops K) (KD : DivOps K) (rr cc : nat -> nat -> K) (atol rtol : K) ref cur L,
  plausible_orderings rr cc atol rtol ref cur = Ok L ->
  forall ord, In ord L ->
    length ord = length ref /\ NoDup ord /\
    forall j, (j < length ref)%nat -> (nth j ord O < length cur)%nat /\ nth (nth j ord O) cur O = nth j ref O.
Proof. exact @candidates_are_label_preserving_permutations. Qed.

(** If the concern molecule is a copy of the reference with atoms shuffled (true ordering o: same labels,
    same interatomic distances — which a rigid motion preserves, next theorem), the true ordering is among
    the candidates, so the search cannot miss it.  [close_refl]: |x - x| <= atol + rtol |x|. *)
Theorem C12_true_ordering_is_a_candidate :
  forall (K : Type) (KO : Ops K) (KD : DivOps K) (rr cc : nat -> nat -> K) (atol rtol : K),
  (forall x : K, kleb (kabs (ksub x x)) (kadd atol (kmul rtol (kabs x))) = true) ->
  forall ref cur L (o : list nat),
  plausible_orderings rr cc atol rtol ref cur = Ok L ->
  length o = length ref -> NoDup o ->
  (forall j, (j < length ref)%nat -> (nth j o O < length cur)%nat /\ nth (nth j o O) cur O = nth j ref O) ->
  (forall a b, (a < length ref)%nat -> (b < length ref)%nat -> cc (nth a o O) (nth b o O) = rr a b) ->
  In o L.
Proof. exact @true_ordering_is_a_candidate. Qed.

Theorem C12_rigid_motion_preserves_distances :
  forall (K : Type) (KO : Ops K) (KR : RingLaws K) (M : mat3 K) (t u v : vec3 K),
  mmul M (mtrans M) = mid ->
  nsq (vsub (vadd (vmat u M) t) (vadd (vmat v M) t)) = nsq (vsub u v).
Proof. exact @rigid_motion_preserves_distances. Qed.

(** ---- the translated kabsch_align (Gen/KabschAlign.v, regenerated from the source on every run) ---- *)
(** For weight=None (w = ones) the translation of the straight-line arithmetic of kabsch_align is the
    hand-written model the theorems above are about: a swapped operand or transposed product in the source
    changes the generated term and breaks this proof. *)
Theorem C12_translated_kabsch_align_is_model :
  forall (K : Type) (KO : Ops K) (KD : DivOps K) (KR : RingLaws K) eigtop atol rtol (Rg Cg : list (vec3 K)),
  length Rg = length Cg ->
  gen_kabsch_align eigtop atol rtol (repeat k1 (length Rg)) Rg Cg = kabsch_align eigtop atol rtol Rg Cg.
Proof. exact @gen_kabsch_align_is_model. Qed.

(** Weighted alignment (sw = sqrt(w)): the returned rotation is proper and the reported residual is the
    minimum over all proper rotations of sum_k w_k |r'_k - c'_k . M|^2, r', c' centred on the plain centroids. *)
Theorem C12_weighted_kabsch_align_optimal :
  forall eigtop atol rtol (sw : list R) (Rg Cg : list (vec3 R)),
  eigtop_ok eigtop (weighted_F sw Rg Cg) -> length Rg = length Cg -> length sw = length Rg ->
  allclose atol rtol Rg Cg = false ->
  let o := gen_kabsch_align eigtop atol rtol sw Rg Cg in
  proper (k_rot o) /\
  forall M, proper M ->
    (k_ssd o <= residual_rot (scale_rows sw (centred (length Rg) Rg)) (scale_rows sw (centred (length Rg) Cg)) M)%R.
Proof. exact weighted_kabsch_align_optimal. Qed.

(** ---- the selection loop, continued; kabsch_align on its short-cut; the composed driver (Model/KabschDriver.v) ---- *)
(** Whatever the settings, the solution B787 holds at the end is one of the trials it made and best_rmsd is
    the RMSD measured for that very trial (plain or mirrored). *)
Theorem C12_selected_solution_attains_reported_rmsd :
  forall (K : Type) (KD : DivOps K) run_mirror superimposable rtc aconv hundred cs best i mir,
  b787_select run_mirror superimposable rtc aconv hundred cs = Ok (best, i, mir) ->
  exists c, nth_error cs i = Some c /\ best = (if mir then c_rmsd_m c else c_rmsd c).
Proof. exact @b787_select_attains. Qed.

(** B787 ends without a solution (hold_solution is None: AttributeError) only if no plain trial was below the
    initial best_rmsd = 100.0 - in particular if there was no candidate ordering at all. *)
Theorem C12_no_solution_only_if_no_trial_below_100 :
  forall (K : Type) (KD : DivOps K) run_mirror superimposable rtc aconv hundred cs e,
  b787_select run_mirror superimposable rtc aconv hundred cs = Err e ->
  e = PyAttributeError /\ Forall (fun c => klt (c_rmsd c) hundred = false) cs.
Proof. exact @b787_select_error. Qed.

(** For ANY run_to_completion / convergence setting: either the loop stopped early below the convergence
    threshold (only possible when run_to_completion is off), or the selected RMSD is a minimum over all trials. *)
Theorem C12_selected_rmsd_is_minimal_or_converged :
  forall (K : Type) (KD : DivOps K),
  (forall a b : K, kleb a b = true \/ kleb b a = true) ->
  (forall a b c : K, kleb a b = true -> kleb b c = true -> kleb a c = true) ->
  forall run_mirror superimposable rtc aconv hundred cs best i mir,
  b787_select run_mirror superimposable rtc aconv hundred cs = Ok (best, i, mir) ->
  (rtc = false /\ klt best aconv = true) \/
  Forall (fun c => kleb best (c_rmsd c) = true /\
                   (run_mirror && negb superimposable = true -> kleb best (c_rmsd_m c) = true)) cs.
Proof. exact @b787_best_is_min_or_converged. Qed.

(** ... and the unconditional statement ("the selected RMSD is minimal whatever the settings") is FALSE of the
    faithful model: with mols_align=True (a_convergence = 1e-3, no run_to_completion) the loop returns the first
    trial below 1e-3 although a later trial is exact.  B787 then fails its own final checks (atol 1e-4): replayed
    on the implementation, known finding C12-mols-align-early-exit. *)
Theorem C12_selected_rmsd_is_minimal_with_early_exit_refuted :
  exists (cs : list (@cand Q)) best i mir,
    b787_select false false false (1 # 1000)%Q 100%Q cs = Ok (best, i, mir) /\
    exists c, In c cs /\ klt (c_rmsd c) best = true.
Proof.
  exists [{| c_rmsd := (5 # 10000)%Q; c_rmsd_m := 0%Q |}; {| c_rmsd := 0%Q; c_rmsd_m := 0%Q |}], (5 # 10000)%Q, 0%nat, false.
  split; [vm_compute; reflexivity|].
  exists {| c_rmsd := 0%Q; c_rmsd_m := 0%Q |}. split; [right; left; reflexivity|vm_compute; reflexivity].
Qed.

(** On its np.allclose short-cut kabsch_align reports RMSD 0 with the identity recipe: applying it leaves
    cgeom as it is, which differs from rgeom by at most the allclose tolerance in every coordinate. *)
Theorem C12_kabsch_align_shortcut :
  forall eigtop atol rtol (Rg Cg : list (vec3 R)),
  allclose atol rtol Rg Cg = true ->
  let o := kabsch_align eigtop atol rtol Rg Cg in
  k_ssd o = 0%R /\ k_rot o = mid /\ k_shift o = v0 /\
  align_coordinates (solution_mill o (seq 0 (length Cg)) false) false Cg = Ok Cg /\
  Forall2 (vwithin atol rtol) Rg Cg.
Proof. exact kabsch_align_shortcut. Qed.

(** The rotation kabsch_align returns is proper on both of its paths. *)
Theorem C12_kabsch_align_rotation_always_proper :
  forall eigtop atol rtol (Rg Cg : list (vec3 R)),
  eigtop_ok eigtop (kabsch_F Rg Cg) -> length Rg = length Cg ->
  proper (k_rot (kabsch_align eigtop atol rtol Rg Cg)).
Proof. exact kabsch_align_rotation_always_proper. Qed.

(** END TO END for algorithm='permutative' (b787_permutative = validation + candidate generator + loop body per
    candidate + selection).  Let cgeom be a copy of rgeom moved by ANY proper rotation Rot and shift t and with
    its atoms shuffled ([o] is the true ordering: cgeom[o] = rgeom.Rot + t, labels and interatomic distances
    agree along o).  Then for every run_mirror / run_to_completion / convergence setting the driver returns a
    solution; the RMSD it reports is that of a zero residual (or, if it may stop early, below the convergence
    threshold); the returned atom map is a permutation under which element labels match atom by atom; no mirror
    recipe is returned unless mirror matching is on; the reported RMSD is the one obtained by applying the
    returned recipe to cgeom; and if only a zero residual has that RMSD (true of sqrt(ssd/n), true up to 5e-9 of
    its rounding to 8 decimals) the recipe maps cgeom onto rgeom atom by atom.
    [rmsd_of ssd n] stands for around(sqrt(ssd) * bohr2angstroms / sqrt(n), 8): only monotonicity is used.
    eigh is assumed correct only on the matrix of the true ordering. *)
Theorem C12_driver_recovers_shuffled_rigid_copy :
  forall (eigtop : mat4 R -> quat R) (katol krtol : R) (rmsd_of : R -> nat -> R) (rr cc : nat -> nat -> R) (patol prtol : R),
  (forall x : R, kleb (kabs (ksub x x)) (kadd patol (kmul prtol (kabs x))) = true) ->
  (forall s s' n, (0 <= s <= s')%R -> (rmsd_of s n <= rmsd_of s' n)%R) ->
  forall run_mirror superimposable rtc (aconv hundred : R) runiq cuniq (Rg Cg : list (vec3 R)) (Rot : mat3 R) (t : vec3 R)
         (o : list nat) L,
  proper Rot -> (0 < length Rg)%nat ->
  let n := length Rg in
  let Cfull := map (fun r => vadd (vmat r Rot) t) Rg in
  length Cg = n -> length runiq = n -> length cuniq = n ->
  length o = n -> NoDup o -> gather Cg o = Ok Cfull ->
  (forall j, (j < n)%nat -> nth (nth j o O) cuniq O = nth j runiq O) ->
  (forall a b, (a < n)%nat -> (b < n)%nat -> cc (nth a o O) (nth b o O) = rr a b) ->
  plausible_orderings rr cc patol prtol runiq cuniq = Ok L ->
  eigtop_ok eigtop (kabsch_F Rg Cfull) -> allclose katol krtol Rg Cfull = false ->
  (rmsd_of 0 n < hundred)%R ->
  exists best sol T,
    b787_permutative eigtop katol krtol rmsd_of rr cc patol prtol run_mirror superimposable rtc aconv hundred runiq cuniq Rg Cg
      = Ok (best, sol) /\
    (best = rmsd_of 0 n \/ (rtc = false /\ (best < aconv)%R)) /\
    (length (amap sol) = n /\ NoDup (amap sol) /\
     forall j, (j < n)%nat -> (nth j (amap sol) O < n)%nat /\ nth (nth j (amap sol) O) cuniq O = nth j runiq O) /\
    (run_mirror = false \/ superimposable = true -> mirror sol = false) /\
    align_coordinates sol false Cg = Ok T /\ best = rmsd_of (sumsq (lsub T Rg)) n /\
    ((forall s, (0 <= s)%R -> rmsd_of s n = rmsd_of 0 n -> s = 0%R) -> best = rmsd_of 0 n -> T = Rg).
Proof. exact b787_permutative_recovers_shuffled_copy. Qed.

(** The composed driver raises nothing but ValidationError (shapes or label multisets differ) and the
    AttributeError of a search that ends without a solution. *)
Theorem C12_driver_errors :
  forall (eigtop : mat4 R -> quat R) (katol krtol : R) (rmsd_of : R -> nat -> R) (rr cc : nat -> nat -> R) (patol prtol : R)
         run_mirror superimposable rtc (aconv hundred : R) runiq cuniq (Rg Cg : list (vec3 R)) e,
  length cuniq = length Cg ->
  b787_permutative eigtop katol krtol rmsd_of rr cc patol prtol run_mirror superimposable rtc aconv hundred runiq cuniq Rg Cg = Err e ->
  e = Validation \/ e = PyAttributeError.
Proof. exact b787_permutative_errors. Qed.

(** ---- the scramble generator: qcelemental.util.random_rotation_matrix (Gen/Rand3dRot.v, regenerated from the source) ---- *)
(** The matrix M = (V V^T - I) . R . R_z(pi) the code builds is a proper rotation for every theta and phi and every
    0 <= z <= 2 - i.e. for all random numbers in [0,1] and every deflection in [0,1] (next theorem): the rotations
    Molecule.scramble applies are within the quantifier of the recovery theorems above. *)
Theorem C12_random_rotation_is_proper :
  forall theta phi z : R, (0 <= z <= 2)%R ->
  proper (gen_rand_rot (sin phi) (cos phi) (sqrt z) (sqrt (2 - z)) (sin theta) (cos theta)).
Proof. exact random_rotation_is_proper. Qed.

Theorem C12_random_rotation_domain :
  forall x3 d : R, (0 <= x3 <= 1)%R -> (0 <= d <= 1)%R -> (0 <= x3 * 2 * d <= 2)%R.
Proof. exact rand_rot_z_domain. Qed.

(** deflection = 0 gives no rotation at all *)
Theorem C12_random_rotation_no_deflection :
  forall phi : R, gen_rand_rot (sin phi) (cos phi) (sqrt 0) (sqrt (2 - 0)) (sin 0) (cos 0) = mid.
Proof. exact random_rotation_no_deflection. Qed.

(** ---- non-vacuity ---- *)
(* reference (1,0,0),(0,2,0),(0,0,3) against itself: cov = diag(1,4,9), F = diag(14,-12,-6,4);
   eigh returns w = (-12,-6,4,14) and the permutation matrix V below; the top eigenvector is (1,0,0,0), U = I *)
Definition exP : list (vec3 R) := [(1, 0, 0); (0, 2, 0); (0, 0, 3)]%R.
Definition exW : quat R := (-12, -6, 4, 14)%R.
Definition exV : mat4 R := ((0, 0, 0, 1), (1, 0, 0, 0), (0, 1, 0, 0), (0, 0, 1, 0))%R.
Example C12_ex_eigh_spec : eigh_spec (genF (cov_of exP exP)) exW exV /\ m4col exV 3 = (1, 0, 0, 0)%R
                           /\ genU (m4col exV 3) = mid /\ residual exP exP (m4col exV 3) = 0%R.
Proof.
  split; [|split; [|split]].
  - unfold eigh_spec. cbv [exP exW exV cov_of genF madd outer vscale vadd m0 v0 m4mul m4trans m4diag m4id m4col m4ent m4row qcomp m4vec qdot].
    runfold. repeat split; try tuple_ring; lra.
  - reflexivity.
  - cbv [exV m4col m4ent m4row qcomp genU mid]. runfold. tuple_ring.
  - cbv [residual exP exV m4col m4ent m4row qcomp genU map vmat dot3 mcol ment mrow comp lsub vsub sumsq nsq]. runfold. ring.
Qed.
(* a unit quaternion with all components non-zero: U(1/2,1/2,1/2,1/2) is the cyclic permutation matrix *)
Example C12_ex_unit_quaternion :
  n2 ((1/2, 1/2, 1/2, 1/2)%R : quat R) = 1%R /\ genU ((1/2, 1/2, 1/2, 1/2)%R : quat R) = ((0, 0, 1), (1, 0, 0), (0, 1, 0))%R.
Proof. split; cbv [n2 qdot genU]; runfold; [field|]. repeat match goal with |- pair _ _ = pair _ _ => apply f_equal2 end; field. Qed.
(* the selection loop: the mirror trial of the second ordering wins when mirror matching is on, the plain one otherwise *)
Example C12_ex_select :
  b787_select true false true 0%Q 100%Q [{| c_rmsd := 3#1; c_rmsd_m := 2#1 |}; {| c_rmsd := 1#1; c_rmsd_m := 0#1 |}] = Ok (0#1, 1%nat, true)
  /\ b787_select false false true 0%Q 100%Q [{| c_rmsd := 3#1; c_rmsd_m := 2#1 |}; {| c_rmsd := 1#1; c_rmsd_m := 0#1 |}] = Ok (1#1, 1%nat, false).
Proof. split; vm_compute; reflexivity. Qed.

(* the tolerance hypothesis of C12_true_ordering_is_a_candidate holds for the code's atol = 1.0, rtol = 1e-5 *)
Example C12_ex_close_refl :
  forall x : R, @kleb R RDiv (@kabs R RDiv (x - x)%R) (1 + (1 / 100000) * @kabs R RDiv x)%R = true.
Proof.
  intros x. cbn [kleb kabs RDiv]. destruct (Rle_dec _ _) as [|N]; [reflexivity|]. exfalso. apply N.
  replace (x - x)%R with 0%R by ring. rewrite Rabs_R0. pose proof (Rabs_pos x). lra.
Qed.
(* three atoms C,H,H against the shuffled copy H,C,H: with atol = 1.0 both assignments of the two H atoms pass the filter *)
Example C12_ex_orderings :
  plausible_orderings (mat_fun 3 [0; 1; 3; 1; 0; 2; 3; 2; 0]%Q) (mat_fun 3 [0; 1; 2; 1; 0; 3; 2; 3; 0]%Q) 1%Q (1 # 100000)%Q
                      [0; 1; 1]%nat [1; 0; 1]%nat = Ok [[1; 0; 2]; [1; 2; 0]]%nat.
Proof. vm_compute. reflexivity. Qed.

(* hypotheses of C12_driver_recovers_shuffled_rigid_copy (with rmsd_of s n := s, 0 < 100, close_refl as in C12_ex_close_refl):
   two different atoms at (+-1,0,0); the copy is lifted by (0,0,1) and its atoms are swapped *)
Definition exdR : list (vec3 R) := [(1, 0, 0); (-1, 0, 0)]%R.
Definition exdC : list (vec3 R) := [(-1, 0, 1); (1, 0, 1)]%R.
Definition exdV : mat4 R := ((0, 0, 0, 1), (0, 0, 1, 0), (0, 1, 0, 0), (1, 0, 0, 0))%R.
Example C12_ex_driver_hypotheses :
  let Cfull := map (fun r => vadd (vmat r mid) (0, 0, 1)%R) exdR in
  proper mid /\ gather exdC [1; 0]%nat = Ok Cfull /\
  plausible_orderings (fun _ _ => 0%R) (fun _ _ => 0%R) 1%R (1 / 100000)%R [0; 1]%nat [1; 0]%nat = Ok [[1; 0]%nat] /\
  eigtop_ok (fun _ => (1, 0, 0, 0)%R) (kabsch_F exdR Cfull) /\
  allclose 0%R 0%R exdR Cfull = false.
Proof.
  assert (EC : map (fun r => vadd (vmat r mid) (0, 0, 1)%R) exdR = [(1, 0, 1); (-1, 0, 1)]%R).
  { cbv [exdR map vadd vmat mid mcol ment mrow comp dot3]. runfold.
    repeat match goal with |- cons _ _ = cons _ _ => f_equal | |- pair _ _ = pair _ _ => apply f_equal2 end; ring. }
  cbv zeta. rewrite EC. split; [|split; [|split; [|split]]].
  - split; cbv [mmul mtrans mid mk3 ment mrow comp vmat mcol dot3 det3]; runfold; [tuple_ring|ring].
  - reflexivity.
  - reflexivity.
  - exists (-2, -2, 2, 2)%R, exdV. split; [|reflexivity].
    assert (EF : kabsch_F exdR [(1, 0, 1); (-1, 0, 1)]%R = ((2, 0, 0, 0), (0, 2, 0, 0), (0, 0, -2, 0), (0, 0, 0, -2))%R).
    { cbv [kabsch_F exdR centred centroid vdivs vsum length map cov_of genF madd outer vscale vadd vsub m0 v0 kdiv kofnat RDiv INR].
      runfold. repeat match goal with |- pair _ _ = pair _ _ => apply f_equal2 end; field. }
    rewrite EF. unfold eigh_spec.
    cbv [exdV m4mul m4trans m4diag m4id m4col m4ent m4row qcomp m4vec qdot]. runfold. repeat split; try tuple_ring; lra.
  - cbv [allclose exdR vclose1 close1 kleb kabs RDiv]. runfold.
    destruct (Rle_dec (Rabs (0 - 1)) (0 + 0 * Rabs 1)) as [H|H]; [|rewrite !andb_false_r; reflexivity].
    exfalso. assert (E1 : Rabs (0 - 1) = 1%R) by (unfold Rabs; destruct (Rcase_abs (0 - 1)); lra).
    rewrite E1, Rabs_R1 in H. lra.
Qed.

(* random numbers 1/2 and deflection 1 are in the domain of C12_random_rotation_is_proper *)
Example C12_ex_random_rotation_domain : (0 <= 1 / 2 * 2 * 1 <= 2)%R.
Proof. lra. Qed.

Print Assumptions C12_U_gram.
Print Assumptions C12_U_det.
Print Assumptions C12_U_proper.
Print Assumptions C12_residual_identity.
Print Assumptions C12_top_eigvec_optimal.
Print Assumptions C12_kabsch_optimal_over_quaternions.
Print Assumptions C12_kabsch_minimum_value.
Print Assumptions C12_every_proper_rotation_is_U.
Print Assumptions C12_kabsch_optimal_over_proper_rotations.
Print Assumptions C12_kabsch_align_proper_and_optimal.
Print Assumptions C12_reported_rmsd_is_applied_rmsd.
Print Assumptions C12_recovers_rigid_copy.
Print Assumptions C12_mirror_only_on_request.
Print Assumptions C12_selected_rmsd_is_minimal.
Print Assumptions C12_candidates_are_label_preserving_permutations.
Print Assumptions C12_true_ordering_is_a_candidate.
Print Assumptions C12_rigid_motion_preserves_distances.
Print Assumptions C12_translated_kabsch_align_is_model.
Print Assumptions C12_weighted_kabsch_align_optimal.
Print Assumptions C12_selected_solution_attains_reported_rmsd.
Print Assumptions C12_no_solution_only_if_no_trial_below_100.
Print Assumptions C12_selected_rmsd_is_minimal_or_converged.
Print Assumptions C12_selected_rmsd_is_minimal_with_early_exit_refuted.
Print Assumptions C12_kabsch_align_shortcut.
Print Assumptions C12_kabsch_align_rotation_always_proper.
Print Assumptions C12_driver_recovers_shuffled_rigid_copy.
Print Assumptions C12_driver_errors.
Print Assumptions C12_random_rotation_is_proper.
Print Assumptions C12_random_rotation_domain.
Print Assumptions C12_random_rotation_no_deflection.
