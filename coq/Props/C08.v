(** C08 — Program input blocks state exactly the molecule they were made from.
    Property theorems only; each is closed by [exact] of a lemma from Proofs/Writers*.v.
    Model: Model/Writers.v ([to_lines] = the structured lines of to_string; [render_text] = its characters,
    compared byte for byte with the implementation on every run) over Gen/WriterTables.v (regenerated from
    to_string.py on every run: formats, unit words, keyword dictionaries, unit-factor branch [gen_factor]).

    CLAUSE MAP (statement of C08 in properties.jsonl -> theorems; "lines" = structured lines of the model, tied
    byte-exactly; "characters" = the rendered text re-read by an independent reader):
    - every supported program (14 dtypes, all molecules, all configurations) ........ every theorem quantifies over cfg/m;
      unknown dtype -> KeyError is part of [to_lines] (correspondence stream "nosuchprogram")
    - each atom once, in the molecule's order ........................................ lines: C08_atoms_listed_once_in_order (all 14);
      characters: C08_psi4/_xyz/_xyzplus/_qchem_text_states_the_molecule, C08_block_text_states_the_atoms (nwchem, cfour,
      orca, madness, terachem), C08_molpro_text_states_the_atoms, C08_mrchem_text_states_the_molecule, C08_gamess_text_states_the_molecule;
      turbomole, sdf: lines only (byte-exact correspondence + Python reader)
    - under the program's spelling for real and ghost atoms ........................... C08_program_spellings (generated templates =
      hand-written table), [is_view] in the theorems above; molpro ghosts: C08_molpro_ghosts_declared,
      C08_molpro_dummy_card_lists_the_ghosts
    - coordinates = molecule's coordinates converted to the requested unit ............ [is_view] (binary64 product with [factor_of]),
      C08_factor_table, C08_converted_value_nearest, C08_sdf_is_angstrom
    - printed at the requested precision .............................................. C08_printed_digits_nearest; characters: [printed]
      / [atomd_of] in the re-read theorems (sign, nearest integer, exponent -prec)
    - total charge and multiplicity in text or keywords ............................... C08_chgmult_stated (all dtypes that have a slot);
      characters: psi4, xyz+, qchem, mrchem theorems
    - fragment charge and multiplicity where the format has them (psi4, qchem) ........ lines: C08_fragments_stated; characters:
      C07_roundtrip_psi4 (carried_psi4), C08_qchem_text_states_the_molecule
    - an announced unit is the unit the coordinates are written in .................... C08_unit_word_is_written +
      C08_announced_unit_is_written_unit (all dtypes x all spellings of bohr/angstrom/nm/pm x stored unit x pinned iutau);
      characters: [p_units] in the psi4/xyz/xyz+/qchem theorems
    - width / atom_format / ghost_format overrides .................................... lines (any width, any override template of the
      modelled template language); characters only for the default templates *)
From Coq Require Import ZArith List String Ascii Bool.
Require Import QV.Common.Outcome QV.Common.WText QV.Common.WBin64 QV.Model.WriterTypes QV.Gen.WriterTables
               QV.Model.Writers QV.Proofs.Writers
               QV.Model.Text QV.Proofs.TextRT QV.Proofs.TextLex QV.Proofs.TextRoundTrip QV.Proofs.TextRoundTripXyz QV.Proofs.WritersReread
               QV.Proofs.WritersBlocks QV.Proofs.WritersBlocks2.
Import ListNotations.
Open Scope Z_scope.

(** For EVERY molecule and configuration: the atom lines of the text are exactly the visible atoms (all
    atoms; minus ghosts when ghost_format = ""), once each, in the molecule's order; each is spelled by the
    dtype's real/ghost template and carries its three coordinates multiplied (binary64) by the unit factor.
    ([mono 0 seps]: fragment separators non-decreasing, as from_arrays guarantees.) For sdf: all atoms,
    element symbol or the ghost word. *)
Theorem C08_atoms_listed_once_in_order : forall cfg m ls kw e,
  wt_find (s_lower (w_dtype cfg)) wt_table = Some e -> mono 0 (m_seps m) ->
  to_lines cfg m = Ok (ls, kw) -> listed_spec cfg m e ls.
Proof. exact to_lines_listed. Qed.

(** Total charge and multiplicity are stated where each program reads them (text line or keyword), with
    the molecule's values: xyz/xyz+ line 2, orca "*xyz c m", molpro set,charge / set,spin = m-1, psi4 first
    line, qchem line 2, mrchem text and keywords, cfour/gamess keywords, nwchem charge keyword and — iff the
    multiplicity is not 1 — dft__mult / scf__nopen = m-1 / mcscf__multiplicity, madness charge keyword and
    spin_restricted = "false" iff open shell.  (terachem, turbomole and sdf have no slot for either.) *)
Theorem C08_chgmult_stated : forall cfg m ls kw,
  to_lines cfg m = Ok (ls, kw) -> chgmult_stated (s_lower (w_dtype cfg)) m ls kw.
Proof. exact to_lines_chgmult. Qed.

(** psi4 / qchem with more than one fragment: the k-th fragment (the atoms between the (k-1)-th and k-th
    separator) appears as a block "--", "<its charge> <its multiplicity>", its atom lines; the lines before
    the block hold exactly the atoms of the earlier fragments. *)
Theorem C08_fragments_stated : forall cfg m ls kw,
  (s_lower (w_dtype cfg) = "psi4"%string \/ s_lower (w_dtype cfg) = "qchem"%string) ->
  mono 0 (m_seps m) -> m_seps m <> [] -> to_lines cfg m = Ok (ls, kw) ->
  forall k fr, nth_error (np_split (atom_entries ls) (m_seps m)) k = Some fr ->
    exists c mu pre post,
      nth_error (m_fchg m) k = Some c /\ nth_error (m_fmult m) k = Some mu
      /\ ls = pre ++ (LSep :: LChgMult "" c mu "" :: map LAtom fr) ++ post
      /\ atom_entries pre = List.concat (firstn k (np_split (atom_entries ls) (m_seps m))).
Proof. exact to_lines_fragments. Qed.

(** The unit word a branch looks up ([unit_label]) is the word that appears in the text / keywords. *)
Theorem C08_unit_word_is_written : forall cfg m ls kw e,
  wt_find (s_lower (w_dtype cfg)) wt_table = Some e -> to_lines cfg m = Ok (ls, kw) ->
  s_lower (w_dtype cfg) <> "nglview-sdf"%string ->
  unit_text_spec e cfg ls
  /\ ((wt_dtype e = "cfour" \/ wt_dtype e = "gamess" \/ wt_dtype e = "qchem")%string ->
     exists lbl, unit_label e (units_of e cfg) = Ok lbl /\ unit_kw_spec (wt_dtype e) lbl kw)
  /\ (wt_dtype e = "turbomole"%string -> exists lbl, unit_label e (units_of e cfg) = Ok lbl).
Proof. exact to_lines_unit_word. Qed.

(** Whenever a unit is announced it is the unit the coordinates are written in: for every dtype of the
    generated table, every spelling (any letter case) of bohr/angstrom/nm/pm as the request, both stored
    units, pinned input_units_to_au or not: if the word looked up means unit U ([denotes]: the hand-written
    meaning of each program's unit words), the factor applied to the coordinates is the stored -> U
    conversion ([conv_spec]). *)
Theorem C08_announced_unit_is_written_unit : forall e units lbl U stored iutau conv,
  In e wt_table -> (stored = "Bohr"%string \/ stored = "Angstrom"%string) ->
  unit_of_request units <> None ->
  unit_label e units = Ok (Some lbl) -> denotes (wt_dtype e) lbl = Some U ->
  gen_factor stored units iutau conv = conv_spec stored U iutau conv.
Proof. exact announced_unit_is_written_unit. Qed.

(** The unit-factor branch translated from to_string.py equals the stored -> requested conversion for all
    Bohr/Angstrom(/nm/pm) combinations, with and without input_units_to_au. *)
Theorem C08_factor_table : forall stored units iutau conv U,
  (stored = "Bohr"%string \/ stored = "Angstrom"%string) -> unit_of_request units = Some U ->
  gen_factor stored units iutau conv = conv_spec stored U iutau conv.
Proof. exact factor_table. Qed.

(** sdf announces nothing but is by definition in Angstrom: whenever it is produced, the factor is the
    stored -> Angstrom conversion. *)
Theorem C08_sdf_is_angstrom : forall cfg m ls kw e,
  s_lower (w_dtype cfg) = "nglview-sdf"%string -> wt_find (s_lower (w_dtype cfg)) wt_table = Some e ->
  (m_units m = "Bohr" \/ m_units m = "Angstrom")%string -> to_lines cfg m = Ok (ls, kw) ->
  factor_of e cfg m = conv_spec (m_units m) UAngstrom (m_iutau m) (w_conv cfg).
Proof. exact sdf_factor. Qed.

(** "under the program's spelling for real and ghost atoms": the generated per-dtype templates (and default
    units) are the hand-written table [spelling_spec] of each program's conventions. *)
Theorem C08_program_spellings : forall e,
  In e wt_table ->
  spelling_spec (wt_dtype e) = Some (wt_afmt e, wt_afmode e, wt_gfmt e, wt_gfmode e, wt_default_units e).
Proof. exact program_spellings. Qed.

(** molpro spells ghosts like real atoms and declares them on the dummy card: the card lists exactly the
    1-based positions of the ghost atoms ([ghost_indices_spec]) and is present whenever there is a ghost. *)
Theorem C08_molpro_ghosts_declared : forall cfg m ls kw,
  s_lower (w_dtype cfg) = "molpro"%string -> to_lines cfg m = Ok (ls, kw) ->
  ghost_indices (m_atoms m) 1 <> [] ->
  In (LText (String.append "dummy," (s_join "," (map dec_of_Z (ghost_indices (m_atoms m) 1))))) ls.
Proof. exact molpro_ghosts_declared. Qed.
Theorem C08_molpro_dummy_card_lists_the_ghosts : forall l k i,
  In i (ghost_indices l k) <-> exists a, k <= i /\ nth_error l (Z.to_nat (i - k)) = Some a /\ a_real a = false.
Proof. exact ghost_indices_spec. Qed.

(** "printed at the requested precision": the digits printed for a coordinate v = m * 2^e (e < 0) are the
    integer nearest to |v| * 10^p (error at most one half; exact for e >= 0, see [scaled_round_exact]). *)
Theorem C08_printed_digits_nearest : forall p v,
  be v < 0 -> 0 <= bm v -> 0 <= p ->
  2 * Z.abs (scaled_round p v * 2 ^ (- be v) - bm v * 10 ^ p) <= 2 ^ (- be v).
Proof. exact scaled_round_bound. Qed.

(** "converted to the requested unit": the written value is the exact product coordinate * factor rounded
    once to binary64 — sign = product of signs, error at most half a unit in the last place of the result. *)
Theorem C08_converted_value_nearest : forall a b, 0 <= bm a -> 0 <= bm b ->
  let r := b64mul a b in
  let e := be a + be b in
  bneg r = xorb (bneg a) (bneg b) /\ e <= be r
  /\ 2 * Z.abs (bm r * 2 ^ (be r - e) - bm a * bm b) <= 2 ^ (be r - e).
Proof. exact b64mul_bound. Qed.

(** Re-reading the rendered CHARACTERS with the reader model of C07 (Model/Text.v, tied to from_string): for
    every molecule the format can carry, the psi4 / xyz / xyz+ text states each atom once, in order, under the
    program's spelling ([is_view]: label = the template applied to the atom, coordinates = coordinate * factor in
    binary64), the coordinates as the decimals printed at the requested precision ([printed]), the unit, and — psi4,
    xyz+ — total charge and multiplicity (psi4 with one fragment states them as that fragment's). *)
Theorem C08_psi4_text_states_the_molecule : forall cfg m text kw w r,
  s_lower (w_dtype cfg) = "psi4"%string -> to_string_model cfg m = Ok (text, kw) ->
  unit_word (units_of e_psi4 cfg) = Some (w, r) -> psi4_fits cfg m -> mono 0 (m_seps m) ->
  exists atoms p,
    Forall2 (is_view (af_of e_psi4 cfg) (gf_of e_psi4 cfg) (factor_of e_psi4 cfg m)) (m_atoms m) atoms
    /\ parse "psi4" text = Ok p
    /\ p_elbl p = map av_label atoms
    /\ p_geom p = flat_map (printed (w_prec cfg)) atoms
    /\ p_units p = Some r
    /\ match m_seps m with
       | [] => p_fchg p = Some [Some (dz (m_chg m))] /\ p_fmult p = Some [Some (m_mult m)]
       | _ => p_molchg p = Some (dz (m_chg m)) /\ p_molmult p = Some (m_mult m)
       end.
Proof. exact psi4_text_states_the_molecule. Qed.
Theorem C08_xyz_text_states_the_molecule : forall cfg m text kw,
  s_lower (w_dtype cfg) = "xyz"%string -> w_afmt cfg = None -> w_gfmt cfg = None ->
  to_string_model cfg m = Ok (text, kw) -> unit_word_xyz (units_of e_xyz cfg) = Some ("", "Angstrom")%string ->
  xyz_fits cfg m ->
  exists atoms p,
    Forall2 (is_view "{elem}" "@{elem}" (factor_of e_xyz cfg m)) (m_atoms m) atoms
    /\ parse "xyz" text = Ok p
    /\ p_elbl p = map av_label atoms /\ p_geom p = flat_map (printed (w_prec cfg)) atoms /\ p_units p = Some "Angstrom"%string.
Proof. exact xyz_text_states_the_molecule. Qed.
Theorem C08_xyzplus_text_states_the_molecule : forall cfg m text kw w r,
  s_lower (w_dtype cfg) = "xyz+"%string -> w_afmt cfg = None -> w_gfmt cfg = None ->
  to_string_model cfg m = Ok (text, kw) -> unit_word_xyz (units_of e_xyzp cfg) = Some (w, r) ->
  xyzp_fits cfg m -> name_ok (mol_name m) ->
  exists atoms p,
    Forall2 (is_view "{elem}" "@{elem}" (factor_of e_xyzp cfg m)) (m_atoms m) atoms
    /\ parse "xyz+" text = Ok p
    /\ p_elbl p = map av_label atoms /\ p_geom p = flat_map (printed (w_prec cfg)) atoms /\ p_units p = Some r
    /\ p_molchg p = Some (dz (m_chg m)) /\ p_molmult p = Some (m_mult m).
Proof. exact xyzplus_text_states_the_molecule. Qed.

(** qchem, on CHARACTERS: strip "$molecule" / "$end", read the lines in between with the grammar the section shares
    with psi4 (total chg/mult, "--", fragment chg/mult, atom lines; ghosts "@El"), the unit being what the
    [input_bohr] keyword says ([read_qchem]): for every molecule the format can carry (any number of atoms and
    fragments, ghosts anywhere), either unit, any width / precision, the text + keyword state each atom once, in
    order, under the program's spelling, the printed coordinates, the unit, total and per-fragment charge and
    multiplicity. *)
Theorem C08_qchem_text_states_the_molecule : forall cfg m text kw w r,
  s_lower (w_dtype cfg) = "qchem"%string -> to_string_model cfg m = Ok (text, kw) ->
  unit_word_qchem (units_of e_qchem cfg) = Some (w, r) -> qchem_fits cfg m -> mono 0 (m_seps m) ->
  exists atoms p,
    Forall2 (is_view "{elem}" "@{elem}" (factor_of e_qchem cfg m)) (m_atoms m) atoms
    /\ kw_get "input_bohr" kw = Some (KVStr w) /\ read_qchem text w = Ok p
    /\ p_elbl p = map av_label atoms /\ p_geom p = flat_map (printed (w_prec cfg)) atoms /\ p_units p = Some r
    /\ match m_seps m with
       | [] => p_fchg p = Some [Some (dz (m_chg m))] /\ p_fmult p = Some [Some (m_mult m)]
       | seps => p_molchg p = Some (dz (m_chg m)) /\ p_molmult p = Some (m_mult m)
                 /\ p_fchg p = Some (map (fun k => Some (dz (nth k (m_fchg m) 0))) (seq 0 (S (List.length seps))))
                 /\ p_fmult p = Some (map (fun k => Some (nth k (m_fmult m) 0)) (seq 0 (S (List.length seps))))
       end.
Proof. exact qchem_text_states_the_molecule. Qed.

(** nwchem, cfour, orca, madness, terachem, on CHARACTERS: the text is [h] header lines, one line per atom, [t]
    trailer lines and a final newline ([block_shape]: the hand-written layout of each program's block); the reader
    [read_block] splits the characters at newlines, reads every line of the block as "label x y z" (any one-word
    label, NUMBER coordinates) and fails if one of them is not: it returns each atom once, in order, spelled by the
    program's real / ghost template ([is_view]) with the printed coordinates, and the header and trailer lines are
    the rendered non-atom lines of [to_lines] (to which C08_unit_word_is_written and C08_chgmult_stated apply).
    [block_fits]: element symbols and labels are single words, title and symmetry word hold no newline. *)
Theorem C08_block_text_states_the_atoms : forall cfg m text kw e h t,
  wt_find (s_lower (w_dtype cfg)) wt_table = Some e -> block_shape (s_lower (w_dtype cfg)) = Some (h, t) ->
  to_string_model cfg m = Ok (text, kw) -> block_fits e cfg m ->
  exists atoms head tail,
    Forall2 (is_view (af_of e cfg) (gf_of e cfg) (factor_of e cfg m)) (m_atoms m) atoms
    /\ to_lines cfg m = Ok (head ++ map LAtom atoms ++ tail, kw)
    /\ atom_entries head = [] /\ atom_entries tail = []
    /\ read_block h t text = Some (map (rl cfg) head, map (atomd_of (w_prec cfg)) atoms, map (rl cfg) tail).
Proof. exact block_text_states_the_atoms. Qed.

(** molpro, on CHARACTERS: the atom lines stand between the line "geometry={" and the next line "}" ([read_molpro]);
    they are the molecule's atoms, once, in order, ghosts spelled like real atoms, with the printed coordinates; the
    lines before are the header with the unit line "{bohr}" / "{angstrom}", the lines after are the dummy card
    (C08_molpro_ghosts_declared: exactly the ghosts) and the charge and spin cards (C08_chgmult_stated). *)
Theorem C08_molpro_text_states_the_atoms : forall cfg m text kw e,
  wt_find (s_lower (w_dtype cfg)) wt_table = Some e -> s_lower (w_dtype cfg) = "molpro"%string ->
  to_string_model cfg m = Ok (text, kw) -> block_fits e cfg m ->
  exists atoms lbl,
    Forall2 (is_view (af_of e cfg) (gf_of e cfg) (factor_of e cfg m)) (m_atoms m) atoms
    /\ unit_label e (units_of e cfg) = Ok lbl
    /\ to_lines cfg m = Ok (molpro_head m lbl ++ LText "geometry={" :: map LAtom atoms ++ LText "}" :: molpro_tail m, kw)
    /\ read_molpro text
       = Some (map (rl cfg) (molpro_head m lbl), map (atomd_of (w_prec cfg)) atoms, map (rl cfg) (molpro_tail m) ++ [EmptyString]).
Proof. exact molpro_text_states_the_atoms. Qed.

(* ------------------------------------------------------------------------------------------ *)
(** Non-vacuity: O / ghost H_a / H, two fragments, anion, stored in Angstrom with a pinned input_units_to_au,
    written for psi4 in Bohr at width 14, precision 6. *)
Open Scope string_scope.
Definition ex_atom (z : Z) (el lb : string) (real : bool) (x y zc : b64) : atom :=
  {| a_elea := 1; a_elez := z; a_elem := el; a_mass := "1.0"; a_elbl := lb; a_real := real; a_x := x; a_y := y; a_z := zc |}.
Definition ex_mol : molrec :=
  {| m_units := "Angstrom"; m_iutau := Some (B64 false 15 (-3));     (* 1.875 *)
     m_atoms := [ex_atom 8 "O" "" true (B64 false 0 0) (B64 false 0 0) (B64 false 0 0);
                 ex_atom 1 "H" "_a" false (B64 false 0 0) (B64 false 0 0) (B64 false 3 (-1));
                 ex_atom 1 "H" "" true (B64 false 0 0) (B64 true 1 (-2)) (B64 true 0 0)];
     m_name := None; m_seps := [1%nat]; m_chg := -1; m_mult := 1; m_fchg := [-1; 0]; m_fmult := [1; 1];
     m_fix_com := true; m_fix_orient := false; m_fix_symm := None; m_conn := [] |}.
Definition ex_cfg : wcfg :=
  {| w_dtype := "PSI4"; w_units := Some "bohr"; w_afmt := None; w_gfmt := None; w_width := 14; w_prec := 6;
     w_conv := b64_one |}.
Example C08_ex_text :
  mono 0 (m_seps ex_mol) /\ m_seps ex_mol <> []
  /\ to_string_model ex_cfg ex_mol = Ok (
"-1 1
--
-1 1
O                     0.000000        0.000000        0.000000
--
0 1
Gh(H_a)               0.000000        0.000000        2.812500
H                     0.000000       -0.468750       -0.000000
units bohr
no_com
", []).
Proof. split; [simpl; auto|]. split; [discriminate|]. vm_compute. reflexivity. Qed.
Example C08_ex_units :
  match wt_find "xyz" wt_table with
  | Some e => In e wt_table /\ unit_of_request "BOHR" <> None /\ unit_label e "BOHR" = Ok (Some "au")
              /\ denotes (wt_dtype e) "au" = Some UBohr
              /\ gen_factor "Angstrom" "BOHR" None b64_one = b64div b64_one c_bohr2angstroms
  | None => False
  end.
Proof. vm_compute. repeat split; auto; discriminate. Qed.

(** Non-vacuity of the two re-read theorems: the same molecule written for qchem (Angstrom) and for nwchem (nm). *)
Definition ex_cfg_q : wcfg :=
  {| w_dtype := "QChem"; w_units := Some "angstrom"; w_afmt := None; w_gfmt := None; w_width := 12; w_prec := 4; w_conv := b64_one |}.
Example C08_ex_qchem :
  match to_string_model ex_cfg_q ex_mol with
  | Ok (text, kw) =>
      unit_word_qchem (units_of e_qchem ex_cfg_q) = Some ("False", "Angstrom") /\ kw_get "input_bohr" kw = Some (KVStr "False")
      /\ match read_qchem text "False" with
         | Ok p => p_elbl p = ["O"; "@H"; "H"] /\ p_units p = Some "Angstrom" /\ p_molchg p = Some (dz (-1))
                   /\ p_fchg p = Some [Some (dz (-1)); Some (dz 0)] /\ p_seps p = Some [1%nat]
         | Err _ => False
         end
  | Err _ => False
  end.
Proof. vm_compute. repeat split; reflexivity. Qed.
Definition ex_cfg_n : wcfg :=
  {| w_dtype := "nwchem"; w_units := Some "NM"; w_afmt := None; w_gfmt := None; w_width := 12; w_prec := 4; w_conv := B64 false 1 (-3) |}.
Example C08_ex_nwchem :
  block_shape (s_lower (w_dtype ex_cfg_n)) = Some (1, 2)%nat
  /\ match to_string_model ex_cfg_n ex_mol with
     | Ok (text, _) =>
         match read_block 1 2 text with
         | Some (head, atoms, tail) => head = ["geometry units nanometers"] /\ map a_lbl atoms = ["O"; "bqH_a"; "H"] /\ tail = [""; "end"]
         | None => False
         end
     | Err _ => False
     end.
Proof. vm_compute. repeat split; reflexivity. Qed.

Definition ex_cfg_m : wcfg :=
  {| w_dtype := "molpro"; w_units := None; w_afmt := None; w_gfmt := None; w_width := 12; w_prec := 4; w_conv := b64_one |}.
Example C08_ex_molpro :
  match to_string_model ex_cfg_m ex_mol with
  | Ok (text, _) =>
      match read_molpro text with
      | Some (head, atoms, tail) => head = ["{orient,noorient}"; "{symmetry,auto}"; ""; "{bohr}"] /\ map a_lbl atoms = ["O"; "H"; "H"]
                                    /\ tail = ["dummy,2"; "set,charge=-1.0"; "set,spin=0"; ""]
      | None => False
      end
  | Err _ => False
  end.
Proof. vm_compute. repeat split; reflexivity. Qed.

(** mrchem, on the rendered CHARACTERS: the text is "Molecule {", "charge = <total charge>", "multiplicity = <multiplicity>",
    "translate = <fix_com>", "$coords", one "label x y z" line per atom of the molecule in order (element symbol for real and
    ghost atoms alike: mrchem has no ghost spelling; coordinates = the printed binary64 product with the unit factor), "$end",
    "}", and a final newline.  ([block_fits]: symbols and labels are words, the name holds no newline.) *)
Theorem C08_mrchem_text_states_the_molecule : forall cfg m text kw e,
  wt_find (s_lower (w_dtype cfg)) wt_table = Some e -> s_lower (w_dtype cfg) = "mrchem"%string ->
  to_string_model cfg m = Ok (text, kw) -> block_fits e cfg m ->
  exists atoms,
    Forall2 (is_view (af_of e cfg) (gf_of e cfg) (factor_of e cfg m)) (m_atoms m) atoms
    /\ read_block 5 2 text = Some (mrchem_head m, map (atomd_of (w_prec cfg)) atoms, ["$end"; "}"]%string).
Proof. exact mrchem_text_states_the_molecule. Qed.

(** gamess, on the rendered CHARACTERS: " $data", the title card, the symmetry card (followed by a blank card unless the group
    is C1), then one card per atom of the molecule, in order, that reads as five tokens: name (symbol + user label; the bare
    symbol for a ghost), atomic number (NEGATIVE for a ghost), and the three printed coordinates (binary64 product with the unit
    factor, at the requested precision); then " $end" and a final newline. *)
Theorem C08_gamess_text_states_the_molecule : forall cfg m text kw e,
  wt_find (s_lower (w_dtype cfg)) wt_table = Some e -> s_lower (w_dtype cfg) = "gamess"%string ->
  to_string_model cfg m = Ok (text, kw) -> block_fits e cfg m ->
  read_block_by gamess_match (if gamess_c1 m then 3 else 4)%nat 1 text
  = Some (gamess_head m, map (gamess_of (w_prec cfg) (factor_of e cfg m)) (m_atoms m), [" $end"%string]).
Proof. exact gamess_text_states_the_molecule. Qed.

(** Non-vacuity: the example molecule (a ghost with a label, fix_com) written for mrchem and, with symmetry c2v, for gamess. *)
Definition ex_cfg_r : wcfg :=
  {| w_dtype := "MRChem"; w_units := None; w_afmt := None; w_gfmt := None; w_width := 12; w_prec := 4; w_conv := b64_one |}.
Example C08_ex_mrchem :
  match to_string_model ex_cfg_r ex_mol with
  | Ok (text, _) =>
      match read_block 5 2 text with
      | Some (head, atoms, tail) => head = ["Molecule {"; "charge = -1"; "multiplicity = 1"; "translate = True"; "$coords"]
                                    /\ map a_lbl atoms = ["O"; "H"; "H"] /\ tail = ["$end"; "}"]
      | None => False
      end
  | Err _ => False
  end.
Proof. vm_compute. repeat split; reflexivity. Qed.
Definition ex_cfg_g : wcfg :=
  {| w_dtype := "gamess"; w_units := Some "Angstrom"; w_afmt := None; w_gfmt := None; w_width := 12; w_prec := 4; w_conv := b64_one |}.
Definition ex_mol_g : molrec :=
  {| m_units := m_units ex_mol; m_iutau := m_iutau ex_mol; m_atoms := m_atoms ex_mol; m_name := m_name ex_mol; m_seps := m_seps ex_mol;
     m_chg := m_chg ex_mol; m_mult := m_mult ex_mol; m_fchg := m_fchg ex_mol; m_fmult := m_fmult ex_mol; m_fix_com := true;
     m_fix_orient := false; m_fix_symm := Some " c2v "; m_conn := [] |}.
Example C08_ex_gamess :
  gamess_c1 ex_mol_g = false /\ gamess_c1 ex_mol = true
  /\ match to_string_model ex_cfg_g ex_mol_g with
     | Ok (text, _) =>
         match read_block_by gamess_match 4 1 text with
         | Some (head, atoms, tail) =>
             head = [" $data"; " auto-generated by QCElemental from molecule H2O"; " c2v"; ""] /\ tail = [" $end"]
             /\ map (fun a : gamess_atomd => let '(n, z, _, _, _) := a in (n, z)) atoms = [("O", "8"); ("H", "-1"); ("H", "1")]
         | None => False
         end
     | Err _ => False
     end.
Proof. vm_compute. repeat split; reflexivity. Qed.

Print Assumptions C08_atoms_listed_once_in_order.
Print Assumptions C08_chgmult_stated.
Print Assumptions C08_fragments_stated.
Print Assumptions C08_unit_word_is_written.
Print Assumptions C08_announced_unit_is_written_unit.
Print Assumptions C08_factor_table.
Print Assumptions C08_sdf_is_angstrom.
Print Assumptions C08_program_spellings.
Print Assumptions C08_molpro_ghosts_declared.
Print Assumptions C08_molpro_dummy_card_lists_the_ghosts.
Print Assumptions C08_printed_digits_nearest.
Print Assumptions C08_converted_value_nearest.
Print Assumptions C08_psi4_text_states_the_molecule.
Print Assumptions C08_xyz_text_states_the_molecule.
Print Assumptions C08_xyzplus_text_states_the_molecule.
Print Assumptions C08_qchem_text_states_the_molecule.
Print Assumptions C08_block_text_states_the_atoms.
Print Assumptions C08_molpro_text_states_the_atoms.
Print Assumptions C08_mrchem_text_states_the_molecule.
Print Assumptions C08_gamess_text_states_the_molecule.
