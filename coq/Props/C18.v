(** C18 — Distances, angles, dihedrals and guessed bonds depend only on shape.
    Property theorems only.

    CLAUSE MAP (statement of C18 in properties.jsonl, clause by clause)
    1. agree with the textbook definitions ........ distance: C18_distance_is_textbook, C18_distance_R; angle:
                                                    C18_angle_argument_is_textbook (any field), C18_angle_R_is_textbook; dihedral:
                                                    C18_dihedral_is_textbook (any field), C18_dihedral_R_is_textbook, _R_unique,
                                                    _R_positive_multiple.
    2. unchanged by translation + proper rotation . C18_rigid_invariance (distance and angle: any orthogonal matrix).
    3. ranges [0,inf), [0,pi], [-pi,pi] ........... C18_distance_R, C18_angle_R_range (ALL inputs, degenerate ones included),
                                                    C18_dihedral_R_is_textbook + C18_atan2_spec (non-degenerate quadruples).
    4. reflection flips / reversal keeps dihedral . C18_reflection_flips_dihedral, C18_dihedral_R_reflection;
                                                    C18_reversal_preserves_dihedral, C18_reversal_preserves_angle_distance.
    5. degrees = radians * 180/pi ................. C18_degrees.
    6. row-wise, matrix, index-based forms agree .. C18_batched_distance_angle, C18_batched_dihedral, C18_batched_full (n rows =
                                                    the rows one by one, arccos / arctan2 / degrees included),
                                                    C18_broadcast_distance (one row against n rows), C18_measure_index_form,
                                                    C18_distance_matrix_entry, C18_entry_point_defaults (Molecule.measure(ms) =
                                                    measure_coordinates(geometry, ms, degrees=True); measure_coordinates and the
                                                    kernels default to radians; defaults read from the signatures).
                                                    1-D inputs: equal to the (1,3) form by C18_measure_index_form (last two parts).
    7. guessed bonds: exactly the pairs i<j closer
       than thr (r_i + r_j) ....................... C18_connectivity_spec, C18_connectivity_boundary_strict ("closer" is strict:
                                                    a pair exactly at the scaled sum is not bonded), C18_connectivity_R_squared;
       unchanged by rigid motion .................. C18_connectivity_rigid_invariant (any orthogonal matrix);
       relabels under atom reordering ............. C18_connectivity_relabel.
    The hand models of the glue (measure dispatch, distance_matrix, the bond test) are the translated source:
    C18_generated_glue_is_model.  The single/many wrapping of measure_coordinates and the default_connectivity post-processing are
    translated too (measure_wrap_gen, attach_default_gen): C18_measure_single_and_many_forms (one measurement = the bare value of its
    row, a list = the list of values, [] raises IndexError), C18_default_connectivity_keeps_bonds (the option never adds, drops,
    reorders or alters a bond).  Only correspondence/oracle: the radii lookup (C17's business; the statements that read geometry and
    radii are pinned verbatim by the translator), binary64 effects, the container / memory layout / dtype of the point arrays (the
    oracle hands every point array over in 15 layouts).

    compute_distance / compute_angle / compute_dihedral are the definitions
    of Gen/Dihedral.v, regenerated from qcelemental/util/misc.py on every run ([..._pre] = the code up
    to the array(s) handed to arccos / arctan2).  Part A holds over ANY field with a square-root
    function (no axioms); part B is over the real numbers (Coq Reals: sqrt, acos, and an atan2 defined
    from acos whose specification is proved). *)
From Coq Require Import List Bool ZArith Reals QArith.
Require Import QV.Common.Outcome QV.Common.Geo3 QV.Common.Geo3Np QV.Common.Geo3Facts QV.Common.Geo3R QV.Common.Geo3Q.
Require Import QV.Gen.Dihedral QV.Model.Geometry QV.Proofs.Geometry QV.Proofs.GeometryR.
Require Import QV.Common.Geo3Glue QV.Gen.GeoGlue QV.Proofs.GeoGlue QV.Proofs.GeoMore QV.Proofs.GeoWrap.
Import ListNotations.

(** * Part A: any field *)

(** distance = |p - q|, for 2-D single-row and 1-D inputs *)
Theorem C18_distance_is_textbook : forall (K : Fops) (p q : vec3 K),
  compute_distance K (A2 [p]) (A2 [q]) = Ok (A1 [vnorm (vsub p q)])
  /\ compute_distance K (vec_arr K p) (vec_arr K q) = Ok (A1 [vnorm (vsub p q)]).
Proof. intros. split; [apply distance_row | apply distance_1d]. Qed.

(** what is handed to arccos is clip(-cos(theta)), theta the textbook angle at the vertex p2
    (the code's second vector is p2 - p3, hence the sign; the code returns pi - arccos of it) *)
Theorem C18_angle_argument_is_textbook : forall (K : Fops), is_field K -> forall p1 p2 p3 : vec3 K,
  vnorm (vsub p1 p2) <> f0 K -> vnorm (vsub p3 p2) <> f0 K ->
  compute_angle_pre K (A2 [p1]) (A2 [p2]) (A2 [p3])
  = Ok (A1 [clip1 K (fopp K (f1 K)) (f1 K) (fopp K (tb_cos K p1 p2 p3))]).
Proof. intros K Kf p1 p2 p3 H1 H3. rewrite angle_pre_row, (code_cos_textbook K Kf) by assumption. reflexivity. Qed.

(** the (y, x) handed to arctan2 is the textbook pair ( |b2| b1.(b2xb3) , (b1xb2).(b2xb3) ) divided by
    |b2|^2 — although the code projects with v1.v1 where one expects v1.v2 *)
Theorem C18_dihedral_is_textbook : forall (K : Fops), is_field K -> forall p1 p2 p3 p4 : vec3 K,
  let s := vnorm (vsub p3 p2) in
  fmul K s s = norm2 (vsub p3 p2) -> s <> f0 K ->
  exists y x,
    compute_dihedral_pre K (A2 [p1]) (A2 [p2]) (A2 [p3]) (A2 [p4]) = Ok (A1 [y], A1 [x])
    /\ fmul K (fmul K s s) y = tb_dih_y K p1 p2 p3 p4
    /\ fmul K (fmul K s s) x = tb_dih_x K p1 p2 p3 p4.
Proof.
  intros K Kf p1 p2 p3 p4 s Hs Hn. eexists. eexists. split; [apply (dihedral_pre_closed K Kf)|].
  apply (dih_closed_textbook K Kf); assumption.
Qed.

(** translation + proper rotation change nothing (distance and angle: any orthogonal matrix) *)
Theorem C18_rigid_invariance : forall (K : Fops), is_field K -> forall (M : mat3 K) (t p1 p2 p3 p4 : vec3 K) (dg : bool),
  orthogonal M ->
  compute_distance K (A2 [rigid M t p1]) (A2 [rigid M t p2]) = compute_distance K (A2 [p1]) (A2 [p2])
  /\ compute_angle K (A2 [rigid M t p1]) (A2 [rigid M t p2]) (A2 [rigid M t p3]) dg
     = compute_angle K (A2 [p1]) (A2 [p2]) (A2 [p3]) dg
  /\ (mdet M = f1 K ->
      compute_dihedral K (A2 [rigid M t p1]) (A2 [rigid M t p2]) (A2 [rigid M t p3]) (A2 [rigid M t p4]) dg
      = compute_dihedral K (A2 [p1]) (A2 [p2]) (A2 [p3]) (A2 [p4]) dg).
Proof.
  intros K Kf M t p1 p2 p3 p4 dg H. split; [apply (distance_rigid K Kf); assumption|]. split.
  - apply compute_angle_via_pre. apply (angle_pre_rigid K Kf). assumption.
  - intro D. apply compute_dihedral_via_pre. apply (dihedral_pre_rigid K Kf); assumption.
Qed.

(** an improper orthogonal map (det = -1) negates y and keeps x *)
Theorem C18_reflection_flips_dihedral : forall (K : Fops), is_field K -> forall (M : mat3 K) (t p1 p2 p3 p4 : vec3 K),
  orthogonal M -> mdet M = fopp K (f1 K) ->
  exists y x,
    compute_dihedral_pre K (A2 [p1]) (A2 [p2]) (A2 [p3]) (A2 [p4]) = Ok (A1 [y], A1 [x])
    /\ compute_dihedral_pre K (A2 [rigid M t p1]) (A2 [rigid M t p2]) (A2 [rigid M t p3]) (A2 [rigid M t p4])
       = Ok (A1 [fopp K y], A1 [x]).
Proof.
  intros K Kf M t p1 p2 p3 p4 H D. eexists. eexists. split; [apply (dihedral_pre_closed K Kf)|].
  apply (dihedral_pre_reflect K Kf); assumption.
Qed.

(** listing the points backwards changes nothing *)
Theorem C18_reversal_preserves_dihedral : forall (K : Fops), is_field K -> forall (p1 p2 p3 p4 : vec3 K) (dg : bool),
  let s := vnorm (vsub p3 p2) in
  fmul K s s = norm2 (vsub p3 p2) -> s <> f0 K ->
  compute_dihedral K (A2 [p4]) (A2 [p3]) (A2 [p2]) (A2 [p1]) dg = compute_dihedral K (A2 [p1]) (A2 [p2]) (A2 [p3]) (A2 [p4]) dg.
Proof. intros K Kf p1 p2 p3 p4 dg s Hs Hn. apply compute_dihedral_via_pre. apply (dihedral_pre_reverse K Kf); assumption. Qed.

Theorem C18_reversal_preserves_angle_distance : forall (K : Fops), is_field K -> forall (p1 p2 p3 : vec3 K) (dg : bool),
  compute_angle K (A2 [p3]) (A2 [p2]) (A2 [p1]) dg = compute_angle K (A2 [p1]) (A2 [p2]) (A2 [p3]) dg
  /\ compute_distance K (A2 [p2]) (A2 [p1]) = compute_distance K (A2 [p1]) (A2 [p2]).
Proof.
  intros K Kf p1 p2 p3 dg. split.
  - apply compute_angle_via_pre. apply (angle_pre_reverse K Kf).
  - rewrite !distance_row. rewrite (tb_dist_sym K Kf). reflexivity.
Qed.

(** degrees = radians * 180 / pi *)
Theorem C18_degrees : forall (K : Fops) (a b c d : arr K) (x : K),
  compute_angle K a b c true = (r <- compute_angle K a b c false ;; np_degrees K r)
  /\ compute_dihedral K a b c d true = (r <- compute_dihedral K a b c d false ;; np_degrees K r)
  /\ np_degrees K (A1 [x]) = Ok (A1 [fdiv K (fmul K x (fofZ K 180)) (fpi K)]).
Proof. intros. split; [apply angle_degrees | split; [apply dihedral_degrees | reflexivity]]. Qed.

(** n-row (batched) distance and angle = the one-row results, row by row *)
Theorem C18_batched_distance_angle : forall (K : Fops) (rows : list (vec3 K * vec3 K * vec3 K)),
  let g1 := fun r : vec3 K * vec3 K * vec3 K => fst (fst r) in
  let g2 := fun r : vec3 K * vec3 K * vec3 K => snd (fst r) in
  let g3 := fun r : vec3 K * vec3 K * vec3 K => snd r in
  compute_distance K (A2 (map g1 rows)) (A2 (map g2 rows)) = Ok (A1 (map (fun r => vnorm (vsub (g1 r) (g2 r))) rows))
  /\ compute_angle_pre K (A2 (map g1 rows)) (A2 (map g2 rows)) (A2 (map g3 rows))
     = Ok (A1 (map (fun r => clip1 K (fopp K (f1 K)) (f1 K) (code_cos K (g1 r) (g2 r) (g3 r))) rows)).
Proof. intros. split; [apply distance_batched | apply angle_pre_batched]. Qed.

(** batched compute_dihedral = its rows one by one, for every number of rows (the one-row result is
    [dihedral_pre_closed]: the same closed form); before the repair 056f883 in /repo this was false
    (ValueError on 2 rows, wrong values on 3) *)
Theorem C18_batched_dihedral : forall (K : Fops), is_field K -> forall (rows : list (vec3 K * vec3 K * vec3 K * vec3 K)) (dg : bool),
  let g1 := fun r : vec3 K * vec3 K * vec3 K * vec3 K => fst (fst (fst r)) in
  let g2 := fun r : vec3 K * vec3 K * vec3 K * vec3 K => snd (fst (fst r)) in
  let g3 := fun r : vec3 K * vec3 K * vec3 K * vec3 K => snd (fst r) in
  let g4 := fun r : vec3 K * vec3 K * vec3 K * vec3 K => snd r in
  let Y := fun r => dihYc K (vsub (g2 r) (g1 r)) (vsub (g3 r) (g2 r)) (vsub (g4 r) (g3 r)) in
  let X := fun r => dihXc K (vsub (g2 r) (g1 r)) (vsub (g3 r) (g2 r)) (vsub (g4 r) (g3 r)) in
  (forall r, compute_dihedral_pre K (A2 [g1 r]) (A2 [g2 r]) (A2 [g3 r]) (A2 [g4 r]) = Ok (A1 [Y r], A1 [X r]))
  /\ compute_dihedral_pre K (A2 (map g1 rows)) (A2 (map g2 rows)) (A2 (map g3 rows)) (A2 (map g4 rows))
     = Ok (A1 (map Y rows), A1 (map X rows))
  /\ (forall r, compute_dihedral K (A2 [g1 r]) (A2 [g2 r]) (A2 [g3 r]) (A2 [g4 r]) false = Ok (A1 [fatan2 K (Y r) (X r)]))
  /\ (rows <> [] ->
      compute_dihedral K (A2 (map g1 rows)) (A2 (map g2 rows)) (A2 (map g3 rows)) (A2 (map g4 rows)) false
      = Ok (A1 (map (fun r => fatan2 K (Y r) (X r)) rows))).
Proof.
  intros K Kf rows dg g1 g2 g3 g4 Y X.
  split; [intro r; apply (dihedral_pre_closed K Kf)|].
  split; [apply (dihedral_pre_batched K Kf)|].
  split; [intro r; unfold compute_dihedral; rewrite (dihedral_pre_closed K Kf); reflexivity|].
  intro NE. unfold compute_dihedral. rewrite (dihedral_pre_batched K Kf). cbn.
  rewrite bzip_map. cbn. reflexivity.
Qed.

(** measure_coordinates: the index-based form is the row-wise form on the selected rows *)
Theorem C18_measure_index_form : forall (K : Fops) (coords : list (vec3 K)) (dg : bool) i j k l pi pj pk pl,
  nth_error coords i = Some pi -> nth_error coords j = Some pj -> nth_error coords k = Some pk ->
  nth_error coords l = Some pl ->
  measure1 K coords dg [Z.of_nat i; Z.of_nat j] = Ok (vnorm (vsub pi pj))
  /\ measure1 K coords dg [Z.of_nat i; Z.of_nat j; Z.of_nat k]
     = first_of K (compute_angle K (vec_arr K pi) (vec_arr K pj) (vec_arr K pk) dg)
  /\ measure1 K coords dg [Z.of_nat i; Z.of_nat j; Z.of_nat k; Z.of_nat l]
     = first_of K (compute_dihedral K (vec_arr K pi) (vec_arr K pj) (vec_arr K pk) (vec_arr K pl) dg)
  /\ compute_angle_pre K (vec_arr K pi) (vec_arr K pj) (vec_arr K pk) = compute_angle_pre K (A2 [pi]) (A2 [pj]) (A2 [pk])
  /\ compute_dihedral_pre K (vec_arr K pi) (vec_arr K pj) (vec_arr K pk) (vec_arr K pl)
     = compute_dihedral_pre K (A2 [pi]) (A2 [pj]) (A2 [pk]) (A2 [pl]).
Proof.
  intros K coords dg i j k l pi pj pk pl Hi Hj Hk Hl.
  split; [apply measure_distance; assumption|].
  split; [apply measure_angle; assumption|].
  split; [apply measure_dihedral; assumption|].
  split; [apply angle_pre_1d | apply dihedral_pre_1d].
Qed.

(** distance_matrix(a, b)[i][j] = |a_i - b_j| (so its diagonal is compute_distance) *)
Theorem C18_distance_matrix_entry : forall (K : Fops) (a b : list (vec3 K)) i j p q,
  nth_error a i = Some p -> nth_error b j = Some q ->
  option_map (fun row => nth_error row j) (nth_error (distance_matrix K a b) i) = Some (Some (vnorm (vsub p q))).
Proof. intros. apply distance_matrix_entry; assumption. Qed.

(** guess_connectivity lists exactly the pairs i<j with |x_i - x_j| < thr (r_i + r_j), in lexicographic order *)
Theorem C18_connectivity_spec : forall (K : Fops) (thr : K) (atoms : list (atom K)),
  (forall i k, In (i, k) (guess_connectivity K thr atoms) <->
     exists ai ak, (i < k)%nat /\ nth_error atoms i = Some ai /\ nth_error atoms k = Some ak /\ bonded K thr ai ak = true)
  /\ lex_sorted (guess_connectivity K thr atoms).
Proof.
  intros. split; [intros; apply connectivity_spec_gen | apply conn_from_sorted].
Qed.

Theorem C18_connectivity_rigid_invariant : forall (K : Fops), is_field K -> forall (thr : K) (M : mat3 K) (t : vec3 K) (atoms : list (atom K)),
  orthogonal M -> guess_connectivity K thr (map (move_atom K M t) atoms) = guess_connectivity K thr atoms.
Proof. intros K Kf thr M t atoms H. apply (connectivity_rigid K Kf); assumption. Qed.

(** reordering the atoms relabels the bonds (as unordered pairs) *)
Theorem C18_connectivity_relabel : forall (K : Fops), is_field K -> forall (thr : K) (atoms atoms' : list (atom K)) (s : nat -> nat) i j ai aj,
  (forall k a, nth_error atoms' k = Some a -> nth_error atoms (s k) = Some a) ->
  i <> j -> s i <> s j -> nth_error atoms' i = Some ai -> nth_error atoms' j = Some aj ->
  (listed (guess_connectivity K thr atoms') i j <-> listed (guess_connectivity K thr atoms) (s i) (s j)).
Proof. intros K Kf. apply (connectivity_relabel K Kf). Qed.

(** the glue translated from the sources (Gen/GeoGlue.v: the bond test of guess_connectivity's loop body with its operands,
    comparison and threshold; the entry expression of distance_matrix; the bounds test and the len(m) -> kernel chain of
    measure_coordinates, incl. which kernels receive `degrees` and the error kinds) is, for all inputs, the hand model that
    the theorems above and below are about *)
Theorem C18_generated_glue_is_model : forall (K : Fops), is_field K ->
  (forall thr atoms, guess_connectivity_gen K thr atoms = guess_connectivity K thr atoms)
  /\ (forall a b, distance_matrix_gen K a b = distance_matrix K a b)
  /\ (forall V f_dist f_ang f_dih coords degrees m,
        measure_via K V f_dist f_ang f_dih coords degrees m = measure_one K V f_dist f_ang f_dih coords degrees m).
Proof.
  intros K Kf. split; [intros; apply (connectivity_gen_is_model K)|]. split; [intros; apply (distance_matrix_gen_is_model K)|].
  intros. apply measure_via_is_model.
Qed.


(** the FULL batched functions (arccos / arctan2 and the degrees flag included): n rows give the list of what each row gives
    alone (take rows = [r] for the one-row form), for every number of rows *)
Theorem C18_batched_full : forall (K : Fops), is_field K -> forall (rows : list (vec3 K * vec3 K * vec3 K * vec3 K)) (dg : bool),
  let g1 := fun r : vec3 K * vec3 K * vec3 K * vec3 K => fst (fst (fst r)) in
  let g2 := fun r : vec3 K * vec3 K * vec3 K * vec3 K => snd (fst (fst r)) in
  let g3 := fun r : vec3 K * vec3 K * vec3 K * vec3 K => snd (fst r) in
  let g4 := fun r : vec3 K * vec3 K * vec3 K * vec3 K => snd r in
  let ang := fun r => angle_of K dg (clip1 K (fopp K (f1 K)) (f1 K) (code_cos K (g1 r) (g2 r) (g3 r))) in
  let dih := fun r => dihedral_of K dg (dihYc K (vsub (g2 r) (g1 r)) (vsub (g3 r) (g2 r)) (vsub (g4 r) (g3 r)))
                                       (dihXc K (vsub (g2 r) (g1 r)) (vsub (g3 r) (g2 r)) (vsub (g4 r) (g3 r))) in
  compute_angle K (A2 (map g1 rows)) (A2 (map g2 rows)) (A2 (map g3 rows)) dg = Ok (A1 (map ang rows))
  /\ compute_dihedral K (A2 (map g1 rows)) (A2 (map g2 rows)) (A2 (map g3 rows)) (A2 (map g4 rows)) dg = Ok (A1 (map dih rows))
  /\ (forall r, compute_angle K (A2 [g1 r]) (A2 [g2 r]) (A2 [g3 r]) dg = Ok (A1 [ang r]))
  /\ (forall r, compute_dihedral K (A2 [g1 r]) (A2 [g2 r]) (A2 [g3 r]) (A2 [g4 r]) dg = Ok (A1 [dih r])).
Proof.
  intros K Kf rows dg g1 g2 g3 g4 ang dih.
  split; [apply (angle_batched_full K)|]. split; [apply (dihedral_batched_full K Kf)|].
  split; intro r.
  - apply (angle_batched_full K g1 g2 g3 [r] dg).
  - apply (dihedral_batched_full K Kf g1 g2 g3 g4 [r] dg).
Qed.

(** one row against n rows (numpy broadcasting of a (1,3) array): the row is measured against every row *)
Theorem C18_broadcast_distance : forall (K : Fops) (p : vec3 K) (qs : list (vec3 K)),
  compute_distance K (A2 [p]) (A2 qs) = Ok (A1 (map (fun q => vnorm (vsub p q)) qs)).
Proof. intros K p qs. rewrite <- (map_id qs) at 1. apply (distance_broadcast K p (fun q => q) qs). Qed.

(** the entry points and their keyword defaults (read from the signatures on every run; Molecule.measure's body is pinned to
    `return measure_coordinates(self.geometry, measurements, degrees=degrees)`): Molecule.measure answers in degrees unless told
    otherwise, measure_coordinates and the kernels in radians *)
Theorem C18_entry_point_defaults : forall (K : Fops) (coords : list (vec3 K)) (ms : list (list Z)) (dg : option bool),
  measure_coordinates_call K coords ms dg = measure K coords (match dg with Some d => d | None => false end) ms
  /\ molecule_measure_call K coords ms dg = measure K coords (match dg with Some d => d | None => true end) ms
  /\ compute_angle_degrees_default = false /\ compute_dihedral_degrees_default = false
  /\ guess_connectivity_threshold_default = (6%Z, 5%positive).
Proof.
  intros. destruct (measure_calls K coords ms dg) as [A B]. destruct kernel_defaults as [C [D E]].
  repeat split; assumption.
Qed.

(** measure_coordinates(coords, m) with ONE measurement m (a non-empty list of indices) returns the bare value of that measurement
    - what its row computes in the list form ([measure1], C18_measure_index_form) - and with a list of measurements the list of their
    values; an empty list raises IndexError.  [measure_coordinates_entry_gen] is translated from the statements around the loop. *)
Theorem C18_measure_single_and_many_forms : forall (K : Fops) (coords : list (vec3 K)) (dg : option bool),
  (forall m, m <> [] ->
     measure_coordinates_entry_gen K coords (MOne m) dg
     = obind (measure1 K coords (match dg with Some d => d | None => false end) m) (fun v => Ok (ROne v)))
  /\ (forall ms, measure_coordinates_entry_gen K coords (MMany ms) dg
                 = obind (measure K coords (match dg with Some d => d | None => false end) ms) (fun r => Ok (RMany r)))
  /\ measure_coordinates_entry_gen K coords (MMany []) dg = Err PyIndexError.
Proof.
  intros K coords dg. split; [intros m H; apply (measure_wrap_single K coords dg m H)|].
  split; [intros ms; apply (measure_wrap_many K coords dg ms) | apply (measure_wrap_empty K coords dg)].
Qed.

(** guess_connectivity's default_connectivity option: the bonds (i, j) are those found by the loop, in the same order, whatever the
    option; every bond carries the value when it is truthy, none does otherwise *)
Theorem C18_default_connectivity_keeps_bonds : forall (B : Type) (truthy : B -> bool) (dc : option B) (con : list (nat * nat)),
  map (fun t => (fst (fst t), snd (fst t))) (attach_default_gen truthy dc con) = con
  /\ forall t, In t (attach_default_gen truthy dc con) ->
       snd t = match dc with Some v => if truthy v then Some v else None | None => None end.
Proof. intros. apply attach_default_pairs. Qed.

(** * Part B: the real numbers *)
Local Open Scope R_scope.

(** the angle returned for non-coincident points is the number in [0, pi] whose cosine is the textbook cosine *)
Theorem C18_angle_R_is_textbook : forall p1 p2 p3 : vec3 RK,
  p1 <> p2 -> p3 <> p2 ->
  let th := acos (tb_cos RK p1 p2 p3) in
  compute_angle RK (@A2 RK [p1]) (@A2 RK [p2]) (@A2 RK [p3]) false = Ok (@A1 RK [th])
  /\ 0 <= th <= PI /\ cos th = tb_cos RK p1 p2 p3.
Proof. intros p1 p2 p3 H1 H3 th. split; [apply angle_R_textbook; assumption | apply angle_R_range_cos; assumption]. Qed.

(** whatever the points: arccos gets an argument in [-1, 1] and the result lies in [0, pi] *)
Theorem C18_angle_R_range : forall p1 p2 p3 : vec3 RK,
  exists c, compute_angle RK (@A2 RK [p1]) (@A2 RK [p2]) (@A2 RK [p3]) false = Ok (@A1 RK [PI - acos c]) /\ -1 <= c <= 1
            /\ 0 <= PI - acos c <= PI.
Proof. exact angle_R_range_any. Qed.

Theorem C18_distance_R : forall p q : vec3 RK,
  compute_distance RK (@A2 RK [p]) (@A2 RK [q]) = Ok (@A1 RK [tb_dist RK p q])
  /\ 0 <= tb_dist RK p q /\ (tb_dist RK p q = 0 <-> p = q) /\ tb_dist RK p q * tb_dist RK p q = norm2 (vsub p q).
Proof.
  intros. split; [apply distance_row|]. split; [apply distance_R_nonneg|]. split; [apply distance_R_zero | apply distance_R_sq].
Qed.

(** the specification of atan2 that the statements below rely on (proved for [Ratan2];
    numpy's arctan2 is trusted to approximate it) *)
Theorem C18_atan2_spec : forall y x : R, (x <> 0 \/ y <> 0) ->
  (exists r, 0 < r /\ y = r * sin (Ratan2 y x) /\ x = r * cos (Ratan2 y x)) /\ - PI <= Ratan2 y x <= PI.
Proof. exact Ratan2_spec. Qed.

(** the dihedral returned is an argument, in [-pi, pi], of the textbook pair *)
Theorem C18_dihedral_R_is_textbook : forall p1 p2 p3 p4 : vec3 RK,
  p3 <> p2 -> (tb_dih_x RK p1 p2 p3 p4 <> 0 \/ tb_dih_y RK p1 p2 p3 p4 <> 0) ->
  exists th, compute_dihedral RK (@A2 RK [p1]) (@A2 RK [p2]) (@A2 RK [p3]) (@A2 RK [p4]) false = Ok (@A1 RK [th])
             /\ is_arg (tb_dih_y RK p1 p2 p3 p4) (tb_dih_x RK p1 p2 p3 p4) th /\ - PI <= th <= PI.
Proof. exact dihedral_R_is_arg. Qed.

(** ... and it is the ONLY such angle in (-pi, pi]: whatever angle th' in (-pi, pi] is an argument of the
    textbook pair, that is what compute_dihedral returns *)
Theorem C18_dihedral_R_unique : forall (p1 p2 p3 p4 : vec3 RK) (th' : R),
  p3 <> p2 -> (tb_dih_x RK p1 p2 p3 p4 <> 0 \/ tb_dih_y RK p1 p2 p3 p4 <> 0) ->
  is_arg (tb_dih_y RK p1 p2 p3 p4) (tb_dih_x RK p1 p2 p3 p4) th' -> - PI < th' <= PI ->
  compute_dihedral RK (@A2 RK [p1]) (@A2 RK [p2]) (@A2 RK [p3]) (@A2 RK [p4]) false = Ok (@A1 RK [th']).
Proof. exact dihedral_R_unique. Qed.

Theorem C18_dihedral_R_positive_multiple : forall p1 p2 p3 p4 : vec3 RK,
  p3 <> p2 ->
  exists y x k,
    compute_dihedral_pre RK (@A2 RK [p1]) (@A2 RK [p2]) (@A2 RK [p3]) (@A2 RK [p4]) = Ok (@A1 RK [y], @A1 RK [x])
    /\ compute_dihedral RK (@A2 RK [p1]) (@A2 RK [p2]) (@A2 RK [p3]) (@A2 RK [p4]) false = Ok (@A1 RK [Ratan2 y x])
    /\ 0 < k /\ tb_dih_y RK p1 p2 p3 p4 = k * y /\ tb_dih_x RK p1 p2 p3 p4 = k * x.
Proof. exact dihedral_R_textbook. Qed.

(** reflection: the dihedral changes sign (unless it is 0 or pi: y = 0) *)
Theorem C18_dihedral_R_reflection : forall (M : mat3 RK) (t p1 p2 p3 p4 : vec3 RK),
  orthogonal M -> mdet M = -1 ->
  exists y x,
    compute_dihedral RK (@A2 RK [p1]) (@A2 RK [p2]) (@A2 RK [p3]) (@A2 RK [p4]) false = Ok (@A1 RK [Ratan2 y x])
    /\ compute_dihedral RK (@A2 RK [rigid M t p1]) (@A2 RK [rigid M t p2]) (@A2 RK [rigid M t p3]) (@A2 RK [rigid M t p4]) false
       = Ok (@A1 RK [Ratan2 (- y) x])
    /\ (y <> 0 -> Ratan2 (- y) x = - Ratan2 y x).
Proof. exact dihedral_R_reflection. Qed.

(** deciding bonds on squared distances (what the correspondence executes exactly over Q) is the same decision *)
Theorem C18_connectivity_R_squared : forall (thr : R) (atoms : list (atom RK)),
  guess_connectivity RK thr atoms = guess_connectivity_sq RK thr atoms.
Proof. exact connectivity_R_sq. Qed.


(** "closer than" is strict: a pair at distance exactly thr (r_i + r_j) is not bonded *)
Theorem C18_connectivity_boundary_strict : forall (thr : R) (a b : atom RK),
  sqrt (norm2 (vsub (fst a) (fst b))) = (snd a + snd b) * thr -> bonded RK thr a b = false.
Proof. exact bonded_boundary_R. Qed.

(** * Non-vacuity *)
Example C18_ex_R_is_field : is_field RK.
Proof. exact RK_field. Qed.

(* a proper rotation and a reflection with rational entries *)
Definition ex_rot : mat3 RK := ((1, 0, 0), (0, 3/5, -4/5), (0, 4/5, 3/5)).
Definition ex_refl : mat3 RK := ((1, 0, 0), (0, 3/5, 4/5), (0, 4/5, -3/5)).
Example C18_ex_rotation : orthogonal ex_rot /\ mdet ex_rot = 1.
Proof. split; unfold ex_rot; vnormalize; cbn; [f_equal; [f_equal|]; f_equal; try f_equal; field | field]. Qed.
Example C18_ex_reflection : orthogonal ex_refl /\ mdet ex_refl = -1.
Proof. split; unfold ex_refl; vnormalize; cbn; [f_equal; [f_equal|]; f_equal; try f_equal; field | field]. Qed.

(* the test-suite configuration with a +90 degree dihedral: (y, x) = (4, 0) *)
Definition yx_is (r : outcome (arr QK * arr QK)) (ys xs : list Q) : bool :=
  match r with
  | Ok (A1 ly, A1 lx) => list_eqb Qeq_bool ly ys && list_eqb Qeq_bool lx xs
  | _ => false
  end.
Example C18_ex_dihedral_run :
  yx_is (compute_dihedral_pre QK (@A1 QK [0; 0; 0]%Q) (@A1 QK [0; 2; 0]%Q) (@A1 QK [2; 2; 0]%Q) (@A1 QK [2; 2; -2]%Q))
        [4%Q] [0%Q] = true.
Proof. vm_compute. reflexivity. Qed.

(* the three rows on which compute_dihedral returned wrong values before the repair 056f883:
   row 2 alone gives (16/3, -32/9), and so does the batched call now *)
Example C18_ex_batched_dihedral :
  let p1 := [(0, 0, 0); (1, 0, 0); (0, 0, 1)]%Q in
  let p2 := [(0, 2, 0); (1, 2, 0); (0, 3, 1)]%Q in
  let p3 := [(2, 2, 0); (3, 3, 2); (0, 6, 5)]%Q in
  let p4 := [(2, 2, -2); (3, 4, -2); (2, 5, 3)]%Q in
  yx_is (compute_dihedral_pre QK (@A2 QK p1) (@A2 QK p2) (@A2 QK p3) (@A2 QK p4))
        [4; 16 # 3; 24 # 5]%Q [0; -32 # 9; -24 # 25]%Q = true
  /\ yx_is (compute_dihedral_pre QK (@A2 QK [(1, 0, 0)]%Q) (@A2 QK [(1, 2, 0)]%Q) (@A2 QK [(3, 3, 2)]%Q) (@A2 QK [(3, 4, -2)]%Q))
           [16 # 3]%Q [-32 # 9]%Q = true.
Proof. split; vm_compute; reflexivity. Qed.

Example C18_ex_connectivity :
  list_eqb pair_eqb (guess_connectivity_sq QK (6 # 5) [((0, 0, 0), 1 # 2); ((1, 0, 0), 1 # 2); ((0, 3 # 2, 0), 1)]%Q)
           [(0, 1); (0, 2)]%nat = true.
Proof. vm_compute. reflexivity. Qed.

Print Assumptions C18_distance_is_textbook.
Print Assumptions C18_angle_argument_is_textbook.
Print Assumptions C18_dihedral_is_textbook.
Print Assumptions C18_rigid_invariance.
Print Assumptions C18_reflection_flips_dihedral.
Print Assumptions C18_reversal_preserves_dihedral.
Print Assumptions C18_reversal_preserves_angle_distance.
Print Assumptions C18_degrees.
Print Assumptions C18_batched_distance_angle.
Print Assumptions C18_batched_dihedral.
Print Assumptions C18_measure_index_form.
Print Assumptions C18_distance_matrix_entry.
Print Assumptions C18_connectivity_spec.
Print Assumptions C18_connectivity_rigid_invariant.
Print Assumptions C18_connectivity_relabel.
Print Assumptions C18_generated_glue_is_model.
Print Assumptions C18_batched_full.
Print Assumptions C18_broadcast_distance.
Print Assumptions C18_entry_point_defaults.
Print Assumptions C18_measure_single_and_many_forms.
Print Assumptions C18_default_connectivity_keeps_bonds.
Print Assumptions C18_angle_R_is_textbook.
Print Assumptions C18_angle_R_range.
Print Assumptions C18_distance_R.
Print Assumptions C18_atan2_spec.
Print Assumptions C18_dihedral_R_is_textbook.
Print Assumptions C18_dihedral_R_unique.
Print Assumptions C18_dihedral_R_positive_multiple.
Print Assumptions C18_dihedral_R_reflection.
Print Assumptions C18_connectivity_R_squared.
Print Assumptions C18_connectivity_boundary_strict.
