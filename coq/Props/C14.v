(** C14 — The assignment solver returns a minimum-cost matching and a valid reduced matrix.
    Property theorems only.  Model: Model/Hungarian.v ([lsa_fuel]/[lsa] = linear_sum_assignment(cost,
    return_cost=True) on finite integer matrices: the _Hungary state machine _step1 .. _step6 with numpy's scan
    orders, the driver loop on fuel, the transposition of tall matrices; [lsa_in] = the same behind the input
    validation).  Specification: Proofs/HungarianCert.v ([lsa_spec], [complete], [cost]).

    CLAUSE MAP (statement of C14 in properties.jsonl, clause by clause)
    1  "for every finite cost matrix, square or rectangular, with ties, negative or boolean entries, the solver returns"
         C14_terminates, C14_steps_never_fail, C14_total_correct: every rectangular Z-matrix of every shape (incl. tall:
         the transposition is inside [lsa_fuel]; zero-dimensional).  Boolean entries: astype(int) -> 0/1 integers (the
         cast itself and binary64 entries: only correspondence, bool and dyadic streams).
    2  "min(rows, columns) pairs, no row or column repeated, rows in increasing order"
         C14_cert_sound ([lsa_spec]: [complete], strictly increasing rows) via C14_correct / C14_total_correct.
    3  "total cost equals the minimum over all complete assignments"
         C14_certificate_optimal (LP duality, rectangular case), C14_cert_sound, C14_total_correct.
    4  "the reduced matrix is non-negative, zero on the chosen pairs, differs from the input only by a constant per
        row and per column, so every optimal assignment lies on its zeros"
         C14_cert_sound (all four parts of [lsa_spec]), C14_step_preserves_invariant, C14_total_correct.
    5  "non-finite or non-numeric matrices are refused"
         C14_refuses_nonfinite (inf, -inf, nan, ragged -> ValueError), C14_finite_reaches_solver,
         C14_validated_entry_correct; C14_generated_driver_is_the_model: the refusal test (which of isinf / isnan /
         isposinf / isneginf / ~isfinite are or-ed under np.any), the orientation test, the early exit for an empty
         dimension, the first step, the result views (read from the state AFTER the driver loop, transposed back for
         tall input) and the star code of linear_sum_assignment are translated from scipy_hungarian.py on every run
         (Gen/HungarianGlue.v, fail-closed) and proved equal to the model [lsa_in] for all inputs, so
         C14_generated_entry_refuses / C14_generated_entry_correct are about the driver the code has now.  Non-numeric dtypes, 1-d / 3-d / scalar input: only correspondence/oracle
         (refusal stream; numpy's asarray/dtype lattice is not modelled).
    Entry points and options (observe_at): return_cost=True is the model; return_cost omitted/False, nested-list
    input, the name qcelemental.util.linear_sum_assignment vs the defining module, a repeated call (history), and
    "the caller's matrix is not modified": only correspondence/oracle (variant calls on every matrix of every stream).
    The theorems are about the model; that the implementation follows it step by step is the state-trace
    correspondence of every run (C14_traced_run_is_lsa ties the digest-carrying run to [lsa]). *)
From Coq Require Import ZArith List Bool Arith Sorted.
Require Import QV.Common.Outcome QV.Model.Hungarian QV.Proofs.HungarianCert QV.Proofs.HungarianInv
  QV.Proofs.HungarianFinal QV.Proofs.HungarianTotal QV.Proofs.HungarianTerm QV.Proofs.HungarianTrace
  QV.Gen.HungarianGlue QV.Proofs.HungarianGlue.
Import ListNotations.
Open Scope Z_scope.

(** Whatever passes the boolean certificate checker satisfies the whole conclusion of the property, for matrices
    of every shape: min(n,m) pairs, no row/column repeated, rows strictly increasing, reduced matrix non-negative,
    zero on the chosen pairs and equal to the input minus a row constant and a column constant, total cost <= the
    cost of every complete assignment, and every optimal complete assignment lies on zeros of the reduced matrix.
    The checker is run (in Coq and mirrored in Python) on every answer of the implementation in every run. *)
Theorem C14_cert_sound : forall C res, check_cert C res = true -> lsa_spec C res.
Proof. exact check_cert_sound. Qed.

(** The duality argument on its own (any potentials; unmatched rows/columns carry the maximal potential). *)
Theorem C14_certificate_optimal :
  forall (C R : mat) (u v : nat -> Z) (n m : nat) (M a : list (nat * nat)),
  (forall i j, (i < n)%nat -> (j < m)%nat -> mget C i j = mget R i j + u i + v j) ->
  (forall i j, (i < n)%nat -> (j < m)%nat -> 0 <= mget R i j) ->
  (forall i j, In (i, j) M -> mget R i j = 0) ->
  complete n m M -> complete n m a ->
  (forall i i', (i < n)%nat -> ~ In i (map fst M) -> (i' < n)%nat -> u i' <= u i) ->
  (forall j j', (j < m)%nat -> ~ In j (map snd M) -> (j' < m)%nat -> v j' <= v j) ->
  cost C M <= cost C a /\ (cost C a = cost C M -> forall i j, In (i, j) a -> mget R i j = 0).
Proof. exact certificate_optimal. Qed.

(** The Munkres invariant ([good]: affine reduction with potentials, non-negativity, stars = partial matching on
    zeros, columns without a star carry the maximal column potential, and per phase the cover/prime structure incl.
    the covering order that makes the augmenting path simple) is preserved by every step of the state machine. *)
Theorem C14_step_preserves_invariant :
  forall C0 n m k s k' s', (0 < n)%nat -> good C0 n m k s -> step k s = Ok (k', s') -> good C0 n m k' s'.
Proof. exact step_good. Qed.

(** Partial correctness of the algorithm, for every rectangular integer matrix of every shape and every fuel:
    whenever the run returns, its answer passes the certificate checker ... *)
Theorem C14_partial_correct :
  forall fuel C res, rect C (nrows C) (ncols C) -> lsa_fuel fuel C = Ok res -> check_cert C res = true.
Proof. exact lsa_fuel_cert. Qed.

(** ... and therefore satisfies the property (optimal complete assignment, valid reduced matrix). *)
Theorem C14_correct :
  forall fuel C res, rect C (nrows C) (ncols C) -> lsa_fuel fuel C = Ok res -> lsa_spec C res.
Proof. exact lsa_fuel_correct. Qed.

(** From a state satisfying the invariant (working matrix n x m, 0 < n <= m) every step succeeds: the while-loop
    of _step4 ends within n+1 iterations and the path of _step5 never exceeds the n+m rows of state.path
    (no IndexError, no missing prime). *)
Theorem C14_steps_never_fail :
  forall C0 n m, (0 < n)%nat -> (n <= m)%nat -> forall k s, good C0 n m k s -> exists k' s', step k s = Ok (k', s').
Proof. exact step_total. Qed.

(** Termination: with the default fuel ((k+2)(2k+8) driver steps, k = min(n,m)) the model returns an answer for
    every rectangular integer matrix (every step strictly decreases a measure built from the number of stars,
    the number of uncovered rows and the presence of an uncovered zero; _step5 adds exactly one star; _step6
    creates an uncovered zero). *)
Theorem C14_terminates : forall C, rect C (nrows C) (ncols C) -> exists res, lsa C = Ok res.
Proof. exact lsa_total. Qed.

(** Total correctness of the model of linear_sum_assignment(cost, return_cost=True). *)
Theorem C14_total_correct :
  forall C, rect C (nrows C) (ncols C) -> exists res, lsa C = Ok res /\ lsa_spec C res.
Proof. exact lsa_total_correct. Qed.

(** Non-finite entries and ragged input are refused; finite rectangular input reaches the solver unchanged;
    anything the validated entry point returns satisfies the property. *)
Theorem C14_refuses_nonfinite :
  forall M r c, In r M -> In c r -> is_fin c = false -> lsa_in M = Err PyValueError.
Proof. exact lsa_in_refuses. Qed.

Theorem C14_finite_reaches_solver :
  forall M : list (list Z), (forall r, In r M -> length r = ncols M) -> lsa_in (map (map Fin) M) = lsa M.
Proof. exact lsa_in_finite. Qed.

Theorem C14_validated_entry_correct :
  forall M res, lsa_in M = Ok res -> lsa_spec (map (map cell_val) M) res.
Proof. exact lsa_in_correct. Qed.

(** Tie: the driver translated from linear_sum_assignment on every run (refusal test, orientation, early exit, first
    step, result views after the loop, star code) is the model's validated entry point, for all inputs ... *)
Theorem C14_generated_driver_is_the_model : forall M, gen_lsa_in M = lsa_in M.
Proof. exact gen_lsa_in_is_lsa_in. Qed.

(** ... so the generated driver refuses every matrix with a non-finite entry and whatever it returns satisfies the
    property. *)
Theorem C14_generated_entry_refuses :
  forall M r c, In r M -> In c r -> is_fin c = false -> gen_lsa_in M = Err PyValueError.
Proof. intros M r c H1 H2 H3. rewrite gen_lsa_in_is_lsa_in. exact (lsa_in_refuses M r c H1 H2 H3). Qed.

Theorem C14_generated_entry_correct :
  forall M res, gen_lsa_in M = Ok res -> lsa_spec (map (map cell_val) M) res.
Proof. intros M res H. rewrite gen_lsa_in_is_lsa_in in H. exact (lsa_in_correct M res H). Qed.

(** The digest-carrying run that the correspondence check evaluates returns exactly the result of [lsa]. *)
Theorem C14_traced_run_is_lsa : forall C, fst (fst (lsa_tr C)) = lsa C.
Proof. exact lsa_tr_result. Qed.

(** Non-vacuity: a 3 x 4 matrix with ties, and its transpose. *)
Definition ex_C : mat := [[10; 10; 8; 11]; [9; 8; 1; 1]; [9; 7; 4; 10]].
Definition ex_res : result := ([0%nat; 1%nat; 2%nat], [0%nat; 3%nat; 2%nat], [[0; 0; 0; 3]; [6; 5; 0; 0]; [3; 1; 0; 6]]).
Example C14_ex_wide : rect ex_C (nrows ex_C) (ncols ex_C) /\ lsa ex_C = Ok ex_res /\ check_cert ex_C ex_res = true.
Proof. split; [split; [reflexivity | repeat constructor] | split; vm_compute; reflexivity]. Qed.
Example C14_ex_tall : exists res, lsa (transpose ex_C) = Ok res /\ check_cert (transpose ex_C) res = true
                                  /\ cost (transpose ex_C) (combine (fst (fst res)) (snd (fst res))) = 15.
Proof. eexists. split; [vm_compute; reflexivity|]. split; vm_compute; reflexivity. Qed.
Example C14_ex_invariant : good ex_C 3 4 S1 (init_state ex_C).
Proof. apply init_state_ok; [split; [reflexivity | repeat constructor] | repeat constructor]. Qed.
Example C14_ex_refuse : lsa_in [[Fin 1; PInf]; [Fin 2; Fin 3]] = Err PyValueError.
Proof. reflexivity. Qed.
Example C14_ex_gen_refuse : gen_lsa_in [[Fin 1; Fin 2]; [NInf; Fin 3]] = Err PyValueError
                            /\ gen_lsa_in (map (map Fin) ex_C) = Ok ex_res.
Proof. split; vm_compute; reflexivity. Qed.

Print Assumptions C14_cert_sound.
Print Assumptions C14_certificate_optimal.
Print Assumptions C14_step_preserves_invariant.
Print Assumptions C14_partial_correct.
Print Assumptions C14_correct.
Print Assumptions C14_steps_never_fail.
Print Assumptions C14_terminates.
Print Assumptions C14_total_correct.
Print Assumptions C14_refuses_nonfinite.
Print Assumptions C14_finite_reaches_solver.
Print Assumptions C14_validated_entry_correct.
Print Assumptions C14_generated_driver_is_the_model.
Print Assumptions C14_generated_entry_refuses.
Print Assumptions C14_generated_entry_correct.
Print Assumptions C14_traced_run_is_lsa.
