(** C01: the generated glue (Gen/PTGlue.v, translated from periodic_table.py on every run) IS the hand-written model
    (Model/PeriodicTable.v), for ALL identifiers and options. *)
From Coq Require Import ZArith NArith List String Ascii Bool Lia.
Require Import QV.Common.Outcome QV.Common.PyAscii.
Require Import QV.Gen.PTable QV.Gen.PeriodGroup QV.Model.PeriodicTable QV.Model.PeriodicTableFloat QV.Model.PeriodicTableGlue QV.Gen.PTGlue.
Require Import QV.Proofs.PeriodicTable QV.Proofs.PeriodicTableWave3.
Import ListNotations.
Open Scope Z_scope.

Opaque pt_Z pt_E pt_name pt_EE pt_EA pt_A pt_mass pt_mass_str.

(** CPython's int(str) raises nothing but ValueError *)
Lemma int_of_toks_err l k : int_of_toks l = Err k -> k = PyValueError.
Proof.
  unfold int_of_toks.
  destruct (drop_sp l) as [|t r]; [intro H; now inversion H|].
  destruct t; try (intro H; now inversion H).
  - destruct r as [|t' r']; [intro H; now inversion H|]. destruct t'; try (intro H; now inversion H).
    destruct (scan_digits r' d 1%N false) as [[v c]|]; [|intro H; now inversion H].
    destruct (N.ltb max_str_digits c); intro H; now inversion H.
  - destruct r as [|t' r']; [intro H; now inversion H|]. destruct t'; try (intro H; now inversion H).
    destruct (scan_digits r' d 1%N false) as [[v c]|]; [|intro H; now inversion H].
    destruct (N.ltb max_str_digits c); intro H; now inversion H.
  - destruct (scan_digits r d 1%N false) as [[v c]|]; [|intro H; now inversion H].
    destruct (N.ltb max_str_digits c); intro H; now inversion H.
Qed.

Lemma pyint_str_err s k : pyint_str s = Err k -> k = PyValueError.
Proof. apply int_of_toks_err. Qed.

(** the index dictionaries of __init__ *)
Lemma g_dicts_eq :
  g_el2z = el2z /\ g_z2el = z2el /\ g_element2el = element2el /\ g_el2element = el2element /\
  g_eliso2mass = eliso2mass /\ g_eliso2el = eliso2el /\ g_eliso2a = eliso2a.
Proof. repeat split; reflexivity. Qed.

Ltac dict_cases :=
  repeat match goal with
         | |- context [zip_get ?e ?k ?ks ?vs ?a] =>
             destruct (zip_get e k ks vs a)
         end.

(** the try/except cascade *)
Lemma g_resolve_eliso_eq x : g_resolve_eliso x = resolve_eliso x.
Proof.
  unfold g_resolve_eliso, resolve_eliso, step2, step3, try_else, py_item, getk,
    g_eliso2mass, g_z2el, g_element2el, eliso2mass, z2el, element2el, sdict, zdict.
  destruct x as [z|s]; cbn [py_capitalize pyint obind py_assert_str kind_in existsb ekind_eqb orb].
  - repeat (dict_cases; cbn [obind kind_in existsb ekind_eqb orb]); reflexivity.
  - destruct (pyint_str s) as [z|k] eqn:P; [|apply pyint_str_err in P; subst k];
      cbn [obind kind_in existsb ekind_eqb orb];
      repeat (dict_cases; cbn [obind kind_in existsb ekind_eqb orb]); reflexivity.
Qed.

(** the strict filter *)
Lemma g_resolve_eq x b : g_resolve_atom_to_key x b = resolve x b.
Proof.
  unfold g_resolve_atom_to_key, resolve, strict_filter. rewrite g_resolve_eliso_eq.
  destruct (resolve_eliso x) as [k|e]; cbn [obind]; [|reflexivity].
  destruct b, (str_mem k pt_E); reflexivity.
Qed.

(** the accessors *)
Lemma g_to_Z_eq x b : g_to_Z x b = to_Z x b.
Proof.
  unfold g_to_Z, to_Z, key_Z, key_E, py_item. rewrite g_resolve_eq. reflexivity.
Qed.
Lemma g_to_E_eq x b : g_to_E x b = to_E x b.
Proof. unfold g_to_E, to_E, key_E, py_item. rewrite g_resolve_eq. reflexivity. Qed.
Lemma g_to_element_eq x b : g_to_element x b = to_element x b.
Proof. unfold g_to_element, to_element, key_name, key_E, py_item. rewrite g_resolve_eq. reflexivity. Qed.
Lemma g_to_A_eq x : g_to_A x = to_A x.
Proof. unfold g_to_A, to_A, key_A, py_item. rewrite g_resolve_eq. reflexivity. Qed.
Lemma g_to_mass_eq x :
  g_to_mass x true = omap GDec (to_mass_dec x) /\ g_to_mass x false = omap GFlt (to_mass_float_str x).
Proof.
  unfold g_to_mass, to_mass_dec, to_mass_float_str, key_mass_dec, key_mass_float_str, key_mass_str, py_item, omap, py_float_str.
  rewrite g_resolve_eq. destruct (resolve x false) as [k|e]; cbn [obind]; [|split; reflexivity].
  unfold g_eliso2mass, eliso2mass. destruct (getk (sdict pt_EA pt_mass_str k)) as [m|e]; cbn [obind]; split; reflexivity.
Qed.

(** the documented alias names are plain rebindings of the four accessors, and every keyword defaults to False *)
Lemma g_aliases_documented :
  g_aliases = [("to_atomic_number", "to_Z"); ("to_mass_number", "to_A"); ("to_name", "to_element"); ("to_symbol", "to_E")]%string.
Proof. reflexivity. Qed.
Lemma g_defaults_false : forallb (fun r => negb (snd r)) g_defaults = true.
Proof. reflexivity. Qed.
Lemma g_attrs_identity : forallb (fun kv => String.eqb (fst kv) (snd kv)) g_attrs = true /\ List.length g_attrs = 7%nat.
Proof. split; reflexivity. Qed.

(* ------------------------------------------------------------------------------------------ *)
(** * the property clauses stated on the generated public entry points themselves *)

Lemma g_to_mass_dec_eq x : g_to_mass x true = omap GDec (to_mass_dec x).
Proof. exact (proj1 (g_to_mass_eq x)). Qed.
Lemma g_to_mass_flt_eq x : g_to_mass x false = omap GFlt (to_mass_float_str x).
Proof. exact (proj2 (g_to_mass_eq x)). Qed.

(** alias invariance through every generated accessor: each element row, Z as int / digit string, symbol, name, any case *)
Lemma g_alias_invariant z e n s b :
  In (z, e, n) elem_rows ->
  same_mod_case s (str_of_Z z) \/ same_mod_case s e \/ same_mod_case s n ->
  g_to_Z (PStr s) b = Ok z /\ g_to_Z (PInt z) b = Ok z /\ g_to_E (PStr s) b = Ok e /\ g_to_E (PInt z) b = Ok e /\
  g_to_element (PStr s) b = Ok n /\ g_to_element (PInt z) b = Ok n /\
  g_to_A (PStr s) = g_to_A (PInt z) /\ is_ok (g_to_A (PInt z)) = true /\
  (forall rd, g_to_mass (PStr s) rd = g_to_mass (PInt z) rd /\ is_ok (g_to_mass (PInt z) rd) = true).
Proof.
  intros H C.
  destruct (alias_every_accessor z e n s b H C) as [_ [A1 [A2 [A3 [A4 [A5 [A6 [[a [m [ms [f [B1 [B2 [B3 [B4 [_ [_ [B7 B8]]]]]]]]]]] _]]]]]]]].
  rewrite !g_to_Z_eq, !g_to_E_eq, !g_to_element_eq, !g_to_A_eq.
  split; [exact A1|]. split; [exact A4|]. split; [exact A2|]. split; [exact A5|]. split; [exact A3|]. split; [exact A6|].
  split; [now rewrite B1, B2|]. split; [now rewrite B2|].
  intros [|].
  - rewrite !g_to_mass_dec_eq, B3, B4. split; reflexivity.
  - rewrite !g_to_mass_flt_eq, B7, B8. split; reflexivity.
Qed.

(** an identifier that names nothing: NotAnElementError from every generated entry point, every option *)
Lemma g_unnamed_rejected x :
  (forall k, ~ justified x k) ->
  forall b, g_resolve_atom_to_key x b = Err NotAnElement /\ g_to_Z x b = Err NotAnElement /\ g_to_E x b = Err NotAnElement /\
            g_to_element x b = Err NotAnElement /\ g_to_A x = Err NotAnElement /\ g_to_mass x b = Err NotAnElement.
Proof.
  intros H b. destruct (unnamed_rejected_everywhere x H b) as [R [A1 [A2 [A3 [A4 [A5 [_ [A7 _]]]]]]]].
  rewrite g_resolve_eq, g_to_Z_eq, g_to_E_eq, g_to_element_eq, g_to_A_eq.
  repeat (split; [assumption|]).
  destruct b; [rewrite g_to_mass_dec_eq, A5|rewrite g_to_mass_flt_eq, A7]; reflexivity.
Qed.

(** strict mode on the generated entry points: accepted exactly when the non-strict answer is a bare element symbol *)
Lemma g_strict_exact x k :
  g_resolve_atom_to_key x true = Ok k <-> g_resolve_atom_to_key x false = Ok k /\ In k pt_E.
Proof. rewrite !g_resolve_eq. apply strict_exact. Qed.
