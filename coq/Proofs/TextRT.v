(** C07 — round trip, syntactic half: the psi4 / xyz+ / xyz line filters applied to lines that the
    recognisers classify as the writer's line kinds return exactly the written data — for every number of
    fragments and atoms (induction over the fragment and atom lists). *)
From Coq Require Import ZArith NArith List String Ascii Bool Lia.
Require Import QV.Common.Outcome QV.Common.WText QV.Common.WBin64 QV.Model.Text.
Import ListNotations.
Open Scope nat_scope.

(* ------------------------------------------------------------------------------------------ *)
(** * line kinds and what it means for the recognisers to read a line as a kind *)
Definition atomd := (string * dnum * dnum * dnum)%type.
Inductive lkind :=
| KAtom (a : atomd) | KCgmp (q : dnum) (m : Z) | KDash | KUnits (u : string) | KCom | KOrient.

Definition not_universal (l : string) : Prop :=
  is_com l = false /\ is_orient l = false /\ units_match l = None /\ symmetry_match l = None.

Definition lex_as (l : string) (k : lkind) : Prop :=
  is_empty l = false /\ is_pubchem l = false /\ is_efp_start l = false /\
  match k with
  | KAtom a => not_universal l /\ is_dash l = false /\ cgmp_match l = None /\ atom_match is_nucleus l = Some a
  | KCgmp q m => not_universal l /\ is_dash l = false /\ exists ms, cgmp_match l = Some (q, ms) /\ py_int ms = Ok m
  | KDash => not_universal l /\ is_dash l = true
  | KUnits u => is_com l = false /\ is_orient l = false /\ units_match l = Some u
  | KCom => is_com l = true
  | KOrient => is_com l = false /\ is_orient l = true
  end.

Record fragd := { fd_c : dnum; fd_m : Z; fd_atoms : list atomd }.

Definition atom_kinds (f : fragd) : list lkind := map KAtom (fd_atoms f).
Definition block_kinds (f : fragd) : list lkind := KCgmp (fd_c f) (fd_m f) :: atom_kinds f.
Definition tail_kinds (u : string) (com orient : bool) : list lkind :=
  [KUnits u] ++ (if com then [KCom] else []) ++ (if orient then [KOrient] else []).

Definition a_lbl (a : atomd) : string := let '(n, _, _, _) := a in n.
Definition a_xyz (a : atomd) : list dnum := let '(_, x, y, z) := a in [x; y; z].
Definition elbl_of (frags : list fragd) : list string := flat_map (fun f => map a_lbl (fd_atoms f)) frags.
Definition geom_of (frags : list fragd) : list dnum := flat_map (fun f => flat_map a_xyz (fd_atoms f)) frags.
Fixpoint seps_acc (frags : list fragd) (start : nat) : list nat :=
  match frags with
  | [] => []
  | f :: r => (if Nat.ltb 0 start then [start] else []) ++ seps_acc r (start + List.length (fd_atoms f))
  end.

(* ------------------------------------------------------------------------------------------ *)
(** * universals *)
Lemma universals_app l1 : forall l2 a, universals (l1 ++ l2) a = universals l2 (universals l1 a).
Proof. induction l1 as [|l r IH]; intros; simpl; [reflexivity|]. apply IH. Qed.

Definition body_kind (k : lkind) : Prop := match k with KAtom _ | KCgmp _ _ | KDash => True | _ => False end.

Lemma universals_body ls ks : forall a,
  Forall2 lex_as ls ks -> Forall body_kind ks ->
  universals ls a = {| ua_com := ua_com a; ua_orient := ua_orient a; ua_units := ua_units a; ua_symm := ua_symm a;
                       ua_keep := ua_keep a ++ ls |}.
Proof.
  intros a H; revert a. induction H as [|l k ls ks Hl _ IH]; intros a Hb; simpl.
  - rewrite app_nil_r. destruct a; reflexivity.
  - inversion Hb; subst.
    assert (Hu : not_universal l).
    { destruct Hl as [_ [_ [_ Hk]]]. destruct k; simpl in *; try contradiction; tauto. }
    destruct Hu as [U1 [U2 [U3 U4]]]. rewrite U1, U2, U3, U4. rewrite !andb_false_r.
    destruct (ua_units a); destruct (ua_symm a); rewrite IH by assumption; simpl; rewrite <- app_assoc; reflexivity.
Qed.

Lemma universals_tail ls u com orient keep :
  Forall2 lex_as ls (tail_kinds u com orient) ->
  universals ls {| ua_com := false; ua_orient := false; ua_units := None; ua_symm := None; ua_keep := keep |}
  = {| ua_com := com; ua_orient := orient; ua_units := Some u; ua_symm := None; ua_keep := keep |}.
Proof.
  unfold tail_kinds. intro H. inversion H as [|lu ku ls1 ks1 Hu H1]; subst. clear H.
  destruct Hu as [_ [_ [_ [C [O U]]]]].
  simpl. rewrite C, O, U. simpl.
  destruct com.
  - inversion H1 as [|lc kc ls2 ks2 Hc H2]; subst. destruct Hc as [_ [_ [_ Hc]]]. simpl in Hc.
    simpl. rewrite Hc. simpl.
    destruct orient.
    + inversion H2 as [|lo ko ls3 ks3 Ho H3]; subst. inversion H3; subst. destruct Ho as [_ [_ [_ [Ho1 Ho2]]]].
      simpl. rewrite ?Ho1, ?Ho2. simpl. reflexivity.
    + inversion H2; subst. reflexivity.
  - destruct orient.
    + inversion H1 as [|lo ko ls3 ks3 Ho H3]; subst. inversion H3; subst. destruct Ho as [_ [_ [_ [Ho1 Ho2]]]].
      simpl. rewrite ?Ho1, ?Ho2. simpl. reflexivity.
    + inversion H1; subst. reflexivity.
Qed.

(* ------------------------------------------------------------------------------------------ *)
(** * fragments *)
Lemma frag_atoms ls atoms : forall f a,
  Forall2 lex_as ls (map KAtom atoms) ->
  frag_lines ls (Some f) a
  = Ok (Some f, {| ma_elbl := ma_elbl a ++ map a_lbl atoms; ma_geom := ma_geom a ++ flat_map a_xyz atoms; ma_seps := ma_seps a;
                  ma_fchg := ma_fchg a; ma_fmult := ma_fmult a; ma_rem := ma_rem a |}).
Proof.
  revert ls. induction atoms as [|at0 atoms IH]; intros ls f a H; inversion H as [|l k ls' ks' Hl Hr]; subst; simpl.
  - rewrite !app_nil_r. destruct a; reflexivity.
  - destruct Hl as [_ [_ [_ [_ [_ [_ Ha]]]]]]. rewrite Ha. destruct at0 as [[[n x] y] z].
    rewrite IH by assumption. simpl. rewrite <- !app_assoc. reflexivity.
Qed.

Definition add_block (f : fragd) (a : macc) : macc :=
  {| ma_elbl := ma_elbl a ++ map a_lbl (fd_atoms f);
     ma_geom := ma_geom a ++ flat_map a_xyz (fd_atoms f);
     ma_seps := ma_seps a ++ (if Nat.ltb 0 (List.length (ma_elbl a)) then [List.length (ma_elbl a)] else []);
     ma_fchg := ma_fchg a ++ [Some (fd_c f)]; ma_fmult := ma_fmult a ++ [Some (fd_m f)]; ma_rem := ma_rem a |}.

Lemma filter_fragment_block ls f a :
  Forall2 lex_as ls (block_kinds f) -> filter_fragment ls a = Ok (add_block f a).
Proof.
  intro H. unfold block_kinds in H. inversion H as [|l k ls' ks' Hl Hr]; subst.
  destruct Hl as [_ [_ [_ [_ [_ [ms [Hc Hi]]]]]]].
  unfold filter_fragment. simpl. rewrite Hc, Hi. simpl.
  rewrite (frag_atoms ls' (fd_atoms f)) by exact Hr. simpl.
  unfold add_block. destruct (Nat.ltb 0 (List.length (ma_elbl a))); simpl; rewrite ?app_nil_r; reflexivity.
Qed.

Definition add_blocks (frags : list fragd) (a : macc) : macc :=
  {| ma_elbl := ma_elbl a ++ elbl_of frags;
     ma_geom := ma_geom a ++ geom_of frags;
     ma_seps := ma_seps a ++ seps_acc frags (List.length (ma_elbl a));
     ma_fchg := ma_fchg a ++ map (fun f => Some (fd_c f)) frags;
     ma_fmult := ma_fmult a ++ map (fun f => Some (fd_m f)) frags; ma_rem := ma_rem a |}.

Lemma fragments_blocks frags : forall lss a,
  Forall2 (fun ls f => Forall2 lex_as ls (block_kinds f)) lss frags ->
  fragments lss a = Ok (add_blocks frags a).
Proof.
  induction frags as [|f r IH]; intros lss a H; inversion H as [|ls0 f0 lss' r' Hb Hr]; subst; simpl.
  - unfold add_blocks. simpl. rewrite !app_nil_r. destruct a; reflexivity.
  - rewrite (filter_fragment_block _ f a) by assumption. simpl. rewrite (IH _ _ Hr).
    unfold add_blocks, add_block, elbl_of, geom_of. simpl. rewrite !app_length, map_length.
    rewrite <- !app_assoc. reflexivity.
Qed.

(* ------------------------------------------------------------------------------------------ *)
(** * split_dash *)
Lemma split_dash_nodash ls ks : forall cur,
  Forall2 lex_as ls ks -> Forall (fun k => k <> KDash /\ body_kind k) ks ->
  split_dash ls cur = match cur ++ ls with [] => [] | x => [x] end.
Proof.
  intros cur H; revert cur. induction H as [|l k ls ks Hl _ IH]; intros cur Hk; simpl.
  - rewrite app_nil_r. destruct cur; reflexivity.
  - inversion Hk as [|k0 ks0 Hk1 Hk2]; subst. destruct Hk1 as [Hnd Hb].
    assert (D : is_dash l = false).
    { destruct Hl as [_ [_ [_ Hx]]]. destruct k; simpl in *; try contradiction; try tauto; try congruence. }
    rewrite D. rewrite IH by assumption. rewrite <- app_assoc. reflexivity.
Qed.

(** the lines of several blocks, each introduced by a "--" line *)
Lemma split_dash_blocks frags : forall lss dashes cur,
  List.length dashes = List.length frags ->
  Forall (fun l => lex_as l KDash) dashes ->
  Forall2 (fun ls f => Forall2 lex_as ls (block_kinds f)) lss frags ->
  cur <> [] ->
  split_dash (List.concat (map (fun p : string * list string => fst p :: snd p) (combine dashes lss))) cur = cur :: lss.
Proof.
  induction frags as [|f r IH]; intros lss dashes cur Hlen Hd H Hc; inversion H as [|x f0 lss' r' Hb Hr]; subst.
  - destruct dashes; [|discriminate]. simpl. destruct cur; [contradiction | reflexivity].
  - destruct dashes as [|d dashes]; [discriminate|]. simpl in Hlen. inversion Hd as [|d0 ds0 Hd1 Hd2]; subst.
    simpl. destruct Hd1 as [_ [_ [_ [_ Hdash]]]]. rewrite Hdash.
    destruct cur as [|c0 cur0]; [contradiction|].
    f_equal.
    (* the block's own lines contain no dash, then the remaining blocks *)
    assert (G : forall (ls : list string) ks rest cur1, Forall2 lex_as ls ks -> Forall (fun k => k <> KDash /\ body_kind k) ks ->
                split_dash (ls ++ rest) cur1 = split_dash rest (cur1 ++ ls)).
    { clear. intros ls ks rest cur1 H; revert cur1. induction H as [|l k ls ks Hl _ IHl]; intros cur1 Hk; simpl.
      - now rewrite app_nil_r.
      - inversion Hk as [|k0 ks0 Hk1 Hk2]; subst. destruct Hk1 as [Hnd Hb].
        assert (D : is_dash l = false).
        { destruct Hl as [_ [_ [_ Hx]]]. destruct k; simpl in *; try contradiction; try tauto; try congruence. }
        rewrite D. rewrite IHl by assumption. now rewrite <- app_assoc. }
    rewrite (G x (block_kinds f)); [|assumption|].
    + simpl. apply IH; try assumption; [lia|].
      inversion Hb; subst. discriminate.
    + unfold block_kinds, atom_kinds. constructor; [split; [discriminate | exact I]|].
      apply Forall_forall. intros k Hk. apply in_map_iff in Hk as [a [<- _]]. split; [discriminate | exact I].
Qed.

(* ------------------------------------------------------------------------------------------ *)
(** * the psi4 reader on a written single-fragment and multi-fragment text *)
Lemma lex_as_facts l k : lex_as l k -> is_empty l = false /\ is_pubchem l = false /\ is_efp_start l = false.
Proof. intros [A [B [C _]]]; auto. Qed.

Lemma no_pubchem ls ks : Forall2 lex_as ls ks -> existsb is_pubchem ls = false.
Proof.
  induction 1 as [|l k ls ks Hl _ IH]; simpl; [reflexivity|].
  destruct (lex_as_facts _ _ Hl) as [_ [P _]]. now rewrite P, IH.
Qed.

Definition ua0 : uacc := {| ua_com := false; ua_orient := false; ua_units := None; ua_symm := None; ua_keep := [] |}.

Lemma universals_written lb kb lt u com orient :
  Forall2 lex_as lb kb -> Forall body_kind kb -> Forall2 lex_as lt (tail_kinds u com orient) ->
  universals (lb ++ lt) ua0 = {| ua_com := com; ua_orient := orient; ua_units := Some u; ua_symm := None; ua_keep := lb |}.
Proof.
  intros Hb Bk Ht. rewrite universals_app, (universals_body lb kb ua0 Hb Bk). simpl.
  apply universals_tail; assumption.
Qed.

Definition result_single (f : fragd) (u : string) (com orient : bool) : processed :=
  {| p_units := Some u; p_fix_com := com; p_fix_orient := orient; p_fix_symm := None;
     p_molchg := None; p_molmult := None;
     p_elbl := map a_lbl (fd_atoms f); p_geom := flat_map a_xyz (fd_atoms f);
     p_seps := Some []; p_fchg := Some [Some (fd_c f)]; p_fmult := Some [Some (fd_m f)] |}.

Theorem psi4_lines_single lb lt f u com orient :
  fd_atoms f <> [] ->
  Forall2 lex_as lb (block_kinds f) -> Forall2 lex_as lt (tail_kinds u com orient) ->
  parse_psi4_lines (lb ++ lt) = Ok (result_single f u com orient).
Proof.
  intros Hne Hb Ht. unfold parse_psi4_lines.
  rewrite (no_pubchem (lb ++ lt) (block_kinds f ++ tail_kinds u com orient)) by (apply Forall2_app; assumption).
  assert (Bk : Forall body_kind (block_kinds f)).
  { unfold block_kinds, atom_kinds. constructor; [exact I|]. apply Forall_forall. intros k Hk. apply in_map_iff in Hk as [a [<- _]]. exact I. }
  fold ua0. rewrite (universals_written lb (block_kinds f) lt u com orient Hb Bk Ht). cbv zeta. simpl ua_keep.
  assert (Nd : Forall (fun k => k <> KDash /\ body_kind k) (block_kinds f)).
  { unfold block_kinds, atom_kinds. constructor; [split; [discriminate | exact I]|].
    apply Forall_forall. intros k Hk. apply in_map_iff in Hk as [a [<- _]]. split; [discriminate | exact I]. }
  rewrite (split_dash_nodash lb (block_kinds f) [] Hb Nd). simpl app.
  (* lb = chg/mult line :: first atom line :: ... *)
  unfold block_kinds, atom_kinds in Hb. destruct (fd_atoms f) as [|a0 atoms] eqn:EA; [contradiction|].
  inversion Hb as [|l0 k0 lb1 ks1 Hl0 Hb1]; subst. inversion Hb1 as [|l1 k1 lb2 ks2 Hl1 Hb2]; subst.
  destruct (lex_as_facts _ _ Hl0) as [_ [_ E0]]. simpl existsb. rewrite E0. simpl.
  assert (Hblk : Forall2 lex_as (l0 :: l1 :: lb2) (block_kinds f)).
  { unfold block_kinds, atom_kinds. rewrite EA. simpl. constructor; [assumption | constructor; assumption]. }
  rewrite (filter_fragment_block _ f macc0 Hblk). simpl.
  unfold result_single. rewrite EA. simpl. reflexivity.
Qed.

Definition result_multi (c : dnum) (m : Z) (frags : list fragd) (u : string) (com orient : bool) : processed :=
  {| p_units := Some u; p_fix_com := com; p_fix_orient := orient; p_fix_symm := None;
     p_molchg := Some c; p_molmult := Some m;
     p_elbl := elbl_of frags; p_geom := geom_of frags;
     p_seps := Some (seps_acc frags 0);
     p_fchg := Some (map (fun f => Some (fd_c f)) frags); p_fmult := Some (map (fun f => Some (fd_m f)) frags) |}.

Definition weave (dashes : list string) (lss : list (list string)) : list string :=
  List.concat (map (fun p : string * list string => fst p :: snd p) (combine dashes lss)).

Lemma weave_body frags : forall dashes lss,
  List.length dashes = List.length frags ->
  Forall (fun l => lex_as l KDash) dashes ->
  Forall2 (fun ls f => Forall2 lex_as ls (block_kinds f)) lss frags ->
  exists ks, Forall2 lex_as (weave dashes lss) ks /\ Forall body_kind ks.
Proof.
  induction frags as [|f r IH]; intros dashes lss Hlen Hd H; inversion H as [|x f0 lss' r' Hb Hr]; subst.
  - destruct dashes; [|discriminate]. exists []. split; constructor.
  - destruct dashes as [|d dashes]; [discriminate|]. inversion Hd as [|d0 ds0 Hd1 Hd2]; subst. simpl in Hlen.
    destruct (IH dashes lss' ltac:(lia) Hd2 Hr) as [ks [K1 K2]].
    exists (KDash :: block_kinds f ++ ks). unfold weave. cbn [combine map List.concat fst snd app]. split.
    + constructor; [assumption|]. apply Forall2_app; assumption.
    + constructor; [exact I|]. apply Forall_app. split; [|assumption].
      unfold block_kinds, atom_kinds. constructor; [exact I|]. apply Forall_forall. intros k Hk. apply in_map_iff in Hk as [a [<- _]]. exact I.
Qed.

Theorem psi4_lines_multi l0 dashes lss lt c m frags u com orient :
  lex_as l0 (KCgmp c m) ->
  List.length dashes = List.length frags ->
  Forall (fun l => lex_as l KDash) dashes ->
  Forall2 (fun ls f => Forall2 lex_as ls (block_kinds f)) lss frags ->
  Forall2 lex_as lt (tail_kinds u com orient) ->
  parse_psi4_lines ((l0 :: weave dashes lss) ++ lt) = Ok (result_multi c m frags u com orient).
Proof.
  intros H0 Hlen Hd Hb Ht. destruct (weave_body frags dashes lss Hlen Hd Hb) as [ks [K1 K2]].
  assert (Hbody : Forall2 lex_as (l0 :: weave dashes lss) (KCgmp c m :: ks)) by (constructor; assumption).
  assert (Bk : Forall body_kind (KCgmp c m :: ks)) by (constructor; [exact I | assumption]).
  unfold parse_psi4_lines.
  rewrite (no_pubchem _ ((KCgmp c m :: ks) ++ tail_kinds u com orient)) by (apply Forall2_app; assumption).
  fold ua0. rewrite (universals_written _ _ lt u com orient Hbody Bk Ht). cbv zeta. simpl ua_keep.
  (* fragments: the first one is the lone chg/mult line *)
  assert (D0 : is_dash l0 = false) by (destruct H0 as [_ [_ [_ [_ [D _]]]]]; exact D).
  simpl split_dash. rewrite D0. simpl app.
  unfold weave. rewrite (split_dash_blocks frags lss dashes [l0] Hlen Hd Hb ltac:(discriminate)).
  (* no fragment starts like an EFP line *)
  assert (E : existsb (fun f => match f with l :: _ => is_efp_start l | [] => false end) ([l0] :: lss) = false).
  { simpl. destruct (lex_as_facts _ _ H0) as [_ [_ E0]]. rewrite E0. simpl.
    clear - Hb. induction Hb as [|x f lss r Hx _ IH]; simpl; [reflexivity|].
    unfold block_kinds in Hx. inversion Hx as [|l k ls' ks' Hl _]; subst.
    destruct (lex_as_facts _ _ Hl) as [_ [_ E1]]. now rewrite E1, IH. }
  rewrite E.
  destruct H0 as [_ [_ [_ [_ [_ [ms [Hc Hi]]]]]]]. rewrite Hc, Hi. simpl.
  rewrite (fragments_blocks frags lss macc0 Hb). simpl.
  reflexivity.
Qed.

(* ------------------------------------------------------------------------------------------ *)
(** * the xyz / xyz+ reader on written lines *)
Lemma xyz_atoms_written nuc ls atoms : forall a,
  Forall2 (fun l at_ => atom_match nuc l = Some at_) ls atoms ->
  xyz_atoms nuc ls a = {| xa_elbl := xa_elbl a ++ map a_lbl atoms; xa_geom := xa_geom a ++ flat_map a_xyz atoms; xa_rem := xa_rem a |}.
Proof.
  intros a H; revert a. induction H as [|l at0 ls atoms Hl _ IH]; intro a; simpl.
  - rewrite !app_nil_r. destruct a; reflexivity.
  - rewrite Hl. destruct at0 as [[[n x] y] z]. rewrite IH. simpl. rewrite <- !app_assoc. reflexivity.
Qed.

Definition result_xyz (units : string) (cm : option (dnum * Z)) (atoms : list atomd) : processed :=
  {| p_units := Some units; p_fix_com := false; p_fix_orient := false; p_fix_symm := None;
     p_molchg := match cm with Some (q, _) => Some q | None => None end;
     p_molmult := match cm with Some (_, z) => Some z | None => None end;
     p_elbl := map a_lbl atoms; p_geom := flat_map a_xyz atoms; p_seps := None; p_fchg := None; p_fmult := None |}.

(** xyz+: count line with optional unit word, "chg mult title" line, atom lines — any number of atoms *)
Theorem xyzplus_lines l0 l1 ls uo q ms mu atoms :
  xyz1_match l0 = Some uo -> xyz2_match l1 = Some (q, ms) -> py_int ms = Ok mu ->
  Forall2 (fun l at_ => atom_match is_nucleus l = Some at_) ls atoms ->
  parse_xyz_lines false (l0 :: l1 :: ls)
  = Ok (result_xyz (match uo with Some u => u | None => "Angstrom"%string end) (Some (q, mu)) atoms).
Proof.
  intros H0 H1 Hi Ha. unfold parse_xyz_lines. rewrite H0, H1, Hi. simpl.
  rewrite (xyz_atoms_written is_nucleus ls atoms _ Ha). simpl. reflexivity.
Qed.

(** strict xyz: count line, ignored title line, atom lines with plain element symbols *)
Theorem xyz_lines l0 l1 ls atoms :
  all_digits l0 = true ->
  Forall2 (fun l at_ => atom_match is_simple_nucleus l = Some at_) ls atoms ->
  parse_xyz_lines true (l0 :: l1 :: ls) = Ok (result_xyz "Angstrom" None atoms).
Proof.
  intros H0 Ha. unfold parse_xyz_lines. rewrite H0. simpl.
  rewrite (xyz_atoms_written is_simple_nucleus ls atoms _ Ha). simpl. reflexivity.
Qed.
