(** C14 — the driver generated from linear_sum_assignment (Gen/HungarianGlue.v: refusal test, orientation test, early
    exit, first step, result views taken after the loop, star code) is the hand-written model's, for all inputs. *)
From Coq Require Import ZArith List Bool Arith.
Require Import QV.Common.Outcome QV.Model.Hungarian QV.Gen.HungarianGlue.
Import ListNotations.
Open Scope Z_scope.

Lemma gen_bad_cell_spec c : gen_bad_cell c = negb (is_fin c).
Proof. destruct c; reflexivity. Qed.

Lemma gen_refusal_spec (M : list (list cell)) :
  existsb (existsb gen_bad_cell) M = negb (forallb (forallb is_fin) M).
Proof.
  induction M as [|r M IH]; [reflexivity|]. cbn [existsb forallb]. rewrite IH, negb_andb. f_equal.
  induction r as [|c r IHr]; [reflexivity|]. cbn [existsb forallb]. rewrite IHr, negb_andb, gen_bad_cell_spec. reflexivity.
Qed.

Lemma gen_pieces :
  (forall n m, gen_transposed n m = (m <? n)%nat) /\
  (forall n m, gen_skip n m = (Nat.eqb n 0 || Nat.eqb m 0)) /\
  gen_first = S1 /\ gen_star = 1 /\
  (forall tr s, gen_marked tr s = if tr then transpose (marked s) else marked s) /\
  (forall tr s, gen_reduced tr s = if tr then transpose (hC s) else hC s).
Proof. repeat split. Qed.

Lemma gen_lsa_is_lsa C : gen_lsa C = lsa C.
Proof.
  destruct gen_pieces as (Ht & Hs & Hf & Hk & Hm & Hr).
  unfold gen_lsa, lsa, lsa_fuel. cbv zeta. rewrite Hs, Ht, Hf.
  destruct (Nat.eqb (nrows C) 0 || Nat.eqb (ncols C) 0); [reflexivity|].
  destruct (run _ S1 _) as [s|e]; [|reflexivity].
  unfold finish, nonzero1. rewrite Hm, Hr, Hk. reflexivity.
Qed.

Theorem gen_lsa_in_is_lsa_in M : gen_lsa_in M = lsa_in M.
Proof.
  unfold gen_lsa_in, lsa_in. cbv zeta. rewrite gen_refusal_spec, gen_lsa_is_lsa. reflexivity.
Qed.
