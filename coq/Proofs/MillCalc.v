(** C13 — the physics link: for an energy that is invariant under the recipe's rigid motion (and atom
    relabelling), the gradient and the Hessian at the aligned geometry are the aligned gradient and the
    aligned Hessian.  Real analysis by Coquelicot's [is_derive]; the only calculus facts used are
    extensionality, uniqueness and linearity of the derivative of a function of one real variable:
    s |-> E (x + s v)  and  s |-> E' (T x + s L v)  are the same function (Proofs/Mill.line_transport),
    so no chain rule is needed. *)
From Coq Require Import Reals List Arith Lia.
From Coquelicot Require Import Coquelicot.
Require Import QV.Common.Outcome QV.Common.AlignAlg QV.Common.AlignAlgFacts QV.Common.AlignAlgR QV.Model.Mill QV.Proofs.Mill.
Import ListNotations.


(** the point x + s v *)
Definition line (x : list (vec3 R)) (s : R) (v : list (vec3 R)) : list (vec3 R) := ladd x (lscale s v).

(** [grad] is a gradient of [E] on geometries of n atoms: the derivative of E along every line is the
    inner product of grad with the direction *)
Definition grad_spec (n : nat) (E : list (vec3 R) -> R) (grad : list (vec3 R) -> list (vec3 R)) : Prop :=
  forall y v, length y = n -> length v = n ->
    length (grad y) = n /\ is_derive (fun s : R => E (line y s v)) 0%R (ldot (grad y) v).

(** [hess] (flat (3n,3n), C order) is the derivative of [grad]: the derivative of each gradient
    component along every line is the corresponding row of hess applied to the direction *)
Definition hess_spec (n : nat) (grad : list (vec3 R) -> list (vec3 R)) (hess : list (vec3 R) -> list R) : Prop :=
  (forall y, length y = n -> length (hess y) = (3 * n * (3 * n))%nat) /\
  forall y v r, length y = n -> length v = n -> (r < 3 * n)%nat ->
    is_derive (fun s : R => nth r (flat3 (grad (line y s v))) 0%R) 0%R
              (bsum (3 * n) (fun c => (nth (r * (3 * n) + c) (hess y) 0 * nth c (flat3 v) 0)%R)).

Lemma line_length x s v : length x = length v -> length (line x s v) = length x.
Proof. intros H. unfold line. apply ladd_length. unfold lscale. rewrite map_length. exact H. Qed.

Lemma is_derive_bsum N (coef : nat -> R) (f : nat -> R -> R) (d : nat -> R) (x0 : R) :
  (forall c, (c < N)%nat -> is_derive (f c) x0 (d c)) ->
  is_derive (fun s : R => bsum N (fun c => (coef c * f c s)%R)) x0 (bsum N (fun c => (coef c * d c)%R)).
Proof.
  induction N as [|N IH]; intros H.
  - exact (is_derive_const (0%R : R_NormedModule) x0).
  - exact (is_derive_plus (fun s : R => bsum N (fun c => (coef c * f c s)%R)) (fun s : R => (coef N * f N s)%R) x0 _ _
             (IH (fun c Hc => H c (Nat.lt_lt_succ_r _ _ Hc)))
             (is_derive_scal (f N) x0 (coef N) (d N) (H N (Nat.lt_succ_diag_r N)))).
Qed.

Section Physics.
Variable m : mill R.
Variable n : nat.
Hypothesis HO : mmul (mtrans (rot m)) (rot m) = mid.
Hypothesis HP : is_perm n (amap m).
(* E' at the aligned geometry equals E at the original one (E' = E for identical atoms; in general E'
   carries the couplings along the atom map) *)
Variables E E' : list (vec3 R) -> R.
Hypothesis Hinv : forall x y, length x = n -> align_coordinates m false x = Ok y -> E' y = E x.
Variables grad grad' : list (vec3 R) -> list (vec3 R).
Hypothesis GS : grad_spec n E grad.
Hypothesis GS' : grad_spec n E' grad'.

Lemma aligned_length x y : length x = n -> align_coordinates m false x = Ok y -> length y = n.
Proof. intros Lx Hy. destruct (coords_atomwise _ _ _ _ Hy) as [Ly _]. destruct HP as [Ln _]. lia. Qed.

Lemma transported_line x y v lv s :
  length x = n -> length v = n ->
  align_coordinates m false x = Ok y -> align_gradient m v = Ok lv ->
  align_coordinates m false (line x s v) = Ok (line y s lv).
Proof. intros Lx Lv Hy Hlv. unfold line. apply line_transport; [lia|assumption|assumption]. Qed.

Theorem invariant_gradient_covariant x y :
  length x = n -> align_coordinates m false x = Ok y -> align_gradient m (grad x) = Ok (grad' y).
Proof.
  intros Lx Hy. pose proof (aligned_length _ _ Lx Hy) as Ly.
  apply adjoint_identifies with n; try assumption.
  - exact (proj1 (GS' y y Ly Ly)).
  - exact (proj1 (GS x x Lx Lx)).
  - intros v lv Lv Hlv.
    assert (Llv : length lv = n).
    { destruct (gradient_atomwise _ _ _ Hlv) as [L _]. destruct HP as [Ln _]. lia. }
    pose proof (proj2 (GS x v Lx Lv)) as D1. pose proof (proj2 (GS' y lv Ly Llv)) as D2.
    assert (D2' : is_derive (fun s : R => E (line x s v)) 0%R (ldot (grad' y) lv)).
    { apply (is_derive_ext (fun s : R => E' (line y s lv))); [|exact D2].
      intros s. apply Hinv; [rewrite line_length; lia|]. apply transported_line; assumption. }
    transitivity (Derive (fun s : R => E (line x s v)) 0%R).
    + symmetry. apply is_derive_unique. exact D2'.
    + apply is_derive_unique. exact D1.
Qed.

Variables hess hess' : list (vec3 R) -> list R.
Hypothesis HS : hess_spec n grad hess.
Hypothesis HS' : hess_spec n grad' hess'.

Theorem invariant_hessian_covariant x y :
  length x = n -> align_coordinates m false x = Ok y -> align_hessian m n (hess x) = Ok (hess' y).
Proof.
  intros Lx Hy. pose proof (aligned_length _ _ Lx Hy) as Ly. pose proof HP as [Ln _].
  destruct (hessian_ok m n (hess x) HP) as [H'' HH]. rewrite HH. f_equal.
  destruct (hessian_is_LHLt m n (hess x) H'' Ln HH) as [LH'' EH].
  destruct HS as [HSl HSd]. destruct HS' as [HSl' HSd'].
  apply nth_ext_eq with (d := 0%R); [rewrite LH'', HSl' by exact Ly; reflexivity|].
  intros k Hk. rewrite LH'' in Hk.
  assert (Hn : (0 < 3 * n)%nat) by nia.
  pose proof (Nat.div_mod k (3 * n) ltac:(lia)) as Ek.
  pose proof (Nat.mod_upper_bound k (3 * n) ltac:(lia)) as Hj.
  set (r := (k / (3 * n))%nat) in *. set (j := (k mod (3 * n))%nat) in *.
  assert (Hr : (r < 3 * n)%nat) by nia.
  replace k with (r * (3 * n) + j)%nat by lia.
  rewrite EH by assumption.
  (* direction: row j of L *)
  destruct (gradient_ok m n (Lrow m n j) HP (unflat3_length _ _)) as [lv Hlv].
  destruct (L_of_Lrow m n j lv HO HP Hj Hlv) as [Llv Dlv].
  pose proof (unflat3_length n (fun c => Lmat m j c)) as Lv. fold (Lrow m n j) in Lv.
  pose proof (HSd' y lv r Ly Llv Hr) as D2.
  (* the gradient component along the transported line, expressed through grad *)
  assert (D2' : is_derive (fun s : R => bsum (3 * n) (fun c => (Lmat m r c * nth c (flat3 (grad (line x s (Lrow m n j)))) 0)%R)) 0%R
                  (bsum (3 * n) (fun c => (nth (r * (3 * n) + c) (hess' y) 0 * nth c (flat3 lv) 0)%R))).
  { apply (is_derive_ext (fun s : R => nth r (flat3 (grad' (line y s lv))) 0%R)); [|exact D2].
    intros s.
    assert (Lxs : length (line x s (Lrow m n j)) = n) by (rewrite line_length; lia).
    pose proof (invariant_gradient_covariant _ _ Lxs (transported_line x y _ lv s Lx Lv Hy Hlv)) as G.
    destruct (gradient_is_L _ _ _ G) as [_ GL]. rewrite GL by lia.
    rewrite (proj1 (GS _ _ Lxs Lxs)). reflexivity. }
  pose proof (is_derive_bsum (3 * n) (fun c => Lmat m r c)
                (fun c s => nth c (flat3 (grad (line x s (Lrow m n j)))) 0%R)
                (fun c => bsum (3 * n) (fun l => (nth (c * (3 * n) + l) (hess x) 0 * nth l (flat3 (Lrow m n j)) 0)%R))
                0%R (fun c Hc => HSd x (Lrow m n j) c Lx Lv Hc)) as D1.
  pose proof (eq_trans (eq_sym (is_derive_unique _ _ _ D2')) (is_derive_unique _ _ _ D1)) as EQ.
  (* left: only l = j survives *)
  rewrite (bsum_ext (3 * n) _ (fun l => if Nat.eqb l j then nth (r * (3 * n) + l) (hess' y) 0%R else (0%K : R))) in EQ.
  2:{ intros l Hl. rewrite Dlv by exact Hl. unfold kdelta. destruct (Nat.eqb l j); cbn [k0 k1 ROps]; ring. }
  rewrite bsum_delta in EQ by exact Hj. rewrite EQ.
  apply bsum_ext. intros c Hc. change Rmult with (@kmul R ROps). rewrite <- bsum_scale_l.
  apply bsum_ext. intros l Hl. unfold Lrow. change 0%R with (@k0 R ROps). rewrite flat3_unflat3_nth by exact Hl.
  cbn [kmul ROps]. ring.
Qed.
End Physics.

(** ---- molecule-attached vector fields (recipes without mirror) ---- *)
(** [J] (three rows of length 3n) is the Jacobian of the vector field [mu]: the derivative of each
    component along every line is the corresponding row applied to the direction *)
Definition jac_spec (n : nat) (mu : list (vec3 R) -> vec3 R) (J : list (vec3 R) -> list R * list R * list R) : Prop :=
  (forall y a, length y = n -> (a < 3)%nat -> length (sel3 a (J y)) = (3 * n)%nat) /\
  forall y v a, length y = n -> length v = n -> (a < 3)%nat ->
    is_derive (fun s : R => comp (mu (line y s v)) a) 0%R
              (bsum (3 * n) (fun c => (nth c (sel3 a (J y)) 0 * nth c (flat3 v) 0)%R)).

Lemma vg_scan_ok n (p : list nat) ats :
  List.Forall (fun i => i < length p)%nat ats -> List.Forall (fun i => i < n)%nat p -> vg_scan n ats p = None.
Proof.
  intros Ha Hp. induction ats as [|j ats IH]; [reflexivity|]. inversion Ha; subst. cbn [vg_scan].
  destruct (nth_error p j) as [v|] eqn:E.
  - assert (Hv : (v < n)%nat). { rewrite Forall_forall in Hp. apply Hp. eapply nth_error_In. exact E. }
    apply Nat.ltb_lt in Hv. rewrite Hv. apply IH. assumption.
  - apply nth_error_None in E. lia.
Qed.

Section VectorField.
Variable m : mill R.
Variable n : nat.
Hypothesis HO : mmul (mtrans (rot m)) (rot m) = mid.
Hypothesis HP : is_perm n (amap m).
Hypothesis HM : mirror m = false.
(* mu' at the aligned geometry is the aligned vector *)
Variables mu mu' : list (vec3 R) -> vec3 R.
Hypothesis Hcov : forall x y, length x = n -> align_coordinates m false x = Ok y -> mu' y = align_vector m (mu x).
Variables J J' : list (vec3 R) -> list R * list R * list R.
Hypothesis JS : jac_spec n mu J.
Hypothesis JS' : jac_spec n mu' J'.

Theorem covariant_vector_jacobian x y :
  length x = n -> align_coordinates m false x = Ok y -> align_vector_gradient m (J x) = Ok (J' y).
Proof.
  intros Lx Hy. pose proof (aligned_length m n HP _ _ Lx Hy) as Ly. pose proof HP as [Ln [ND FA]].
  destruct JS as [JL JD]. destruct JS' as [JL' JD'].
  (* the call succeeds *)
  destruct (J x) as [[mx my] mz] eqn:EJ.
  assert (Lmx : length mx = (3 * n)%nat) by (pose proof (JL x 0%nat Lx ltac:(lia)) as E; rewrite EJ in E; exact E).
  assert (Lmy : length my = (3 * n)%nat) by (pose proof (JL x 1%nat Lx ltac:(lia)) as E; rewrite EJ in E; exact E).
  assert (Lmz : length mz = (3 * n)%nat) by (pose proof (JL x 2%nat Lx ltac:(lia)) as E; rewrite EJ in E; exact E).
  assert (Hn : (length mx / 3 = n)%nat) by (rewrite Lmx, Nat.mul_comm; apply Nat.div_mul; lia).
  destruct (align_vector_gradient m (mx, my, mz)) as [out|e] eqn:EV.
  2:{ exfalso. unfold align_vector_gradient in EV. rewrite Hn in EV.
      rewrite Lmx, Lmy, Lmz, Nat.eqb_refl in EV. cbn [andb negb] in EV.
      rewrite vg_scan_ok in EV; [discriminate| |exact FA].
      apply Forall_forall. intros i Hi. apply in_seq in Hi. lia. }
  f_equal.
  pose proof (vector_gradient_covariant m (mx, my, mz) out EV) as VC. cbn [sel3] in VC. rewrite Hn in VC.
  (* rows agree entry by entry *)
  assert (Hrows : forall a, (a < 3)%nat -> sel3 a out = sel3 a (J' y)).
  { intros a Ha. apply nth_ext_eq with (d := 0%R).
    - destruct n as [|n'].
      + rewrite (JL' y a Ly Ha).
        destruct out as [[ox oy] oz]. unfold align_vector_gradient in EV. rewrite Hn in EV.
        rewrite Lmx, Lmy, Lmz in EV. cbn in EV. injection EV as <- <- <-. destruct a as [|[|[|a]]]; try lia; reflexivity.
      + destruct (VC a 0%nat Ha ltac:(lia)) as [LO _]. rewrite LO, (JL' y a Ly Ha). reflexivity.
    - intros r Hr.
      assert (Hr' : (r < 3 * n)%nat).
      { destruct n as [|n']; [|destruct (VC a 0%nat Ha ltac:(lia)) as [LO _]; lia].
        exfalso. destruct out as [[ox oy] oz]. unfold align_vector_gradient in EV. rewrite Hn in EV.
        rewrite Lmx, Lmy, Lmz in EV. cbn in EV. injection EV as <- <- <-. destruct a as [|[|[|a]]]; cbn in Hr; lia. }
      destruct (VC a r Ha Hr') as [_ VE]. change 0%R with (@k0 R ROps). rewrite (VE HM). clear VE.
      (* direction: row r of L *)
      destruct (gradient_ok m n (Lrow m n r) HP (unflat3_length _ _)) as [lv Hlv].
      destruct (L_of_Lrow m n r lv HO HP Hr' Hlv) as [Llv Dlv].
      pose proof (unflat3_length n (fun c => Lmat m r c)) as Lv. fold (Lrow m n r) in Lv.
      pose proof (JD' y lv a Ly Llv Ha) as D2.
      assert (D2' : is_derive (fun s : R => bsum 3 (fun a' => (ment (rot m) a' a * comp (mu (line x s (Lrow m n r))) a')%R)) 0%R
                      (bsum (3 * n) (fun c => (nth c (sel3 a (J' y)) 0 * nth c (flat3 lv) 0)%R))).
      { apply (is_derive_ext (fun s : R => comp (mu' (line y s lv)) a)); [|exact D2].
        intros s. rewrite (Hcov (line x s (Lrow m n r)) (line y s lv)).
        - rewrite vector_is_rotT by exact Ha. reflexivity.
        - rewrite line_length; lia.
        - apply transported_line with n; assumption. }
      pose proof (is_derive_bsum 3 (fun a' => ment (rot m) a' a)
                    (fun a' s => comp (mu (line x s (Lrow m n r))) a')
                    (fun a' => bsum (3 * n) (fun c => (nth c (sel3 a' (J x)) 0 * nth c (flat3 (Lrow m n r)) 0)%R))
                    0%R (fun a' Ha' => JD x (Lrow m n r) a' Lx Lv Ha')) as D1.
      pose proof (eq_trans (eq_sym (is_derive_unique _ _ _ D2')) (is_derive_unique _ _ _ D1)) as EQ.
      rewrite (bsum_ext (3 * n) _ (fun l => if Nat.eqb l r then nth l (sel3 a (J' y)) 0%R else (0%K : R))) in EQ.
      2:{ intros l Hl. rewrite Dlv by exact Hl. unfold kdelta. destruct (Nat.eqb l r); cbn [k0 k1 ROps]; ring. }
      rewrite bsum_delta in EQ by exact Hr'. change (@k0 R ROps) with 0%R. rewrite EQ. rewrite EJ.
      apply bsum_ext. intros a' Ha'. change Rmult with (@kmul R ROps). f_equal.
      apply bsum_ext. intros c Hc. unfold Lrow. change 0%R with (@k0 R ROps). rewrite flat3_unflat3_nth by exact Hc.
      cbv [sel3 kmul ROps]. ring. }
  destruct out as [[ox oy] oz], (J' y) as [[jx jy] jz].
  pose proof (Hrows 0%nat ltac:(lia)) as E0. pose proof (Hrows 1%nat ltac:(lia)) as E1. pose proof (Hrows 2%nat ltac:(lia)) as E2.
  cbn [sel3] in E0, E1, E2. subst. reflexivity.
Qed.
End VectorField.
