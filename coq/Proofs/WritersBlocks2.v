(** C08 — the rendered CHARACTERS of the mrchem and gamess blocks, read back by an independent reader (wave 4).
    mrchem: the five header lines (charge, multiplicity, translate stated in them), one "label x y z" line per atom, "$end", "}"
    (the model's last line holds a newline: it is two lines of the text).  gamess: " $data", title card, symmetry card (+ a blank
    card unless C1), one card " name Z x y z" per atom (Z negative for a ghost) read by a five-token reader, " $end". *)
From Coq Require Import ZArith NArith List String Ascii Bool Lia.
Require Import QV.Common.Outcome QV.Common.WText QV.Common.WBin64 QV.Model.WriterTypes QV.Gen.WriterTables QV.Model.Writers
               QV.Model.Text QV.Proofs.Writers QV.Proofs.TextRT QV.Proofs.TextLex QV.Proofs.TextLayout QV.Proofs.TextRoundTrip
               QV.Proofs.TextRoundTripXyz QV.Proofs.WritersReread QV.Proofs.WritersBlocks.
Import ListNotations.
Open Scope nat_scope.

Local Notation "a +++ b" := (String.append a b) (at level 60, right associativity).

(** a line that holds a newline is two lines of the text *)
Lemma jn_app_cons L x R : jn (L ++ x :: R) = match L with [] => jn (x :: R) | _ => jn L +++ String nl (jn (x :: R)) end.
Proof.
  induction L as [|a L IH]; [reflexivity|]. destruct L as [|b L].
  - reflexivity.
  - change ((a :: b :: L) ++ x :: R) with (a :: (b :: L) ++ x :: R). change ((b :: L) ++ x :: R) with (b :: (L ++ x :: R)) at 1.
    rewrite jn_cons. change (b :: L ++ x :: R) with ((b :: L) ++ x :: R). rewrite IH. rewrite jn_cons.
    rewrite app_assoc_s. reflexivity.
Qed.

Lemma jn_split_line L a b R : jn (L ++ (a +++ String nl b) :: R) = jn (L ++ a :: b :: R).
Proof.
  rewrite !jn_app_cons.
  assert (E : jn ((a +++ String nl b) :: R) = jn (a :: b :: R)).
  { rewrite jn_cons. destruct R as [|r R]; [reflexivity|]. rewrite !jn_cons. now rewrite app_assoc_s. }
  now rewrite E.
Qed.

Lemma render_split_last cfg e L a b :
  wt_xyze e = false -> wt_lower e = false ->
  render_text cfg e (L ++ [LText (a +++ String nl b)]) = render_text cfg e (L ++ [LText a; LText b]).
Proof.
  intros X Lw. unfold render_text. rewrite X, Lw. fold (rl cfg). rewrite !map_app. cbn [map]. unfold rl at 2 4 5. cbn [render_line].
  fold (jn (map (rl cfg) L ++ [a +++ String nl b])). fold (jn (map (rl cfg) L ++ [a; b])). now rewrite jn_split_line.
Qed.

Lemma branch_mrchem e cfg m atoms : wt_dtype e = "mrchem"%string ->
  branch_lines e cfg m atoms
  = Ok ([LText "Molecule {"; LText ("charge = " +++ dec_of_Z (m_chg m)); LText ("multiplicity = " +++ dec_of_Z (m_mult m));
         LText ("translate = " +++ py_bool (m_fix_com m)); LText "$coords"] ++ map LAtom atoms ++ [LText ("$end" +++ String nl "}")]).
Proof. intro E. unfold branch_lines. rewrite E. reflexivity. Qed.

Definition mrchem_head (m : molrec) : list string :=
  ["Molecule {"; "charge = " +++ dec_of_Z (m_chg m); "multiplicity = " +++ dec_of_Z (m_mult m);
   "translate = " +++ py_bool (m_fix_com m); "$coords"]%string.

Theorem mrchem_text_states_the_molecule cfg m text kw e :
  wt_find (s_lower (w_dtype cfg)) wt_table = Some e -> s_lower (w_dtype cfg) = "mrchem"%string ->
  to_string_model cfg m = Ok (text, kw) -> block_fits e cfg m ->
  exists atoms,
    Forall2 (is_view (af_of e cfg) (gf_of e cfg) (factor_of e cfg m)) (m_atoms m) atoms
    /\ read_block 5 2 text = Some (mrchem_head m, map (atomd_of (w_prec cfg)) atoms, ["$end"; "}"]%string).
Proof.
  intros F E1 H Fit. open_case F E1 H Hl ls e.
  match type of F with _ = Some ?x => set (e := x) in * end.
  destruct (to_lines_inv cfg m ls kw e F ltac:(rewrite E1; reflexivity) eq_refl Hl) as [atoms [Ha Hb]].
  rewrite branch_mrchem in Hb by reflexivity. injection Hb as Hb; subst ls.
  destruct Fit as [Fa Ff Fn Fs].
  destruct (views_plain _ _ _ _ _ _ xyzp_format_real xyzp_format_real eq_refl lp_elem lp_elem atoms Ha Fa Ff) as [Vp Vv].
  exists atoms. split; [exact Vv|].
  set (hd := [LText "Molecule {"; LText ("charge = " +++ dec_of_Z (m_chg m)); LText ("multiplicity = " +++ dec_of_Z (m_mult m));
              LText ("translate = " +++ py_bool (m_fix_com m)); LText "$coords"]).
  assert (R : render_text cfg e (hd ++ map LAtom atoms ++ [LText ("$end" +++ String nl "}")])
              = render_text cfg e (hd ++ map LAtom atoms ++ [LText "$end"; LText "}"]))
    by (rewrite !app_assoc; apply render_split_last; reflexivity).
  match goal with |- read_block _ _ (render_text _ _ ?X) = _ =>
    change X with (hd ++ map LAtom atoms ++ [LText ("$end" +++ String nl "}")]) end.
  rewrite R.
  set (tl := [LText "$end"; LText "}"]).
  change (mrchem_head m) with (map (rl cfg) hd). change ["$end"; "}"]%string with (map (rl cfg) tl).
  apply (finish cfg e hd atoms tl); try reflexivity; try assumption; [discriminate | | repeat constructor].
  constructor; [reflexivity|]. constructor; [apply (nonl_app "charge = "); [reflexivity | apply nonl_dec]|].
  constructor; [apply (nonl_app "multiplicity = "); [reflexivity | apply nonl_dec]|].
  constructor; [destruct (m_fix_com m); reflexivity|]. constructor; [reflexivity | constructor].
Qed.

(* ------------------------------------------------------------------------------------------ *)
(** * block reader over any atom-line reader *)
Section ReaderBy.
  Context {A : Type} (am : string -> option A).
  Fixpoint all_atoms_by (ls : list string) : option (list A) :=
    match ls with
    | [] => Some []
    | l :: r => match am l, all_atoms_by r with Some a, Some t => Some (a :: t) | _, _ => None end
    end.
  Definition read_lines_by (h t : nat) (L : list string) : option (list string * list A * list string) :=
    let n := List.length L - h - t - 1 in
    match all_atoms_by (firstn n (skipn h L)) with
    | Some ats =>
        match skipn (h + n + t) L with
        | [e] => if is_empty e then Some (firstn h L, ats, firstn t (skipn (h + n) L)) else None
        | _ => None
        end
    | None => None
    end.
  Definition read_block_by (h t : nat) (text : string) := read_lines_by h t (s_split nl text).

  Lemma read_lines_by_spec head body tail ats :
    all_atoms_by body = Some ats ->
    read_lines_by (List.length head) (List.length tail) (head ++ body ++ tail ++ [EmptyString]) = Some (head, ats, tail).
  Proof.
    intro H. unfold read_lines_by.
    assert (N : List.length (head ++ body ++ tail ++ [EmptyString]) - List.length head - List.length tail - 1 = List.length body).
    { rewrite !app_length. simpl. lia. }
    rewrite N. rewrite skipn_len_app, firstn_len_app, H.
    rewrite !skipn_plus, skipn_len_app, skipn_len_app, skipn_len_app. cbn [is_empty]. rewrite !firstn_len_app. reflexivity.
  Qed.

  Lemma all_atoms_by_map {B} (f : B -> string) (g : B -> A) l :
    Forall (fun b => am (f b) = Some (g b)) l -> all_atoms_by (map f l) = Some (map g l).
  Proof. induction 1 as [|b l Hb _ IH]; [reflexivity|]. cbn [map all_atoms_by]. now rewrite Hb, IH. Qed.

  Lemma read_block_by_lines head body tail ats :
    head <> [] -> Forall nonl head -> Forall nonl body -> Forall nonl tail -> all_atoms_by body = Some ats ->
    read_block_by (List.length head) (List.length tail) (jn (head ++ body ++ tail) +++ String nl EmptyString) = Some (head, ats, tail).
  Proof.
    intros Hn Hh Hb Ht Ha. unfold read_block_by. rewrite text_lines.
    - rewrite <- !app_assoc. now apply read_lines_by_spec.
    - destruct head; [contradiction | discriminate].
    - apply Forall_app; split; [assumption|]. apply Forall_app; split; assumption.
  Qed.
End ReaderBy.

(* ------------------------------------------------------------------------------------------ *)
(** * gamess: " $data", the title card, the symmetry card (+ a blank card unless C1), one card per atom
      " name  Z  x  y  z" (Z negative for a ghost), " $end" *)
Definition gamess_atomd := (string * string * dnum * dnum * dnum)%type.
Definition gamess_match (line : string) : option gamess_atomd :=
  match toks line with
  | [n; z; x; y; zc] =>
      match parse_number x, parse_number y, parse_number zc with
      | Some a, Some b, Some c => Some (n, z, a, b, c)
      | _, _, _ => None
      end
  | _ => None
  end.

Definition gamess_name (a : atom) : string := if a_real a then a_elem a +++ a_elbl a else a_elem a.
Definition gamess_ztok (a : atom) : string := if a_real a then dec_of_Z (a_elez a) else "-" +++ dec_of_Z (a_elez a).
Definition gamess_label (a : atom) : string := " " +++ gamess_name a +++ " " +++ gamess_ztok a.
Definition gamess_of (p : nat) (f : b64) (a : atom) : gamess_atomd :=
  (gamess_name a, gamess_ztok a, dn p (b64mul (a_x a) f), dn p (b64mul (a_y a) f), dn p (b64mul (a_z a) f)).

Lemma fmt_gamess_real a : py_format " {elem}{elbl} {elez}" a = Ok (" " +++ (a_elem a +++ a_elbl a) +++ " " +++ dec_of_Z (a_elez a)).
Proof. cbv -[String.append a_elem a_elbl a_elez dec_of_Z]. now rewrite app_nil_r_s, app_assoc_s. Qed.
Lemma fmt_gamess_ghost a : py_format " {elem} -{elez}" a = Ok (" " +++ a_elem a +++ " " +++ "-" +++ dec_of_Z (a_elez a)).
Proof. cbv -[String.append a_elem a_elbl a_elez dec_of_Z]. now rewrite app_nil_r_s. Qed.

Lemma gamess_views f l atoms :
  atoms_formatter " {elem}{elbl} {elez}" " {elem} -{elez}" f l = Ok atoms -> atoms = map (fun a => convert f a (gamess_label a)) l.
Proof.
  revert atoms. induction l as [|a l IH]; intros atoms H; cbn [atoms_formatter] in H; [injection H as H; now subst|].
  change (s_eqb " {elem} -{elez}" "") with false in H.
  destruct (a_real a) eqn:R.
  - rewrite fmt_gamess_real in H. cbn [obind] in H. apply obind_ok in H as [vs [Hv H]]. injection H as H; subst atoms.
    cbn [map]. rewrite (IH vs Hv). unfold gamess_label, gamess_name, gamess_ztok. now rewrite R.
  - rewrite fmt_gamess_ghost in H. cbn [obind] in H. apply obind_ok in H as [vs [Hv H]]. injection H as H; subst atoms.
    cbn [map]. rewrite (IH vs Hv). unfold gamess_label, gamess_name, gamess_ztok. now rewrite R.
Qed.

Lemma numch_plain_word s : s_all numch s = true -> plain_word s.
Proof.
  apply s_all_none. intros c H. destruct c as [[] [] [] [] [] [] [] []]; vm_compute in H; try discriminate; reflexivity.
Qed.
Lemma gamess_name_plain a : atom_plain a -> plain_word (gamess_name a) /\ is_empty (gamess_name a) = false.
Proof.
  intros [H1 H2 H3 _ _ _]. unfold gamess_name. destruct (a_real a); [|split; assumption].
  split; [now apply plain_word_app | now apply nonempty_app].
Qed.
Lemma gamess_ztok_plain a : plain_word (gamess_ztok a) /\ is_empty (gamess_ztok a) = false.
Proof.
  unfold gamess_ztok. destruct (a_real a).
  - split; [apply numch_plain_word, dec_of_Z_numch | apply dec_of_Z_nonempty].
  - split; [apply (plain_word_app "-"); [reflexivity | apply numch_plain_word, dec_of_Z_numch] | reflexivity].
Qed.

Lemma gamess_line_match w p f a :
  atom_plain a -> (0 <= bm f)%Z ->
  gamess_match (render_atom w p false false (convert f a (gamess_label a))) = Some (gamess_of p f a)
  /\ nonl (render_atom w p false false (convert f a (gamess_label a))).
Proof.
  intros Pa Hf. destruct (gamess_name_plain a Pa) as [N1 N2]. destruct (gamess_ztok_plain a) as [Z1 Z2].
  destruct (plain_word_facts _ N1) as [Ns Nn]. destruct (plain_word_facts _ Z1) as [Zs Zn].
  destruct Pa as [_ _ _ Hx Hy Hz].
  set (v := convert f a (gamess_label a)).
  assert (Bx : (0 <= bm (av_x v))%Z) by (apply b64mul_nonneg; assumption).
  assert (By : (0 <= bm (av_y v))%Z) by (apply b64mul_nonneg; assumption).
  assert (Bz : (0 <= bm (av_z v))%Z) by (apply b64mul_nonneg; assumption).
  set (FX := fmt_f p (av_x v)). set (FY := fmt_f p (av_y v)). set (FZ := fmt_f p (av_z v)).
  assert (NX : s_any is_sepc FX = false /\ is_empty FX = false) by (split; [apply numeric_no_sep, fmt_f_numch | now apply fmt_f_nonempty]).
  assert (NY : s_any is_sepc FY = false /\ is_empty FY = false) by (split; [apply numeric_no_sep, fmt_f_numch | now apply fmt_f_nonempty]).
  assert (NZ : s_any is_sepc FZ = false /\ is_empty FZ = false) by (split; [apply numeric_no_sep, fmt_f_numch | now apply fmt_f_nonempty]).
  rewrite atom_line_shape. fold FX FY FZ.
  set (R3 := s_repeat sp (w - String.length FZ) +++ FZ).
  set (R2 := s_repeat sp (w - String.length FY) +++ FY +++ s_repeat sp 0 +++ two_sp +++ R3).
  set (R1 := s_repeat sp (w - String.length FX) +++ FX +++ s_repeat sp 0 +++ two_sp +++ R2).
  assert (T3 : toks R3 = [FZ]) by (unfold R3; rewrite toks_spaces; apply toks_last; tauto).
  assert (T2 : toks R2 = [FY; FZ]) by (unfold R2; rewrite toks_spaces, toks_field by tauto; now rewrite T3).
  assert (T1 : toks R1 = [FX; FY; FZ]) by (unfold R1; rewrite toks_spaces, toks_field by tauto; now rewrite T2).
  change (av_label v) with (gamess_label a). unfold gamess_label.
  set (pad := s_repeat sp (w - String.length (" " +++ gamess_name a +++ " " +++ gamess_ztok a))).
  assert (Sh : (" " +++ gamess_name a +++ " " +++ gamess_ztok a) +++ pad +++ two_sp +++ R1
               = String " " (gamess_name a +++ String " " (gamess_ztok a +++ pad +++ two_sp +++ R1))).
  { rewrite !app_assoc_s. reflexivity. }
  rewrite Sh. split.
  - unfold gamess_match. rewrite toks_sep by reflexivity. rewrite toks_tok by (assumption || reflexivity).
    unfold pad. rewrite toks_field by assumption. rewrite T1. unfold FX, FY, FZ. rewrite !parse_number_fmt by assumption. reflexivity.
  - unfold nonl. cbn [s_any]. rewrite s_any_app, Nn. cbn [s_any]. rewrite s_any_app, Zn.
    unfold pad, R1, R2, R3, two_sp.
    destruct (numeric_plain _ (fmt_f_numch p (av_x v))) as [X1 _].
    destruct (numeric_plain _ (fmt_f_numch p (av_y v))) as [Y1 _].
    destruct (numeric_plain _ (fmt_f_numch p (av_z v))) as [Z1' _].
    fold FX in X1. fold FY in Y1. fold FZ in Z1'.
    rewrite !s_any_app, X1, Y1, Z1', !(s_any_repeat is_nl sp _ eq_refl). reflexivity.
Qed.

Lemma render_split_mid cfg e L a b R :
  wt_xyze e = false -> wt_lower e = false ->
  render_text cfg e (L ++ LText (a +++ String nl b) :: R) = render_text cfg e (L ++ LText a :: LText b :: R).
Proof.
  intros X Lw. unfold render_text. rewrite X, Lw. fold (rl cfg). rewrite !map_app. cbn [map]. unfold rl at 2 5 6. cbn [render_line].
  fold (jn (map (rl cfg) L ++ (a +++ String nl b) :: map (rl cfg) R)). fold (jn (map (rl cfg) L ++ a :: b :: map (rl cfg) R)).
  now rewrite jn_split_line.
Qed.

Lemma render_is_jn cfg e ls : wt_xyze e = false -> wt_lower e = false ->
  render_text cfg e ls = jn (map (rl cfg) ls) +++ String nl EmptyString.
Proof. intros X Lw. unfold render_text. now rewrite X, Lw. Qed.

Lemma nonl_lstrip s : nonl s -> nonl (s_lstrip s).
Proof.
  unfold nonl. induction s as [|c s IH]; intro H; [reflexivity|]. cbn [s_any] in H. apply orb_false_iff in H as [Hc Hs].
  cbn [s_lstrip]. destruct (c_is_space c); [now apply IH | cbn [s_any]; now rewrite Hc, Hs].
Qed.
Lemma nonl_strip s : nonl s -> nonl (s_strip s).
Proof. intro H. unfold s_strip. now apply nonl_rstrip, nonl_lstrip. Qed.

Definition gamess_symm (m : molrec) : string := s_strip (match m_fix_symm m with Some s => s | None => "C1"%string end).
Definition gamess_c1 (m : molrec) : bool := s_eqb (s_upper (gamess_symm m)) "C1".

Lemma branch_gamess e cfg m atoms : wt_dtype e = "gamess"%string ->
  branch_lines e cfg m atoms
  = Ok (LText " $data" :: LText (" " +++ tagline m)
        :: LText (" " +++ gamess_symm m +++ (if gamess_c1 m then "" else String nl EmptyString)) :: map LAtom atoms ++ [LText " $end"]).
Proof. intro E. unfold branch_lines. rewrite E. reflexivity. Qed.

Definition gamess_head (m : molrec) : list string :=
  [" $data"%string; " " +++ tagline m; " " +++ gamess_symm m] ++ (if gamess_c1 m then [] else [EmptyString]).

Theorem gamess_text_states_the_molecule cfg m text kw e :
  wt_find (s_lower (w_dtype cfg)) wt_table = Some e -> s_lower (w_dtype cfg) = "gamess"%string ->
  to_string_model cfg m = Ok (text, kw) -> block_fits e cfg m ->
  read_block_by gamess_match (if gamess_c1 m then 3 else 4) 1 text
  = Some (gamess_head m, map (gamess_of (w_prec cfg) (factor_of e cfg m)) (m_atoms m), [" $end"%string]).
Proof.
  intros F E1 H Fit. open_case F E1 H Hl ls e.
  match type of F with _ = Some ?x => set (e := x) in * end.
  destruct (to_lines_inv cfg m ls kw e F ltac:(rewrite E1; reflexivity) eq_refl Hl) as [atoms [Ha Hb]].
  rewrite branch_gamess in Hb by reflexivity. injection Hb as Hb; subst ls.
  destruct Fit as [Fa Ff Fn Fs].
  pose proof (gamess_views _ _ _ Ha) as Hv. subst atoms.
  set (f := factor_of e cfg m) in *.
  set (views := map (fun a => convert f a (gamess_label a)) (m_atoms m)).
  assert (Hs : nonl (gamess_symm m)).
  { unfold gamess_symm. apply nonl_strip. destruct (m_fix_symm m); [exact Fs | reflexivity]. }
  assert (Body : all_atoms_by gamess_match (map (rl cfg) (map LAtom views)) = Some (map (gamess_of (w_prec cfg) f) (m_atoms m))
                 /\ Forall nonl (map (rl cfg) (map LAtom views))).
  { unfold views. rewrite !map_map. split.
    - apply all_atoms_by_map. rewrite Forall_forall in *. intros a Hin. unfold rl. cbn [render_line].
      now apply gamess_line_match; [apply Fa|].
    - apply Forall_forall. intros l Hin. apply in_map_iff in Hin as [a [El Hin]]. subst l. unfold rl. cbn [render_line].
      rewrite Forall_forall in Fa. now apply gamess_line_match; [apply Fa|]. }
  destruct Body as [B1 B2].
  assert (Ht : nonl (" " +++ tagline m)).
  { apply (nonl_app " "); [reflexivity|]. apply (nonl_app "auto-generated by QCElemental from molecule "); [reflexivity | exact Fn]. }
  assert (Hy : nonl (" " +++ gamess_symm m)) by (apply (nonl_app " "); [reflexivity | exact Hs]).
  unfold gamess_head. destruct (gamess_c1 m).
  - rewrite app_nil_r_s. rewrite render_is_jn by reflexivity. cbn [map]. rewrite map_app. cbn [map].
    exact (read_block_by_lines gamess_match [" $data"%string; " " +++ tagline m; " " +++ gamess_symm m]
             (map (rl cfg) (map LAtom views)) [" $end"%string] _
             ltac:(discriminate) ltac:(repeat constructor; assumption) B2 ltac:(repeat constructor) B1).
  - pose proof (render_split_mid cfg e [LText " $data"; LText (" " +++ tagline m)] (" " +++ gamess_symm m) "" (map LAtom views ++ [LText " $end"]) eq_refl eq_refl) as RS.
    match goal with |- read_block_by _ _ _ (render_text _ _ ?X) = _ =>
      change X with ([LText " $data"; LText (" " +++ tagline m)] ++ LText ((" " +++ gamess_symm m) +++ String nl "") :: map LAtom views ++ [LText " $end"]) end.
    rewrite RS.
    rewrite render_is_jn by reflexivity. cbn [map app]. rewrite map_app. cbn [map].
    exact (read_block_by_lines gamess_match [" $data"%string; " " +++ tagline m; " " +++ gamess_symm m; EmptyString]
             (map (rl cfg) (map LAtom views)) [" $end"%string] _
             ltac:(discriminate) ltac:(repeat constructor; assumption) B2 ltac:(repeat constructor) B1).
Qed.
