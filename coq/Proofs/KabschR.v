(** C12, part 2 — over the reals: the Rayleigh-quotient argument from the eigh specification, optimality of
    the Kabsch rotation over all rotations U(q) of unit quaternions, reported = applied residual for
    kabsch_align, recovery of rigid copies. *)
From Coq Require Import Reals List Arith Lia Lra Psatz Bool.
Require Import QV.Common.Outcome QV.Common.AlignAlg QV.Common.AlignAlgFacts QV.Common.AlignAlgQuat QV.Common.AlignAlgR
               QV.Gen.Quat QV.Model.Mill QV.Model.Kabsch QV.Proofs.Mill QV.Proofs.Kabsch.
Import ListNotations.

Ltac tuple_ring :=
  repeat match goal with |- pair _ _ = pair _ _ => apply f_equal2 end; ring.
Ltac runfold := cbv [kadd kmul ksub kopp k0 k1 ROps] in *.

(** ---- 4x4 algebra (polynomial identities) ---- *)
Section Alg4.
Context {K : Type} {KO : Ops K} {KR : RingLaws K}.
Add Ring KRing4 : (@ring_laws K KO KR).
Local Open Scope K_scope.

Ltac d4 M := destruct M as [[[[[[?a ?b] ?c] ?d] [[[?e ?f] ?g] ?h]] [[[?i ?j] ?k] ?l]] [[[?m ?n] ?o] ?p]].
Ltac dq q := destruct q as [[[?q0 ?q1] ?q2] ?q3].

Lemma m4mul_id_r (F : mat4 K) : m4mul F m4id = F.
Proof. d4 F. cbv [m4mul m4id m4trans m4col m4ent m4row qcomp m4vec qdot]. tuple_ring. Qed.

Lemma quad_assoc (F V : mat4 K) (q : quat K) :
  quad4 (m4mul F (m4mul V (m4trans V))) q = quad4 (m4mul (m4mul F V) (m4trans V)) q.
Proof. d4 F. d4 V. dq q. cbv [quad4 m4mul m4trans m4col m4ent m4row qcomp m4vec qdot]. ring. Qed.

Lemma quad_spectral (V : mat4 K) (w q : quat K) :
  quad4 (m4mul (m4mul V (m4diag w)) (m4trans V)) q = wsum w (m4vec (m4trans V) q).
Proof. d4 V. dq q. dq w. cbv [quad4 m4mul m4diag m4trans m4col m4ent m4row qcomp m4vec qdot wsum]. ring. Qed.

Lemma n2_quad_id (q : quat K) : n2 q = quad4 m4id q.
Proof. dq q. cbv [n2 quad4 m4id m4vec qdot]. ring. Qed.

Lemma quad_gram (V : mat4 K) (q : quat K) : quad4 (m4mul V (m4trans V)) q = n2 (m4vec (m4trans V) q).
Proof. d4 V. dq q. cbv [n2 quad4 m4mul m4trans m4col m4ent m4row qcomp m4vec qdot]. ring. Qed.

Lemma coords_of_column (V : mat4 K) k : m4vec (m4trans V) (m4col V k) = m4col (m4mul (m4trans V) V) k.
Proof.
  d4 V. destruct k as [|[|[|k]]]; cbv [m4mul m4trans m4col m4ent m4row qcomp m4vec qdot]; tuple_ring.
Qed.

Lemma quad_scale (F : mat4 K) (s : K) (q : quat K) : quad4 F (qscale s q) = s * s * quad4 F q.
Proof. d4 F. dq q. cbv [quad4 qscale m4vec qdot]. ring. Qed.
End Alg4.

(** ---- the specification of numpy.linalg.eigh on a 4x4 matrix: w ascending, columns of V orthonormal
         eigenvectors (F V = V diag(w), V^T V = V V^T = I) ---- *)
Definition eigh_spec (F : mat4 R) (w : quat R) (V : mat4 R) : Prop :=
  m4mul F V = m4mul V (m4diag w) /\ m4mul (m4trans V) V = m4id /\ m4mul V (m4trans V) = m4id /\
  (qcomp w 0 <= qcomp w 1 /\ qcomp w 1 <= qcomp w 2 /\ qcomp w 2 <= qcomp w 3)%R.

Lemma rayleigh_decomposition F w V q :
  eigh_spec F w V -> quad4 F q = wsum w (m4vec (m4trans V) q) /\ n2 q = n2 (m4vec (m4trans V) q).
Proof.
  intros [HE [HC [HR HA]]]. split.
  - rewrite <- (m4mul_id_r F) at 1. rewrite <- HR. rewrite quad_assoc, HE. apply quad_spectral.
  - rewrite n2_quad_id, <- HR. apply quad_gram.
Qed.

(** q^T F q <= lambda_max |q|^2 for every q, with equality (and |q| = 1) at the last column of V *)
Theorem top_eigvec_optimal F w V :
  eigh_spec F w V ->
  (forall q, (quad4 F q <= qcomp w 3 * n2 q)%R) /\
  quad4 F (m4col V 3) = qcomp w 3 /\ n2 (m4col V 3) = 1%R.
Proof.
  intros HS. pose proof HS as [HE [HC [HR HA]]]. split; [|split].
  - intros q. destruct (rayleigh_decomposition F w V q HS) as [-> ->].
    destruct (m4vec (m4trans V) q) as [[[c0 c1] c2] c3]. destruct w as [[[w0 w1] w2] w3].
    cbv [wsum n2 qdot qcomp] in *. runfold.
    pose proof (Rle_0_sqr c0). pose proof (Rle_0_sqr c1). pose proof (Rle_0_sqr c2). pose proof (Rle_0_sqr c3).
    unfold Rsqr in *. nra.
  - destruct (rayleigh_decomposition F w V (m4col V 3) HS) as [-> _].
    rewrite coords_of_column, HC. destruct w as [[[w0 w1] w2] w3].
    cbv [wsum m4col m4id m4ent m4row qcomp]. runfold. ring.
  - destruct (rayleigh_decomposition F w V (m4col V 3) HS) as [_ ->].
    rewrite coords_of_column, HC. cbv [n2 qdot m4col m4id m4ent m4row qcomp]. runfold. ring.
Qed.

(** ---- optimality of the Kabsch rotation over unit quaternions ---- *)
Definition residual (Rs Cs : list (vec3 R)) (q : quat R) : R :=
  sumsq (lsub Rs (map (fun c => vmat c (genU q)) Cs)).

Theorem kabsch_optimal_over_quaternions_partial (Rs Cs : list (vec3 R)) w V :
  length Rs = length Cs ->
  eigh_spec (genF (cov_of Rs Cs)) w V ->
  forall q, n2 q = 1%R -> (residual Rs Cs (m4col V 3) <= residual Rs Cs q)%R.
Proof.
  intros HL HS q Hq. destruct (top_eigvec_optimal _ w V HS) as [Hmax [Htop Hunit]].
  unfold residual. rewrite (residual_identity (m4col V 3) Rs Cs Hunit HL). rewrite (residual_identity q Rs Cs Hq HL).
  rewrite Htop. pose proof (Hmax q) as H. rewrite Hq in H. runfold. lra.
Qed.

(** the minimum itself: sum|r|^2 + sum|c|^2 - 2 lambda_max *)
Theorem kabsch_minimum_value (Rs Cs : list (vec3 R)) w V :
  length Rs = length Cs -> eigh_spec (genF (cov_of Rs Cs)) w V ->
  residual Rs Cs (m4col V 3) = (sumsq Rs + sumsq Cs - 2 * qcomp w 3)%R.
Proof.
  intros HL HS. destruct (top_eigvec_optimal _ w V HS) as [_ [Htop Hunit]].
  unfold residual. rewrite (residual_identity (m4col V 3) Rs Cs Hunit HL). rewrite Htop. runfold. ring.
Qed.

(** ---- kabsch_align ---- *)
Definition centred (N : nat) (X : list (vec3 R)) : list (vec3 R) := map (fun v => vsub v (centroid N X)) X.

(* the matrix kabsch_align hands to eigh, and: on that matrix [eigtop] returned the last column of a (w, V)
   satisfying the eigh specification *)
Definition kabsch_F (Rg Cg : list (vec3 R)) : mat4 R :=
  genF (cov_of (centred (length Rg) Rg) (centred (length Rg) Cg)).
Definition eigtop_ok (eigtop : mat4 R -> quat R) (F : mat4 R) : Prop :=
  exists w V, eigh_spec F w V /\ eigtop F = m4col V 3.

Lemma kabsch_align_unfold eigtop atol rtol Rg Cg :
  allclose atol rtol Rg Cg = false ->
  let N := length Rg in
  let q := eigtop (genF (cov_of (centred N Rg) (centred N Cg))) in
  k_rot (kabsch_align eigtop atol rtol Rg Cg) = genU q /\
  k_shift (kabsch_align eigtop atol rtol Rg Cg) = vsub (centroid N Cg) (mvec (genU q) (centroid N Rg)) /\
  k_ssd (kabsch_align eigtop atol rtol Rg Cg) = residual (centred N Rg) (centred N Cg) q.
Proof. intros H. unfold kabsch_align. rewrite H. cbn. repeat split. Qed.

Lemma centred_length N X : length (centred N X) = length X.
Proof. unfold centred. apply map_length. Qed.

(** the returned rotation is proper, and the reported residual is optimal among all U(q), |q| = 1,
    applied about the centroids *)
Theorem kabsch_align_proper_and_optimal eigtop atol rtol Rg Cg :
  eigtop_ok eigtop (kabsch_F Rg Cg) -> length Rg = length Cg -> allclose atol rtol Rg Cg = false ->
  let o := kabsch_align eigtop atol rtol Rg Cg in
  orthogonal (k_rot o) /\ det3 (k_rot o) = 1%R /\
  forall q, n2 q = 1%R -> (k_ssd o <= residual (centred (length Rg) Rg) (centred (length Rg) Cg) q)%R.
Proof.
  intros HS HL HC o. destruct (kabsch_align_unfold eigtop atol rtol Rg Cg HC) as [Er [Et Es]].
  destruct HS as [w [V [HV Eq]]]. unfold kabsch_F in HV, Eq.
  destruct (top_eigvec_optimal _ w V HV) as [_ [_ Hunit]].
  subst o. rewrite Er, Es, Eq. destruct (U_proper (m4col V 3) Hunit) as [HO HD].
  split; [exact HO|]. split; [exact HD|].
  intros q Hq. apply kabsch_optimal_over_quaternions_partial with w; try assumption.
  rewrite !centred_length. exact HL.
Qed.

(** reported = applied: B787 applies AlignmentMill(shift=TT, rotation=RR, atommap=ordering) to cgeom and
    measures |tgeom - rgeom|^2; this is the residual kabsch_align reported for cgeom[ordering] *)
Theorem reported_rmsd_is_applied_rmsd eigtop atol rtol Rg Cg ordering Cp :
  eigtop_ok eigtop (kabsch_F Rg Cp) ->
  gather Cg ordering = Ok Cp -> length Rg = length Cp -> allclose atol rtol Rg Cp = false ->
  let o := kabsch_align eigtop atol rtol Rg Cp in
  applied_ssd o ordering Rg Cg = Ok (k_ssd o).
Proof.
  intros HS HG HL HC o. destruct (kabsch_align_unfold eigtop atol rtol Rg Cp HC) as [Er [Et Es]].
  destruct HS as [w [V [HV Eq]]]. unfold kabsch_F in HV, Eq.
  destruct (top_eigvec_optimal _ w V HV) as [_ [_ Hunit]].
  destruct (U_proper (m4col V 3) Hunit) as [[HO _] _].
  unfold applied_ssd, align_coordinates, solution_mill. cbn [amap mirror shift rot].
  rewrite gather_map, HG. cbn [obind]. f_equal.
  unfold fwd_atom. cbn [mirror shift rot mirv]. fold o. subst o. rewrite Er, Et, Es, Eq.
  unfold residual, centred. apply sumsq_applied; [exact HO|exact HL].
Qed.

(** ---- recovery of rigid copies ---- *)
Lemma nsq_nonneg (v : vec3 R) : (0 <= nsq v)%R.
Proof.
  destruct v as [[a b] c]. cbv [nsq dot3]. runfold.
  pose proof (Rle_0_sqr a). pose proof (Rle_0_sqr b). pose proof (Rle_0_sqr c). unfold Rsqr in *. lra.
Qed.

Lemma nsq_zero (v : vec3 R) : nsq v = 0%R -> v = v0.
Proof.
  destruct v as [[a b] c]. cbv [nsq dot3 v0]. runfold. intros H.
  pose proof (Rle_0_sqr a). pose proof (Rle_0_sqr b). pose proof (Rle_0_sqr c). unfold Rsqr in *.
  assert (a * a = 0)%R by lra. assert (b * b = 0)%R by lra. assert (c * c = 0)%R by lra.
  repeat f_equal; apply Rsqr_0_uniq; assumption.
Qed.

Lemma sumsq_nonneg (l : list (vec3 R)) : (0 <= sumsq l)%R.
Proof.
  induction l as [|v l IH]; cbn [sumsq].
  - runfold. lra.
  - pose proof (nsq_nonneg v). runfold. lra.
Qed.

Lemma sumsq_zero (l : list (vec3 R)) : sumsq l = 0%R -> Forall (fun v => v = v0) l.
Proof.
  induction l as [|v l IH]; cbn [sumsq]; intros H; [constructor|].
  pose proof (nsq_nonneg v) as H1. pose proof (sumsq_nonneg l) as H2.
  assert (E : nsq v = 0%R /\ sumsq l = 0%R) by (runfold; lra).
  constructor; [apply nsq_zero; exact (proj1 E) | apply IH; exact (proj2 E)].
Qed.

Lemma lsub_zero (x y : list (vec3 R)) :
  length x = length y -> Forall (fun v => v = v0) (lsub x y) -> x = y.
Proof.
  revert y. induction x as [|a x IH]; intros [|b y] HL HF; cbn [length] in HL; try discriminate; [reflexivity|].
  cbn [lsub] in HF. inversion HF as [|? ? H1 H2]; subst. f_equal; [|apply IH; [lia|exact H2]].
  destruct a as [[a0 a1] a2], b as [[b0 b1] b2]. cbv [vsub v0] in H1. runfold. inversion H1.
  repeat match goal with |- pair _ _ = pair _ _ => apply f_equal2 end; lra.
Qed.

Lemma vsum_affine (M : mat3 R) (t : vec3 R) (X : list (vec3 R)) :
  vsum (map (fun r => vadd (vmat r M) t) X) = vadd (vmat (vsum X) M) (vscale (INR (length X)) t).
Proof.
  induction X as [|x X IH].
  - destruct t as [[t0 t1] t2], M as [[[[a1 a2] a3] [[b1 b2] b3]] [[c1 c2] c3]].
    cbv [map vsum length INR vadd vmat vscale v0 dot3 mcol ment mrow comp]. runfold. tuple_ring.
  - cbn [map vsum length]. rewrite IH. rewrite S_INR.
    destruct x as [[x0 x1] x2], (vsum X) as [[s0 s1] s2], t as [[t0 t1] t2], M as [[[[a1 a2] a3] [[b1 b2] b3]] [[c1 c2] c3]].
    cbv [vadd vmat vscale dot3 mcol ment mrow comp]. runfold. tuple_ring.
Qed.

Lemma centroid_affine (M : mat3 R) (t : vec3 R) (X : list (vec3 R)) :
  (0 < length X)%nat ->
  centroid (length X) (map (fun r => vadd (vmat r M) t) X) = vadd (vmat (centroid (length X) X) M) t.
Proof.
  intros HN. unfold centroid. rewrite vsum_affine.
  assert (HI : INR (length X) <> 0%R) by (apply not_0_INR; lia).
  destruct (vsum X) as [[s0 s1] s2], t as [[t0 t1] t2], M as [[[[a1 a2] a3] [[b1 b2] b3]] [[c1 c2] c3]].
  cbv [vdivs vadd vmat vscale dot3 mcol ment mrow comp kdiv kofnat RDiv]. runfold. repeat match goal with |- pair _ _ = pair _ _ => apply f_equal2 end; field; exact HI.
Qed.

Lemma centred_affine (M : mat3 R) (t : vec3 R) (X : list (vec3 R)) :
  (0 < length X)%nat ->
  centred (length X) (map (fun r => vadd (vmat r M) t) X) = map (fun r => vmat r M) (centred (length X) X).
Proof.
  intros HN. unfold centred. rewrite centroid_affine by exact HN. rewrite !map_map. apply map_ext.
  intros r. rewrite vmat_vsub.
  destruct (vmat r M) as [[a b] c], (vmat (centroid (length X) X) M) as [[d e] f], t as [[t0 t1] t2].
  cbv [vadd vsub]. runfold. tuple_ring.
Qed.

Lemma residual_rigid_copy (q0 : quat R) (X : list (vec3 R)) :
  n2 q0 = 1%R -> residual X (map (fun r => vmat r (mtrans (genU q0))) X) q0 = 0%R.
Proof.
  intros Hq. destruct (U_proper q0 Hq) as [[HO _] _].
  unfold residual. induction X as [|x X IH]; [reflexivity|].
  cbn [map lsub sumsq]. rewrite IH. rewrite vmat_mmul, HO, vmat_mid.
  destruct x as [[a b] c]. cbv [vsub nsq dot3]. runfold. ring.
Qed.

Lemma gather_seq_aux {A} (pre l : list A) : gather (pre ++ l) (seq (length pre) (length l)) = Ok l.
Proof.
  revert pre. induction l as [|a l IH]; intros pre; [reflexivity|].
  cbn [length seq gather]. rewrite nth_error_app2 by lia. rewrite Nat.sub_diag. cbn [nth_error].
  replace (pre ++ a :: l) with ((pre ++ [a]) ++ l) by (rewrite <- app_assoc; reflexivity).
  replace (S (length pre)) with (length (pre ++ [a])) by (rewrite app_length; simpl; lia).
  rewrite IH. reflexivity.
Qed.
Lemma gather_seq {A} (l : list A) : gather l (seq 0 (length l)) = Ok l.
Proof. exact (gather_seq_aux [] l). Qed.

(** If cgeom is a rigid copy of rgeom (c_k = r_k . Rot + t with Rot the transpose of some U(q0), |q0| = 1 —
    every proper rotation is of this form, which is not proved here), the reported residual is zero and the
    returned recipe maps cgeom back onto rgeom atom by atom. *)
Theorem recovers_rigid_copy eigtop atol rtol Rg (q0 : quat R) (t : vec3 R) :
  n2 q0 = 1%R -> (0 < length Rg)%nat ->
  let Cg := map (fun r => vadd (vmat r (mtrans (genU q0))) t) Rg in
  eigtop_ok eigtop (kabsch_F Rg Cg) ->
  allclose atol rtol Rg Cg = false ->
  let o := kabsch_align eigtop atol rtol Rg Cg in
  k_ssd o = 0%R /\
  align_coordinates (solution_mill o (seq 0 (length Rg)) false) false Cg = Ok Rg.
Proof.
  intros Hq HN Cg HS HC o.
  assert (LC : length Rg = length Cg) by (unfold Cg; rewrite map_length; reflexivity).
  destruct (kabsch_align_proper_and_optimal eigtop atol rtol Rg Cg HS LC HC) as [_ [_ Hopt]].
  pose proof (Hopt q0 Hq) as Hle. fold o in Hle.
  unfold Cg in Hle. rewrite centred_affine in Hle by exact HN. rewrite residual_rigid_copy in Hle by exact Hq.
  assert (Hz : k_ssd o = 0%R).
  { destruct (kabsch_align_unfold eigtop atol rtol Rg Cg HC) as [_ [_ Es]]. fold o in Es.
    pose proof (sumsq_nonneg (lsub (centred (length Rg) Rg)
       (map (fun c => vmat c (genU (eigtop (genF (cov_of (centred (length Rg) Rg) (centred (length Rg) Cg)))))) (centred (length Rg) Cg)))) as Hp.
    unfold residual in Es. rewrite <- Es in Hp. lra. }
  split; [exact Hz|].
  assert (HG : gather Cg (seq 0 (length Rg)) = Ok Cg) by (rewrite LC; apply gather_seq).
  pose proof (reported_rmsd_is_applied_rmsd eigtop atol rtol Rg Cg (seq 0 (length Rg)) Cg HS HG LC HC) as HA.
  fold o in HA.
  unfold applied_ssd in HA.
  destruct (align_coordinates (solution_mill o (seq 0 (length Rg)) false) false Cg) as [T|] eqn:ET; [|discriminate].
  cbn [obind] in HA. injection HA as HA. rewrite Hz in HA.
  f_equal. apply lsub_zero.
  - destruct (coords_atomwise _ _ _ _ ET) as [LT _]. cbn [solution_mill amap] in LT. rewrite seq_length in LT. exact LT.
  - apply sumsq_zero. exact HA.
Qed.

(** ---- uniqueness: for a non-collinear molecule the rotation and the shift are the applied ones ---- *)
Section Alg3.
Context {K : Type} {KO : Ops K} {KR : RingLaws K}.
Add Ring KRing5 : (@ring_laws K KO KR).
Local Open Scope K_scope.

Ltac d3 M := destruct M as [[[[?a1 ?a2] ?a3] [[?b1 ?b2] ?b3]] [[?c1 ?c2] ?c3]].
Ltac dv v := destruct v as [[?x ?y] ?z].
Ltac unf := cbv [mmul mtrans mk3 ment mrow comp vmat mvec dot3 mcol mscale mid vscale det3 cross nsq].

(* cofactor matrix *)
Definition cof (M : mat3 K) : mat3 K :=
  let '((a, b, c), (d, e, f), (g, h, i)) := M in
  ((e * i - f * h, f * g - d * i, d * h - e * g),
   (c * h - b * i, a * i - c * g, b * g - a * h),
   (b * f - c * e, c * d - a * f, a * e - b * d)).

Lemma mmul_assoc (A B C : mat3 K) : mmul (mmul A B) C = mmul A (mmul B C).
Proof. d3 A. d3 B. d3 C. unf. mat3_ring. Qed.
Lemma mmul_mid_l (A : mat3 K) : mmul mid A = A.
Proof. d3 A. unf. mat3_ring. Qed.
Lemma mmul_mid_r (A : mat3 K) : mmul A mid = A.
Proof. d3 A. unf. mat3_ring. Qed.
Lemma mtrans_mmul (A B : mat3 K) : mtrans (mmul A B) = mmul (mtrans B) (mtrans A).
Proof. d3 A. d3 B. unf. mat3_ring. Qed.
Lemma det3_mmul (A B : mat3 K) : det3 (mmul A B) = det3 A * det3 B.
Proof. d3 A. d3 B. unf. ring. Qed.
Lemma det3_mtrans (A : mat3 K) : det3 (mtrans A) = det3 A.
Proof. d3 A. unf. ring. Qed.
Lemma cof_mtrans (M : mat3 K) : mmul (cof M) (mtrans M) = mscale (det3 M) mid.
Proof. d3 M. unfold cof. unf. mat3_ring. Qed.
Lemma adj_mul (B : mat3 K) : mmul (mtrans (cof B)) B = mscale (det3 B) mid.
Proof. d3 B. unfold cof. unf. mat3_ring. Qed.
Lemma cross_vmat (u w : vec3 K) (M : mat3 K) : cross (vmat u M) (vmat w M) = vmat (cross u w) (cof M).
Proof. dv u. dv w. d3 M. unfold cof. unf. vec3_ring. Qed.
Lemma mscale_mmul (d : K) (A B : mat3 K) : mmul (mscale d A) B = mscale d (mmul A B).
Proof. d3 A. d3 B. unf. mat3_ring. Qed.
Lemma det3_rows_cross (u w : vec3 K) : det3 (u, w, cross u w) = nsq (cross u w).
Proof. dv u. dv w. unf. ring. Qed.
Lemma mmul_rows (u w n : vec3 K) (M : mat3 K) : mmul (u, w, n) M = (vmat u M, vmat w M, vmat n M).
Proof. reflexivity. Qed.
Lemma mscale_one_mid_ent (d : K) (M : mat3 K) a b : ment (mscale d M) a b = d * ment M a b.
Proof. d3 M. destruct a as [|[|a]]; destruct b as [|[|b]]; reflexivity. Qed.

(* a proper orthogonal matrix is its own cofactor matrix *)
Lemma cof_proper (M : mat3 K) : mmul (mtrans M) M = mid -> det3 M = 1 -> cof M = M.
Proof.
  intros HO HD. rewrite <- (mmul_mid_r (cof M)), <- HO, <- mmul_assoc, cof_mtrans, HD.
  rewrite mscale_mmul, mmul_mid_l. d3 M. cbv [mscale vscale]. mat3_ring.
Qed.
End Alg3.

Lemma rot_fixing_two_is_identity (M : mat3 R) (u w : vec3 R) :
  mmul (mtrans M) M = mid -> det3 M = 1%R -> vmat u M = u -> vmat w M = w -> cross u w <> v0 -> M = mid.
Proof.
  intros HO HD Hu Hw Hn.
  assert (Hc : vmat (cross u w) M = cross u w).
  { rewrite <- (cof_proper M HO HD) at 1. rewrite <- cross_vmat, Hu, Hw. reflexivity. }
  set (B := (u, w, cross u w)).
  assert (HB : mmul B M = B) by (unfold B; rewrite mmul_rows, Hu, Hw, Hc; reflexivity).
  assert (Hd : det3 B <> 0%R).
  { unfold B. rewrite det3_rows_cross. intros E. apply Hn. apply nsq_zero. exact E. }
  assert (E : mscale (det3 B) M = mscale (det3 B) mid).
  { rewrite <- (mmul_mid_l M) at 1. rewrite <- mscale_mmul, <- adj_mul, mmul_assoc, HB. reflexivity. }
  apply mat3_ext. intros a b Ha Hb.
  assert (E2 : ment (mscale (det3 B) M) a b = ment (mscale (det3 B) mid) a b) by (rewrite E; reflexivity).
  rewrite !mscale_one_mid_ent in E2. runfold. apply Rmult_eq_reg_l with (det3 B); assumption.
Qed.

Theorem recovered_motion_is_the_applied_one eigtop atol rtol Rg (q0 : quat R) (t : vec3 R) i j :
  n2 q0 = 1%R -> (0 < length Rg)%nat ->
  cross (nth i (centred (length Rg) Rg) v0) (nth j (centred (length Rg) Rg) v0) <> v0 ->    (* not collinear *)
  let Cg := map (fun r => vadd (vmat r (mtrans (genU q0))) t) Rg in
  eigtop_ok eigtop (kabsch_F Rg Cg) ->
  allclose atol rtol Rg Cg = false ->
  let o := kabsch_align eigtop atol rtol Rg Cg in
  k_rot o = genU q0 /\ k_shift o = t.
Proof.
  intros Hq HN Hnc Cg HS HC o.
  assert (LC : length Rg = length Cg) by (unfold Cg; rewrite map_length; reflexivity).
  destruct (recovers_rigid_copy eigtop atol rtol Rg q0 t Hq HN HS HC) as [Hz _]. fold Cg o in Hz.
  destruct (kabsch_align_proper_and_optimal eigtop atol rtol Rg Cg HS LC HC) as [[HO1 HO2] [HD _]]. fold o in HO1, HO2, HD.
  destruct (kabsch_align_unfold eigtop atol rtol Rg Cg HC) as [Er [Et Es]]. fold o in Er, Et, Es.
  destruct (U_proper q0 Hq) as [[HU1 HU2] HUD].
  set (Rot := mtrans (genU q0)) in *. set (RR := k_rot o) in *.
  set (X := centred (length Rg) Rg) in *.
  (* the centred residuals vanish: x = x . (Rot RR) for every centred reference atom *)
  assert (Hfix : forall k, vmat (nth k X v0) (mmul Rot RR) = nth k X v0).
  { assert (EX : X = map (fun c => vmat c RR) (map (fun r => vmat r Rot) X)).
    { apply lsub_zero.
      - rewrite !map_length. reflexivity.
      - apply sumsq_zero. rewrite <- Hz, Es. unfold residual. rewrite <- Er. fold RR.
        unfold Cg. unfold X. rewrite centred_affine by exact HN. reflexivity. }
    intros k. destruct (Nat.lt_ge_cases k (length X)) as [Hk|Hk].
    - rewrite EX at 2. rewrite map_map. rewrite (map_nth' _ _ _ _ v0) by exact Hk. rewrite vmat_mmul. reflexivity.
    - rewrite nth_overflow by exact Hk. cbv [vmat v0 dot3 mcol ment mrow comp].
      destruct (mmul Rot RR) as [[[[a1 a2] a3] [[b1 b2] b3]] [[c1 c2] c3]]. runfold. tuple_ring. }
  assert (ERt : mtrans Rot = genU q0) by (unfold Rot; apply mtrans_mtrans).
  assert (HM : mmul Rot RR = mid).
  { apply (rot_fixing_two_is_identity (mmul Rot RR) (nth i X v0) (nth j X v0)).
    - rewrite mtrans_mmul, mmul_assoc, <- (mmul_assoc (mtrans Rot)). rewrite ERt.
      rewrite HU2, mmul_mid_l. exact HO1.
    - rewrite det3_mmul. unfold Rot. rewrite det3_mtrans, HUD, HD. runfold. ring.
    - apply Hfix.
    - apply Hfix.
    - exact Hnc. }
  assert (ERR : RR = genU q0).
  { rewrite <- (mmul_mid_l RR), <- HU2, mmul_assoc. fold Rot. rewrite HM. apply mmul_mid_r. }
  split; [exact ERR|].
  rewrite Et. rewrite <- Er. fold RR. unfold Cg. rewrite centroid_affine by exact HN. fold Rot. rewrite ERR.
  (* (Rc . Rot + t) - U . Rc  with  U . Rc (column) = Rc . U^T = Rc . Rot *)
  destruct (centroid (length Rg) Rg) as [[c0 c1] c2], t as [[t0 t1] t2]. unfold Rot.
  destruct (genU q0) as [[[[a1 a2] a3] [[b1 b2] b3]] [[c1' c2'] c3']].
  cbv [vsub vadd vmat mvec mtrans mk3 ment mrow comp dot3 mcol]. runfold. tuple_ring.
Qed.

(** ---- a rigid motion preserves the interatomic distances the permutative filter compares ---- *)
Section Dist.
Context {K : Type} {KO : Ops K} {KR : RingLaws K}.
Add Ring KRing6 : (@ring_laws K KO KR).
Local Open Scope K_scope.
Lemma nsq_vmat_gram (w : vec3 K) (M : mat3 K) : nsq (vmat w M) = dot3 w (vmat w (mmul M (mtrans M))).
Proof.
  destruct w as [[x y] z], M as [[[[a1 a2] a3] [[b1 b2] b3]] [[c1 c2] c3]].
  cbv [nsq vmat mmul mtrans mk3 ment mrow comp dot3 mcol]. ring.
Qed.
Lemma rigid_motion_preserves_distances (M : mat3 K) (t u v : vec3 K) :
  mmul M (mtrans M) = mid ->
  nsq (vsub (vadd (vmat u M) t) (vadd (vmat v M) t)) = nsq (vsub u v).
Proof.
  intros HO.
  replace (vsub (vadd (vmat u M) t) (vadd (vmat v M) t)) with (vmat (vsub u v) M).
  - rewrite nsq_vmat_gram, HO, vmat_mid. reflexivity.
  - rewrite vmat_vsub. destruct (vmat u M) as [[a b] c], (vmat v M) as [[d e] f], t as [[t0 t1] t2].
    cbv [vsub vadd]. vec3_ring.
Qed.
End Dist.
