(** C02 — proofs about Model/Constants.v, Common/DecC02.v, Common/StrC02.v and the generated tables. *)
From Coq Require Import ZArith List String Ascii Bool QArith Qabs Lia.
Require Import QV.Common.Outcome QV.Common.DecC02 QV.Common.StrC02.
Require Import QV.Gen.Codata2014 QV.Gen.Codata2018 QV.Gen.CodataRaw2014 QV.Gen.CodataRaw2018 QV.Gen.CodataJson2014 QV.Gen.Aliases.
Require Import QV.Model.Constants.
Import ListNotations.
Open Scope string_scope.

(** * Letter case *)

Lemma lower_upper_ascii : forall a, lower_ascii (upper_ascii a) = lower_ascii a.
Proof. destruct a as [[] [] [] [] [] [] [] []]; reflexivity. Qed.
Lemma lower_lower_ascii : forall a, lower_ascii (lower_ascii a) = lower_ascii a.
Proof. destruct a as [[] [] [] [] [] [] [] []]; reflexivity. Qed.

Lemma same_mod_case_lower : forall s t, same_mod_case s t <-> lower s = lower t.
Proof.
  induction s as [|a s IH]; destruct t as [|b t]; simpl; split; intro H; try reflexivity; try contradiction;
    try discriminate; auto.
  - destruct H as [H1 H2]. unfold lower in *. simpl. rewrite H1. f_equal. apply IH. exact H2.
  - unfold lower in H. simpl in H. injection H as H1 H2. split; [exact H1|]. apply IH. exact H2.
Qed.

Lemma same_mod_case_refl : forall s, same_mod_case s s.
Proof. intro s. apply same_mod_case_lower. reflexivity. Qed.
Lemma same_mod_case_upper : forall s, same_mod_case (upper s) s.
Proof. induction s; simpl; auto. split; [apply lower_upper_ascii | assumption]. Qed.
Lemma same_mod_case_lower_l : forall s, same_mod_case (lower s) s.
Proof. induction s; simpl; auto. split; [apply lower_lower_ascii | assumption]. Qed.

Lemma get_case_insensitive : forall c s t, same_mod_case s t -> get c s = get c t.
Proof. intros c s t H. unfold get. apply same_mod_case_lower in H. rewrite H. reflexivity. Qed.

Lemma get_upper : forall c s, get c (upper s) = get c s.
Proof. intros. apply get_case_insensitive, same_mod_case_upper. Qed.
Lemma get_lower : forall c s, get c (lower s) = get c s.
Proof. intros. apply get_case_insensitive, same_mod_case_lower_l. Qed.

(** * Plumbing *)

Lemma dec_eqb_eq : forall a b, dec_eqb a b = true -> a = b.
Proof.
  intros [c1 e1] [c2 e2]; unfold dec_eqb; simpl. rewrite andb_true_iff, !Z.eqb_eq. intros [-> ->]. reflexivity.
Qed.

Lemma pc_o_ok : forall c, pc_o c = Ok (pc c).
Proof. destruct c; reflexivity. Qed.

Lemma get_ok : forall c s d, od_get (lower s) (pc c) = Some d -> get c s = Ok d.
Proof. intros c s d H. unfold get. rewrite pc_o_ok. cbn [obind]. rewrite H. reflexivity. Qed.

Lemma getattr_ok : forall c n d, od_get n (attrs c) = Some d -> getattr c n = Ok d.
Proof. intros c n d H. unfold getattr. rewrite pc_o_ok. cbn [obind]. rewrite H. reflexivity. Qed.

(** * The published tables *)

Definition raw (c : cctx) := match c with C2014 => raw_2014 | C2018 => raw_2018 end.

(* NIST prints digits in groups and marks truncated exact values with "..." ; the number meant is *)
Definition nist_value_text (val unc : string) : string :=
  remove_chars " " (if String.eqb unc "(exact)" then remove_ellipsis val else val).
Definition strip_braces (u : string) : string := remove_chars "{}" u.

Definition row_ok (exact_units : bool) (c : cctx) (row : string * string * string * string) : bool :=
  let '(name, val, unc, unit) := row in
  match od_get (lower name) (pc c), parse_dec (nist_value_text val unc) with
  | Some d, Some v =>
      String.eqb (d_label d) name && dec_eqb v (d_data d)
      && (if exact_units then String.eqb (d_units d) unit else String.eqb (strip_braces (d_units d)) (strip_braces unit))
      && String.eqb (d_comment d) ("uncertainty=" ++ unc)
      && match od_get (mangle name) (attrs c) with Some a => dec_eqb a (d_data d) | None => false end
  | _, _ => false
  end.

Definition row_spec (exact_units : bool) (c : cctx) (name val unc unit : string) : Prop :=
  exists d, od_get (lower name) (pc c) = Some d
    /\ d_label d = name
    /\ parse_dec (nist_value_text val unc) = Some (d_data d)
    /\ (if exact_units then d_units d = unit else strip_braces (d_units d) = strip_braces unit)
    /\ d_comment d = "uncertainty=" ++ unc
    /\ od_get (mangle name) (attrs c) = Some (d_data d).

Lemma row_ok_spec : forall b c name val unc unit, row_ok b c (name, val, unc, unit) = true -> row_spec b c name val unc unit.
Proof.
  intros b c name val unc unit H. unfold row_ok in H.
  destruct (od_get (lower name) (pc c)) as [d|] eqn:E1; [|discriminate].
  destruct (parse_dec (nist_value_text val unc)) as [v|] eqn:E2; [|discriminate].
  destruct (od_get (mangle name) (attrs c)) as [a|] eqn:E3; [|rewrite andb_false_r in H; discriminate].
  apply andb_true_iff in H; destruct H as [H Ha].
  apply andb_true_iff in H; destruct H as [H Hc].
  apply andb_true_iff in H; destruct H as [H Hu].
  apply andb_true_iff in H; destruct H as [Hl Hv].
  apply String.eqb_eq in Hl. apply dec_eqb_eq in Hv. apply dec_eqb_eq in Ha. apply String.eqb_eq in Hc. subst.
  exists d. repeat split; auto.
  destruct b; apply String.eqb_eq; assumption.
Qed.

Lemma txt_rows_ok : forall c, forallb (row_ok false c) (raw c) = true.
Proof. destruct c; vm_compute; reflexivity. Qed.

Lemma json_rows_ok : forallb (row_ok true C2014) json_2014 = true.
Proof. vm_compute; reflexivity. Qed.

Lemma table_is_nist : forall c name val unc unit s,
  In (name, val, unc, unit) (raw c) -> same_mod_case s name ->
  exists d, get c s = Ok d /\ d_label d = name /\ parse_dec (nist_value_text val unc) = Some (d_data d)
            /\ strip_braces (d_units d) = strip_braces unit /\ d_comment d = "uncertainty=" ++ unc
            /\ getattr c (mangle name) = Ok (d_data d).
Proof.
  intros c name val unc unit s Hin Hs.
  pose proof (proj1 (forallb_forall _ _) (txt_rows_ok c) _ Hin) as H.
  apply row_ok_spec in H. destruct H as [d [H1 [H2 [H3 [H4 [H5 H6]]]]]].
  exists d. rewrite (get_case_insensitive c s name Hs). repeat split; auto using get_ok, getattr_ok.
Qed.

Lemma table_is_srd121_json : forall name val unc unit s,
  In (name, val, unc, unit) json_2014 -> same_mod_case s name ->
  exists d, get C2014 s = Ok d /\ d_label d = name /\ parse_dec (nist_value_text val unc) = Some (d_data d)
            /\ d_units d = unit /\ d_comment d = "uncertainty=" ++ unc
            /\ getattr C2014 (mangle name) = Ok (d_data d).
Proof.
  intros name val unc unit s Hin Hs.
  pose proof (proj1 (forallb_forall _ _) json_rows_ok _ Hin) as H.
  apply row_ok_spec in H. destruct H as [d [H1 [H2 [H3 [H4 [H5 H6]]]]]].
  exists d. rewrite (get_case_insensitive C2014 s name Hs). repeat split; auto using get_ok, getattr_ok.
Qed.

(** nothing else is offered: every key is a published name of the set, a published 2014 name (2018 set
    only), or one of the documented extra names *)
Definition raw_names (c : cctx) : list string := map (fun r => match r with (n, _, _, _) => lower n end) (raw c).
Definition mem_str (s : string) (l : list string) : bool := existsb (String.eqb s) l.

Lemma mem_str_In : forall s l, mem_str s l = true -> In s l.
Proof.
  intros s l H. unfold mem_str in H. apply existsb_exists in H. destruct H as [x [Hx He]].
  apply String.eqb_eq in He. subst. assumption.
Qed.

Definition keys_all_allowed (extras : list string) (c : cctx) : bool :=
  let rn := raw_names c in
  let rn14 := match c with C2018 => raw_names C2014 | C2014 => [] end in
  let ex := map lower extras in
  forallb (fun kv : string * datum => mem_str (fst kv) rn || mem_str (fst kv) rn14 || mem_str (fst kv) ex) (pc c).

Lemma no_extra_keys_b : forall extras c,
  keys_all_allowed extras c = true ->
  forall k d, In (k, d) (pc c) ->
    In k (raw_names c) \/ (c = C2018 /\ In k (raw_names C2014)) \/ In k (map lower extras).
Proof.
  intros extras c H k d Hin. unfold keys_all_allowed in H. cbv zeta in H.
  pose proof (proj1 (forallb_forall _ _) H _ Hin) as Hk. cbn [fst snd] in Hk.
  apply orb_true_iff in Hk. destruct Hk as [Hk|Hk].
  - apply orb_true_iff in Hk. destruct Hk as [Hk|Hk].
    + left. apply mem_str_In. assumption.
    + right; left. destruct c; [discriminate|]. split; [reflexivity|]. apply mem_str_In. assumption.
  - right; right. apply mem_str_In. assumption.
Qed.

(* membership of a table row, decided by computation *)
Definition row4_eqb (a b : string * string * string * string) : bool :=
  let '(a1, a2, a3, a4) := a in let '(b1, b2, b3, b4) := b in
  String.eqb a1 b1 && String.eqb a2 b2 && String.eqb a3 b3 && String.eqb a4 b4.
Lemma In_row4 : forall x l, existsb (row4_eqb x) l = true -> In x l.
Proof.
  intros x l H. apply existsb_exists in H. destruct H as [y [Hy He]].
  destruct x as [[[a1 a2] a3] a4], y as [[[b1 b2] b3] b4]. unfold row4_eqb in He.
  repeat (apply andb_true_iff in He; destruct He as [He ?]).
  apply String.eqb_eq in He. repeat match goal with H : String.eqb _ _ = true |- _ => apply String.eqb_eq in H end.
  subst. assumption.
Qed.

(** every stored constant is reachable as the attribute spelled by mangling its label *)
Lemma attrs_cover : forall c k d, In (k, d) (pc c) -> getattr c (mangle (d_label d)) = Ok (d_data d).
Proof.
  intros c k d Hin. apply getattr_ok.
  assert (H : forallb (fun kv : string * datum =>
              match od_get (mangle (d_label (snd kv))) (attrs c) with
              | Some a => dec_eqb a (d_data (snd kv)) | None => false end) (pc c) = true)
    by (destruct c; vm_compute; reflexivity).
  pose proof (proj1 (forallb_forall _ _) H _ Hin) as Hk. cbn [fst snd] in Hk.
  destruct (od_get (mangle (d_label d)) (attrs c)); [|discriminate].
  apply dec_eqb_eq in Hk. subst. reflexivity.
Qed.

(** every entry is stored under the lower-cased label *)
Lemma keys_are_lower_labels : forall c k d, In (k, d) (pc c) -> k = lower (d_label d).
Proof.
  intros c k d Hin.
  assert (H : forallb (fun kv : string * datum => String.eqb (fst kv) (lower (d_label (snd kv)))) (pc c) = true)
    by (destruct c; vm_compute; reflexivity).
  pose proof (proj1 (forallb_forall _ _) H _ Hin) as Hk. cbn [fst snd] in Hk. apply String.eqb_eq in Hk. exact Hk.
Qed.

(** * The attribute spelling *)
Section Mangle.
  (* the documented rule, one character at a time: None = dropped *)
  Variable doc : ascii -> option ascii.
  Fixpoint mangle_by (s : string) : string :=
    match s with
    | EmptyString => EmptyString
    | String a r => match doc a with Some b => String b (mangle_by r) | None => mangle_by r end
    end.
  Hypothesis doc_ok : forall a,
    doc a = if mem_ascii a trans_del then None
            else Some (match trans_lookup a trans_from trans_to None with Some t => t | None => a end).
  Lemma mangle_is_doc : forall s, mangle s = mangle_by s.
  Proof.
    unfold mangle. induction s as [|a s IH]; [reflexivity|].
    cbn [translate mangle_by]. rewrite doc_ok. destruct (mem_ascii a trans_del); [exact IH|]. rewrite IH. reflexivity.
  Qed.
End Mangle.

(** * Aliases *)

Definition alias_ok (pi : string) (c : cctx) (nf : string * dexpr) : bool :=
  match od_get (lower (fst nf)) (pc c), eval_dec (pc_data (pc c)) pi (snd nf) with
  | Some d, Ok v => String.eqb (d_label d) (fst nf) && dec_eqb v (d_data d)
  | _, _ => false
  end.

Lemma alias_ok_spec : forall pi c name f, alias_ok pi c (name, f) = true ->
  exists d, get c name = Ok d /\ d_label d = name /\ eval_dec (pc_data (pc c)) pi f = Ok (d_data d).
Proof.
  intros pi c name f H. unfold alias_ok in H. cbn [fst snd] in H.
  destruct (od_get (lower name) (pc c)) as [d|] eqn:E1; [|discriminate].
  destruct (eval_dec (pc_data (pc c)) pi f) as [v|] eqn:E2; [|discriminate].
  apply andb_true_iff in H. destruct H as [H1 H2]. apply String.eqb_eq in H1. apply dec_eqb_eq in H2. subst.
  exists d. auto using get_ok.
Qed.

(* agreement with the formula in exact rational arithmetic, to a relative [tol] *)
Definition alias_Q_ok (pi : string) (tol : Q) (c : cctx) (nf : string * dexpr) : bool :=
  match od_get (lower (fst nf)) (pc c), eval_Q (pc_data (pc c)) pi (snd nf) with
  | Some d, Some q => Qle_bool (Qabs (dec2Q (d_data d) - q)) (tol * Qabs q)%Q
  | _, _ => false
  end.

Lemma alias_Q_ok_spec : forall pi tol c name f, alias_Q_ok pi tol c (name, f) = true ->
  exists d q, get c name = Ok d /\ eval_Q (pc_data (pc c)) pi f = Some q
              /\ (Qabs (dec2Q (d_data d) - q) <= tol * Qabs q)%Q.
Proof.
  intros pi tol c name f H. unfold alias_Q_ok in H. cbn [fst snd] in H.
  destruct (od_get (lower name) (pc c)) as [d|] eqn:E1; [|discriminate].
  destruct (eval_Q (pc_data (pc c)) pi f) as [q|] eqn:E2; [|discriminate].
  apply Qle_bool_iff in H. exists d, q. auto using get_ok.
Qed.

(* a documented magnitude: the value is within a relative [tol] of a number written in the documentation *)
Definition near_ok (tol : Q) (c : cctx) (nv : string * Q) : bool :=
  match od_get (lower (fst nv)) (pc c) with
  | Some d => Qle_bool (Qabs (dec2Q (d_data d) - snd nv)) (tol * Qabs (snd nv))%Q
  | None => false
  end.
Lemma near_ok_spec : forall tol c name v, near_ok tol c (name, v) = true ->
  exists d, get c name = Ok d /\ (Qabs (dec2Q (d_data d) - v) <= tol * Qabs v)%Q.
Proof.
  intros tol c name v H. unfold near_ok in H. cbn [fst snd] in H.
  destruct (od_get (lower name) (pc c)) as [d|] eqn:E1; [|discriminate].
  apply Qle_bool_iff in H. exists d. auto using get_ok.
Qed.

(** * Renames *)

Definition names_2014 : list string := map (fun r => match r with (n, _, _, _) => n end) raw_2014.

(* value published in 2018 under [name] (any letter case) *)
Definition published_2018 (name : string) : option dec :=
  match find (fun r => match r with (n, _, _, _) => String.eqb (lower n) (lower name) end) raw_2018 with
  | Some (_, val, unc, _) => parse_dec (nist_value_text val unc)
  | None => None
  end.

Definition rename_ok (p : string * string) : bool :=
  let '(new, old) := p in
  match od_get (lower new) (pc C2018), od_get (lower old) (pc C2018), published_2018 new, od_get (lower old) (pc C2014) with
  | Some dn, Some dold, Some v, Some d14 =>
      dec_eqb (d_data dold) v && dec_eqb (d_data dn) v
      && String.eqb (d_units dold) (d_units dn) && String.eqb (d_comment dold) (d_comment dn)
      && String.eqb (d_label dold) old
      && mem_str (lower old) (raw_names C2014)
      && negb (mem_str (lower old) (raw_names C2018))
      && Qle_bool (Qabs (dec2Q (d_data dold) - dec2Q (d_data d14))) ((1 # 10000) * Qabs (dec2Q (d_data d14)))%Q
  | _, _, _, _ => false
  end.

Definition rename_spec (new old : string) : Prop :=
  exists dn dold d14 v,
    get C2018 new = Ok dn /\ get C2018 old = Ok dold /\ get C2014 old = Ok d14
    /\ published_2018 new = Some v /\ d_data dold = v /\ d_data dn = v
    /\ d_units dold = d_units dn /\ d_comment dold = d_comment dn /\ d_label dold = old
    /\ In (lower old) (raw_names C2014) /\ ~ In (lower old) (raw_names C2018)
    /\ (Qabs (dec2Q (d_data dold) - dec2Q (d_data d14)) <= (1 # 10000) * Qabs (dec2Q (d_data d14)))%Q.

Lemma mem_str_false : forall s l, mem_str s l = false -> ~ In s l.
Proof.
  intros s l H Hin. unfold mem_str in H.
  assert (existsb (String.eqb s) l = true) by (apply existsb_exists; exists s; split; [assumption|apply String.eqb_refl]).
  congruence.
Qed.

Lemma rename_ok_spec : forall new old, rename_ok (new, old) = true -> rename_spec new old.
Proof.
  intros new old H. unfold rename_ok in H.
  destruct (od_get (lower new) (pc C2018)) as [dn|] eqn:E1; [|discriminate].
  destruct (od_get (lower old) (pc C2018)) as [dold|] eqn:E2; [|discriminate].
  destruct (published_2018 new) as [v|] eqn:E3; [|discriminate].
  destruct (od_get (lower old) (pc C2014)) as [d14|] eqn:E4; [|discriminate].
  apply andb_true_iff in H; destruct H as [H Hq].
  apply andb_true_iff in H; destruct H as [H Hn18].
  apply andb_true_iff in H; destruct H as [H Hn14].
  apply andb_true_iff in H; destruct H as [H Hlab].
  apply andb_true_iff in H; destruct H as [H Hcom].
  apply andb_true_iff in H; destruct H as [H Hun].
  apply andb_true_iff in H; destruct H as [Hv1 Hv2].
  exists dn, dold, d14, v.
  apply dec_eqb_eq in Hv1. apply dec_eqb_eq in Hv2. apply String.eqb_eq in Hun, Hcom, Hlab.
  apply mem_str_In in Hn14. apply negb_true_iff in Hn18. apply mem_str_false in Hn18. apply Qle_bool_iff in Hq.
  repeat split; auto using get_ok.
Qed.

Lemma renames_all_ok : forallb rename_ok rename_2018_from_2014 = true.
Proof. vm_compute; reflexivity. Qed.

Lemma renames_2018 : forall new old, In (new, old) rename_2018_from_2014 -> rename_spec new old.
Proof.
  intros new old Hin. apply rename_ok_spec.
  exact (proj1 (forallb_forall _ _) renames_all_ok _ Hin).
Qed.

(* every 2014 key is still a key in 2018, with a value within 5 % (same physical quantity) *)
Definition legacy_ok (kv : string * datum) : bool :=
  match od_get (fst kv) (pc C2018) with
  | Some d => Qle_bool (Qabs (dec2Q (d_data d) - dec2Q (d_data (snd kv)))) ((5 # 100) * Qabs (dec2Q (d_data (snd kv))))%Q
  | None => false
  end.
Lemma legacy_all_ok : forallb legacy_ok (pc C2014) = true.
Proof. vm_compute; reflexivity. Qed.

Lemma legacy_names_retrievable : forall k d14 s, In (k, d14) (pc C2014) -> same_mod_case s k ->
  exists d, get C2018 s = Ok d /\ (Qabs (dec2Q (d_data d) - dec2Q (d_data d14)) <= (5 # 100) * Qabs (dec2Q (d_data d14)))%Q.
Proof.
  intros k d14 s Hin Hs.
  pose proof (proj1 (forallb_forall _ _) legacy_all_ok _ Hin) as H. unfold legacy_ok in H. cbn [fst snd] in H.
  destruct (od_get k (pc C2018)) as [d|] eqn:E; [|discriminate].
  apply Qle_bool_iff in H. exists d. split; [|assumption].
  rewrite (get_case_insensitive C2018 s k Hs).
  pose proof (keys_are_lower_labels C2014 k d14 Hin) as Hk.
  apply get_ok. rewrite Hk. unfold lower.
  assert (L : forall x, smap lower_ascii (smap lower_ascii x) = smap lower_ascii x).
  { induction x; simpl; [reflexivity|]. rewrite lower_lower_ascii, IHx. reflexivity. }
  rewrite L. fold (lower (d_label d14)). rewrite <- Hk. exact E.
Qed.

(** * The Decimal model: rounding is a correct rounding *)

Lemma dec2Q_mk_nonneg_exp : forall c e, (0 <= e)%Z -> dec2Q (mkdec c e) = inject_Z (c * 10 ^ e).
Proof. intros c e H. unfold dec2Q. simpl. apply Z.leb_le in H. rewrite H. reflexivity. Qed.

Lemma dec_mul_comm : forall a b, dec_mul a b = dec_mul b a.
Proof. intros a b. unfold dec_mul. rewrite (Z.mul_comm (coef a)), (Z.add_comm (dexp a)). reflexivity. Qed.

Lemma ndigits_abs : forall n, ndigits (Z.abs n) = ndigits n.
Proof. intro n. unfold ndigits. rewrite Z.abs_involutive. reflexivity. Qed.

Lemma dec_fix_short : forall d, (ndigits (coef d) <= prec)%Z -> dec_fix d = d.
Proof.
  intros d H. unfold dec_fix. rewrite ndigits_abs. apply Z.leb_le in H. rewrite H. reflexivity.
Qed.

(* a product whose exact coefficient fits in 28 digits is exact: scaling by powers of ten, small literals *)
Lemma dec_mul_exact : forall a b, (ndigits (coef a * coef b) <= prec)%Z ->
  dec_mul a b = mkdec (coef a * coef b) (dexp a + dexp b).
Proof. intros a b H. unfold dec_mul. apply dec_fix_short. exact H. Qed.
