(** C01 (wave 3): alias invariance, faithfulness and rejection stated through EVERY accessor (not only the resolution step),
    the float form included; whole families of unnamed identifiers (letters + digits that are no tabulated label). *)
From Coq Require Import ZArith NArith List String Ascii Bool Lia.
Require Import QV.Common.Outcome QV.Common.PyAscii QV.Common.NearestDouble.
Require Import QV.Gen.PTable QV.Gen.PeriodGroup QV.Gen.Srd144 QV.Model.PeriodicTable QV.Model.PeriodicTableFloat.
Require Import QV.Proofs.PeriodicTableF1 QV.Proofs.PeriodicTable QV.Proofs.PeriodicTableReject QV.Proofs.PeriodicTableFloatStr.
Import ListNotations.
Open Scope Z_scope.

Opaque pt_Z pt_E pt_name pt_EE pt_EA pt_A pt_mass pt_mass_str srd_elements srd_names srd_longest_lived.

(** everything the accessors say, the float form and the raw mass string included *)
Record fullobs := {
  f_obs : obs; f_mass_str : outcome string; f_mass_float : outcome (Z * Z) }.
Definition observe_full (x : pyval) : fullobs :=
  {| f_obs := observe_spec x; f_mass_str := to_mass_str x; f_mass_float := to_mass_float_str x |}.

Lemma observe_full_of_resolve x y : resolve_eliso x = resolve_eliso y -> observe_full x = observe_full y.
Proof.
  intro H. unfold observe_full. rewrite (observe_spec_of_resolve _ _ H).
  unfold to_mass_str, to_mass_float_str, resolve. rewrite H. reflexivity.
Qed.

Lemma is_ok_inv {A} (o : outcome A) : is_ok o = true -> exists v, o = Ok v.
Proof. destruct o; [eauto|discriminate]. Qed.

Lemma obind_ok_inv {A B} (o : outcome A) (f : A -> outcome B) v : obind o f = Ok v -> exists a, o = Ok a /\ f a = Ok v.
Proof. destruct o; simpl; [eauto|discriminate]. Qed.

(** per element row: the symbol's own columns are the row *)
Definition row_columns_ok (r : Z * string * string) : bool :=
  let '(z, e, n) := r in
  outcome_eqb Z.eqb (key_Z e) (Ok z) && outcome_eqb String.eqb (key_E e) (Ok e) && outcome_eqb String.eqb (key_name e) (Ok n)
  && is_ok (key_A e) && is_ok (key_mass_dec e) && is_ok (key_mass_float_str e).
Lemma all_rows_columns_ok : forallb row_columns_ok elem_rows = true.
Proof. vm_cast_no_check (@eq_refl bool true). Qed.

Lemma alias_every_accessor z e n s b :
  In (z, e, n) elem_rows ->
  same_mod_case s (str_of_Z z) \/ same_mod_case s e \/ same_mod_case s n ->
  observe_full (PStr s) = observe_full (PInt z) /\
  to_Z (PStr s) b = Ok z /\ to_E (PStr s) b = Ok e /\ to_element (PStr s) b = Ok n /\
  to_Z (PInt z) b = Ok z /\ to_E (PInt z) b = Ok e /\ to_element (PInt z) b = Ok n /\
  (exists a m ms f, to_A (PStr s) = Ok a /\ to_A (PInt z) = Ok a /\
                    to_mass_dec (PStr s) = Ok m /\ to_mass_dec (PInt z) = Ok m /\
                    to_mass_str (PStr s) = Ok ms /\ to_mass_str (PInt z) = Ok ms /\
                    to_mass_float_str (PStr s) = Ok f /\ to_mass_float_str (PInt z) = Ok f) /\
  to_period (PStr s) = Ok (gen_period z) /\ to_period (PInt z) = Ok (gen_period z) /\
  to_group (PStr s) = Ok (gen_group z) /\ to_group (PInt z) = Ok (gen_group z).
Proof.
  intros H C. destruct (row_alias _ _ _ H) as [R1 [R2 [R3 [R4 I]]]].
  assert (RS : resolve_eliso (PStr s) = Ok e).
  { destruct C as [C|[C|C]]; rewrite (resolve_eliso_mod_case _ _ C); assumption. }
  pose proof (proj1 (forallb_forall _ _) all_rows_columns_ok _ H) as A. unfold row_columns_ok in A.
  rewrite !andb_true_iff in A. destruct A as [[[[[A1 A2] A3] A4] A5] A6].
  apply (outcome_eqb_ok _ Z_eqb_true) in A1. apply (outcome_eqb_ok _ string_eqb_true) in A2, A3.
  assert (Q1 : forall b', resolve (PStr s) b' = Ok e) by (intro; now apply resolve_of_eliso).
  assert (Q2 : forall b', resolve (PInt z) b' = Ok e) by (intro; now apply resolve_of_eliso).
  split; [apply observe_full_of_resolve; now rewrite RS, R1|].
  unfold to_Z, to_E, to_element, to_A, to_mass_dec, to_mass_str, to_mass_float_str, to_period, to_group, to_Z.
  rewrite !Q1, !Q2. cbn [obind]. rewrite A1, A2, A3. cbn [obind].
  repeat split; try reflexivity.
  destruct (is_ok_inv _ A4) as [a KA]. destruct (is_ok_inv _ A5) as [m KM]. destruct (is_ok_inv _ A6) as [f KF].
  assert (KS : exists ms, key_mass_str e = Ok ms).
  { unfold key_mass_dec in KM. destruct (obind_ok_inv _ _ _ KM) as [ms [KS _]]. eauto. }
  destruct KS as [ms KS]. rewrite KA, KM, KS, KF.
  exists a, m, ms, f. repeat split; reflexivity.
Qed.

(** every nuclide label, in any letter case: all accessors answer as for the label itself, and the element-level answers
    (Z, symbol, name, period, group) are those of its element — the same as for the bare element symbol *)
Definition label_element_ok (k : string) : bool :=
  match key_E k with
  | Ok e => outcome_eqb Z.eqb (key_Z k) (key_Z e) && outcome_eqb String.eqb (key_E e) (Ok e) &&
            outcome_eqb String.eqb (key_name k) (key_name e) && str_mem e pt_E &&
            outcome_eqb String.eqb (resolve_eliso (PStr e)) (Ok e)
  | Err _ => false
  end.
Lemma all_labels_element_ok : forallb label_element_ok pt_EA = true.
Proof. vm_cast_no_check (@eq_refl bool true). Qed.

Lemma label_every_accessor ea s :
  In ea pt_EA -> same_mod_case s ea ->
  observe_full (PStr s) = observe_full (PStr ea) /\
  exists e, In e pt_E /\ to_E (PStr s) false = Ok e /\
            to_Z (PStr s) false = to_Z (PStr e) false /\ to_element (PStr s) false = to_element (PStr e) false /\
            to_period (PStr s) = to_period (PStr e) /\ to_group (PStr s) = to_group (PStr e) /\
            is_ok (to_Z (PStr s) false) = true /\ is_ok (to_A (PStr s)) = true /\ is_ok (to_mass_dec (PStr s)) = true /\
            is_ok (to_mass_float_str (PStr s)) = true.
Proof.
  intros H C. pose proof (resolve_eliso_mod_case _ _ C) as RC. pose proof (label_self _ H) as RS.
  split; [now apply observe_full_of_resolve|].
  pose proof (proj1 (forallb_forall _ _) all_labels_element_ok _ H) as A. unfold label_element_ok in A.
  destruct (key_E ea) as [e|] eqn:KE; [|discriminate].
  rewrite !andb_true_iff in A. destruct A as [[[[A1 A2] A3] A4] A5].
  apply (outcome_eqb_true _ Z_eqb_true) in A1. apply (outcome_eqb_ok _ string_eqb_true) in A2, A5.
  apply (outcome_eqb_true _ string_eqb_true) in A3. apply str_mem_In in A4.
  pose proof (key_total_all _ H) as T. unfold key_total in T. rewrite !andb_true_iff in T.
  destruct T as [[[[T1 T2] T3] T4] T5].
  assert (T6 : is_ok (key_mass_float_str ea) = true).
  { rewrite key_mass_float_str_eq. unfold key_mass_float. destruct (key_mass_dec ea); [reflexivity|discriminate]. }
  exists e. split; [exact A4|].
  unfold to_E, to_Z, to_element, to_period, to_group, to_Z, to_A, to_mass_dec, to_mass_float_str, resolve.
  rewrite RC, RS, A5. cbn [obind strict_filter andb]. rewrite KE, A1, A3.
  repeat split; try reflexivity; try assumption.
  rewrite <- A1. exact T1.
Qed.

(** an identifier that names nothing is rejected with NotAnElementError by EVERY accessor, strict or not *)
Lemma unnamed_rejected_everywhere x :
  (forall k, ~ justified x k) ->
  forall b, resolve x b = Err NotAnElement /\ to_Z x b = Err NotAnElement /\ to_E x b = Err NotAnElement /\
            to_element x b = Err NotAnElement /\ to_A x = Err NotAnElement /\ to_mass_dec x = Err NotAnElement /\
            to_mass_str x = Err NotAnElement /\ to_mass_float_str x = Err NotAnElement /\
            to_period x = Err NotAnElement /\ to_group x = Err NotAnElement.
Proof.
  intros H b. pose proof (resolve_rejects x b H) as R. pose proof (resolve_rejects x false H) as RF.
  unfold to_period, to_group, to_Z, to_E, to_element, to_A, to_mass_dec, to_mass_str, to_mass_float_str.
  rewrite R, RF. cbn [obind]. repeat split; reflexivity.
Qed.

(** the float mass is the decimal mass, correctly rounded: for ALL identifiers *)
Lemma float_is_rounded_decimal x :
  to_mass_float_str x = obind (to_mass_dec x) (fun d => Ok (nearest_double d)).
Proof.
  rewrite to_mass_float_str_eq. unfold to_mass_float, to_mass_dec, key_mass_float.
  destruct (resolve x false); reflexivity.
Qed.

(** a text containing a letter is no int() literal; so if its capitalised spelling is neither a tabulated label nor an
    element name it is rejected — unknown symbols and words, and, below, absent mass numbers *)
Lemma lettered_unnamed_rejected s b :
  existsb is_letter (chars s) = true -> ~ In (capitalize s) pt_EA -> ~ In (capitalize s) pt_name ->
  resolve (PStr s) b = Err NotAnElement.
Proof.
  intros L H1 H3. apply str_outside_rejected; [exact H1| |exact H3].
  intros z P. rewrite pyint_other in P; [discriminate|].
  clear -L. induction (chars s) as [|x l IH]; simpl in *; [discriminate|].
  apply orb_true_iff in L. apply orb_true_iff. destruct L as [L|L]; [left; now apply letter_other|right; now apply IH].
Qed.

Definition is_digit (c : ascii) : bool := match digit_val c with Some _ => true | None => false end.
Definition has_digit (s : string) : bool := existsb is_digit (chars s).

Lemma is_digit_lower c : is_digit (to_lower c) = is_digit c.
Proof. destruct c as [[] [] [] [] [] [] [] []]; reflexivity. Qed.
Lemma is_digit_upper c : is_digit (to_upper c) = is_digit c.
Proof. destruct c as [[] [] [] [] [] [] [] []]; reflexivity. Qed.
Lemma has_digit_lower s : has_digit (lower s) = has_digit s.
Proof. unfold has_digit. induction s as [|c r IH]; cbn [lower chars existsb]; [reflexivity|]. now rewrite is_digit_lower, IH. Qed.
Lemma has_digit_capitalize s : has_digit (capitalize s) = has_digit s.
Proof.
  destruct s as [|c r]; [reflexivity|]. unfold has_digit. cbn [capitalize chars existsb]. rewrite is_digit_upper. f_equal.
  apply has_digit_lower.
Qed.

Lemma names_no_digit : forallb (fun k => negb (has_digit k)) pt_name = true.
Proof. vm_compute. reflexivity. Qed.

(** symbol + mass number that the table does not have ("kr200", "H8", "he0"), in any letter case; more generally any
    text with a letter and a digit whose capitalised spelling is not a tabulated label *)
Lemma absent_mass_number_rejected s b :
  existsb is_letter (chars s) = true -> has_digit s = true -> ~ In (capitalize s) pt_EA ->
  resolve (PStr s) b = Err NotAnElement.
Proof.
  intros L D H. apply lettered_unnamed_rejected; [exact L|exact H|].
  intro I. pose proof (proj1 (forallb_forall _ _) names_no_digit _ I) as N.
  rewrite negb_true_iff, has_digit_capitalize in N. congruence.
Qed.

(** bare element, every alias form in any letter case: mass number and masses of the default isotope *)
Lemma element_faithful_all_aliases e s :
  In e srd_elements ->
  exists z name i a m,
    e_Z e = Some z /\ e_name e = Some name /\ default_iso e = Some i /\ i_A i = Some a /\ i_mass i = Some m /\
    (same_mod_case s (str_of_Z z) \/ same_mod_case s (e_sym e) \/ same_mod_case s name ->
     (forall b, resolve (PStr s) b = Ok (e_sym e) /\ to_Z (PStr s) b = Ok z /\ to_E (PStr s) b = Ok (e_sym e) /\
                to_element (PStr s) b = Ok name) /\
     to_A (PStr s) = Ok a /\ to_mass_dec (PStr s) = Ok m /\ to_mass_float_str (PStr s) = Ok (nearest_double m) /\
     to_A (PInt z) = Ok a /\ to_mass_dec (PInt z) = Ok m /\ to_mass_float_str (PInt z) = Ok (nearest_double m)).
Proof.
  intro He. destruct (element_faithful e He) as [z [name [i [a [m [E1 [E2 [E3 [E4 [E5 [R [FZ [FE [FN [FA FM]]]]]]]]]]]]]]].
  exists z, name, i, a, m. repeat (split; [assumption|]).
  intro C.
  destruct (R false) as [R1 [R2 [R3 R4]]]. destruct (R true) as [T1 [T2 [T3 T4]]].
  assert (RE : forall y, resolve y false = Ok (e_sym e) -> resolve y true = Ok (e_sym e) ->
               (forall b, resolve y b = Ok (e_sym e) /\ to_Z y b = Ok z /\ to_E y b = Ok (e_sym e) /\ to_element y b = Ok name) /\
               to_A y = Ok a /\ to_mass_dec y = Ok m /\ to_mass_float_str y = Ok (nearest_double m)).
  { intros y Y1 Y2.
    assert (YM : to_mass_dec y = Ok m) by (unfold to_mass_dec in *; rewrite Y1; now rewrite R3 in FM).
    split; [|split; [|split]].
    - intro b. assert (Y : resolve y b = Ok (e_sym e)) by (destruct b; assumption).
      unfold to_Z, to_E, to_element in *. rewrite Y. rewrite R3 in FZ, FE, FN. cbn [obind] in *. auto.
    - unfold to_A in *. rewrite Y1. now rewrite R3 in FA.
    - exact YM.
    - rewrite float_is_rounded_decimal, YM. reflexivity. }
  assert (S1 : resolve (PStr s) false = Ok (e_sym e)).
  { destruct C as [C|[C|C]]; rewrite (resolve_mod_case _ _ false C); assumption. }
  assert (S2 : resolve (PStr s) true = Ok (e_sym e)).
  { destruct C as [C|[C|C]]; rewrite (resolve_mod_case _ _ true C); assumption. }
  destruct (RE (PStr s) S1 S2) as [Q1 [Q2 [Q3 Q4]]]. destruct (RE (PInt z) R1 T1) as [_ [P2 [P3 P4]]].
  repeat split; try assumption; apply Q1.
Qed.

(** isotopes: the float mass too *)
Lemma isotope_float_faithful e i lbl s :
  In e srd_elements -> In i (e_isos e) -> In lbl (i_labels (e_sym e) i) -> same_mod_case s lbl ->
  exists m, i_mass i = Some m /\ to_mass_dec (PStr s) = Ok m /\ to_mass_float_str (PStr s) = Ok (nearest_double m).
Proof.
  intros He Hi Hl C. destruct (isotope_faithful_any_case e i lbl s He Hi Hl C) as [z [name [a [m H]]]].
  exists m. destruct H as [_ [_ [_ [M [_ [_ [_ [_ [MD _]]]]]]]]].
  repeat split; try assumption. rewrite float_is_rounded_decimal, MD. reflexivity.
Qed.
