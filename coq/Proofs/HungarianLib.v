(** C14 — list/matrix lemmas for the combinators used by Model/Hungarian.v. *)
From Coq Require Import ZArith List Bool Arith Lia.
Require Import QV.Common.Outcome QV.Model.Hungarian QV.Proofs.HungarianCert.
Import ListNotations.
Open Scope Z_scope.

(** * upd *)
Lemma upd_length {A} : forall (l : list A) i v, length (upd l i v) = length l.
Proof. induction l; destruct i; simpl; intros; auto. Qed.

Lemma nth_upd_eq {A} : forall (l : list A) i v d, (i < length l)%nat -> nth i (upd l i v) d = v.
Proof. induction l; destruct i; simpl; intros; try lia; auto. apply IHl. lia. Qed.

Lemma nth_upd_neq {A} : forall (l : list A) i j v d, i <> j -> nth j (upd l i v) d = nth j l d.
Proof. induction l; destruct i, j; simpl; intros; try lia; auto. Qed.

Lemma nth_upd {A} (l : list A) i j v d :
  nth j (upd l i v) d = if (Nat.eqb i j && (i <? length l)%nat) then v else nth j l d.
Proof.
  destruct (Nat.eqb_spec i j).
  - subst. destruct (Nat.ltb_spec j (length l)); simpl.
    + apply nth_upd_eq; auto.
    + rewrite !nth_overflow; auto. rewrite upd_length; auto.
  - simpl. apply nth_upd_neq; auto.
Qed.

(** * rect and mget/mset *)
Lemma rect_nth_length M n m i : rect M n m -> (i < n)%nat -> length (nth i M []) = m.
Proof. intros [H1 H2] Hi. rewrite Forall_forall in H2. apply H2. apply nth_In. lia. Qed.

Lemma rect_ncols M n m : rect M n m -> (0 < n)%nat -> ncols M = m.
Proof. intros [H1 H2] Hn. destruct M; simpl in *; try lia. inversion H2; auto. Qed.

Lemma rect_nrows M n m : rect M n m -> nrows M = n.
Proof. intros [H1 _]. exact H1. Qed.

Lemma mset_rect M n m i j v : rect M n m -> rect (mset M i j v) n m.
Proof.
  intros [H1 H2]. unfold mset. split. rewrite upd_length; auto.
  apply Forall_forall. intros r Hr. apply (In_nth _ _ []) in Hr. destruct Hr as [k [Hk E]].
  rewrite upd_length in Hk. rewrite nth_upd in E.
  rewrite Forall_forall in H2.
  destruct (Nat.eqb i k && (i <? length M)%nat) eqn:B.
  - subst r. rewrite upd_length. apply H2. apply nth_In.
    apply andb_true_iff in B. destruct B as [_ B]. apply Nat.ltb_lt in B. auto.
  - subst r. apply H2. apply nth_In. auto.
Qed.

Lemma mget_mset M n m i j v i' j' : rect M n m -> (i < n)%nat -> (j < m)%nat ->
  mget (mset M i j v) i' j' = if (Nat.eqb i i' && Nat.eqb j j') then v else mget M i' j'.
Proof.
  intros HR Hi Hj. unfold mget, mset. destruct HR as [H1 H2].
  rewrite nth_upd. assert (Hl : (i <? length M)%nat = true) by (apply Nat.ltb_lt; lia). rewrite Hl, andb_true_r.
  destruct (Nat.eqb_spec i i'); simpl; auto. subst i'.
  rewrite nth_upd.
  assert (length (nth i M []) = m) by (apply (rect_nth_length M n m); [split; auto|auto]).
  assert (Hl2 : (j <? length (nth i M []))%nat = true) by (apply Nat.ltb_lt; lia). rewrite Hl2, andb_true_r.
  reflexivity.
Qed.

(** * tab, btab, bmtab, mapi, repeat *)
Lemma tab_rect n m f : rect (tab n m f) n m.
Proof.
  unfold tab. split. rewrite map_length, seq_length; auto.
  apply Forall_forall. intros r Hr. apply in_map_iff in Hr. destruct Hr as [i [E _]]. subst r.
  rewrite map_length, seq_length. auto.
Qed.

Lemma mget_tab n m f i j : (i < n)%nat -> (j < m)%nat -> mget (tab n m f) i j = f i j.
Proof.
  intros Hi Hj. unfold mget, tab.
  rewrite (nth_indep _ [] (map (fun j0 => f O j0) (seq 0 m))) by (rewrite map_length, seq_length; auto).
  rewrite (map_nth (fun i0 => map (fun j0 => f i0 j0) (seq 0 m)) (seq 0 n) O i).
  rewrite seq_nth by auto. simpl.
  rewrite (nth_indep _ 0 (f i O)) by (rewrite map_length, seq_length; auto).
  rewrite (map_nth (fun j0 => f i j0) (seq 0 m) O j). rewrite seq_nth by auto. reflexivity.
Qed.

Lemma btab_length n f : length (btab n f) = n.
Proof. unfold btab. rewrite map_length, seq_length. auto. Qed.

Lemma bget_btab n f i : (i < n)%nat -> bget (btab n f) i = f i.
Proof.
  intros Hi. unfold bget, btab.
  rewrite (nth_indep _ false (f O)) by (rewrite map_length, seq_length; auto).
  rewrite (map_nth f (seq 0 n) O i). rewrite seq_nth by auto. reflexivity.
Qed.

Definition brect (M : bmat) (n m : nat) : Prop := length M = n /\ Forall (fun r => length r = m) M.

Lemma bmtab_rect n m f : brect (bmtab n m f) n m.
Proof.
  unfold bmtab. split. rewrite map_length, seq_length; auto.
  apply Forall_forall. intros r Hr. apply in_map_iff in Hr. destruct Hr as [i [E _]]. subst r.
  rewrite map_length, seq_length. auto.
Qed.

Lemma bmget_bmtab n m f i j : (i < n)%nat -> (j < m)%nat -> bmget (bmtab n m f) i j = f i j.
Proof.
  intros Hi Hj. unfold bmget, bmtab.
  rewrite (nth_indep _ [] (map (fun j0 => f O j0) (seq 0 m))) by (rewrite map_length, seq_length; auto).
  rewrite (map_nth (fun i0 => map (fun j0 => f i0 j0) (seq 0 m)) (seq 0 n) O i).
  rewrite seq_nth by auto. simpl.
  rewrite (nth_indep _ false (f i O)) by (rewrite map_length, seq_length; auto).
  rewrite (map_nth (fun j0 => f i j0) (seq 0 m) O j). rewrite seq_nth by auto. reflexivity.
Qed.

Lemma mapi_from_length {A B} (f : nat -> A -> B) : forall l k, length (mapi_from k f l) = length l.
Proof. induction l; simpl; intros; auto. Qed.

Lemma nth_mapi_from {A B} (f : nat -> A -> B) : forall l k i d d',
  (i < length l)%nat -> nth i (mapi_from k f l) d' = f (k + i)%nat (nth i l d).
Proof.
  induction l; simpl; intros; try lia. destruct i.
  - f_equal. lia.
  - rewrite (IHl (S k) i d d') by lia. f_equal. lia.
Qed.

Lemma mapi_length {A B} (f : nat -> A -> B) l : length (mapi f l) = length l.
Proof. apply mapi_from_length. Qed.

Lemma nth_mapi {A B} (f : nat -> A -> B) l i d d' : (i < length l)%nat -> nth i (mapi f l) d' = f i (nth i l d).
Proof. intros. unfold mapi. rewrite (nth_mapi_from f l O i d d') by auto. reflexivity. Qed.

Lemma bget_repeat_true n i : (i < n)%nat -> bget (repeat true n) i = true.
Proof.
  unfold bget. revert i. induction n; simpl; intros; try lia. destruct i; auto. apply IHn. lia.
Qed.

(** * first_idx / find_first *)
Lemma first_idx_Some {A} (p : A -> bool) d : forall l i, first_idx p l = Some i ->
  (i < length l)%nat /\ p (nth i l d) = true.
Proof.
  induction l; simpl; intros; try discriminate.
  destruct (p a) eqn:E.
  - inversion H; subst. split; [lia|auto].
  - destruct (first_idx p l) eqn:F; simpl in H; try discriminate. inversion H; subst.
    destruct (IHl n eq_refl). split; [lia|auto].
Qed.

Lemma first_idx_None {A} (p : A -> bool) : forall l, first_idx p l = None -> forall x, In x l -> p x = false.
Proof.
  induction l; simpl; intros; try contradiction.
  destruct (p a) eqn:E; try discriminate.
  destruct (first_idx p l) eqn:F; simpl in H; try discriminate.
  destruct H0; subst; auto.
Qed.

Lemma find_first_Some : forall M i j, find_first M = Some (i, j) -> bmget M i j = true.
Proof.
  induction M; simpl; intros; try discriminate.
  destruct (first_idx (fun b : bool => b) a) eqn:E.
  - inversion H; subst. apply (first_idx_Some _ false) in E. unfold bmget. simpl. tauto.
  - destruct (find_first M) as [[i' j']|] eqn:F; try discriminate. inversion H; subst.
    unfold bmget. simpl. apply IHM. auto.
Qed.

Lemma find_first_None : forall M, find_first M = None -> forall i j, bmget M i j = false.
Proof.
  induction M; simpl; intros.
  - unfold bmget. destruct i; simpl; destruct j; auto.
  - destruct (first_idx (fun b : bool => b) a) eqn:E; try discriminate.
    destruct (find_first M) as [[i' j']|] eqn:F; try discriminate.
    unfold bmget. destruct i; simpl.
    + destruct (Nat.ltb_spec j (length a)).
      * apply (first_idx_None _ _ E). apply nth_In; auto.
      * apply nth_overflow; auto.
    + apply IHM; auto.
Qed.

Lemma bmget_true_bounds M n m i j : brect M n m -> bmget M i j = true -> (i < n)%nat /\ (j < m)%nat.
Proof.
  intros [H1 H2] H. unfold bmget in H.
  destruct (Nat.ltb_spec i n).
  - split; auto. destruct (Nat.ltb_spec j m); auto.
    rewrite nth_overflow in H; try discriminate.
    rewrite Forall_forall in H2. rewrite (H2 (nth i M [])); auto. apply nth_In; lia.
  - rewrite (nth_overflow M) in H by lia. destruct j; discriminate.
Qed.

(** * lmin *)
Lemma fold_min_le : forall l a, fold_left Z.min l a <= a /\ forall x, In x l -> fold_left Z.min l a <= x.
Proof.
  induction l; simpl; intros. split; [lia|tauto].
  destruct (IHl (Z.min a0 a)) as [H1 H2]. split. lia.
  intros x [E|Hx]. subst; lia. auto.
Qed.

Lemma lmin_le l x : In x l -> lmin l <= x.
Proof.
  destruct l; simpl; intros; try contradiction. destruct (fold_min_le l z) as [H1 H2].
  destruct H; subst; auto.
Qed.

Lemma fold_min_in : forall l a, fold_left Z.min l a = a \/ In (fold_left Z.min l a) l.
Proof.
  induction l; simpl; intros; auto.
  destruct (IHl (Z.min a0 a)) as [H|H]; auto.
  rewrite H. destruct (Z.min_spec a0 a) as [[_ E]|[_ E]]; rewrite E; auto.
Qed.

Lemma lmin_in l : l <> [] -> In (lmin l) l.
Proof. destruct l; simpl; intros; try congruence. destruct (fold_min_in l z); auto. Qed.

Lemma lmin_nonneg l : (forall x, In x l -> 0 <= x) -> 0 <= lmin l.
Proof. intros H. destruct l. simpl; lia. apply H. apply lmin_in. discriminate. Qed.

(** * existsb over a matrix column *)
Lemma star_in_col_true mk n m j : rect mk n m ->
  (star_in_col mk j = true <-> exists i, (i < n)%nat /\ mget mk i j = 1).
Proof.
  intros [H1 H2]. unfold star_in_col. rewrite existsb_exists. split.
  - intros [r [Hr E]]. apply (In_nth _ _ []) in Hr. destruct Hr as [i [Hi Er]]. exists i. split. lia.
    unfold mget. rewrite Er. apply Z.eqb_eq. auto.
  - intros [i [Hi E]]. exists (nth i mk []). split. apply nth_In; lia. apply Z.eqb_eq. exact E.
Qed.

Lemma column_nth mk n m c i : rect mk n m -> (i < n)%nat -> nth i (column mk c) 0 = mget mk i c.
Proof.
  intros [H1 H2] Hi. unfold column, mget.
  rewrite (nth_indep _ 0 (nth c [] 0)) by (rewrite map_length; lia).
  rewrite (map_nth (fun r => nth c r 0) mk [] i). reflexivity.
Qed.

Lemma column_length mk c : length (column mk c) = length mk.
Proof. unfold column. apply map_length. Qed.
