(** Proofs about Model/PeriodicTable.v (C01). *)
From Coq Require Import ZArith NArith List String Ascii Bool Lia.
Require Import QV.Common.Outcome QV.Common.PyAscii.
Require Import QV.Gen.PTable QV.Gen.PeriodGroup QV.Gen.Srd144 QV.Model.PeriodicTable.
Require Import QV.Proofs.PeriodicTableF1 QV.Proofs.PeriodicTableF2.
Import ListNotations.
Open Scope Z_scope.

(** the big tables are only ever evaluated by vm_compute; keep tactics from unfolding them *)
Opaque pt_Z pt_E pt_name pt_EE pt_EA pt_A pt_mass pt_mass_str srd_elements srd_names srd_longest_lived.

(* ------------------------------------------------------------------------------------------ *)
(** * generic facts *)

Lemma string_eqb_true a b : String.eqb a b = true -> a = b.
Proof. apply String.eqb_eq. Qed.
Lemma Z_eqb_true a b : Z.eqb a b = true -> a = b.
Proof. apply Z.eqb_eq. Qed.
Lemma pair_eqb_true a b : pair_eqb a b = true -> a = b.
Proof.
  destruct a, b; unfold pair_eqb; simpl. rewrite andb_true_iff, !Z.eqb_eq. intros [-> ->]; reflexivity.
Qed.
Lemma optz_eqb_true a b : optz_eqb a b = true -> a = b.
Proof. destruct a, b; simpl; try discriminate; try reflexivity. rewrite Z.eqb_eq. now intros ->. Qed.

Lemma outcome_eqb_ok {A} (eqb : A -> A -> bool) (sound : forall a b, eqb a b = true -> a = b) x v :
  outcome_eqb eqb x (Ok v) = true -> x = Ok v.
Proof. destruct x; simpl; [intro H; f_equal; now apply sound | discriminate]. Qed.
Lemma outcome_eqb_true {A} (eqb : A -> A -> bool) (sound : forall a b, eqb a b = true -> a = b) x y :
  outcome_eqb eqb x y = true -> x = y.
Proof.
  destruct x, y; simpl; try discriminate.
  - intro H; f_equal; now apply sound.
  - intro H; f_equal; now apply ekind_eqb_eq.
Qed.

(** dict(zip(ks, vs)) *)
Lemma zip_get_sound {K V} (eqb : K -> K -> bool) (sound : forall a b, eqb a b = true -> a = b) k :
  forall ks (vs : list V) acc v,
    zip_get eqb k ks vs acc = Some v -> In (k, v) (combine ks vs) \/ acc = Some v.
Proof.
  induction ks as [|k' kr IH]; intros vs acc v H; simpl in H; [now right|].
  destruct vs as [|v' vr]; [now right|].
  apply IH in H. destruct H as [H|H]; [left; now right|].
  destruct (eqb k k') eqn:E.
  - left. left. apply sound in E. subst. now inversion H.
  - now right.
Qed.

Lemma sdict_sound {V} ks (vs : list V) k v : sdict ks vs k = Some v -> In (k, v) (combine ks vs).
Proof.
  unfold sdict. intro H. apply (zip_get_sound _ string_eqb_true) in H. destruct H as [H|H]; [exact H|discriminate].
Qed.
Lemma zdict_sound {V} ks (vs : list V) k v : zdict ks vs k = Some v -> In (k, v) (combine ks vs).
Proof.
  unfold zdict. intro H. apply (zip_get_sound _ Z_eqb_true) in H. destruct H as [H|H]; [exact H|discriminate].
Qed.


(* ------------------------------------------------------------------------------------------ *)
(** * the shared observation equals the record of accessor calls *)

Lemma observe_eq x : observe x = observe_spec x.
Proof.
  unfold observe, observe_spec, to_period, to_group, to_Z, to_E, to_element, to_A, to_mass_dec, resolve,
    key_Z, key_name.
  destruct (resolve_eliso x) as [k|e]; cbn [obind]; [|reflexivity].
  unfold strict_filter. cbn [andb].
  destruct (negb (str_mem k pt_E)); cbn [obind gate]; reflexivity.
Qed.

(** everything an accessor returns is a function of the resolved (unfiltered) key *)
Lemma observe_spec_of_resolve x y : resolve_eliso x = resolve_eliso y -> observe_spec x = observe_spec y.
Proof.
  intro H. unfold observe_spec, to_period, to_group, to_Z, to_E, to_element, to_A, to_mass_dec, resolve.
  rewrite H. reflexivity.
Qed.

(* ------------------------------------------------------------------------------------------ *)
(** * case insensitivity, for all strings *)

Lemma resolve_eliso_mod_case s t : same_mod_case s t -> resolve_eliso (PStr s) = resolve_eliso (PStr t).
Proof.
  intro H. unfold resolve_eliso, step2, step3, pyint.
  rewrite (capitalize_mod_case _ _ H), (pyint_str_mod_case _ _ H). reflexivity.
Qed.

Lemma observe_mod_case s t : same_mod_case s t -> observe_spec (PStr s) = observe_spec (PStr t).
Proof. intro H. apply observe_spec_of_resolve, resolve_eliso_mod_case, H. Qed.

Lemma resolve_mod_case s t b : same_mod_case s t -> resolve (PStr s) b = resolve (PStr t) b.
Proof. intro H. unfold resolve. now rewrite (resolve_eliso_mod_case _ _ H). Qed.

(* ------------------------------------------------------------------------------------------ *)
(** * soundness of the cascade: an answer is always justified by the identifier *)

Definition justified (x : pyval) (k : string) : Prop :=
  (exists s, x = PStr s /\ k = capitalize s /\ In k pt_EA)
  \/ (exists z, pyint x = Ok z /\ In (z, k) (combine pt_Z pt_E))
  \/ (exists s, x = PStr s /\ In (capitalize s, k) (combine pt_name pt_E)).

Lemma step3_sound x k : step3 x = Ok k -> justified x k.
Proof.
  unfold step3. destruct x as [z|s]; [discriminate|].
  destruct (element2el (capitalize s)) as [e|] eqn:E; [|discriminate].
  intro H; inversion H; subst. right; right. exists s; split; [reflexivity|]. now apply sdict_sound.
Qed.

Lemma step2_sound x k : step2 x = Ok k -> justified x k.
Proof.
  unfold step2. destruct (pyint x) as [z|e] eqn:P; [|apply step3_sound].
  destruct (z2el z) as [el|] eqn:E; [|apply step3_sound].
  intro H; inversion H; subst. right; left. exists z; split; [exact P|]. now apply zdict_sound.
Qed.

Lemma combine_in_l {A B} (a : A) (b : B) l1 l2 : In (a, b) (combine l1 l2) -> In a l1.
Proof. apply in_combine_l. Qed.

Lemma resolve_eliso_sound x k : resolve_eliso x = Ok k -> justified x k.
Proof.
  unfold resolve_eliso. destruct x as [z|s]; [apply step2_sound|].
  destruct (eliso2mass (capitalize s)) as [m|] eqn:E; [|apply step2_sound].
  intro H; inversion H; subst. left. exists s; repeat split.
  unfold eliso2mass in E. apply (sdict_sound pt_EA pt_mass_str) in E. exact (in_combine_l _ _ _ _ E).
Qed.

Lemma step3_closed x e : step3 x = Err e -> e = NotAnElement.
Proof.
  unfold step3. destruct x; [now inversion 1|]. destruct (element2el _); [discriminate|now inversion 1].
Qed.
Lemma step2_closed x e : step2 x = Err e -> e = NotAnElement.
Proof.
  unfold step2. destruct (pyint x); [destruct (z2el _); [discriminate|]|]; apply step3_closed.
Qed.
Lemma resolve_eliso_closed x e : resolve_eliso x = Err e -> e = NotAnElement.
Proof.
  unfold resolve_eliso. destruct x; [apply step2_closed|].
  destruct (eliso2mass _); [discriminate|apply step2_closed].
Qed.

Lemma resolve_inv x b k : resolve x b = Ok k -> resolve_eliso x = Ok k /\ (b = true -> In k pt_E).
Proof.
  unfold resolve. destruct (resolve_eliso x) as [k'|e]; cbn [obind]; [|discriminate].
  unfold strict_filter. destruct b; cbn [andb].
  - destruct (str_mem k' pt_E) eqn:M; cbn [negb]; [|discriminate].
    intro H; inversion H; subst. split; [reflexivity|]. intros _. now apply str_mem_In.
  - intro H; inversion H; subst. split; [reflexivity|discriminate].
Qed.

Lemma resolve_sound x b k : resolve x b = Ok k -> justified x k.
Proof. intro H. apply resolve_inv in H. now apply resolve_eliso_sound. Qed.

Lemma resolve_closed x b e : resolve x b = Err e -> e = NotAnElement.
Proof.
  unfold resolve. destruct (resolve_eliso x) as [k|e'] eqn:R; cbn [obind].
  - unfold strict_filter. destruct (b && negb (str_mem k pt_E)); [now inversion 1|discriminate].
  - intro H; inversion H; subst. now apply resolve_eliso_closed in R.
Qed.

Lemma resolve_rejects x b : (forall k, ~ justified x k) -> resolve x b = Err NotAnElement.
Proof.
  intro H. destruct (resolve x b) as [k|e] eqn:R.
  - exfalso. apply (H k). now apply resolve_sound in R.
  - f_equal. now apply resolve_closed in R.
Qed.

(** strict mode *)
Lemma strict_exact x k : resolve x true = Ok k <-> resolve x false = Ok k /\ In k pt_E.
Proof.
  unfold resolve. destruct (resolve_eliso x) as [k'|e]; cbn [obind].
  - unfold strict_filter; cbn [andb]. destruct (str_mem k' pt_E) eqn:M; cbn [negb].
    + split.
      * intro H; inversion H; subst. split; [reflexivity|now apply str_mem_In].
      * intros [H _]; exact H.
    + split; [discriminate|]. intros [H I]. inversion H; subst.
      apply str_mem_In in I. congruence.
  - split; [discriminate|intros [H _]; discriminate].
Qed.

(** integers outside the table are rejected (negative, too large) *)
Lemma int_outside_rejected z b : ~ In z pt_Z -> resolve (PInt z) b = Err NotAnElement.
Proof.
  intro H. apply resolve_rejects. intros k [J|[J|J]].
  - destruct J as [s [E _]]; discriminate.
  - destruct J as [z' [P I]]. simpl in P. inversion P; subst. apply in_combine_l in I. contradiction.
  - destruct J as [s [E _]]; discriminate.
Qed.

(** a string that is not a label (capitalised), not an int() literal and not a name is rejected *)
Lemma str_outside_rejected s b :
  ~ In (capitalize s) pt_EA -> (forall z, pyint_str s = Ok z -> ~ In z pt_Z) -> ~ In (capitalize s) pt_name ->
  resolve (PStr s) b = Err NotAnElement.
Proof.
  intros H1 H2 H3. apply resolve_rejects. intros k [J|[J|J]].
  - destruct J as [s' [E [C I]]]. inversion E; subst. contradiction.
  - destruct J as [z [P I]]. simpl in P. apply in_combine_l in I. exact (H2 z P I).
  - destruct J as [s' [E I]]. inversion E; subst. apply in_combine_l in I. contradiction.
Qed.

(* ------------------------------------------------------------------------------------------ *)
(** * finite-table facts, by evaluation over the whole shipped table *)

Definition elem_rows : list (Z * string * string) := combine (combine pt_Z pt_E) pt_name.


Definition row_alias_ok (r : Z * string * string) : bool :=
  let '(z, e, n) := r in
  res_is (PInt z) e && res_is (PStr (str_of_Z z)) e && res_is (PStr e) e && res_is (PStr n) e
  && str_mem e pt_E.

Lemma all_rows_alias_ok : forallb row_alias_ok elem_rows = true.
Proof. vm_cast_no_check (@eq_refl bool true). Qed.

Lemma res_is_true x e : res_is x e = true -> resolve_eliso x = Ok e.
Proof. apply outcome_eqb_ok, string_eqb_true. Qed.

Lemma row_alias z e n :
  In (z, e, n) elem_rows ->
  resolve_eliso (PInt z) = Ok e /\ resolve_eliso (PStr (str_of_Z z)) = Ok e /\
  resolve_eliso (PStr e) = Ok e /\ resolve_eliso (PStr n) = Ok e /\ In e pt_E.
Proof.
  intro H. pose proof all_rows_alias_ok as A. rewrite forallb_forall in A. specialize (A _ H).
  unfold row_alias_ok in A. rewrite !andb_true_iff in A. destruct A as [[[[A1 A2] A3] A4] A5].
  repeat split; try (now apply res_is_true). now apply str_mem_In.
Qed.

Lemma resolve_of_eliso x b e : resolve_eliso x = Ok e -> In e pt_E -> resolve x b = Ok e.
Proof.
  intros R I. unfold resolve. rewrite R. cbn [obind]. unfold strict_filter.
  apply str_mem_In in I. rewrite I. now rewrite andb_false_r.
Qed.


Lemma label_self ea : In ea pt_EA -> resolve_eliso (PStr ea) = Ok ea.
Proof.
  intro H. pose proof all_labels_self as A. rewrite forallb_forall in A. now apply res_is_true, A.
Qed.

Lemma elements_are_keys : forallb (fun e => str_mem e pt_EA) pt_E = true.
Proof. vm_cast_no_check (@eq_refl bool true). Qed.

Lemma justified_key x k : justified x k -> In k pt_EA.
Proof.
  pose proof elements_are_keys as A. rewrite forallb_forall in A.
  intros [J|[J|J]].
  - now destruct J as [s [_ [_ I]]].
  - destruct J as [z [_ I]]. apply in_combine_r in I. now apply str_mem_In, A.
  - destruct J as [s [_ I]]. apply in_combine_r in I. now apply str_mem_In, A.
Qed.

Lemma resolve_key x b k : resolve x b = Ok k -> In k pt_EA.
Proof. intro H. eapply justified_key, resolve_sound, H. Qed.

Definition closed {A} (o : outcome A) : Prop := match o with Ok _ => True | Err e => e = NotAnElement end.

Lemma is_ok_closed {A} (o : outcome A) : is_ok o = true -> closed o.
Proof. destruct o; simpl; [trivial|discriminate]. Qed.

Lemma accessor_closed {A} (f : string -> outcome A) x b :
  (forall k, In k pt_EA -> is_ok (f k) = true) -> closed (obind (resolve x b) f).
Proof.
  intro T. destruct (resolve x b) as [k|e] eqn:R; cbn [obind].
  - apply is_ok_closed, T. eapply resolve_key, R.
  - simpl. eapply resolve_closed, R.
Qed.

Lemma key_total_all k : In k pt_EA -> key_total k = true.
Proof. pose proof all_keys_total as A. rewrite forallb_forall in A. apply A. Qed.

Lemma fails_closed x b :
  closed (resolve x b) /\ closed (to_Z x b) /\ closed (to_E x b) /\ closed (to_element x b) /\
  closed (to_A x) /\ closed (to_mass_dec x) /\ closed (to_period x) /\ closed (to_group x).
Proof.
  assert (K : forall k, In k pt_EA ->
     is_ok (key_Z k) = true /\ is_ok (key_E k) = true /\ is_ok (key_name k) = true /\
     is_ok (key_A k) = true /\ is_ok (key_mass_dec k) = true).
  { intros k I. apply key_total_all in I. unfold key_total in I. rewrite !andb_true_iff in I. tauto. }
  assert (CZ : forall b', closed (to_Z x b')) by (intro b'; apply accessor_closed; intros k I; apply K, I).
  repeat split.
  - destruct (resolve x b) eqn:R; simpl; [trivial|eapply resolve_closed, R].
  - apply CZ.
  - apply accessor_closed; intros k I; apply K, I.
  - apply accessor_closed; intros k I; apply K, I.
  - apply accessor_closed; intros k I; apply K, I.
  - apply accessor_closed; intros k I; apply K, I.
  - unfold to_period. specialize (CZ false). destruct (to_Z x false); simpl in *; trivial.
  - unfold to_group. specialize (CZ false). destruct (to_Z x false); simpl in *; trivial.
Qed.

(** the atomic number returned is one of the table *)
Lemma to_Z_in_table x b z : to_Z x b = Ok z -> In z pt_Z.
Proof.
  unfold to_Z, key_Z, key_E. destruct (resolve x b) as [k|]; cbn [obind]; [|discriminate].
  destruct (eliso2el k) as [e|]; cbn [getk obind]; [|discriminate].
  destruct (el2z e) as [z'|] eqn:E; cbn [getk]; [|discriminate].
  intro H; inversion H; subst. apply sdict_sound in E. now apply in_combine_r in E.
Qed.

(* ------------------------------------------------------------------------------------------ *)
(** * period and group against the hand-written reference *)

Fixpoint zrange (a : Z) (n : nat) : list Z :=
  match n with O => [] | S m => a :: zrange (a + 1) m end.
Lemma zrange_In n : forall a z, a <= z < a + Z.of_nat n -> In z (zrange a n).
Proof.
  induction n as [|n IH]; intros a z H; simpl; [lia|].
  destruct (Z.eq_dec a z) as [->|N]; [now left|]. right. apply IH. lia.
Qed.

Definition pg_ok (z : Z) : bool :=
  optz_eqb (gen_period z) (Some (ref_period z)) && optz_eqb (gen_group z) (ref_group z).

Lemma pg_all : forallb pg_ok (zrange 1 118) = true.
Proof. vm_cast_no_check (@eq_refl bool true). Qed.

Lemma period_group_ref z : 1 <= z <= 118 -> gen_period z = Some (ref_period z) /\ gen_group z = ref_group z.
Proof.
  intro H. pose proof pg_all as A. rewrite forallb_forall in A.
  assert (I : In z (zrange 1 118)) by (apply zrange_In; simpl; lia).
  specialize (A _ I). unfold pg_ok in A. rewrite andb_true_iff in A. destruct A as [A1 A2].
  split; now apply optz_eqb_true.
Qed.

Lemma table_Z_range : forallb (fun z => (0 <=? z) && (z <=? 118)) pt_Z = true.
Proof. vm_cast_no_check (@eq_refl bool true). Qed.

Lemma period_group_accessor x z :
  to_Z x false = Ok z -> 1 <= z ->
  to_period x = Ok (Some (ref_period z)) /\ to_group x = Ok (ref_group z).
Proof.
  intros H P. pose proof (to_Z_in_table _ _ _ H) as I.
  pose proof table_Z_range as A. rewrite forallb_forall in A. specialize (A _ I).
  rewrite andb_true_iff, !Z.leb_le in A.
  destruct (period_group_ref z) as [E1 E2]; [lia|].
  unfold to_period, to_group. rewrite H. cbn [obind]. now rewrite E1, E2.
Qed.

(** the reference itself: period boundaries are the noble gases; shape of the 18-column table *)
Lemma ref_period_spec z :
  1 <= z <= 118 ->
  ref_period z = (if z <=? 2 then 1 else if z <=? 10 then 2 else if z <=? 18 then 3 else if z <=? 36 then 4
                  else if z <=? 54 then 5 else if z <=? 86 then 6 else 7).
Proof.
  intro H. unfold ref_period, nobles. cbn [filter].
  repeat match goal with |- context [Z.ltb ?a z] => destruct (Z.ltb_spec a z) end;
  repeat match goal with |- context [Z.leb z ?a] => destruct (Z.leb_spec z a) end;
  try lia; reflexivity.
Qed.

(* ------------------------------------------------------------------------------------------ *)
(** * faithfulness to NIST SRD-144 (raw JSON), over the whole table *)

Lemma agrees_true {A} (eqb : A -> A -> bool) (sound : forall a b, eqb a b = true -> a = b) got want :
  agrees eqb got want = true -> exists w, want = Some w /\ got = Ok w.
Proof.
  destruct got as [g|], want as [w|]; simpl; try discriminate.
  intro H. apply sound in H. subst. eauto.
Qed.


Lemma isotope_faithful e i lbl :
  In e srd_elements -> In i (e_isos e) -> In lbl (i_labels (e_sym e) i) ->
  exists z name a m,
    e_Z e = Some z /\ e_name e = Some name /\ i_A i = Some a /\ i_mass i = Some m /\
    to_Z (PStr lbl) false = Ok z /\ to_E (PStr lbl) false = Ok (e_sym e) /\
    to_element (PStr lbl) false = Ok name /\ to_A (PStr lbl) = Ok a /\
    to_mass_dec (PStr lbl) = Ok m /\ to_mass_str (PStr lbl) = Ok (i_mass_str i).
Proof.
  intros He Hi Hl. pose proof all_isotopes_faithful as A. rewrite forallb_forall in A.
  specialize (A _ He). unfold faith_elem_isos in A. rewrite forallb_forall in A.
  specialize (A _ Hi). rewrite forallb_forall in A. specialize (A _ Hl).
  unfold faith_iso in A. rewrite observe_eq in A. cbn [observe_spec o_ZF o_EF o_nameF o_A o_mass] in A.
  rewrite !andb_true_iff in A. destruct A as [[[[[A1 A2] A3] A4] A5] A6].
  apply (agrees_true _ Z_eqb_true) in A1. destruct A1 as [z [Z1 Z2]].
  apply (agrees_true _ string_eqb_true) in A2. destruct A2 as [s [S1 S2]]. inversion S1; subst s.
  apply (agrees_true _ string_eqb_true) in A3. destruct A3 as [n [N1 N2]].
  apply (agrees_true _ Z_eqb_true) in A4. destruct A4 as [a [A41 A42]].
  apply (agrees_true _ pair_eqb_true) in A5. destruct A5 as [m [M1 M2]].
  apply (agrees_true _ string_eqb_true) in A6. destruct A6 as [ms [MS1 MS2]]. inversion MS1; subst ms.
  exists z, n, a, m. repeat split; assumption.
Qed.

(** the bare element: all element-level names resolve to the NIST symbol; its A and mass are those of
    the most abundant (else longest-lived) isotope *)
Definition faith_elem (e : srd_elem) : bool :=
  match e_Z e, e_name e, default_iso e with
  | Some z, Some name, Some i =>
      res_is (PInt z) (e_sym e) && res_is (PStr (str_of_Z z)) (e_sym e) && res_is (PStr (e_sym e)) (e_sym e)
      && res_is (PStr name) (e_sym e) && str_mem (e_sym e) pt_E &&
      (let o := observe (PStr (e_sym e)) in
       agrees Z.eqb (o_ZF o) (Some z) && agrees String.eqb (o_EF o) (Some (e_sym e)) &&
       agrees String.eqb (o_nameF o) (Some name) &&
       agrees Z.eqb (o_A o) (i_A i) && agrees pair_eqb (o_mass o) (i_mass i))
  | _, _, _ => false
  end.

Lemma all_elements_faithful : forallb faith_elem srd_elements = true.
Proof. vm_cast_no_check (@eq_refl bool true). Qed.

Lemma element_faithful e :
  In e srd_elements ->
  exists z name i a m,
    e_Z e = Some z /\ e_name e = Some name /\ default_iso e = Some i /\ i_A i = Some a /\ i_mass i = Some m /\
    (forall b, resolve (PInt z) b = Ok (e_sym e) /\ resolve (PStr (str_of_Z z)) b = Ok (e_sym e) /\
               resolve (PStr (e_sym e)) b = Ok (e_sym e) /\ resolve (PStr name) b = Ok (e_sym e)) /\
    to_Z (PStr (e_sym e)) false = Ok z /\ to_E (PStr (e_sym e)) false = Ok (e_sym e) /\
    to_element (PStr (e_sym e)) false = Ok name /\
    to_A (PStr (e_sym e)) = Ok a /\ to_mass_dec (PStr (e_sym e)) = Ok m.
Proof.
  intro He. pose proof all_elements_faithful as A. rewrite forallb_forall in A. specialize (A _ He).
  unfold faith_elem in A.
  destruct (e_Z e) as [z|]; [|discriminate]. destruct (e_name e) as [name|]; [|discriminate].
  destruct (default_iso e) as [i|]; [|discriminate].
  rewrite observe_eq in A. cbn [observe_spec o_ZF o_EF o_nameF o_A o_mass] in A.
  rewrite !andb_true_iff in A.
  destruct A as [[[[[R1 R2] R3] R4] R5] [[[[A1 A2] A3] A4] A5]].
  apply res_is_true in R1, R2, R3, R4. apply str_mem_In in R5.
  apply (agrees_true _ Z_eqb_true) in A1. destruct A1 as [z' [Z1 Z2]]. inversion Z1; subst z'.
  apply (agrees_true _ string_eqb_true) in A2. destruct A2 as [s [S1 S2]]. inversion S1; subst s.
  apply (agrees_true _ string_eqb_true) in A3. destruct A3 as [n [N1 N2]]. inversion N1; subst n.
  apply (agrees_true _ Z_eqb_true) in A4. destruct A4 as [a [A41 A42]].
  apply (agrees_true _ pair_eqb_true) in A5. destruct A5 as [m [M1 M2]].
  exists z, name, i, a, m. repeat split; try assumption; try reflexivity;
    apply resolve_of_eliso; assumption.
Qed.

(** nothing else is in the table: the element columns are exactly dummy + NIST, and every key is the
    dummy, a NIST element symbol or a NIST isotope label *)
Definition srd_labels : list string :=
  flat_map (fun e => e_sym e :: flat_map (i_labels (e_sym e)) (e_isos e)) srd_elements.

Definition opt_list {A} (l : list (option A)) : option (list A) :=
  fold_right (fun o acc => match o, acc with Some a, Some r => Some (a :: r) | _, _ => None end) (Some []) l.

Lemma element_columns_exact :
  pt_E = app (map (fun r => snd (fst r)) srd_dummy_elems) (map e_sym srd_elements) /\
  Some pt_Z = option_map (app (map (fun r => fst (fst r)) srd_dummy_elems)) (opt_list (map e_Z srd_elements)) /\
  Some pt_name = option_map (app (map snd srd_dummy_elems)) (opt_list (map e_name srd_elements)).
Proof. vm_compute. repeat split. Qed.

Lemma keys_only_srd : forallb (fun k => str_mem k (app dummy_labels srd_labels)) pt_EA = true.
Proof. vm_compute. reflexivity. Qed.

Lemma key_is_srd k :
  In k pt_EA ->
  In k dummy_labels \/
  exists e, In e srd_elements /\ (k = e_sym e \/ exists i, In i (e_isos e) /\ In k (i_labels (e_sym e) i)).
Proof.
  intro H. pose proof keys_only_srd as A. rewrite forallb_forall in A. specialize (A _ H).
  apply str_mem_In in A. apply in_app_or in A. destruct A as [A|A]; [left; exact A|].
  right. unfold srd_labels in A. apply in_flat_map in A. destruct A as [e [He A]].
  exists e; split; [exact He|]. destruct A as [A|A]; [left; now symmetry|].
  right. apply in_flat_map in A. destruct A as [i [Hi A]]. exists i; split; assumption.
Qed.

(** the dummy rows, as seeded by the build script: every dummy species label gives the dummy element, mass number and
    mass of its row; every dummy element's Z / symbol / name resolve (strictly too) to its symbol *)
Definition dummy_species_ok (r : string * string * Z * string) : bool :=
  outcome_eqb String.eqb (to_E (PStr (dm_EA r)) false) (Ok (dm_EE r)) &&
  outcome_eqb Z.eqb (to_A (PStr (dm_EA r))) (Ok (dm_A r)) &&
  outcome_eqb String.eqb (to_mass_str (PStr (dm_EA r))) (Ok (dm_mass r)).
Definition dummy_elem_ok (r : Z * string * string) : bool :=
  let '(z, e, n) := r in
  forallb (fun b => outcome_eqb String.eqb (resolve (PInt z) b) (Ok e) && outcome_eqb String.eqb (resolve (PStr e) b) (Ok e)
                    && outcome_eqb String.eqb (resolve (PStr n) b) (Ok e) && outcome_eqb Z.eqb (to_Z (PStr e) b) (Ok z)
                    && outcome_eqb String.eqb (to_element (PStr e) b) (Ok n)) [false; true].
Lemma dummy_rows_ok : forallb dummy_species_ok srd_dummy_species && forallb dummy_elem_ok srd_dummy_elems = true.
Proof. vm_compute. reflexivity. Qed.

Lemma dummy_species_faithful r :
  In r srd_dummy_species ->
  to_E (PStr (dm_EA r)) false = Ok (dm_EE r) /\ to_A (PStr (dm_EA r)) = Ok (dm_A r) /\
  to_mass_str (PStr (dm_EA r)) = Ok (dm_mass r).
Proof.
  intro H. pose proof dummy_rows_ok as A. rewrite andb_true_iff in A. destruct A as [A _].
  rewrite forallb_forall in A. specialize (A _ H). unfold dummy_species_ok in A.
  rewrite !andb_true_iff in A. destruct A as [[A1 A2] A3].
  repeat split; [apply (outcome_eqb_ok _ string_eqb_true), A1|apply (outcome_eqb_ok _ Z_eqb_true), A2|
                 apply (outcome_eqb_ok _ string_eqb_true), A3].
Qed.

(** the dummy row *)
Lemma dummy_row :
  observe_spec (PStr "X") =
  expand (XAll "X" 0 "X" "Dummy" 0 (0, 0) (gen_period 0) (gen_group 0) true) /\
  resolve (PInt 0) true = Ok "X"%string /\ resolve (PStr "0") true = Ok "X"%string /\
  resolve (PStr "dummy") true = Ok "X"%string /\ to_A (PStr "x0") = Ok 0 /\ to_mass_dec (PStr "x0") = Ok (0, 0).
Proof. rewrite <- observe_eq. vm_compute. repeat split. Qed.

(** Python's Decimal reading of the shipped mass strings (translator, ptable.py) agrees with the
    Gallina reader used by the model *)
Lemma decimal_reading_agrees : map dec_of_string pt_mass_str = map Some pt_mass.
Proof. vm_compute. reflexivity. Qed.

(** the aliases dict of build_periodic_table.py is the systematic labelling *)
Lemma build_aliases_systematic :
  forallb (fun kv => outcome_eqb Z.eqb (to_A (PStr (fst kv))) (to_A (PStr (snd kv)))
                     && outcome_eqb pair_eqb (to_mass_dec (PStr (fst kv))) (to_mass_dec (PStr (snd kv)))
                     && outcome_eqb Z.eqb (to_Z (PStr (fst kv)) false) (to_Z (PStr (snd kv)) false)
                     && is_ok (to_A (PStr (fst kv))))
          srd_aliases = true.
Proof. vm_cast_no_check (@eq_refl bool true). Qed.

(* ------------------------------------------------------------------------------------------ *)
(** * combined statements used by Props/C01.v *)

(** all element-level names of a row, in any letter case, strict or not, resolve to the row's symbol,
    and every accessor answers the same for all of them *)
Lemma alias_invariance z e n s b :
  In (z, e, n) elem_rows ->
  same_mod_case s (str_of_Z z) \/ same_mod_case s e \/ same_mod_case s n ->
  resolve (PInt z) b = Ok e /\ resolve (PStr s) b = Ok e /\ observe_spec (PStr s) = observe_spec (PInt z).
Proof.
  intros H C. destruct (row_alias _ _ _ H) as [R1 [R2 [R3 [R4 I]]]].
  assert (RS : resolve_eliso (PStr s) = Ok e).
  { destruct C as [C|[C|C]]; rewrite (resolve_eliso_mod_case _ _ C); assumption. }
  repeat split.
  - now apply resolve_of_eliso.
  - now apply resolve_of_eliso.
  - apply observe_spec_of_resolve. now rewrite RS, R1.
Qed.

Lemma label_any_case ea s : In ea pt_EA -> same_mod_case s ea -> resolve (PStr s) false = Ok ea.
Proof.
  intros H C. unfold resolve. rewrite (resolve_eliso_mod_case _ _ C), (label_self _ H). reflexivity.
Qed.

Lemma strict_rejects_nuclide ea s :
  In ea pt_EA -> ~ In ea pt_E -> same_mod_case s ea -> resolve (PStr s) true = Err NotAnElement.
Proof.
  intros H N C. unfold resolve. rewrite (resolve_eliso_mod_case _ _ C), (label_self _ H). cbn [obind].
  unfold strict_filter. cbn [andb].
  destruct (str_mem ea pt_E) eqn:M; [apply str_mem_In in M; contradiction|reflexivity].
Qed.

(** isotope faithfulness for any letter case of the label *)
Lemma isotope_faithful_any_case e i lbl s :
  In e srd_elements -> In i (e_isos e) -> In lbl (i_labels (e_sym e) i) -> same_mod_case s lbl ->
  exists z name a m,
    e_Z e = Some z /\ e_name e = Some name /\ i_A i = Some a /\ i_mass i = Some m /\
    to_Z (PStr s) false = Ok z /\ to_E (PStr s) false = Ok (e_sym e) /\
    to_element (PStr s) false = Ok name /\ to_A (PStr s) = Ok a /\
    to_mass_dec (PStr s) = Ok m /\ to_mass_str (PStr s) = Ok (i_mass_str i).
Proof.
  intros He Hi Hl C.
  destruct (isotope_faithful e i lbl He Hi Hl) as [z [name [a [m H]]]].
  exists z, name, a, m.
  pose proof (resolve_eliso_mod_case _ _ C) as R.
  unfold to_Z, to_E, to_element, to_A, to_mass_dec, to_mass_str, resolve in *. rewrite R. exact H.
Qed.
