(** C13 — np_blockwise for 2-d arrays and ANY block shape (Model/Blockwise.v): blocking and un-blocking is
    lossless when the block shape divides the array shape, and returns the top-left (h - h mod br, w - w mod bc)
    sub-array when require_aligned_blocks=False lets it discard the remainder; at block shape (3,3) it is
    the [expand]/[contract] pair of Model/Mill.v that align_hessian uses. *)
From Coq Require Import List Arith Lia Bool.
Require Import QV.Common.Outcome QV.Common.AlignAlg QV.Common.AlignAlgFacts QV.Model.Mill QV.Proofs.Mill QV.Model.Blockwise.
Import ListNotations.

Lemma unidx4g_idx4g gc br bc bi bj a b :
  (bj < gc)%nat -> (a < br)%nat -> (b < bc)%nat -> unidx4g gc br bc (idx4g gc br bc bi bj a b) = (bi, bj, a, b).
Proof.
  intros Hj Ha Hb. unfold unidx4g, idx4g.
  assert (Hab : (a * bc + b < br * bc)%nat) by nia.
  assert (Hjab : (bj * (br * bc) + (a * bc + b) < gc * br * bc)%nat) by nia.
  assert (E1 : ((((bi * gc + bj) * br + a) * bc + b) / bc = (bi * gc + bj) * br + a)%nat).
  { symmetry. apply Nat.div_unique with b; lia. }
  assert (E2 : ((((bi * gc + bj) * br + a) * bc + b) / (br * bc) = bi * gc + bj)%nat).
  { symmetry. apply Nat.div_unique with (a * bc + b)%nat; nia. }
  assert (E3 : ((((bi * gc + bj) * br + a) * bc + b) / (gc * br * bc) = bi)%nat).
  { symmetry. apply Nat.div_unique with (bj * (br * bc) + (a * bc + b))%nat; nia. }
  assert (M1 : ((((bi * gc + bj) * br + a) * bc + b) mod bc = b)%nat).
  { symmetry. apply Nat.mod_unique with ((bi * gc + bj) * br + a)%nat; lia. }
  assert (M2 : (((bi * gc + bj) * br + a) mod br = a)%nat).
  { symmetry. apply Nat.mod_unique with (bi * gc + bj)%nat; lia. }
  assert (M3 : ((bi * gc + bj) mod gc = bj)%nat).
  { symmetry. apply Nat.mod_unique with bi; lia. }
  rewrite E1, E2, E3, M1, M2, M3. reflexivity.
Qed.

Lemma idx4g_lt gr gc br bc bi bj a b :
  (bi < gr)%nat -> (bj < gc)%nat -> (a < br)%nat -> (b < bc)%nat -> (idx4g gc br bc bi bj a b < gr * gc * br * bc)%nat.
Proof.
  intros Hi Hj Ha Hb. unfold idx4g.
  assert (bi * gc + bj + 1 <= gr * gc)%nat by nia.
  assert ((bi * gc + bj) * br + a + 1 <= gr * gc * br)%nat by nia.
  nia.
Qed.

Opaque unidx4g.

Section BWProofs.
Context {K : Type} {KO : Ops K}.

(* the 4-index array the view presents: B[bi,bj,a,b] = A[bi*br + a, bj*bc + b] *)
Lemma expand_g_nth h w br bc al (H B : list K) bi bj a b :
  expand_g h w br bc al H = Ok B ->
  (bi < h / br)%nat -> (bj < w / bc)%nat -> (a < br)%nat -> (b < bc)%nat ->
  nth (idx4g (w / bc) br bc bi bj a b) B k0 = nth ((bi * br + a) * w + (bj * bc + b)) H k0.
Proof.
  unfold expand_g. intros E Hi Hj Ha Hb.
  destruct (al && negb (Nat.eqb (h mod br) 0 && Nat.eqb (w mod bc) 0)); [discriminate|].
  injection E as <-. rewrite tab_nth by (apply idx4g_lt; assumption).
  rewrite unidx4g_idx4g by assumption. f_equal. lia.
Qed.

Lemma expand_g_length h w br bc al (H B : list K) :
  expand_g h w br bc al H = Ok B -> length B = (h / br * (w / bc) * br * bc)%nat.
Proof.
  unfold expand_g. destruct (al && negb (Nat.eqb (h mod br) 0 && Nat.eqb (w mod bc) 0)); [discriminate|].
  intros E. injection E as <-. apply tab_length.
Qed.

Lemma contract_g_length gr gc br bc (B : list K) : length (contract_g gr gc br bc B) = (gr * br * (gc * bc))%nat.
Proof. apply tab_length. Qed.

Lemma contract_g_nth gr gc br bc (B : list K) r c :
  (r < gr * br)%nat -> (c < gc * bc)%nat ->
  nth (r * (gc * bc) + c) (contract_g gr gc br bc B) k0 = nth (idx4g gc br bc (r / br) (c / bc) (r mod br) (c mod bc)) B k0.
Proof.
  intros Hr Hc. unfold contract_g. rewrite tab_nth by nia.
  rewrite rowcol_div, rowcol_mod by exact Hc. reflexivity.
Qed.

(** the assertion of blockwise_expand: with require_aligned_blocks a shape that the block shape does not
    divide is refused (AssertionError), otherwise the view is returned *)
Theorem expand_g_error_iff h w br bc al (H : list K) :
  expand_g h w br bc al H = Err PyAssertion <-> (al = true /\ ((h mod br <> 0)%nat \/ (w mod bc <> 0)%nat)).
Proof.
  unfold expand_g. destruct al; cbn [andb].
  - destruct (Nat.eqb (h mod br) 0) eqn:E1; destruct (Nat.eqb (w mod bc) 0) eqn:E2; cbn [andb negb].
    + apply Nat.eqb_eq in E1, E2. split; [discriminate|]. intros [_ [N|N]]; contradiction.
    + apply Nat.eqb_neq in E2. split; auto.
    + apply Nat.eqb_neq in E1. split; auto.
    + apply Nat.eqb_neq in E1. split; auto.
  - split; [discriminate|]. intros [N _]. discriminate.
Qed.

(** un-blocking the blocked view gives back the top-left (gr*br, gc*bc) part of the (h,w) array
    (gr = h // br, gc = w // bc): everything, when the block shape divides the shape *)
Theorem blockwise_roundtrip_general h w br bc al (H B : list K) :
  (0 < br)%nat -> (0 < bc)%nat -> expand_g h w br bc al H = Ok B ->
  let gr := (h / br)%nat in let gc := (w / bc)%nat in
  length (contract_g gr gc br bc B) = (gr * br * (gc * bc))%nat /\
  forall r c, (r < gr * br)%nat -> (c < gc * bc)%nat ->
    nth (r * (gc * bc) + c) (contract_g gr gc br bc B) k0 = nth (r * w + c) H k0.
Proof.
  intros Hbr Hbc E gr gc. split; [apply contract_g_length|]. intros r c Hr Hc.
  rewrite contract_g_nth by assumption.
  assert (Hi : (r / br < gr)%nat) by (apply Nat.div_lt_upper_bound; lia).
  assert (Hj : (c / bc < gc)%nat) by (apply Nat.div_lt_upper_bound; lia).
  rewrite (expand_g_nth h w br bc al H B) by (try assumption; apply Nat.mod_upper_bound; lia).
  f_equal. pose proof (Nat.div_mod r br ltac:(lia)) as Er. pose proof (Nat.div_mod c bc ltac:(lia)) as Ec.
  rewrite (Nat.mul_comm (r / br) br), (Nat.mul_comm (c / bc) bc), <- Er, <- Ec. reflexivity.
Qed.

Theorem blockwise_lossless_general gr gc br bc al (H : list K) :
  (0 < br)%nat -> (0 < bc)%nat -> length H = (gr * br * (gc * bc))%nat ->
  exists B, expand_g (gr * br) (gc * bc) br bc al H = Ok B /\ contract_g gr gc br bc B = H.
Proof.
  intros Hbr Hbc HL.
  assert (Dr : (gr * br / br = gr)%nat) by (apply Nat.div_mul; lia).
  assert (Dc : (gc * bc / bc = gc)%nat) by (apply Nat.div_mul; lia).
  destruct (expand_g (gr * br) (gc * bc) br bc al H) as [B|e] eqn:E.
  - exists B. split; [reflexivity|].
    destruct (blockwise_roundtrip_general _ _ _ _ _ _ _ Hbr Hbc E) as [L N]. rewrite Dr, Dc in L, N.
    apply nth_ext_eq with (d := k0); [lia|]. rewrite L. intros k Hk.
    assert (Hw : (0 < gc * bc)%nat) by nia.
    pose proof (Nat.div_mod k (gc * bc) ltac:(lia)) as Ek.
    pose proof (Nat.mod_upper_bound k (gc * bc) ltac:(lia)) as Hc.
    set (r := (k / (gc * bc))%nat) in *. set (c := (k mod (gc * bc))%nat) in *.
    assert (Hr : (r < gr * br)%nat) by nia.
    replace k with (r * (gc * bc) + c)%nat by lia. apply N; assumption.
  - exfalso. unfold expand_g in E. rewrite !Nat.mod_mul in E by lia. cbn in E. rewrite andb_false_r in E. discriminate.
Qed.

(** at block shape (3,3) the general functions are the [expand]/[contract] of Model/Mill.v (what
    align_hessian calls): blockwise_expand(hess, (3, 3), False) on a (3 gr, 3 gc) array *)
Theorem expand_g_33 gr gc al (H : list K) : expand_g (3 * gr) (3 * gc) 3 3 al H = Ok (expand gr gc H).
Proof.
  unfold expand_g. rewrite (Nat.mul_comm 3 gr), (Nat.mul_comm 3 gc), !Nat.mod_mul, !Nat.div_mul by lia.
  cbn [Nat.eqb andb negb]. rewrite andb_false_r. f_equal. unfold expand, tab.
  replace (gr * gc * 3 * 3)%nat with (gr * gc * 9)%nat by lia.
  apply map_ext. intros k. Transparent unidx4g unidx4. unfold unidx4g, unidx4.
  replace (gc * 3 * 3)%nat with (9 * gc)%nat by lia.
  replace (3 * 3)%nat with 9%nat by reflexivity. f_equal. lia.
Qed.

Theorem contract_g_33 gr gc (B : list K) : contract_g gr gc 3 3 B = contract gr gc B.
Proof.
  unfold contract_g, contract, tab. replace (gr * 3 * (gc * 3))%nat with (3 * gr * (3 * gc))%nat by lia.
  apply map_ext. intros k. rewrite (Nat.mul_comm gc 3). reflexivity.
Qed.
End BWProofs.
