(** C09 — to_schema / from_schema index and units core: fragments made from separators cover every
    atom once and in order (so from_schema never has to reorder), separators are recovered, the
    exported geometry is the stored one times the molrec's own Bohr-per-unit factor, and QCSchema
    dtypes refuse any unit but Bohr. *)
From Coq Require Import Arith List QArith Bool Lia.
Require Import QV.Common.Outcome QV.Gen.ToSchemaGen QV.Model.SchemaMol.
Import ListNotations.
Local Open Scope nat_scope.

Lemma sorted_from_le : forall r s n, sorted_from s r n -> s <= n.
Proof. induction r as [|x r IH]; simpl; intros s n H; [assumption|]. destruct H. specialize (IH _ _ H0). lia. Qed.

Lemma pieces_concat : forall seps a n, sorted_from a seps n -> concat (pieces a seps n) = seq a (n - a).
Proof.
  induction seps as [|s r IH]; simpl; intros a n H.
  - rewrite Nat.min_id. rewrite app_nil_r. reflexivity.
  - destruct H as [H1 H2]. rewrite IH by assumption.
    assert (Hs := sorted_from_le _ _ _ H2).
    rewrite Nat.min_l by assumption.
    replace (n - a) with ((s - a) + (n - s)) by lia. rewrite seq_app. f_equal. f_equal. lia.
Qed.

Lemma pieces_cumsum : forall seps a n, sorted_from a seps n ->
    cumsum_from a (map (@List.length nat) (pieces a seps n)) = seps ++ [n].
Proof.
  induction seps as [|s r IH]; simpl; intros a n H.
  - rewrite seq_length, Nat.min_id. f_equal. lia.
  - destruct H as [H1 H2]. assert (Hs := sorted_from_le _ _ _ H2).
    rewrite seq_length, Nat.min_l by assumption. replace (a + (s - a)) with s by lia.
    rewrite IH by assumption. reflexivity.
Qed.

Lemma pieces_length : forall seps a n, List.length (pieces a seps n) = S (List.length seps).
Proof. induction seps; simpl; intros; [reflexivity|]. rewrite IHseps. reflexivity. Qed.

Theorem frags_cover : forall n seps, wf_seps n seps -> concat (frags_of_seps n seps) = seq 0 n.
Proof. intros n seps H. unfold frags_of_seps. rewrite pieces_concat by assumption. f_equal. lia. Qed.

Theorem seps_roundtrip : forall n seps, wf_seps n seps -> seps_of_frags (frags_of_seps n seps) = seps.
Proof.
  intros n seps H. unfold seps_of_frags, frags_of_seps. rewrite pieces_cumsum by assumption.
  apply removelast_last.
Qed.

Theorem frags_contiguous : forall n seps, wf_seps n seps -> contiguous (frags_of_seps n seps).
Proof. intros n seps H. unfold contiguous. rewrite frags_cover by assumption. rewrite seq_length. reflexivity. Qed.

Theorem frags_count : forall n seps, List.length (frags_of_seps n seps) = S (List.length seps).
Proof. intros. apply pieces_length. Qed.

Theorem geom_factor_spec : forall mu iu conv, mu <> OtherUnit ->
    geom_factor mu Bohr iu conv = bohr_per_unit mu iu conv.
Proof. intros mu iu conv H. destruct mu; [reflexivity| |congruence]. destruct iu; reflexivity. Qed.

Theorem guard_bohr_only : forall u, qcschema_units_guard u = Ok tt -> u = Bohr.
Proof. destruct u; simpl; intros H; [reflexivity|discriminate|discriminate]. Qed.

Theorem to_schema_core_ok : forall m u conv s, to_schema_core m u conv = Ok s ->
    u = Bohr /\ sc_frags s = frags_of_seps (mc_nat m) (mc_seps m) /\
    sc_geom s = map (fun x => (x * bohr_per_unit (mc_units m) (mc_iu2au m) conv)%Q) (mc_geom m) \/
    mc_units m = OtherUnit.
Proof.
  intros m u conv s H. unfold to_schema_core in H. destruct (qcschema_units_guard u) as [[]|k] eqn:G; [|discriminate].
  apply guard_bohr_only in G. subst u. inversion H; subst. simpl.
  destruct (mc_units m) eqn:E; [left|left|right; reflexivity]; repeat split; try reflexivity.
  destruct (mc_iu2au m); reflexivity.
Qed.

(** molrec -> schema -> molrec -> schema reproduces the schema core (geometry up to ==, because
    x * 1 is not syntactically x in Q) *)
Theorem core_roundtrip : forall m conv s, wf_seps (mc_nat m) (mc_seps m) -> to_schema_core m Bohr conv = Ok s ->
    let m' := from_schema_core s in
    mc_nat m' = mc_nat m /\ mc_seps m' = mc_seps m /\ mc_units m' = Bohr /\
    exists s', to_schema_core m' Bohr conv = Ok s' /\ sc_frags s' = sc_frags s /\
               Forall2 Qeq (sc_geom s') (sc_geom s).
Proof.
  intros m conv s Hwf H. unfold to_schema_core in H. simpl in H. inversion H; subst; clear H. simpl.
  rewrite frags_cover by assumption. rewrite seq_length.
  rewrite seps_roundtrip by assumption. repeat split.
  eexists. split; [reflexivity|]. simpl. rewrite frags_cover by assumption. rewrite seq_length.
  rewrite seps_roundtrip by assumption. split; [reflexivity|].
  match goal with |- Forall2 Qeq (map _ ?l0) ?l0 => generalize l0 end. intros g.
  induction g as [|x g IH]; simpl; constructor; [|exact IH].
  unfold geom_factor. simpl. ring.
Qed.
Lemma app_seq : forall (f g : list nat) a n, f ++ g = seq a n ->
   f = seq a (List.length f) /\ g = seq (a + List.length f) (n - List.length f) /\ List.length f <= n.
Proof.
  induction f as [|x f IH]; simpl; intros g a n H.
  - rewrite Nat.add_0_r, Nat.sub_0_r. repeat split; [assumption|lia].
  - destruct n as [|m]; simpl in H; [discriminate|]. injection H as Hx Hr. subst x.
    destruct (IH _ _ _ Hr) as [H1 [H2 H3]]. repeat split; [f_equal; exact H1| |lia].
    rewrite H2 at 1. f_equal; lia.
Qed.

Lemma removelast_cons : forall A (x : A) l, l <> [] -> removelast (x :: l) = x :: removelast l.
Proof. intros A x [|y l] H; [congruence|reflexivity]. Qed.

Lemma pieces_of_frags : forall frags a,
    frags <> [] -> concat frags = seq a (List.length (concat frags)) ->
    pieces a (removelast (cumsum_from a (map (@List.length nat) frags))) (a + List.length (concat frags)) = frags.
Proof.
  induction frags as [|f r IH]; intros a Hne H; [congruence|].
  destruct r as [|g r].
  - simpl in *. rewrite app_nil_r in *. rewrite Nat.min_id. replace (a + List.length f - a) with (List.length f) by lia.
    rewrite <- H. reflexivity.
  - assert (Hc : concat (f :: g :: r) = f ++ concat (g :: r)) by reflexivity.
    rewrite Hc in *. rewrite app_length in *.
    destruct (app_seq _ _ _ _ H) as [H1 [H2 H3]].
    replace (List.length f + List.length (concat (g :: r)) - List.length f) with (List.length (concat (g :: r))) in H2 by lia.
    change (map (@List.length nat) (f :: g :: r)) with (List.length f :: map (@List.length nat) (g :: r)).
    change (cumsum_from a (List.length f :: map (@List.length nat) (g :: r)))
      with ((a + List.length f) :: cumsum_from (a + List.length f) (map (@List.length nat) (g :: r))).
    assert (Hn : cumsum_from (a + List.length f) (map (@List.length nat) (g :: r)) <> []) by (simpl; discriminate).
    rewrite (removelast_cons _ _ _ Hn).
    cbn [pieces]. rewrite Nat.min_l by lia. replace (a + List.length f - a) with (List.length f) by lia.
    rewrite <- H1. f_equal.
    replace (a + (List.length f + List.length (concat (g :: r)))) with ((a + List.length f) + List.length (concat (g :: r))) by lia.
    apply IH; [discriminate|assumption].
Qed.

(** a contiguous fragment pattern (what from_schema accepts without reordering) survives
    from_schema -> to_schema unchanged *)
Theorem frags_roundtrip : forall frags, frags <> [] -> contiguous frags ->
    frags_of_seps (List.length (concat frags)) (seps_of_frags frags) = frags.
Proof. intros frags Hne H. unfold frags_of_seps, seps_of_frags. apply (pieces_of_frags frags 0 Hne H). Qed.
