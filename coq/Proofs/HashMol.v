(** C11 — molecule-level companions of the number-level float_prep theorems (noise, sign of zero, construction-time
    pre-rounding, edits of masses / charges), the bond listing at the level of validate_bonds (errors included), and
    sub-rounding noise through numpy's binary64 algorithm rint(fl(x * 10^n)). *)
From Coq Require Import ZArith QArith Qabs List String Ascii Bool Lia Lqa Permutation.
Require Import QV.Common.Outcome QV.Common.HFRound QV.Common.HFBin64 QV.Common.HFSort QV.Common.HFHash QV.Gen.HashConsts
               QV.Model.Hash QV.Proofs.Hash QV.Proofs.HashPrep.
Import ListNotations.
Open Scope Z_scope.

(** ---- rounding respects equality of rationals (a binary64 value has many fractions) ---- *)
Lemma rhe_scale a b c : 0 < b -> 0 < c -> rhe (a * c) (b * c) = rhe a b.
Proof.
  intros Hb Hc. unfold rhe.
  rewrite Z.div_mul_cancel_r by lia. rewrite Z.mul_mod_distr_r by lia.
  replace (2 * (a mod b * c)) with (2 * (a mod b) * c) by ring.
  rewrite <- (Zmult_compare_compat_r (2 * (a mod b)) b c) by lia. reflexivity.
Qed.

Lemma round_n_Qeq n q q' : (q == q')%Q -> round_n n q = round_n n q'.
Proof.
  intros E. unfold round_n. destruct q as [a b], q' as [a' b']. unfold Qeq in E. simpl in *.
  rewrite <- (rhe_scale (a * pow10 n) (Zpos b) (Zpos b')) by lia.
  rewrite <- (rhe_scale (a' * pow10 n) (Zpos b') (Zpos b)) by lia.
  f_equal; [|ring]. replace (a * pow10 n * Z.pos b') with (a * Z.pos b' * pow10 n) by ring. rewrite E. ring.
Qed.

Lemma prep_arr_Qeq n q q' : 0 <= n -> (q == q')%Q -> prep_arr n (FQ q) = prep_arr n (FQ q').
Proof. intros Hn E. rewrite !prep_arr_round by exact Hn. rewrite (round_n_Qeq n q q' E). reflexivity. Qed.

(** ---- the molecule with another geometry / other masses / charges ---- *)
Definition with_geometry (m : mol) (g : list fl) : mol :=
  {| symbols := symbols m; masses_ := masses_ m; mcharge := mcharge m; mmult := mmult m; real_ := real_ m;
     geometry := g; fragments_ := fragments_ m; fcharges_ := fcharges_ m; fmults_ := fmults_ m;
     connectivity_ := connectivity_ m; others := others m |}.
Definition with_connectivity (m : mol) (c : option (list bond)) : mol :=
  {| symbols := symbols m; masses_ := masses_ m; mcharge := mcharge m; mmult := mmult m; real_ := real_ m;
     geometry := geometry m; fragments_ := fragments_ m; fcharges_ := fcharges_ m; fmults_ := fmults_ m;
     connectivity_ := c; others := others m |}.

(** two stored numbers that the hash must not tell apart: the same value, zeros of either sign, values below half a
    rounding unit, or a value away from a rounding boundary and the same value with noise <= eps *)
Inductive same_after_noise (n : Z) (eps : Q) : fl -> fl -> Prop :=
| san_refl x : same_after_noise n eps x x
| san_noise a b : (Qabs (b - a) <= eps)%Q -> far_from_boundary n eps a -> same_after_noise n eps (FQ a) (FQ b)
| san_zero_l b : (Qabs (scaled n b) < 1 # 2)%Q -> same_after_noise n eps FNegZero (FQ b)
| san_zero_r a : (Qabs (scaled n a) < 1 # 2)%Q -> same_after_noise n eps (FQ a) FNegZero
| san_tiny a b : (Qabs (scaled n a) < 1 # 2)%Q -> (Qabs (scaled n b) < 1 # 2)%Q -> same_after_noise n eps (FQ a) (FQ b).

Lemma prep_arr_negzero n : prep_arr n FNegZero = 0.
Proof. reflexivity. Qed.

Lemma same_after_noise_prep n x y : 0 <= n -> same_after_noise n noise_eps x y -> prep_arr n x = prep_arr n y.
Proof.
  intros Hn H. destruct H as [x|a b D F|b T|a T|a b Ta Tb].
  - reflexivity.
  - destruct (prep_noise_insensitive n a (b - a) Hn D F) as [E _]. rewrite <- E.
    apply prep_arr_Qeq; [exact Hn|ring].
  - rewrite prep_arr_negzero. symmetry. apply prep_tiny_is_zero; assumption.
  - rewrite prep_arr_negzero. apply prep_tiny_is_zero; assumption.
  - destruct (prep_tiny_is_zero n a Hn Ta) as [-> _]. destruct (prep_tiny_is_zero n b Hn Tb) as [-> _]. reflexivity.
Qed.

Section Mol.
  Variable to_mass : string -> fl.

  (** sub-rounding noise and the sign of zero, on every coordinate at once: the hashed text does not change *)
  Theorem canon_noise_insensitive m g' :
    Forall2 (same_after_noise geometry_noise noise_eps) (geometry m) g' ->
    canon to_mass (with_geometry m g') = canon to_mass m.
  Proof.
    intros F. apply canon_complete. unfold agree, with_geometry, masses, real, fragments, fcharges, fmults, bonds_repr. simpl.
    repeat split; try reflexivity.
    induction F as [|x y l l' H F IH]; simpl; [reflexivity|]. rewrite IH. f_equal. symmetry.
    apply same_after_noise_prep; [discriminate|exact H].
  Qed.

  (** the constructor stores float_prep(geometry, 8); get_hash prepares it again: same text as for the raw input
      (construction from keyword arguments vs. re-validation of a stored molecule) *)
  Definition stored_geometry (m : mol) : list fl := map (fun x => of_units geometry_noise (prep_arr geometry_noise x)) (geometry m).
  Theorem canon_prerounding_invisible m : canon to_mass (with_geometry m (stored_geometry m)) = canon to_mass m.
  Proof.
    apply canon_complete. unfold agree, with_geometry, masses, real, fragments, fcharges, fmults, bonds_repr, stored_geometry. simpl.
    repeat split; try reflexivity.
    rewrite map_map. apply map_ext. intros x. apply prep_idempotent. discriminate.
  Qed.

  (** a mass, the total charge or a fragment charge changed by more than its rounding unit changes the text *)
  Theorem canon_sensitive_mass m m' pre post x y : wf m -> wf m' ->
    masses to_mass m = pre ++ FQ x :: post -> masses to_mass m' = pre ++ FQ y :: post ->
    (1 < Qabs (scaled mass_noise x - scaled mass_noise y))%Q ->
    below_flush mass_noise (round_n mass_noise x) = false \/ below_flush mass_noise (round_n mass_noise y) = false ->
    canon to_mass m <> canon to_mass m'.
  Proof.
    intros W W' G G' D Z. apply canon_sensitive; try assumption.
    intros (_ & H & _). rewrite G, G', !map_app in H. apply app_inv_head in H. simpl in H.
    injection H as H1. revert H1. apply prep_sensitive; [discriminate|exact D|exact Z].
  Qed.

  Theorem canon_sensitive_charge m m' x y : wf m -> wf m' ->
    mcharge m = FQ x -> mcharge m' = FQ y ->
    (1 < Qabs (scaled charge_noise x - scaled charge_noise y))%Q ->
    canon to_mass m <> canon to_mass m'.
  Proof.
    intros W W' G G' D. apply canon_sensitive; try assumption.
    intros (_ & _ & H & _). rewrite G, G' in H. revert H. apply prep_scalar_sensitive; [discriminate|exact D].
  Qed.

  Theorem canon_sensitive_fragment_charge m m' pre post x y : wf m -> wf m' ->
    fcharges m = pre ++ FQ x :: post -> fcharges m' = pre ++ FQ y :: post ->
    (1 < Qabs (scaled charge_noise x - scaled charge_noise y))%Q ->
    below_flush charge_noise (round_n charge_noise x) = false \/ below_flush charge_noise (round_n charge_noise y) = false ->
    canon to_mass m <> canon to_mass m'.
  Proof.
    intros W W' G G' D Z. apply canon_sensitive; try assumption.
    intros (_ & _ & _ & _ & _ & _ & _ & H & _). rewrite G, G', !map_app in H. apply app_inv_head in H. simpl in H.
    injection H as H1. revert H1. apply prep_sensitive; [discriminate|exact D|exact Z].
  Qed.
End Mol.

(** where the zero-flush zones of masses and charges end *)
Lemma outside_zone_gen n (c : Z) x : 0 <= n -> 0 < c ->
  flush_num * 10 ^ n <= c * flush_base ^ (n + 1) ->
  (inject_Z c + (1 # 2) <= Qabs (scaled n x))%Q -> below_flush n (round_n n x) = false.
Proof.
  intros Hn Hc Hz H. pose proof (round_n_bounds n x Hn) as [B1 B2]. set (k := round_n n x) in *.
  unfold below_flush. apply Z.ltb_ge.
  assert (K : c <= Z.abs k).
  { revert H. apply Qabs_case; intros Hx H.
    - assert (L : (inject_Z c <= inject_Z k)%Q) by (set (K := inject_Z k) in *; set (C := inject_Z c) in *; lra).
      rewrite <- Zle_Qle in L. lia.
    - assert (L : (inject_Z k <= - inject_Z c)%Q) by (set (K := inject_Z k) in *; set (C := inject_Z c) in *; lra).
      rewrite <- inject_Z_opp, <- Zle_Qle in L. lia. }
  assert (P : 0 < flush_base ^ (n + 1)) by (apply Z.pow_pos_nonneg; [reflexivity|lia]).
  nia.
Qed.

(** every mass of at least 2e-5 u and every fragment charge of at least 5e-4 is outside the zone *)
Lemma outside_zone_mass x : (2 # 100000 <= Qabs x)%Q -> below_flush mass_noise (round_n mass_noise x) = false.
Proof.
  intros H. apply (outside_zone_gen mass_noise 13 x); [discriminate|reflexivity|apply Z.leb_le; vm_compute; reflexivity|].
  unfold scaled. rewrite Qabs_Qmult. change (Qabs (inject_Z (pow10 mass_noise))) with (1000000 # 1)%Q.
  change (inject_Z 13) with (13 # 1)%Q. lra.
Qed.
Lemma outside_zone_charge x : (5 # 10000 <= Qabs x)%Q -> below_flush charge_noise (round_n charge_noise x) = false.
Proof.
  intros H. apply (outside_zone_gen charge_noise 4 x); [discriminate|reflexivity|apply Z.leb_le; vm_compute; reflexivity|].
  unfold scaled. rewrite Qabs_Qmult. change (Qabs (inject_Z (pow10 charge_noise))) with (10000 # 1)%Q.
  change (inject_Z 4) with (4 # 1)%Q. lra.
Qed.

(** ---- bond listing at the level of the validator: the outcome (stored list or ValidationError) does not depend on the
    order or the orientation in which the bonds are listed ---- *)
Lemma bond_ok_flip b : bond_ok (flip_bond b) = bond_ok b.
Proof. destruct b as [[a1 a2] o]. simpl. rewrite (andb_comm (0 <=? a2)). reflexivity. Qed.

Lemma forallb_bond_ok_flip_by bs : forall l, forallb bond_ok (flip_by bs l) = forallb bond_ok l.
Proof.
  induction bs as [|[|] bs IH]; intros [|b l]; simpl; try reflexivity; rewrite IH; [rewrite bond_ok_flip|]; reflexivity.
Qed.

Lemma forallb_perm {A} (f : A -> bool) l l' : Permutation l l' -> forallb f l = forallb f l'.
Proof.
  induction 1; simpl; try congruence.
  - destruct (f y), (f x); reflexivity.
Qed.

Theorem validate_bonds_listing_invariant l l' bs : Permutation l (flip_by bs l') -> validate_bonds l = validate_bonds l'.
Proof.
  intros P. unfold validate_bonds.
  rewrite (forallb_perm bond_ok _ _ P), forallb_bond_ok_flip_by, (bond_order_invariant l l' bs P). reflexivity.
Qed.

(** ... and so does the hashed text of the molecule that stores the validated list *)
Theorem canon_bond_listing_invariant to_mass m l l' bs s s' : Permutation l (flip_by bs l') ->
  validate_bonds l = Ok s -> validate_bonds l' = Ok s' ->
  canon to_mass (with_connectivity m (Some s)) = canon to_mass (with_connectivity m (Some s')).
Proof.
  intros P E E'. rewrite (validate_bonds_listing_invariant l l' bs P) in E. congruence.
Qed.

(** ---- sub-rounding noise through numpy's binary64 algorithm ----
    For every rounding [fl] of the product x·10^n that is monotone, leaves half-integers up to B alone and errs by at most
    u on [-B, B] (binary64 round-to-nearest: B = 2^40, u = 2^-14 — facts of IEEE-754, hypotheses here as in
    np_around_exact): a value away from every rounding boundary by eps + u·10^-n and the same value with noise <= eps are
    rounded alike by numpy's rint(fl(x·10^n)), namely to the exact half-even rounding of the value. *)
Section Noise64.
  Variable fl : Q -> Q.
  Variable B : Z.
  Variable u : Q.
  Hypothesis fl_mono : forall a b, (a <= b)%Q -> (fl a <= fl b)%Q.
  Hypothesis fl_half : forall j : Z, Z.abs j <= B -> (fl (inject_Z j + (1 # 2)) == inject_Z j + (1 # 2))%Q.
  Hypothesis fl_err : forall s, (Qabs s <= inject_Z B)%Q -> (Qabs (fl s - s) <= u)%Q.

  Lemma not_half_when_far s : (Qabs s <= inject_Z B)%Q ->
    (forall j : Z, (u < Qabs (s - (inject_Z j + (1 # 2))))%Q) -> ~ is_half (fl s).
  Proof.
    intros Hs Far [j Hj]. specialize (Far j). pose proof (fl_err s Hs) as E. rewrite Hj in E.
    assert (X : (Qabs (inject_Z j + (1 # 2) - s) == Qabs (s - (inject_Z j + (1 # 2))))%Q).
    { rewrite <- Qabs_opp. apply Qabs_wd. ring. }
    rewrite X in E. lra.
  Qed.

  Variable n : Z.
  Hypothesis n_nonneg : 0 <= n.

  Lemma P_pos : (0 < inject_Z (pow10 n))%Q.
  Proof. change 0%Q with (inject_Z 0). rewrite <- Zlt_Qlt. apply pow10_pos. exact n_nonneg. Qed.

  Lemma far_weaken eps eps' x : (eps <= eps')%Q -> far_from_boundary n eps' x -> far_from_boundary n eps x.
  Proof.
    intros L F j. specialize (F j). pose proof P_pos as PP.
    assert ((eps * inject_Z (pow10 n) <= eps' * inject_Z (pow10 n))%Q) by (apply Qmult_le_compat_r; [exact L|apply Qlt_le_weak; exact PP]).
    lra.
  Qed.

  Theorem np_around_noise_insensitive x d eps :
    (0 <= eps)%Q -> (0 <= u)%Q -> (Qabs d <= eps)%Q ->
    far_from_boundary n (eps + u / inject_Z (pow10 n)) x ->
    (Qabs (x * inject_Z (pow10 n)) <= inject_Z (B - 2))%Q -> (Qabs ((x + d) * inject_Z (pow10 n)) <= inject_Z (B - 2))%Q ->
    rint (fl ((x + d) * inject_Z (pow10 n))) = round_n n x /\ rint (fl (x * inject_Z (pow10 n))) = round_n n x.
  Proof.
    intros He Hu Hd Far Hx Hxd. pose proof P_pos as PP. set (P := inject_Z (pow10 n)) in *.
    assert (LB : (inject_Z (B - 2) <= inject_Z B)%Q) by (rewrite <- Zle_Qle; lia).
    assert (EP : ((eps + u / P) * P == eps * P + u)%Q) by (field; intros X; rewrite X in PP; inversion PP).
    assert (Far0 : far_from_boundary n eps x).
    { apply (far_weaken eps (eps + u / P)); [|exact Far].
      assert ((0 <= u / P)%Q) by (apply Qle_shift_div_l; [exact PP|lra]). lra. }
    split.
    - rewrite (rint_fl_exact fl B fl_mono fl_half _ Hxd).
      + subst P. rewrite rint_scaled. apply (round_n_noise n eps x d n_nonneg Hd Far0).
      + apply not_half_when_far; [lra|]. intros j. specialize (Far j). unfold scaled in Far. fold P in Far. rewrite EP in Far.
        assert (DP : (Qabs (d * P) <= eps * P)%Q).
        { rewrite Qabs_Qmult, (Qabs_pos P) by (apply Qlt_le_weak; exact PP).
          apply Qmult_le_compat_r; [exact Hd|apply Qlt_le_weak; exact PP]. }
        assert (S : ((x + d) * P - (inject_Z j + (1 # 2)) == (x * P - (inject_Z j + (1 # 2))) + d * P)%Q) by ring.
        rewrite S. set (A := (x * P - (inject_Z j + (1 # 2)))%Q) in *. set (D := (d * P)%Q) in *.
        apply Qabs_Qle_condition in DP. destruct DP as [D1 D2].
        revert Far. apply Qabs_case; intros HA Far; apply Qabs_case; intros HB; lra.
    - rewrite (rint_fl_exact fl B fl_mono fl_half _ Hx).
      + apply rint_scaled.
      + apply not_half_when_far; [lra|]. intros j. specialize (Far j). unfold scaled in Far. fold P in Far. rewrite EP in Far.
        assert ((0 <= eps * P)%Q) by (apply Qmult_le_0_compat; [exact He|apply Qlt_le_weak; exact PP]). lra.
  Qed.
End Noise64.
