(** C17: the generated glue (Gen/RadiiGlue.v, translated from covalent_radii.py / vanderwaals_radii.py / datum.py on every run)
    IS the hand-written model (Model/Radii.v), for ALL tables, identifiers, fallbacks, return forms and unit factors. *)
From Coq Require Import ZArith QArith List String Bool.
Require Import QV.Common.Outcome QV.Common.PyAscii.
Require Import QV.Gen.PTable QV.Gen.Radii QV.Model.PeriodicTable QV.Model.PeriodicTableGlue QV.Model.Radii QV.Model.RadiiGlue QV.Gen.RadiiGlue.
Require Import QV.Proofs.PeriodicTable QV.Proofs.Radii.
Import ListNotations.

Opaque pt_Z pt_E pt_name pt_EE pt_EA pt_A pt_mass pt_mass_str.

Ltac get_cases t missing rt :=
  unfold get, ident, omap, try_else, py_in_tbl, py_tbl_item, py_to_units;
  match goal with
  | |- context [PInt ?z] => idtac
  | |- context [tbl_mem t ?s] => destruct (tbl_mem t s)
  end;
  cbn [obind];
  try match goal with |- context [to_E ?x false] => destruct (to_E x false) as [?e|?k]; cbn [obind]; [|reflexivity] end;
  cbn [obind py_assert_str];
  match goal with |- context [tbl_get t ?k] =>
    let en := fresh "en" in
    destruct (tbl_get t k) as [en|];
    cbn [getk kind_in existsb ekind_eqb orb obind];
    destruct missing, rt; cbn [is_some Bool.eqb andb orb negb embed obind]; try reflexivity;
    destruct (en_data en); reflexivity
  end.

Lemma g_cov_get_eq {M} t x (missing : option M) rt f :
  g_cov_get t x missing rt f = omap embed (get t x missing rt f).
Proof. unfold g_cov_get. destruct x as [z|s]; get_cases t missing rt. Qed.

Lemma g_vdw_get_eq {M} t x (missing : option M) rt f :
  g_vdw_get t x missing rt f = omap embed (get t x missing rt f).
Proof. unfold g_vdw_get. destruct x as [z|s]; get_cases t missing rt. Qed.

(** Datum.to_units as translated: conversion_factor(own unit, requested unit or own unit) times the payload, for a
    Decimal payload and for any other payload alike *)
Lemma g_datum_to_units_eq cf du data isdec units :
  g_datum_to_units cf du data isdec units =
  datum_to_units (cf du (match units with None => du | Some u => u end)) data.
Proof. unfold g_datum_to_units, datum_to_units. destruct isdec; reflexivity. Qed.

Lemma g_defaults_bohr : g_cov_units_default = "bohr"%string /\ g_vdw_units_default = "bohr"%string.
Proof. split; reflexivity. Qed.

(* ------------------------------------------------------------------------------------------ *)
(** * clauses of the property on the generated entry points *)

(** the missing-data contract of the translated get, both classes, any table *)
Lemma g_missing_contract {M} t x (missing : option M) rt f :
  match ident t x with
  | Err k => k = NotAnElement /\ g_cov_get t x missing rt f = Err NotAnElement /\ g_vdw_get t x missing rt f = Err NotAnElement
  | Ok id =>
      match tbl_get t id with
      | None => g_cov_get t x missing rt f =
                  match missing, rt with Some m, false => Ok (GMissing (Some m)) | _, _ => Err DataUnavailable end /\
                g_vdw_get t x missing rt f =
                  match missing, rt with Some m, false => Ok (GMissing (Some m)) | _, _ => Err DataUnavailable end
      | Some e => forall g, g = g_cov_get t x missing rt f \/ g = g_vdw_get t x missing rt f ->
                  (forall o, g <> Ok (GMissing o)) /\ g <> Err DataUnavailable /\ g <> Err NotAnElement
      end
  end.
Proof.
  pose proof (missing_contract t x missing rt f) as C.
  rewrite g_cov_get_eq, g_vdw_get_eq.
  destruct (ident t x) as [id|k].
  - destruct (tbl_get t id) as [e|].
    + destruct C as [C1 [C2 C3]]. intros g [-> | ->];
        (destruct (get t x missing rt f) as [[en|m|v]|k']; cbn [omap obind embed];
         repeat split; try intro o; try discriminate; try congruence;
         exfalso; eapply C1; reflexivity).
    + rewrite C. destruct missing, rt; split; reflexivity.
  - destruct C as [-> C]. rewrite C. repeat split; reflexivity.
Qed.
