(** C09 — the whole-record round trip for a molrec stored in Angstrom: the exported (Bohr) geometry is the stored one times the
    Bohr-per-Angstrom factor f >= 1, from_schema accepts it and returns the same molrec expressed in Bohr. *)
From Coq Require Import ZArith List Bool String QArith Lia Lqa.
Require Import QV.Common.Outcome QV.Model.Nucleus QV.Model.ChgMult QV.Model.MolRec QV.Proofs.Nucleus QV.Proofs.MolRec
               QV.Gen.ToSchemaGen QV.Gen.SchemaKeys QV.Model.SchemaTrans QV.Proofs.SchemaTrans.
Import ListNotations.
Open Scope list_scope.
Open Scope Z_scope.

Definition scale3 (f : Q) (p : Q * Q * Q) : Q * Q * Q := let '(x, y, z) := p in ((x * f)%Q, (y * f)%Q, (z * f)%Q).

Lemma flatten3_scale f pts : flatten3 (map (scale3 f) pts) = map (fun x => (x * f)%Q) (flatten3 pts).
Proof.
  induction pts as [|[[x y] z] pts IH]; [reflexivity|].
  change (flatten3 (map (scale3 f) ((x, y, z) :: pts))) with ((x * f)%Q :: (y * f)%Q :: (z * f)%Q :: flatten3 (map (scale3 f) pts)).
  change (flatten3 ((x, y, z) :: pts)) with (x :: y :: z :: flatten3 pts). simpl map. rewrite IH. reflexivity.
Qed.

Lemma dist2_scale f p q : (1 <= f)%Q -> forall metric, (metric <= dist2 p q)%Q -> (metric <= dist2 (scale3 f p) (scale3 f q))%Q.
Proof.
  destruct p as [[x1 y1] z1], q as [[x2 y2] z2]. unfold dist2, scale3. intros Hf metric H.
  set (a := (x1 - x2)%Q) in *. set (b := (y1 - y2)%Q) in *. set (c := (z1 - z2)%Q) in *.
  assert (E : ((x1 * f - x2 * f) * (x1 * f - x2 * f) + (y1 * f - y2 * f) * (y1 * f - y2 * f) + (z1 * f - z2 * f) * (z1 * f - z2 * f)
               == f * f * (a * a + b * b + c * c))%Q) by (unfold a, b, c; ring).
  rewrite E. 
  assert (N : (0 <= a * a + b * b + c * c)%Q) by nra.
  assert (F : (1 <= f * f)%Q) by nra.
  nra.
Qed.

Lemma too_close_scale f metric pts : (1 <= f)%Q -> too_close metric pts = false -> too_close metric (map (scale3 f) pts) = false.
Proof.
  intros Hf H. apply too_close_false in H. destruct (too_close metric (map (scale3 f) pts)) eqn:E; [|reflexivity].
  exfalso. apply too_close_true in E. destruct E as (i & j & p' & q' & Hij & Hp & Hq & Hlt).
  rewrite nth_error_map in Hp, Hq.
  destruct (nth_error pts i) as [p|] eqn:Ep; [|discriminate]. destruct (nth_error pts j) as [q|] eqn:Eq; [|discriminate].
  injection Hp as <-. injection Hq as <-.
  pose proof (dist2_scale f p q Hf metric (H i j p q Hij Ep Eq)) as Hge.
  apply Qlt_not_le in Hlt. contradiction.
Qed.

Lemma triples_scale f : forall n g pts, (List.length g <= n)%nat -> triples g = Ok pts ->
  triples (map (fun x => (x * f)%Q) g) = Ok (map (scale3 f) pts).
Proof.
  induction n as [|n IH]; intros g pts L H.
  - destruct g; [injection H as <-; reflexivity|simpl in L; lia].
  - destruct g as [|x [|y [|z r]]]; try discriminate; [injection H as <-; reflexivity|].
    simpl in H. apply obind_ok in H. destruct H as [t [Ht H]]. injection H as <-.
    simpl. rewrite (IH r t); [reflexivity|simpl in L; lia|exact Ht].
Qed.

(** the raw record from_schema hands to from_arrays, with the geometry as exported *)
Definition as_schema_raw_g (np : bool) (m : molrec) (g : list Q) : raw :=
  {| r_geom := g; r_elea := Some (map Some (m_elea m)); r_elez := Some (map Some (m_elez m));
     r_elem := Some (map Some (m_elem m)); r_mass := Some (map Some (m_mass m)); r_real := Some (map Some (m_real m));
     r_elbl := Some (map Some (m_elbl m)); r_units := "Bohr"; r_iutau := None;
     r_fix_com := Some (m_fix_com m); r_fix_orientation := Some (m_fix_orientation m); r_fix_symmetry := m_fix_symmetry m;
     r_seps := Some (m_seps m); r_fchg := Some (map Some (m_fchg m)); r_fmult := Some (map Some (m_fmult m));
     r_chg := Some (m_chg m); r_mult := Some (m_mult m); r_conn := m_conn m;
     r_speclabel := false; r_tooclose := fa_default_tooclose; r_zgf := fa_default_zero_ghost_fragments;
     r_nonphysical := np; r_mtol := fa_default_mtol;
     r_minimal := String.eqb fa_default_missing_enabled_return "minimal" |}.

(** the molrec expressed in Bohr *)
Definition in_bohr (f : Q) (m : molrec) : molrec :=
  {| m_units := "Bohr"; m_iutau := None; m_geom := map (fun x => (x * f)%Q) (m_geom m); m_elea := m_elea m; m_elez := m_elez m;
     m_elem := m_elem m; m_mass := m_mass m; m_real := m_real m; m_elbl := m_elbl m; m_seps := m_seps m; m_fchg := m_fchg m;
     m_fmult := m_fmult m; m_chg := m_chg m; m_mult := m_mult m; m_fix_com := m_fix_com m; m_fix_orientation := m_fix_orientation m;
     m_fix_symmetry := m_fix_symmetry m; m_conn := m_conn m |}.

Lemma from_arrays_rescaled r m m' f :
  schema_settings r -> m_units m = "Angstrom"%string -> m_geom m <> [] -> (1 <= f)%Q ->
  from_arrays (as_raw r m) = Ok m' ->
  from_arrays (as_schema_raw_g (r_nonphysical r) m (map (fun x => (x * f)%Q) (m_geom m))) = Ok (in_bohr f m').
Proof.
  intros [St [Sz Sm]] Hu Hg Hf H.
  destruct (from_arrays_stages _ _ H) as (pts & ros & frc & frm & cm & Stg).
  pose proof (st_rec _ _ _ _ _ _ _ Stg) as Em.
  destruct (frame_stage (as_raw r m)) as [[com ori] sym] eqn:Ef.
  pose proof (st_geom _ _ _ _ _ _ _ Stg) as G. unfold geometry_stage in G. unfold as_raw in G. cbn [r_geom r_tooclose] in G.
  apply obind_ok in G. destruct G as [pts0 [Ht G]].
  destruct (too_close _ pts0) eqn:Etc; [discriminate|]. injection G as ->.
  assert (Eg : m_geom m' = m_geom m).
  { rewrite Em. cbn [m_geom]. apply triples_flatten, Ht. }
  assert (Eout : in_bohr f m' = {| m_units := "Bohr"; m_iutau := None; m_geom := flatten3 (map (scale3 f) pts);
        m_elea := map oA ros; m_elez := map oZ ros; m_elem := map oE ros; m_mass := map omass ros;
        m_real := map oreal ros; m_elbl := map ouser ros;
        m_seps := m_seps m'; m_fchg := ofc cm; m_fmult := ofm cm; m_chg := oc cm; m_mult := om cm;
        m_fix_com := com; m_fix_orientation := ori; m_fix_symmetry := sym; m_conn := m_conn m' |}).
  { unfold in_bohr. rewrite flatten3_scale. rewrite Em at 1.
    cbn [m_geom m_elea m_elez m_elem m_mass m_real m_elbl m_seps m_fchg m_fmult m_chg m_mult m_fix_com m_fix_orientation m_fix_symmetry m_conn fst snd].
    f_equal; rewrite Em; reflexivity. }
  rewrite Eout.
  assert (Lp : List.length (map (scale3 f) pts) = List.length pts) by apply map_length.
  apply (from_arrays_intro _ "Bohr"%string None (m_conn m') (map (scale3 f) pts) ros (m_seps m') frc frm cm com ori sym).
  - unfold as_schema_raw_g; cbn [r_geom]. destruct (m_geom m); [congruence|reflexivity].
  - pose proof (st_units _ _ _ _ _ _ _ Stg) as U. unfold units_stage in *. unfold as_raw in U. unfold as_schema_raw_g.
    cbn [r_conn r_units r_iutau] in *. rewrite Hu in U.
    destruct (match m_conn m with None => Ok None | Some l => obind (mapM conn_entry l) (fun c => Ok (Some (sort_by conn_leb c))) end)
      as [conn|k]; [|discriminate]. cbn [obind] in *.
    change (capitalize "Bohr") with "Bohr"%string. change (capitalize "Angstrom") with "Angstrom"%string in U.
    cbn [String.eqb Ascii.eqb Bool.eqb orb] in *.
    destruct (m_iutau m) as [x|].
    + destruct (Qlt_b _ _); [|discriminate]. injection U as U1 U2 U3. rewrite <- U3. reflexivity.
    + injection U as U1 U2 U3. rewrite <- U3. reflexivity.
  - unfold geometry_stage, as_schema_raw_g. cbn [r_geom r_tooclose].
    rewrite (triples_scale f _ (m_geom m) pts (le_n _) Ht). cbn [obind].
    rewrite St in Etc. rewrite (too_close_scale f _ pts Hf Etc). reflexivity.
  - rewrite Lp. pose proof (st_nuc _ _ _ _ _ _ _ Stg) as N. unfold nuclei_stage in *. unfold as_raw in N. unfold as_schema_raw_g.
    cbn [r_elea r_elez r_elem r_mass r_real r_elbl r_speclabel r_nonphysical r_mtol] in *. rewrite Sm in N. exact N.
  - rewrite Lp. pose proof (st_frag _ _ _ _ _ _ _ Stg) as F. unfold fragments_stage in *. unfold as_raw in F. unfold as_schema_raw_g.
    cbn [r_seps r_fchg r_fmult] in *.
    assert (Es : m_seps m' = m_seps m).
    { destruct (fragments_stage_ok (as_raw r m) _ _ _ _ (st_frag _ _ _ _ _ _ _ Stg)) as (_ & _ & _ & _ & Hs). apply Hs. reflexivity. }
    rewrite Es in F. rewrite Es. exact F.
  - pose proof (st_cm _ _ _ _ _ _ _ Stg) as C. unfold cm_input in *. unfold as_raw in C. unfold as_schema_raw_g.
    cbn [r_chg r_mult r_zgf] in *. rewrite Sz in C. exact C.
  - unfold frame_stage in *. unfold as_raw in Ef. unfold as_schema_raw_g. cbn [r_fix_com r_fix_orientation r_fix_symmetry] in *. exact Ef.
Qed.

Definition bohr_factor (m : molrec) (conv : Q) : Q := match m_iutau m with Some x => x | None => conv end.

Lemma export_geometry_angstrom m conv : m_units m = "Angstrom"%string ->
  geom_scale (lunit_of (m_units m)) Bohr (m_iutau m) conv (m_geom m) = map (fun x => (x * bohr_factor m conv)%Q) (m_geom m).
Proof. intro Hu. rewrite Hu. unfold bohr_factor. destruct (m_iutau m); reflexivity. Qed.

Lemma equiv_in_bohr f a b : molrec_equiv a b -> molrec_equiv (in_bohr f a) (in_bohr f b).
Proof. intros [? ? ? ? ? ? ? ? ? ? ? ? ? ? ? ? ? ?]. constructor; cbn; auto. congruence. Qed.

Lemma from_schema_of_export_g np m conv n g :
  geom_scale (lunit_of (m_units m)) Bohr (m_iutau m) conv (m_geom m) = g ->
  List.length g = (3 * n)%nat -> n <> 0%nat ->
  List.length (m_elea m) = n -> List.length (m_elez m) = n -> List.length (m_elem m) = n -> List.length (m_mass m) = n ->
  List.length (m_real m) = n -> List.length (m_elbl m) = n ->
  Forall (fun s => 0 <= s) (m_seps m) -> Forall (fun p => p <> []) (np_split (arange n) (m_seps m)) ->
  forall d, (d = {| d_name := Some "qcschema_input"%string; d_version := Some 1; d_top := no_mol; d_nested := Some (export_mol m Bohr conv) |} \/
             d = {| d_name := Some "qcschema_molecule"%string; d_version := Some 2; d_top := export_mol m Bohr conv; d_nested := None |}) ->
  from_schema_full np d = from_arrays (as_schema_raw_g np m g).
Proof.
  intros Eg Lg Hn L1 L2 L3 L4 L5 L6 Hnn Hne d Hd.
  assert (Sel : select_mol d = Ok (export_mol m Bohr conv)) by (destruct Hd as [-> | ->]; [apply select_v1|apply select_v2]).
  unfold from_schema_full. rewrite Sel. cbn [obind].
  unfold export_mol. rewrite Eg.
  cbn [s_fragments s_geometry s_symbols req obind s_mass_numbers s_atomic_numbers s_masses s_real s_atom_labels s_fix_com
       s_fix_orientation s_fix_symmetry s_fragment_charges s_fragment_multiplicities s_molecular_charge s_molecular_multiplicity
       s_connectivity somes option_map].
  assert (En : (List.length g / 3)%nat = n) by (rewrite Lg; replace (3 * n)%nat with (n * 3)%nat by lia; apply Nat.div_mul; lia).
  rewrite En.
  rewrite (contiguize_export n (m_seps m) _ g (m_elem m) Hn Hnn Hne Lg);
    try (cbn [len_is s_mass_numbers s_atomic_numbers s_masses s_real s_atom_labels]; apply Z.eqb_eq; congruence).
  reflexivity.
Qed.

Theorem schema_roundtrip_angstrom r m dtype conv :
  from_arrays r = Ok m -> schema_settings r -> m_units m = "Angstrom"%string -> m_geom m <> [] ->
  Forall (fun s => 0 <= s) (m_seps m) -> dtype = 1 \/ dtype = 2 -> (1 <= bohr_factor m conv)%Q ->
  exists d m', to_schema_full m dtype Bohr conv = Ok d /\ from_schema_full (r_nonphysical r) d = Ok m' /\
               molrec_equiv m' (in_bohr (bohr_factor m conv) m).
Proof.
  intros H Hset Hu Hg Hnn Hd Hf.
  destruct (accepted_invariants _ _ H) as (pts & ros & ats & W).
  destruct (wf_geom _ _ _ _ _ W) as (_ & _ & Lg).
  destruct (wf_cols _ _ _ _ _ W) as (C1 & C2 & C3 & C4 & C5 & C6 & Lr).
  destruct (wf_frag _ _ _ _ _ W) as (_ & Hne).
  assert (Hn : List.length pts <> 0%nat) by (intro E; rewrite E in Lg; destruct (m_geom m); [congruence|discriminate]).
  specialize (Hne Hn).
  assert (Hne' : Forall (fun p => p <> []) (np_split (arange (List.length pts)) (m_seps m))).
  { apply (split_nonempty_transfer (seq 0 (List.length pts))); [|exact Hne]. rewrite arange_length, seq_length. reflexivity. }
  destruct Hset as [St [Sz Sm]].
  assert (T0 : (0 <= r_mtol r)%Q) by (rewrite Sm; vm_compute; discriminate).
  assert (T4 : (r_mtol r <= 1 # 4)%Q) by (rewrite Sm; vm_compute; discriminate).
  destruct (idempotent _ _ H T0 T4) as (m0 & H0 & Q0).
  pose proof (from_arrays_rescaled r m m0 _ (conj St (conj Sz Sm)) Hu Hg Hf H0) as H1.
  set (mol := export_mol m Bohr conv).
  exists (if dtype =? 1 then {| d_name := Some "qcschema_input"%string; d_version := Some 1; d_top := no_mol; d_nested := Some mol |}
          else {| d_name := Some "qcschema_molecule"%string; d_version := Some 2; d_top := mol; d_nested := None |}).
  exists (in_bohr (bohr_factor m conv) m0). split; [|split].
  - destruct Hd as [-> | ->]; reflexivity.
  - rewrite (from_schema_of_export_g (r_nonphysical r) m conv (List.length pts) _ (export_geometry_angstrom m conv Hu));
      try assumption; try (rewrite ?C1, ?C2, ?C3, ?C4, ?C5, ?C6, map_length; exact Lr).
    + rewrite map_length. exact Lg.
    + destruct Hd as [-> | ->]; [left|right]; reflexivity.
  - apply equiv_in_bohr, Q0.
Qed.
