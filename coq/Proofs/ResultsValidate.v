(** C20 — re-validating an accepted WavefunctionProperties dictionary changes nothing
    (shape validators + pointer existence check, fields in declaration order). *)
From Coq Require Import ZArith List String Bool Lia.
Require Import QV.Common.Outcome QV.Gen.KeepLists QV.Model.Results QV.Proofs.Results.
Import ListNotations.
Local Open Scope string_scope.
Local Open Scope list_scope.
Local Open Scope Z_scope.

Definition run (fields : list (string * fkind)) (w : wdict) (st : wdict * bool) : wdict * bool :=
  fold_left (wfn_field w) fields st.

Lemma dget_app_single (vals : wdict) k n v :
  dget k (vals ++ [(n, v)]) = match dget k vals with Some x => Some x | None => if String.eqb k n then Some v else None end.
Proof.
  induction vals as [|[k' v'] r IH]; simpl; [reflexivity|]. destruct (String.eqb k k'); [reflexivity|exact IH].
Qed.

(** a step either leaves the values alone or appends one entry under the field's own name *)
Lemma wfn_field_shape w vals bad f :
  exists b', (wfn_field w (vals, bad) f = (vals, b') \/ exists v, wfn_field w (vals, bad) f = (vals ++ [(fst f, v)], b'))
             /\ (bad = true -> b' = true).
Proof.
  destruct f as [name kind]. unfold wfn_field. simpl fst.
  destruct (dget name w) as [v|].
  - destruct kind as [| |[t|] decl|]; destruct v as [|b|n|s|a];
      try (exists true; split; [left; reflexivity|reflexivity]);
      try (exists bad; split; [right; eexists; reflexivity|auto]).
    + (* FArr (Some t), WArr *)
      destruct (if uses_nbf t then dget "basis" vals else Some (WBasis 0)) as [[| | nbf | |]|];
        try (exists bad; split; [right; eexists; reflexivity|auto]).
      destruct (reshape a (inst nbf 0 t)); [exists bad; split; [right; eexists; reflexivity|auto]|exists true; split; [left; reflexivity|reflexivity]].
    + (* FPtr, WStr *) destruct (dget s vals) as [[]|];
        try (exists true; split; [left; reflexivity|reflexivity]); exists bad; (split; [right; eexists; reflexivity|auto]).
  - destruct kind; try (exists true; split; [left; reflexivity|reflexivity]); exists bad; (split; [left; reflexivity|auto]).
Qed.

Lemma run_bad_sticky fields w vals : snd (run fields w (vals, true)) = true.
Proof.
  revert vals. induction fields as [|f r IH]; intro vals; [reflexivity|].
  unfold run in *. cbn [fold_left].
  destruct (wfn_field_shape w vals true f) as [b' [[E|[v E]] Hb]]; rewrite E, (Hb eq_refl); apply IH.
Qed.

Fixpoint nodupb (l : list string) : bool :=
  match l with [] => true | x :: r => negb (smem x r) && nodupb r end.

(** entries are only appended, under names of the remaining fields *)
Lemma run_dget_other fields w : forall vals b final b',
  run fields w (vals, b) = (final, b') -> forall k, smem k (keys fields) = false -> dget k final = dget k vals.
Proof.
  induction fields as [|f r IH]; intros vals b final b' H k Hk.
  - inversion H; reflexivity.
  - unfold keys in Hk. cbn [map smem existsb] in Hk. apply orb_false_iff in Hk. destruct Hk as [Hk1 Hk2].
    unfold run in H. cbn [fold_left] in H.
    destruct (wfn_field_shape w vals b f) as [b1 [[E|[v E]] _]]; rewrite E in H.
    + apply (IH _ _ _ _ H k Hk2).
    + rewrite (IH _ _ _ _ H k Hk2). rewrite dget_app_single. destruct (dget k vals); [reflexivity|].
      rewrite Hk1. reflexivity.
Qed.

Lemma run_keys fields w : forall vals b final b',
  run fields w (vals, b) = (final, b') -> forall k, In k (keys final) -> In k (keys vals) \/ In k (keys fields).
Proof.
  induction fields as [|f r IH]; intros vals b final b' H k Hk.
  - inversion H; subst. left; exact Hk.
  - unfold run in H. cbn [fold_left] in H.
    destruct (wfn_field_shape w vals b f) as [b1 [[E|[v E]] _]]; rewrite E in H.
    + destruct (IH _ _ _ _ H k Hk) as [Hin|Hin]; [left; exact Hin|right; right; exact Hin].
    + destruct (IH _ _ _ _ H k Hk) as [Hin|Hin]; [|right; right; exact Hin].
      unfold keys in Hin. rewrite map_app in Hin. apply in_app_or in Hin. destruct Hin as [Hin|[<-|[]]]; [left; exact Hin|].
      right. left. reflexivity.
Qed.

(** the second run, on any dictionary that agrees with the first result on the field names, repeats the first *)
Lemma two_runs w W : forall fields vals final,
  run fields w (vals, false) = (final, false) ->
  nodupb (keys fields) = true ->
  (forall k, smem k (keys fields) = true -> dget k vals = None) ->
  (forall k, smem k (keys fields) = true -> dget k W = dget k final) ->
  run fields W (vals, false) = (final, false).
Proof.
  induction fields as [|[name kind] r IH]; intros vals final H ND Hfresh HW; [exact H|].
  simpl in ND. apply andb_true_iff in ND. destruct ND as [Hnot ND]. apply negb_true_iff in Hnot.
  unfold run in *. cbn [fold_left] in *.
  (* the first step did not fail *)
  destruct (wfn_field w (vals, false) (name, kind)) as [vals1 b1] eqn:E1.
  assert (b1 = false).
  { destruct b1; [|reflexivity]. pose proof (run_bad_sticky r w vals1) as S. unfold run in S. rewrite H in S. discriminate. }
  subst b1.
  assert (Hname : dget name vals = None) by (apply Hfresh; simpl; rewrite String.eqb_refl; reflexivity).
  assert (Hfinal : dget name final = dget name vals1) by (apply (run_dget_other r w _ _ _ _ H); exact Hnot).
  assert (HWn : dget name W = dget name vals1).
  { rewrite <- Hfinal. apply HW. simpl. rewrite String.eqb_refl. reflexivity. }
  assert (E2 : wfn_field W (vals, false) (name, kind) = (vals1, false)).
  { unfold wfn_field in *. rewrite HWn. clear HW HWn Hfinal IH H. revert E1.
    destruct (dget name w) as [v|].
    - destruct kind as [| |[t|] decl|]; destruct v as [|b|n|s|a]; intro E1; try (inversion E1; fail);
        try (inversion E1; subst vals1; rewrite dget_app_single, Hname, String.eqb_refl; reflexivity).
      + (* FArr (Some t), WArr *)
        revert E1.
        destruct (if uses_nbf t then dget "basis" vals else Some (WBasis 0)) as [[| | nbf | |]|]; intro E1;
          try (inversion E1; subst vals1; rewrite dget_app_single, Hname, String.eqb_refl; reflexivity).
        revert E1. destruct (reshape a (inst nbf 0 t)) as [a'|] eqn:Er; intro E1; inversion E1. subst vals1.
        rewrite dget_app_single, Hname, String.eqb_refl. rewrite (reshape_idempotent _ _ _ Er). reflexivity.
      + (* FPtr WStr *)
        revert E1. destruct (dget s vals) as [[]|] eqn:Es; intro E1; inversion E1; subst vals1;
          rewrite dget_app_single, Hname, String.eqb_refl, Es; reflexivity.
    - destruct kind; intro E1; inversion E1; subst vals1; rewrite Hname; reflexivity. }
  rewrite E2. apply IH.
  - exact H.
  - exact ND.
  - intros k Hk. destruct (wfn_field_shape w vals false (name, kind)) as [b' [[E|[v E]] _]]; rewrite E in E1; inversion E1; subst.
    + apply Hfresh. simpl. rewrite Hk. apply orb_true_r.
    + rewrite dget_app_single. rewrite (Hfresh k) by (simpl; rewrite Hk; apply orb_true_r).
      destruct (String.eqb_spec k name); [subst; simpl in Hnot; congruence|reflexivity].
  - intros k Hk. apply HW. simpl. rewrite Hk. apply orb_true_r.
Qed.

Lemma wfn_fields_nodup : nodupb (keys wfn_fields) = true.
Proof. vm_compute. reflexivity. Qed.

(** re-validating an accepted wavefunction dictionary returns it unchanged *)
Theorem wfn_validate_idempotent w w' : wfn_validate w = Ok w' -> wfn_validate w' = Ok w'.
Proof.
  unfold wfn_validate. destruct (negb (forallb _ (keys w))); [discriminate|].
  destruct (fold_left (wfn_field w) wfn_fields ([], false)) as [values bad] eqn:R. destruct bad; [discriminate|].
  intro H. inversion H; subst values. clear H.
  assert (Hkeys : forallb (fun k => smem k (keys wfn_fields)) (keys w') = true).
  { apply forallb_forall. intros k Hk. destruct (run_keys _ _ _ _ _ _ R k Hk) as [[]|Hin]. apply smem_In. exact Hin. }
  rewrite Hkeys. simpl negb. cbv iota.
  pose proof (two_runs w w' wfn_fields [] w' R wfn_fields_nodup (fun _ _ => eq_refl) (fun _ _ => eq_refl)) as T.
  unfold run in T. unfold wdict in *. rewrite T. reflexivity.
Qed.

