(** C11 — the executable binary64 rounding [fl64] (Common/HFBin64.v) is within 2^-13 of its argument on [-2^40, 2^40];
    hence sub-rounding noise does not change numpy's around on the executable pipeline [around64] / [prep_arr64]. *)
From Coq Require Import ZArith QArith Qabs Lia Lqa Bool.
Require Import QV.Common.HFRound QV.Common.HFBin64 QV.Gen.HashConsts QV.Model.Hash QV.Proofs.HashPrep QV.Proofs.HashMol.
Open Scope Z_scope.

Lemma round_to_grid_err (aa : Z) (b : positive) (e : Z) : 0 <= aa -> e <= -12 ->
  (Qabs (Qmake (rhe (aa * 2 ^ (- e)) (Zpos b)) (Z.to_pos (2 ^ (- e))) - Qmake aa b) <= 1 # 8192)%Q.
Proof.
  intros Ha He. set (T := 2 ^ (- e)). set (m := rhe (aa * T) (Zpos b)).
  assert (T12 : 4096 <= T).
  { change 4096 with (2 ^ 12). unfold T. apply Z.pow_le_mono_r; lia. }
  pose proof (rhe_bounds (aa * T) (Zpos b) ltac:(lia)) as B. fold m in B.
  apply Qabs_Qle_condition. unfold Qle, Qminus, Qplus, Qopp. simpl Qnum. simpl Qden.
  rewrite !Pos2Z.inj_mul, !Z2Pos.id by lia. split; nia.
Qed.

Lemma log2_ratio_bound (aa : Z) (b : positive) : 0 < aa -> aa <= 2 ^ 40 * Zpos b -> Z.log2 aa - Z.log2 (Zpos b) <= 40.
Proof.
  intros Ha H. pose proof (Z.log2_le_mono _ _ H) as L.
  rewrite Z.mul_comm, Z.log2_mul_pow2 in L by lia. lia.
Qed.

(** the error of the executable rounding on [-2^40, 2^40] *)
Theorem fl64_err s : (Qabs s <= inject_Z (2 ^ 40))%Q -> (Qabs (fl64 s - s) <= 1 # 8192)%Q.
Proof.
  intros Hs. destruct s as [a b]. unfold fl64. simpl Qnum. simpl Qden.
  destruct (a =? 0) eqn:A0.
  - apply Z.eqb_eq in A0. subst a. apply Qabs_Qle_condition. unfold Qle, Qminus, Qplus, Qopp. simpl. split; lia.
  - apply Z.eqb_neq in A0.
    assert (Haa : 0 < Z.abs a) by lia.
    assert (Hb : Z.abs a <= 2 ^ 40 * Zpos b).
    { apply Qabs_Qle_condition in Hs. destruct Hs as [H1 H2]. unfold Qle, Qopp, inject_Z in H1, H2. simpl in H1, H2. lia. }
    pose proof (log2_ratio_bound (Z.abs a) b Haa Hb) as LR.
    set (e0 := Z.log2 (Z.abs a) - Z.log2 (Z.pos b) - 52) in *.
    set (e' := if (if 0 <=? e0 then 2 ^ 52 * (Z.pos b * 2 ^ e0) <=? Z.abs a else 2 ^ 52 * Z.pos b <=? Z.abs a * 2 ^ (- e0)) then e0 else e0 - 1).
    assert (E' : e' <= e0) by (unfold e'; destruct (if 0 <=? e0 then _ else _); lia).
    set (e := Z.max e' (-1074)).
    assert (He : e <= -12) by (unfold e; lia).
    assert (N : (0 <=? e) = false) by (apply Z.leb_gt; lia).
    rewrite N.
    pose proof (round_to_grid_err (Z.abs a) b e ltac:(lia) He) as R.
    destruct (a <? 0) eqn:S.
    + apply Z.ltb_lt in S.
      assert (X : (- Qmake (rhe (Z.abs a * 2 ^ (- e)) (Z.pos b)) (Z.to_pos (2 ^ (- e))) - Qmake a b
                   == - (Qmake (rhe (Z.abs a * 2 ^ (- e)) (Z.pos b)) (Z.to_pos (2 ^ (- e))) - Qmake (Z.abs a) b))%Q).
      { assert (Y : (Qmake (Z.abs a) b == - Qmake a b)%Q) by (unfold Qeq, Qopp; simpl; lia). rewrite Y. ring. }
      rewrite X, Qabs_opp. exact R.
    + apply Z.ltb_ge in S. replace (Z.abs a) with a in R by lia. replace (Z.abs a) with a by lia. exact R.
Qed.

(** a rounded product that is within u of a product farther than u from every tie rounds like the exact product *)
Lemma rint_close s t (u : Q) : (Qabs (t - s) <= u)%Q ->
  (forall j : Z, (u < Qabs (s - (inject_Z j + (1 # 2))))%Q) -> rint t = rint s.
Proof.
  intros C Far. pose proof (rint_bounds s) as [L U]. set (k := rint s) in *.
  pose proof (Far k) as F1. pose proof (Far (k - 1)) as F2.
  assert (E : (inject_Z (k - 1) == inject_Z k - 1)%Q) by (unfold Zminus; rewrite inject_Z_plus; simpl; ring).
  rewrite E in F2. set (K := inject_Z k) in *.
  apply Qabs_Qle_condition in C. destruct C as [C1 C2].
  assert (L1 : (K - (1 # 2) + u < s)%Q) by (revert F2; apply Qabs_case; intros; lra).
  assert (L2 : (s < K + (1 # 2) - u)%Q) by (revert F1; apply Qabs_case; intros; lra).
  apply rint_unique; fold K; lra.
Qed.

Definition u64 : Q := 1 # 8192.

(** sub-rounding noise through the executable pipeline: no hypothesis on the rounding is left *)
Theorem around64_noise_insensitive n x d : 0 <= n ->
  (Qabs d <= noise_eps)%Q -> far_from_boundary n (noise_eps + u64 / inject_Z (pow10 n)) x ->
  (Qabs (x * inject_Z (pow10 n)) <= inject_Z (2 ^ 40))%Q -> (Qabs ((x + d) * inject_Z (pow10 n)) <= inject_Z (2 ^ 40))%Q ->
  around64 n (x + d) = round_n n x /\ around64 n x = round_n n x.
Proof.
  intros Hn Hd Far Hx Hxd.
  assert (PP : (0 < inject_Z (pow10 n))%Q) by (change 0%Q with (inject_Z 0); rewrite <- Zlt_Qlt; apply pow10_pos; exact Hn).
  set (P := inject_Z (pow10 n)) in *.
  assert (EP : ((noise_eps + u64 / P) * P == noise_eps * P + u64)%Q) by (field; intros X; rewrite X in PP; inversion PP).
  assert (UP : (0 <= u64 / P)%Q) by (apply Qle_shift_div_l; [exact PP|unfold u64; lra]).
  assert (Far0 : far_from_boundary n noise_eps x).
  { intros j. specialize (Far j).
    assert ((noise_eps * inject_Z (pow10 n) <= (noise_eps + u64 / P) * inject_Z (pow10 n))%Q).
    { apply Qmult_le_compat_r; [lra|apply Qlt_le_weak; exact PP]. }
    lra. }
  unfold around64. fold P. split.
  - rewrite (rint_close ((x + d) * P) (fl64 ((x + d) * P)) u64 (fl64_err _ Hxd)).
    + unfold P. rewrite rint_scaled. apply (round_n_noise n noise_eps x d Hn Hd Far0).
    + intros j. specialize (Far j). unfold scaled in Far. fold P in Far. rewrite EP in Far.
      assert (DP : (Qabs (d * P) <= noise_eps * P)%Q).
      { rewrite Qabs_Qmult, (Qabs_pos P) by (apply Qlt_le_weak; exact PP).
        apply Qmult_le_compat_r; [exact Hd|apply Qlt_le_weak; exact PP]. }
      assert (S : ((x + d) * P - (inject_Z j + (1 # 2)) == (x * P - (inject_Z j + (1 # 2))) + d * P)%Q) by ring.
      rewrite S. set (A := (x * P - (inject_Z j + (1 # 2)))%Q) in *. set (D := (d * P)%Q) in *.
      apply Qabs_Qle_condition in DP. destruct DP as [D1 D2].
      revert Far. apply Qabs_case; intros HA Far; apply Qabs_case; intros HB; lra.
  - rewrite (rint_close (x * P) (fl64 (x * P)) u64 (fl64_err _ Hx)).
    + unfold P. apply rint_scaled.
    + intros j. specialize (Far j). unfold scaled in Far. fold P in Far. rewrite EP in Far.
      assert ((0 <= noise_eps * P)%Q) by (apply Qmult_le_0_compat; [unfold noise_eps; lra|apply Qlt_le_weak; exact PP]). lra.
Qed.

(** ... so float_prep computed with numpy's algorithm on binary64 does not see the noise, and equals the exact model *)
Theorem prep_arr64_noise_insensitive n x d : 0 <= n ->
  (Qabs d <= noise_eps)%Q -> far_from_boundary n (noise_eps + u64 / inject_Z (pow10 n)) x ->
  (Qabs (x * inject_Z (pow10 n)) <= inject_Z (2 ^ 40))%Q -> (Qabs ((x + d) * inject_Z (pow10 n)) <= inject_Z (2 ^ 40))%Q ->
  prep_arr64 n (FQ (x + d)) = prep_arr64 n (FQ x) /\ prep_arr64 n (FQ x) = prep_arr n (FQ x).
Proof.
  intros Hn Hd Far Hx Hxd. destruct (around64_noise_insensitive n x d Hn Hd Far Hx Hxd) as [E1 E2].
  split.
  - unfold prep_arr64. rewrite E1, E2. reflexivity.
  - apply prep_arr64_agrees; assumption.
Qed.
