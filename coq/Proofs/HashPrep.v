(** C11 — float_prep on one number, bond canonicalisation, single-field edits: proofs about Model/Hash.v. *)
From Coq Require Import ZArith QArith Qabs List String Ascii Bool Lia Lqa Permutation.
Require Import QV.Common.Outcome QV.Common.HFRound QV.Common.HFBin64 QV.Common.HFSort QV.Common.HFHash QV.Gen.HashConsts QV.Model.Hash QV.Proofs.Hash.
Import ListNotations.
Open Scope Z_scope.

(** ---- float_prep on one number ---- *)
Lemma flush_consts_pos : 0 < flush_num /\ 0 < flush_base.
Proof. split; reflexivity. Qed.

Lemma below_flush_zero n : 0 <= n -> below_flush n 0 = true.
Proof.
  intros Hn. unfold below_flush. simpl Z.abs. rewrite Z.mul_0_l. apply Z.ltb_lt.
  destruct flush_consts_pos as [H _]. pose proof (pow10_pos n Hn). unfold pow10 in *. nia.
Qed.

Lemma prep_arr_round n q : 0 <= n ->
  prep_arr n (FQ q) = if below_flush n (round_n n q) then 0 else round_n n q.
Proof.
  intros Hn. unfold prep_arr, around. destruct (round_n n q =? 0) eqn:E; simpl.
  - apply Z.eqb_eq in E. rewrite E, (below_flush_zero n Hn). destruct (Qnum q <? 0); simpl; [reflexivity|].
    rewrite (below_flush_zero n Hn). reflexivity.
  - reflexivity.
Qed.

Lemma prep_scalar_round n q : prep_scalar n (FQ q) = round_n n q.
Proof.
  unfold prep_scalar, around. destruct (round_n n q =? 0) eqn:E; simpl; [|reflexivity].
  apply Z.eqb_eq in E. destruct (Qnum q <? 0); simpl; congruence.
Qed.

Definition noise_eps : Q := 1 # 10000000000.       (* 1e-10 *)

(** sub-rounding noise: |d| <= 1e-10 on a value that is not within 1e-10 of a rounding boundary *)
Theorem prep_noise_insensitive n x d : 0 <= n ->
  (Qabs d <= noise_eps)%Q -> far_from_boundary n noise_eps x ->
  prep_arr n (FQ (x + d)) = prep_arr n (FQ x) /\ prep_scalar n (FQ (x + d)) = prep_scalar n (FQ x).
Proof.
  intros Hn Hd Far. rewrite !prep_arr_round, !prep_scalar_round by exact Hn.
  rewrite (round_n_noise n noise_eps x d Hn Hd Far). split; reflexivity.
Qed.

Lemma round_n_zero n : 0 <= n -> round_n n 0 = 0.
Proof. intros Hn. unfold round_n. simpl. apply (rhe_exact 0 1). lia. Qed.

(** the sign of zero is not hashed *)
Theorem prep_signed_zero n : 0 <= n ->
  prep_arr n FNegZero = prep_arr n (FQ 0) /\ prep_scalar n FNegZero = prep_scalar n (FQ 0)
  /\ around n FNegZero <> around n (FQ 0).
Proof.
  intros Hn. rewrite prep_arr_round, prep_scalar_round, round_n_zero by exact Hn.
  repeat split.
  - rewrite below_flush_zero by exact Hn. reflexivity.
  - unfold around. rewrite round_n_zero by exact Hn. simpl. discriminate.
Qed.

(** values below half a rounding unit (|x| < 5·10^-(n+1)) are hashed as +0.0, whatever their sign *)
Theorem prep_tiny_is_zero n x : 0 <= n -> (Qabs (scaled n x) < 1 # 2)%Q ->
  prep_arr n (FQ x) = 0 /\ prep_scalar n (FQ x) = 0.
Proof.
  intros Hn H. rewrite prep_arr_round, prep_scalar_round by exact Hn.
  assert (E : round_n n x = 0).
  { set (s := scaled n x) in *. apply round_n_unique; [exact Hn| |]; fold s; change (inject_Z 0) with 0%Q;
      revert H; apply Qabs_case; intros; lra. }
  rewrite E. split; [|reflexivity]. rewrite below_flush_zero by exact Hn. reflexivity.
Qed.

Corollary prep_tiny_geometry x : (Qabs x < 5 # 1000000000)%Q -> prep_arr geometry_noise (FQ x) = 0.
Proof.
  intros H. apply prep_tiny_is_zero; [discriminate|].
  unfold scaled. rewrite Qabs_Qmult.
  change (Qabs (inject_Z (pow10 geometry_noise))) with (100000000 # 1)%Q.
  lra.
Qed.

(** a change by more than the rounding unit changes the prepared value — outside the zero-flush zone *)
Theorem prep_sensitive n x y : 0 <= n ->
  (1 < Qabs (scaled n x - scaled n y))%Q ->
  below_flush n (round_n n x) = false \/ below_flush n (round_n n y) = false ->
  prep_arr n (FQ x) <> prep_arr n (FQ y).
Proof.
  intros Hn D Z. rewrite !prep_arr_round by exact Hn.
  pose proof (round_n_bounds n x Hn) as [X1 X2]. pose proof (round_n_bounds n y Hn) as [Y1 Y2].
  pose proof (below_flush_zero n Hn) as B0.
  destruct (below_flush n (round_n n x)) eqn:Bx, (below_flush n (round_n n y)) eqn:By; intros E.
  - destruct Z; discriminate.
  - rewrite <- E in By. congruence.
  - rewrite E in Bx. congruence.
  - rewrite E in X1, X2. set (sx := scaled n x) in *. set (sy := scaled n y) in *. set (K := inject_Z (round_n n y)) in *.
    revert D. apply Qabs_case; intros; lra.
Qed.

Theorem prep_scalar_sensitive n x y : 0 <= n ->
  (1 < Qabs (scaled n x - scaled n y))%Q -> prep_scalar n (FQ x) <> prep_scalar n (FQ y).
Proof.
  intros Hn D. rewrite !prep_scalar_round.
  pose proof (round_n_bounds n x Hn) as [X1 X2]. pose proof (round_n_bounds n y Hn) as [Y1 Y2].
  intros E. rewrite E in X1, X2. set (sx := scaled n x) in *. set (sy := scaled n y) in *. set (K := inject_Z (round_n n y)) in *.
  revert D. apply Qabs_case; intros; lra.
Qed.

(** where the zero-flush zone of the geometry ends (with the constants of the code as it is) *)
Lemma outside_zone_geometry x : (52 # 100000000 <= Qabs x)%Q -> below_flush geometry_noise (round_n geometry_noise x) = false.
Proof.
  intros H. pose proof (round_n_bounds geometry_noise x ltac:(discriminate)) as [B1 B2].
  set (k := round_n geometry_noise x) in *.
  unfold scaled in B1, B2. change (inject_Z (pow10 geometry_noise)) with (100000000 # 1)%Q in B1, B2.
  unfold below_flush. apply Z.ltb_ge.
  change (flush_num * 10 ^ geometry_noise) with 100000000. change (flush_base ^ (geometry_noise + 1)) with 1953125.
  assert (K : 52 <= Z.abs k).
  { revert H. apply Qabs_case; intros Hx H.
    - assert (L : (51 # 1 < inject_Z k)%Q) by (set (K := inject_Z k) in *; lra).
      change (51 # 1)%Q with (inject_Z 51) in L. rewrite <- Zlt_Qlt in L. lia.
    - assert (L : (inject_Z k < -51 # 1)%Q) by (set (K := inject_Z k) in *; lra).
      change (-51 # 1)%Q with (inject_Z (-51)) in L. rewrite <- Zlt_Qlt in L. lia. }
  lia.
Qed.

(** ... and the full statement "a change above the rounding unit changes the hash" fails inside it:
    -5e-7 and +5e-7 are 100 rounding units apart and are both hashed as 0.0 *)
Theorem prep_sensitive_in_flush_zone_refuted :
  exists x y : Q, (1 < Qabs (scaled geometry_noise x - scaled geometry_noise y))%Q
                  /\ prep_arr geometry_noise (FQ x) = prep_arr geometry_noise (FQ y).
Proof.
  exists (-5 # 10000000)%Q, (5 # 10000000)%Q. split; [|vm_compute; reflexivity].
  vm_compute. reflexivity.
Qed.

(** preparing a prepared value again changes nothing (the geometry is prepared at construction and when hashing) *)
Theorem prep_idempotent n x : 0 <= n -> prep_arr n (of_units n (prep_arr n x)) = prep_arr n x.
Proof.
  intros Hn. unfold of_units. rewrite prep_arr_round by exact Hn.
  assert (R : forall k, round_n n (k # Z.to_pos (10 ^ n)) = k).
  { intros k. unfold round_n. simpl Qnum; simpl Qden. pose proof (pow10_pos n Hn) as P. unfold pow10 in *.
    rewrite Z2Pos.id by exact P. apply rhe_exact. exact P. }
  rewrite R.
  destruct x as [|q].
  - unfold prep_arr at 1 2 3; simpl. rewrite below_flush_zero by exact Hn. reflexivity.
  - rewrite prep_arr_round by exact Hn.
    destruct (below_flush n (round_n n q)) eqn:B.
    + rewrite below_flush_zero by exact Hn. reflexivity.
    + rewrite B. reflexivity.
Qed.

(** ---- bonds ---- *)
Definition bond_normal (b : bond) : Prop := Qred (snd b) = snd b.
Lemma norm_bond_normal b : bond_normal (norm_bond b).
Proof. destruct b as [[a1 a2] o]. unfold bond_normal. simpl. apply Qred_complete, Qred_correct. Qed.

Ltac ltb_cases :=
  repeat match goal with
         | H : context [?a <? ?b] |- _ => destruct (Z.ltb_spec a b)
         | |- context [?a <? ?b] => destruct (Z.ltb_spec a b)
         end.

Lemma bond_leb_whole_total x y : bond_leb_whole x y = true \/ bond_leb_whole y x = true.
Proof.
  destruct x as [[a1 a2] o], y as [[b1 b2] p]. unfold bond_leb_whole. ltb_cases; auto; try lia.
  rewrite !Qle_bool_iff. destruct (Qlt_le_dec p o) as [L|L]; [right; apply Qlt_le_weak; exact L|left; exact L].
Qed.

Lemma bond_leb_whole_trans x y z : bond_leb_whole x y = true -> bond_leb_whole y z = true -> bond_leb_whole x z = true.
Proof.
  destruct x as [[a1 a2] o], y as [[b1 b2] p], z as [[c1 c2] r]. unfold bond_leb_whole. intros H1 H2.
  ltb_cases; try reflexivity; try discriminate; try lia.
  rewrite Qle_bool_iff in *. eapply Qle_trans; eauto.
Qed.

Lemma bond_leb_whole_antisym x y : bond_normal x -> bond_normal y ->
  bond_leb_whole x y = true -> bond_leb_whole y x = true -> x = y.
Proof.
  destruct x as [[a1 a2] o], y as [[b1 b2] p]. unfold bond_leb_whole, bond_normal. simpl. intros Nx Ny H1 H2.
  ltb_cases; try discriminate; try lia.
  rewrite Qle_bool_iff in *. assert (E : (o == p)%Q) by (apply Qle_antisym; assumption).
  apply Qred_complete in E. rewrite Nx, Ny in E. assert (a1 = b1) by lia. assert (a2 = b2) by lia. congruence.
Qed.

Lemma bond_leb_is_whole : bond_leb = bond_leb_whole.
Proof. reflexivity. Qed.

(** the stored bond list depends only on the multiset of bonds ... *)
Theorem canon_bonds_perm l l' : Permutation l l' -> canon_bonds l = canon_bonds l'.
Proof.
  intros P. unfold canon_bonds. rewrite bond_leb_is_whole.
  apply (isort_perm_invariant bond_leb_whole bond_leb_whole_total bond_leb_whole_trans bond_normal bond_leb_whole_antisym).
  - rewrite Forall_forall. intros b Hb. apply in_map_iff in Hb. destruct Hb as (b0 & <- & _). apply norm_bond_normal.
  - apply Permutation_map. exact P.
Qed.

Lemma norm_bond_flip b : norm_bond (flip_bond b) = norm_bond b.
Proof. destruct b as [[a1 a2] o]. simpl. rewrite Z.min_comm, Z.max_comm. reflexivity. Qed.

Lemma map_norm_flip_by bs : forall l, map norm_bond (flip_by bs l) = map norm_bond l.
Proof.
  induction bs as [|[|] bs IH]; intros [|b l]; simpl; try reflexivity; rewrite IH; [rewrite norm_bond_flip|]; reflexivity.
Qed.

(** ... and not on the orientation in which each bond is listed *)
Theorem canon_bonds_flip bs l : canon_bonds (flip_by bs l) = canon_bonds l.
Proof. unfold canon_bonds. rewrite map_norm_flip_by. reflexivity. Qed.

Theorem bond_order_invariant l l' bs : Permutation l (flip_by bs l') -> canon_bonds l = canon_bonds l'.
Proof. intros P. rewrite (canon_bonds_perm _ _ P). apply canon_bonds_flip. Qed.

Lemma norm_bond_idem b : norm_bond (norm_bond b) = norm_bond b.
Proof.
  destruct b as [[a1 a2] o]. simpl. rewrite (Qred_complete (Qred o) o (Qred_correct o)).
  f_equal. f_equal; lia.
Qed.

(** re-validating stored bonds (dict round trip) changes nothing *)
Theorem canon_bonds_idempotent l : canon_bonds (canon_bonds l) = canon_bonds l.
Proof.
  unfold canon_bonds. rewrite bond_leb_is_whole.
  set (l0 := map norm_bond l).
  assert (F : Forall bond_normal l0).
  { rewrite Forall_forall. intros b Hb. apply in_map_iff in Hb. destruct Hb as (b0 & <- & _). apply norm_bond_normal. }
  assert (M : map norm_bond (isort bond_leb_whole l0) = isort bond_leb_whole l0).
  { assert (G : forall b, In b (isort bond_leb_whole l0) -> norm_bond b = b).
    { intros b Hb. apply (Permutation_in _ (isort_perm bond_leb_whole l0)) in Hb.
      apply in_map_iff in Hb. destruct Hb as (b0 & <- & _). apply norm_bond_idem. }
    induction (isort bond_leb_whole l0) as [|b t IH]; simpl; [reflexivity|].
    rewrite G by (left; reflexivity). f_equal. apply IH. intros b' Hb'. apply G. right; exact Hb'. }
  rewrite M.
  apply (isort_idempotent bond_leb_whole bond_leb_whole_total bond_leb_whole_trans bond_normal bond_leb_whole_antisym). exact F.
Qed.

(** ---- single-field edits at the level of the hashed text ---- *)
Section Sensitive.
  Variable to_mass : string -> fl.

  Theorem canon_sensitive m m' : wf m -> wf m' -> ~ agree to_mass m m' -> canon to_mass m <> canon to_mass m'.
  Proof. intros W W' N E. apply N. apply canon_injective; assumption. Qed.

  (** one coordinate moved by more than 10^-8, not inside the zero-flush zone: the text changes *)
  Theorem canon_sensitive_coordinate m m' pre post x y : wf m -> wf m' ->
    geometry m = pre ++ FQ x :: post -> geometry m' = pre ++ FQ y :: post ->
    (1 < Qabs (scaled geometry_noise x - scaled geometry_noise y))%Q ->
    below_flush geometry_noise (round_n geometry_noise x) = false \/ below_flush geometry_noise (round_n geometry_noise y) = false ->
    canon to_mass m <> canon to_mass m'.
  Proof.
    intros W W' G G' D Z. apply canon_sensitive; try assumption.
    intros (_ & _ & _ & _ & _ & H & _). rewrite G, G', !map_app in H. apply app_inv_head in H. simpl in H.
    injection H as H1. revert H1. apply prep_sensitive; [discriminate|exact D|exact Z].
  Qed.

  (** a different multiplicity, symbol list, ghost flag list, fragment pattern or bond list changes the text *)
  Theorem canon_sensitive_discrete m m' : wf m -> wf m' ->
    (mmult m <> mmult m' \/ symbols m <> symbols m' \/ real m <> real m' \/ fragments m <> fragments m'
     \/ fmults m <> fmults m' \/ bonds_repr m <> bonds_repr m') ->
    canon to_mass m <> canon to_mass m'.
  Proof.
    intros W W' H. apply canon_sensitive; try assumption.
    intros (A1 & _ & _ & A4 & A5 & _ & A7 & _ & A9 & A10).
    destruct H as [H|[H|[H|[H|[H|H]]]]]; contradiction.
  Qed.
End Sensitive.

(** without [wf] the two adjacent bare scalars are ambiguous: charge 1.0 || multiplicity 12 and
    charge 1.01 || multiplicity 2 both read "1.012" *)
Definition amb1 : mol :=
  {| symbols := ["He"%string]; masses_ := Some [FQ 4]; mcharge := FQ 1; mmult := 12; real_ := None; geometry := [FQ 0; FQ 0; FQ 0];
     fragments_ := None; fcharges_ := Some [FQ 1]; fmults_ := Some [1]; connectivity_ := None; others := [] |}.
Definition amb2 : mol :=
  {| symbols := ["He"%string]; masses_ := Some [FQ 4]; mcharge := FQ (101 # 100); mmult := 2; real_ := None; geometry := [FQ 0; FQ 0; FQ 0];
     fragments_ := None; fcharges_ := Some [FQ 1]; fmults_ := Some [1]; connectivity_ := None; others := [] |}.
Theorem canon_injective_without_wf_refuted :
  exists m m', canon (fun _ => FQ 0) m = canon (fun _ => FQ 0) m' /\ mmult m <> mmult m' /\ wf m /\ ~ wf m'.
Proof.
  exists amb1, amb2. split; [vm_compute; reflexivity|]. split; [discriminate|]. split; [vm_compute; reflexivity|].
  vm_compute. discriminate.
Qed.

(** ---- numpy.around at the binary64 level ---- *)
Lemma rint_scaled n x : rint (x * inject_Z (pow10 n)) = round_n n x.
Proof.
  unfold rint, round_n. destruct x as [a b]. unfold Qmult, inject_Z. simpl Qnum. simpl Qden.
  change (pow10 0) with 1. rewrite Z.mul_1_r, Pos.mul_1_r. reflexivity.
Qed.

(** for every rounding [fl] of the product that is monotone and exact on half-integers up to B (IEEE-754
    round-to-nearest: B = 2^52), numpy's rint(fl(x * 10^n)) is the exact half-even rounding of x to n decimals unless
    fl(x * 10^n) is a half-integer *)
Theorem np_around_exact (fl : Q -> Q) (B : Z) :
  (forall a b, (a <= b)%Q -> (fl a <= fl b)%Q) ->
  (forall j : Z, Z.abs j <= B -> (fl (inject_Z j + (1 # 2)) == inject_Z j + (1 # 2))%Q) ->
  forall n x, (Qabs (x * inject_Z (pow10 n)) <= inject_Z (B - 2)%Z)%Q -> ~ is_half (fl (x * inject_Z (pow10 n))%Q) ->
  rint (fl (x * inject_Z (pow10 n))%Q) = round_n n x.
Proof. intros M H n x Hs NH. rewrite (rint_fl_exact fl B M H _ Hs NH). apply rint_scaled. Qed.

(** ... in particular when the product is farther from every tie than the rounding error u·|s| *)
Theorem np_around_exact_far (fl : Q -> Q) (B : Z) (u : Q) :
  (forall a b, (a <= b)%Q -> (fl a <= fl b)%Q) ->
  (forall j : Z, Z.abs j <= B -> (fl (inject_Z j + (1 # 2)) == inject_Z j + (1 # 2))%Q) ->
  (forall s, (Qabs (fl s - s) <= u * Qabs s)%Q) ->
  forall n x, (Qabs (x * inject_Z (pow10 n)) <= inject_Z (B - 2)%Z)%Q ->
  (forall j : Z, (u * Qabs (x * inject_Z (pow10 n)) < Qabs (x * inject_Z (pow10 n) - (inject_Z j + (1 # 2))))%Q) ->
  rint (fl (x * inject_Z (pow10 n))%Q) = round_n n x.
Proof. intros M H E n x Hs Far. rewrite (rint_fl_exact_far fl B M H u E _ Hs Far). apply rint_scaled. Qed.

(** the executable binary64 variant of float_prep agrees with the exact one whenever the two roundings agree *)
Theorem prep_arr64_agrees n x : 0 <= n -> around64 n x = round_n n x -> prep_arr64 n (FQ x) = prep_arr n (FQ x).
Proof. intros Hn E. rewrite prep_arr_round by exact Hn. unfold prep_arr64. rewrite E. reflexivity. Qed.

(** a double just below the tie 0.5e-8 whose product with 1e8 rounds to the tie itself: numpy rounds it to 0 (tie to
    even), exact rounding of the value gives 0 as well; the double just above 1.5e-8 ... see the Example in Props *)
