(** C14 — the digest-carrying run used by the correspondence computes the same result as [run]/[lsa]. *)
From Coq Require Import ZArith List Bool Arith Lia.
Require Import QV.Common.Outcome QV.Model.Hungarian.
Import ListNotations.
Open Scope Z_scope.

Lemma run_tr_S fuel k s h c : k <> Done ->
  run_tr (S fuel) k s h c = match step k s with
                            | Err e => (Err e, h, c)
                            | Ok (k', s') => run_tr fuel k' s' (digest_state h k' s') (c + 1)
                            end.
Proof. destruct k; intros; try congruence; reflexivity. Qed.

Lemma run_S' fuel k s : k <> Done ->
  run (S fuel) k s = match step k s with Err e => Err e | Ok (k', s') => run fuel k' s' end.
Proof. destruct k; intros; try congruence; reflexivity. Qed.

Lemma run_tr_fst : forall fuel k s h c, fst (fst (run_tr fuel k s h c)) = run fuel k s.
Proof.
  induction fuel; intros k s h c.
  - destruct k; reflexivity.
  - assert (D : k = Done \/ k <> Done) by (destruct k; auto; right; discriminate).
    destruct D as [E|NE].
    + subst k. reflexivity.
    + rewrite (run_tr_S fuel k s h c NE), (run_S' fuel k s NE).
      destruct (step k s) as [[k1 s1]|e]; simpl; auto.
Qed.

Theorem lsa_tr_result : forall C, fst (fst (lsa_tr C)) = lsa C.
Proof.
  intros C. unfold lsa_tr, lsa, lsa_fuel.
  destruct (Nat.eqb (nrows C) 0 || Nat.eqb (ncols C) 0); [reflexivity|].
  pose proof (run_tr_fst (default_fuel C) S1 (init_state (if (ncols C <? nrows C)%nat then transpose C else C)) 7 0) as E.
  destruct (run_tr (default_fuel C) S1 (init_state (if (ncols C <? nrows C)%nat then transpose C else C)) 7 0)
    as [[o h] cnt]. simpl in E. rewrite <- E. destruct o; reflexivity.
Qed.
