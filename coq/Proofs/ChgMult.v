(** C05 — proofs about Model/ChgMult.v *)
From Coq Require Import ZArith List Bool Lia Zify ZifyBool.
Require Import QV.Common.Outcome QV.Model.ChgMult.
Import ListNotations.
Open Scope Z_scope.

(* ------------------------------------------------------------------------------------------ *)
(** * The specification, written independently of [rules_ok] *)

Definition kept (spec : list (option Z)) (v : list Z) : Prop :=
  forall k s, nth_error spec k = Some (Some s) -> nth_error v k = Some s.

Definition frag_ok (i : cm_in) (r : cm_out) : Prop :=
  forall k z c m, nth_error (fzel i) k = Some z -> nth_error (ofc r) k = Some c -> nth_error (ofm r) k = Some m ->
    m - 1 <= z - c /\ m mod 2 <> (z - c) mod 2.

Definition ghosts_neutral_singlet (i : cm_in) (r : cm_out) : Prop :=
  forall k c m, nth_error (ghosts i) k = Some true -> nth_error (ofc r) k = Some c -> nth_error (ofm r) k = Some m ->
    c = 0 /\ m = 1.

Definition high_spin (r : cm_out) : Prop := om r = 1 + zsum (map (fun m => m - 1) (ofm r)).

Definition fully_specified_mult (i : cm_in) : Prop :=
  im i <> None /\ Forall (fun o => o <> None) (ifm i).

(** What a returned assignment satisfies, relative to the specification [i] the search ran on
    (that is [adjust i0]: with zero_ghost_fragments and a ghost fragment present, the totals and the
    ghost fragments' entries of the caller's input are replaced before the search). *)
Record Spec (i : cm_in) (r : cm_out) : Prop := {
  sp_len_fc : length (ofc r) = length (felez i);
  sp_len_fm : length (ofm r) = length (felez i);
  sp_sum : oc r = zsum (ofc r);
  sp_pos : 1 <= om r /\ Forall (fun m => 1 <= m) (ofm r);
  sp_tot : om r - 1 <= zel i - oc r /\ (om r) mod 2 <> (zel i - oc r) mod 2;
  sp_frag : frag_ok i r;
  sp_keep_c : forall c, ic i = Some c -> oc r = c;
  sp_keep_fc : kept (ifc i) (ofc r);
  sp_keep_m : forall m, im i = Some m -> om r = m;
  sp_keep_fm : kept (ifm i) (ofm r);
  sp_ghost : ghosts_neutral_singlet i r;
  sp_high : ~ fully_specified_mult i -> high_spin r
}.

(* ------------------------------------------------------------------------------------------ *)
(** * Small list facts *)

Lemma hss_fold l a : fold_left (fun mm m => mm + (m - 1)) l a = a + zsum (map (fun m => m - 1) l).
Proof. revert a; induction l as [|x l IH]; intro a; simpl; [lia|]. rewrite IH. lia. Qed.

Lemma hss_spec l : hss l = 1 + zsum (map (fun m => m - 1) l).
Proof. unfold hss. apply hss_fold. Qed.

Lemma cart_length_each ls x : In x (cart ls) -> length x = length ls.
Proof.
  revert x; induction ls as [|l ls IH]; intros x H; simpl in *.
  - destruct H as [<-|[]]; reflexivity.
  - apply in_flat_map in H. destruct H as [y [_ H]]. apply in_map_iff in H. destruct H as [t [<- Ht]].
    simpl. f_equal. apply IH; assumption.
Qed.

Lemma cart_singletons (v : list Z) : cart (map (fun x => [x]) v) = [v].
Proof. induction v as [|x v IH]; simpl; [reflexivity|]. rewrite IH. reflexivity. Qed.

Lemma dedup_aux_in seen l x : In x (dedup_aux seen l) -> In x l.
Proof.
  revert seen; induction l as [|y l IH]; intros seen H; simpl in *; [assumption|].
  destruct (existsb (Z.eqb y) seen).
  - right. eapply IH; eassumption.
  - destruct H as [->|H]; [left; reflexivity | right; eapply IH; eassumption].
Qed.

Lemma dedup_single x : dedup [x] = [x].
Proof. reflexivity. Qed.

Lemma dedup_pair_same x : dedup [x; x] = [x].
Proof. unfold dedup; simpl. rewrite Z.eqb_refl. reflexivity. Qed.

Lemma all3_spec f a b c :
  length b = length a -> length c = length a ->
  all3 f a b c = true <->
  (forall k x y z, nth_error a k = Some x -> nth_error b k = Some y -> nth_error c k = Some z -> f x y z = true).
Proof.
  revert b c; induction a as [|x a IH]; intros b c Hb Hc; destruct b as [|y b]; destruct c as [|z c];
    simpl in *; try discriminate.
  - split; [intros _ k ? ? ? H; destruct k; discriminate | reflexivity].
  - rewrite andb_true_iff, IH by lia. split.
    + intros [H0 H] k x' y' z' Hx Hy Hz. destruct k as [|k]; simpl in *.
      * congruence.
      * eapply H; eassumption.
    + intro H. split.
      * apply (H O); reflexivity.
      * intros k. apply (H (S k)).
Qed.

Lemma match_inputs_kept spec v : length v = length spec -> match_inputs spec v = true <-> kept spec v.
Proof.
  revert v; induction spec as [|o spec IH]; intros v Hl; destruct v as [|x v]; simpl in *; try discriminate.
  - split; [intros _ k s H; destruct k; discriminate | reflexivity].
  - assert (Hl' : length v = length spec) by lia. specialize (IH v Hl'). destruct o as [s|].
    + rewrite andb_true_iff, IH, Z.eqb_eq. split.
      * intros [-> H] k s' Hk. destruct k as [|k]; simpl in *; [congruence | apply H; assumption].
      * intro H. split.
        -- specialize (H O s eq_refl). simpl in H. congruence.
        -- intros k s' Hk. apply (H (S k)); assumption.
    + rewrite IH. split.
      * intros H k s' Hk. destruct k as [|k]; simpl in *; [discriminate | apply H; assumption].
      * intros H k s' Hk. apply (H (S k)); assumption.
Qed.

Lemma ghost_rule_spec g fc fm :
  length fc = length g -> length fm = length g ->
  ghost_rule g fc fm = true <->
  (forall k c m, nth_error g k = Some true -> nth_error fc k = Some c -> nth_error fm k = Some m -> c = 0 /\ m = 1).
Proof.
  revert fc fm; induction g as [|b g IH]; intros fc fm Hc Hm; destruct fc as [|c fc]; destruct fm as [|m fm];
    simpl in *; try discriminate.
  - split; [intros _ k ? ? H; destruct k; discriminate | reflexivity].
  - rewrite andb_true_iff, IH by lia. split.
    + intros [H0 H] k c' m' Hk Hc' Hm'. destruct k as [|k]; simpl in *.
      * injection Hk as ->. injection Hc' as <-. injection Hm' as <-.
        apply andb_true_iff in H0. rewrite !Z.eqb_eq in H0. exact H0.
      * eapply H; eassumption.
    + intro H. split.
      * destruct b; [|reflexivity]. destruct (H O c m eq_refl eq_refl eq_refl) as [-> ->]. reflexivity.
      * intros k. apply (H (S k)).
Qed.

(* ------------------------------------------------------------------------------------------ *)
(** * Candidates have one entry per fragment *)

Lemma candidates_lengths i r : In r (candidates i) ->
  length (ofc r) = length (ifc i) /\ length (ofm r) = length (ifm i).
Proof.
  unfold candidates. intro H.
  apply in_flat_map in H. destruct H as [c [_ H]].
  apply in_flat_map in H. destruct H as [fc [Hfc H]].
  apply in_flat_map in H. destruct H as [m [_ H]].
  apply in_map_iff in H. destruct H as [fm [<- Hfm]]. simpl.
  apply cart_length_each in Hfc. apply cart_length_each in Hfm.
  rewrite map_length in Hfc, Hfm. unfold exact_fc in Hfc. unfold exact_fm in Hfm.
  destruct (missing_mult_bounds i) as [lo hi]. rewrite map_length in Hfc, Hfm. split; assumption.
Qed.

(* ------------------------------------------------------------------------------------------ *)
(** * rules_ok implies the specification *)

Lemma existsb_is_none_false l : existsb (@is_none Z) l = false -> Forall (fun o => o <> None) l.
Proof.
  induction l as [|o l IH]; simpl; intro H; constructor.
  - destruct o; [discriminate | simpl in H; discriminate].
  - apply IH. destruct o; simpl in H; [assumption | discriminate].
Qed.

Lemma rules_ok_spec i r :
  wf_in i -> length (ofc r) = length (ifc i) -> length (ofm r) = length (ifm i) ->
  rules_ok i r = true -> Spec i r.
Proof.
  intros [Wc Wm] Lc Lm H. unfold rules_ok in H.
  repeat (apply andb_true_iff in H; destruct H as [H ?]).
  assert (Lz : length (fzel i) = length (felez i)) by (unfold fzel; apply map_length).
  assert (Lg : length (ghosts i) = length (felez i)) by (unfold ghosts; apply map_length).
  match goal with [ Hx : all3 sufficient _ _ _ = true |- _ ] =>
    rewrite all3_spec in Hx by congruence; rename Hx into Hsuf end.
  match goal with [ Hx : all3 parity_ok _ _ _ = true |- _ ] =>
    rewrite all3_spec in Hx by congruence; rename Hx into Hpar end.
  match goal with [ Hx : ghost_rule _ _ _ = true |- _ ] =>
    rewrite ghost_rule_spec in Hx by congruence; rename Hx into Hgh end.
  repeat match goal with [ Hx : match_inputs _ _ = true |- _ ] =>
    rewrite match_inputs_kept in Hx by congruence end.
  constructor; try congruence.
  - apply Z.eqb_eq; assumption.
  - split; [apply Z.leb_le; assumption|]. apply Forall_forall. intros m Hm.
    match goal with [ Hx : forallb _ (ofm r) = true |- _ ] => rewrite forallb_forall in Hx; apply Z.leb_le, Hx, Hm end.
  - match goal with [ Hx : sufficient (zel i) _ _ = true |- _ ] => unfold sufficient in Hx; apply Z.leb_le in Hx end.
    match goal with [ Hx : parity_ok (zel i) _ _ = true |- _ ] =>
      unfold parity_ok in Hx; apply negb_true_iff, Z.eqb_neq in Hx end. split; assumption.
  - intros k z c m Hz Hc Hm. specialize (Hsuf k z c m Hz Hc Hm). specialize (Hpar k z c m Hz Hc Hm).
    unfold sufficient in Hsuf. unfold parity_ok in Hpar. apply Z.leb_le in Hsuf.
    apply negb_true_iff, Z.eqb_neq in Hpar. split; assumption.
  - intros c Hc. match goal with [ Hx : match ic i with _ => _ end = true |- _ ] => rewrite Hc in Hx; apply Z.eqb_eq, Hx end.
  - assumption.
  - intros m Hm. match goal with [ Hx : match im i with _ => _ end = true |- _ ] => rewrite Hm in Hx; apply Z.eqb_eq, Hx end.
  - assumption.
  - exact Hgh.
  - intro Hnf. unfold high_spin. rewrite <- hss_spec.
    match goal with [ Hx : (if r8_active i then _ else _) = true |- _ ] => rename Hx into Hr8 end.
    destruct (r8_active i) eqn:E8; [apply Z.eqb_eq; assumption|].
    exfalso. apply Hnf. unfold r8_active in E8. apply orb_false_iff in E8. destruct E8 as [E1 E2]. split.
    + destruct (im i); [discriminate | simpl in E1; discriminate].
    + apply existsb_is_none_false; assumption.
Qed.

Lemma wf_adjust i : wf_in i -> wf_in (adjust i).
Proof.
  intros [Hc Hm]. unfold adjust. destruct (_ && _); [|split; assumption].
  unfold wf_in; simpl. rewrite !map_length, !combine_length. unfold ghosts. rewrite map_length. lia.
Qed.

(** Soundness: whatever [fill] returns satisfies the specification. *)
Lemma fill_sound i r : wf_in i -> fill i = Ok r -> Spec (adjust i) r.
Proof.
  intros W H. unfold fill in H. destruct (_ || _); [discriminate|].
  destruct (find _ _) as [r'|] eqn:F; [|discriminate]. injection H as ->.
  apply find_some in F. destruct F as [Hin Hok].
  apply candidates_lengths in Hin. destruct Hin as [Lc Lm].
  apply rules_ok_spec; auto using wf_adjust.
Qed.

Lemma fill_fails_closed i : fill i = Err Validation \/ exists r, fill i = Ok r.
Proof.
  unfold fill. destruct (_ || _); [left; reflexivity|].
  destruct (find _ _); [right; eexists; reflexivity | left; reflexivity].
Qed.

(* ------------------------------------------------------------------------------------------ *)
(** * Fully specified valid assignments are accepted; fixed point *)

Definition respec (i : cm_in) (r : cm_out) : cm_in :=
  {| felez := felez i; ic := Some (oc r); ifc := map Some (ofc r); im := Some (om r); ifm := map Some (ofm r);
     zgf := zgf i |}.

Definition has_ghost (i : cm_in) : bool := existsb (fun g => g) (ghosts i).

(** the rules a complete assignment has to obey (no reference to any partial input) *)
Definition rules_full (i : cm_in) (r : cm_out) : bool :=
  Nat.eqb (length (ofc r)) (length (felez i)) && Nat.eqb (length (ofm r)) (length (felez i))
  && (oc r =? zsum (ofc r))
  && (1 <=? om r) && forallb (fun m => 1 <=? m) (ofm r)
  && sufficient (zel i) (oc r) (om r) && all3 sufficient (fzel i) (ofc r) (ofm r)
  && parity_ok (zel i) (oc r) (om r) && all3 parity_ok (fzel i) (ofc r) (ofm r)
  && ghost_rule (ghosts i) (ofc r) (ofm r)
  && (if zgf i && has_ghost i then om r =? hss (ofm r) else true).

Lemma match_inputs_self v : match_inputs (map Some v) v = true.
Proof. induction v as [|x v IH]; simpl; [reflexivity|]. rewrite Z.eqb_refl. exact IH. Qed.

Lemma known_sum_some v : known_sum (map Some v) = zsum v.
Proof. unfold known_sum. rewrite map_map. f_equal. apply map_id. Qed.

Lemma apply_default_some v d : apply_default (map Some v) d = v.
Proof. unfold apply_default. rewrite map_map. apply map_id. Qed.

Lemma existsb_none_some v : existsb (@is_none Z) (map Some v) = false.
Proof. induction v; simpl; auto. Qed.

Lemma bad_mult_some_pos v : 1 <= v -> bad_mult (Some v) = false.
Proof. intro H. unfold bad_mult. apply andb_false_iff. right. apply Z.ltb_ge. exact H. Qed.

Lemma existsb_bad_mult_pos v : forallb (fun m => 1 <=? m) v = true -> existsb bad_mult (map Some v) = false.
Proof.
  induction v as [|x v IH]; simpl; [reflexivity|]. intro H. apply andb_true_iff in H. destruct H as [H1 H2].
  apply Z.leb_le in H1. rewrite IH by assumption. rewrite orb_false_r.
  apply andb_false_iff. right. apply Z.ltb_ge. exact H1.
Qed.

(* when every ghost fragment is already (0,1), the ghost override leaves the per-fragment lists alone *)
Lemma adjust_list_id (g : list bool) (v : list Z) (d : Z) :
  length v = length g ->
  (forall k x, nth_error g k = Some true -> nth_error v k = Some x -> x = d) ->
  map (fun p : bool * option Z => if fst p then Some d else snd p) (combine g (map Some v)) = map Some v.
Proof.
  revert v; induction g as [|b g IH]; intros v Hl H; destruct v as [|x v]; simpl in *; try discriminate; [reflexivity|].
  f_equal.
  - destruct b; [|reflexivity]. f_equal. symmetry. apply (H O x); reflexivity.
  - apply IH; [lia|]. intros k y Hk Hy. apply (H (S k)); assumption.
Qed.

Lemma py_range_single a : py_range a (a + 1) = [a].
Proof. unfold py_range. replace (a + 1 - a) with 1 by lia. reflexivity. Qed.

Lemma candidates_full (i : cm_in) (r : cm_out) :
  ic i = Some (oc r) \/ (ic i = None /\ oc r = zsum (ofc r)) ->
  oc r = zsum (ofc r) ->
  ifc i = map Some (ofc r) ->
  im i = Some (om r) \/ (im i = None /\ om r = hss (ofm r)) ->
  ifm i = map Some (ofm r) ->
  candidates i = [r].
Proof.
  intros Hc Hsum Hfc Hm Hfm. unfold candidates.
  assert (Ec : dedup (exact_c i) = [oc r]).
  { unfold exact_c. rewrite Hfc, known_sum_some.
    destruct Hc as [-> | [-> ?]]; simpl app; [rewrite <- Hsum; apply dedup_pair_same | rewrite <- Hsum; reflexivity]. }
  assert (Efc : cart (map dedup (exact_fc i)) = [ofc r]).
  { unfold exact_fc. rewrite Hfc, !map_map. simpl. apply cart_singletons. }
  assert (Em : dedup (exact_m i) = [om r]).
  { unfold exact_m. destruct Hm as [-> | [-> Hh]]; [reflexivity|].
    rewrite Hfm, !apply_default_some, py_range_single. rewrite Hh. reflexivity. }
  assert (Efm : cart (map dedup (exact_fm i)) = [ofm r]).
  { unfold exact_fm. destruct (missing_mult_bounds i) as [lo hi]. rewrite Hfm, !map_map. simpl. apply cart_singletons. }
  rewrite Ec, Efc, Em, Efm. simpl. destruct r; reflexivity.
Qed.

Lemma rules_ok_of_full i r :
  rules_full i r = true ->
  forall i',
  felez i' = felez i ->
  ifc i' = map Some (ofc r) -> ifm i' = map Some (ofm r) ->
  (ic i' = Some (oc r) \/ ic i' = None) ->
  (im i' = Some (om r) \/ (im i' = None /\ om r = hss (ofm r))) ->
  rules_ok i' r = true.
Proof.
  intros H i' Hf Hfc Hfm Hc Hm. unfold rules_full in H.
  repeat (apply andb_true_iff in H; destruct H as [H ?]).
  unfold rules_ok.
  assert (Ez : zel i' = zel i) by (unfold zel, fzel; rewrite Hf; reflexivity).
  assert (Efz : fzel i' = fzel i) by (unfold fzel; rewrite Hf; reflexivity).
  assert (Eg : ghosts i' = ghosts i) by (unfold ghosts; rewrite Hf; reflexivity).
  rewrite Ez, Efz, Eg, Hfc, Hfm, !match_inputs_self.
  repeat (apply andb_true_iff; split); try assumption; try reflexivity.
  - destruct Hc as [-> | ->]; [apply Z.eqb_refl | reflexivity].
  - destruct Hm as [-> | [-> _]]; [apply Z.eqb_refl | reflexivity].
  - unfold r8_active. rewrite Hfm, existsb_none_some.
    destruct Hm as [-> | [-> Hh]]; simpl; [reflexivity | apply Z.eqb_eq; assumption].
Qed.

(** Any complete assignment obeying the rules is accepted as is. *)
Lemma fill_accepts_full i r : rules_full i r = true -> fill (respec i r) = Ok r.
Proof.
  intro H. pose proof H as H0. unfold rules_full in H.
  repeat (apply andb_true_iff in H; destruct H as [H ?]).
  match goal with [ Hx : (length (ofc r) =? length (felez i))%nat = true |- _ ] => apply Nat.eqb_eq in Hx; rename Hx into Lc end.
  match goal with [ Hx : (length (ofm r) =? length (felez i))%nat = true |- _ ] => apply Nat.eqb_eq in Hx; rename Hx into Lm end.
  match goal with [ Hx : (oc r =? zsum (ofc r)) = true |- _ ] => apply Z.eqb_eq in Hx; rename Hx into Hsum end.
  match goal with [ Hx : (1 <=? om r) = true |- _ ] => apply Z.leb_le in Hx; rename Hx into Hpos end.
  match goal with [ Hx : ghost_rule _ _ _ = true |- _ ] => rename Hx into Hgh end.
  assert (Lg : length (ghosts i) = length (felez i)) by (unfold ghosts; apply map_length).
  rewrite ghost_rule_spec in Hgh by congruence.
  unfold fill. cbn [im ifm respec].
  rewrite bad_mult_some_pos by assumption. rewrite existsb_bad_mult_pos by assumption. cbn [orb].
  set (i' := adjust (respec i r)).
  assert (Hi' : candidates i' = [r] /\ rules_ok i' r = true).
  { subst i'. unfold adjust. cbn [zgf respec].
    assert (Eg : ghosts (respec i r) = ghosts i) by reflexivity. rewrite Eg.
    fold (has_ghost i).
    match goal with [ Hx : (if zgf i && has_ghost i then _ else _) = true |- _ ] => rename Hx into Hhs end.
    destruct (zgf i && has_ghost i) eqn:EZ.
    - (* ghost override active: totals cleared, ghost entries pinned to what they already are *)
      try rewrite EZ in Hhs. apply Z.eqb_eq in Hhs.
      cbn [felez ifc ifm respec].
      assert (G0 : forall k x, nth_error (ghosts i) k = Some true -> nth_error (ofc r) k = Some x -> x = 0).
      { intros k x Hk Hx. destruct (nth_error (ofm r) k) as [m|] eqn:Em.
        - destruct (Hgh k x m Hk Hx Em); assumption.
        - exfalso. apply nth_error_None in Em.
          assert (k < length (ofc r))%nat by (apply nth_error_Some; congruence). lia. }
      assert (G1 : forall k x, nth_error (ghosts i) k = Some true -> nth_error (ofm r) k = Some x -> x = 1).
      { intros k x Hk Hx. destruct (nth_error (ofc r) k) as [c|] eqn:Ec.
        - destruct (Hgh k c x Hk Ec Hx); assumption.
        - exfalso. apply nth_error_None in Ec.
          assert (k < length (ofm r))%nat by (apply nth_error_Some; congruence). lia. }
      rewrite (adjust_list_id (ghosts i) (ofc r) 0 ltac:(congruence) G0).
      rewrite (adjust_list_id (ghosts i) (ofm r) 1 ltac:(congruence) G1).
      split.
      + apply candidates_full; cbn; auto.
      + apply (rules_ok_of_full i r H0); cbn; auto.
    - split.
      + apply candidates_full; cbn; auto.
      + apply (rules_ok_of_full i r H0); cbn; auto. }
  destruct Hi' as [-> Hok]. simpl. rewrite Hok. reflexivity.
Qed.

(** The rules are decidable and [Spec] of a result implies them for the re-specified input. *)
Lemma spec_rules_full i0 r :
  wf_in i0 -> fill i0 = Ok r -> rules_full i0 r = true.
Proof.
  intros W H. unfold fill in H. destruct (_ || _); [discriminate|].
  destruct (find _ _) as [r'|] eqn:F; [|discriminate]. injection H as ->.
  apply find_some in F. destruct F as [Hin Hok].
  apply candidates_lengths in Hin. destruct Hin as [Lc Lm].
  pose proof (wf_adjust i0 W) as [Wc Wm].
  assert (Ef : felez (adjust i0) = felez i0) by (unfold adjust; destruct (_ && _); reflexivity).
  assert (Ez : zel (adjust i0) = zel i0) by (unfold zel, fzel; rewrite Ef; reflexivity).
  assert (Efz : fzel (adjust i0) = fzel i0) by (unfold fzel; rewrite Ef; reflexivity).
  assert (Eg : ghosts (adjust i0) = ghosts i0) by (unfold ghosts; rewrite Ef; reflexivity).
  unfold rules_ok in Hok. rewrite Ez, Efz, Eg in Hok.
  repeat (apply andb_true_iff in Hok; destruct Hok as [Hok ?]).
  unfold rules_full.
  repeat (apply andb_true_iff; split); try assumption.
  - apply Nat.eqb_eq. congruence.
  - apply Nat.eqb_eq. congruence.
  - fold (has_ghost i0). destruct (zgf i0 && has_ghost i0) eqn:EZ; [|reflexivity].
    match goal with [ Hx : (if r8_active (adjust i0) then _ else _) = true |- _ ] => rename Hx into Hr8 end.
    assert (E8 : r8_active (adjust i0) = true).
    { unfold adjust. fold (has_ghost i0). rewrite EZ. reflexivity. }
    rewrite E8 in Hr8. exact Hr8.
Qed.

(** A completed assignment fed back is returned unchanged. *)
Lemma fill_fixed_point i r : wf_in i -> fill i = Ok r -> fill (respec i r) = Ok r.
Proof. intros W H. apply fill_accepts_full. apply spec_rules_full; assumption. Qed.

(* ------------------------------------------------------------------------------------------ *)
(** * The default: nothing specified *)

Definition blank (fe : list (list Z)) (zg : bool) : cm_in :=
  {| felez := fe; ic := None; ifc := map (fun _ => None) fe; im := None; ifm := map (fun _ => None) fe; zgf := zg |}.

Definition lowest (z : Z) : Z := if Z.even z then 1 else 2.

Lemma find_first_ok {A} (f : A -> bool) l x :
  In x l -> f x = true -> (forall y, In y l -> f y = true -> y = x) -> find f l = Some x.
Proof.
  induction l as [|a l IH]; intros Hin Hx Hu; [destruct Hin|]. simpl.
  destruct (f a) eqn:Fa.
  - f_equal. apply Hu; [left; reflexivity | assumption].
  - destruct Hin as [->|Hin]; [congruence|]. apply IH; auto. intros y Hy. apply Hu. right. exact Hy.
Qed.

Definition target (fe : list (list Z)) : cm_out :=
  {| oc := 0; ofc := map (fun _ => 0) fe; om := hss (map lowest (map zsum fe)); ofm := map lowest (map zsum fe) |}.

Lemma in_candidates i r : In r (candidates i) <->
  In (oc r) (dedup (exact_c i)) /\ In (ofc r) (cart (map dedup (exact_fc i))) /\
  In (om r) (dedup (exact_m i)) /\ In (ofm r) (cart (map dedup (exact_fm i))).
Proof.
  unfold candidates. split.
  - intro H. apply in_flat_map in H. destruct H as [c [Hc H]].
    apply in_flat_map in H. destruct H as [fc [Hfc H]].
    apply in_flat_map in H. destruct H as [m [Hm H]].
    apply in_map_iff in H. destruct H as [fm [<- Hfm]]. simpl. auto.
  - intros (Hc & Hfc & Hm & Hfm). apply in_flat_map. exists (oc r). split; [assumption|].
    apply in_flat_map. exists (ofc r). split; [assumption|].
    apply in_flat_map. exists (om r). split; [assumption|].
    apply in_map_iff. exists (ofm r). split; [destruct r; reflexivity | assumption].
Qed.

Lemma in_cart x ls : In x (cart ls) <-> Forall2 (fun a l => In a l) x ls.
Proof.
  revert x; induction ls as [|l ls IH]; intro x; simpl.
  - split; [intros [<-|[]]; constructor | intro H; inversion H; left; reflexivity].
  - rewrite in_flat_map. split.
    + intros [a [Ha H]]. apply in_map_iff in H. destruct H as [t [<- Ht]]. constructor; [assumption | apply IH; assumption].
    + intro H. inversion H as [|a l' t ls' Ha Ht]; subst. exists a. split; [assumption|].
      apply in_map_iff. exists t. split; [reflexivity | apply IH; assumption].
Qed.

Lemma dedup_aux_complete seen l x : In x l -> existsb (Z.eqb x) seen = false -> In x (dedup_aux seen l).
Proof.
  revert seen; induction l as [|y l IH]; intros seen Hin Hs; [destruct Hin|]. simpl.
  destruct (existsb (Z.eqb y) seen) eqn:E.
  - destruct Hin as [->|Hin]; [congruence | apply IH; assumption].
  - destruct Hin as [->|Hin]; [left; reflexivity|].
    destruct (Z.eq_dec x y) as [->|Hne]; [left; reflexivity|]. right. apply IH; [assumption|].
    simpl. rewrite Hs. apply Z.eqb_neq in Hne. rewrite Hne. reflexivity.
Qed.

Lemma in_dedup x l : In x (dedup l) <-> In x l.
Proof. split; [apply dedup_aux_in | intro H; apply dedup_aux_complete; [assumption | reflexivity]]. Qed.

Lemma in_zrange x lo n : In x (zrange lo n) <-> lo <= x < lo + Z.of_nat n.
Proof.
  revert lo; induction n as [|n IH]; intro lo; simpl zrange.
  - simpl. lia.
  - simpl In. rewrite IH. lia.
Qed.

Lemma in_py_range x lo hi1 : In x (py_range lo hi1) <-> lo <= x < hi1.
Proof. unfold py_range. rewrite in_zrange. lia. Qed.

Lemma blank_known_sum (fe : list (list Z)) : known_sum (map (fun _ : list Z => @None Z) fe) = 0.
Proof. unfold known_sum. rewrite map_map. induction fe as [|f l IH]; simpl; auto. Qed.

Lemma blank_exact_c fe zg : exact_c (blank fe zg) = [0].
Proof. unfold exact_c, blank; cbn [ic ifc]. rewrite blank_known_sum. reflexivity. Qed.

Lemma blank_exact_fc fe zg : exact_fc (blank fe zg) = map (fun _ => [0; 0]) fe.
Proof. unfold exact_fc, missing_chg, blank; cbn [ic ifc]. rewrite blank_known_sum, map_map. reflexivity. Qed.

Lemma blank_default (fe : list (list Z)) d : apply_default (map (fun _ : list Z => @None Z) fe) d = map (fun _ => d) fe.
Proof. unfold apply_default. rewrite map_map. reflexivity. Qed.

Lemma hss_const (fe : list (list Z)) d : hss (map (fun _ : list Z => d) fe) = 1 + (d - 1) * Z.of_nat (length fe).
Proof. rewrite hss_spec, map_map. induction fe as [|f l IH]; simpl length; simpl map; simpl zsum; [lia|]. lia. Qed.

Lemma blank_exact_m fe zg : exact_m (blank fe zg) = py_range 1 (1 + Z.of_nat (length fe) + 1).
Proof. unfold exact_m, blank; cbn [im ifm]. rewrite !blank_default, !hss_const. f_equal; lia. Qed.

Lemma blank_exact_fm fe zg : exact_fm (blank fe zg) = map (fun _ => [1; 2]) fe.
Proof. unfold exact_fm, missing_mult_bounds, blank; cbn [im ifm]. rewrite map_map. reflexivity. Qed.

Lemma lowest_cases z : (z mod 2 = 0 /\ lowest z = 1) \/ (z mod 2 = 1 /\ lowest z = 2).
Proof.
  unfold lowest. destruct (Z.even z) eqn:E.
  - left. split; [|reflexivity]. apply Z.even_spec in E. destruct E as [k ->].
    rewrite Z.mul_comm. apply Z_mod_mult.
  - right. split; [|reflexivity].
    assert (O : Z.odd z = true) by (rewrite <- Z.negb_even, E; reflexivity).
    apply Z.odd_spec in O. destruct O as [k ->]. rewrite Z.add_comm, Z.mul_comm. rewrite Z_mod_plus_full. reflexivity.
Qed.

Ltac Zify.zify_post_hook ::= Z.to_euclidean_division_equations.

Lemma zsum_zeros {A} (l : list A) : zsum (map (fun _ => 0) l) = 0.
Proof. induction l; simpl; auto. Qed.

Lemma match_inputs_none {A} (l : list A) v : match_inputs (map (fun _ => None) l) v = true.
Proof. revert v; induction l as [|a l IH]; intro v; destruct v; simpl; auto. Qed.

Lemma zsum_cons a l : zsum (a :: l) = a + zsum l.
Proof. reflexivity. Qed.

Lemma lowest_ge1 z : 1 <= lowest z.
Proof. unfold lowest; destruct (Z.even z); lia. Qed.

Lemma lows_sum_le fe : Forall (fun f => 0 <= zsum f) fe ->
  zsum (map (fun m => m - 1) (map lowest (map zsum fe))) <= zsum (map zsum fe)
  /\ 0 <= zsum (map (fun m => m - 1) (map lowest (map zsum fe)))
  /\ exists k, zsum (map zsum fe) = zsum (map (fun m => m - 1) (map lowest (map zsum fe))) + 2 * k.
Proof.
  induction 1 as [|f l Hf Hl IH]; rewrite ?map_cons, ?zsum_cons; [cbn [map]; change (zsum []) with 0|].
  - split; [lia|split; [lia|]]. exists 0; lia.
  - destruct IH as (IH1 & IH2 & k & IH3). destruct (lowest_cases (zsum f)) as [[Hm ->]|[Hm ->]].
    + split; [lia|split; [lia|]]. exists (k + zsum f / 2). lia.
    + split; [lia|split; [lia|]]. exists (k + zsum f / 2). lia.
Qed.

Lemma blank_all3_suff fe : Forall (fun f => 0 <= zsum f) fe ->
  all3 sufficient (map zsum fe) (map (fun _ => 0) fe) (map lowest (map zsum fe)) = true.
Proof.
  induction 1 as [|f l Hf Hl IH]; simpl; [reflexivity|]. rewrite IH, andb_true_r. unfold sufficient.
  destruct (lowest_cases (zsum f)) as [[Hm ->]|[Hm ->]]; lia.
Qed.

Lemma blank_all3_par fe :
  all3 parity_ok (map zsum fe) (map (fun _ => 0) fe) (map lowest (map zsum fe)) = true.
Proof.
  induction fe as [|f l IH]; simpl; [reflexivity|]. rewrite IH, andb_true_r. unfold parity_ok.
  destruct (lowest_cases (zsum f)) as [[Hm ->]|[Hm ->]]; lia.
Qed.

Lemma is_ghost_zsum f : is_ghost f = true -> zsum f = 0.
Proof.
  unfold is_ghost. induction f as [|z f IH]; simpl; [reflexivity|]. intro H. apply andb_true_iff in H.
  destruct H as [Hz Hf]. apply Z.eqb_eq in Hz. rewrite Hz, IH by assumption. reflexivity.
Qed.

Lemma blank_ghost_rule fe :
  ghost_rule (map is_ghost fe) (map (fun _ => 0) fe) (map lowest (map zsum fe)) = true.
Proof.
  induction fe as [|f l IH]; simpl; [reflexivity|]. rewrite IH, andb_true_r.
  destruct (is_ghost f) eqn:G; [|reflexivity]. rewrite (is_ghost_zsum f G). reflexivity.
Qed.

Lemma target_rules_ok fe : Forall (fun f => 0 <= zsum f) fe -> rules_ok (blank fe false) (target fe) = true.
Proof.
  intro H. destruct (lows_sum_le fe H) as (L1 & L2 & k & L3).
  unfold rules_ok, target, blank, zel, fzel, ghosts, r8_active.
  cbn [oc ofc om ofm felez ic ifc im ifm is_none orb].
  rewrite zsum_zeros, !match_inputs_none, blank_all3_suff, blank_all3_par, blank_ghost_rule by assumption.
  rewrite Z.eqb_refl. rewrite (hss_spec (map lowest (map zsum fe))).
  assert (F : forallb (fun m => 1 <=? m) (map lowest (map zsum fe)) = true).
  { apply forallb_forall. intros m Hm. apply in_map_iff in Hm. destruct Hm as [z [<- _]].
    apply Z.leb_le, lowest_ge1. }
  rewrite F. unfold sufficient, parity_ok. cbn [andb].
  repeat (apply andb_true_iff; split); try reflexivity; lia.
Qed.

Lemma fc_zeros (fe : list (list Z)) x :
  Forall2 (fun a l => In a l) x (map dedup (map (fun _ => [0; 0]) fe)) -> x = map (fun _ => 0) fe.
Proof.
  revert x; induction fe as [|f l IH]; intros x H; simpl in H; inversion H as [|a d t ds Ha Ht]; subst; [reflexivity|].
  simpl. f_equal; [|apply IH; assumption]. change (dedup [0; 0]) with [0] in Ha. destruct Ha as [<-|[]]. reflexivity.
Qed.

Lemma fm_lows (fe : list (list Z)) x :
  Forall2 (fun a l => In a l) x (map dedup (map (fun _ => [1; 2]) fe)) ->
  all3 parity_ok (map zsum fe) (map (fun _ => 0) fe) x = true -> x = map lowest (map zsum fe).
Proof.
  revert x; induction fe as [|f l IH]; intros x H P; simpl in H; inversion H as [|a d t ds Ha Ht]; subst; [reflexivity|].
  simpl in P. apply andb_true_iff in P. destruct P as [P1 P2]. simpl. f_equal; [|apply IH; assumption].
  change (dedup [1; 2]) with [1; 2] in Ha. unfold parity_ok in P1.
  destruct (lowest_cases (zsum f)) as [[Hm ->]|[Hm ->]]; destruct Ha as [<-|[<-|[]]]; lia.
Qed.

Lemma target_unique fe y :
  In y (candidates (blank fe false)) -> rules_ok (blank fe false) y = true -> y = target fe.
Proof.
  intros Hin Hok. apply in_candidates in Hin. destruct Hin as (Hc & Hfc & _ & Hfm).
  rewrite blank_exact_c in Hc. rewrite blank_exact_fc in Hfc. rewrite blank_exact_fm in Hfm.
  change (dedup [0]) with [0] in Hc. destruct Hc as [Hc|[]].
  apply in_cart in Hfc. apply fc_zeros in Hfc. apply in_cart in Hfm.
  unfold rules_ok in Hok. repeat (apply andb_true_iff in Hok; destruct Hok as [Hok ?]).
  match goal with [ Hx : all3 parity_ok _ _ _ = true |- _ ] => rename Hx into Hpar end.
  match goal with [ Hx : (if r8_active _ then _ else _) = true |- _ ] => rename Hx into Hr8 end.
  unfold fzel, blank in Hpar; cbn [felez] in Hpar. rewrite Hfc in Hpar.
  apply fm_lows in Hfm; [|assumption].
  unfold r8_active, blank in Hr8; cbn [im is_none orb] in Hr8. apply Z.eqb_eq in Hr8.
  destruct y as [yc yfc ym yfm]; cbn [oc ofc om ofm] in *. subst. reflexivity.
Qed.

Lemma target_in_candidates fe : Forall (fun f => 0 <= zsum f) fe -> In (target fe) (candidates (blank fe false)).
Proof.
  intro H. destruct (lows_sum_le fe H) as (L1 & L2 & k & L3).
  apply in_candidates. unfold target; cbn [oc ofc om ofm].
  rewrite blank_exact_c, blank_exact_fc, blank_exact_m, blank_exact_fm. repeat split.
  - left; reflexivity.
  - apply in_cart. clear. induction fe as [|f l IH]; simpl; constructor; [left; reflexivity | exact IH].
  - apply in_dedup, in_py_range. rewrite hss_spec.
    assert (B : zsum (map (fun m => m - 1) (map lowest (map zsum fe))) <= Z.of_nat (length fe)).
    { clear. induction fe as [|f l IH]; simpl length; simpl map; simpl zsum; [lia|].
      destruct (lowest_cases (zsum f)) as [[_ ->]|[_ ->]]; lia. }
    lia.
  - apply in_cart. clear. induction fe as [|f l IH]; simpl; constructor; [|exact IH].
    change (dedup [1; 2]) with [1; 2]. destruct (lowest_cases (zsum f)) as [[_ ->]|[_ ->]]; simpl; auto.
Qed.

(** With nothing specified the result is neutral with the lowest multiplicity per fragment
    (and the high-spin total). *)
Lemma fill_default fe : Forall (fun f => 0 <= zsum f) fe -> fill (blank fe false) = Ok (target fe).
Proof.
  intro H. unfold fill.
  assert (B : bad_mult (im (blank fe false)) || existsb bad_mult (ifm (blank fe false)) = false).
  { unfold blank; cbn [im ifm bad_mult orb]. clear. induction fe as [|f l IH]; simpl; auto. }
  rewrite B. assert (A : adjust (blank fe false) = blank fe false) by reflexivity. rewrite A.
  rewrite (find_first_ok _ _ (target fe)); [reflexivity | | |].
  - apply target_in_candidates; assumption.
  - apply target_rules_ok; assumption.
  - intros y Hy Hok. apply target_unique; assumption.
Qed.
