(** C12 — the translated kabsch_align (Gen/KabschAlign.v) is the hand-written model (Model/Kabsch.v) for
    weight=None, and its weighted form is optimal on the weighted, centred point sets. *)
From Coq Require Import Reals List Arith Lia Bool.
Require Import QV.Common.Outcome QV.Common.AlignAlg QV.Common.AlignAlgFacts QV.Common.AlignAlgQuat QV.Common.AlignAlgR
               QV.Gen.Quat QV.Model.Mill QV.Model.Kabsch QV.Gen.KabschAlign
               QV.Proofs.Kabsch QV.Proofs.KabschR QV.Proofs.KabschSurj.
Import ListNotations.

Section GenRing.
Context {K : Type} {KO : Ops K} {KD : DivOps K} {KR : RingLaws K}.
Add Ring KRing7 : (@ring_laws K KO KR).
Local Open Scope K_scope.

Lemma scale_rows_ones (X : list (vec3 K)) n : (length X <= n)%nat -> scale_rows (repeat 1 n) X = X.
Proof.
  revert n. induction X as [|v X IH]; intros n H; [destruct n; reflexivity|].
  destruct n; cbn [length] in H; [lia|]. cbn [repeat scale_rows]. f_equal; [|apply IH; lia].
  destruct v as [[a b] c]. cbv [vscale]. vec3_ring.
Qed.

(** weight=None: w = np.ones(N), so sw = ones; the translated function is the hand-written model *)
Theorem gen_kabsch_align_is_model eigtop atol rtol (R C : list (vec3 K)) :
  length R = length C ->
  gen_kabsch_align eigtop atol rtol (repeat 1 (length R)) R C = kabsch_align eigtop atol rtol R C.
Proof.
  intros HL. unfold gen_kabsch_align, kabsch_align.
  destruct (allclose atol rtol R C); [reflexivity|].
  rewrite !scale_rows_ones by (rewrite map_length; lia). reflexivity.
Qed.
End GenRing.

(** weighted alignment: with sw = sqrt(w), the reported residual is the minimum, over all proper rotations,
    of sum_k w_k |r'_k - c'_k . M|^2 (r', c' centred on the plain centroids, as the code does) *)
Definition weighted_F (sw : list R) (Rg Cg : list (vec3 R)) : mat4 R :=
  genF (cov_of (scale_rows sw (centred (length Rg) Rg)) (scale_rows sw (centred (length Rg) Cg))).

Lemma scale_rows_length (sw : list R) X : length sw = length X -> length (scale_rows sw X) = length X.
Proof.
  revert X. induction sw as [|s sw IH]; intros [|v X] H; cbn in *; try discriminate; [reflexivity|].
  f_equal. apply IH. lia.
Qed.

Theorem weighted_kabsch_align_optimal eigtop atol rtol (sw : list R) Rg Cg :
  eigtop_ok eigtop (weighted_F sw Rg Cg) -> length Rg = length Cg -> length sw = length Rg ->
  allclose atol rtol Rg Cg = false ->
  let o := gen_kabsch_align eigtop atol rtol sw Rg Cg in
  proper (k_rot o) /\
  forall M, proper M ->
    (k_ssd o <= residual_rot (scale_rows sw (centred (length Rg) Rg)) (scale_rows sw (centred (length Rg) Cg)) M)%R.
Proof.
  intros [w [V [HV Eq]]] HL Hsw HC o. unfold weighted_F in HV, Eq.
  destruct (top_eigvec_optimal _ w V HV) as [_ [_ Hunit]].
  destruct (U_proper (m4col V 3) Hunit) as [[HO _] HD].
  subst o. unfold gen_kabsch_align. rewrite HC. cbn [k_rot k_ssd].
  unfold kabsch_quaternion. fold (centred (length Rg) Rg). fold (centred (length Rg) Cg).
  rewrite Eq. split; [split; assumption|].
  intros M HM. apply (kabsch_optimal_over_proper_rotations _ _ w V); try assumption.
  rewrite !scale_rows_length; rewrite ?centred_length; lia.
Qed.
