(** C19 — special values of the binary64 closeness tests, from the FloatAxioms specifications of the kernel primitives
    (the same trusted base as Proofs/CompareReal.v; the structural theorems of Proofs/Compare.v use none of it):
    NaNs are equal only on request; the complex test on data with zero imaginary parts is the real test. *)
From Coq Require Import Floats ZArith Bool.
Require Import QV.Model.Compare.
Local Open Scope float_scope.

Lemma prim_inj x y : Prim2SF x = Prim2SF y -> x = y.
Proof. intro H. rewrite <- (SF2Prim_Prim2SF x), <- (SF2Prim_Prim2SF y), H. reflexivity. Qed.

Lemma SFeqb_refl_notnan v : v <> S754_nan -> SFeqb v v = true.
Proof.
  destruct v as [[]|[]| |[] m e]; intro H; try reflexivity; try congruence;
  unfold SFeqb, SFcompare; rewrite Z.compare_refl, ?Pos.compare_refl; try reflexivity;
  rewrite Pos.compare_cont_refl; reflexivity.
Qed.

Lemma is_nan_eq x : PrimFloat.is_nan x = true -> x = nan.
Proof.
  unfold PrimFloat.is_nan. rewrite FloatAxioms.eqb_spec. intro H. apply prim_inj.
  destruct (Prim2SF x) eqn:E; try reflexivity;
  rewrite SFeqb_refl_notnan in H by discriminate; discriminate.
Qed.

Lemma eqb_nan_l y : (nan =? y) = false.
Proof. rewrite FloatAxioms.eqb_spec. reflexivity. Qed.
Lemma eqb_nan_r x : (x =? nan) = false.
Proof. rewrite FloatAxioms.eqb_spec. destruct (Prim2SF x) as [[]|[]| |[] m e]; reflexivity. Qed.
Lemma leb_nan_l y : (nan <=? y) = false.
Proof. rewrite FloatAxioms.leb_spec. reflexivity. Qed.
Lemma sub_nan_l y : nan - y = nan.
Proof. apply prim_inj. rewrite FloatAxioms.sub_spec. reflexivity. Qed.
Lemma sub_nan_r x : x - nan = nan.
Proof. apply prim_inj. rewrite FloatAxioms.sub_spec. destruct (Prim2SF x) as [[]|[]| |[] m e]; reflexivity. Qed.

Theorem isclose_f_nan a r eqn c e :
  PrimFloat.is_nan c = true \/ PrimFloat.is_nan e = true ->
  isclose_f a r eqn c e = eqn && PrimFloat.is_nan c && PrimFloat.is_nan e.
Proof.
  intros [H|H]; apply is_nan_eq in H; subst; unfold isclose_f.
  - rewrite sub_nan_l. change (abs nan) with nan. rewrite leb_nan_l, eqb_nan_l. simpl.
    change (PrimFloat.is_nan nan) with true. rewrite andb_true_r. reflexivity.
  - change (PrimFloat.is_finite nan) with false. rewrite andb_false_r, eqb_nan_r. simpl.
    change (PrimFloat.is_nan nan) with true. rewrite andb_true_r. reflexivity.
Qed.

(* hypot x 0 = |x| *)
Lemma is_inf_abs x : PrimFloat.is_infinity x = true -> abs x = infinity.
Proof.
  unfold PrimFloat.is_infinity. rewrite FloatAxioms.eqb_spec, FloatAxioms.abs_spec. intro H. apply prim_inj.
  rewrite FloatAxioms.abs_spec.
  change (Prim2SF infinity) with (S754_infinity false) in *.
  destruct (Prim2SF x) as [[]|[]| |[] m e]; simpl in H; try discriminate H; reflexivity.
Qed.

Theorem hypot_zero_r x : hypot x 0 = abs x.
Proof.
  unfold hypot. change (PrimFloat.is_infinity 0) with false. change (PrimFloat.is_nan 0) with false.
  rewrite !orb_false_r.
  destruct (PrimFloat.is_infinity x) eqn:Ei.
  - symmetry. apply is_inf_abs. exact Ei.
  - destruct (PrimFloat.is_nan x) eqn:En.
    + apply is_nan_eq in En. subst. reflexivity.
    + reflexivity.
Qed.

Theorem isclose_c_real_axis a r eqn c e :
  isclose_c a r eqn (c, fzero) (e, fzero) = isclose_f a r eqn c e.
Proof.
  unfold isclose_c, isclose_f. change (fzero - fzero) with 0. rewrite !hypot_zero_r.
  change (PrimFloat.is_finite fzero) with true. change (fzero =? fzero) with true. change (PrimFloat.is_nan fzero) with false.
  rewrite !andb_true_r, !orb_false_r. reflexivity.
Qed.
