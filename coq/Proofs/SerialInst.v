(** C10 — proofs about Model/SerialInst.v: model instances survive the four encodings. *)
From Coq Require Import ZArith List String Bool Ascii Lia.
Require Import QV.Common.Outcome QV.Gen.SuffixMaps QV.Model.Results QV.Model.Serial QV.Model.SerialInst
  QV.Proofs.Results QV.Proofs.Serial.
Import ListNotations.
Local Open Scope string_scope.
Local Open Scope list_scope.
Local Open Scope Z_scope.

Lemma list_eqb_Z_eq a b : list_eqb Z.eqb a b = true -> a = b.
Proof.
  revert b. induction a as [|x r IH]; destruct b as [|y t]; simpl; intro H; try discriminate; [reflexivity|].
  apply andb_true_iff in H. destruct H as [H1 H2]. apply Z.eqb_eq in H1. subst. f_equal. apply IH. exact H2.
Qed.

Lemma leaves_normalise l : Forall (fun x => is_leaf x = true) l -> map normalise l = l.
Proof. induction 1 as [|x r Hx _ IH]; simpl; [reflexivity|]. rewrite IH. f_equal. destruct x; simpl in *; try reflexivity; discriminate. Qed.

Section InstProofs.
  Variable elems : ndarray -> list value.
  Variable of_elems : string -> list value -> string.
  Variable sc : ndarray -> value.
  (** numpy's element conversion, as far as the round trip needs it *)
  Hypothesis EL1 : forall a, wf_arrb a = true -> of_elems (dt a) (elems a) = data a.
  Hypothesis EL2 : forall a, wf_arrb a = true -> zlen (elems a) = prodz (shape a).
  Hypothesis EL3 : forall a, Forall (fun x => is_leaf x = true) (elems a).

  Notation parse := (parse of_elems).
  Notation flat_tree := (flat_tree elems sc).

  Lemma parse_any w : parse SAny w = Ok w.
  Proof. destruct w; reflexivity. Qed.

  Lemma wf_shape_nonnil a : wf_arrb a = true -> shape a <> [].
  Proof.
    unfold wf_arrb. destruct (itemsize (dt a)); [|discriminate]. intro H. apply andb_true_iff in H. destruct H as [_ H].
    destruct (shape a); [discriminate|discriminate].
  Qed.

  (** parsing an instance that is already valid changes nothing (up to tuple -> list) *)
  Lemma parse_id fl : forall m s, conforms fl s m = true -> parse s (normalise m) = Ok (normalise m).
  Proof.
    induction m using value_ind'; intros s0 Hc; try (destruct s0; simpl in *; try discriminate; reflexivity).
    - (* list *)
      destruct s0 as [| | s' |]; simpl in Hc; try discriminate; [reflexivity|].
      simpl. rewrite forallb_forall in Hc. rewrite Forall_forall in H.
      rewrite (omap_map (parse s') normalise normalise); [reflexivity|]. intros x Hx. apply H; [exact Hx|apply Hc; exact Hx].
    - (* dict *)
      destruct s0 as [| | |fields]; simpl in Hc; try discriminate; [reflexivity|].
      simpl. rewrite forallb_forall in Hc. rewrite Forall_forall in H.
      rewrite (omap_map _ (fun kv => (fst kv, normalise (snd kv))) (fun kv => (fst kv, normalise (snd kv)))); [reflexivity|].
      intros kv Hin. specialize (Hc kv Hin). simpl. destruct (fst kv) as [k|k]; [|discriminate].
      apply andb_true_iff in Hc. destruct Hc as [_ Hc]. destruct (sget k fields) as [s'|]; [|discriminate].
      rewrite (H kv Hin s' Hc). reflexivity.
    - (* array *)
      destruct s0 as [|dts [d|]| |]; simpl in Hc; try discriminate; simpl; try reflexivity.
      + apply andb_true_iff in Hc. destruct Hc as [Hc Hd]. apply andb_true_iff in Hc. destruct Hc as [He _]. rewrite He.
        destruct (reshape_dims (prodz (shape a)) d) as [sh|]; [|discriminate]. apply list_eqb_Z_eq in Hd. subst sh.
        destruct a; reflexivity.
      + apply andb_true_iff in Hc. destruct Hc as [Hc _]. apply andb_true_iff in Hc. destruct Hc as [He _]. rewrite He. reflexivity.
  Qed.

  (** under a flat encoding an Any-typed subtree holds no arrays, so flattening does nothing to it *)
  Lemma flat_plain : forall m, conforms true SAny m = true -> normalise (flat_tree m) = normalise m.
  Proof.
    induction m using value_ind'; intro Hc; try reflexivity.
    - simpl in *. rewrite forallb_forall in Hc. rewrite Forall_forall in H. f_equal. rewrite map_map.
      apply map_ext_in. intros x Hx. apply H; [exact Hx|apply Hc; exact Hx].
    - simpl in *. rewrite forallb_forall in Hc. rewrite Forall_forall in H. f_equal. rewrite map_map.
      apply map_ext_in. intros x Hx. apply H; [exact Hx|apply Hc; exact Hx].
    - simpl in *. rewrite forallb_forall in Hc. rewrite Forall_forall in H. f_equal. rewrite map_map.
      apply map_ext_in. intros kv Hin. simpl. f_equal. apply H; [exact Hin|].
      specialize (Hc kv Hin). apply andb_true_iff in Hc. tauto.
    - simpl in Hc. discriminate.
  Qed.

  Lemma reshape_flat_1 n : reshape_dims n [-1] = Ok [n].
  Proof. unfold reshape_dims. simpl. rewrite Z.mod_1_r. simpl. rewrite Z.div_1_r. reflexivity. Qed.

  (** ** flat encodings: json, msgpack *)
  Theorem flat_model_roundtrip : forall m s, conforms true s m = true -> parse_flat of_elems s (ser_flat elems sc m) = Ok (normalise m).
  Proof.
    unfold parse_flat, ser_flat.
    induction m using value_ind'; intros s0 Hc; try (destruct s0; simpl in *; try discriminate; reflexivity).
    - (* list *)
      destruct s0 as [| | s' |]; simpl in Hc; try discriminate.
      + rewrite parse_any. apply f_equal. apply (flat_plain (VList l)). exact Hc.
      + simpl. rewrite map_map. rewrite forallb_forall in Hc. rewrite Forall_forall in H.
        rewrite (omap_map (parse s') (fun x => normalise (flat_tree x)) normalise); [reflexivity|].
        intros x Hx. apply H; [exact Hx|apply Hc; exact Hx].
    - (* tuple *)
      destruct s0; simpl in Hc; try discriminate. rewrite parse_any. apply f_equal. apply (flat_plain (VTuple l)). exact Hc.
    - (* dict *)
      destruct s0 as [| | |fields]; simpl in Hc; try discriminate.
      + rewrite parse_any. apply f_equal. apply (flat_plain (VDict d)). exact Hc.
      + simpl. rewrite map_map. simpl. rewrite forallb_forall in Hc. rewrite Forall_forall in H.
        rewrite (omap_map _ (fun kv => (fst kv, normalise (flat_tree (snd kv)))) (fun kv => (fst kv, normalise (snd kv)))); [reflexivity|].
        intros kv Hin. specialize (Hc kv Hin). simpl. destruct (fst kv) as [k|k]; [|discriminate].
        apply andb_true_iff in Hc. destruct Hc as [_ Hc]. destruct (sget k fields) as [s'|]; [|discriminate].
        rewrite (H kv Hin s' Hc). reflexivity.
    - (* array: written as the flat list of its elements, restored by cast + reshape *)
      destruct s0 as [|dts dims| |]; simpl in Hc; try discriminate.
      apply andb_true_iff in Hc. destruct Hc as [Hc Hd]. apply andb_true_iff in Hc. destruct Hc as [He Hwf].
      apply String.eqb_eq in He. pose proof (wf_shape_nonnil a Hwf) as Hne.
      simpl. destruct (shape a) as [|d0 rest] eqn:Es; [congruence|]. simpl.
      rewrite (leaves_normalise _ (EL3 a)). simpl. rewrite (EL2 a Hwf), Es.
      destruct dims as [d|].
      + destruct (reshape_dims (prodz (d0 :: rest)) d) as [sh|]; [|discriminate]. apply list_eqb_Z_eq in Hd. subst sh.
        rewrite <- He, (EL1 a Hwf). destruct a; simpl in *. subst. reflexivity.
      + destruct rest; [|discriminate]. rewrite reshape_flat_1. unfold prodz; simpl. rewrite Z.mul_1_r.
        rewrite <- He, (EL1 a Hwf). destruct a; simpl in *. subst. reflexivity.
  Qed.

  (** ** ext encodings: json-ext, msgpack-ext *)
  Lemma conforms_payload_ok c : (k_nd c = KStr "_nd_" \/ k_nd c = KBytes "_nd_") ->
    forall m s, conforms false s m = true -> payload_ok c m = true.
  Proof.
    intro Hk. induction m using value_ind'; intros s0 Hc; try reflexivity.
    - destruct s0 as [| | s' |]; simpl in Hc; try discriminate; simpl; rewrite forallb_forall in *; rewrite Forall_forall in H;
        intros x Hx; eapply H; eauto.
    - destruct s0; simpl in Hc; try discriminate; simpl; rewrite forallb_forall in *; rewrite Forall_forall in H;
        intros x Hx; eapply H; eauto.
    - destruct s0 as [| | |fields]; simpl in Hc; try discriminate; simpl; rewrite forallb_forall in Hc; rewrite Forall_forall in H;
        apply andb_true_iff; split.
      + apply negb_true_iff. apply not_true_is_false. intro E. apply existsb_exists in E. destruct E as [kv [Hin E]].
        specialize (Hc kv Hin). apply andb_true_iff in Hc. destruct Hc as [Hc _].
        destruct Hk as [Hk|Hk]; rewrite Hk in E; destruct (fst kv) as [k|k]; unfold key_eqb in E; try discriminate;
          rewrite String.eqb_sym in E; rewrite E in Hc; discriminate.
      + apply forallb_forall. intros kv Hin. specialize (Hc kv Hin). apply andb_true_iff in Hc. eapply H; [exact Hin|apply Hc].
      + apply negb_true_iff. apply not_true_is_false. intro E. apply existsb_exists in E. destruct E as [kv [Hin E]].
        specialize (Hc kv Hin). destruct (fst kv) as [k|k]; [|discriminate]. apply andb_true_iff in Hc. destruct Hc as [Hc _].
        destruct Hk as [Hk|Hk]; rewrite Hk in E; unfold key_eqb in E; try discriminate.
        rewrite String.eqb_sym in E; rewrite E in Hc; discriminate.
      + apply forallb_forall. intros kv Hin. specialize (Hc kv Hin). destruct (fst kv) as [k|k]; [|discriminate].
        apply andb_true_iff in Hc. destruct Hc as [_ Hc]. destruct (sget k fields) as [s'|]; [|discriminate].
        eapply H; [exact Hin|exact Hc].
    - destruct s0 as [|dts dims| |]; simpl in Hc; try discriminate; simpl.
      + exact Hc.
      + apply andb_true_iff in Hc. destruct Hc as [Hc _]. apply andb_true_iff in Hc. tauto.
  Qed.

  Theorem ext_model_roundtrip c : codec_ok c -> (k_nd c = KStr "_nd_" \/ k_nd c = KBytes "_nd_") ->
    forall m s, conforms false s m = true -> parse_ext of_elems c s (ser_ext sc c m) = Ok (normalise m).
  Proof.
    intros OK Hk m s0 Hc. unfold parse_ext, ser_ext.
    pose proof (ext_tree_roundtrip c sc OK m (conforms_payload_ok c Hk m s0 Hc)) as R. unfold roundtrip, wire in R.
    rewrite R. simpl. apply (parse_id false). exact Hc.
  Qed.

  (** ** serialising what was parsed gives the payload that was parsed *)
  Lemma reser_flat : forall m, ser_flat elems sc (normalise m) = ser_flat elems sc m.
  Proof.
    unfold ser_flat. induction m using value_ind'; try reflexivity.
    - simpl. f_equal. rewrite !map_map. rewrite Forall_forall in H. apply map_ext_in. exact H.
    - simpl. f_equal. rewrite !map_map. rewrite Forall_forall in H. apply map_ext_in. exact H.
    - simpl. f_equal. rewrite !map_map. rewrite Forall_forall in H. apply map_ext_in. intros kv Hin. simpl. f_equal. apply H. exact Hin.
  Qed.

  Lemma reser_ext c : forall m, ser_ext sc c (normalise m) = ser_ext sc c m.
  Proof.
    unfold ser_ext. induction m using value_ind'; try reflexivity.
    - simpl. f_equal. rewrite !map_map. rewrite Forall_forall in H. apply map_ext_in. exact H.
    - simpl. f_equal. rewrite !map_map. rewrite Forall_forall in H. apply map_ext_in. exact H.
    - simpl. f_equal. rewrite !map_map. rewrite Forall_forall in H. apply map_ext_in. intros kv Hin. simpl. f_equal. apply H. exact Hin.
  Qed.
End InstProofs.
