(** C19 — the generated glue (Gen/CompareGlue.v, regenerated from qcelemental/testing.py on every run by
    harness/translate/cmpglue.py) against the hand-written model (Model/Compare.v): every lemma is "generated = hand
    model" for all inputs, so an edit of the source that changes a default, the isinstance ladder, an operand order, the
    match test, a return site, ... breaks a proof here (and the correspondence finds the failing input). *)
From Coq Require Import PrimFloat ZArith List Bool String.
Require Import QV.Model.Compare QV.Gen.CompareGlue QV.Proofs.Compare.
Import ListNotations.
Local Open Scope string_scope.

(* ------------------------------------------------------------------------------------------ *)
(** * keyword defaults: the documented ones (atol = 1e-6, rtol = 1e-16 as binary64, every flag off) *)

Definition doc_cvopts : cvopts :=
  {| atol := 0x1.0c6f7a0b5ed8dp-20; rtol := 0x1.cd2b297d889bcp-54; equal_nan := false; cv_phase := false; passnone := false |}.
Definition doc_cropts : cropts :=
  {| r_atol := 0x1.0c6f7a0b5ed8dp-20; r_rtol := 0x1.cd2b297d889bcp-54; forgive := []; r_phase := EpBool false |}.
Definition doc_ropts : ropts := {| quiet := false; return_message := false |}.

Theorem defaults_documented :
  gen_values_defaults = doc_cvopts /\ gen_values_ropts = doc_ropts /\
  gen_compare_phase = false /\ gen_compare_ropts = doc_ropts /\
  gen_rec_defaults = doc_cropts /\ gen_rec_ropts = doc_ropts /\
  gen_mol_defaults = doc_cropts /\ gen_mol_verbose = 1%Z /\ gen_mol_return_message = false /\
  gen_mol_relative_geoms = "exact".
Proof. repeat split. Qed.

(* ------------------------------------------------------------------------------------------ *)
(** * the isinstance ladder *)

(** the dispatch of the hand model, read off [leaf_ok] / [cmp_rec] *)
Definition hand_action (t : tree) : action :=
  match t with
  | TSc np s =>
      match s with
      | SStr _ | SCplx _ _ | SBool _ => AExact
      | SInt _ => if np then AValues else AExact
      | SFloat _ => AValues
      | SNone => ANone
      | SObj => AUnknown
      end
  | TList _ => ASeq
  | TDict _ => ADict
  | TArr _ _ _ => AArray
  | TOther => AUnknown
  end.

Lemma gen_dispatch_hand t : gen_dispatch (pytype_of t) = hand_action t.
Proof. destruct t as [np s| | | |]; try reflexivity. destruct s, np; reflexivity. Qed.

(** tuples take the branch of lists ([TList] stands for both) *)
Lemma tuple_as_list : gen_dispatch PyTuple = gen_dispatch PyList.
Proof. reflexivity. Qed.

(** a pydantic model is converted before the ladder; none of the modelled node types is one *)
Lemma no_node_is_basemodel t : gen_isinst (pytype_of t) CBaseModel = false.
Proof. destruct t as [np s| | | |]; try reflexivity. destruct s, np; reflexivity. Qed.

Lemma gen_leaf_cvopts_eq o ph : gen_leaf_cvopts o ph = cv_of o ph.
Proof. reflexivity. Qed.

Lemma gen_floating_eq dt : gen_floating dt = match dt with DFloat => true | _ => false end.
Proof. destruct dt; reflexivity. Qed.

Lemma gen_child_eq name key : gen_child name key = child name key.
Proof. unfold gen_child, child. apply sapp_assoc. Qed.

(** what [cmp_rec] does at a node is what the generated ladder selects for the node's Python type *)
Theorem cmp_rec_by_ladder o ph name e c :
  cmp_rec o ph name e c =
  match gen_dispatch (pytype_of e) with
  | AExact => match e with TSc _ s => ok_errs name (exact_ok s c) | _ => Unmodelled end
  | AValues => ok_errs name (compare_values (gen_leaf_cvopts o ph) e c)
  | ANone => ok_errs name (Ok (is_none_tree c))
  | AArray => ok_errs name (match e with
                            | TArr dt _ _ => if gen_floating dt then compare_values (gen_leaf_cvopts o ph) e c else compare ph e c
                            | _ => Unmodelled
                            end)
  | ASeq => match e with
            | TList es =>
                match as_items c with
                | ItemsUnm => Unmodelled
                | ItemsNone => Ok [name]
                | Items cs => if negb (Nat.eqb (List.length es) (List.length cs)) then Ok [name]
                              else cmp_items (cmp_rec o ph) name es cs 0
                end
            | _ => Unmodelled
            end
  | ADict => match e with
             | TDict ed =>
                 match c with
                 | TDict cd => bind (cmp_keys (cmp_rec o ph) name ed cd) (fun ch => Ok (dict_head name ed cd ++ ch)%list)
                 | _ => Raise EAttribute
                 end
             | _ => Unmodelled
             end
  | AUnknown => Ok [name]
  end.
Proof.
  rewrite gen_dispatch_hand.
  destruct e as [np s|es|ed|dt sh data|].
  - destruct s, np; reflexivity.
  - apply cmp_rec_list.
  - apply cmp_rec_dict.
  - cbn [hand_action]. rewrite gen_floating_eq. destruct dt; reflexivity.
  - reflexivity.
Qed.

(** the names of the children are built as the code builds them *)
Lemma cmp_items_names rec name es cs i :
  cmp_items rec name es cs i =
  match es, cs with
  | e' :: es', c' :: cs' =>
      bind (rec (gen_child name (str_of_nat i)) e' c') (fun a => bind (cmp_items rec name es' cs' (S i)) (fun b => Ok (a ++ b)%list))
  | _, _ => Ok []
  end.
Proof. destruct es, cs; try reflexivity. simpl. rewrite gen_child_eq. reflexivity. Qed.

(* ------------------------------------------------------------------------------------------ *)
(** * np.isclose: operand order and keywords; the phase retry *)

Lemma gen_close_f_eq o : gen_close_f o = close_f o.
Proof. reflexivity. Qed.
Lemma gen_close_c_eq o : gen_close_c o = close_c o.
Proof. reflexivity. Qed.
Lemma gen_retry_f_eq o c e : gen_retry_f o c e = close_f o (PrimFloat.opp c) e.
Proof. reflexivity. Qed.
Lemma gen_retry_c_eq o c e : gen_retry_c o c e = close_c o (neg_c c) e.
Proof. reflexivity. Qed.

Lemma all2_map {A} (close : A -> A -> bool) (neg : A -> A) cs : forall es,
  all2 close (map neg cs) es = all2 (fun c e => close (neg c) e) cs es.
Proof. induction cs as [|c cs IH]; intros [|e es]; simpl; try reflexivity. rewrite IH. reflexivity. Qed.

(** the verdict on the cast data: all close by the generated first call, else (on request) all close by the generated
    retry call *)
Theorem judge_by_generated_calls o cs es cs' es' :
  judge (close_f o) PrimFloat.opp (cv_phase o) cs es =
    (if all2 (gen_close_f o) cs es then true else if cv_phase o then all2 (gen_retry_f o) cs es else false) /\
  judge (close_c o) neg_c (cv_phase o) cs' es' =
    (if all2 (gen_close_c o) cs' es' then true else if cv_phase o then all2 (gen_retry_c o) cs' es' else false).
Proof. unfold judge. rewrite !all2_map. split; reflexivity. Qed.

(* ------------------------------------------------------------------------------------------ *)
(** * entry normalisation, match test, refusal, return sites *)

Theorem matching_generated :
  (forall s, gen_rootify_fg s = rootify s) /\ (forall s, gen_rootify_ep s = rootify s) /\
  (forall fg n, gen_matches_fg fg n = matches fg n) /\ (forall fg n, gen_matches_ep fg n = matches fg n) /\
  (forall a, gen_refuse_atol a = PrimFloat.leb fone a).
Proof. repeat split. Qed.

(** compare_recursive, with every generated piece in place of the hand-written one *)
Theorem compare_recursive_by_generated o e c :
  compare_recursive o e c =
  if gen_refuse_atol (r_atol o) then Raise EValue
  else
    bind (cmp_rec (lo_of o) false "root" e c) (fun errs =>
    bind (if negb (is_nil errs) && ep_truthy (r_phase o) then
            bind (cmp_rec (lo_of o) true "root" e c) (fun nerrs =>
            Ok (prune (fun n => existsb (fun ep => gen_matches_ep ep n)
                                        (match r_phase o with
                                         | EpBool true => errs | EpBool false => [] | EpList l => map gen_rootify_ep l
                                         end)
                                && negb (smem n nerrs)) errs))
          else Ok errs) (fun errs1 =>
    Ok (is_nil (prune (fun n => existsb (fun fg => gen_matches_fg fg n) (map gen_rootify_fg (forgive o))) errs1)))).
Proof. reflexivity. Qed.

(** verdict handed to return_handler at the return sites, in the code's order: compare_values — True (passnone), False
    (not cast-able), False (shape), allclose; compare — False, False, allclose; compare_recursive — no error left *)
Theorem return_sites :
  gen_values_returns = [RTrue; RFalse; RFalse; RAllclose] /\
  gen_compare_returns = [RFalse; RFalse; RAllclose] /\
  gen_rec_returns = [RNoErrors].
Proof. repeat split. Qed.

(* ------------------------------------------------------------------------------------------ *)
(** * compare_molrecs and ProtoModel.compare *)

Theorem molrecs_glue :
  gen_massage_keys = ["fragment_files"; "fragment_separators"; "provenance"; "connectivity"] /\
  gen_mol_forward = ["atol"; "forgive"; "rtol"] /\
  (forall (R : Type) (H : bool -> ropts -> R) v rm o e c,
     compare_molrecs_full H v rm o e c =
     with_handler H {| quiet := gen_mol_quiet v; return_message := rm |} (compare_molrecs o e c)).
Proof. repeat split. Qed.

(** a key massage_dicts does not name is passed through untouched *)
Lemma smem_false_neq k l k' : smem k l = false -> In k' l -> String.eqb k k' = false.
Proof.
  unfold smem. intros H Hin. destruct (String.eqb k k') eqn:E; [|reflexivity].
  assert (existsb (String.eqb k) l = true) by (apply existsb_exists; exists k'; split; assumption). congruence.
Qed.

Theorem massage_other_keys popv k v r :
  smem k gen_massage_keys = false ->
  massage_items popv ((k, v) :: r) = bind (massage_items popv r) (fun r' => Ok ((k, v) :: r')).
Proof.
  intro H. cbn [massage_items].
  rewrite (smem_false_neq k gen_massage_keys "fragment_files" H) by (simpl; tauto).
  rewrite (smem_false_neq k gen_massage_keys "fragment_separators" H) by (simpl; tauto).
  rewrite (smem_false_neq k gen_massage_keys "provenance" H) by (simpl; tauto).
  rewrite (smem_false_neq k gen_massage_keys "connectivity" H) by (simpl; tauto).
  reflexivity.
Qed.

(** the reporting options of compare_molrecs (verbose, return_message, return_handler) and of ProtoModel.compare *)
Theorem options_inert_molrecs v rm ro :
  (forall o e c, verdict_of (compare_molrecs_full handle_return v rm o e c) = compare_molrecs o e c) /\
  (forall o e c, verdict_of (protomodel_compare_full handle_return ro o e c) = protomodel_compare o e c).
Proof.
  split; intros; unfold compare_molrecs_full, protomodel_compare_full, compare_recursive_full, protomodel_compare,
    with_handler, bind, verdict_of.
  - destruct (compare_molrecs o e c); try reflexivity. rewrite default_handler_verdict. reflexivity.
  - destruct (compare_recursive o e c); try reflexivity. rewrite default_handler_verdict. reflexivity.
Qed.

Theorem handler_receives_verdict_molrecs {R} (H : bool -> ropts -> R) v rm ro :
  (forall o e c b, compare_molrecs o e c = Ok b ->
     compare_molrecs_full H v rm o e c = Ok (H b {| quiet := Z.eqb v 0; return_message := rm |})) /\
  (forall o e c b, protomodel_compare o e c = Ok b -> protomodel_compare_full H ro o e c = Ok (H b ro)).
Proof.
  split; intros o e c b E; unfold compare_molrecs_full, protomodel_compare_full, compare_recursive_full, with_handler, bind.
  - rewrite E. reflexivity.
  - unfold protomodel_compare in E. rewrite E. reflexivity.
Qed.

(* ------------------------------------------------------------------------------------------ *)
(** * the public entry points: the value returned through the default handler carries the model's verdict, and an
      exception / an unmodelled input of the core is the same of the entry point *)

Lemma through_handler ro (v : res bool) b :
  (exists r, with_handler handle_return ro v = Ok r /\ ret_verdict r = b) <-> v = Ok b.
Proof.
  unfold with_handler, bind. destruct v as [x| |].
  - split.
    + intros (r & E & V). inversion E; subst. rewrite default_handler_verdict. reflexivity.
    + intro E. inversion E; subst. eexists; split; [reflexivity | apply default_handler_verdict].
  - split; [intros (r & E & _); discriminate | discriminate].
  - split; [intros (r & E & _); discriminate | discriminate].
Qed.

Theorem public_verdicts ro v rm b :
  (forall o e c, (exists r, compare_values_full handle_return ro o e c = Ok r /\ ret_verdict r = b) <-> compare_values o e c = Ok b) /\
  (forall ph e c, (exists r, compare_full handle_return ro ph e c = Ok r /\ ret_verdict r = b) <-> compare ph e c = Ok b) /\
  (forall o e c, (exists r, compare_recursive_full handle_return ro o e c = Ok r /\ ret_verdict r = b) <-> compare_recursive o e c = Ok b) /\
  (forall o e c, (exists r, compare_molrecs_full handle_return v rm o e c = Ok r /\ ret_verdict r = b) <-> compare_molrecs o e c = Ok b) /\
  (forall o e c, (exists r, protomodel_compare_full handle_return ro o e c = Ok r /\ ret_verdict r = b) <-> compare_recursive o e c = Ok b).
Proof.
  split; [|split; [|split; [|split]]]; intros;
    unfold compare_values_full, compare_full, protomodel_compare_full, compare_recursive_full, compare_molrecs_full;
    apply through_handler.
Qed.
