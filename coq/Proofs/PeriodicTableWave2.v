(** C01 (wave 2): the digit string of ANY integer resolves exactly like the integer; the dummy row's period/group;
    the float mass stated on the shipped string end to end. *)
From Coq Require Import ZArith NArith List String Ascii Bool Lia Decimal DecimalString DecimalPos.
Require Import QV.Common.Outcome QV.Common.PyAscii QV.Common.PyAsciiIntStr QV.Common.NearestDouble QV.Common.NearestDoubleNorm.
Require Import QV.Gen.PTable QV.Gen.PeriodGroup QV.Model.PeriodicTable QV.Model.PeriodicTableFloat.
Require Import QV.Proofs.PeriodicTable QV.Proofs.PeriodicTableF3 QV.Proofs.PeriodicTableReject QV.Proofs.PeriodicTableFloatStr.
Import ListNotations.
Open Scope Z_scope.

Opaque pt_Z pt_E pt_name pt_EE pt_EA pt_A pt_mass pt_mass_str.

(** str(z) starts with a digit or '-', never with a letter — also after capitalize *)
Lemma str_of_Z_no_letter z : starts_with_letter (capitalize (str_of_Z z)) = false.
Proof.
  unfold str_of_Z. destruct z as [|p|p]; cbn [Z.to_int NilZero.string_of_int]; [reflexivity| |reflexivity].
  pose proof (Unsigned.to_uint_nonnil p) as NN. unfold NilZero.string_of_uint.
  destruct (Pos.to_uint p); [congruence|..]; reflexivity.
Qed.

Lemma not_label_if_no_letter s : starts_with_letter (capitalize s) = false -> eliso2mass (capitalize s) = None.
Proof.
  intro H. destruct (eliso2mass (capitalize s)) as [m|] eqn:E; [|reflexivity]. exfalso.
  unfold eliso2mass in E. apply (sdict_sound pt_EA pt_mass_str) in E. apply in_combine_l in E.
  pose proof (proj1 (forallb_forall _ _) labels_shape _ E) as S. rewrite andb_true_iff in S. destruct S as [S _]. congruence.
Qed.
Lemma not_name_if_no_letter s : starts_with_letter (capitalize s) = false -> element2el (capitalize s) = None.
Proof.
  intro H. destruct (element2el (capitalize s)) as [m|] eqn:E; [|reflexivity]. exfalso.
  unfold element2el in E. apply (sdict_sound pt_name pt_E) in E. apply in_combine_l in E.
  pose proof (proj1 (forallb_forall _ _) names_shape _ E) as S. rewrite andb_true_iff in S. destruct S as [S _]. congruence.
Qed.

(** for EVERY integer z (with at most 4300 digits, CPython's int() limit): str(z) resolves exactly like z, so every
    accessor answers the same — inside and outside the table *)
Lemma digit_string_is_int z :
  (N.of_nat (ndigits10 z) <= max_str_digits)%N ->
  resolve_eliso (PStr (str_of_Z z)) = resolve_eliso (PInt z) /\
  observe_spec (PStr (str_of_Z z)) = observe_spec (PInt z).
Proof.
  intro L. assert (R : resolve_eliso (PStr (str_of_Z z)) = resolve_eliso (PInt z)).
  { unfold resolve_eliso, step2, step3, pyint.
    rewrite (not_label_if_no_letter _ (str_of_Z_no_letter z)), (pyint_str_of_Z z L).
    rewrite (not_name_if_no_letter _ (str_of_Z_no_letter z)). reflexivity. }
  split; [exact R|]. apply observe_spec_of_resolve, R.
Qed.

(** the dummy row: whatever resolves to Z = 0 is in period 1 (first rung of the ladder) and has no group *)
Lemma dummy_ladder : gen_period 0 = Some 1 /\ gen_group 0 = None.
Proof. vm_compute. split; reflexivity. Qed.
Lemma dummy_period_group x : to_Z x false = Ok 0 -> to_period x = Ok (Some 1) /\ to_group x = Ok None.
Proof.
  intro H. unfold to_period, to_group. rewrite H. cbn [obind]. destruct dummy_ladder as [-> ->]. split; reflexivity.
Qed.

(** the float mass, end to end on the shipped string *)
Lemma key_mass_float_str_inv k m e :
  key_mass_float_str k = Ok (m, e) -> exists s, key_mass_str k = Ok s /\ float_of_decstr s = Some (m, e).
Proof.
  unfold key_mass_float_str. generalize (key_mass_str k). intros [s|kk]; cbn [obind]; [|discriminate].
  destruct (float_of_decstr s) as [f|] eqn:F; [|discriminate]. intro H; inversion H; subst. exists s. split; [reflexivity|exact F].
Qed.

Lemma float_mass_from_string x m e :
  to_mass_float_str x = Ok (m, e) ->
  exists s n d, to_mass_str x = Ok s /\ decstr_frac s = Some (n, d) /\ float_of_decstr s = Some (m, e) /\ 0 < d /\
                ((n = 0 /\ m = 0 /\ e = 0) \/ (0 < n /\ frac_nearest n d m e /\ -1074 <= e <= 970)).
Proof.
  intro H. pose proof H as H0. rewrite to_mass_float_str_eq in H0.
  unfold to_mass_float_str in H. unfold to_mass_float in H0. unfold to_mass_str.
  destruct (resolve x false) as [k|] eqn:R; cbn [obind] in *; [|discriminate].
  pose proof (resolve_key _ _ _ R) as I.
  destruct (key_mass_float_str_inv k m e H) as [s [KS F]]. clear H.
  assert (RANGE : (m = 0 /\ e = 0) \/ (-1074 <= e <= 970)).
  { destruct (key_float_nearest k m e I H0) as [c [ex [_ [[_ [Hm He]]|[_ S]]]]]; [left; auto|right].
    unfold nearest_spec in S. cbv zeta in S. lia. }
  clear H0 I R.
  assert (DF : exists n d, decstr_frac s = Some (n, d)).
  { unfold float_of_decstr in F. unfold decstr_frac. destruct (fs_scan s 0 0 0%N false) as [[n k']|]; [eauto|discriminate]. }
  destruct DF as [n [d DF]]. exists s, n, d.
  destruct (float_of_decstr_nearest s n d m e DF F) as [Dpos CASES].
  repeat split; try assumption.
  destruct CASES as [Z|[P N]]; [left; exact Z|right].
  split; [exact P|]. split; [exact N|].
  destruct RANGE as [[-> ->]|RG]; lia.
Qed.
