(** C11 — the executable binary64 rounding [fl64] (Common/HFBin64.v) never crosses a half-integer on [-2^40, 2^40]: there its grid
    spacing is at most 2^-12, so every half-integer is a grid point and rounding to nearest cannot pass it.  This discharges, for
    [fl64], the two IEEE-754 hypotheses (monotone, exact on half-integers) under which C11_np_around_exact is stated: numpy's
    rint(fl64(x*10^n)) is the exact half-even rounding unless the binary64 product is itself a half-integer. *)
From Coq Require Import ZArith QArith Qabs Qround Lia Lqa Bool.
Require Import QV.Common.HFRound QV.Common.HFBin64 QV.Gen.HashConsts QV.Model.Hash QV.Proofs.HashPrep QV.Proofs.HashMol QV.Proofs.HashFl64.
Open Scope Z_scope.

(** on a grid of spacing 2^e with e <= -1 every half-integer is a grid point, so rounding to the grid cannot cross it *)
Lemma grid_keeps_half (aa b T' j : Z) : 0 < b -> 0 < T' ->
  ((2 * j + 1) * b <= 2 * aa -> (2 * j + 1) * T' <= rhe (aa * (2 * T')) b)
  /\ (2 * aa <= (2 * j + 1) * b -> rhe (aa * (2 * T')) b <= (2 * j + 1) * T').
Proof.
  intros Hb HT. split; intros H.
  - pose proof (rhe_mono ((2 * j + 1) * T' * b) (aa * (2 * T')) b Hb ltac:(nia)) as M.
    rewrite (rhe_exact ((2 * j + 1) * T') b Hb) in M. exact M.
  - pose proof (rhe_mono (aa * (2 * T')) ((2 * j + 1) * T' * b) b Hb ltac:(nia)) as M.
    rewrite (rhe_exact ((2 * j + 1) * T') b Hb) in M. exact M.
Qed.

Lemma fl64_keeps_half s (j : Z) : (Qabs s <= inject_Z (2 ^ 40))%Q ->
  ((inject_Z j + (1 # 2) <= s)%Q -> (inject_Z j + (1 # 2) <= fl64 s)%Q)
  /\ ((s <= inject_Z j + (1 # 2))%Q -> (fl64 s <= inject_Z j + (1 # 2))%Q).
Proof.
  intros Hs. destruct s as [a b]. unfold fl64. simpl Qnum. simpl Qden.
  destruct (a =? 0) eqn:A0.
  - apply Z.eqb_eq in A0. subst a. split; intros H; unfold Qle, Qplus, inject_Z in *; simpl Qnum in *; simpl Qden in *; rewrite ?Pos2Z.inj_mul in *; nia.
  - apply Z.eqb_neq in A0.
    assert (Haa : 0 < Z.abs a) by lia.
    assert (Hb : Z.abs a <= 2 ^ 40 * Zpos b).
    { apply Qabs_Qle_condition in Hs. destruct Hs as [H1 H2]. unfold Qle, Qopp, inject_Z in H1, H2. simpl in H1, H2. lia. }
    pose proof (log2_ratio_bound (Z.abs a) b Haa Hb) as LR.
    set (e0 := Z.log2 (Z.abs a) - Z.log2 (Z.pos b) - 52) in *.
    set (e' := if (if 0 <=? e0 then 2 ^ 52 * (Z.pos b * 2 ^ e0) <=? Z.abs a else 2 ^ 52 * Z.pos b <=? Z.abs a * 2 ^ (- e0)) then e0 else e0 - 1).
    assert (E' : e' <= e0) by (unfold e'; destruct (if 0 <=? e0 then _ else _); lia).
    set (e := Z.max e' (-1074)).
    assert (He : e <= -12) by (unfold e; lia).
    assert (N : (0 <=? e) = false) by (apply Z.leb_gt; lia).
    rewrite N.
    set (T' := 2 ^ (- e - 1)).
    assert (HT' : 0 < T') by (unfold T'; apply Z.pow_pos_nonneg; lia).
    assert (ET : 2 ^ (- e) = 2 * T').
    { unfold T'. rewrite <- Z.pow_succ_r by lia. f_equal. lia. }
    rewrite ET.
    destruct (a <? 0) eqn:S.
    + apply Z.ltb_lt in S.
      pose proof (grid_keeps_half (Z.abs a) (Zpos b) T' (- j - 1) ltac:(lia) HT') as [G1 G2].
      set (m := rhe (Z.abs a * (2 * T')) (Z.pos b)) in *. clearbody m.
      set (T := 2 * T') in *. assert (HT : T = 2 * T') by reflexivity. clearbody T.
      split; intros H; unfold Qle, Qplus, Qopp, inject_Z in *; simpl Qnum in *; simpl Qden in *;
        rewrite ?Z2Pos.id by lia; rewrite ?Pos2Z.inj_mul in *; subst T; nia.
    + apply Z.ltb_ge in S.
      pose proof (grid_keeps_half (Z.abs a) (Zpos b) T' j ltac:(lia) HT') as [G1 G2].
      set (m := rhe (Z.abs a * (2 * T')) (Z.pos b)) in *. clearbody m.
      set (T := 2 * T') in *. assert (HT : T = 2 * T') by reflexivity. clearbody T.
      split; intros H; unfold Qle, Qplus, Qopp, inject_Z in *; simpl Qnum in *; simpl Qden in *;
        rewrite ?Z2Pos.id by lia; rewrite ?Pos2Z.inj_mul in *; subst T; nia.
Qed.


(** numpy's rint of the binary64 product is the exact half-even rounding of the exact product unless the binary64 product is itself
    a half-integer — for the executable [fl64], with no hypothesis on the rounding left *)
Theorem rint_fl64_exact s : (Qabs s <= inject_Z (2 ^ 40))%Q -> ~ is_half (fl64 s) -> rint (fl64 s) = rint s.
Proof.
  intros Hs NH. pose proof (rint_bounds s) as [L U]. set (k := rint s) in *.
  assert (E1 : (inject_Z k - (1 # 2) == inject_Z (k - 1) + (1 # 2))%Q) by (unfold Zminus; rewrite inject_Z_plus; simpl; ring).
  assert (M1 : (inject_Z k - (1 # 2) <= fl64 s)%Q).
  { rewrite E1. apply (proj1 (fl64_keeps_half s (k - 1) Hs)). rewrite <- E1. exact L. }
  assert (M2 : (fl64 s <= inject_Z k + (1 # 2))%Q).
  { apply (proj2 (fl64_keeps_half s k Hs)). exact U. }
  apply rint_unique.
  - destruct (Qlt_le_dec (inject_Z k - (1 # 2)) (fl64 s)) as [H|H]; [exact H|]. exfalso. apply NH.
    exists (k - 1)%Z. rewrite <- E1. apply Qle_antisym; assumption.
  - destruct (Qlt_le_dec (fl64 s) (inject_Z k + (1 # 2))) as [H|H]; [exact H|]. exfalso. apply NH.
    exists k. apply Qle_antisym; assumption.
Qed.

Theorem around64_exact n x : (Qabs (x * inject_Z (pow10 n)) <= inject_Z (2 ^ 40))%Q ->
  ~ is_half (fl64 (x * inject_Z (pow10 n))) -> around64 n x = round_n n x.
Proof. intros Hs NH. unfold around64. rewrite (rint_fl64_exact _ Hs NH). apply rint_scaled. Qed.

Theorem prep_arr64_exact n x : 0 <= n -> (Qabs (x * inject_Z (pow10 n)) <= inject_Z (2 ^ 40))%Q ->
  ~ is_half (fl64 (x * inject_Z (pow10 n))) -> prep_arr64 n (FQ x) = prep_arr n (FQ x).
Proof. intros Hn Hs NH. apply prep_arr64_agrees; [exact Hn|]. apply around64_exact; assumption. Qed.

(** ... and when it IS a half-integer, numpy rounds that tie to even — which can differ from the exact rounding of the exact product
    only if the exact product is within the rounding error 2^-13 of the tie *)
Theorem around64_differs_only_near_tie n x : (Qabs (x * inject_Z (pow10 n)) <= inject_Z (2 ^ 40))%Q ->
  around64 n x <> round_n n x ->
  exists j : Z, (Qabs (x * inject_Z (pow10 n) - (inject_Z j + (1 # 2))) <= 1 # 8192)%Q.
Proof.
  intros Hs D.
  destruct (Z.eq_dec (around64 n x) (round_n n x)) as [E|_]; [contradiction|].
  assert (H : ~ ~ is_half (fl64 (x * inject_Z (pow10 n)))).
  { intros NH. apply D. apply around64_exact; assumption. }
  (* is_half is decidable here: test 2 * fl64 s - 1 for being an even integer *)
  set (t := fl64 (x * inject_Z (pow10 n))) in *.
  set (j := Qfloor t).
  destruct (Qeq_dec t (inject_Z j + (1 # 2))) as [Ej|Nj].
  - exists j. pose proof (fl64_err _ Hs) as Er. fold t in Er.
    assert (X : (x * inject_Z (pow10 n) - (inject_Z j + (1 # 2)) == - (t - x * inject_Z (pow10 n)))%Q) by (rewrite Ej; ring).
    rewrite X, Qabs_opp. exact Er.
  - exfalso. apply H. intros [j' Hj']. apply Nj. rewrite Hj'.
    assert (F : Qfloor t = j').
    { pose proof (Qfloor_le t) as F1. pose proof (Qlt_floor t) as F2. fold j in F1, F2.
      rewrite Hj' in F1, F2.
      assert (A1 : (inject_Z j < inject_Z (j' + 1))%Q) by (rewrite inject_Z_plus; change (inject_Z 1) with 1%Q; lra).
      assert (A2 : (inject_Z j' < inject_Z (j + 1))%Q) by (rewrite inject_Z_plus in F2 |- *; change (inject_Z 1) with 1%Q in *; lra).
      rewrite <- Zlt_Qlt in A1, A2. unfold j in *. lia. }
    unfold j. rewrite F. reflexivity.
Qed.
