(** C18 — Part 2: the generated code over the real numbers (sqrt, acos, atan2, order).
    These lemmas depend on the axioms of Coq's Reals library (listed by Print Assumptions). *)
From Coq Require Import Reals Lra Psatz List Bool ZArith.
Require Import QV.Common.Outcome QV.Common.Geo3 QV.Common.Geo3Np QV.Common.Geo3Facts QV.Common.Geo3R
  QV.Gen.Dihedral QV.Model.Geometry QV.Proofs.Geometry.
Import ListNotations.
Local Open Scope R_scope.

Lemma clip1_id (x : R) : -1 <= x <= 1 -> clip1 RK (- (1)) 1 x = x.
Proof.
  intros [H1 H2]. unfold clip1. cbn.
  destruct (Rltb x (- (1))) eqn:E1; [apply Rltb_true in E1; lra|].
  destruct (Rltb 1 x) eqn:E2; [apply Rltb_true in E2; lra|]. reflexivity.
Qed.

Lemma clip1_range (x : R) : -1 <= clip1 RK (- (1)) 1 x <= 1.
Proof.
  unfold clip1. cbn.
  destruct (Rltb x (- (1))) eqn:E1; [lra|]. apply Rltb_false in E1.
  destruct (Rltb 1 x) eqn:E2; [lra|]. apply Rltb_false in E2. lra.
Qed.

(** ** distance *)
Lemma distance_R_nonneg (p q : vec3 RK) : 0 <= tb_dist RK p q.
Proof. unfold tb_dist. apply vnorm_nonneg. Qed.

Lemma distance_R_zero (p q : vec3 RK) : tb_dist RK p q = 0 <-> p = q.
Proof.
  unfold tb_dist. split.
  - intro H. destruct (vec3_eq_dec_R p q) as [E|N]; [assumption|]. exfalso.
    pose proof (vnorm_pos _ (vsub_nonzero p q N)). lra.
  - intros ->. unfold vnorm. cbn. replace (norm2 (vsub q q)) with 0.
    + apply sqrt_0.
    + dvec q. vnormalize. cbn. ring.
Qed.

Lemma distance_R_sq (p q : vec3 RK) : tb_dist RK p q * tb_dist RK p q = norm2 (vsub p q).
Proof. unfold tb_dist. apply vnorm_sq. Qed.

(** ** angle *)
Lemma tb_cos_bounds (p1 p2 p3 : vec3 RK) : p1 <> p2 -> p3 <> p2 -> -1 <= tb_cos RK p1 p2 p3 <= 1.
Proof. intros H1 H3. unfold tb_cos. apply cos_bounds; apply vsub_nonzero; assumption. Qed.

Lemma angle_R_textbook (p1 p2 p3 : vec3 RK) :
  p1 <> p2 -> p3 <> p2 ->
  compute_angle RK (@A2 RK [p1]) (@A2 RK [p2]) (@A2 RK [p3]) false = Ok (@A1 RK [acos (tb_cos RK p1 p2 p3)]).
Proof.
  intros H1 H3. unfold compute_angle. rewrite (angle_pre_row RK).
  rewrite (code_cos_textbook RK RK_field).
  - cbn -[tb_cos clip1]. pose proof (tb_cos_bounds p1 p2 p3 H1 H3) as B.
    rewrite clip1_id by lra. rewrite acos_opp.
    replace (PI - (PI - acos (tb_cos RK p1 p2 p3))) with (acos (tb_cos RK p1 p2 p3)) by ring. reflexivity.
  - pose proof (vnorm_pos _ (vsub_nonzero p1 p2 H1)) as P. intro E. rewrite E in P. exact (Rlt_irrefl _ P).
  - pose proof (vnorm_pos _ (vsub_nonzero p3 p2 H3)) as P. intro E. rewrite E in P. exact (Rlt_irrefl _ P).
Qed.

(* the returned angle is THE number in [0, pi] whose cosine is the textbook cosine *)
Lemma angle_R_range_cos (p1 p2 p3 : vec3 RK) :
  p1 <> p2 -> p3 <> p2 ->
  let th := acos (tb_cos RK p1 p2 p3) in 0 <= th <= PI /\ cos th = tb_cos RK p1 p2 p3.
Proof. intros H1 H3. split; [apply acos_bound | apply cos_acos; apply tb_cos_bounds; assumption]. Qed.

(* whatever the points (even degenerate), the argument of arccos lies in [-1,1] and the result in [0,pi] *)
Lemma angle_R_range_any (p1 p2 p3 : vec3 RK) :
  exists c, compute_angle RK (@A2 RK [p1]) (@A2 RK [p2]) (@A2 RK [p3]) false = Ok (@A1 RK [PI - acos c]) /\ -1 <= c <= 1
            /\ 0 <= PI - acos c <= PI.
Proof.
  exists (clip1 RK (- (1)) 1 (code_cos RK p1 p2 p3)).
  split; [unfold compute_angle; rewrite (angle_pre_row RK); reflexivity|].
  split; [apply clip1_range|]. pose proof (acos_bound (clip1 RK (- (1)) 1 (code_cos RK p1 p2 p3))). lra.
Qed.

(** ** dihedral *)
Lemma dihedral_R_textbook (p1 p2 p3 p4 : vec3 RK) :
  p3 <> p2 ->
  exists y x k,
    compute_dihedral_pre RK (@A2 RK [p1]) (@A2 RK [p2]) (@A2 RK [p3]) (@A2 RK [p4]) = Ok (@A1 RK [y], @A1 RK [x])
    /\ compute_dihedral RK (@A2 RK [p1]) (@A2 RK [p2]) (@A2 RK [p3]) (@A2 RK [p4]) false = Ok (@A1 RK [Ratan2 y x])
    /\ 0 < k /\ tb_dih_y RK p1 p2 p3 p4 = k * y /\ tb_dih_x RK p1 p2 p3 p4 = k * x.
Proof.
  intro H. pose proof (vnorm_pos _ (vsub_nonzero p3 p2 H)) as Hs.
  pose proof (vnorm_sq (vsub p3 p2)) as Hsq.
  destruct (dih_closed_textbook RK RK_field p1 p2 p3 p4 Hsq) as [HY HX]; [intro E; rewrite E in Hs; exact (Rlt_irrefl _ Hs)|].
  eexists. eexists. exists (vnorm (vsub p3 p2) * vnorm (vsub p3 p2)).
  split; [apply (dihedral_pre_closed RK RK_field)|].
  split; [unfold compute_dihedral; rewrite (dihedral_pre_closed RK RK_field); reflexivity|].
  split; [apply Rmult_lt_0_compat; assumption|].
  split; symmetry; [exact HY | exact HX].
Qed.

(* hence the returned angle is an argument of the textbook pair, in [-pi, pi] *)
Lemma dihedral_R_is_arg (p1 p2 p3 p4 : vec3 RK) :
  p3 <> p2 -> (tb_dih_x RK p1 p2 p3 p4 <> 0 \/ tb_dih_y RK p1 p2 p3 p4 <> 0) ->
  exists th, compute_dihedral RK (@A2 RK [p1]) (@A2 RK [p2]) (@A2 RK [p3]) (@A2 RK [p4]) false = Ok (@A1 RK [th])
             /\ is_arg (tb_dih_y RK p1 p2 p3 p4) (tb_dih_x RK p1 p2 p3 p4) th /\ - PI <= th <= PI.
Proof.
  intros H ND. destruct (dihedral_R_textbook p1 p2 p3 p4 H) as [y [x [k [_ [Hfull [Hk [HY HX]]]]]]].
  exists (Ratan2 y x). split; [exact Hfull|].
  assert (Hyx : x <> 0 \/ y <> 0).
  { destruct ND as [N|N]; [left | right]; intro E; apply N; [rewrite HX | rewrite HY]; rewrite E; apply Rmult_0_r. }
  destruct (Ratan2_spec y x Hyx) as [A B]. split; [|exact B].
  rewrite HY, HX. apply is_arg_scale; assumption.
Qed.

Lemma Ratan2_neg (y x : R) : y <> 0 -> Ratan2 (- y) x = - Ratan2 y x.
Proof.
  intro H. unfold Ratan2. replace (x * x + - y * - y) with (x * x + y * y) by ring.
  destruct (Rle_dec 0 y), (Rle_dec 0 (- y)); try lra; ring.
Qed.

Lemma dihedral_R_reflection (M : mat3 RK) (t p1 p2 p3 p4 : vec3 RK) :
  orthogonal M -> mdet M = -1 ->
  exists y x,
    compute_dihedral RK (@A2 RK [p1]) (@A2 RK [p2]) (@A2 RK [p3]) (@A2 RK [p4]) false = Ok (@A1 RK [Ratan2 y x])
    /\ compute_dihedral RK (@A2 RK [rigid M t p1]) (@A2 RK [rigid M t p2]) (@A2 RK [rigid M t p3]) (@A2 RK [rigid M t p4]) false
       = Ok (@A1 RK [Ratan2 (- y) x])
    /\ (y <> 0 -> Ratan2 (- y) x = - Ratan2 y x).
Proof.
  intros HO HD. eexists. eexists. split; [|split].
  - unfold compute_dihedral. rewrite (dihedral_pre_closed RK RK_field). reflexivity.
  - unfold compute_dihedral. rewrite (dihedral_pre_reflect RK RK_field) by assumption. reflexivity.
  - apply Ratan2_neg.
Qed.

(** ** connectivity: the decision on distances equals the decision on squared distances *)
Lemma sqrt_lt_sq (d2 c : R) : 0 <= d2 -> Rltb (sqrt d2) c = Rltb 0 c && Rltb d2 (c * c).
Proof.
  intro Hd. pose proof (sqrt_pos d2) as Hs. pose proof (sqrt_sqrt d2 Hd) as Hss.
  destruct (Rltb (sqrt d2) c) eqn:E1.
  - apply Rltb_true in E1. symmetry. apply andb_true_iff. split; apply Rltb_true; [lra | nra].
  - apply Rltb_false in E1. symmetry. apply andb_false_iff.
    destruct (Rlt_dec 0 c) as [Hc|Hc]; [right | left]; apply Rltb_false; [nra | lra].
Qed.

Lemma bonded_R_sq (thr : R) (a b : atom RK) : bonded RK thr a b = bonded_sq RK thr a b.
Proof. unfold bonded, bonded_sq. cbn. apply sqrt_lt_sq. apply norm2_nonneg. Qed.

Lemma connectivity_R_sq (thr : R) (atoms : list (atom RK)) :
  guess_connectivity RK thr atoms = guess_connectivity_sq RK thr atoms.
Proof.
  unfold guess_connectivity, guess_connectivity_sq.
  rewrite <- (map_id atoms) at 1. apply conn_from_ext. intros a b. apply bonded_R_sq.
Qed.

(** the returned dihedral is THE angle in (-pi, pi] that is an argument of the textbook pair *)
Lemma dihedral_R_unique (p1 p2 p3 p4 : vec3 RK) (th' : R) :
  p3 <> p2 -> (tb_dih_x RK p1 p2 p3 p4 <> 0 \/ tb_dih_y RK p1 p2 p3 p4 <> 0) ->
  is_arg (tb_dih_y RK p1 p2 p3 p4) (tb_dih_x RK p1 p2 p3 p4) th' -> - PI < th' <= PI ->
  compute_dihedral RK (@A2 RK [p1]) (@A2 RK [p2]) (@A2 RK [p3]) (@A2 RK [p4]) false = Ok (@A1 RK [th']).
Proof.
  intros H ND A' B'. destruct (dihedral_R_textbook p1 p2 p3 p4 H) as [y [x [k [_ [Hfull [Hk [HY HX]]]]]]].
  rewrite Hfull. f_equal. f_equal. f_equal.
  assert (Hyx : x <> 0 \/ y <> 0).
  { destruct ND as [N|N]; [left | right]; intro E; apply N; [rewrite HX | rewrite HY]; rewrite E; apply Rmult_0_r. }
  destruct (Ratan2_spec y x Hyx) as [A B]. pose proof (Ratan2_gt_mPI y x Hyx) as G.
  apply (is_arg_unique (tb_dih_y RK p1 p2 p3 p4) (tb_dih_x RK p1 p2 p3 p4)); try assumption; try lra.
  rewrite HY, HX. apply is_arg_scale; assumption.
Qed.
