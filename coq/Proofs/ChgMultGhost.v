(** C05 — the blank specification with zero_ghost_fragments = True and a ghost fragment present
    (clause 9 of the clause map, the case that was "only correspondence/oracle"). *)
From Coq Require Import ZArith List Bool Lia.
Require Import QV.Common.Outcome QV.Model.ChgMult QV.Proofs.ChgMult QV.Proofs.ChgMultSpace.
Import ListNotations.
Open Scope Z_scope.

Ltac Zify.zify_post_hook ::= Z.to_euclidean_division_equations.

(** what [adjust] makes of the blank specification when a ghost fragment is present *)
Definition gblank (fe : list (list Z)) : cm_in :=
  {| felez := fe; ic := None;
     ifc := map (fun f => if is_ghost f then Some 0 else None) fe; im := None;
     ifm := map (fun f => if is_ghost f then Some 1 else None) fe; zgf := true |}.

Lemma adjust_list_blank (fe : list (list Z)) (d : Z) :
  map (fun p : bool * option Z => if fst p then Some d else snd p)
      (combine (map is_ghost fe) (map (fun _ : list Z => @None Z) fe))
  = map (fun f => if is_ghost f then Some d else None) fe.
Proof. induction fe as [|f l IH]; simpl; [reflexivity|]. rewrite IH. reflexivity. Qed.

Lemma adjust_blank_ghost fe : has_ghost (blank fe true) = true -> adjust (blank fe true) = gblank fe.
Proof.
  intro H. unfold adjust. unfold has_ghost in H. rewrite H.
  unfold blank, gblank, ghosts; cbn [zgf felez ifc ifm andb]. rewrite !adjust_list_blank. reflexivity.
Qed.

Lemma gblank_known_sum fe : known_sum (map (fun f => if is_ghost f then Some 0 else None) fe) = 0.
Proof. unfold known_sum. induction fe as [|f l IH]; simpl; [reflexivity|]. destruct (is_ghost f); simpl; exact IH. Qed.

Lemma gblank_exact_c fe : exact_c (gblank fe) = [0].
Proof. unfold exact_c, gblank; cbn [ic ifc]. rewrite gblank_known_sum. reflexivity. Qed.

Lemma gblank_exact_fc fe : exact_fc (gblank fe) = map (fun f => if is_ghost f then [0] else [0; 0]) fe.
Proof.
  unfold exact_fc, missing_chg, gblank; cbn [ic ifc]. rewrite gblank_known_sum, map_map.
  apply map_ext. intro f. destruct (is_ghost f); reflexivity.
Qed.

Lemma gblank_exact_fm fe : exact_fm (gblank fe) = map (fun f => if is_ghost f then [1] else [1; 2]) fe.
Proof.
  unfold exact_fm, missing_mult_bounds, gblank; cbn [im ifm]. rewrite map_map.
  apply map_ext. intro f. destruct (is_ghost f); reflexivity.
Qed.

Lemma gblank_default1 fe : apply_default (map (fun f => if is_ghost f then Some 1 else None) fe) 1 = map (fun _ => 1) fe.
Proof. unfold apply_default. rewrite map_map. apply map_ext. intro f. destruct (is_ghost f); reflexivity. Qed.

Lemma gblank_default2 fe :
  apply_default (map (fun f => if is_ghost f then Some 1 else None) fe) 2 = map (fun f => if is_ghost f then 1 else 2) fe.
Proof. unfold apply_default. rewrite map_map. apply map_ext. intro f. destruct (is_ghost f); reflexivity. Qed.

Lemma gblank_exact_m fe :
  exact_m (gblank fe) = py_range 1 (hss (map (fun f => if is_ghost f then 1 else 2) fe) + 1).
Proof. unfold exact_m, gblank; cbn [im ifm]. rewrite gblank_default1, gblank_default2, hss_const. f_equal; lia. Qed.

Lemma lows_le_ghost_hi fe :
  zsum (map (fun m => m - 1) (map lowest (map zsum fe)))
  <= zsum (map (fun m => m - 1) (map (fun f => if is_ghost f then 1 else 2) fe)).
Proof.
  induction fe as [|f l IH]; [simpl; lia|]. rewrite !map_cons, !zsum_cons.
  destruct (is_ghost f) eqn:G.
  - rewrite (is_ghost_zsum f G). change (lowest 0) with 1. lia.
  - destruct (lowest_cases (zsum f)) as [[_ ->]|[_ ->]]; lia.
Qed.

Lemma gblank_match_fc fe :
  match_inputs (map (fun f => if is_ghost f then Some 0 else None) fe) (map (fun _ => 0) fe) = true.
Proof. induction fe as [|f l IH]; simpl; [reflexivity|]. destruct (is_ghost f); simpl; exact IH. Qed.

Lemma gblank_match_fm fe :
  match_inputs (map (fun f => if is_ghost f then Some 1 else None) fe) (map lowest (map zsum fe)) = true.
Proof.
  induction fe as [|f l IH]; simpl; [reflexivity|]. destruct (is_ghost f) eqn:G; simpl; [|exact IH].
  rewrite (is_ghost_zsum f G). change (lowest 0) with 1. simpl. exact IH.
Qed.

Lemma gblank_target_rules_ok fe : Forall (fun f => 0 <= zsum f) fe -> rules_ok (gblank fe) (target fe) = true.
Proof.
  intro H. destruct (lows_sum_le fe H) as (L1 & L2 & k & L3).
  unfold rules_ok, target, gblank, zel, fzel, ghosts, r8_active.
  cbn [oc ofc om ofm felez ic ifc im ifm is_none orb].
  rewrite zsum_zeros, gblank_match_fc, gblank_match_fm, blank_all3_suff, blank_all3_par, blank_ghost_rule by assumption.
  rewrite Z.eqb_refl. rewrite (hss_spec (map lowest (map zsum fe))).
  assert (F : forallb (fun m => 1 <=? m) (map lowest (map zsum fe)) = true).
  { apply forallb_forall. intros m Hm. apply in_map_iff in Hm. destruct Hm as [z [<- _]].
    apply Z.leb_le, lowest_ge1. }
  rewrite F. unfold sufficient, parity_ok. cbn [andb].
  repeat (apply andb_true_iff; split); try reflexivity; lia.
Qed.

Lemma gfc_zeros (fe : list (list Z)) x :
  Forall2 (fun a l => In a l) x (map dedup (map (fun f => if is_ghost f then [0] else [0; 0]) fe)) ->
  x = map (fun _ => 0) fe.
Proof.
  revert x; induction fe as [|f l IH]; intros x H; simpl in H; inversion H as [|a d t ds Ha Ht]; subst; [reflexivity|].
  simpl. f_equal; [|apply IH; assumption].
  destruct (is_ghost f); [change (dedup [0]) with [0] in Ha | change (dedup [0; 0]) with [0] in Ha];
    destruct Ha as [<-|[]]; reflexivity.
Qed.

Lemma gfm_lows (fe : list (list Z)) x :
  Forall2 (fun a l => In a l) x (map dedup (map (fun f => if is_ghost f then [1] else [1; 2]) fe)) ->
  all3 parity_ok (map zsum fe) (map (fun _ => 0) fe) x = true -> x = map lowest (map zsum fe).
Proof.
  revert x; induction fe as [|f l IH]; intros x H P; simpl in H; inversion H as [|a d t ds Ha Ht]; subst; [reflexivity|].
  simpl in P. apply andb_true_iff in P. destruct P as [P1 P2]. simpl. f_equal; [|apply IH; assumption].
  unfold parity_ok in P1.
  destruct (is_ghost f); [change (dedup [1]) with [1] in Ha | change (dedup [1; 2]) with [1; 2] in Ha];
    destruct (lowest_cases (zsum f)) as [[Hm ->]|[Hm ->]]; simpl in Ha; intuition lia.
Qed.

Lemma gblank_target_unique fe y :
  In y (candidates (gblank fe)) -> rules_ok (gblank fe) y = true -> y = target fe.
Proof.
  intros Hin Hok. apply in_candidates in Hin. destruct Hin as (Hc & Hfc & _ & Hfm).
  rewrite gblank_exact_c in Hc. rewrite gblank_exact_fc in Hfc. rewrite gblank_exact_fm in Hfm.
  change (dedup [0]) with [0] in Hc. destruct Hc as [Hc|[]].
  apply in_cart in Hfc. apply gfc_zeros in Hfc. apply in_cart in Hfm.
  unfold rules_ok in Hok. repeat (apply andb_true_iff in Hok; destruct Hok as [Hok ?]).
  match goal with [ Hx : all3 parity_ok _ _ _ = true |- _ ] => rename Hx into Hpar end.
  match goal with [ Hx : (if r8_active _ then _ else _) = true |- _ ] => rename Hx into Hr8 end.
  unfold fzel, gblank in Hpar; cbn [felez] in Hpar. rewrite Hfc in Hpar.
  apply gfm_lows in Hfm; [|assumption].
  unfold r8_active, gblank in Hr8; cbn [im is_none orb] in Hr8. apply Z.eqb_eq in Hr8.
  destruct y as [yc yfc ym yfm]; cbn [oc ofc om ofm] in *. subst. reflexivity.
Qed.

Lemma gblank_target_in_candidates fe :
  Forall (fun f => 0 <= zsum f) fe -> In (target fe) (candidates (gblank fe)).
Proof.
  intro H. destruct (lows_sum_le fe H) as (L1 & L2 & k & L3).
  apply in_candidates. unfold target; cbn [oc ofc om ofm].
  rewrite gblank_exact_c, gblank_exact_fc, gblank_exact_m, gblank_exact_fm. repeat split.
  - left; reflexivity.
  - apply in_cart. clear. induction fe as [|f l IH]; simpl; constructor; [|exact IH].
    destruct (is_ghost f); left; reflexivity.
  - apply in_dedup, in_py_range. rewrite !hss_spec. pose proof (lows_le_ghost_hi fe). lia.
  - apply in_cart. clear. induction fe as [|f l IH]; simpl; constructor; [|exact IH].
    destruct (is_ghost f) eqn:G.
    + rewrite (is_ghost_zsum f G). left; reflexivity.
    + change (dedup [1; 2]) with [1; 2]. destruct (lowest_cases (zsum f)) as [[_ ->]|[_ ->]]; simpl; auto.
Qed.

(** With nothing specified and zero_ghost_fragments = True, ghost fragment or not: neutral, lowest multiplicity
    per fragment (a ghost fragment has no electrons: singlet), high-spin total. *)
Lemma fill_default_zgf fe : Forall (fun f => 0 <= zsum f) fe -> fill (blank fe true) = Ok (target fe).
Proof.
  intro H. destruct (has_ghost (blank fe true)) eqn:G; [|apply fill_default_zgf_noghost; assumption].
  unfold fill.
  assert (B : bad_mult (im (blank fe true)) || existsb bad_mult (ifm (blank fe true)) = false).
  { unfold blank; cbn [im ifm bad_mult orb]. clear. induction fe as [|f l IH]; simpl; auto. }
  rewrite B, (adjust_blank_ghost fe G).
  rewrite (find_first_ok _ _ (target fe)); [reflexivity | | |].
  - apply gblank_target_in_candidates; assumption.
  - apply gblank_target_rules_ok; assumption.
  - intros y Hy Hok. apply gblank_target_unique; assumption.
Qed.

(** in the answer every ghost fragment is (0, 1) and every real fragment is neutral with its lowest multiplicity *)
Lemma target_ghost_entries fe k f : nth_error fe k = Some f ->
  nth_error (ofc (target fe)) k = Some 0 /\
  nth_error (ofm (target fe)) k = Some (if is_ghost f then 1 else lowest (zsum f)).
Proof.
  intro H. unfold target; cbn [ofc ofm]. rewrite map_map. split.
  - rewrite (map_nth_error _ _ _ H). reflexivity.
  - rewrite (map_nth_error _ _ _ H). destruct (is_ghost f) eqn:G; [|reflexivity].
    rewrite (is_ghost_zsum f G). reflexivity.
Qed.
