(** C06 — which error class is raised: NotAnElementError only when a clue names something that is not in the
    periodic table (an atomic number or symbol that is no element, a mass number that is no nuclide of the element);
    every other refusal — in particular every contradiction among clues that are individually meaningful — is a
    ValidationError.  Also: a model of the functools.lru_cache wrapper and its history independence. *)
From Coq Require Import ZArith NArith List Bool String Ascii QArith Qabs Lia.
Require Import QV.Common.Outcome QV.Gen.PTable QV.Model.Nucleus QV.Proofs.NucleusKeys QV.Proofs.Nucleus.
Import ListNotations.
Open Scope list_scope.
Open Scope Z_scope.

(** a Z / E clue names an element of the table *)
Definition known_zclue (c : zclue) : Prop :=
  match c with
  | ZNum z => exists e, to_E_int z = Ok e
  | ZSym s => exists z e, to_Z_strict s = Ok z /\ to_E_int z = Ok e
  end.

Lemma offer_atomic_number_total np z e : to_E_int z = Ok e -> exists info, offer_atomic_number np z = Ok info.
Proof.
  intro E. unfold offer_atomic_number. rewrite E.
  destruct (z_table _ _ E) as (zm & za & lo & hi & mlo & mhi & Hm & Ha & Hk & Hr & _).
  cbn [obind]. rewrite Hm. cbn [obind]. rewrite Ha. cbn [obind]. rewrite Hk. cbn [obind sval]. rewrite Hr. cbn [obind sval]. eauto.
Qed.

Lemma offer_z_total np c : known_zclue c -> exists info, offer_z np c = Ok info.
Proof.
  destruct c as [z|s]; simpl.
  - intros [e E]. eapply offer_atomic_number_total, E.
  - intros (z & e & Hz & E). rewrite Hz. simpl. eapply offer_atomic_number_total, E.
Qed.

Lemma mapM_total {A B} (f : A -> outcome B) l : (forall x, In x l -> exists y, f x = Ok y) -> exists ys, mapM f l = Ok ys.
Proof.
  induction l as [|x l IH]; intro H; [exists []; reflexivity|].
  destruct (H x (or_introl eq_refl)) as [y Hy]. destruct IH as [ys Hys]; [intros; apply H; right; assumption|].
  simpl. rewrite Hy. simpl. rewrite Hys. simpl. eauto.
Qed.

(** Every name in the clues is in the table: each Z / E clue (arguments and label) is an element, and each mass-number
    clue (argument or label) is a tabulated nuclide of every element the Z / E clues name. *)
Definition names_known (i : nuc_in) : Prop :=
  (forall c, In c (zclues_args i) -> known_zclue c) /\
  forall lbl, parse_stage i = Ok lbl ->
    (forall c, In c (zclues_label lbl) -> known_zclue c) /\
    (forall c z e a, In c (zclues_args i ++ zclues_label lbl) -> zclue_agrees c z -> to_E_int z = Ok e ->
                     In (CA a) (clues i lbl) -> exists t, nuclide_mass e a = Ok t).

Lemma parse_stage_err i k : parse_stage i = Err k -> k = Validation.
Proof.
  unfold parse_stage. destruct (nlabel i) as [s|]; [|discriminate]. destruct (speclabel i); [|discriminate].
  unfold parse_label. destruct (match_label _); simpl; [discriminate|]. congruence.
Qed.

Lemma pick_err {A T} (ok : T -> A -> bool) ex ts k : pick ok ex ts = Err k -> k = Validation.
Proof. unfold pick. destruct (find _ ex); simpl; [discriminate | congruence]. Qed.

Lemma pick_in {A T} (ok : T -> A -> bool) ex ts c : pick ok ex ts = Ok c -> In c ex.
Proof. unfold pick. destruct (find _ ex) as [x|] eqn:E; simpl; [|discriminate]. intro H. injection H as <-. apply find_some in E. tauto. Qed.

Theorem not_an_element_only_for_unknown_names i : names_known i -> reconcile i <> Err NotAnElement.
Proof.
  intros [Ka Kl]. unfold reconcile.
  destruct (mapM_total (offer_z (nonphysical i)) (zclues_args i)) as [zi1 H1]; [intros c Hc; apply offer_z_total, Ka, Hc|].
  rewrite H1. cbn [obind].
  destruct (parse_stage i) as [lbl|k] eqn:Hp; cbn [obind]; [|rewrite (parse_stage_err _ _ Hp); discriminate].
  destruct (Kl lbl eq_refl) as [Kz KA].
  destruct (mapM_total (offer_z (nonphysical i)) (zclues_label lbl)) as [zi2 H2]; [intros c Hc; apply offer_z_total, Kz, Hc|].
  rewrite H2. cbn [obind].
  destruct (pick _ (map zi_z (zi1 ++ zi2)) _) as [zf|k] eqn:Hz; cbn [obind]; [|rewrite (pick_err _ _ _ _ Hz); discriminate].
  apply pick_in in Hz. apply in_map_iff in Hz. destruct Hz as [info [Hzi Hin]].
  assert (Hsrc : exists c, In c (zclues_args i ++ zclues_label lbl) /\ offer_z (nonphysical i) c = Ok info).
  { apply mapM_ok in H1. apply mapM_ok in H2. apply in_app_or in Hin. destruct Hin as [Hin|Hin].
    - destruct (Forall2_in_r _ _ _ _ H1 Hin) as [c [Hc Ho]]. exists c. split; [apply in_or_app; left; exact Hc | exact Ho].
    - destruct (Forall2_in_r _ _ _ _ H2 Hin) as [c [Hc Ho]]. exists c. split; [apply in_or_app; right; exact Hc | exact Ho]. }
  destruct Hsrc as (c & Hc & Ho). destruct (offer_z_ok _ _ _ Ho) as [Hoa Hag].
  destruct (offer_atomic_number_ok _ _ _ Hoa) as [_ F]. pose proof (zf_E _ _ F) as HE. rewrite Hzi in HE, Hag.
  rewrite HE. cbn [obind].
  destruct (mapM_total (offer_c (zi_E info) (mtol i)) (clues i lbl)) as [ci Hci].
  { intros cl Hcl. destruct cl as [a|m|b|u]; simpl; eauto.
    destruct (KA c zf (zi_E info) a Hc Hag HE Hcl) as [t Ht]. rewrite Ht. simpl. eauto. }
  rewrite Hci. cbn [obind].
  destruct (pick (m_ok (mtol i)) _ _) as [mf|k] eqn:P1; cbn [obind]; [|rewrite (pick_err _ _ _ _ P1); discriminate].
  destruct (pick a_ok _ _) as [af|k] eqn:P2; cbn [obind]; [|rewrite (pick_err _ _ _ _ P2); discriminate].
  destruct (pick _ (true :: _) _) as [rf|k] eqn:P3; cbn [obind]; [|rewrite (pick_err _ _ _ _ P3); discriminate].
  destruct (pick _ (EmptyString :: _) _) as [lf|k] eqn:P4; cbn [obind]; [|rewrite (pick_err _ _ _ _ P4); discriminate].
  discriminate.
Qed.

(** Contradictory clues whose names are all in the table raise ValidationError. *)
Corollary contradiction_is_validation_error i : Contradiction i -> names_known i -> reconcile i = Err Validation.
Proof.
  intros K N. destruct (contradiction_rejected i K) as [H|H]; [exact H|].
  exfalso. exact (not_an_element_only_for_unknown_names i N H).
Qed.

(* ------------------------------------------------------------------------------------------ *)
(** * functools.lru_cache(maxsize) around a function that may raise *)

Lemma in_firstn {A} (x : A) n l : In x (firstn n l) -> In x l.
Proof. revert l; induction n as [|n IH]; intros [|y l] H; simpl in *; try tauto. destruct H; [left; assumption | right; apply IH; assumption]. Qed.

Section Cache.
  Variables (K V : Type) (keq : K -> K -> bool) (f : K -> outcome V) (maxsize : nat).
  (** equal keys (Python: == and same hash; 1 == 1.0 == True) must denote the same call — what a key that is too
      coarse violates *)
  Hypothesis keq_sound : forall a b, keq a b = true -> f a = f b.

  Definition cache := list (K * V).              (* most recently used first *)

  Fixpoint lookup (k : K) (c : cache) : option (V * cache) :=   (* value and the cache without that entry *)
    match c with
    | [] => None
    | (k', v) :: r => if keq k k' then Some (v, r)
                      else match lookup k r with Some (v', r') => Some (v', (k', v) :: r') | None => None end
    end.

  (** one call: a hit returns the stored value and refreshes the entry; a miss runs f, stores a result (exceptions
      are not cached) and evicts the least recently used entries beyond maxsize *)
  Definition call (c : cache) (k : K) : outcome V * cache :=
    match lookup k c with
    | Some (v, r) => (Ok v, (k, v) :: r)
    | None => match f k with
              | Ok v => (Ok v, firstn maxsize ((k, v) :: c))
              | Err e => (Err e, c)
              end
    end.

  Definition clear (c : cache) : cache := [].

  Definition coherent (c : cache) : Prop := forall k v, In (k, v) c -> f k = Ok v.

  Lemma lookup_spec k c v r : lookup k c = Some (v, r) -> coherent c -> f k = Ok v /\ coherent r.
  Proof.
    revert v r; induction c as [|[k' v'] c IH]; intros v r H Hc; [discriminate|]. simpl in H.
    destruct (keq k k') eqn:E.
    - injection H as <- <-. split; [rewrite (keq_sound _ _ E); apply Hc; left; reflexivity | intros a b Hab; apply Hc; right; exact Hab].
    - destruct (lookup k c) as [[v0 r0]|] eqn:L; [|discriminate]. injection H as <- <-.
      destruct (IH _ _ eq_refl) as [Hf Hr]; [intros a b Hab; apply Hc; right; exact Hab|].
      split; [exact Hf|]. intros a b [Hab|Hab]; [apply Hc; left; exact Hab | apply Hr, Hab].
  Qed.

  Lemma call_spec c k : coherent c -> fst (call c k) = f k /\ coherent (snd (call c k)).
  Proof.
    intro Hc. unfold call. destruct (lookup k c) as [[v r]|] eqn:L.
    - destruct (lookup_spec _ _ _ _ L Hc) as [Hf Hr]. split; [symmetry; exact Hf|].
      intros a b [Hab|Hab]; [injection Hab as <- <-; exact Hf | apply Hr, Hab].
    - destruct (f k) as [v|e] eqn:E; split; try reflexivity; try exact Hc.
      intros a b Hab. apply in_firstn in Hab. destruct Hab as [Hab|Hab]; [injection Hab as <- <-; exact E | apply Hc, Hab].
  Qed.

  (** a history: calls and cache_clear()s in any order *)
  Inductive event := Call (k : K) | Clear.

  Fixpoint run (c : cache) (h : list event) : list (outcome V) * cache :=
    match h with
    | [] => ([], c)
    | Call k :: r => let '(o, c') := call c k in let '(os, c'') := run c' r in (o :: os, c'')
    | Clear :: r => run [] r
    end.

  Fixpoint pure (h : list event) : list (outcome V) :=
    match h with [] => [] | Call k :: r => f k :: pure r | Clear :: r => pure r end.

  (** every answer in every history is the answer of the uncached function *)
  Theorem history_independent h : forall c, coherent c -> fst (run c h) = pure h.
  Proof.
    induction h as [|[k|] h IH]; intros c Hc; simpl; [reflexivity | |apply IH; intros ? ? []].
    destruct (call_spec c k Hc) as [Hf Hc']. destruct (call c k) as [o c'] eqn:E. simpl in Hf, Hc'.
    specialize (IH c' Hc'). destruct (run c' h) as [os c'']. simpl in *. rewrite Hf, IH. reflexivity.
  Qed.
End Cache.

(** the instance: reconcile_nucleus behind lru_cache(maxsize=512); keys are the (typed) argument records *)
Definition oq_eqb_strict (a b : option Q) : bool :=
  match a, b with Some x, Some y => (Qnum x =? Qnum y) && (Pos.eqb (Qden x) (Qden y)) | None, None => true | _, _ => false end.
Definition q_eqb_strict (x y : Q) : bool := (Qnum x =? Qnum y) && (Pos.eqb (Qden x) (Qden y)).
Lemma q_eqb_strict_eq x y : q_eqb_strict x y = true -> x = y.
Proof.
  destruct x as [n d], y as [n' d']. unfold q_eqb_strict. simpl. intro H.
  apply andb_true_iff in H. destruct H as [H1 H2]. apply Z.eqb_eq in H1. apply Pos.eqb_eq in H2. subst. reflexivity.
Qed.
Definition ob_eqb (a b : option bool) : bool :=
  match a, b with Some x, Some y => Bool.eqb x y | None, None => true | _, _ => false end.
Definition key_eqb (a b : nuc_in) : bool :=
  oz_eqb (nA a) (nA b) && oz_eqb (nZ a) (nZ b) && os_eqb (nE a) (nE b) && oq_eqb_strict (nmass a) (nmass b) &&
  ob_eqb (nreal a) (nreal b) && os_eqb (nlabel a) (nlabel b) && Bool.eqb (speclabel a) (speclabel b) &&
  Bool.eqb (nonphysical a) (nonphysical b) && q_eqb_strict (mtol a) (mtol b).

Lemma oz_eqb_eq a b : oz_eqb a b = true -> a = b.
Proof. destruct a, b; simpl; intro H; try discriminate; [apply Z.eqb_eq in H; subst|]; reflexivity. Qed.
Lemma os_eqb_eq a b : os_eqb a b = true -> a = b.
Proof. destruct a, b; simpl; intro H; try discriminate; [apply String.eqb_eq in H; subst|]; reflexivity. Qed.
Lemma ob_eqb_eq a b : ob_eqb a b = true -> a = b.
Proof. destruct a, b; simpl; intro H; try discriminate; [apply Bool.eqb_prop in H; subst|]; reflexivity. Qed.
Lemma oq_eqb_strict_eq a b : oq_eqb_strict a b = true -> a = b.
Proof.
  destruct a as [[n d]|], b as [[n' d']|]; simpl; intro H; try discriminate; [|reflexivity].
  apply andb_true_iff in H. destruct H as [H1 H2]. apply Z.eqb_eq in H1. apply Pos.eqb_eq in H2. subst. reflexivity.
Qed.

Lemma key_eqb_eq a b : key_eqb a b = true -> a = b.
Proof.
  unfold key_eqb. intro H. repeat (apply andb_true_iff in H; destruct H as [H ?]).
  destruct a, b; simpl in *.
  repeat match goal with
         | H : oz_eqb _ _ = true |- _ => apply oz_eqb_eq in H
         | H : os_eqb _ _ = true |- _ => apply os_eqb_eq in H
         | H : ob_eqb _ _ = true |- _ => apply ob_eqb_eq in H
         | H : oq_eqb_strict _ _ = true |- _ => apply oq_eqb_strict_eq in H
         | H : q_eqb_strict _ _ = true |- _ => apply q_eqb_strict_eq in H
         | H : Bool.eqb _ _ = true |- _ => apply Bool.eqb_prop in H
         end.
  congruence.
Qed.

Definition lru_maxsize : nat := 512.

Theorem reconcile_history_independent (h : list (event nuc_in)) :
  fst (run nuc_in nuc_out key_eqb reconcile lru_maxsize [] h) = pure nuc_in nuc_out reconcile h.
Proof.
  apply history_independent; [|intros ? ? []]. intros a b H. apply key_eqb_eq in H. subst. reflexivity.
Qed.
