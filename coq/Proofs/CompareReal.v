(** C19 — the binary64 closeness test against the real-number rule of the property.
    [isclose_f] (Model/Compare.v) is numpy's formula evaluated with one binary64 operation per step.  Here its
    verdict is related to the exact inequality |c - e| <= atol + rtol*|e| over the reals, through Flocq's
    semantics of the primitive floats (Flocq.IEEE754.PrimFloat, resting on the FloatAxioms specifications of the
    kernel primitives) and Flocq's rounding-error theorems.  The verdict can differ from the exact rule only
    inside a band of relative width 4u = 2^-51 (u = 2^-53) plus an absolute 2^-1074 (underflow of rtol*|e|). *)
From Coq Require Import ZArith Reals Floats Lra Lia Psatz Bool.
From Flocq Require Import Raux Core BinarySingleNaN Relative Plus_error.
From Flocq Require IEEE754.PrimFloat.
Module FP := Flocq.IEEE754.PrimFloat.
Require Import QV.Model.Compare.
Local Open Scope R_scope.

Notation pfloat := Floats.PrimFloat.float.
Definition FR (x : pfloat) : R := B2R (FP.Prim2B x).
Definition fin (x : pfloat) : Prop := Floats.PrimFloat.is_finite x = true.
Notation rnd64 := (round radix2 (fexp prec emax) ZnearestE).

Lemma fin_B x : fin x -> is_finite (FP.Prim2B x) = true.
Proof. unfold fin. rewrite FP.is_finite_equiv. auto. Qed.

Lemma overflow_not_finite (x : binary_float prec emax) s :
  B2SF x = binary_overflow prec emax mode_NE s -> is_finite x = false.
Proof. intro H. rewrite <- is_finite_SF_B2SF, H. reflexivity. Qed.

Lemma sub_R c e : fin c -> fin e -> fin (c - e)%float -> FR (c - e)%float = rnd64 (FR c - FR e).
Proof.
  intros Hc He Hs. apply fin_B in Hc, He, Hs. unfold FR. rewrite FP.sub_equiv in *.
  generalize (Bminus_correct prec emax FP.Hprec FP.Hmax mode_NE _ _ Hc He).
  destruct Rlt_bool.
  - intros [H _]. exact H.
  - intros [H _]. apply overflow_not_finite in H. congruence.
Qed.

Lemma add_R a b : fin a -> fin b -> fin (a + b)%float -> FR (a + b)%float = rnd64 (FR a + FR b).
Proof.
  intros Hc He Hs. apply fin_B in Hc, He, Hs. unfold FR. rewrite FP.add_equiv in *.
  generalize (Bplus_correct prec emax FP.Hprec FP.Hmax mode_NE _ _ Hc He).
  destruct Rlt_bool.
  - intros [H _]. exact H.
  - intros [H _]. apply overflow_not_finite in H. congruence.
Qed.

Lemma mul_R a b : fin (a * b)%float -> FR (a * b)%float = rnd64 (FR a * FR b).
Proof.
  intros Hs. apply fin_B in Hs. unfold FR. rewrite FP.mul_equiv in *.
  generalize (Bmult_correct prec emax FP.Hprec FP.Hmax mode_NE (FP.Prim2B a) (FP.Prim2B b)).
  destruct Rlt_bool.
  - intros [H _]. exact H.
  - intros H. apply overflow_not_finite in H. congruence.
Qed.

Lemma abs_R a : FR (abs a) = Rabs (FR a).
Proof. unfold FR. rewrite FP.abs_equiv. apply B2R_Babs. Qed.

Lemma fin_abs a : fin a -> fin (abs a).
Proof. unfold fin. rewrite !FP.is_finite_equiv, FP.abs_equiv, is_finite_Babs. auto. Qed.

Lemma leb_R a b : fin a -> fin b -> Floats.PrimFloat.leb a b = Rle_bool (FR a) (FR b).
Proof. intros Ha Hb. rewrite FP.leb_equiv. apply Bleb_correct; apply fin_B; assumption. Qed.

Lemma eqb_R a b : fin a -> fin b -> Floats.PrimFloat.eqb a b = Req_bool (FR a) (FR b).
Proof. intros Ha Hb. rewrite FP.eqb_equiv. apply Beqb_correct; apply fin_B; assumption. Qed.

Lemma fmt a : generic_format radix2 (fexp prec emax) (FR a).
Proof. apply generic_format_B2R. Qed.
Lemma band_true u eta D T A RtE p t d0 d1 d2 h1 :
  0 < u <= /8 -> 0 <= eta -> Rabs d0 <= u -> Rabs d1 <= u -> Rabs d2 <= u -> Rabs h1 <= eta ->
  0 <= A -> 0 <= RtE -> 0 <= D -> T = A + RtE ->
  p = RtE * (1 + d1) + h1 -> t = (A + p) * (1 + d2) ->
  D * (1 + d0) <= t -> D <= (T + eta) * (1 + 4 * u).
Proof.
  intros [Hu0 Hu] He H0 H1 H2 Hh HA HR HD HT Hp Ht Hle.
  apply Rabs_le_inv in H0, H1, H2, Hh.
  assert (Hp1 : A + p <= T * (1 + u) + eta) by (subst; nra).
  assert (Ht1 : t <= (T * (1 + u) + eta) * (1 + u)).
  { subst t. destruct (Rle_or_lt 0 (A + p)).
    - apply Rle_trans with ((A + p) * (1 + u)); [nra|]. apply Rmult_le_compat_r; lra.
    - assert (0 <= T * (1 + u) + eta) by (subst T; nra). nra. }
  assert (HT0 : 0 <= T) by (subst; lra).
  assert (Hd : D * (1 - u) <= D * (1 + d0)) by nra.
  assert (Hk : (T * (1 + u) + eta) * (1 + u) <= (T + eta) * (1 + u) * (1 + u)) by nra.
  assert (Hm : (1 + u) * (1 + u) <= (1 + 4 * u) * (1 - u)) by nra.
  assert (D * (1 - u) <= (T + eta) * ((1 + 4 * u) * (1 - u))).
  { apply Rle_trans with ((T + eta) * ((1 + u) * (1 + u))); [nra|]. apply Rmult_le_compat_l; lra. }
  assert (0 < 1 - u) by lra.
  apply Rmult_le_reg_r with (1 - u); [assumption|]. nra.
Qed.

Lemma band_false u eta D T A RtE p t d0 d1 d2 h1 :
  0 < u <= /8 -> 0 <= eta -> Rabs d0 <= u -> Rabs d1 <= u -> Rabs d2 <= u -> Rabs h1 <= eta ->
  0 <= A -> 0 <= RtE -> 0 <= D -> T = A + RtE -> 0 <= p ->
  p = RtE * (1 + d1) + h1 -> t = (A + p) * (1 + d2) ->
  t < D * (1 + d0) -> (T - 2 * eta) * (1 - 4 * u) <= D.
Proof.
  intros [Hu0 Hu] He H0 H1 H2 Hh HA HR HD HT Hp0 Hp Ht Hlt.
  apply Rabs_le_inv in H0, H1, H2, Hh.
  destruct (Rle_or_lt (T - 2 * eta) 0) as [Hneg|Hpos].
  { apply Rle_trans with 0; [|assumption]. assert (0 <= 1 - 4 * u) by lra. nra. }
  assert (Hp1 : T * (1 - u) - eta <= A + p) by (subst; nra).
  assert (Ht1 : (T * (1 - u) - eta) * (1 - u) <= t).
  { subst t. apply Rle_trans with ((A + p) * (1 - u)).
    - apply Rmult_le_compat_r; lra.
    - assert (0 <= A + p) by lra. nra. }
  assert (Hd : D * (1 + d0) <= D * (1 + u)) by nra.
  assert (Hk : (T - 2 * eta) * (1 - u) * (1 - u) <= (T * (1 - u) - eta) * (1 - u)) by nra.
  assert (Hm : (1 - 4 * u) * (1 + u) <= (1 - u) * (1 - u)) by nra.
  assert ((T - 2 * eta) * ((1 - 4 * u) * (1 + u)) <= D * (1 + u)).
  { apply Rle_trans with ((T - 2 * eta) * ((1 - u) * (1 - u))); [apply Rmult_le_compat_l; lra | nra]. }
  apply Rmult_le_reg_r with (1 + u); [lra|]. nra.
Qed.

Definition u64 : R := / 2 * bpow radix2 (- prec + 1).          (* 2^-53 *)
Definition eta64 : R := / 2 * bpow radix2 (3 - emax - prec).   (* 2^-1075 *)

Lemma u64_bounds : 0 < u64 <= / 8.
Proof.
  unfold u64. split.
  - apply Rmult_lt_0_compat; [lra | apply bpow_gt_0].
  - assert (bpow radix2 (- prec + 1) <= bpow radix2 (-2)) by (apply bpow_le; unfold prec; lia).
    assert (bpow radix2 (-2) = / 4) by (simpl; lra). lra.
Qed.

Lemma eta64_pos : 0 <= eta64.
Proof. unfold eta64. apply Rmult_le_pos; [lra | apply bpow_ge_0]. Qed.

Lemma u_ro_le : u_ro radix2 prec / (1 + u_ro radix2 prec) <= u64.
Proof.
  change (u_ro radix2 prec) with u64. destruct u64_bounds as [H0 _].
  unfold Rdiv. apply Rmult_le_reg_r with (1 + u64); [lra|]. rewrite Rmult_assoc, Rinv_l by lra. nra.
Qed.

Lemma round_sum_err x y :
  generic_format radix2 (fexp prec emax) x -> generic_format radix2 (fexp prec emax) y ->
  exists d, Rabs d <= u64 /\ rnd64 (x + y) = (x + y) * (1 + d).
Proof.
  intros Fx Fy.
  destruct (@FLT_plus_error_N_ex radix2 (3 - emax - prec) prec FP.Hprec (fun x => negb (Z.even x)) x y Fx Fy) as (d & Hd & H).
  exists d. split; [apply Rle_trans with (1 := Hd), u_ro_le | exact H].
Qed.

Lemma round_prod_err x :
  exists d h, Rabs d <= u64 /\ Rabs h <= eta64 /\ rnd64 x = x * (1 + d) + h.
Proof.
  destruct (error_N_FLT radix2 (3 - emax - prec) prec ltac:(unfold prec; lia) (fun x => negb (Z.even x)) x) as (d & h & Hd & Hh & _ & H).
  exists d, h. repeat split; assumption.
Qed.

Lemma fin_not_nan x : fin x -> Floats.PrimFloat.is_nan x = false.
Proof. unfold fin, Floats.PrimFloat.is_finite. destruct (Floats.PrimFloat.is_nan x); simpl; congruence. Qed.

Theorem isclose_f_band atol rtol eqn c e :
  fin c -> fin e -> fin atol -> fin rtol -> 0 <= FR atol -> 0 <= FR rtol ->
  fin (c - e)%float -> fin (rtol * abs e)%float -> fin (atol + rtol * abs e)%float ->
  let D := Rabs (FR c - FR e) in
  let T := FR atol + FR rtol * Rabs (FR e) in
  (isclose_f atol rtol eqn c e = true -> D <= (T + eta64) * (1 + 4 * u64)) /\
  (isclose_f atol rtol eqn c e = false -> (T - 2 * eta64) * (1 - 4 * u64) <= D).
Proof.
  intros Hc He Ha Hr HA HR Hs Hm Ht D T.
  assert (HD : 0 <= D) by apply Rabs_pos.
  assert (HE : 0 <= Rabs (FR e)) by apply Rabs_pos.
  assert (HRE : 0 <= FR rtol * Rabs (FR e)) by (apply Rmult_le_pos; assumption).
  (* the three rounded operations *)
  destruct (round_sum_err (FR c) (- FR e) (fmt c) (generic_format_opp _ _ _ (fmt e))) as (d0 & Hd0 & Hsub).
  destruct (round_prod_err (FR rtol * Rabs (FR e))) as (d1 & h1 & Hd1 & Hh1 & Hmul).
  destruct (round_sum_err (FR atol) (FR (rtol * abs e)%float) (fmt atol) (fmt _)) as (d2 & Hd2 & Hadd).
  assert (Hp : FR (rtol * abs e)%float = FR rtol * Rabs (FR e) * (1 + d1) + h1).
  { rewrite (mul_R _ _ Hm), abs_R. exact Hmul. }
  assert (Ht' : FR (atol + rtol * abs e)%float = (FR atol + FR (rtol * abs e)%float) * (1 + d2)).
  { rewrite (add_R _ _ Ha Hm Ht). exact Hadd. }
  assert (Hdd : FR (abs (c - e))%float = D * (1 + d0)).
  { rewrite abs_R, (sub_R _ _ Hc He Hs). unfold Rminus at 1. rewrite Hsub, Rabs_mult.
    fold (Rminus (FR c) (FR e)). fold D. f_equal. apply Rabs_pos_eq.
    destruct u64_bounds. apply Rabs_le_inv in Hd0. lra. }
  assert (Hp0 : 0 <= FR (rtol * abs e)%float).
  { rewrite (mul_R _ _ Hm), abs_R. rewrite <- (round_0 radix2 (fexp prec emax) ZnearestE).
    apply round_le; [apply (fexp_correct prec emax FP.Hprec) | typeclasses eauto | exact HRE]. }
  unfold isclose_f.
  change (PrimFloat.is_finite e) with (Floats.PrimFloat.is_finite e). rewrite He.
  rewrite (fin_not_nan c Hc), andb_false_r, andb_true_r, orb_false_r.
  rewrite (leb_R _ _ (fin_abs _ Hs) Ht), (eqb_R _ _ Hc He).
  split; intro H.
  - apply orb_true_iff in H. destruct H as [H|H].
    + revert H. case Rle_bool_spec; [|discriminate]. intros Hle _. rewrite Hdd in Hle.
      exact (band_true u64 eta64 D T (FR atol) (FR rtol * Rabs (FR e)) _ _ d0 d1 d2 h1 u64_bounds eta64_pos Hd0 Hd1 Hd2 Hh1 HA HRE HD eq_refl Hp Ht' Hle).
    + revert H. case Req_bool_spec; [|discriminate]. intros Heq _.
      unfold D. rewrite Heq. unfold Rminus. rewrite Rplus_opp_r, Rabs_R0. destruct u64_bounds. apply Rmult_le_pos; [|lra].
      unfold T. generalize eta64_pos. lra.
  - apply orb_false_iff in H. destruct H as [H _].
    revert H. case Rle_bool_spec; [discriminate|]. intros Hlt _. rewrite Hdd in Hlt.
    exact (band_false u64 eta64 D T (FR atol) (FR rtol * Rabs (FR e)) _ _ d0 d1 d2 h1 u64_bounds eta64_pos Hd0 Hd1 Hd2 Hh1 HA HRE HD eq_refl Hp0 Hp Ht' Hlt).
Qed.

Lemma u64_val : u64 = / 9007199254740992.
Proof.
  unfold u64. replace (- prec + 1)%Z with (- (52))%Z by reflexivity. rewrite bpow_opp.
  change (bpow radix2 52) with (IZR (Z.pow_pos 2 52)). change (Z.pow_pos 2 52) with 4503599627370496%Z. lra.
Qed.

(* ------------------------------------------------------------------------------------------ *)
(** * the modelled complex modulus *)

(** the modelled |re + i im| = R_sqrt.sqrt(re*re + im*im), each operation rounded with relative error at most u (no
    underflow of the squares): within (1-u)^2 .. (1+u)^2 of the exact modulus *)
Lemma naive_modulus_error (u a b d1 d2 d3 d4 : R) :
  0 <= u < 1 -> Rabs d1 <= u -> Rabs d2 <= u -> Rabs d3 <= u -> Rabs d4 <= u ->
  let N := R_sqrt.sqrt (a * a + b * b) in
  let s := (a * a * (1 + d1) + b * b * (1 + d2)) * (1 + d3) in
  N * ((1 - u) * (1 - u)) <= R_sqrt.sqrt s * (1 + d4) <= N * ((1 + u) * (1 + u)).
Proof.
  intros [Hu0 Hu1] H1 H2 H3 H4 N s.
  apply Rabs_le_inv in H1, H2, H3, H4.
  assert (Hq : 0 <= a * a + b * b) by nra.
  assert (HN : 0 <= N) by apply sqrt_pos.
  assert (HNN : N * N = a * a + b * b) by (apply sqrt_sqrt; assumption).
  assert (Ha : 0 <= a * a) by nra. assert (Hb : 0 <= b * b) by nra.
  assert (Hin : (a * a + b * b) * (1 - u) <= a * a * (1 + d1) + b * b * (1 + d2) <= (a * a + b * b) * (1 + u)) by nra.
  assert (Hs : (N * (1 - u)) * (N * (1 - u)) <= s <= (N * (1 + u)) * (N * (1 + u))).
  { unfold s. split.
    - replace (N * (1 - u) * (N * (1 - u))) with ((N * N) * (1 - u) * (1 - u)) by ring. rewrite HNN.
      apply Rle_trans with ((a * a * (1 + d1) + b * b * (1 + d2)) * (1 - u)); [apply Rmult_le_compat_r; lra | apply Rmult_le_compat_l; nra].
    - replace (N * (1 + u) * (N * (1 + u))) with ((N * N) * (1 + u) * (1 + u)) by ring. rewrite HNN.
      apply Rle_trans with ((a * a * (1 + d1) + b * b * (1 + d2)) * (1 + u)); [apply Rmult_le_compat_l; nra | apply Rmult_le_compat_r; lra]. }
  assert (Hlo : N * (1 - u) <= R_sqrt.sqrt s).
  { rewrite <- (sqrt_square (N * (1 - u))) by nra. apply sqrt_le_1_alt. apply Hs. }
  assert (Hhi : R_sqrt.sqrt s <= N * (1 + u)).
  { rewrite <- (sqrt_square (N * (1 + u))) by nra. apply sqrt_le_1_alt. apply Hs. }
  assert (0 <= R_sqrt.sqrt s) by apply sqrt_pos.
  split; nra.
Qed.

Definition tiny64 : R := bpow radix2 (3 - emax - prec + prec - 1).     (* 2^-1022, the smallest normal double *)

Lemma round_rel_err x : tiny64 <= Rabs x -> exists d, Rabs d <= u64 /\ rnd64 x = x * (1 + d).
Proof.
  intro H. exact (@relative_error_N_FLT_ex radix2 (3 - emax - prec) prec FP.Hprec (fun x => negb (Z.even x)) x H).
Qed.

Lemma sqrt_R a : FR (Floats.PrimFloat.sqrt a) = rnd64 (R_sqrt.sqrt (FR a)).
Proof. unfold FR. rewrite FP.sqrt_equiv. apply (Bsqrt_correct prec emax FP.Hprec FP.Hmax mode_NE). Qed.

Lemma fin_not_inf x : fin x -> Floats.PrimFloat.is_infinity x = false.
Proof.
  unfold fin, Floats.PrimFloat.is_finite. destruct (Floats.PrimFloat.is_infinity x); [|reflexivity].
  rewrite orb_true_r. discriminate.
Qed.

(** the modelled modulus off the axes: within (1-u)^2 .. (1+u)^2 of R_sqrt.sqrt(a^2+b^2) when the squares neither
    underflow nor overflow (C hypot is within 1 ulp of the same number) *)
Theorem hypot_model_error a b :
  fin a -> fin b ->
  Floats.PrimFloat.eqb a fzero = false -> Floats.PrimFloat.eqb b fzero = false ->
  fin (a * a)%float -> fin (b * b)%float -> fin (a * a + b * b)%float ->
  tiny64 <= FR a * FR a -> tiny64 <= FR b * FR b ->
  let N := R_sqrt.sqrt (FR a * FR a + FR b * FR b) in
  N * ((1 - u64) * (1 - u64)) <= FR (hypot a b) <= N * ((1 + u64) * (1 + u64)).
Proof.
  intros Ha Hb Za Zb Haa Hbb Hs Ta Tb N.
  assert (Ht0 : 0 < tiny64) by apply bpow_gt_0.
  unfold hypot.
  change (PrimFloat.is_infinity a) with (Floats.PrimFloat.is_infinity a).
  change (PrimFloat.is_infinity b) with (Floats.PrimFloat.is_infinity b).
  change (PrimFloat.is_nan a) with (Floats.PrimFloat.is_nan a).
  change (PrimFloat.is_nan b) with (Floats.PrimFloat.is_nan b).
  rewrite (fin_not_inf a Ha), (fin_not_inf b Hb), (fin_not_nan a Ha), (fin_not_nan b Hb). simpl.
  change (PrimFloat.eqb b fzero) with (Floats.PrimFloat.eqb b fzero). rewrite Zb.
  change (PrimFloat.eqb a fzero) with (Floats.PrimFloat.eqb a fzero). rewrite Za.
  change (PrimFloat.sqrt ?x) with (Floats.PrimFloat.sqrt x).
  rewrite sqrt_R.
  change (PrimFloat.add ?x ?y) with (x + y)%float. change (PrimFloat.mul ?x ?y) with (x * y)%float.
  rewrite (add_R _ _ Haa Hbb Hs), (mul_R _ _ Haa), (mul_R _ _ Hbb).
  destruct (round_rel_err (FR a * FR a)) as (d1 & Hd1 & E1); [rewrite Rabs_pos_eq; lra|].
  destruct (round_rel_err (FR b * FR b)) as (d2 & Hd2 & E2); [rewrite Rabs_pos_eq; lra|].
  rewrite E1, E2.
  destruct (round_sum_err (FR a * FR a * (1 + d1)) (FR b * FR b * (1 + d2))) as (d3 & Hd3 & E3).
  { rewrite <- E1. apply generic_format_round; [apply (fexp_correct prec emax FP.Hprec) | typeclasses eauto]. }
  { rewrite <- E2. apply generic_format_round; [apply (fexp_correct prec emax FP.Hprec) | typeclasses eauto]. }
  rewrite E3.
  set (s := (FR a * FR a * (1 + d1) + FR b * FR b * (1 + d2)) * (1 + d3)).
  destruct u64_bounds as [U0 U1].
  assert (Hd1' := Rabs_le_inv _ _ Hd1). assert (Hd2' := Rabs_le_inv _ _ Hd2). assert (Hd3' := Rabs_le_inv _ _ Hd3).
  assert (Hs1 : tiny64 <= s).
  { unfold s. set (X := FR a * FR a * (1 + d1) + FR b * FR b * (1 + d2)).
    assert (HX : tiny64 * 2 * (1 - u64) <= X) by (unfold X; nra).
    assert (HX0 : 0 <= X) by nra.
    apply Rle_trans with (X * (1 - u64)); [|apply Rmult_le_compat_l; lra].
    apply Rle_trans with (tiny64 * 2 * (1 - u64) * (1 - u64)); [nra | apply Rmult_le_compat_r; lra]. }
  destruct (round_rel_err (R_sqrt.sqrt s)) as (d4 & Hd4 & E4).
  { rewrite Rabs_pos_eq by apply sqrt_pos.
    assert (Hts : tiny64 <= 1).
    { unfold tiny64. change 1 with (bpow radix2 0). apply bpow_le. unfold emax, prec. lia. }
    assert (Hss : R_sqrt.sqrt tiny64 <= R_sqrt.sqrt s) by (apply sqrt_le_1_alt; assumption).
    apply Rle_trans with (2 := Hss).
    rewrite <- (sqrt_square tiny64) at 1 by lra. apply sqrt_le_1_alt. nra. }
  rewrite E4.
  assert (HU : 0 <= u64 < 1) by lra.
  exact (naive_modulus_error u64 (FR a) (FR b) d1 d2 d3 d4 HU Hd1 Hd2 Hd3 Hd4).
Qed.
