(** C15 — proofs about Model/Formula.v. *)
From Coq Require Import ZArith List String Ascii Bool Arith Lia Permutation Sorted.
Require Import QV.Common.Outcome QV.Common.HFSort QV.Common.HFHash QV.Model.Formula.
Import ListNotations.

(** ---- the order on strings (code-point lexicographic, as Python compares str) ---- *)
Lemma ascii_compare_N a b : Ascii.compare a b = N.compare (N_of_ascii a) (N_of_ascii b).
Proof. reflexivity. Qed.

Lemma string_compare_trans_lt : forall a b c, String.compare a b = Lt -> String.compare b c = Lt -> String.compare a c = Lt.
Proof.
  induction a as [|x a IH]; intros [|y b] [|z c]; simpl; intros H1 H2; try discriminate; try reflexivity.
  rewrite ascii_compare_N in *.
  destruct (N.compare_spec (N_of_ascii x) (N_of_ascii y)) as [E|L|G]; try discriminate;
    destruct (N.compare_spec (N_of_ascii y) (N_of_ascii z)) as [E'|L'|G']; try discriminate.
  - rewrite E, E', N.compare_refl. eapply IH; eassumption.
  - rewrite E. apply N.compare_lt_iff in L'. rewrite L'. reflexivity.
  - rewrite <- E'. apply N.compare_lt_iff in L. rewrite L. reflexivity.
  - assert (T : (N_of_ascii x < N_of_ascii z)%N) by lia. apply N.compare_lt_iff in T. rewrite T. reflexivity.
Qed.

Lemma string_compare_refl a : String.compare a a = Eq.
Proof. induction a as [|x a IH]; simpl; [reflexivity|]. rewrite ascii_compare_N, N.compare_refl. exact IH. Qed.

Lemma string_compare_eq a b : String.compare a b = Eq -> a = b.
Proof. apply String.compare_eq_iff. Qed.

Lemma string_leb_trans a b c : String.leb a b = true -> String.leb b c = true -> String.leb a c = true.
Proof.
  unfold String.leb. destruct (String.compare a b) eqn:E1; try discriminate; intros _;
    destruct (String.compare b c) eqn:E2; try discriminate; intros _.
  - apply string_compare_eq in E1, E2. subst. rewrite string_compare_refl. reflexivity.
  - apply string_compare_eq in E1. subst. rewrite E2. reflexivity.
  - apply string_compare_eq in E2. subst. rewrite E1. reflexivity.
  - rewrite (string_compare_trans_lt a b c E1 E2). reflexivity.
Qed.

Lemma string_leb_antisym a b : String.leb a b = true -> String.leb b a = true -> a = b.
Proof. apply String.leb_antisym. Qed.

(** ---- Counter: distinct keys, counts ---- *)
Lemma existsb_eqb_In x l : existsb (String.eqb x) l = true <-> In x l.
Proof.
  rewrite existsb_exists. split.
  - intros (y & Hy & E). apply String.eqb_eq in E. subst. exact Hy.
  - intros H. exists x. split; [exact H|apply String.eqb_refl].
Qed.

Lemma keys_of_spec : forall l seen,
  NoDup (keys_of seen l) /\ (forall k, In k (keys_of seen l) <-> (In k l /\ ~ In k seen)).
Proof.
  induction l as [|x r IH]; intros seen; simpl.
  - split; [constructor|]. intros k; tauto.
  - destruct (existsb (String.eqb x) seen) eqn:E.
    + apply existsb_eqb_In in E. destruct (IH seen) as [N S]. split; [exact N|].
      intros k. rewrite S. split; [tauto|]. intros [[->|H] H2]; [contradiction|tauto].
    + assert (NI : ~ In x seen) by (intros H; apply existsb_eqb_In in H; congruence).
      destruct (IH (x :: seen)) as [N S]. split.
      * constructor; [|exact N]. rewrite S. simpl. tauto.
      * intros k. simpl. rewrite S. simpl. split.
        -- intros [->|[H1 H2]]; [tauto|]. split; [tauto|]. tauto.
        -- intros [[->|H1] H2]; [tauto|]. destruct (string_dec x k) as [->|Ne]; [tauto|]. right. split; [exact H1|]. tauto.
Qed.

Lemma count_in_occ k l : count_in k l = count_occ string_dec l k.
Proof.
  induction l as [|x r IH]; simpl; [reflexivity|]. rewrite IH.
  destruct (string_dec x k) as [->|Ne].
  - rewrite String.eqb_refl. reflexivity.
  - assert (E : String.eqb k x = false) by (apply String.eqb_neq; congruence). rewrite E. reflexivity.
Qed.

Lemma remove_str_perm k l : In k l -> Permutation l (k :: remove_str k l).
Proof.
  induction l as [|x r IH]; simpl; [contradiction|]. intros H.
  destruct (String.eqb k x) eqn:E.
  - apply String.eqb_eq in E. subst. reflexivity.
  - apply String.eqb_neq in E. destruct H as [->|H]; [congruence|].
    rewrite (IH H) at 1. apply perm_swap.
Qed.

Lemma remove_str_absent k l : ~ In k l -> remove_str k l = l.
Proof.
  induction l as [|x r IH]; simpl; [reflexivity|]. intros H.
  destruct (String.eqb k x) eqn:E; [apply String.eqb_eq in E; subst; tauto|]. f_equal. apply IH. tauto.
Qed.

Lemma remove_str_sorted k l : StronglySorted (fun a b => String.leb a b = true) l ->
  StronglySorted (fun a b => String.leb a b = true) (remove_str k l).
Proof.
  induction 1 as [|x r S IH F]; simpl; [constructor|].
  destruct (String.eqb k x); [exact S|]. constructor; [exact IH|].
  rewrite Forall_forall in *. intros y Hy. apply F.
  clear -Hy. induction r as [|z r IHr]; simpl in *; [contradiction|].
  destruct (String.eqb k z); [right; exact Hy|]. destruct Hy as [->|Hy]; [left; reflexivity|right; apply IHr; exact Hy].
Qed.

Lemma has_In k l : has k l = true <-> In k l.
Proof. apply existsb_eqb_In. Qed.

Definition sorted := StronglySorted (fun a b : string => String.leb a b = true).

Lemma sorted_keys_sorted l : sorted (sorted_keys l).
Proof. apply isort_sorted; [apply String.leb_total|apply string_leb_trans]. Qed.

Lemma sorted_keys_perm l : Permutation (sorted_keys l) (keys_of [] l).
Proof. apply isort_perm. Qed.

Lemma hill_perm keys : Permutation (hill_order keys) keys.
Proof.
  unfold hill_order. destruct (has "C" keys) eqn:C; [|reflexivity].
  apply has_In in C. destruct (has "H" keys) eqn:H.
  - apply has_In in H. pose proof (remove_str_perm "H" keys H) as P1.
    assert (C1 : In "C"%string ("H"%string :: remove_str "H" keys)) by (apply (Permutation_in _ P1); exact C).
    symmetry. rewrite P1 at 1. apply remove_str_perm. exact C1.
  - symmetry. apply remove_str_perm. exact C.
Qed.

(** Every distinct (title-cased) symbol appears exactly once, with its number of occurrences. *)
Theorem formula_counts o syms :
  NoDup (map fst (formula_items o syms))
  /\ (forall k, In k (map fst (formula_items o syms)) <-> In k (map title syms))
  /\ (forall k n, In (k, n) (formula_items o syms) -> n = count_occ string_dec (map title syms) k /\ (1 <= n)%nat).
Proof.
  unfold formula_items. rewrite map_map. simpl. rewrite map_id.
  assert (P : Permutation (element_order o syms) (keys_of [] (map title syms))).
  { unfold element_order. destruct o; [apply sorted_keys_perm|]. rewrite hill_perm. apply sorted_keys_perm. }
  destruct (keys_of_spec (map title syms) []) as [N S].
  split; [apply (Permutation_NoDup (Permutation_sym P)); exact N|]. split.
  - intros k. split; intros H.
    + apply (Permutation_in _ P) in H. apply S in H. tauto.
    + apply (Permutation_in _ (Permutation_sym P)). apply S. split; [exact H|tauto].
  - intros k n H. apply in_map_iff in H. destruct H as (k' & E & Hk). injection E as -> <-.
    rewrite count_in_occ. split; [reflexivity|].
    apply (Permutation_in _ P) in Hk. apply S in Hk. destruct Hk as [Hk _].
    apply (count_occ_In string_dec) in Hk. lia.
Qed.

(** Alphabetical order; Hill order = carbon first, then hydrogen, then the rest alphabetically — when there is
    carbon — and alphabetical otherwise. *)
Theorem formula_ordered syms :
  sorted (element_order Alphabetical syms)
  /\ (~ In "C"%string (map title syms) -> element_order Hill syms = element_order Alphabetical syms)
  /\ (In "C"%string (map title syms) ->
      exists rest, sorted rest /\ ~ In "C"%string rest /\ ~ In "H"%string rest
        /\ element_order Hill syms = "C"%string :: (if has "H" (map title syms) then ["H"%string] else []) ++ rest).
Proof.
  unfold element_order. set (l := map title syms).
  pose proof (sorted_keys_sorted l) as Srt. pose proof (sorted_keys_perm l) as P.
  destruct (keys_of_spec l []) as [N S].
  assert (Mem : forall k, In k (sorted_keys l) <-> In k l).
  { intros k. split; intros H.
    - apply (Permutation_in _ P) in H. apply S in H. tauto.
    - apply (Permutation_in _ (Permutation_sym P)). apply S. split; [exact H|tauto]. }
  assert (ND : NoDup (sorted_keys l)) by (apply (Permutation_NoDup (Permutation_sym P)); exact N).
  split; [exact Srt|]. split.
  - intros NC. unfold hill_order. destruct (has "C" (sorted_keys l)) eqn:C; [|reflexivity].
    apply has_In, Mem in C. contradiction.
  - intros C. unfold hill_order. assert (C' : has "C" (sorted_keys l) = true) by (apply has_In, Mem; exact C). rewrite C'.
    assert (RemND : forall k ks, NoDup ks -> ~ In k (remove_str k ks)).
    { intros k ks. induction 1 as [|x r Hx Hr IH]; simpl; [tauto|].
      destruct (String.eqb k x) eqn:E; [apply String.eqb_eq in E; subst; exact Hx|].
      apply String.eqb_neq in E. simpl. intros [->|H]; [congruence|tauto]. }
    assert (RemSub : forall k j ks, In j (remove_str k ks) -> In j ks).
    { intros k j ks. induction ks as [|x r IH]; simpl; [tauto|]. destruct (String.eqb k x); [tauto|]. simpl. tauto. }
    assert (RemNDk : forall k ks, NoDup ks -> NoDup (remove_str k ks)).
    { intros k ks. induction 1 as [|x r Hx Hr IH]; simpl; [constructor|]. destruct (String.eqb k x); [exact Hr|].
      constructor; [|exact IH]. intros H. apply Hx. eapply RemSub; exact H. }
    assert (HH : has "H" (sorted_keys l) = has "H" l).
    { destruct (has "H" l) eqn:E.
      - apply has_In. apply Mem. apply has_In. exact E.
      - apply not_true_is_false. intros H. apply has_In, Mem, has_In in H. congruence. }
    rewrite HH. destruct (has "H" l) eqn:H.
    + exists (remove_str "C" (remove_str "H" (sorted_keys l))).
      assert (E : remove_str "C" ("H"%string :: remove_str "H" (sorted_keys l)) = "H"%string :: remove_str "C" (remove_str "H" (sorted_keys l))) by reflexivity.
      rewrite E. split; [apply remove_str_sorted, remove_str_sorted; exact Srt|]. split; [apply RemND, RemNDk; exact ND|]. split; [|reflexivity].
      intros X. apply RemSub in X. revert X. apply RemND. exact ND.
    + exists (remove_str "C" (sorted_keys l)). split; [apply remove_str_sorted; exact Srt|]. split; [apply RemND; exact ND|]. split; [|reflexivity].
      intros X. apply RemSub, Mem, has_In in X. congruence.
Qed.
