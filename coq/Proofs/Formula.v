(** C15 — proofs about Model/Formula.v. *)
From Coq Require Import ZArith List String Ascii Bool Arith Lia Permutation Sorted DecimalString DecimalNat.
Require Import QV.Common.Outcome QV.Common.HFSort QV.Common.HFHash QV.Model.Formula.
Import ListNotations.

(** ---- the order on strings (code-point lexicographic, as Python compares str) ---- *)
Lemma ascii_compare_N a b : Ascii.compare a b = N.compare (N_of_ascii a) (N_of_ascii b).
Proof. reflexivity. Qed.

Lemma string_compare_trans_lt : forall a b c, String.compare a b = Lt -> String.compare b c = Lt -> String.compare a c = Lt.
Proof.
  induction a as [|x a IH]; intros [|y b] [|z c]; simpl; intros H1 H2; try discriminate; try reflexivity.
  rewrite ascii_compare_N in *.
  destruct (N.compare_spec (N_of_ascii x) (N_of_ascii y)) as [E|L|G]; try discriminate;
    destruct (N.compare_spec (N_of_ascii y) (N_of_ascii z)) as [E'|L'|G']; try discriminate.
  - rewrite E, E', N.compare_refl. eapply IH; eassumption.
  - rewrite E. apply N.compare_lt_iff in L'. rewrite L'. reflexivity.
  - rewrite <- E'. apply N.compare_lt_iff in L. rewrite L. reflexivity.
  - assert (T : (N_of_ascii x < N_of_ascii z)%N) by lia. apply N.compare_lt_iff in T. rewrite T. reflexivity.
Qed.

Lemma string_compare_refl a : String.compare a a = Eq.
Proof. induction a as [|x a IH]; simpl; [reflexivity|]. rewrite ascii_compare_N, N.compare_refl. exact IH. Qed.

Lemma string_compare_eq a b : String.compare a b = Eq -> a = b.
Proof. apply String.compare_eq_iff. Qed.

Lemma string_leb_trans a b c : String.leb a b = true -> String.leb b c = true -> String.leb a c = true.
Proof.
  unfold String.leb. destruct (String.compare a b) eqn:E1; try discriminate; intros _;
    destruct (String.compare b c) eqn:E2; try discriminate; intros _.
  - apply string_compare_eq in E1, E2. subst. rewrite string_compare_refl. reflexivity.
  - apply string_compare_eq in E1. subst. rewrite E2. reflexivity.
  - apply string_compare_eq in E2. subst. rewrite E1. reflexivity.
  - rewrite (string_compare_trans_lt a b c E1 E2). reflexivity.
Qed.

Lemma string_leb_antisym a b : String.leb a b = true -> String.leb b a = true -> a = b.
Proof. apply String.leb_antisym. Qed.

(** ---- Counter: distinct keys, counts ---- *)
Lemma existsb_eqb_In x l : existsb (String.eqb x) l = true <-> In x l.
Proof.
  rewrite existsb_exists. split.
  - intros (y & Hy & E). apply String.eqb_eq in E. subst. exact Hy.
  - intros H. exists x. split; [exact H|apply String.eqb_refl].
Qed.

Lemma keys_of_spec : forall l seen,
  NoDup (keys_of seen l) /\ (forall k, In k (keys_of seen l) <-> (In k l /\ ~ In k seen)).
Proof.
  induction l as [|x r IH]; intros seen; simpl.
  - split; [constructor|]. intros k; tauto.
  - destruct (existsb (String.eqb x) seen) eqn:E.
    + apply existsb_eqb_In in E. destruct (IH seen) as [N S]. split; [exact N|].
      intros k. rewrite S. split; [tauto|]. intros [[->|H] H2]; [contradiction|tauto].
    + assert (NI : ~ In x seen) by (intros H; apply existsb_eqb_In in H; congruence).
      destruct (IH (x :: seen)) as [N S]. split.
      * constructor; [|exact N]. rewrite S. simpl. tauto.
      * intros k. simpl. rewrite S. simpl. split.
        -- intros [->|[H1 H2]]; [tauto|]. split; [tauto|]. tauto.
        -- intros [[->|H1] H2]; [tauto|]. destruct (string_dec x k) as [->|Ne]; [tauto|]. right. split; [exact H1|]. tauto.
Qed.

Lemma count_in_occ k l : count_in k l = count_occ string_dec l k.
Proof.
  induction l as [|x r IH]; simpl; [reflexivity|]. rewrite IH.
  destruct (string_dec x k) as [->|Ne].
  - rewrite String.eqb_refl. reflexivity.
  - assert (E : String.eqb k x = false) by (apply String.eqb_neq; congruence). rewrite E. reflexivity.
Qed.

Lemma remove_str_perm k l : In k l -> Permutation l (k :: remove_str k l).
Proof.
  induction l as [|x r IH]; simpl; [contradiction|]. intros H.
  destruct (String.eqb k x) eqn:E.
  - apply String.eqb_eq in E. subst. reflexivity.
  - apply String.eqb_neq in E. destruct H as [->|H]; [congruence|].
    rewrite (IH H) at 1. apply perm_swap.
Qed.

Lemma remove_str_absent k l : ~ In k l -> remove_str k l = l.
Proof.
  induction l as [|x r IH]; simpl; [reflexivity|]. intros H.
  destruct (String.eqb k x) eqn:E; [apply String.eqb_eq in E; subst; tauto|]. f_equal. apply IH. tauto.
Qed.

Lemma remove_str_sorted k l : StronglySorted (fun a b => String.leb a b = true) l ->
  StronglySorted (fun a b => String.leb a b = true) (remove_str k l).
Proof.
  induction 1 as [|x r S IH F]; simpl; [constructor|].
  destruct (String.eqb k x); [exact S|]. constructor; [exact IH|].
  rewrite Forall_forall in *. intros y Hy. apply F.
  clear -Hy. induction r as [|z r IHr]; simpl in *; [contradiction|].
  destruct (String.eqb k z); [right; exact Hy|]. destruct Hy as [->|Hy]; [left; reflexivity|right; apply IHr; exact Hy].
Qed.

Lemma has_In k l : has k l = true <-> In k l.
Proof. apply existsb_eqb_In. Qed.

Definition sorted := StronglySorted (fun a b : string => String.leb a b = true).

Lemma sorted_keys_sorted l : sorted (sorted_keys l).
Proof. apply isort_sorted; [apply String.leb_total|apply string_leb_trans]. Qed.

Lemma sorted_keys_perm l : Permutation (sorted_keys l) (keys_of [] l).
Proof. apply isort_perm. Qed.

Lemma hill_perm keys : Permutation (hill_order keys) keys.
Proof.
  unfold hill_order. destruct (has "C" keys) eqn:C; [|reflexivity].
  apply has_In in C. destruct (has "H" keys) eqn:H.
  - apply has_In in H. pose proof (remove_str_perm "H" keys H) as P1.
    assert (C1 : In "C"%string ("H"%string :: remove_str "H" keys)) by (apply (Permutation_in _ P1); exact C).
    symmetry. rewrite P1 at 1. apply remove_str_perm. exact C1.
  - symmetry. apply remove_str_perm. exact C.
Qed.

(** Every distinct (title-cased) symbol appears exactly once, with its number of occurrences. *)
Theorem formula_counts o syms :
  NoDup (map fst (formula_items o syms))
  /\ (forall k, In k (map fst (formula_items o syms)) <-> In k (map title syms))
  /\ (forall k n, In (k, n) (formula_items o syms) -> n = count_occ string_dec (map title syms) k /\ (1 <= n)%nat).
Proof.
  unfold formula_items. rewrite map_map. simpl. rewrite map_id.
  assert (P : Permutation (element_order o syms) (keys_of [] (map title syms))).
  { unfold element_order. destruct o; [apply sorted_keys_perm|]. rewrite hill_perm. apply sorted_keys_perm. }
  destruct (keys_of_spec (map title syms) []) as [N S].
  split; [apply (Permutation_NoDup (Permutation_sym P)); exact N|]. split.
  - intros k. split; intros H.
    + apply (Permutation_in _ P) in H. apply S in H. tauto.
    + apply (Permutation_in _ (Permutation_sym P)). apply S. split; [exact H|tauto].
  - intros k n H. apply in_map_iff in H. destruct H as (k' & E & Hk). injection E as -> <-.
    rewrite count_in_occ. split; [reflexivity|].
    apply (Permutation_in _ P) in Hk. apply S in Hk. destruct Hk as [Hk _].
    apply (count_occ_In string_dec) in Hk. lia.
Qed.

(** Alphabetical order; Hill order = carbon first, then hydrogen, then the rest alphabetically — when there is
    carbon — and alphabetical otherwise. *)
Theorem formula_ordered syms :
  sorted (element_order Alphabetical syms)
  /\ (~ In "C"%string (map title syms) -> element_order Hill syms = element_order Alphabetical syms)
  /\ (In "C"%string (map title syms) ->
      exists rest, sorted rest /\ ~ In "C"%string rest /\ ~ In "H"%string rest
        /\ element_order Hill syms = "C"%string :: (if has "H" (map title syms) then ["H"%string] else []) ++ rest).
Proof.
  unfold element_order. set (l := map title syms).
  pose proof (sorted_keys_sorted l) as Srt. pose proof (sorted_keys_perm l) as P.
  destruct (keys_of_spec l []) as [N S].
  assert (Mem : forall k, In k (sorted_keys l) <-> In k l).
  { intros k. split; intros H.
    - apply (Permutation_in _ P) in H. apply S in H. tauto.
    - apply (Permutation_in _ (Permutation_sym P)). apply S. split; [exact H|tauto]. }
  assert (ND : NoDup (sorted_keys l)) by (apply (Permutation_NoDup (Permutation_sym P)); exact N).
  split; [exact Srt|]. split.
  - intros NC. unfold hill_order. destruct (has "C" (sorted_keys l)) eqn:C; [|reflexivity].
    apply has_In, Mem in C. contradiction.
  - intros C. unfold hill_order. assert (C' : has "C" (sorted_keys l) = true) by (apply has_In, Mem; exact C). rewrite C'.
    assert (RemND : forall k ks, NoDup ks -> ~ In k (remove_str k ks)).
    { intros k ks. induction 1 as [|x r Hx Hr IH]; simpl; [tauto|].
      destruct (String.eqb k x) eqn:E; [apply String.eqb_eq in E; subst; exact Hx|].
      apply String.eqb_neq in E. simpl. intros [->|H]; [congruence|tauto]. }
    assert (RemSub : forall k j ks, In j (remove_str k ks) -> In j ks).
    { intros k j ks. induction ks as [|x r IH]; simpl; [tauto|]. destruct (String.eqb k x); [tauto|]. simpl. tauto. }
    assert (RemNDk : forall k ks, NoDup ks -> NoDup (remove_str k ks)).
    { intros k ks. induction 1 as [|x r Hx Hr IH]; simpl; [constructor|]. destruct (String.eqb k x); [exact Hr|].
      constructor; [|exact IH]. intros H. apply Hx. eapply RemSub; exact H. }
    assert (HH : has "H" (sorted_keys l) = has "H" l).
    { destruct (has "H" l) eqn:E.
      - apply has_In. apply Mem. apply has_In. exact E.
      - apply not_true_is_false. intros H. apply has_In, Mem, has_In in H. congruence. }
    rewrite HH. destruct (has "H" l) eqn:H.
    + exists (remove_str "C" (remove_str "H" (sorted_keys l))).
      assert (E : remove_str "C" ("H"%string :: remove_str "H" (sorted_keys l)) = "H"%string :: remove_str "C" (remove_str "H" (sorted_keys l))) by reflexivity.
      rewrite E. split; [apply remove_str_sorted, remove_str_sorted; exact Srt|]. split; [apply RemND, RemNDk; exact ND|]. split; [|reflexivity].
      intros X. apply RemSub in X. revert X. apply RemND. exact ND.
    + exists (remove_str "C" (sorted_keys l)). split; [apply remove_str_sorted; exact Srt|]. split; [apply RemND; exact ND|]. split; [|reflexivity].
      intros X. apply RemSub, Mem, has_In in X. congruence.
Qed.

(** ---- reading the rendered formula back ---- *)
Definition plain (c : ascii) : Prop := is_upper c = false /\ is_digit c = false.
Fixpoint all_plain (s : string) : Prop := match s with EmptyString => True | String c r => plain c /\ all_plain r end.
(* an element symbol as the formula writes it: an upper-case letter followed by characters that are neither upper-case nor digits *)
Definition wf_sym (k : string) : Prop := match k with String c r => is_upper c = true /\ all_plain r | EmptyString => False end.

Definition next_ok (t : string) : Prop := match t with EmptyString => True | String c _ => is_upper c = true end.

Lemma append_assoc (a b c : string) : String.append (String.append a b) c = String.append a (String.append b c).
Proof. induction a; simpl; congruence. Qed.

Lemma parse_plain r : forall k t, all_plain r ->
  parse_items (String.append r t) (Some (k, NoDigits)) = parse_items t (Some (String.append k r, NoDigits)).
Proof.
  induction r as [|c r IH]; intros k t H; simpl.
  - assert (E : String.append k EmptyString = k) by (induction k; simpl; congruence). rewrite E. reflexivity.
  - destruct H as [[U D] H]. rewrite U, D. rewrite IH by exact H. rewrite append_assoc. reflexivity.
Qed.

Lemma parse_digits d : forall k a t,
  parse_items (String.append (NilEmpty.string_of_uint d) t) (Some (k, Digits a))
  = parse_items t (Some (k, Digits (Nat.of_uint_acc d a))).
Proof.
  induction d; intros k a t; simpl; try reflexivity;
    rewrite <- IHd; f_equal; f_equal; f_equal; f_equal; rewrite Nat.tail_mul_spec; simpl; lia.
Qed.

Lemma parse_first_digit d k t : d <> Decimal.Nil ->
  parse_items (String.append (NilEmpty.string_of_uint d) t) (Some (k, NoDigits))
  = parse_items (String.append (NilEmpty.string_of_uint d) t) (Some (k, Digits 0)).
Proof. destruct d; intros H; try contradiction; reflexivity. Qed.

Lemma parse_after_digits k n t : next_ok t ->
  parse_items t (Some (k, Digits n)) = (k, n) :: parse_items t None.
Proof. destruct t as [|c r]; simpl; intros H; [reflexivity|]. rewrite H. reflexivity. Qed.
Lemma parse_after_sym k t : next_ok t ->
  parse_items t (Some (k, NoDigits)) = (k, 1) :: parse_items t None.
Proof. destruct t as [|c r]; simpl; intros H; [reflexivity|]. rewrite H. reflexivity. Qed.

Lemma to_uint_nonnil n : Nat.to_uint n <> Decimal.Nil.
Proof.
  intros H. assert (E : n = 0) by (rewrite <- (Unsigned.of_to n), H; reflexivity). subst n. discriminate H.
Qed.

Lemma parse_item k n t : wf_sym k -> 1 <= n -> next_ok t ->
  parse_items (String.append (render_item (k, n)) t) None = (k, n) :: parse_items t None.
Proof.
  intros W N T. destruct k as [|c r]; [contradiction|]. destruct W as [U P].
  unfold render_item; cbn [fst snd]. rewrite append_assoc. simpl. rewrite U. simpl.
  rewrite parse_plain by exact P. change (String.append (String c EmptyString) r) with (String c r).
  destruct (1 <? n) eqn:E.
  - unfold nat_str. rewrite parse_first_digit by apply to_uint_nonnil.
    rewrite parse_digits. change (Nat.of_uint_acc (Nat.to_uint n) 0) with (Nat.of_uint (Nat.to_uint n)).
    rewrite Unsigned.of_to. apply parse_after_digits. exact T.
  - apply Nat.ltb_ge in E. assert (n = 1) by lia. subst n. simpl. apply parse_after_sym. exact T.
Qed.

Definition render (its : list (string * nat)) : string := fold_right String.append EmptyString (map render_item its).

Lemma render_next_ok its : Forall (fun it => wf_sym (fst it)) its -> next_ok (render its).
Proof.
  destruct 1 as [|[k n] r W _]; simpl; [exact I|]. cbn [fst] in W. destruct k as [|c s]; [contradiction|]. simpl. apply W.
Qed.

Lemma parse_render its : Forall (fun it => wf_sym (fst it) /\ 1 <= snd it) its -> parse_items (render its) None = its.
Proof.
  induction 1 as [|[k n] r [W N] F IH]; [reflexivity|]. cbn [fst snd] in *.
  change (render ((k, n) :: r)) with (String.append (render_item (k, n)) (render r)).
  rewrite parse_item; [rewrite IH; reflexivity|exact W|exact N|].
  apply render_next_ok. rewrite Forall_forall in *. intros it Hit. apply F. exact Hit.
Qed.

(** the text determines the (symbol, count) items: parsing the formula gives back exactly what was rendered *)
Theorem parse_formula_roundtrip o syms : Forall wf_sym (map title syms) ->
  parse_items (formula o syms) None = formula_items o syms.
Proof.
  intros W. apply parse_render.
  destruct (formula_counts o syms) as (_ & M & C).
  rewrite Forall_forall in *. intros [k n] Hit. cbn [fst snd]. split.
  - apply W. apply M. apply in_map_iff. exists (k, n). split; [reflexivity|exact Hit].
  - apply (C k n Hit).
Qed.

(** ---- str.title() on ASCII: idempotent; alphabetic symbols become well-formed element symbols ---- *)
Definition cased (c : ascii) : bool := is_upper c || is_lower c.
Definition tc (b : bool) (c : ascii) : ascii := if cased c then (if b then to_lower c else to_upper c) else c.

Lemma title_from_tc b s : title_from b s = match s with EmptyString => EmptyString | String c r => String (tc b c) (title_from (cased c) r) end.
Proof. destruct s; reflexivity. Qed.

Lemma tc_props b c : cased (tc b c) = cased c /\ tc b (tc b c) = tc b c.
Proof. destruct c as [[] [] [] [] [] [] [] []]; destruct b; split; reflexivity. Qed.

Lemma tc_upper c : cased c = true -> is_upper (tc false c) = true.
Proof. destruct c as [[] [] [] [] [] [] [] []]; intros H; try discriminate H; reflexivity. Qed.
Lemma tc_lower_plain c : cased c = true -> plain (tc true c).
Proof. destruct c as [[] [] [] [] [] [] [] []]; intros H; try discriminate H; split; reflexivity. Qed.

Lemma title_from_idem s : forall b, title_from b (title_from b s) = title_from b s.
Proof.
  induction s as [|c r IH]; intros b; [reflexivity|].
  rewrite (title_from_tc b (String c r)). rewrite (title_from_tc b (String (tc b c) _)).
  destruct (tc_props b c) as [E1 E2]. rewrite E1, E2, IH. reflexivity.
Qed.
Lemma title_idem s : title (title s) = title s.
Proof. apply title_from_idem. Qed.

Fixpoint all_cased (s : string) : Prop := match s with EmptyString => True | String c r => cased c = true /\ all_cased r end.
Lemma title_tail_plain r : all_cased r -> all_plain (title_from true r).
Proof.
  induction r as [|c r IH]; intros H; [exact I|]. destruct H as [C H]. rewrite title_from_tc. rewrite C.
  split; [apply tc_lower_plain; exact C|apply IH; exact H].
Qed.
(** an alphabetic, non-empty symbol is written as an upper-case letter followed by lower-case letters *)
Lemma title_wf s : s <> EmptyString -> all_cased s -> wf_sym (title s).
Proof.
  destruct s as [|c r]; [congruence|]. intros _ [C H]. unfold title. rewrite title_from_tc. rewrite C.
  split; [apply tc_upper; exact C|apply title_tail_plain; exact H].
Qed.

(** ---- the formula depends on the symbols only through the counts of their title-cased forms ---- *)
Lemma count_in_pos k l : In k l <-> 1 <= count_in k l.
Proof. rewrite count_in_occ. apply (count_occ_In string_dec). Qed.

Lemma keys_of_mem l k : In k (keys_of [] l) <-> In k l.
Proof. destruct (keys_of_spec l []) as [_ S]. rewrite S. simpl. tauto. Qed.

Lemma sorted_keys_ext l l' : (forall k, count_in k l = count_in k l') -> sorted_keys l = sorted_keys l'.
Proof.
  intros H. unfold sorted_keys.
  apply (isort_perm_invariant String.leb String.leb_total string_leb_trans (fun _ => True)).
  - intros a b _ _. apply string_leb_antisym.
  - apply Forall_forall. intros; exact I.
  - apply NoDup_Permutation; try apply (proj1 (keys_of_spec _ [])).
    intros k. rewrite !keys_of_mem, !count_in_pos, H. tauto.
Qed.

Theorem formula_ext o syms syms' :
  (forall k, count_in k (map title syms) = count_in k (map title syms')) -> formula o syms = formula o syms'.
Proof.
  intros H. unfold formula, formula_items, element_order. rewrite (sorted_keys_ext _ _ H).
  set (X := match o with Alphabetical => _ | Hill => _ end).
  rewrite (map_ext (fun k => (k, count_in k (map title syms))) (fun k => (k, count_in k (map title syms')))) by (intros k; rewrite H; reflexivity).
  reflexivity.
Qed.

(** ---- order_molecular_formula: re-ordering a formula gives the formula of the symbols in the new order ---- *)
Lemma count_in_app k a b : count_in k (a ++ b) = count_in k a + count_in k b.
Proof. induction a; simpl; lia. Qed.
Lemma count_in_repeat k j n : count_in k (repeat j n) = if String.eqb k j then n else 0.
Proof. induction n; simpl; [destruct (String.eqb k j); reflexivity|]. rewrite IHn. destruct (String.eqb k j); lia. Qed.

Lemma count_in_expand (c : string -> nat) k : forall keys, NoDup keys ->
  count_in k (flat_map (fun j => repeat j (c j)) keys) = if existsb (String.eqb k) keys then c k else 0.
Proof.
  induction 1 as [|j r Hj ND IH]; simpl; [reflexivity|].
  rewrite count_in_app, count_in_repeat, IH.
  destruct (String.eqb k j) eqn:E; simpl.
  - apply String.eqb_eq in E. subst j.
    assert (X : existsb (String.eqb k) r = false). { apply not_true_is_false. intros X. apply existsb_eqb_In in X. contradiction. }
    rewrite X. lia.
  - reflexivity.
Qed.

Lemma map_title_id l : (forall k, In k l -> title k = k) -> map title l = l.
Proof. induction l; simpl; intros H; [reflexivity|]. rewrite H by (left; reflexivity). f_equal. apply IHl. intros k Hk. apply H. right; exact Hk. Qed.

Theorem order_formula_consistent o o' syms :
  formula o (expand (formula_items o' syms)) = formula o syms.
Proof.
  apply formula_ext. intros k.
  destruct (formula_counts o' syms) as (ND & M & C).
  set (l := map title syms) in *.
  assert (EX : expand (formula_items o' syms) = flat_map (fun j => repeat j (count_in j l)) (element_order o' syms)).
  { unfold expand, formula_items. fold l. rewrite flat_map_concat_map, map_map, <- flat_map_concat_map. reflexivity. }
  assert (KE : map fst (formula_items o' syms) = element_order o' syms).
  { unfold formula_items. rewrite map_map. simpl. apply map_id. }
  rewrite KE in ND, M.
  rewrite EX. rewrite map_title_id.
  - rewrite (count_in_expand (fun j => count_in j l) k _ ND).
    destruct (existsb (String.eqb k) (element_order o' syms)) eqn:E; [reflexivity|].
    assert (N : ~ In k l). { intros X. apply M in X. apply existsb_eqb_In in X. congruence. }
    destruct (count_in k l) eqn:Z; [reflexivity|]. exfalso. apply N. apply count_in_pos. lia.
  - intros j Hj. apply in_flat_map in Hj. destruct Hj as (j' & Hj' & Hr). apply repeat_spec in Hr. subst j.
    apply M in Hj'. unfold l in Hj'. apply in_map_iff in Hj'. destruct Hj' as (s & <- & _). apply title_idem.
Qed.

(** order_molecular_formula applied to a formula this module wrote: the same symbols in the requested order; in
    particular re-ordering to the same order is the identity *)
Theorem order_formula_of_formula o o' syms name :
  Forall wf_sym (map title syms) -> parse_order name = Ok o ->
  order_formula (formula o' syms) name = Ok (formula o syms).
Proof.
  intros W P. unfold order_formula.
  assert (S : starts_upper (formula o' syms) = true).
  { pose proof (render_next_ok (formula_items o' syms)) as R. unfold render in R. fold (formula o' syms) in R.
    assert (F : Forall (fun it => wf_sym (fst it)) (formula_items o' syms)).
    { destruct (formula_counts o' syms) as (_ & M & _). rewrite Forall_forall in *. intros [k n] Hit. cbn [fst].
      apply W. apply M. apply in_map_iff. exists (k, n). split; [reflexivity|exact Hit]. }
    specialize (R F). destruct (formula o' syms); [reflexivity|exact R]. }
  rewrite S, P. simpl. rewrite parse_formula_roundtrip by exact W. rewrite order_formula_consistent. reflexivity.
Qed.
