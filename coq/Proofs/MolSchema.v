(** C04 — proofs about Model/MolSchema.v: what contiguize_from_fragment_pattern accepts, that from_schema is
    from_arrays on the untouched arrays with the cumulative fragment sizes as separators (so every from_arrays
    theorem carries over), its refusal classes, and the fragment list a validated Molecule ends up with. *)
From Coq Require Import ZArith List Bool String Ascii QArith Lia.
Require Import QV.Common.Outcome QV.Model.Nucleus QV.Model.ChgMult QV.Gen.MolConsts QV.Model.MolRec QV.Model.MolSchema.
Require Import QV.Proofs.NucleusKeys QV.Proofs.Nucleus QV.Proofs.ChgMult QV.Proofs.MolRec.
Import ListNotations.
Open Scope list_scope.
Open Scope Z_scope.

(* ------------------------------------------------------------------------------------------ *)
(** * Small facts *)

Lemma zlist_eqb_eq (a b : list Z) : list_eqb Z.eqb a b = true -> a = b.
Proof.
  revert b; induction a as [|x a IH]; intros [|y b] H; simpl in H; try discriminate; [reflexivity|].
  apply andb_true_iff in H. destruct H as [H1 H2]. apply Z.eqb_eq in H1. subst y. f_equal. apply IH, H2.
Qed.

Lemma zlist_eqb_refl (a : list Z) : list_eqb Z.eqb a a = true.
Proof. induction a as [|x a IH]; simpl; [reflexivity|]. rewrite Z.eqb_refl, IH. reflexivity. Qed.

Lemma zlistlist_eqb_eq (a b : list (list Z)) : list_eqb (list_eqb Z.eqb) a b = true -> a = b.
Proof.
  revert b; induction a as [|x a IH]; intros [|y b] H; simpl in H; try discriminate; [reflexivity|].
  apply andb_true_iff in H. destruct H as [H1 H2]. apply zlist_eqb_eq in H1. subst y. f_equal. apply IH, H2.
Qed.

Lemma zseq_length n : List.length (zseq n) = Z.to_nat n.
Proof. unfold zseq. rewrite map_length, seq_length. reflexivity. Qed.

(** nth_error along 0, 1, ..., n-1 reads the list back *)
Lemma nth_error_seq_eq {A} (arr : list A) : forall s l,
  Forall2 (fun k x => nth_error arr k = Some x) (seq s (List.length arr - s)) l -> (s <= List.length arr)%nat -> l = skipn s arr.
Proof.
  intros s. remember (List.length arr - s)%nat as d eqn:Ed. revert s Ed.
  induction d as [|d IH]; intros s Ed l H Hs; simpl in H.
  - inversion H; subst. symmetry. apply skipn_all2. lia.
  - inversion H as [|k x ks l' Hk Hrest]; subst.
    rewrite (IH (S s) ltac:(lia) l' Hrest ltac:(lia)).
    clear - Hk Hs Ed. revert s Hk Hs Ed. induction arr as [|a arr IHa]; intros s Hk Hs Ed; [simpl in *; lia|].
    destruct s as [|s]; simpl in *; [injection Hk as ->; reflexivity|].
    apply IHa; [exact Hk | lia | lia].
Qed.

Lemma take_idx_ok {A} (arr : list A) fr l : take_idx arr fr = Ok l ->
  Forall2 (fun i x => 0 <= i /\ nth_error arr (Z.to_nat i) = Some x \/ i < 0) fr l.
Proof.
  unfold take_idx. intro H. apply mapM_ok in H. induction H as [|i x fr' l' Hi _ IH]; constructor; [|exact IH].
  cbv beta zeta in Hi. destruct (i <? 0) eqn:En; [right; apply Z.ltb_lt, En|]. left. apply Z.ltb_ge in En.
  destruct ((0 <=? i) && (i <? Z.of_nat (List.length arr))); [|discriminate]. apply sval_ok in Hi. split; [exact En | exact Hi].
Qed.

Lemma Forall2_concat {A B} (R : A -> B -> Prop) (P : list A -> list B -> Prop) pat ps :
  (forall a b, P a b -> Forall2 R a b) -> Forall2 P pat ps -> Forall2 R (List.concat pat) (List.concat ps).
Proof.
  intros HP H. induction H as [|a b pat' ps' Hab _ IH]; simpl; [constructor|]. apply Forall2_app; [apply HP, Hab | exact IH].
Qed.

Lemma Forall2_map_l {A B C} (R : B -> C -> Prop) (f : A -> B) l l' : Forall2 R (map f l) l' <-> Forall2 (fun a c => R (f a) c) l l'.
Proof.
  revert l'; induction l as [|a l IH]; intros l'; simpl; split; intro H; inversion H; subst; constructor; auto; apply IH; assumption.
Qed.

Lemma Forall2_weaken {A B} (R R' : A -> B -> Prop) l l' : (forall a b, R a b -> R' a b) -> Forall2 R l l' -> Forall2 R' l l'.
Proof. intros HR H. induction H; constructor; auto. Qed.

(** numpy's reorder is the identity on a pattern that lists 0 .. nat-1 in order *)
Lemma reorder_identity {A} nat pat (arr arr' : list A) :
  List.concat pat = zseq nat -> reorder nat pat arr = Ok arr' -> arr' = arr.
Proof.
  intros Hc H. unfold reorder in H. destruct (Z.of_nat (List.length arr) =? nat) eqn:El; [|discriminate]. simpl in H.
  apply Z.eqb_eq in El. apply obind_ok in H. destruct H as [ps [Hm H]]. injection H as <-.
  apply mapM_ok in Hm.
  assert (F : Forall2 (fun i x => 0 <= i /\ nth_error arr (Z.to_nat i) = Some x \/ i < 0) (List.concat pat) (List.concat ps)).
  { eapply Forall2_concat; [|exact Hm]. intros a b Hab. apply take_idx_ok, Hab. }
  rewrite Hc in F. unfold zseq in F. apply Forall2_map_l in F.
  assert (F' : Forall2 (fun k x => nth_error arr k = Some x) (seq 0 (List.length arr - 0)) (List.concat ps)).
  { replace (List.length arr - 0)%nat with (Z.to_nat nat) by lia.
    eapply Forall2_weaken; [|exact F]. intros k x [[_ Hk]|Hk]; [rewrite Nat2Z.id in Hk; exact Hk | lia]. }
  apply nth_error_seq_eq in F'; [|lia]. exact F'.
Qed.

Lemma reorder_opt_identity {A} nat pat (o o' : option (list A)) :
  List.concat pat = zseq nat -> reorder_opt nat pat o = Ok o' -> o' = o.
Proof.
  intros Hc H. destruct o as [a|]; simpl in H; [|injection H as <-; reflexivity].
  apply obind_ok in H. destruct H as [x [Hx H]]. injection H as <-. f_equal. eapply reorder_identity; eassumption.
Qed.

Lemma geom_rows_ok nat g pts : geom_rows nat g = Ok pts -> triples g = Ok pts /\ Z.of_nat (List.length pts) = nat.
Proof.
  unfold geom_rows. intro H. apply obind_ok in H. destruct H as [p [Ht H]].
  destruct (Z.of_nat (List.length p) =? nat) eqn:E; simpl in H; [|discriminate]. injection H as <-. apply Z.eqb_eq in E. auto.
Qed.

(** an ascending run of consecutive indices that starts at 0 is 0 .. n-1 *)
Lemma diffs_run fr : forall a, diffs_one (a :: fr) = true ->
  a :: fr = map (fun k => a + Z.of_nat k) (seq 0 (S (List.length fr))).
Proof.
  induction fr as [|b r IH]; intros a H.
  - simpl. f_equal. lia.
  - simpl in H. apply andb_true_iff in H. destruct H as [Hb Hr]. apply Z.eqb_eq in Hb.
    specialize (IH b Hr). cbn [List.length]. rewrite <- cons_seq, map_cons. f_equal; [lia|].
    rewrite IH, <- seq_shift, map_map. apply map_ext. intro k. lia.
Qed.

Lemma run_from_zero fr : diffs_one fr = true -> starts_at_zero fr = true -> fr = zseq (Z.of_nat (List.length fr)).
Proof.
  destruct fr as [|a r]; intros Hd Hs; [reflexivity|]. simpl in Hs. apply Z.eqb_eq in Hs. subst a.
  rewrite (diffs_run r 0 Hd) at 1. unfold zseq. rewrite Nat2Z.id. cbn [List.length]. apply map_ext. intro k. lia.
Qed.

(* ------------------------------------------------------------------------------------------ *)
(** * What contiguize accepts *)

Definition total_atoms (pat : list (list Z)) : Z := fold_right Z.add 0 (lens pat).

(** the cumulative fragment sizes, the last one (= number of atoms named) dropped *)
Definition cum_seps (pat : list (list Z)) : list Z := removelast (cumsum 0 (lens pat)).

Lemma rev_cons_inv {A} (l : list A) x r : rev l = x :: r -> l = rev r ++ [x].
Proof. intro H. rewrite <- (rev_involutive l), H. reflexivity. Qed.

Lemma cumsum_last acc l : l <> [] -> last (cumsum acc l) 0 = acc + fold_right Z.add 0 l.
Proof.
  revert acc; induction l as [|x l IH]; intros acc H; [congruence|]. destruct l as [|y l].
  - simpl. lia.
  - change (cumsum acc (x :: y :: l)) with ((acc + x) :: cumsum (acc + x) (y :: l)).
    destruct (cumsum (acc + x) (y :: l)) as [|z l0] eqn:E; [simpl in E; discriminate|].
    change (last ((acc + x) :: z :: l0) 0) with (last (z :: l0) 0). rewrite <- E, IH by discriminate.
    simpl. lia.
Qed.

(** An accepted pattern lists 0 .. nat-1 in order — on the slow path by the explicit test, on the "nothing to do"
    fast path because a single ascending run of consecutive indices that starts at 0 is 0 .. nat-1.  The geometry and
    the columns are unchanged, the geometry has one row per index named, and the separators are the cumulative
    fragment sizes. *)
Theorem contiguize_accepts pat g ea ez ee em er el c :
  contiguize pat g ea ez ee em er el = Ok c ->
  List.concat pat = zseq (total_atoms pat) /\
  c_geom c = g /\ c_elea c = ea /\ c_elez c = ez /\ c_elem c = ee /\ c_mass c = em /\ c_real c = er /\ c_elbl c = el /\
  c_seps c = cum_seps pat /\
  exists pts, triples g = Ok pts /\ Z.of_nat (List.length pts) = total_atoms pat.
Proof.
  unfold contiguize. destruct (is_nil pat) eqn:En; [discriminate|].
  destruct (rev (cumsum 0 (lens pat))) as [|nat rseps] eqn:Er; [discriminate|].
  apply rev_cons_inv in Er.
  assert (Hnat : nat = total_atoms pat).
  { unfold total_atoms. assert (lens pat <> []) by (intro E; rewrite E in Er; simpl in Er; destruct (rev rseps); discriminate).
    rewrite <- (Z.add_0_l (fold_right Z.add 0 (lens pat))), <- cumsum_last by assumption. rewrite Er, last_last. reflexivity. }
  assert (Hseps : rev rseps = cum_seps pat) by (unfold cum_seps; rewrite Er, removelast_last; reflexivity).
  destruct (match pat with [fr] => diffs_one fr && starts_at_zero fr | _ => false end) eqn:Efast.
  - intro H. apply obind_ok in H. destruct H as [pts [Hg H]]. injection H as <-. cbn [c_seps c_geom c_elea c_elez c_elem c_mass c_real c_elbl].
    destruct (geom_rows_ok _ _ _ Hg) as [Ht Hl].
    repeat split; auto; [|exists pts; split; congruence].
    destruct pat as [|fr [|fr2 pat]]; try discriminate. apply andb_true_iff in Efast. destruct Efast as [Hd Hs].
    unfold total_atoms, lens. simpl. rewrite app_nil_r, Z.add_0_r. apply run_from_zero; assumption.
  - destruct (list_eqb Z.eqb (sort_by Z.leb (List.concat pat)) (zseq nat)); cbn [negb]; [|discriminate].
    destruct (list_eqb Z.eqb (List.concat pat) (zseq nat)) eqn:Eord; cbn [negb]; [|discriminate].
    apply zlist_eqb_eq in Eord. intro H.
    apply obind_ok in H. destruct H as [pts [Hg H]]. destruct (geom_rows_ok _ _ _ Hg) as [Ht Hl].
    apply obind_ok in H. destruct H as [pts' [Hp H]]. apply (reorder_identity _ _ _ _ Eord) in Hp. subst pts'.
    apply obind_ok in H. destruct H as [ea' [H1 H]]. apply (reorder_opt_identity _ _ _ _ Eord) in H1. subst ea'.
    apply obind_ok in H. destruct H as [ez' [H2 H]]. apply (reorder_opt_identity _ _ _ _ Eord) in H2. subst ez'.
    apply obind_ok in H. destruct H as [ee' [H3 H]]. apply (reorder_opt_identity _ _ _ _ Eord) in H3. subst ee'.
    apply obind_ok in H. destruct H as [em' [H4 H]]. apply (reorder_opt_identity _ _ _ _ Eord) in H4. subst em'.
    apply obind_ok in H. destruct H as [er' [H5 H]]. apply (reorder_opt_identity _ _ _ _ Eord) in H5. subst er'.
    apply obind_ok in H. destruct H as [el' [H6 H]]. apply (reorder_opt_identity _ _ _ _ Eord) in H6. subst el'.
    injection H as <-. cbn [c_seps c_geom c_elea c_elez c_elem c_mass c_real c_elbl].
    repeat split; auto; [congruence | apply (triples_flatten _ _ Ht) | exists pts; split; congruence].
Qed.

(** Every accepted fragment pattern partitions the atoms in order (the full statement, since the repair 2b49794 of
    the fixed finding C04-single-fragment-offset). *)
Corollary contiguize_partition pat g ea ez ee em er el c :
  contiguize pat g ea ez ee em er el = Ok c -> List.concat pat = zseq (total_atoms pat).
Proof. intro H. apply (contiguize_accepts _ _ _ _ _ _ _ _ _ H). Qed.

(** regression witnesses: the old failing inputs are refused with ValidationError *)
Lemma contiguize_offset_run_refused :
  contiguize [[5; 6]] [0; 0; 0; 0; 0; 1]%Q None None None None None None = Err Validation /\
  contiguize [[-1; 0]] [0; 0; 0; 0; 0; 1]%Q None None None None None None = Err Validation /\
  contiguize [] [0; 0; 0; 0; 0; 1]%Q None None None None None None = Err Validation.
Proof. repeat split; vm_compute; reflexivity. Qed.

(* ------------------------------------------------------------------------------------------ *)
(** * from_schema is from_arrays on the untouched arrays *)

Definition schema_arrays (s : schema) (np : bool) : raw :=
  schema_raw s np {| c_seps := cum_seps (frag_pattern s); c_geom := sc_geom s; c_elea := sc_elea s; c_elez := sc_elez s;
                     c_elem := Some (map Some (sc_symbols s)); c_mass := sc_mass s; c_real := sc_real s; c_elbl := sc_elbl s |}.

Theorem from_schema_is_from_arrays s np m :
  from_schema s np = Ok m ->
  sniff s = Ok tt /\ from_arrays (schema_arrays s np) = Ok m /\
  List.concat (frag_pattern s) = zseq (total_atoms (frag_pattern s)) /\
  Z.of_nat (List.length (m_elem m)) = total_atoms (frag_pattern s).
Proof.
  unfold from_schema. intro H. apply obind_ok in H. destruct H as [[] [Hs H]].
  apply obind_ok in H. destruct H as [c [Hc H]].
  destruct (contiguize_accepts _ _ _ _ _ _ _ _ _ Hc) as (Hpat & E1 & E2 & E3 & E4 & E5 & E6 & E7 & E8 & pts & Ht & Hl).
  assert (Ec : schema_raw s np c = schema_arrays s np).
  { unfold schema_arrays, schema_raw. cbn [c_seps c_geom c_elea c_elez c_elem c_mass c_real c_elbl].
    rewrite E1, E2, E3, E4, E5, E6, E7, E8. reflexivity. }
  rewrite Ec in H. repeat split; auto.
  destruct (accepted_invariants _ _ H) as (pts' & ros & ats & W).
  destruct (wf_geom _ _ _ _ _ W) as (Eg & Ht' & _). destruct (wf_cols _ _ _ _ _ W) as (_ & _ & Ee & _ & _ & _ & Lr).
  rewrite Eg in Ht'. unfold schema_arrays, schema_raw in Ht'. cbn [r_geom c_geom] in Ht'. rewrite Ht in Ht'. injection Ht' as <-.
  rewrite Ee, map_length, Lr. exact Hl.
Qed.

(** so every accepted schema dictionary yields a record with the invariants of C04_accepted_invariants *)
Corollary from_schema_accepted_invariants s np m :
  from_schema s np = Ok m -> exists pts ros ats, WF (schema_arrays s np) m pts ros ats.
Proof. intro H. destruct (from_schema_is_from_arrays _ _ _ H) as (_ & Hf & _). apply accepted_invariants, Hf. Qed.

(** an unrecognised schema_name / schema_version is refused *)
Lemma sniff_cases s : sniff s = Ok tt \/ sniff s = Err Validation.
Proof. unfold sniff. destruct (_ && _); [auto|]. destruct (_ && _); auto. Qed.

Theorem from_schema_rejects_unknown_schema s np : sniff s = Err Validation -> from_schema s np = Err Validation.
Proof. intro H. unfold from_schema. rewrite H. reflexivity. Qed.

(* ------------------------------------------------------------------------------------------ *)
(** * Refusal classes *)

Lemma take_idx_total {A} (arr : list A) fr :
  (forall i, In i fr -> 0 <= i < Z.of_nat (List.length arr)) -> exists l, take_idx arr fr = Ok l.
Proof.
  unfold take_idx. induction fr as [|i fr IH]; intro H; [exists []; reflexivity|].
  destruct IH as [l Hl]; [intros; apply H; right; assumption|].
  pose proof (H i (or_introl eq_refl)) as Hi. simpl.
  replace (i <? 0) with false by (symmetry; apply Z.ltb_ge; lia).
  replace ((0 <=? i) && (i <? Z.of_nat (List.length arr))) with true
    by (symmetry; apply andb_true_iff; split; [apply Z.leb_le | apply Z.ltb_lt]; lia).
  destruct (nth_error arr (Z.to_nat i)) as [x|] eqn:En.
  - simpl. rewrite Hl. simpl. eauto.
  - apply nth_error_None in En. lia.
Qed.

Lemma in_zseq i n : In i (zseq n) -> 0 <= i < n.
Proof. unfold zseq. intro H. apply in_map_iff in H. destruct H as [k [<- Hk]]. apply in_seq in Hk. lia. Qed.

Lemma reorder_closed {A} nat pat (arr : list A) : List.concat pat = zseq nat ->
  (exists a, reorder nat pat arr = Ok a) \/ reorder nat pat arr = Err Validation.
Proof.
  intro Hc. unfold reorder. destruct (Z.of_nat (List.length arr) =? nat) eqn:El; simpl; [|right; reflexivity]. apply Z.eqb_eq in El.
  left. assert (Hall : forall fr, In fr pat -> exists l, take_idx arr fr = Ok l).
  { intros fr Hfr. apply take_idx_total. intros i Hi. rewrite El. apply in_zseq. rewrite <- Hc. apply in_concat. eauto. }
  clear Hc. induction pat as [|fr pat IH]; [exists []; reflexivity|].
  destruct (Hall fr (or_introl eq_refl)) as [l Hl]. destruct IH as [a Ha]; [intros; apply Hall; right; assumption|].
  simpl. rewrite Hl. simpl. destruct (mapM (take_idx arr) pat) as [ps|] eqn:Em; [|discriminate]. simpl. eauto.
Qed.

Lemma reorder_opt_closed {A} nat pat (o : option (list A)) : List.concat pat = zseq nat ->
  (exists a, reorder_opt nat pat o = Ok a) \/ reorder_opt nat pat o = Err Validation.
Proof.
  intro Hc. destruct o as [a|]; simpl; [|left; eauto].
  destruct (reorder_closed nat pat a Hc) as [[x ->]| ->]; simpl; [left; eauto | right; reflexivity].
Qed.

Lemma geom_rows_closed nat g : (exists p, geom_rows nat g = Ok p) \/ geom_rows nat g = Err Validation.
Proof.
  unfold geom_rows. destruct (triples g) as [p|k] eqn:E; simpl.
  - destruct (negb _); [right; reflexivity | left; eauto].
  - right. destruct (triples_err _ _ E) as [-> _]. reflexivity.
Qed.

(** contiguize raises nothing but ValidationError *)
Theorem contiguize_closed pat g ea ez ee em er el :
  (exists c, contiguize pat g ea ez ee em er el = Ok c) \/ contiguize pat g ea ez ee em er el = Err Validation.
Proof.
  unfold contiguize. destruct (is_nil pat) eqn:En; [right; reflexivity|].
  destruct (rev (cumsum 0 (lens pat))) as [|nat rseps] eqn:Er.
  - exfalso. destruct pat; [discriminate|]. simpl in Er. destruct (rev _) in Er; discriminate.
  - destruct (match pat with [fr] => diffs_one fr && starts_at_zero fr | _ => false end).
    + destruct (geom_rows_closed nat g) as [[p ->]| ->]; simpl; [left; eauto | right; reflexivity].
    + destruct (list_eqb Z.eqb (sort_by Z.leb (List.concat pat)) (zseq nat)); cbn [negb]; [|right; reflexivity].
      destruct (list_eqb Z.eqb (List.concat pat) (zseq nat)) eqn:Eord; cbn [negb]; [|right; reflexivity].
      apply zlist_eqb_eq in Eord.
      destruct (geom_rows_closed nat g) as [[p ->]| ->]; cbn [obind]; [|right; reflexivity].
      destruct (reorder_closed nat pat p Eord) as [[x ->]| ->]; cbn [obind]; [|right; reflexivity].
      destruct (reorder_opt_closed nat pat ea Eord) as [[x1 ->]| ->]; cbn [obind]; [|right; reflexivity].
      destruct (reorder_opt_closed nat pat ez Eord) as [[x2 ->]| ->]; cbn [obind]; [|right; reflexivity].
      destruct (reorder_opt_closed nat pat ee Eord) as [[x3 ->]| ->]; cbn [obind]; [|right; reflexivity].
      destruct (reorder_opt_closed nat pat em Eord) as [[x4 ->]| ->]; cbn [obind]; [|right; reflexivity].
      destruct (reorder_opt_closed nat pat er Eord) as [[x5 ->]| ->]; cbn [obind]; [|right; reflexivity].
      destruct (reorder_opt_closed nat pat el Eord) as [[x6 ->]| ->]; cbn [obind]; [|right; reflexivity].
      left. eauto.
Qed.

(** from_schema raises ValidationError or NotAnElementError and nothing else (the full statement, since the repair
    361a5b1 of the fixed finding C04-empty-fragment-list-indexerror) *)
Theorem from_schema_refusal_classes s np :
  (exists m, from_schema s np = Ok m) \/ from_schema s np = Err Validation \/ from_schema s np = Err NotAnElement.
Proof.
  unfold from_schema. destruct (sniff_cases s) as [-> | ->]; cbn [obind]; [|right; left; reflexivity].
  destruct (contiguize_closed (frag_pattern s) (sc_geom s) (sc_elea s) (sc_elez s) (Some (map Some (sc_symbols s))) (sc_mass s) (sc_real s) (sc_elbl s))
    as [[c ->]| ->]; cbn [obind].
  - pose proof (from_arrays_errors (schema_raw s np c)) as C. destruct (from_arrays _) as [m|k]; [left; eauto|].
    right. destruct C as [-> | ->]; auto.
  - right; left; reflexivity.
Qed.

Definition ex_two_atoms (frs : list (list Z)) : schema :=
  {| sc_name := Some "qcschema_molecule"%string; sc_version := Some 2; sc_symbols := ["H"; "He"]%string; sc_geom := [0; 0; 0; 0; 0; 1]%Q;
     sc_elea := None; sc_elez := None; sc_mass := None; sc_real := None; sc_elbl := None; sc_frags := Some frs;
     sc_fchg := None; sc_fmult := None; sc_chg := None; sc_mult := None; sc_fix_com := None; sc_fix_orientation := None;
     sc_fix_symmetry := None; sc_conn := None |}.

(** regression witnesses for the two fixed findings *)
Lemma from_schema_old_failing_inputs_refused :
  from_schema (ex_two_atoms []) false = Err Validation /\ from_schema (ex_two_atoms [[5; 6]]) false = Err Validation /\
  from_schema (ex_two_atoms [[1; 2]]) false = Err Validation /\ from_schema (ex_two_atoms [[-1; 0]]) false = Err Validation.
Proof. repeat split; vm_compute; reflexivity. Qed.

(* ------------------------------------------------------------------------------------------ *)
(** * The fragment list of a validated Molecule *)

(** Molecule(kwargs).fragments lists the atoms 0 .. nat-1 in order: either the validated pieces, or — when
    _filter_defaults dropped the single all-atom fragment — what the caller passed, which contiguize accepted. *)
Theorem molecule_fragments_partition s np m :
  from_schema s np = Ok m ->
  List.concat (molecule_fragments s m) = zseq (Z.of_nat (List.length (m_elem m))).
Proof.
  intros H. set (n := Z.of_nat (List.length (m_elem m))).
  destruct (from_schema_is_from_arrays _ _ _ H) as (_ & Hf & Hpat & Hn). fold n in Hn.
  destruct (accepted_invariants _ _ Hf) as (pts & ros & ats & W).
  unfold molecule_fragments. fold n. unfold filter_fragments.
  destruct (list_eqb (list_eqb Z.eqb) (pieces m) [zseq n]) eqn:Ep.
  - unfold frag_pattern in Hpat, Hn. destruct (sc_frags s) as [p|] eqn:Es; [|simpl; apply app_nil_r]. congruence.
  - unfold pieces. fold n.
    destruct (wf_cols _ _ _ _ _ W) as (_ & _ & Ee & _ & _ & _ & Lr).
    destruct (wf_frag _ _ _ _ _ W) as [Hc Hne].
    assert (Ln : Z.to_nat n = List.length pts) by (unfold n; rewrite Ee, map_length, Lr, Nat2Z.id; reflexivity).
    unfold zseq. rewrite Ln. unfold np_split. rewrite np_split_map, <- concat_map. unfold np_split in Hc. rewrite Hc. reflexivity.
Qed.
