(** C07 — proofs about Model/Text.v: totality of the parser model. *)
From Coq Require Import ZArith NArith List String Ascii Bool Lia.
Require Import QV.Common.Outcome QV.Common.WText QV.Common.WBin64 QV.Model.Text.
Import ListNotations.
Open Scope nat_scope.

Notation slen := String.length.

(* ------------------------------------------------------------------------------------------ *)
(** * lengths: nothing the parser looks at is longer than the text *)
Lemma take_while_len p s : slen (take_while p s) <= slen s.
Proof. induction s as [|c r IH]; simpl; [lia|]. destruct (p c); simpl; lia. Qed.
Lemma drop_while_len p s : slen (drop_while p s) <= slen s.
Proof. induction s as [|c r IH]; simpl; [lia|]. destruct (p c); simpl; lia. Qed.
Lemma lstrip_len s : slen (s_lstrip s) <= slen s.
Proof. induction s as [|c r IH]; simpl; [lia|]. destruct (c_is_space c); simpl; lia. Qed.
Lemma rstrip_len s : slen (s_rstrip s) <= slen s.
Proof.
  induction s as [|c r IH]; simpl; [lia|].
  destruct (s_rstrip r) eqn:E; [destruct (c_is_space c); simpl; lia | simpl in *; lia].
Qed.
Lemma strip_len s : slen (s_strip s) <= slen s.
Proof. unfold s_strip. pose proof (rstrip_len (s_lstrip s)). pose proof (lstrip_len s). lia. Qed.

Lemma fc_len_n n : forall s b p, slen s <= n -> slen (fc s b p) <= slen s.
Proof.
  induction n as [|n IH]; intros s b p Hn.
  - destruct s; simpl in *; [lia | lia].
  - destruct s as [|c r]; [simpl; lia|]. simpl in Hn. cbn [fc].
    destruct (b && negb (c_eqb c nl)); [specialize (IH r true false ltac:(lia)); simpl; lia|].
    destruct (c_eqb c c_hash && p); [specialize (IH r true false ltac:(lia)); simpl; lia|].
    destruct r as [|c2 r2]; [simpl; lia|]. simpl in Hn.
    destruct (c_eqb c nl && c_eqb c2 c_hash).
    + specialize (IH r2 true false ltac:(lia)). simpl. lia.
    + specialize (IH (String c2 r2) false (ok_before_hash c) ltac:(simpl; lia)). simpl in *. lia.
Qed.
Lemma fc_len s b p : slen (fc s b p) <= slen s.
Proof. apply (fc_len_n (slen s)). lia. Qed.
Lemma filter_comments_len s : slen (filter_comments s) <= slen s.
Proof. apply fc_len. Qed.

Lemma split_len sep s : Forall (fun l => slen l <= slen s) (s_split sep s).
Proof.
  induction s as [|c r IH]; simpl; [constructor; [simpl; lia | constructor]|].
  destruct (c_eqb c sep).
  - constructor; [simpl; lia|]. eapply Forall_impl; [|exact IH]. simpl. intros; lia.
  - destruct (s_split sep r) as [|x xs] eqn:E.
    + constructor; [simpl; lia | constructor].
    + inversion IH; subst. constructor; [simpl; lia|]. eapply Forall_impl; [|eassumption]. simpl. intros; lia.
Qed.

Lemma split_any_len p s : Forall (fun l => slen l <= slen s) (split_any p s).
Proof.
  induction s as [|c r IH]; simpl; [constructor; [simpl; lia | constructor]|].
  destruct (p c).
  - constructor; [simpl; lia|]. eapply Forall_impl; [|exact IH]. simpl. intros; lia.
  - destruct (split_any p r) as [|x xs] eqn:E.
    + constructor; [simpl; lia | constructor].
    + inversion IH; subst. constructor; [simpl; lia|]. eapply Forall_impl; [|eassumption]. simpl. intros; lia.
Qed.
Lemma split_nonempty sep s : s_split sep s <> [].
Proof. destruct s as [|c r]; simpl; [discriminate|]. destruct (c_eqb c sep); [discriminate|]. destruct (s_split sep r); discriminate. Qed.

Lemma toks_len s : Forall (fun l => slen l <= slen s) (toks s).
Proof. unfold toks. apply Forall_forall. intros x Hx. apply filter_In in Hx as [Hx _]. pose proof (split_any_len is_sepc s) as F. rewrite Forall_forall in F. auto. Qed.

Lemma stripped_lines_len s : Forall (fun l => slen l <= slen s) (stripped_lines s).
Proof.
  unfold stripped_lines. apply Forall_forall. intros x Hx. apply in_map_iff in Hx as [y [<- Hy]].
  pose proof (split_len nl s) as F. rewrite Forall_forall in F. specialize (F _ Hy). pose proof (strip_len y). lia.
Qed.
Lemma stripped_lines_nonempty s : stripped_lines s <> [].
Proof. unfold stripped_lines. intro H. apply map_eq_nil in H. eapply split_nonempty; eassumption. Qed.

(* ------------------------------------------------------------------------------------------ *)
(** * int() succeeds on short digit runs *)
Definition short (l : string) : Prop := slen l <= int_max_str_digits.

Lemma py_int_short s : short s -> exists z, py_int s = Ok z.
Proof.
  unfold short, py_int. intro H. destruct (Nat.ltb int_max_str_digits (slen s)) eqn:E.
  - apply Nat.ltb_lt in E. lia.
  - eauto.
Qed.
Lemma py_int_cases s : (exists z, py_int s = Ok z) \/ py_int s = Err PyValueError.
Proof. unfold py_int. destruct (Nat.ltb _ _); eauto. Qed.

Lemma cgmp_match_len l q m : cgmp_match l = Some (q, m) -> slen m <= slen l.
Proof.
  unfold cgmp_match. destruct (edges_ok l); [|discriminate].
  pose proof (toks_len l) as F. destruct (toks l) as [|c [|m' [|x r]]]; try discriminate.
  destruct (parse_number c); [|discriminate]. destruct (all_digits m'); [|discriminate].
  intro H; inversion H; subst. inversion F; subst. inversion H3; subst. assumption.
Qed.
Lemma xyz2_match_len l q m : xyz2_match l = Some (q, m) -> slen m <= slen l.
Proof.
  unfold xyz2_match. destruct (is_empty _); [discriminate|]. destruct (parse_number _); [|discriminate].
  destruct (is_empty (take_while _ _)) eqn:E; [discriminate|]. intro H; inversion H; subst.
  pose proof (take_while_len c_is_digit (drop_while is_sepc (drop_while not_sepc l))).
  pose proof (drop_while_len is_sepc (drop_while not_sepc l)). pose proof (drop_while_len not_sepc l). lia.
Qed.

(* ------------------------------------------------------------------------------------------ *)
(** * totality *)
(** the outcomes of the parser model: a dictionary, MoleculeFormatError, ValueError (only from int() on a
    digit run longer than 4300), or "outside the model" (a pubchem / efp line) *)
Definition documented (o : outcome processed) : Prop :=
  (exists p, o = Ok p) \/ o = Err MoleculeFormat \/ o = Err OutOfFuel.
Definition documented_or_valueerror (o : outcome processed) : Prop := documented o \/ o = Err PyValueError.

Lemma xyz_lines_total strict ls : ls <> [] -> documented_or_valueerror (parse_xyz_lines strict ls).
Proof.
  intro Hn. unfold parse_xyz_lines. destruct ls as [|l0 rest]; [contradiction|].
  destruct (if strict then _ else _) as [units rem0].
  match goal with |- context [obind ?c _] => destruct c as [cmv|k] eqn:E end; simpl.
  - destruct (xa_rem _); [left; right; left; reflexivity | left; left; eexists; reflexivity].
  - destruct strict; [discriminate|]. destruct rest as [|l1 r]; [discriminate|].
    destruct (xyz2_match l1) as [[q m]|]; [|discriminate].
    destruct (py_int_cases m) as [[z Hz]|Hz]; rewrite Hz in E; simpl in E; [discriminate|].
    inversion E; subst. right; reflexivity.
Qed.

Lemma xyz_lines_total_short strict ls : ls <> [] -> Forall short ls -> documented (parse_xyz_lines strict ls).
Proof.
  intros Hn Hs. unfold parse_xyz_lines. destruct ls as [|l0 rest]; [contradiction|].
  destruct (if strict then _ else _) as [units rem0].
  match goal with |- context [obind ?c _] => destruct c as [cmv|k] eqn:E end; simpl.
  - destruct (xa_rem _); [right; left; reflexivity | left; eexists; reflexivity].
  - exfalso. destruct strict; [discriminate|]. destruct rest as [|l1 r]; [discriminate|].
    destruct (xyz2_match l1) as [[q m]|] eqn:M; [|discriminate].
    inversion Hs; subst. inversion H2; subst.
    apply xyz2_match_len in M. destruct (py_int_short m) as [z Hz]; [unfold short in *; lia|].
    rewrite Hz in E. discriminate.
Qed.

Lemma frag_lines_cases ls : forall found a,
  (exists r, frag_lines ls found a = Ok r) \/ frag_lines ls found a = Err PyValueError.
Proof.
  induction ls as [|l r IH]; intros found a; simpl; [left; eauto|].
  destruct (match found with None => cgmp_match l | Some _ => None end) as [[q m]|].
  - destruct (py_int_cases m) as [[z Hz]|Hz]; rewrite Hz; simpl; [apply IH | right; reflexivity].
  - destruct (atom_match is_nucleus l) as [[[[n x] y] z]|]; apply IH.
Qed.
Lemma frag_lines_short ls : forall found a, Forall short ls -> exists r, frag_lines ls found a = Ok r.
Proof.
  induction ls as [|l r IH]; intros found a Hs; simpl; [eauto|]. inversion Hs; subst.
  destruct (match found with None => cgmp_match l | Some _ => None end) as [[q m]|] eqn:M.
  - assert (Hm : short m).
    { destruct found; [discriminate|]. apply cgmp_match_len in M. unfold short in *. lia. }
    destruct (py_int_short m Hm) as [z Hz]. rewrite Hz. simpl. apply IH; assumption.
  - destruct (atom_match is_nucleus l) as [[[[n x] y] z]|]; apply IH; assumption.
Qed.

Lemma filter_fragment_cases f a : (exists r, filter_fragment f a = Ok r) \/ filter_fragment f a = Err PyValueError.
Proof.
  unfold filter_fragment. match goal with |- context [frag_lines ?l ?f ?x] => destruct (frag_lines_cases l f x) as [[[fd a2] H]|H]; rewrite H end; simpl.
  - left; eauto.
  - right; reflexivity.
Qed.
Lemma filter_fragment_short f a : Forall short f -> exists r, filter_fragment f a = Ok r.
Proof.
  intro Hs. unfold filter_fragment.
  match goal with |- context [frag_lines ?l ?f ?x] => destruct (frag_lines_short l f x Hs) as [[fd a2] H]; rewrite H end; simpl. eauto.
Qed.

Lemma fragments_cases frs : forall a, (exists r, fragments frs a = Ok r) \/ fragments frs a = Err PyValueError.
Proof.
  induction frs as [|f r IH]; intro a; simpl; [left; eauto|].
  destruct (filter_fragment_cases f a) as [[a' H]|H]; rewrite H; simpl; [apply IH | right; reflexivity].
Qed.
Lemma fragments_short frs : forall a, Forall (Forall short) frs -> exists r, fragments frs a = Ok r.
Proof.
  induction frs as [|f r IH]; intros a Hs; simpl; [eauto|]. inversion Hs; subst.
  destruct (filter_fragment_short f a H1) as [a' H]. rewrite H. simpl. apply IH; assumption.
Qed.

Lemma universals_keep (P : string -> Prop) ls : forall a,
  Forall P ls -> Forall P (ua_keep a) -> Forall P (ua_keep (universals ls a)).
Proof.
  induction ls as [|l r IH]; intros a Hl Hk; simpl; [assumption|]. inversion Hl; subst.
  apply IH; [assumption|].
  destruct (negb (ua_com a) && is_com l); [exact Hk|].
  destruct (negb (ua_orient a) && is_orient l); [exact Hk|].
  destruct (if ua_units a then None else units_match l); [exact Hk|].
  destruct (if ua_symm a then None else symmetry_match l); [exact Hk|].
  simpl. apply Forall_app. split; [assumption | constructor; [assumption | constructor]].
Qed.
Lemma split_dash_keep (P : string -> Prop) ls : forall cur,
  Forall P ls -> Forall P cur -> Forall (Forall P) (split_dash ls cur).
Proof.
  induction ls as [|l r IH]; intros cur Hl Hc; simpl.
  - destruct cur; [constructor | constructor; [assumption | constructor]].
  - inversion Hl; subst. destruct (is_dash l).
    + destruct cur; [apply IH; [assumption | constructor] | constructor; [assumption | apply IH; [assumption | constructor]]].
    + apply IH; [assumption|]. apply Forall_app. split; [assumption | constructor; [assumption | constructor]].
Qed.

Lemma psi4_lines_total ls : documented_or_valueerror (parse_psi4_lines ls).
Proof.
  unfold parse_psi4_lines. destruct (existsb is_pubchem ls); [left; right; right; reflexivity|].
  set (u := universals ls _). set (frs := match split_dash (ua_keep u) [] with [] => [[]] | _ => _ end).
  destruct (existsb _ frs); [left; right; right; reflexivity|].
  match goal with |- context [obind ?c _] => destruct c as [[cm frs']|k] eqn:E end; simpl.
  - destruct (fragments_cases frs' macc0) as [[a H]|H]; rewrite H; simpl; [|right; reflexivity].
    destruct (ma_rem a); [left; right; left; reflexivity | left; left; eexists; reflexivity].
  - destruct frs as [|[|l [|l2 f]] rest]; try discriminate.
    destruct (cgmp_match l) as [[q m]|]; [|discriminate].
    destruct (py_int_cases m) as [[z Hz]|Hz]; rewrite Hz in E; simpl in E; [discriminate|]. inversion E. right; reflexivity.
Qed.

Lemma psi4_lines_total_short ls : Forall short ls -> documented (parse_psi4_lines ls).
Proof.
  intro Hs. unfold parse_psi4_lines. destruct (existsb is_pubchem ls); [right; right; reflexivity|].
  set (u := universals ls _).
  assert (Hu : Forall short (ua_keep u)) by (apply universals_keep; [assumption | constructor]).
  assert (Hf0 : Forall (Forall short) (split_dash (ua_keep u) [])) by (apply split_dash_keep; [assumption | constructor]).
  set (frs := match split_dash (ua_keep u) [] with [] => [[]] | _ => _ end).
  assert (Hf : Forall (Forall short) frs).
  { unfold frs. destruct (split_dash (ua_keep u) []); [constructor; constructor | assumption]. }
  destruct (existsb _ frs); [right; right; reflexivity|].
  match goal with |- context [obind ?c _] => destruct c as [[cm frs']|k] eqn:E end; simpl.
  - assert (Hf' : Forall (Forall short) frs').
    { destruct frs as [|[|l [|l2 f]] rest]; try (inversion E; subst; assumption).
      destruct (cgmp_match l) as [[q m]|]; [|inversion E; subst; assumption].
      destruct (py_int m); simpl in E; inversion E; subst. inversion Hf; assumption. }
    destruct (fragments_short frs' macc0 Hf') as [a H]. rewrite H. simpl.
    destruct (ma_rem a); [right; left; reflexivity | left; eexists; reflexivity].
  - exfalso. destruct frs as [|[|l [|l2 f]] rest]; try discriminate.
    destruct (cgmp_match l) as [[q m]|] eqn:M; [|discriminate].
    inversion Hf; subst. inversion H1; subst. apply cgmp_match_len in M.
    destruct (py_int_short m) as [z Hz]; [unfold short in *; lia|]. rewrite Hz in E. discriminate.
Qed.

Definition cartesian_dtype (d : string) : Prop := d = "xyz"%string \/ d = "xyz+"%string \/ d = "psi4"%string.

(** On any text at all, under each of the three dtypes, the parser model returns a dictionary, raises
    MoleculeFormatError, declares the text outside the model (pubchem / efp), or raises ValueError. *)
Theorem parse_total d text : cartesian_dtype d -> documented_or_valueerror (parse d text).
Proof.
  intros [Hd|[Hd|Hd]]; subst d; unfold parse; cbn [s_eqb String.eqb Ascii.eqb Bool.eqb].
  - apply xyz_lines_total, stripped_lines_nonempty.
  - apply xyz_lines_total, stripped_lines_nonempty.
  - apply psi4_lines_total.
Qed.

Lemma lines_short text : slen text <= int_max_str_digits -> Forall short (stripped_lines (filter_comments (s_strip text))).
Proof.
  intro H. eapply Forall_impl; [|apply stripped_lines_len]. unfold short. intros l Hl.
  pose proof (filter_comments_len (s_strip text)). pose proof (strip_len text). lia.
Qed.

(** ... and the ValueError needs an integer field of more than 4300 digits: a text of at most 4300
    characters never produces it. *)
Theorem parse_total_short d text :
  cartesian_dtype d -> slen text <= int_max_str_digits -> documented (parse d text).
Proof.
  intros [Hd|[Hd|Hd]] H; subst d; unfold parse; cbn [s_eqb String.eqb Ascii.eqb Bool.eqb].
  - apply xyz_lines_total_short; [apply stripped_lines_nonempty | apply lines_short; assumption].
  - apply xyz_lines_total_short; [apply stripped_lines_nonempty | apply lines_short; assumption].
  - apply psi4_lines_total_short. unfold parse_psi4. apply Forall_forall. intros x Hx. apply filter_In in Hx as [Hx _].
    pose proof (lines_short text H) as F. rewrite Forall_forall in F. auto.
Qed.
