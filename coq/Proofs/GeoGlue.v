(** C18 — the glue code translated from the sources (Gen/GeoGlue.v) is the hand model of Model/Geometry.v. *)
From Coq Require Import List Bool ZArith Field Ring.
Require Import QV.Common.Outcome QV.Common.Geo3 QV.Common.Geo3Np QV.Common.Geo3Glue QV.Gen.Dihedral QV.Model.Geometry QV.Gen.GeoGlue QV.Common.Geo3Facts QV.Proofs.Geometry.
Import ListNotations.

Section Glue.
  Variable K : Fops.

  Hypothesis Kf : is_field K.
  Let Kf' : field_theory (f0 K) (f1 K) (fadd K) (fmul K) (fsub K) (fopp K) (fdiv K) (finv K) eq := Kf.
  Add Field KFGL : Kf'.

  (* same comparison, same use of sqrt; the arguments equal as field expressions (so an equivalent rewrite of the source
     expression still proves, a changed operand / comparison / missing sqrt does not) *)
  Lemma bonded_gen_is_model thr a b : bonded_gen K thr a b = bonded K thr a b.
  Proof.
    destruct a as [[[a0 a1] a2] ra]. destruct b as [[[b0 b1] b2] rb]. unfold bonded_gen, bonded. vnormalize.
    f_equal; first [ring | f_equal; ring].
  Qed.

  Lemma connectivity_gen_is_model thr atoms : guess_connectivity_gen K thr atoms = guess_connectivity K thr atoms.
  Proof.
    unfold guess_connectivity_gen, guess_connectivity. rewrite <- (map_id atoms) at 1.
    apply (conn_from_ext K (bonded K thr) (bonded_gen K thr) (fun a => a)). intros a b. apply bonded_gen_is_model.
  Qed.

  Lemma dm_entry_gen_is_model ai bj : dm_entry_gen K ai bj = vnorm (vsub ai bj).
  Proof. destruct ai as [[a0 a1] a2]. destruct bj as [[b0 b1] b2]. unfold dm_entry_gen. vnormalize. f_equal; ring. Qed.

  Lemma distance_matrix_gen_is_model a b : distance_matrix_gen K a b = distance_matrix K a b.
  Proof.
    unfold distance_matrix_gen, distance_matrix. apply map_ext. intro ai. apply map_ext. intro bj. apply dm_entry_gen_is_model.
  Qed.

  (** measure_coordinates' loop body driven by the translated bounds test and dispatch chain *)
  Section Via.
    Variable V : Type.
    Variable f_dist : arr K -> arr K -> outcome V.
    Variable f_ang : arr K -> arr K -> arr K -> bool -> outcome V.
    Variable f_dih : arr K -> arr K -> arr K -> arr K -> bool -> outcome V.

    Definition measure_via (coords : list (vec3 K)) (degrees : bool) (m : list Z) : outcome V :=
      if out_of_bounds_gen (Z.of_nat (length coords)) m then Err PyValueError
      else
        let kw := fun passes : bool => if passes then degrees else false in     (* kernels default to degrees=False *)
        match dispatch_gen (length m), m with
        | DErr k, _ => Err k
        | DDistance _, [a; b] =>
            pa <- py_row K coords a ;; pb <- py_row K coords b ;; f_dist (vec_arr K pa) (vec_arr K pb)
        | DAngle p, [a; b; c] =>
            pa <- py_row K coords a ;; pb <- py_row K coords b ;; pc <- py_row K coords c ;;
            f_ang (vec_arr K pa) (vec_arr K pb) (vec_arr K pc) (kw p)
        | DDihedral p, [a; b; c; d] =>
            pa <- py_row K coords a ;; pb <- py_row K coords b ;; pc <- py_row K coords c ;; pd <- py_row K coords d ;;
            f_dih (vec_arr K pa) (vec_arr K pb) (vec_arr K pc) (vec_arr K pd) (kw p)
        | _, _ => Err PyTypeError        (* a kernel called with the wrong number of points *)
        end.

    Lemma measure_via_is_model coords degrees m :
      measure_via coords degrees m = measure_one K V f_dist f_ang f_dih coords degrees m.
    Proof.
      unfold measure_via, measure_one, out_of_bounds_gen.
      destruct (existsb (fun x : Z => (Z.of_nat (length coords) <=? x)%Z) m); [reflexivity|].
      destruct m as [|a [|b [|c [|d [|e t]]]]]; try reflexivity.
    Qed.
  End Via.
End Glue.
