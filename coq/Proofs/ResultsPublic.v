(** C20 — the statements of the property at the PUBLIC entry points:
    - what WavefunctionProperties validation does to every field (implied shape or refusal, payload unchanged);
    - AtomicResult(...) = the four protocol-governed stages, and what its `wavefunction` holds in terms
      of the documented keep lists (the protocol filter composed with the field validation);
    - AtomicResultProperties: whole-object statement and re-validation. *)
From Coq Require Import ZArith List String Bool Lia.
Require Import QV.Common.Outcome QV.Gen.KeepLists QV.Model.Results QV.Proofs.Results QV.Proofs.ResultsValidate
  QV.Proofs.ResultsCompose.
Import ListNotations.
Local Open Scope string_scope.
Local Open Scope list_scope.
Local Open Scope Z_scope.

(** * WavefunctionProperties: what validation does to one field, given the (already validated) basis *)
Definition step_rel (b : option wval) (kind : fkind) (v v' : wval) : Prop :=
  match kind, v with
  | FArr (Some t) _, WArr a =>
    match (if uses_nbf t then b else Some (WBasis 0)) with
    | Some (WBasis nbf) => exists a', reshape a (inst nbf 0 t) = Ok a' /\ v' = WArr a'
    | _ => v' = v
    end
  | _, _ => v' = v
  end.

Lemma wfn_field_post w vals name kind vals1 :
  wfn_field w (vals, false) (name, kind) = (vals1, false) ->
  (dget name w = None /\ vals1 = vals)
  \/ (exists v v', dget name w = Some v /\ step_rel (dget "basis" vals) kind v v' /\ vals1 = vals ++ [(name, v')]).
Proof.
  unfold wfn_field, step_rel. destruct (dget name w) as [v|].
  - intro H. right. exists v.
    destruct kind as [| |[t|] decl|]; destruct v as [|b|n|s|a]; try (inversion H; fail);
      try (inversion H; eexists; split; [reflexivity|split; reflexivity]).
    + revert H. destruct (if uses_nbf t then dget "basis" vals else Some (WBasis 0)) as [[| | nbf | |]|]; intro H;
        try (inversion H; eexists; split; [reflexivity|split; reflexivity]).
      destruct (reshape a (inst nbf 0 t)) as [a'|]; inversion H.
      eexists; split; [reflexivity|split; [|reflexivity]]. exists a'. split; reflexivity.
    + revert H. destruct (dget s vals) as [[]|]; intro H; inversion H; eexists; split; try reflexivity; split; reflexivity.
  - intro H. left. destruct kind; inversion H; auto.
Qed.

Lemma run_post w : forall fields vals final,
  run fields w (vals, false) = (final, false) ->
  nodupb (keys fields) = true ->
  (forall k, smem k (keys fields) = true -> dget k vals = None) ->
  smem "basis" (keys fields) = false ->
  forall name kind, In (name, kind) fields ->
  match dget name w with
  | None => dget name final = None
  | Some v => exists v', dget name final = Some v' /\ step_rel (dget "basis" vals) kind v v'
  end.
Proof.
  induction fields as [|[n0 k0] r IH]; intros vals final H ND Hfresh Hb name kind Hin; [destruct Hin|].
  simpl in ND. apply andb_true_iff in ND. destruct ND as [Hnot ND]. apply negb_true_iff in Hnot.
  unfold keys in Hb. cbn [map smem existsb fst] in Hb. apply orb_false_iff in Hb. destruct Hb as [Hb0 Hb].
  unfold run in *. cbn [fold_left] in H.
  destruct (wfn_field w (vals, false) (n0, k0)) as [vals1 b1] eqn:E1.
  assert (b1 = false).
  { destruct b1; [|reflexivity]. pose proof (run_bad_sticky r w vals1) as S. unfold run in S. rewrite H in S. discriminate. }
  subst b1.
  assert (Hname : dget n0 vals = None) by (apply Hfresh; simpl; rewrite String.eqb_refl; reflexivity).
  assert (Hbasis1 : dget "basis" vals1 = dget "basis" vals).
  { destruct (wfn_field_post _ _ _ _ _ E1) as [[_ Ev]|[v [v' [_ [_ Ev]]]]]; subst vals1; [reflexivity|].
    rewrite dget_app_single. destruct (dget "basis" vals); [reflexivity|]. rewrite Hb0. reflexivity. }
  destruct Hin as [Hin|Hin].
  - inversion Hin; subst n0 k0. clear Hin.
    rewrite (run_dget_other r w _ _ _ _ H name Hnot).
    destruct (wfn_field_post _ _ _ _ _ E1) as [[En Ev]|[v [v' [En [Ks Ev]]]]]; subst vals1; rewrite En.
    + exact Hname.
    + exists v'. split; [|exact Ks]. rewrite dget_app_single, Hname, String.eqb_refl. reflexivity.
  - rewrite <- Hbasis1. apply (IH vals1 final H ND); [|exact Hb|exact Hin].
    intros k' Hk'. destruct (wfn_field_post _ _ _ _ _ E1) as [[En Ev]|[v [v' [En [Ks Ev]]]]]; subst vals1.
    + apply Hfresh. simpl. rewrite Hk'. apply orb_true_r.
    + rewrite dget_app_single. rewrite (Hfresh k') by (simpl; rewrite Hk'; apply orb_true_r).
      destruct (String.eqb_spec k' n0); [subst; congruence|reflexivity].
Qed.

(** the generated field table starts with the (required) basis: every later validator sees the validated basis *)
Lemma wfn_fields_basis_first : wfn_fields = ("basis", FBasis) :: tl wfn_fields.
Proof. reflexivity. Qed.

Lemma tl_fields_nodup : nodupb (keys (tl wfn_fields)) = true.
Proof. vm_compute. reflexivity. Qed.
Lemma tl_fields_no_basis : smem "basis" (keys (tl wfn_fields)) = false.
Proof. vm_compute. reflexivity. Qed.

(** WavefunctionProperties built from w is accepted: the basis is a basis set, and every other field is absent or went through
    its own validator with THAT basis (reshape to the rule's shape; everything else unchanged). *)
Theorem wfn_validate_spec w w' : wfn_validate w = Ok w' ->
  exists nbf, dget "basis" w = Some (WBasis nbf) /\ dget "basis" w' = Some (WBasis nbf) /\
  forall name kind, In (name, kind) (tl wfn_fields) ->
    match dget name w with
    | None => dget name w' = None
    | Some v => exists v', dget name w' = Some v' /\ step_rel (Some (WBasis nbf)) kind v v'
    end.
Proof.
  unfold wfn_validate. destruct (negb (forallb _ (keys w))); [discriminate|].
  destruct (fold_left (wfn_field w) wfn_fields ([], false)) as [values bad] eqn:R. destruct bad; [discriminate|].
  intro H. inversion H; subst values. clear H.
  rewrite wfn_fields_basis_first in R. cbn [fold_left] in R.
  destruct (wfn_field w ([], false) ("basis", FBasis)) as [vals1 b1] eqn:E1.
  assert (b1 = false).
  { destruct b1; [|reflexivity]. pose proof (run_bad_sticky (tl wfn_fields) w vals1) as S. unfold run in S. rewrite R in S. discriminate. }
  subst b1.
  unfold wfn_field in E1.
  destruct (dget "basis" w) as [[| | nbf | |]|] eqn:Eb; try (inversion E1; fail).
  inversion E1; subst vals1. clear E1. cbn [app] in R.
  exists nbf. split; [reflexivity|].
  assert (Hfresh : forall k, smem k (keys (tl wfn_fields)) = true -> dget k [("basis", WBasis nbf)] = None).
  { intros k Hk. simpl. destruct (String.eqb_spec k "basis"); [|reflexivity]. subst. rewrite tl_fields_no_basis in Hk. discriminate. }
  split.
  - rewrite (run_dget_other (tl wfn_fields) w _ _ _ _ R "basis" tl_fields_no_basis). reflexivity.
  - intros name kind Hin.
    pose proof (run_post w (tl wfn_fields) _ _ R tl_fields_nodup Hfresh tl_fields_no_basis name kind Hin) as P.
    exact P.
Qed.

(** two values with the same payload: arrays hold the same elements (the shape may differ), anything else is equal *)
Definition same_payload (v v' : wval) : Prop :=
  match v, v' with
  | WArr a, WArr a' => dat a' = dat a
  | WArr _, _ | _, WArr _ => False
  | _, _ => v' = v
  end.

Lemma step_rel_payload b kind v v' : step_rel b kind v v' -> same_payload v v'.
Proof.
  unfold step_rel, same_payload.
  assert (R : v' = v -> match v, v' with WArr a, WArr a' => dat a' = dat a | WArr _, _ | _, WArr _ => False | _, _ => v' = v end).
  { intros ->. destruct v; reflexivity. }
  destruct kind as [| |[t|] d|]; try exact R. destruct v as [| | | |a]; try exact R.
  destruct (if uses_nbf t then b else Some (WBasis 0)) as [[| | nbf | |]|]; try exact R.
  intros [a' [Hr ->]]. apply (reshape_data _ _ _ Hr).
Qed.

(** every entry of the validated dictionary is an entry of the supplied one with the same payload, and vice versa *)
Theorem wfn_validate_payload w w' : wfn_validate w = Ok w' ->
  forall k, match dget k w, dget k w' with
            | None, None => True
            | Some v, Some v' => same_payload v v'
            | _, _ => False
            end.
Proof.
  intros H k. pose proof (validate_sim w w' H k) as S.
  destruct (wfn_validate_spec w w' H) as [nbf [Eb [Eb' F]]].
  destruct (String.eqb_spec k "basis") as [->|Nb]; [rewrite Eb, Eb'; reflexivity|].
  destruct (dget k w) as [v|] eqn:Ev; destruct (dget k w') as [v'|] eqn:Ev'; try exact S.
  (* k is a field name: it is a key of w' *)
  assert (Hin : In k (keys wfn_fields)).
  { unfold wfn_validate in H. destruct (negb (forallb _ (keys w))); [discriminate|].
    destruct (fold_left (wfn_field w) wfn_fields ([], false)) as [values bad] eqn:R. destruct bad; [discriminate|].
    inversion H; subst values.
    assert (Hk : In k (keys w')) by (apply dget_In; congruence).
    destruct (run_keys _ _ _ _ _ _ R k Hk) as [[]|Hf]. exact Hf. }
  rewrite wfn_fields_basis_first in Hin. cbn [keys map fst] in Hin. destruct Hin as [E|Hin]; [congruence|].
  unfold keys in Hin. apply in_map_iff in Hin. destruct Hin as [[n kind] [En Hin]]. simpl in En. subst n.
  pose proof (F k kind Hin) as P. rewrite Ev in P. destruct P as [v2 [E2 Hs]]. rewrite Ev' in E2. inversion E2; subst v2.
  exact (step_rel_payload _ _ _ _ Hs).
Qed.

(** the shape an accepted array ends with, per reshape rule (AO matrices nbf x nbf, orbitals nbf x *, vectors flat):
    the supplied size must fit, the elements are the supplied ones *)
Theorem wfn_validate_shapes w w' : wfn_validate w = Ok w' ->
  exists nbf, dget "basis" w' = Some (WBasis nbf) /\
  forall name t d a, In (name, FArr (Some t) d) wfn_fields -> dget name w = Some (WArr a) ->
    exists a', dget name w' = Some (WArr a') /\ dat a' = dat a
               /\ reshape_dims (zlen (dat a)) (inst (if uses_nbf t then nbf else 0) 0 t) = Ok (shp a').
Proof.
  intro H. destruct (wfn_validate_spec w w' H) as [nbf [Eb [Eb' F]]]. exists nbf. split; [exact Eb'|].
  intros name t d a Hin Ea.
  rewrite wfn_fields_basis_first in Hin. destruct Hin as [E|Hin]; [inversion E|].
  pose proof (F name _ Hin) as P. rewrite Ea in P. destruct P as [v' [Ev' Hs]].
  unfold step_rel in Hs.
  assert (Hs' : exists a', reshape a (inst (if uses_nbf t then nbf else 0) 0 t) = Ok a' /\ v' = WArr a').
  { destruct (uses_nbf t); exact Hs. }
  destruct Hs' as [a' [Hr ->]]. exists a'. split; [exact Ev'|]. split; [apply (reshape_data _ _ _ Hr)|].
  unfold reshape in Hr. destruct (reshape_dims (zlen (dat a)) (inst (if uses_nbf t then nbf else 0) 0 t)) as [s|]; simpl in Hr; [|discriminate].
  inversion Hr. reflexivity.
Qed.

(** wfn_validate refuses only with a validation error *)
Lemma wfn_validate_err w k : wfn_validate w = Err k -> k = Validation.
Proof.
  unfold wfn_validate. destruct (negb (forallb _ (keys w))); [intro H; inversion H; reflexivity|].
  destruct (fold_left (wfn_field w) wfn_fields ([], false)) as [values []]; intro H; inversion H; reflexivity.
Qed.

(** ... so an array whose size does not fit its rule is REJECTED with a validation error *)
Theorem wfn_validate_rejects_misfit w name t d a nbf :
  In (name, FArr (Some t) d) wfn_fields -> dget name w = Some (WArr a) -> dget "basis" w = Some (WBasis nbf) ->
  (forall s, reshape_dims (zlen (dat a)) (inst (if uses_nbf t then nbf else 0) 0 t) <> Ok s) ->
  wfn_validate w = Err Validation.
Proof.
  intros Hin Ea Eb Hno. destruct (wfn_validate w) as [w'|k] eqn:E.
  - exfalso. destruct (wfn_validate_spec w w' E) as [n0 [E0 [E0' _]]]. rewrite Eb in E0. inversion E0; subst n0.
    destruct (wfn_validate_shapes w w' E) as [n1 [E1 F]]. rewrite E0' in E1. inversion E1; subst n1.
    destruct (F name t d a Hin Ea) as [a' [_ [_ Hr]]]. apply (Hno _ Hr).
  - rewrite (wfn_validate_err w k E). reflexivity.
Qed.

(** the rules the generated table attaches, spelled out: matrices nbf x nbf (accepted iff size = nbf*nbf) *)
Corollary wfn_matrix_shape w w' name d a : wfn_validate w = Ok w' ->
  In (name, FArr (Some [DNbf; DNbf]) d) wfn_fields -> dget name w = Some (WArr a) ->
  exists nbf a', dget "basis" w' = Some (WBasis nbf) /\ dget name w' = Some (WArr a') /\ dat a' = dat a
                 /\ shp a' = [nbf; nbf] /\ nbf * nbf = zlen (dat a).
Proof.
  intros H Hin Ea. destruct (wfn_validate_shapes w w' H) as [nbf [Eb F]]. destruct (F name _ d a Hin Ea) as [a' [Ea' [Hd Hr]]].
  exists nbf, a'. split; [exact Eb|]. split; [exact Ea'|]. split; [exact Hd|].
  destruct (reshape_dims_prod _ _ _ Hr) as [Hp Hl].
  cbn [uses_nbf existsb orb inst map dim_val] in Hr.
  destruct (Z.ltb_spec nbf 0) as [Hneg|Hpos].
  - exfalso. unfold reshape_dims in Hr. cbn [filter] in Hr.
    assert (L : (nbf <? 0) = true) by (apply Z.ltb_lt; exact Hneg). rewrite L in Hr. discriminate.
  - assert (Hk : reshape_dims (zlen (dat a)) [nbf; nbf] = if prodz [nbf; nbf] =? zlen (dat a) then Ok [nbf; nbf] else Err PyValueError).
    { unfold reshape_dims. cbn [filter]. assert (L : (nbf <? 0) = false) by (apply Z.ltb_ge; exact Hpos). rewrite L.
      assert (L2 : (0 <=? nbf) = true) by (apply Z.leb_le; exact Hpos). rewrite L2. reflexivity. }
    rewrite Hk in Hr. destruct (prodz [nbf; nbf] =? zlen (dat a)) eqn:Eq; [|discriminate]. inversion Hr.
    split; [reflexivity|]. apply Z.eqb_eq in Eq. simpl in Eq. lia.
Qed.

(** * AtomicResult(...): the public constructor is exactly the four stages under the effective protocols *)
Definition eff_pw (i : ar_in) : string := match a_pw i with Some p => p | None => default_wavefunction end.
Definition eff_ps (i : ar_in) : bool := match a_pstdout i with Some b => b | None => default_stdout end.

Theorem atomic_result_ok_iff i o :
  atomic_result i = Ok o <->
  protocols_ok i = true
  /\ wfn_stage (Some (eff_pw i)) (a_wfn i) = Ok (o_wfn o)
  /\ return_result (a_driver i) (a_rr i) = Ok (o_rr o)
  /\ stdout_protocol (Some (eff_ps i)) (a_stdout i) = Ok (o_stdout o)
  /\ match a_native i with
     | None => o_native o = []
     | Some v => native_protocol (native_policy i) v = Ok (o_native o)
     end.
Proof.
  unfold atomic_result, eff_pw, eff_ps, native_policy. destruct o as [ow orr os on]. cbn [o_wfn o_rr o_stdout o_native].
  destruct (protocols_ok i) eqn:P.
  - destruct (wfn_stage _ (a_wfn i)) as [wv|kw]; destruct (return_result (a_driver i) (a_rr i)) as [rv|kr];
      destruct (stdout_protocol _ (a_stdout i)) as [sv|ks]; destruct (a_native i) as [nv|];
      try (destruct (native_protocol _ nv) as [nn|[]]);
      (split; [intro H; try discriminate; inversion H; repeat split; reflexivity
              |intros [_ [H1 [H2 [H3 H4]]]]; try discriminate; try congruence;
               try (inversion H1; inversion H2; inversion H3; try inversion H4; subst; reflexivity)]).
  - split; [|intros [H _]; discriminate].
    destruct (a_native i); [discriminate|].
    destruct (wfn_stage None (a_wfn i)); destruct (return_result (a_driver i) (a_rr i)); destruct (stdout_protocol None (a_stdout i));
      discriminate.
Qed.

(** the constructor refuses with a validation error — except for the unguarded `values['protocols']` of the native_files
    validator (KeyError when the protocols themselves are invalid and native_files was supplied) *)
Lemma native_protocol_err p (v : ndict) k : native_protocol p v = Err k -> k = Validation.
Proof. unfold native_protocol. destruct (assoc String.eqb p native_table) as [[]|]; intro H; inversion H; reflexivity. Qed.

Ltac split_stages :=
  repeat match goal with
  | |- context [wfn_stage ?a ?b] => destruct (wfn_stage a b)
  | |- context [return_result ?a ?b] => destruct (return_result a b)
  | |- context [stdout_protocol ?a ?b] => destruct (stdout_protocol a b)
  end.

Theorem atomic_result_err i k : atomic_result i = Err k ->
  k = Validation \/ (k = PyKeyError /\ protocols_ok i = false /\ a_native i <> None).
Proof.
  unfold atomic_result. destruct (protocols_ok i) eqn:P.
  - destruct (a_native i) as [nv|].
    + match goal with |- context [native_protocol ?a ?b] => destruct (native_protocol a b) as [nn|kn] eqn:En end.
      * split_stages; intro H; inversion H; left; reflexivity.
      * apply native_protocol_err in En. subst kn. split_stages; intro H; inversion H; left; reflexivity.
    + split_stages; intro H; inversion H; left; reflexivity.
  - destruct (a_native i) as [nv|].
    + intro H; inversion H. right. repeat split. discriminate.
    + split_stages; intro H; inversion H; left; reflexivity.
Qed.

(** What the `wavefunction` of an accepted AtomicResult holds, for EVERY supplied dictionary and protocol setting
    (supplied or default): nothing under `none`; otherwise exactly the keys the documented keep list allows
    (everything minus *_b when restricted under `all`; {restricted, basis} + documented pointers present + their
    targets otherwise), each with the supplied payload (arrays: same elements, reshaped), no *_b key when restricted. *)
Theorem atomic_wfn_kept_exactly i o w :
  atomic_result i = Ok o -> a_wfn i = Some w ->
  (eff_pw i = "none" /\ o_wfn o = None)
  \/ exists r w', dget "restricted" w = Some r /\ r <> WNone /\ o_wfn o = Some w' /\
       let w1 := after_restricted r w in
       match assoc String.eqb (eff_pw i) doc_wfn_keep with
       | Some KeepAll => forall k, is_some (dget k w') = is_some (dget k w1)
       | Some (KeepList l) => forall k, is_some (dget k w') = keptb l w1 k && is_some (dget k w1)
       | _ => False
       end
       /\ (forall k v', dget k w' = Some v' -> exists v, dget k w = Some v /\ same_payload v v')
       /\ (truthy r = true -> forall k, dget k w' <> None -> ends_with "_b" k = false).
Proof.
  intros H Hw. apply atomic_result_ok_iff in H. destruct H as [_ [Hs _]]. rewrite Hw in Hs.
  unfold wfn_stage in Hs. destruct (wfn_pre (Some (eff_pw i)) (Some w)) as [[f|]|] eqn:Ef; simpl in Hs; try discriminate.
  - right. destruct (wfn_validate f) as [w'|] eqn:Ev; simpl in Hs; [|discriminate]. inversion Hs as [Ho]. clear Hs.
    destruct (wfn_kept_exactly _ _ _ Ef) as [r [Hr [Hn [K [P2 P3]]]]]. cbv zeta in K.
    exists r, w'. split; [exact Hr|]. split; [exact Hn|]. split; [reflexivity|]. cbv zeta.
    pose proof (validate_sim f w' Ev) as S. pose proof (wfn_validate_payload f w' Ev) as Pay.
    split; [|split].
    + destruct (assoc String.eqb (eff_pw i) doc_wfn_keep) as [[| |l]|]; try exact K.
      * intro k. rewrite <- (sim_is_some f w' k S), K. reflexivity.
      * intro k. rewrite <- (sim_is_some f w' k S), K. destruct (keptb l (after_restricted r w) k); reflexivity.
    + intros k v' Ek. specialize (Pay k). rewrite Ek in Pay. destruct (dget k f) as [v|] eqn:Ef2; [|contradiction].
      exists v. split; [apply P2; exact Ef2|exact Pay].
    + intros Ht k Hk. apply (P3 Ht k). pose proof (sim_is_some f w' k S) as I. destruct (dget k f); [discriminate|].
      destruct (dget k w'); [discriminate|congruence].
  - left. split; [apply (wfn_pre_none _ _ Ef)|]. inversion Hs. reflexivity.
Qed.

(** no wavefunction supplied: none appears *)
Theorem atomic_wfn_absent i o : atomic_result i = Ok o -> a_wfn i = None -> o_wfn o = None.
Proof.
  intros H Hw. apply atomic_result_ok_iff in H. destruct H as [_ [Hs _]]. rewrite Hw in Hs. simpl in Hs. inversion Hs. reflexivity.
Qed.

(** stdout / native_files / return_result of an accepted AtomicResult, under supplied or default protocols *)
Theorem atomic_other_fields i o : atomic_result i = Ok o ->
  o_stdout o = (if eff_ps i then a_stdout i else None)
  /\ return_result (a_driver i) (a_rr i) = Ok (o_rr o)
  /\ match a_native i with
     | None => o_native o = []
     | Some v => native_protocol (native_policy i) v = Ok (o_native o)
     end.
Proof.
  intro H. apply atomic_result_ok_iff in H. destruct H as [_ [_ [Hr [Hs Hn]]]]. split; [|split; assumption].
  destruct (stdout_spec (a_stdout i)) as [S1 S2]. destruct (eff_ps i); [rewrite S1 in Hs|rewrite S2 in Hs]; inversion Hs; reflexivity.
Qed.

(** * AtomicResultProperties as a whole *)
Lemma prop_field_name natom f f' : prop_field natom f = Ok f' -> fst f' = fst f /\ dat (snd f') = dat (snd f).
Proof.
  unfold prop_field. destruct (prop_lookup (fst f)); [|discriminate].
  destruct (prop_shape (fst f) p natom) as [[dims|]|]; simpl; try discriminate.
  - destruct (reshape (snd f) dims) as [a|[]] eqn:Er; simpl; try discriminate. intro H; inversion H. simpl.
    split; [reflexivity|apply (reshape_data _ _ _ Er)].
  - intro H; inversion H. split; reflexivity.
Qed.

Lemma prop_field_idempotent natom f f' : prop_field natom f = Ok f' -> prop_field natom f' = Ok f'.
Proof.
  unfold prop_field. destruct f as [name a]. cbn [fst snd]. destruct (prop_lookup name) as [k|] eqn:L; [|discriminate].
  destruct (prop_shape name k natom) as [[dims|]|] eqn:S; simpl; try discriminate.
  - destruct (reshape a dims) as [a'|[]] eqn:Er; simpl; try discriminate. intro H; inversion H. subst f'. cbn [fst snd].
    rewrite L, S. simpl. rewrite (reshape_idempotent _ _ _ Er). reflexivity.
  - intro H; inversion H. subst f'. cbn [fst snd]. rewrite L, S. reflexivity.
Qed.

(** the whole object is accepted iff every supplied array field is, and then it holds the field-wise results *)
Theorem props_fields_ok_iff natom fs fs' :
  props_fields natom fs = Ok fs' <-> Forall2 (fun f f' => prop_field natom f = Ok f') fs fs'.
Proof.
  revert fs'. induction fs as [|f r IH]; intro fs'.
  - simpl. split; [intro H; inversion H; constructor|intro H; inversion H; reflexivity].
  - cbn [props_fields]. split.
    + destruct (prop_field natom f) as [f1|k1] eqn:E1; destruct (props_fields natom r) as [r1|k2] eqn:E2.
      * intro H; inversion H. constructor; [exact E1|]. apply IH. reflexivity.
      * destruct k2; discriminate.
      * destruct k1; discriminate.
      * destruct k1, k2; discriminate.
    + intro H. inversion H as [|x y l l' Hx Hl]; subst. rewrite Hx. apply IH in Hl. rewrite Hl. reflexivity.
Qed.

Theorem props_fields_revalidate natom fs fs' : props_fields natom fs = Ok fs' -> props_fields natom fs' = Ok fs'.
Proof.
  intro H. apply props_fields_ok_iff in H. apply props_fields_ok_iff.
  induction H as [|f f' r r' Hf Hr IH]; constructor; [apply (prop_field_idempotent _ _ _ Hf)|exact IH].
Qed.

Theorem props_fields_err natom fs k : props_fields natom fs = Err k -> k = Validation \/ k = PyAssertion.
Proof.
  revert k. induction fs as [|f r IH]; intro k; [discriminate|]. cbn [props_fields].
  destruct (prop_field natom f) as [f1|k1]; destruct (props_fields natom r) as [r1|k2].
  - discriminate.
  - destruct k2; intro H; inversion H; auto.
  - destruct k1; intro H; inversion H; auto.
  - destruct k1, k2; intro H; inversion H; auto.
Qed.
