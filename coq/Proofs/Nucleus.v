(** C06 — proofs about Model/Nucleus.v *)
From Coq Require Import ZArith NArith List Bool String Ascii QArith Qabs Qround Lia Lqa.
Require Import QV.Common.Outcome QV.Gen.PTable QV.Model.Nucleus QV.Proofs.NucleusKeys.
Import ListNotations.
Open Scope list_scope.
Open Scope Z_scope.

(* ------------------------------------------------------------------------------------------ *)
(** * Generic facts about the combinators *)

Lemma obind_ok {A B} (x : outcome A) (f : A -> outcome B) r :
  obind x f = Ok r -> exists a, x = Ok a /\ f a = Ok r.
Proof. destruct x; simpl; intro H; [eexists; split; [reflexivity | exact H] | discriminate]. Qed.

Lemma sval_ok {A} (o : option A) k a : sval o k = Ok a -> o = Some a.
Proof. destruct o; simpl; intro H; [injection H as ->; reflexivity | discriminate]. Qed.

Lemma pick_ok {A T} (ok : T -> A -> bool) exact tests c :
  pick ok exact tests = Ok c -> In c exact /\ forall t, In t tests -> ok t c = true.
Proof.
  unfold pick. intro H. apply sval_ok in H. apply find_some in H. destruct H as [Hin Hall].
  split; [exact Hin|]. intros t Ht. rewrite forallb_forall in Hall. apply Hall, Ht.
Qed.

Lemma mapM_ok {A B} (f : A -> outcome B) l ys :
  mapM f l = Ok ys -> Forall2 (fun x y => f x = Ok y) l ys.
Proof.
  revert ys; induction l as [|x l IH]; intros ys H; simpl in H.
  - injection H as <-. constructor.
  - apply obind_ok in H. destruct H as [y [Hy H]]. apply obind_ok in H. destruct H as [ys' [Hys H]].
    injection H as <-. constructor; [exact Hy | apply IH, Hys].
Qed.

Lemma Forall2_in_l {A B} (R : A -> B -> Prop) l ys x :
  Forall2 R l ys -> In x l -> exists y, In y ys /\ R x y.
Proof.
  induction 1 as [|a b l ys Hab _ IH]; intro Hin; [destruct Hin|].
  destruct Hin as [->|Hin]; [exists b; split; [left; reflexivity | exact Hab]|].
  destruct (IH Hin) as [y [Hy Hr]]. exists y. split; [right; exact Hy | exact Hr].
Qed.

Lemma Forall2_in_r {A B} (R : A -> B -> Prop) l ys y :
  Forall2 R l ys -> In y ys -> exists x, In x l /\ R x y.
Proof.
  induction 1 as [|a b l ys Hab _ IH]; intro Hin; [destruct Hin|].
  destruct Hin as [->|Hin]; [exists a; split; [left; reflexivity | exact Hab]|].
  destruct (IH Hin) as [x [Hx Hr]]. exists x. split; [right; exact Hx | exact Hr].
Qed.

Lemma Forall2_app_inv {A B} (R : A -> B -> Prop) l1 l2 ys1 ys2 :
  Forall2 R l1 ys1 -> Forall2 R l2 ys2 -> Forall2 R (l1 ++ l2) (ys1 ++ ys2).
Proof. induction 1; simpl; auto. Qed.

Lemma assoc_in_fst {B} k (l : list (string * B)) v : assoc k l = Some v -> In k (map fst l).
Proof.
  induction l as [|[k' v'] l IH]; simpl; [discriminate|].
  destruct (String.eqb k k') eqn:E; intro H.
  - apply String.eqb_eq in E. left. symmetry. exact E.
  - right. apply IH, H.
Qed.
Lemma assoc_in_snd {B} k (l : list (string * B)) v : assoc k l = Some v -> In v (map snd l).
Proof.
  induction l as [|[k' v'] l IH]; simpl; [discriminate|].
  destruct (String.eqb k k'); intro H.
  - injection H as ->. left. reflexivity.
  - right. apply IH, H.
Qed.
Lemma zassoc_in_fst {B} k (l : list (Z * B)) v : zassoc k l = Some v -> In k (map fst l).
Proof.
  induction l as [|[k' v'] l IH]; simpl; [discriminate|].
  destruct (k =? k') eqn:E; intro H.
  - apply Z.eqb_eq in E. left. symmetry. exact E.
  - right. apply IH, H.
Qed.
Lemma zassoc_in_snd {B} k (l : list (Z * B)) v : zassoc k l = Some v -> In v (map snd l).
Proof.
  induction l as [|[k' v'] l IH]; simpl; [discriminate|].
  destruct (k =? k'); intro H.
  - injection H as ->. left. reflexivity.
  - right. apply IH, H.
Qed.

(* ------------------------------------------------------------------------------------------ *)
(** * Rational comparisons *)

Lemma Qlt_b_true x y : Qlt_b x y = true <-> (x < y)%Q.
Proof.
  unfold Qlt_b. rewrite negb_true_iff. split; intro H.
  - apply Qnot_le_lt. intro L. apply Qle_bool_iff in L. congruence.
  - destruct (Qle_bool y x) eqn:E; [|reflexivity]. apply Qle_bool_iff in E. exfalso. apply (Qlt_not_le _ _ H E).
Qed.
Lemma Qlt_b_false x y : Qlt_b x y = false <-> (y <= x)%Q.
Proof.
  unfold Qlt_b. rewrite negb_false_iff. apply Qle_bool_iff.
Qed.

Lemma qmin_le_all l d : (qmin l d <= d)%Q /\ forall x, In x l -> (qmin l d <= x)%Q.
Proof.
  unfold qmin. revert d; induction l as [|a l IH]; intro d; simpl.
  - split; [apply Qle_refl | intros x []].
  - destruct (Qle_bool d a) eqn:E.
    + apply Qle_bool_iff in E. destruct (IH d) as [H1 H2]. split; [exact H1|].
      intros x [<-|Hx]; [eapply Qle_trans; eassumption | apply H2, Hx].
    + assert (L : (a <= d)%Q). { apply Qlt_le_weak. apply Qnot_le_lt. intro L. apply Qle_bool_iff in L. congruence. }
      destruct (IH a) as [H1 H2]. split; [eapply Qle_trans; eassumption|].
      intros x [<-|Hx]; [exact H1 | apply H2, Hx].
Qed.
Lemma qmax_ge_all l d : (d <= qmax l d)%Q /\ forall x, In x l -> (x <= qmax l d)%Q.
Proof.
  unfold qmax. revert d; induction l as [|a l IH]; intro d; simpl.
  - split; [apply Qle_refl | intros x []].
  - destruct (Qle_bool d a) eqn:E.
    + apply Qle_bool_iff in E. destruct (IH a) as [H1 H2]. split; [eapply Qle_trans; eassumption|].
      intros x [<-|Hx]; [exact H1 | apply H2, Hx].
    + assert (L : (a <= d)%Q). { apply Qlt_le_weak. apply Qnot_le_lt. intro L. apply Qle_bool_iff in L. congruence. }
      destruct (IH d) as [H1 H2]. split; [exact H1|].
      intros x [<-|Hx]; [eapply Qle_trans; eassumption | apply H2, Hx].
Qed.
Lemma qmin_in l d : In (qmin l d) (d :: l).
Proof.
  unfold qmin. revert d; induction l as [|a l IH]; intro d; simpl; [left; reflexivity|].
  destruct (Qle_bool d a); [destruct (IH d) as [H|H]; [left; exact H | right; right; exact H]
                           | destruct (IH a) as [H|H]; [right; left; exact H | right; right; exact H]].
Qed.
Lemma qmax_in l d : In (qmax l d) (d :: l).
Proof.
  unfold qmax. revert d; induction l as [|a l IH]; intro d; simpl; [left; reflexivity|].
  destruct (Qle_bool d a); [destruct (IH a) as [H|H]; [right; left; exact H | right; right; exact H]
                           | destruct (IH d) as [H|H]; [left; exact H | right; right; exact H]].
Qed.

(** what the physical mass window of an element means *)
Lemma mass_range_spec e lo hi :
  mass_range e = Some (lo, hi) ->
  (forall a m, In (a, m) (el2a2mass e) -> (lo <= m <= hi)%Q) /\
  (exists a, In (a, lo) (el2a2mass e)) /\ (exists a, In (a, hi) (el2a2mass e)).
Proof.
  unfold mass_range. destruct (map snd (el2a2mass e)) as [|m0 vs] eqn:E; [discriminate|].
  intro H. injection H as <- <-.
  destruct (qmin_le_all vs m0) as [L1 L2]. destruct (qmax_ge_all vs m0) as [U1 U2].
  assert (Hin : forall m, In m (m0 :: vs) -> exists a, In (a, m) (el2a2mass e)).
  { intros m Hm. rewrite <- E in Hm. apply in_map_iff in Hm. destruct Hm as [[a m'] [<- Hm]]. exists a. exact Hm. }
  split; [|split].
  - intros a m Hm. assert (Hm' : In m (m0 :: vs)) by (rewrite <- E; apply in_map_iff; exists (a, m); auto).
    destruct Hm' as [<-|Hm']; split; auto.
  - apply Hin, qmin_in.
  - apply Hin, qmax_in.
Qed.

(* ------------------------------------------------------------------------------------------ *)
(** * Facts about the shipped table (finite, by computation) *)

Definition tf_z (z : Z) : bool :=
  match zassoc z t_z2el with
  | None => true
  | Some k =>
      match assoc k t_eliso2el, assoc k t_eliso2mass, assoc k t_eliso2a, key_range k, mass_range k with
      | Some el, Some zm, Some za, Some kr, Some mr =>
          String.eqb el k && existsb (String.eqb k) pt_E
          && match assoc k t_el2z with Some z' => z' =? z | None => false end
          && match nuclide_mass k za with Ok t => Qeq_bool t zm | Err _ => false end
          && (fst kr <=? za) && (za <=? snd kr) && (0 <=? za)
          && Qle_bool (fst mr) zm && Qle_bool zm (snd mr)
          && match to_Z_strict k with Ok z' => z' =? z | Err _ => false end
      | _, _, _, _, _ => false
      end
  end.

Lemma table_z_all : forallb tf_z pt_Z = true.
Proof. vm_compute. reflexivity. Qed.

Lemma z2el_keys : map fst t_z2el = pt_Z.
Proof. vm_compute. reflexivity. Qed.
Lemma z2el_vals : map snd t_z2el = pt_E.
Proof. vm_compute. reflexivity. Qed.
Lemma element2el_vals : map snd t_element2el = pt_E.
Proof. vm_compute. reflexivity. Qed.

Lemma table_z z k : zassoc z t_z2el = Some k -> tf_z z = true.
Proof.
  intro H. apply zassoc_in_fst in H. rewrite z2el_keys in H.
  pose proof table_z_all as T. rewrite forallb_forall in T. apply T, H.
Qed.

Definition tf_e (k : string) : bool :=
  match assoc k t_eliso2el with
  | Some el => match assoc el t_el2z with
               | Some z => match zassoc z t_z2el with Some k' => String.eqb k' k | None => false end
               | None => false end
  | None => false
  end && match assoc k t_eliso2mass with Some _ => true | None => false end.

Lemma table_e_all : forallb tf_e pt_E = true.
Proof. vm_compute. reflexivity. Qed.

Lemma table_e k : In k pt_E -> tf_e k = true.
Proof. pose proof table_e_all as T. rewrite forallb_forall in T. apply T. Qed.

(* ------------------------------------------------------------------------------------------ *)
(** * offer_atomic_number *)

Record zfacts (np : bool) (info : zinfo) : Prop := {
  zf_E : to_E_int (zi_z info) = Ok (zi_E info);
  zf_m : to_mass_int (zi_z info) = Ok (zi_m info);
  zf_a : to_A_int (zi_z info) = Ok (zi_a info);
  zf_at : exists lo hi, key_range (zi_E info) = Some (lo, hi) /\ zi_at info = if np then ANonphys else ARange lo hi;
  zf_mt : exists lo hi, mass_range (zi_E info) = Some (lo, hi) /\ zi_mt info = if np then MNonphys else MRange lo hi
}.

Lemma offer_atomic_number_ok np z info : offer_atomic_number np z = Ok info -> zi_z info = z /\ zfacts np info.
Proof.
  unfold offer_atomic_number. intro H.
  apply obind_ok in H. destruct H as [sym [H1 H]].
  apply obind_ok in H. destruct H as [zm [H2 H]].
  apply obind_ok in H. destruct H as [za [H3 H]].
  apply obind_ok in H. destruct H as [[klo khi] [H4 H]]. apply sval_ok in H4.
  apply obind_ok in H. destruct H as [[mlo mhi] [H5 H]]. apply sval_ok in H5.
  injection H as <-. split; [reflexivity|]. constructor; simpl; auto.
  - exists klo, khi. auto.
  - exists mlo, mhi. auto.
Qed.

Lemma offer_atomic_number_det np z a b : offer_atomic_number np z = Ok a -> offer_atomic_number np z = Ok b -> a = b.
Proof. congruence. Qed.

Definition zclue_agrees (c : zclue) (zf : Z) : Prop :=
  match c with ZNum z => z = zf | ZSym e => to_Z_strict e = Ok zf end.

Lemma offer_z_ok np c info : offer_z np c = Ok info ->
  offer_atomic_number np (zi_z info) = Ok info /\ zclue_agrees c (zi_z info).
Proof.
  destruct c as [z|e]; simpl; intro H.
  - destruct (offer_atomic_number_ok _ _ _ H) as [E _]. rewrite E. auto.
  - apply obind_ok in H. destruct H as [z [Hz H]].
    destruct (offer_atomic_number_ok _ _ _ H) as [E _]. rewrite E. subst z. auto.
Qed.

(* ------------------------------------------------------------------------------------------ *)
(** * The second round of clues *)

Definition clue_agrees (e : string) (tol : Q) (o : nuc_out) (c : clue) : Prop :=
  match c with
  | CA a => oA o = a /\ exists am, nuclide_mass e a = Ok am /\ (Qabs (omass o - am) <= tol)%Q
  | CM m => (omass o == m)%Q /\ oA o = mass_number_of e tol m
  | CR b => oreal o = b
  | CU s => ouser o = lower s
  end.

Lemma in_flat_map_intro {A B} (f : A -> list B) l x y : In x l -> In y (f x) -> In y (flat_map f l).
Proof. intros. apply in_flat_map. eauto. Qed.

Lemma beqb_true a b : beqb a b = true -> a = b.
Proof. unfold beqb. apply Bool.eqb_prop. Qed.

(** the whole of [reconcile], opened up *)
Record run (i : nuc_in) (o : nuc_out) (r_lbl : option label_fields) (r_info : zinfo) (r_zi : list zinfo)
           (r_ci : list cinfo) : Prop := {
  r_parse : parse_stage i = Ok r_lbl;
  r_zi_ne : r_zi <> [];
  r_zi_all : forall x, In x r_zi -> x = r_info;
  r_offer : offer_atomic_number (nonphysical i) (oZ o) = Ok r_info;
  r_zclues : forall c, In c (zclues_args i ++ zclues_label r_lbl) -> zclue_agrees c (oZ o);
  r_E : to_E_int (oZ o) = Ok (oE o);
  r_c2 : Forall2 (fun c y => offer_c (oE o) (mtol i) c = Ok y) (clues i r_lbl) r_ci;
  r_m_in : In (omass o) (map zi_m r_zi ++ flat_map ci_mx r_ci);
  r_m_ok : forall t, In t (map zi_mt r_zi ++ flat_map ci_mt r_ci) -> m_ok (mtol i) t (omass o) = true;
  r_a_in : In (oA o) (map zi_a r_zi ++ flat_map ci_ax r_ci);
  r_a_ok : forall t, In t (map zi_at r_zi ++ flat_map ci_at r_ci) -> a_ok t (oA o) = true;
  r_r_in : In (oreal o) (true :: flat_map ci_r r_ci);
  r_r_ok : forall t, In t (flat_map ci_r r_ci) -> oreal o = t;
  r_l_in : In (ouser o) (EmptyString :: flat_map ci_l r_ci);
  r_l_ok : forall t, In t (flat_map ci_l r_ci) -> ouser o = t
}.

Lemma reconcile_run i o : reconcile i = Ok o -> exists lbl info zi ci, run i o lbl info zi ci.
Proof.
  unfold reconcile. intro H.
  apply obind_ok in H. destruct H as [zi1 [H1 H]].
  apply obind_ok in H. destruct H as [lbl [Hl H]].
  apply obind_ok in H. destruct H as [zi2 [H2 H]].
  apply obind_ok in H. destruct H as [zf [Hz H]].
  apply obind_ok in H. destruct H as [ef [He H]].
  apply obind_ok in H. destruct H as [ci [Hc H]].
  apply obind_ok in H. destruct H as [mf [Hm H]].
  apply obind_ok in H. destruct H as [af [Ha H]].
  apply obind_ok in H. destruct H as [rf [Hr H]].
  apply obind_ok in H. destruct H as [lf [Hlf H]].
  injection H as <-. simpl.
  apply mapM_ok in H1. apply mapM_ok in H2. apply mapM_ok in Hc.
  pose proof (Forall2_app_inv _ _ _ _ _ H1 H2) as H12.
  apply pick_ok in Hz. destruct Hz as [Hzin Hzall].
  apply pick_ok in Hm. destruct Hm as [Hmin Hmall].
  apply pick_ok in Ha. destruct Ha as [Hain Haall].
  apply pick_ok in Hr. destruct Hr as [Hrin Hrall].
  apply pick_ok in Hlf. destruct Hlf as [Hlin Hlall].
  (* every offered atomic number is the reconciled one *)
  assert (Hall : forall x, In x (zi1 ++ zi2) -> zi_z x = zf).
  { intros x Hx. symmetry. apply Z.eqb_eq. apply Hzall. apply in_map. exact Hx. }
  apply in_map_iff in Hzin. destruct Hzin as [info0 [Hi0 Hin0]].
  destruct (Forall2_in_r _ _ _ _ H12 Hin0) as [c0 [_ Hoff0]].
  apply offer_z_ok in Hoff0. destruct Hoff0 as [Hoff0 _]. rewrite Hi0 in Hoff0.
  exists lbl, info0, (zi1 ++ zi2), ci. constructor; simpl; auto.
  - intro E. rewrite E in Hin0. destruct Hin0.
  - intros x Hx. destruct (Forall2_in_r _ _ _ _ H12 Hx) as [c [_ Hoff]].
    apply offer_z_ok in Hoff. destruct Hoff as [Hoff _]. rewrite (Hall x Hx) in Hoff. congruence.
  - intros c Hc'. destruct (Forall2_in_l _ _ _ _ H12 Hc') as [y [Hy Hoff]].
    apply offer_z_ok in Hoff. destruct Hoff as [_ Hag]. rewrite (Hall y Hy) in Hag. exact Hag.
  - intros t Ht. apply beqb_true. apply Hrall, Ht.
  - intros t Ht. apply String.eqb_eq. apply Hlall, Ht.
Qed.

(** every clue of the second round agrees with the result *)
Lemma run_clue i o lbl info zi ci (R : run i o lbl info zi ci) c :
  In c (clues i lbl) -> clue_agrees (oE o) (mtol i) o c.
Proof.
  intro Hc. destruct (Forall2_in_l _ _ _ _ (r_c2 _ _ _ _ _ _ R) Hc) as [y [Hy Hoff]].
  destruct c as [a|m|b|s]; simpl in Hoff |- *.
  - apply obind_ok in Hoff. destruct Hoff as [am [Ham Hoff]]. injection Hoff as <-.
    split.
    + apply Z.eqb_eq. apply (r_a_ok _ _ _ _ _ _ R (AEq a)). apply in_or_app. right.
      eapply in_flat_map_intro; [exact Hy | left; reflexivity].
    + exists am. split; [exact Ham|]. apply Qle_bool_iff.
      apply (r_m_ok _ _ _ _ _ _ R (MNear am)). apply in_or_app. right.
      eapply in_flat_map_intro; [exact Hy | left; reflexivity].
  - injection Hoff as <-. split.
    + apply Qeq_bool_iff. apply (r_m_ok _ _ _ _ _ _ R (MEq m)). apply in_or_app. right.
      eapply in_flat_map_intro; [exact Hy | left; reflexivity].
    + apply Z.eqb_eq. apply (r_a_ok _ _ _ _ _ _ R (AEq _)). apply in_or_app. right.
      eapply in_flat_map_intro; [exact Hy | left; reflexivity].
  - injection Hoff as <-. apply (r_r_ok _ _ _ _ _ _ R). eapply in_flat_map_intro; [exact Hy | left; reflexivity].
  - injection Hoff as <-. apply (r_l_ok _ _ _ _ _ _ R). eapply in_flat_map_intro; [exact Hy | left; reflexivity].
Qed.

(* ------------------------------------------------------------------------------------------ *)
(** * Consequences of the table facts *)

Opaque t_z2el t_eliso2el t_eliso2mass t_eliso2a t_el2z t_element2el t_el2a2mass t_rows pt_E pt_Z pt_EA pt_massQ.

Lemma to_E_int_inv z e : to_E_int z = Ok e -> exists k, zassoc z t_z2el = Some k /\ assoc k t_eliso2el = Some e.
Proof.
  unfold to_E_int, resolve_int. intro H. apply obind_ok in H. destruct H as [k [H1 H2]].
  apply sval_ok in H1. apply sval_ok in H2. eauto.
Qed.

Lemma z_table z e : to_E_int z = Ok e ->
  exists zm za lo hi mlo mhi,
    to_mass_int z = Ok zm /\ to_A_int z = Ok za /\ key_range e = Some (lo, hi) /\ mass_range e = Some (mlo, mhi) /\
    In e pt_E /\ assoc e t_el2z = Some z /\ zassoc z t_z2el = Some e /\
    (exists t, nuclide_mass e za = Ok t /\ (t == zm)%Q) /\
    lo <= za <= hi /\ 0 <= za /\ (mlo <= zm <= mhi)%Q /\ to_Z_strict e = Ok z.
Proof.
  intro H. destruct (to_E_int_inv _ _ H) as [k [Hk He]].
  pose proof (table_z _ _ Hk) as T. unfold tf_z in T. rewrite Hk, He in T.
  destruct (assoc k t_eliso2mass) as [zm|] eqn:Em; [|discriminate].
  destruct (assoc k t_eliso2a) as [za|] eqn:Ea; [|discriminate].
  destruct (key_range k) as [[lo hi]|] eqn:Ek; [|discriminate].
  destruct (mass_range k) as [[mlo mhi]|] eqn:Er; [|discriminate].
  repeat (apply andb_true_iff in T; destruct T as [T ?]).
  apply String.eqb_eq in T. subst e.
  destruct (assoc k t_el2z) as [z'|] eqn:Ez; [|discriminate].
  destruct (nuclide_mass k za) as [t|] eqn:En; [|discriminate].
  destruct (to_Z_strict k) as [z''|] eqn:Ezs; [|discriminate].
  match goal with [ Hx : (z'' =? z) = true |- _ ] => apply Z.eqb_eq in Hx; subst z'' end.
  exists zm, za, lo, hi, mlo, mhi.
  unfold to_mass_int, to_A_int, resolve_int. rewrite Hk. cbn [obind sval]. rewrite Em, Ea. cbn [sval fst snd] in *.
  repeat match goal with [ Hx : Z.leb _ _ = true |- _ ] => apply Z.leb_le in Hx end.
  repeat match goal with [ Hx : Qle_bool _ _ = true |- _ ] => apply Qle_bool_iff in Hx end.
  match goal with [ Hx : Qeq_bool _ _ = true |- _ ] => apply Qeq_bool_iff in Hx end.
  match goal with [ Hx : Z.eqb z' _ = true |- _ ] => apply Z.eqb_eq in Hx; subst z' end.
  match goal with [ Hx : existsb _ pt_E = true |- _ ] => apply existsb_exists in Hx; destruct Hx as [x [Hx1 Hx2]];
      apply String.eqb_eq in Hx2; subst x end.
  repeat split; auto. exists t. split; [exact En | assumption].
Qed.

(* ------------------------------------------------------------------------------------------ *)
(** * Soundness *)

Lemma flat_map_nil_by {A B C} (R : A -> B -> Prop) (P : A -> Prop) (f : B -> list C) cs ci :
  Forall2 R cs ci -> (forall c y, R c y -> P c -> f y = []) -> (forall c, In c cs -> P c) -> flat_map f ci = [].
Proof.
  induction 1 as [|c y cs ci Hr _ IH]; intros Hf Hp; simpl; [reflexivity|].
  rewrite (Hf c y Hr (Hp c (or_introl eq_refl))). simpl. apply IH; [exact Hf|]. intros c' Hc'. apply Hp. right. exact Hc'.
Qed.

Definition is_CA (c : clue) : bool := match c with CA _ => true | _ => false end.
Definition is_CM (c : clue) : bool := match c with CM _ => true | _ => false end.
Definition is_CR (c : clue) : bool := match c with CR _ => true | _ => false end.
Definition is_CU (c : clue) : bool := match c with CU _ => true | _ => false end.

Lemma existsb_false_forall {A} (p : A -> bool) l : existsb p l = false -> forall x, In x l -> p x = false.
Proof.
  induction l as [|a l IH]; simpl; intros H x Hx; [destruct Hx|].
  apply orb_false_iff in H. destruct H as [H1 H2]. destruct Hx as [<-|Hx]; auto.
Qed.

Lemma mass_number_of_spec e tol m :
  mass_number_of e tol m = -1 \/
  exists t, nuclide_mass e (mass_number_of e tol m) = Ok t /\ (Qabs (t - m) <= tol)%Q /\ mass_number_of e tol m = round_half_even m.
Proof.
  unfold mass_number_of. destruct (nuclide_mass e (round_half_even m)) as [t|] eqn:E; [|left; reflexivity].
  destruct (Qlt_b tol (Qabs (t - m))) eqn:L; [left; reflexivity|]. right.
  exists t. split; [exact E|]. split; [apply Qlt_b_false; exact L | reflexivity].
Qed.

Definition nuclide_ok (e : string) (tol : Q) (a : Z) (m : Q) : Prop :=
  a = -1 \/ exists t, nuclide_mass e a = Ok t /\ ((t == m)%Q \/ (Qabs (t - m) <= tol)%Q).

Lemma Qabs_sym_minus x y : (Qabs (x - y) == Qabs (y - x))%Q.
Proof. rewrite <- (Qabs_opp (x - y)). apply Qabs_wd. ring. Qed.

Lemma run_nuclide i o lbl info zi ci : run i o lbl info zi ci -> nuclide_ok (oE o) (mtol i) (oA o) (omass o).
Proof.
  intro R. pose proof (run_clue _ _ _ _ _ _ R) as Hcl.
  destruct (existsb is_CA (clues i lbl)) eqn:EA.
  { apply existsb_exists in EA. destruct EA as [c [Hc Hk]]. destruct c as [a| | |]; try discriminate.
    destruct (Hcl _ Hc) as [Ha [am [Ham Hlt]]]. right. exists am. rewrite Ha. split; [exact Ham|]. right.
    rewrite Qabs_sym_minus. exact Hlt. }
  destruct (existsb is_CM (clues i lbl)) eqn:EM.
  { apply existsb_exists in EM. destruct EM as [c [Hc Hk]]. destruct c as [|m| |]; try discriminate.
    destruct (Hcl _ Hc) as [Hm Ha]. destruct (mass_number_of_spec (oE o) (mtol i) m) as [Hs|[t [Ht [Hle _]]]].
    - left. congruence.
    - right. exists t. rewrite Ha. split; [exact Ht|]. right. rewrite Hm. exact Hle. }
  (* neither a mass number nor a mass was offered: the defaults of the element *)
  pose proof (existsb_false_forall _ _ EA) as NA. pose proof (existsb_false_forall _ _ EM) as NM.
  assert (Eax : flat_map ci_ax ci = []).
  { apply (flat_map_nil_by _ (fun c => is_CA c = false /\ is_CM c = false) _ _ _ (r_c2 _ _ _ _ _ _ R)).
    - intros c y Hoff [H1 H2]. destruct c; simpl in *; try discriminate; injection Hoff as <-; reflexivity.
    - intros c Hc. split; auto. }
  assert (Emx : flat_map ci_mx ci = []).
  { apply (flat_map_nil_by _ (fun c => is_CA c = false /\ is_CM c = false) _ _ _ (r_c2 _ _ _ _ _ _ R)).
    - intros c y Hoff [H1 H2]. destruct c; simpl in *; try discriminate; injection Hoff as <-; reflexivity.
    - intros c Hc. split; auto. }
  pose proof (r_a_in _ _ _ _ _ _ R) as Ain. pose proof (r_m_in _ _ _ _ _ _ R) as Min.
  rewrite Eax, app_nil_r in Ain. rewrite Emx, app_nil_r in Min.
  apply in_map_iff in Ain. destruct Ain as [x [Hx Hxin]]. rewrite (r_zi_all _ _ _ _ _ _ R x Hxin) in Hx.
  apply in_map_iff in Min. destruct Min as [x' [Hx' Hxin']]. rewrite (r_zi_all _ _ _ _ _ _ R x' Hxin') in Hx'.
  destruct (offer_atomic_number_ok _ _ _ (r_offer _ _ _ _ _ _ R)) as [Ez F].
  destruct (z_table _ _ (r_E _ _ _ _ _ _ R)) as (zm & za & lo & hi & mlo & mhi & Tm & Ta & _ & _ & _ & _ & _ & [t [Tn Tq]] & _).
  pose proof (zf_m _ _ F) as Fm. pose proof (zf_a _ _ F) as Fa. rewrite Ez in Fm, Fa.
  assert (za = oA o) by congruence. assert (zm = omass o) by congruence. subst za zm.
  right. exists t. split; [exact Tn | left; exact Tq].
Qed.

Lemma run_default i o lbl info zi ci : run i o lbl info zi ci ->
  (forall c, In c (clues i lbl) -> is_CA c = false /\ is_CM c = false) ->
  to_A_int (oZ o) = Ok (oA o) /\ to_mass_int (oZ o) = Ok (omass o).
Proof.
  intros R Hn.
  assert (Eax : flat_map ci_ax ci = []).
  { apply (flat_map_nil_by _ (fun c => is_CA c = false /\ is_CM c = false) _ _ _ (r_c2 _ _ _ _ _ _ R)); [|exact Hn].
    intros c y Hoff [H1 H2]. destruct c; simpl in *; try discriminate; injection Hoff as <-; reflexivity. }
  assert (Emx : flat_map ci_mx ci = []).
  { apply (flat_map_nil_by _ (fun c => is_CA c = false /\ is_CM c = false) _ _ _ (r_c2 _ _ _ _ _ _ R)); [|exact Hn].
    intros c y Hoff [H1 H2]. destruct c; simpl in *; try discriminate; injection Hoff as <-; reflexivity. }
  pose proof (r_a_in _ _ _ _ _ _ R) as Ain. pose proof (r_m_in _ _ _ _ _ _ R) as Min.
  rewrite Eax, app_nil_r in Ain. rewrite Emx, app_nil_r in Min.
  apply in_map_iff in Ain. destruct Ain as [x [Hx Hxin]]. rewrite (r_zi_all _ _ _ _ _ _ R x Hxin) in Hx.
  apply in_map_iff in Min. destruct Min as [x' [Hx' Hxin']]. rewrite (r_zi_all _ _ _ _ _ _ R x' Hxin') in Hx'.
  destruct (offer_atomic_number_ok _ _ _ (r_offer _ _ _ _ _ _ R)) as [Ez F].
  pose proof (zf_m _ _ F) as Fm. pose proof (zf_a _ _ F) as Fa. rewrite Ez in Fm, Fa. split; congruence.
Qed.

Lemma run_range i o lbl info zi ci : run i o lbl info zi ci ->
  (nonphysical i = false -> exists lo hi, mass_range (oE o) = Some (lo, hi) /\ (lo - (1#2) <= omass o <= hi + (1#2))%Q) /\
  (nonphysical i = true -> ((1#2) < omass o)%Q).
Proof.
  intro R. destruct (offer_atomic_number_ok _ _ _ (r_offer _ _ _ _ _ _ R)) as [Ez F].
  destruct (zf_mt _ _ F) as [lo [hi [Hr Ht]]].
  assert (EE : zi_E info = oE o).
  { pose proof (zf_E _ _ F) as FE. rewrite Ez in FE. pose proof (r_E _ _ _ _ _ _ R). congruence. }
  rewrite EE in Hr.
  assert (Hin : In info zi).
  { destruct zi as [|x zi']; [exfalso; apply (r_zi_ne _ _ _ _ _ _ R); reflexivity|].
    left. apply (r_zi_all _ _ _ _ _ _ R). left. reflexivity. }
  assert (Hok : m_ok (mtol i) (zi_mt info) (omass o) = true).
  { apply (r_m_ok _ _ _ _ _ _ R). apply in_or_app. left. apply in_map. exact Hin. }
  rewrite Ht in Hok. split; intro Hnp; rewrite Hnp in Hok; simpl in Hok.
  - exists lo, hi. split; [exact Hr|]. apply andb_true_iff in Hok. destruct Hok as [H1 H2].
    apply Qle_bool_iff in H1. apply Qle_bool_iff in H2. unfold mmtol in *. split; assumption.
  - apply Qlt_b_true in Hok. exact Hok.
Qed.

Record Sound (i : nuc_in) (o : nuc_out) : Prop := {
  s_table : to_E_int (oZ o) = Ok (oE o);
  s_Z : forall z, nZ i = Some z -> oZ o = z;
  s_E : forall e, nE i = Some e -> to_Z_strict e = Ok (oZ o);
  s_A : forall a, nA i = Some a ->
        oA o = a /\ exists am, nuclide_mass (oE o) a = Ok am /\ (Qabs (omass o - am) <= mtol i)%Q;
  s_mass : forall m, nmass i = Some m -> (omass o == m)%Q;
  s_real : forall b, nreal i = Some b -> oreal o = b;
  s_label : forall s, nlabel i = Some s -> speclabel i = true ->
     exists f, parse_label s = Ok f /\
       (forall z, lZ f = Some z -> oZ o = z) /\ (forall e, lE f = Some e -> to_Z_strict e = Ok (oZ o)) /\
       (forall a, lA f = Some a -> oA o = a /\ exists am, nuclide_mass (oE o) a = Ok am /\ (Qabs (omass o - am) <= mtol i)%Q) /\
       (forall m, lmass f = Some m -> (omass o == m)%Q) /\
       oreal o = lreal f /\ ouser o = match luser f with Some u => lower u | None => EmptyString end;
  s_tag : forall s, nlabel i = Some s -> speclabel i = false -> ouser o = lower s;
  s_notag : nlabel i = None -> ouser o = EmptyString;
  s_real_default : nreal i = None -> (nlabel i = None \/ speclabel i = false) -> oreal o = true;
  s_nuclide : nuclide_ok (oE o) (mtol i) (oA o) (omass o);
  s_phys : nonphysical i = false ->
           exists lo hi, mass_range (oE o) = Some (lo, hi) /\ (lo - (1#2) <= omass o <= hi + (1#2))%Q;
  s_nonphys : nonphysical i = true -> ((1#2) < omass o)%Q
}.

Lemma in_opt {A B} (f : A -> B) o a : o = Some a -> In (f a) (opt f o).
Proof. intros ->. left. reflexivity. Qed.

Lemma no_CU_user i o lbl info zi ci : run i o lbl info zi ci ->
  (forall c, In c (clues i lbl) -> is_CU c = false) -> ouser o = EmptyString.
Proof.
  intros R Hn.
  assert (E : flat_map ci_l ci = []).
  { apply (flat_map_nil_by _ (fun c => is_CU c = false) _ _ _ (r_c2 _ _ _ _ _ _ R)); [|exact Hn].
    intros c y Hoff H1. destruct c; simpl in *; try discriminate; try (injection Hoff as <-; reflexivity).
    apply obind_ok in Hoff. destruct Hoff as [? [_ Hoff]]. injection Hoff as <-. reflexivity. }
  pose proof (r_l_in _ _ _ _ _ _ R) as Hin. rewrite E in Hin. destruct Hin as [<-|[]]. reflexivity.
Qed.

Lemma no_CR_real i o lbl info zi ci : run i o lbl info zi ci ->
  (forall c, In c (clues i lbl) -> is_CR c = false) -> oreal o = true.
Proof.
  intros R Hn.
  assert (E : flat_map ci_r ci = []).
  { apply (flat_map_nil_by _ (fun c => is_CR c = false) _ _ _ (r_c2 _ _ _ _ _ _ R)); [|exact Hn].
    intros c y Hoff H1. destruct c; simpl in *; try discriminate; try (injection Hoff as <-; reflexivity).
    apply obind_ok in Hoff. destruct Hoff as [? [_ Hoff]]. injection Hoff as <-. reflexivity. }
  pose proof (r_r_in _ _ _ _ _ _ R) as Hin. rewrite E in Hin. destruct Hin as [<-|[]]. reflexivity.
Qed.

Lemma in_opt_inv {A B} (f : A -> B) o y : In y (opt f o) -> exists a, o = Some a /\ y = f a.
Proof. destruct o; simpl; [intros [<-|[]]; eauto | intros []]. Qed.

Theorem reconcile_sound i o : reconcile i = Ok o -> Sound i o.
Proof.
  intro H. destruct (reconcile_run _ _ H) as (lbl & info & zi & ci & R).
  pose proof (run_clue _ _ _ _ _ _ R) as Hcl.
  pose proof (r_zclues _ _ _ _ _ _ R) as Hzc.
  pose proof (r_parse _ _ _ _ _ _ R) as Hp.
  destruct (run_range _ _ _ _ _ _ R) as [Hph Hnp].
  constructor.
  - exact (r_E _ _ _ _ _ _ R).
  - intros z Hz. symmetry. apply (Hzc (ZNum z)). apply in_or_app. left. unfold zclues_args. apply in_or_app. left. apply in_opt, Hz.
  - intros e He. apply (Hzc (ZSym e)). apply in_or_app. left. unfold zclues_args. apply in_or_app. right. apply in_opt, He.
  - intros a Ha. apply (Hcl (CA a)). unfold clues. apply in_or_app. left. apply in_opt, Ha.
  - intros m Hm. apply (Hcl (CM m)). unfold clues. apply in_or_app. right. apply in_or_app. left. apply in_opt, Hm.
  - intros b Hb. apply (Hcl (CR b)). unfold clues. apply in_or_app. right. apply in_or_app. right. apply in_or_app. left. apply in_opt, Hb.
  - intros s Hs Hsp. unfold parse_stage in Hp. rewrite Hs, Hsp in Hp.
    apply obind_ok in Hp. destruct Hp as [f [Hf Hp]]. injection Hp as <-.
    exists f. split; [exact Hf|].
    assert (Hlab : forall c, In c ([CR (lreal f)] ++ opt CA (lA f) ++ opt CM (lmass f) ++ opt CU (luser f)) -> In c (clues i (Some f))).
    { intros c Hc. unfold clues. rewrite Hs, Hsp. apply in_or_app. right. apply in_or_app. right. apply in_or_app. right. exact Hc. }
    split; [|split; [|split; [|split; [|split]]]].
    + intros z Hz. symmetry. apply (Hzc (ZNum z)). apply in_or_app. right. simpl. apply in_or_app. left. apply in_opt, Hz.
    + intros e He. apply (Hzc (ZSym e)). apply in_or_app. right. simpl. apply in_or_app. right. apply in_opt, He.
    + intros a Ha. apply (Hcl (CA a)). apply Hlab. apply in_or_app. right. apply in_or_app. left. apply in_opt, Ha.
    + intros m Hm. apply (Hcl (CM m)). apply Hlab. apply in_or_app. right. apply in_or_app. right. apply in_or_app. left. apply in_opt, Hm.
    + apply (Hcl (CR (lreal f))). apply Hlab. left. reflexivity.
    + destruct (luser f) as [u|] eqn:Eu.
      * apply (Hcl (CU u)). apply Hlab. apply in_or_app. right. apply in_or_app. right. apply in_or_app. right. left. reflexivity.
      * apply (no_CU_user _ _ _ _ _ _ R). intros c Hc. unfold clues in Hc. rewrite Hs, Hsp, Eu in Hc.
        repeat (apply in_app_or in Hc; destruct Hc as [Hc|Hc]);
          try (apply in_opt_inv in Hc; destruct Hc as [? [_ ->]]; reflexivity).
        -- destruct Hc as [<-|[]]. reflexivity.
        -- destruct Hc.
  - intros s Hs Hsp. apply (Hcl (CU s)). unfold clues. rewrite Hs, Hsp.
    apply in_or_app. right. apply in_or_app. right. apply in_or_app. right. left. reflexivity.
  - intro Hs. apply (no_CU_user _ _ _ _ _ _ R). intros c Hc. unfold clues in Hc. rewrite Hs in Hc.
    repeat (apply in_app_or in Hc; destruct Hc as [Hc|Hc]);
      try (apply in_opt_inv in Hc; destruct Hc as [? [_ ->]]; reflexivity). destruct Hc.
  - intros Hr Hl. apply (no_CR_real _ _ _ _ _ _ R). intros c Hc. unfold clues in Hc. rewrite Hr in Hc.
    assert (Hlast : forall c', In c' (match nlabel i with
                                      | Some s => if speclabel i then match lbl with
                                                    | Some f => [CR (lreal f)] ++ opt CA (lA f) ++ opt CM (lmass f) ++ opt CU (luser f)
                                                    | None => [] end else [CU s]
                                      | None => [] end) -> is_CR c' = false).
    { intros c' Hc'. destruct Hl as [Hl|Hl].
      - rewrite Hl in Hc'. destruct Hc'.
      - rewrite Hl in Hc'. destruct (nlabel i); [destruct Hc' as [<-|[]]; reflexivity | destruct Hc']. }
    repeat (apply in_app_or in Hc; destruct Hc as [Hc|Hc]);
      try (apply in_opt_inv in Hc; destruct Hc as [? [_ ->]]; reflexivity).
    + destruct Hc.
    + apply Hlast, Hc.
  - exact (run_nuclide _ _ _ _ _ _ R).
  - exact Hph.
  - exact Hnp.
Qed.

(* ------------------------------------------------------------------------------------------ *)
(** * Default isotope *)

Definition no_isotope_info (i : nuc_in) : Prop :=
  nA i = None /\ nmass i = None /\
  (nlabel i = None \/ speclabel i = false \/
   exists s f, nlabel i = Some s /\ parse_label s = Ok f /\ lA f = None /\ lmass f = None).

Theorem reconcile_default i o :
  reconcile i = Ok o -> no_isotope_info i -> to_A_int (oZ o) = Ok (oA o) /\ to_mass_int (oZ o) = Ok (omass o).
Proof.
  intros H (HA & HM & HL). destruct (reconcile_run _ _ H) as (lbl & info & zi & ci & R).
  apply (run_default _ _ _ _ _ _ R). intros c Hc. unfold clues in Hc. rewrite HA, HM in Hc.
  pose proof (r_parse _ _ _ _ _ _ R) as Hp. unfold parse_stage in Hp.
  repeat (apply in_app_or in Hc; destruct Hc as [Hc|Hc]); try (destruct Hc; fail).
  - apply in_opt_inv in Hc. destruct Hc as [? [_ ->]]. split; reflexivity.
  - destruct (nlabel i) as [s|] eqn:Es; [|destruct Hc].
    destruct (speclabel i) eqn:Esp.
    + destruct HL as [HL|[HL|(s' & f & Hs' & Hf & HfA & HfM)]]; try discriminate.
      injection Hs' as <-. rewrite Hf in Hp. simpl in Hp. injection Hp as <-.
      rewrite HfA, HfM in Hc. simpl in Hc. destruct Hc as [<-|Hc]; [split; reflexivity|].
      apply in_opt_inv in Hc. destruct Hc as [? [_ ->]]. split; reflexivity.
    + destruct Hc as [<-|[]]. split; reflexivity.
Qed.

(* ------------------------------------------------------------------------------------------ *)
(** * Only the documented errors *)

Definition closed {A} (x : outcome A) : Prop :=
  match x with Ok _ => True | Err k => k = Validation \/ k = NotAnElement end.

Lemma closed_obind {A B} (x : outcome A) (f : A -> outcome B) :
  closed x -> (forall a, x = Ok a -> closed (f a)) -> closed (obind x f).
Proof. destruct x; simpl; auto. Qed.

Lemma closed_mapM {A B} (f : A -> outcome B) l : (forall x, closed (f x)) -> closed (mapM f l).
Proof.
  intro Hf. induction l as [|x l IH]; simpl; [exact I|].
  apply closed_obind; [apply Hf|]. intros y _. apply closed_obind; [exact IH|]. intros; exact I.
Qed.

Lemma closed_pick {A T} (ok : T -> A -> bool) ex ts : closed (pick ok ex ts).
Proof. unfold pick. destruct (find _ ex); simpl; auto. Qed.

Lemma tf_e_inv k : In k pt_E ->
  exists el z m, assoc k t_eliso2el = Some el /\ assoc el t_el2z = Some z /\ zassoc z t_z2el = Some k /\ assoc k t_eliso2mass = Some m.
Proof.
  intro H. apply table_e in H. unfold tf_e in H. apply andb_true_iff in H. destruct H as [H1 H2].
  destruct (assoc k t_eliso2el) as [el|] eqn:E1; [|discriminate].
  destruct (assoc el t_el2z) as [z|] eqn:E2; [|discriminate].
  destruct (zassoc z t_z2el) as [k'|] eqn:E3; [|discriminate]. apply String.eqb_eq in H1. subst k'.
  destruct (assoc k t_eliso2mass) as [m|] eqn:E4; [|discriminate]. exists el, z, m. auto.
Qed.

Lemma closed_to_E_int z : closed (to_E_int z).
Proof.
  unfold to_E_int, resolve_int. destruct (zassoc z t_z2el) as [k|] eqn:E; simpl; [|right; reflexivity].
  assert (In k pt_E) as Hin by (rewrite <- z2el_vals; eapply zassoc_in_snd; eassumption).
  destruct (tf_e_inv _ Hin) as (el & ? & ? & H1 & _). rewrite H1. exact I.
Qed.

Lemma closed_offer_atomic_number np z : closed (offer_atomic_number np z).
Proof.
  unfold offer_atomic_number. pose proof (closed_to_E_int z) as C.
  destruct (to_E_int z) as [e|k] eqn:E; [|exact C].
  destruct (z_table _ _ E) as (zm & za & lo & hi & mlo & mhi & Hm & Ha & Hk & Hr & _).
  cbn [obind]. rewrite Hm. cbn [obind]. rewrite Ha. cbn [obind]. rewrite Hk. cbn [obind sval]. rewrite Hr. exact I.
Qed.

Lemma resolve_str_ok s strict k : resolve_str s strict = Ok k ->
  (exists m, assoc k t_eliso2mass = Some m) /\ (strict = true -> In k pt_E).
Proof.
  unfold resolve_str. intro H. apply obind_ok in H. destruct H as [k0 [H0 H]].
  assert (Hk : k0 = k /\ (strict = true -> In k0 pt_E)).
  { destruct strict; simpl in H.
    - destruct (existsb (String.eqb k0) pt_E) eqn:Ex; simpl in H; [|discriminate]. injection H as <-.
      split; [reflexivity|]. intros _. apply existsb_exists in Ex. destruct Ex as [x [Hx Hx']]. apply String.eqb_eq in Hx'. subst x. exact Hx.
    - injection H as <-. split; [reflexivity | discriminate]. }
  destruct Hk as [<- Hk]. split; [|exact Hk].
  destruct (assoc (capitalize s) t_eliso2mass) as [m|] eqn:E1.
  - injection H0 as <-. eauto.
  - assert (Hin : In k0 pt_E).
    { destruct (if negb (s =? "")%string && sforall is_digit s then zassoc (int_of_digits (list_ascii_of_string s)) t_z2el else None) as [e|] eqn:E2.
      - injection H0 as <-. destruct (negb (s =? "")%string && sforall is_digit s); [|discriminate].
        rewrite <- z2el_vals. eapply zassoc_in_snd. eassumption.
      - apply sval_ok in H0. rewrite <- element2el_vals. eapply assoc_in_snd. eassumption. }
    destruct (tf_e_inv _ Hin) as (? & ? & m & _ & _ & _ & Hm). eauto.
Qed.

Lemma closed_resolve_str s strict : closed (resolve_str s strict).
Proof.
  unfold resolve_str. apply closed_obind.
  - destruct (assoc (capitalize s) t_eliso2mass); [exact I|].
    destruct (if negb (s =? "")%string && sforall is_digit s then _ else None); [exact I|].
    destruct (assoc (capitalize s) t_element2el); simpl; auto.
  - intros k _. destruct (strict && negb (existsb (String.eqb k) pt_E)); simpl; auto.
Qed.

Lemma closed_to_Z_strict e : closed (to_Z_strict e).
Proof.
  unfold to_Z_strict. pose proof (closed_resolve_str e true) as C.
  destruct (resolve_str e true) as [k|] eqn:E; [|exact C]. simpl.
  destruct (resolve_str_ok _ _ _ E) as [_ Hin]. destruct (tf_e_inv _ (Hin eq_refl)) as (el & z & ? & H1 & H2 & _).
  rewrite H1. cbn [obind sval]. rewrite H2. exact I.
Qed.

Lemma closed_nuclide_mass e a : closed (nuclide_mass e a).
Proof.
  unfold nuclide_mass, to_mass_str. pose proof (closed_resolve_str (e ++ str_of_Z a)%string false) as C.
  destruct (resolve_str _ false) as [k|] eqn:E; [|exact C]. simpl.
  destruct (resolve_str_ok _ _ _ E) as [[m ->] _]. exact I.
Qed.

Lemma closed_offer_z np c : closed (offer_z np c).
Proof.
  destruct c; simpl; [apply closed_offer_atomic_number|].
  apply closed_obind; [apply closed_to_Z_strict | intros; apply closed_offer_atomic_number].
Qed.

Lemma closed_offer_c e tol c : closed (offer_c e tol c).
Proof. destruct c; simpl; auto. apply closed_obind; [apply closed_nuclide_mass | intros; exact I]. Qed.

Lemma closed_parse_stage i : closed (parse_stage i).
Proof.
  unfold parse_stage. destruct (nlabel i); [|exact I]. destruct (speclabel i); [|exact I].
  unfold parse_label. destruct (match_label _); simpl; auto.
Qed.

Theorem reconcile_closed i : closed (reconcile i).
Proof.
  unfold reconcile.
  apply closed_obind; [apply closed_mapM, closed_offer_z | intros zi1 _].
  apply closed_obind; [apply closed_parse_stage | intros lbl _].
  apply closed_obind; [apply closed_mapM, closed_offer_z | intros zi2 _].
  apply closed_obind; [apply closed_pick | intros zf _].
  apply closed_obind; [apply closed_to_E_int | intros ef _].
  apply closed_obind; [apply closed_mapM, closed_offer_c | intros ci _].
  repeat (apply closed_obind; [apply closed_pick | intros ? _]). exact I.
Qed.

Corollary reconcile_fails_closed i :
  (exists o, reconcile i = Ok o) \/ reconcile i = Err Validation \/ reconcile i = Err NotAnElement.
Proof.
  pose proof (reconcile_closed i) as C. destruct (reconcile i) as [o|k]; [left; eauto|].
  right. destruct C as [->| ->]; auto.
Qed.

(* ------------------------------------------------------------------------------------------ *)
(** * Contradictory clues are refused *)

Definition names_element (i : nuc_in) (z : Z) : Prop :=
  nZ i = Some z \/ exists e0, nE i = Some e0 /\ to_Z_strict e0 = Ok z.

Inductive Contradiction (i : nuc_in) : Prop :=
| K_Z_E z e : nZ i = Some z -> nE i = Some e -> to_Z_strict e <> Ok z -> Contradiction i
| K_A_unknown z e a : names_element i z -> to_E_int z = Ok e -> nA i = Some a ->
                      (forall t, nuclide_mass e a <> Ok t) -> Contradiction i
| K_A_mass z e a am m : names_element i z -> to_E_int z = Ok e -> nA i = Some a -> nmass i = Some m ->
                        nuclide_mass e a = Ok am -> ~ (Qabs (m - am) <= mtol i)%Q -> Contradiction i
| K_real_ghost s f b : nreal i = Some b -> nlabel i = Some s -> speclabel i = true -> parse_label s = Ok f ->
                       lreal f <> b -> Contradiction i
| K_label_Z z s f z' : nZ i = Some z -> nlabel i = Some s -> speclabel i = true -> parse_label s = Ok f ->
                       lZ f = Some z' -> z <> z' -> Contradiction i
| K_label_E z s f e : names_element i z -> nlabel i = Some s -> speclabel i = true -> parse_label s = Ok f ->
                      lE f = Some e -> to_Z_strict e <> Ok z -> Contradiction i
| K_label_A a s f a' : nA i = Some a -> nlabel i = Some s -> speclabel i = true -> parse_label s = Ok f ->
                       lA f = Some a' -> a <> a' -> Contradiction i
| K_label_mass m s f m' : nmass i = Some m -> nlabel i = Some s -> speclabel i = true -> parse_label s = Ok f ->
                          lmass f = Some m' -> ~ (m == m')%Q -> Contradiction i
| K_unparseable s k : nlabel i = Some s -> speclabel i = true -> parse_label s = Err k -> Contradiction i.

Lemma names_element_sound i o z : Sound i o -> names_element i z -> oZ o = z.
Proof.
  intros S [Hz|[e0 [He Hr]]]; [apply (s_Z _ _ S), Hz|].
  pose proof (s_E _ _ S _ He) as H. congruence.
Qed.

Theorem contradiction_refused i : Contradiction i -> forall o, reconcile i <> Ok o.
Proof.
  intros K o H. pose proof (reconcile_sound _ _ H) as S.
  destruct K as [z e Hz He Hne | z e a Hn HE Ha Hun | z e a am m Hn HE Ha Hm Ham Hfar | s f b Hr Hs Hsp Hf Hne
                | z s f z' Hz Hs Hsp Hf Hlz Hne | z s f e Hn Hs Hsp Hf Hle Hne | a s f a' Ha Hs Hsp Hf Hla Hne
                | m s f m' Hm Hs Hsp Hf Hlm Hne | s k Hs Hsp Hf].
  - apply Hne. rewrite <- (s_Z _ _ S _ Hz). apply (s_E _ _ S _ He).
  - pose proof (names_element_sound _ _ _ S Hn) as Ez. subst z.
    assert (oE o = e) by (pose proof (s_table _ _ S); congruence). subst e.
    destruct (s_A _ _ S _ Ha) as [_ [am [Ham _]]]. apply (Hun am Ham).
  - pose proof (names_element_sound _ _ _ S Hn) as Ez. subst z.
    assert (oE o = e) by (pose proof (s_table _ _ S); congruence). subst e.
    destruct (s_A _ _ S _ Ha) as [_ [am' [Ham' Hlt]]]. assert (am' = am) by congruence. subst am'.
    apply Hfar. rewrite <- (s_mass _ _ S _ Hm). exact Hlt.
  - destruct (s_label _ _ S _ Hs Hsp) as (f' & Hf' & _ & _ & _ & _ & Hreal & _).
    assert (f' = f) by congruence. subst f'. apply Hne. rewrite <- Hreal. apply (s_real _ _ S _ Hr).
  - destruct (s_label _ _ S _ Hs Hsp) as (f' & Hf' & HZ & _).
    assert (f' = f) by congruence. subst f'. apply Hne. rewrite <- (s_Z _ _ S _ Hz). apply (HZ _ Hlz).
  - destruct (s_label _ _ S _ Hs Hsp) as (f' & Hf' & _ & HE & _).
    assert (f' = f) by congruence. subst f'. apply Hne. rewrite <- (names_element_sound _ _ _ S Hn). apply (HE _ Hle).
  - destruct (s_label _ _ S _ Hs Hsp) as (f' & Hf' & _ & _ & HA & _).
    assert (f' = f) by congruence. subst f'. apply Hne. destruct (s_A _ _ S _ Ha) as [<- _]. destruct (HA _ Hla) as [<- _]. reflexivity.
  - destruct (s_label _ _ S _ Hs Hsp) as (f' & Hf' & _ & _ & _ & HM & _).
    assert (f' = f) by congruence. subst f'. apply Hne. rewrite <- (s_mass _ _ S _ Hm). apply (HM _ Hlm).
  - destruct (s_label _ _ S _ Hs Hsp) as (f' & Hf' & _). congruence.
Qed.

Corollary contradiction_rejected i :
  Contradiction i -> reconcile i = Err Validation \/ reconcile i = Err NotAnElement.
Proof.
  intro K. destruct (reconcile_fails_closed i) as [[o H]|H]; [|exact H].
  exfalso. exact (contradiction_refused _ K _ H).
Qed.

(* ------------------------------------------------------------------------------------------ *)
(** * Feeding the result back *)

Definition feedback (i : nuc_in) (o : nuc_out) : nuc_in :=
  {| nA := if oA o =? -1 then None else Some (oA o); nZ := Some (oZ o); nE := Some (oE o);
     nmass := Some (omass o); nreal := Some (oreal o); nlabel := Some (ouser o); speclabel := false;
     nonphysical := nonphysical i; mtol := mtol i |}.

Record out_equiv (a b : nuc_out) : Prop := {
  eq_A : oA a = oA b; eq_Z : oZ a = oZ b; eq_E : oE a = oE b; eq_mass : (omass a == omass b)%Q;
  eq_real : oreal a = oreal b; eq_user : ouser a = ouser b }.

Lemma round_near q a : (Qabs (q - inject_Z a) < 1 # 2)%Q -> round_half_even q = a.
Proof.
  intro H. apply Qabs_Qlt_condition in H. destruct H as [H1 H2].
  unfold round_half_even. pose proof (Qfloor_le q) as F1. pose proof (Qlt_floor q) as F2.
  set (f := Qfloor q) in *. rewrite inject_Z_plus in F2. change (inject_Z 1) with 1%Q in F2.
  assert (Hf : f = a \/ f = a + -1).
  { destruct (Z_lt_le_dec a f) as [L|L].
    - exfalso. assert (L' : (inject_Z (a + 1) <= inject_Z f)%Q) by (rewrite <- Zle_Qle; lia).
      rewrite inject_Z_plus in L'. change (inject_Z 1) with 1%Q in L'. lra.
    - destruct (Z_lt_le_dec f (a + -1)) as [L'|L'].
      + exfalso. assert (L'' : (inject_Z (f + 1) <= inject_Z (a + -1))%Q) by (rewrite <- Zle_Qle; lia).
        rewrite !inject_Z_plus in L''. change (inject_Z 1) with 1%Q in L''. change (inject_Z (-1)) with (-1)%Q in L''. lra.
      + lia. }
  clearbody f. destruct Hf as [-> | ->].
  - assert (C : (q - inject_Z a ?= 1 # 2)%Q = Lt) by (apply (proj1 (Qlt_alt _ _)); lra). rewrite C. reflexivity.
  - rewrite inject_Z_plus in *. change (inject_Z (-1)) with (-1)%Q in *.
    assert (C : (q - (inject_Z a + -1) ?= 1 # 2)%Q = Gt) by (apply (proj1 (Qgt_alt _ _)); lra). rewrite C. lia.
Qed.

Lemma round_wd q q' : (q == q')%Q -> round_half_even q = round_half_even q'.
Proof.
  intro E. unfold round_half_even. rewrite (Qfloor_comp _ _ E).
  assert (C : (q - inject_Z (Qfloor q') ?= 1 # 2)%Q = (q' - inject_Z (Qfloor q') ?= 1 # 2)%Q).
  { apply Qcompare_comp; [rewrite E; reflexivity | reflexivity]. }
  rewrite C. reflexivity.
Qed.

Lemma mass_number_of_wd e tol m m' : (m == m')%Q -> mass_number_of e tol m = mass_number_of e tol m'.
Proof.
  intro E. unfold mass_number_of. rewrite (round_wd _ _ E).
  destruct (nuclide_mass e (round_half_even m')) as [t|]; [|reflexivity].
  assert (C : Qlt_b tol (Qabs (t - m)) = Qlt_b tol (Qabs (t - m'))).
  { unfold Qlt_b. f_equal. apply Qleb_comp; [rewrite E; reflexivity | reflexivity]. }
  rewrite C. reflexivity.
Qed.

Lemma pick_exists {A T} (ok : T -> A -> bool) exact tests c :
  In c exact -> (forall t, In t tests -> ok t c = true) -> exists c', pick ok exact tests = Ok c'.
Proof.
  intros Hin Hall. unfold pick. destruct (find _ exact) eqn:F; [eexists; reflexivity|]. exfalso.
  pose proof (find_none _ _ F _ Hin) as N. cbv beta in N.
  assert (forallb (fun t => ok t c) tests = true) by (apply forallb_forall; exact Hall). congruence.
Qed.

Lemma reconcile_intro i zi1 lbl zi2 zf ef ci mf af rf lf :
  mapM (offer_z (nonphysical i)) (zclues_args i) = Ok zi1 ->
  parse_stage i = Ok lbl ->
  mapM (offer_z (nonphysical i)) (zclues_label lbl) = Ok zi2 ->
  pick (fun t x => x =? t) (map zi_z (zi1 ++ zi2)) (map zi_z (zi1 ++ zi2)) = Ok zf ->
  to_E_int zf = Ok ef ->
  mapM (offer_c ef (mtol i)) (clues i lbl) = Ok ci ->
  pick (m_ok (mtol i)) (map zi_m (zi1 ++ zi2) ++ flat_map ci_mx ci) (map zi_mt (zi1 ++ zi2) ++ flat_map ci_mt ci) = Ok mf ->
  pick a_ok (map zi_a (zi1 ++ zi2) ++ flat_map ci_ax ci) (map zi_at (zi1 ++ zi2) ++ flat_map ci_at ci) = Ok af ->
  pick (fun t x => beqb x t) (true :: flat_map ci_r ci) (flat_map ci_r ci) = Ok rf ->
  pick (fun t x => String.eqb x t) (EmptyString :: flat_map ci_l ci) (flat_map ci_l ci) = Ok lf ->
  reconcile i = Ok {| oA := af; oZ := zf; oE := ef; omass := mf; oreal := rf; ouser := lf |}.
Proof.
  intros H1 H2 H3 H4 H5 H6 H7 H8 H9 H10. unfold reconcile.
  rewrite H1. cbn [obind]. rewrite H2. cbn [obind]. rewrite H3. cbn [obind]. rewrite H4. cbn [obind].
  rewrite H5. cbn [obind]. rewrite H6. cbn [obind]. rewrite H7. cbn [obind]. rewrite H8. cbn [obind].
  rewrite H9. cbn [obind]. rewrite H10. reflexivity.
Qed.

Lemma fm_app {A B} (f : A -> list B) l1 l2 : flat_map f (l1 ++ l2) = flat_map f l1 ++ flat_map f l2.
Proof. induction l1 as [|a l1 IH]; simpl; [reflexivity|]. rewrite IH, app_assoc. reflexivity. Qed.

Lemma tail_picks tol info aci a m r u :
  m_ok tol (zi_mt info) m = true -> a_ok (zi_at info) a = true ->
  (forall y, In y aci -> exists t, y = IA a t /\ (Qabs (m - t) <= tol)%Q) ->
  let zi := [info; info] in
  let ci := aci ++ [IM a m; IR r; IU u] in
  exists mf af rf lf,
    pick (m_ok tol) (map zi_m zi ++ flat_map ci_mx ci) (map zi_mt zi ++ flat_map ci_mt ci) = Ok mf /\
    pick a_ok (map zi_a zi ++ flat_map ci_ax ci) (map zi_at zi ++ flat_map ci_at ci) = Ok af /\
    pick (fun t x => beqb x t) (true :: flat_map ci_r ci) (flat_map ci_r ci) = Ok rf /\
    pick (fun t x => String.eqb x t) (EmptyString :: flat_map ci_l ci) (flat_map ci_l ci) = Ok lf /\
    (mf == m)%Q /\ af = a /\ rf = r /\ lf = u.
Proof.
  intros Hm Ha Haci zi ci.
  assert (Hr_aci : flat_map ci_r aci = [] /\ flat_map ci_l aci = []).
  { clear - Haci. induction aci as [|y l IH]; [split; reflexivity|].
    destruct (Haci y (or_introl eq_refl)) as [t [-> _]]. simpl. apply IH. intros y' Hy'. apply Haci. right. exact Hy'. }
  destruct Hr_aci as [Er El].
  (* mass *)
  assert (Pm : exists mf, pick (m_ok tol) (map zi_m zi ++ flat_map ci_mx ci) (map zi_mt zi ++ flat_map ci_mt ci) = Ok mf).
  { apply (pick_exists _ _ _ m).
    - apply in_or_app. right. unfold ci. rewrite fm_app. apply in_or_app. right. simpl. left. reflexivity.
    - intros t Ht. apply in_app_or in Ht. destruct Ht as [Ht|Ht].
      + simpl in Ht. destruct Ht as [<-|[<-|[]]]; exact Hm.
      + unfold ci in Ht. rewrite fm_app in Ht. apply in_app_or in Ht. destruct Ht as [Ht|Ht].
        * apply in_flat_map in Ht. destruct Ht as [y [Hy Hty]]. destruct (Haci y Hy) as [t' [-> Hlt]].
          simpl in Hty. destruct Hty as [<-|[]]. simpl. apply Qle_bool_iff. exact Hlt.
        * simpl in Ht. destruct Ht as [<-|[]]. simpl. apply Qeq_bool_iff. reflexivity. }
  destruct Pm as [mf Pm]. pose proof (pick_ok _ _ _ _ Pm) as [_ Pm2].
  assert (Emf : (mf == m)%Q).
  { apply Qeq_bool_iff. apply (Pm2 (MEq m)). apply in_or_app. right. unfold ci. rewrite fm_app. apply in_or_app. right.
    simpl. left. reflexivity. }
  (* mass number *)
  assert (Pa : exists af, pick a_ok (map zi_a zi ++ flat_map ci_ax ci) (map zi_at zi ++ flat_map ci_at ci) = Ok af).
  { apply (pick_exists _ _ _ a).
    - apply in_or_app. right. unfold ci. rewrite fm_app. apply in_or_app. right. simpl. left. reflexivity.
    - intros t Ht. apply in_app_or in Ht. destruct Ht as [Ht|Ht].
      + simpl in Ht. destruct Ht as [<-|[<-|[]]]; exact Ha.
      + unfold ci in Ht. rewrite fm_app in Ht. apply in_app_or in Ht. destruct Ht as [Ht|Ht].
        * apply in_flat_map in Ht. destruct Ht as [y [Hy Hty]]. destruct (Haci y Hy) as [t' [-> Hlt]].
          simpl in Hty. destruct Hty as [<-|[]]. simpl. apply Z.eqb_refl.
        * simpl in Ht. destruct Ht as [<-|[]]. simpl. apply Z.eqb_refl. }
  destruct Pa as [af Pa]. pose proof (pick_ok _ _ _ _ Pa) as [_ Pa2].
  assert (Eaf : af = a).
  { apply Z.eqb_eq. apply (Pa2 (AEq a)). apply in_or_app. right. unfold ci. rewrite fm_app. apply in_or_app. right.
    simpl. left. reflexivity. }
  (* real, user *)
  assert (Cr : flat_map ci_r ci = [r]) by (unfold ci; rewrite fm_app, Er; reflexivity).
  assert (Cl : flat_map ci_l ci = [u]) by (unfold ci; rewrite fm_app, El; reflexivity).
  assert (Pr : exists rf, pick (fun t x => beqb x t) (true :: flat_map ci_r ci) (flat_map ci_r ci) = Ok rf).
  { rewrite Cr. apply (pick_exists _ _ _ r); [right; left; reflexivity|]. intros t [<-|[]]. unfold beqb. apply Bool.eqb_reflx. }
  destruct Pr as [rf Pr]. pose proof (pick_ok _ _ _ _ Pr) as [_ Pr2].
  assert (Erf : rf = r). { apply beqb_true. apply Pr2. rewrite Cr. left. reflexivity. }
  assert (Pl : exists lf, pick (fun t x => String.eqb x t) (EmptyString :: flat_map ci_l ci) (flat_map ci_l ci) = Ok lf).
  { rewrite Cl. apply (pick_exists _ _ _ u); [right; left; reflexivity|]. intros t [<-|[]]. apply String.eqb_refl. }
  destruct Pl as [lf Pl]. pose proof (pick_ok _ _ _ _ Pl) as [_ Pl2].
  assert (Elf : lf = u). { apply String.eqb_eq. apply Pl2. rewrite Cl. left. reflexivity. }
  exists mf, af, rf, lf. auto 10.
Qed.

Lemma user_lower_fixed i o lbl info zi ci : run i o lbl info zi ci -> lower (ouser o) = ouser o.
Proof.
  intro R. pose proof (r_l_in _ _ _ _ _ _ R) as Hin. destruct Hin as [<-|Hin]; [reflexivity|].
  apply in_flat_map in Hin. destruct Hin as [y [Hy Hin]].
  destruct (Forall2_in_r _ _ _ _ (r_c2 _ _ _ _ _ _ R) Hy) as [c [_ Hoff]].
  destruct c; simpl in Hoff.
  - apply obind_ok in Hoff. destruct Hoff as [? [_ Hoff]]. injection Hoff as <-. destruct Hin.
  - injection Hoff as <-. destruct Hin.
  - injection Hoff as <-. destruct Hin.
  - injection Hoff as <-. simpl in Hin. destruct Hin as [<-|[]]. apply lower_idem.
Qed.

Theorem feedback_fixed_point i o :
  reconcile i = Ok o -> (0 <= mtol i)%Q -> (mtol i <= 1 # 4)%Q ->
  exists o', reconcile (feedback i o) = Ok o' /\ out_equiv o' o.
Proof.
  intros H T0 T4.
  destruct (reconcile_run _ _ H) as (lbl & info & zi & ci & R).
  pose proof (run_nuclide _ _ _ _ _ _ R) as Hnuc.
  destruct (offer_atomic_number_ok _ _ _ (r_offer _ _ _ _ _ _ R)) as [Ez F].
  pose proof (r_E _ _ _ _ _ _ R) as HE.
  destruct (z_table _ _ HE) as (zm & za & lo & hi & mlo & mhi & Tm & Ta & Tk & Tr & TinE & _ & _ & _ & _ & Tza0 & _ & TZs).
  assert (Hin : In info zi).
  { destruct zi as [|x zi']; [exfalso; apply (r_zi_ne _ _ _ _ _ _ R); reflexivity|].
    left. apply (r_zi_all _ _ _ _ _ _ R). left. reflexivity. }
  assert (Hmt0 : m_ok (mtol i) (zi_mt info) (omass o) = true).
  { apply (r_m_ok _ _ _ _ _ _ R). apply in_or_app. left. apply in_map. exact Hin. }
  assert (Hat0 : a_ok (zi_at info) (oA o) = true).
  { apply (r_a_ok _ _ _ _ _ _ R). apply in_or_app. left. apply in_map. exact Hin. }
  assert (K1 : oA o <> -1 -> exists t, nuclide_mass (oE o) (oA o) = Ok t /\ (Qabs (omass o - t) <= mtol i)%Q).
  { intro Hne. destruct Hnuc as [Hn|[t [Ht Hd]]]; [contradiction|]. exists t. split; [exact Ht|].
    rewrite Qabs_sym_minus. destruct Hd as [Hd|Hd]; [|exact Hd].
    assert (E0 : (Qabs (t - omass o) == 0)%Q).
    { assert (E1 : (t - omass o == 0)%Q) by (rewrite Hd; ring). rewrite E1. reflexivity. }
    rewrite E0. exact T0. }
  assert (K2 : mass_number_of (oE o) (mtol i) (omass o) = oA o).
  { destruct (Z.eq_dec (oA o) (-1)) as [Em1|Hne].
    - pose proof (r_a_in _ _ _ _ _ _ R) as Ain. apply in_app_or in Ain. destruct Ain as [Ain|Ain].
      + apply in_map_iff in Ain. destruct Ain as [x [Hx Hxin]]. rewrite (r_zi_all _ _ _ _ _ _ R x Hxin) in Hx.
        pose proof (zf_a _ _ F) as Fa. rewrite Ez in Fa. assert (za = zi_a info) by congruence. lia.
      + apply in_flat_map in Ain. destruct Ain as [y [Hy Hay]].
        destruct (Forall2_in_r _ _ _ _ (r_c2 _ _ _ _ _ _ R) Hy) as [c [Hc Hoff]].
        destruct c as [a|m|b|s]; simpl in Hoff.
        * apply obind_ok in Hoff. destruct Hoff as [am [Ham Hoff]]. injection Hoff as <-. simpl in Hay.
          destruct Hay as [Ea|[]]. destruct (nuclide_row _ _ _ TinE Ham) as (_ & Hge & _). lia.
        * injection Hoff as <-. simpl in Hay. destruct Hay as [Ea|[]].
          destruct (run_clue _ _ _ _ _ _ R _ Hc) as [Hmq _]. rewrite (mass_number_of_wd _ _ _ _ Hmq). exact Ea.
        * injection Hoff as <-. destruct Hay.
        * injection Hoff as <-. destruct Hay.
    - destruct (K1 Hne) as [t [Ht Hlt]]. destruct (nuclide_row _ _ _ TinE Ht) as (_ & _ & _ & Hq).
      assert (Hr : round_half_even (omass o) = oA o).
      { apply round_near. apply Qabs_Qle_condition in Hlt. apply Qabs_Qlt_condition in Hq.
        apply Qabs_Qlt_condition. destruct Hlt, Hq. split; lra. }
      unfold mass_number_of. rewrite Hr, Ht.
      assert (C : Qlt_b (mtol i) (Qabs (t - omass o)) = false).
      { apply Qlt_b_false. rewrite Qabs_sym_minus. exact Hlt. }
      rewrite C. reflexivity. }
  pose proof (user_lower_fixed _ _ _ _ _ _ R) as Hlow.
  (* the stages of the second run *)
  set (i' := feedback i o).
  assert (S1 : mapM (offer_z (nonphysical i')) (zclues_args i') = Ok [info; info]).
  { unfold i', feedback, zclues_args. cbn [nZ nE nonphysical opt app mapM offer_z].
    rewrite (r_offer _ _ _ _ _ _ R). cbn [obind]. rewrite TZs. cbn [obind]. rewrite (r_offer _ _ _ _ _ _ R). reflexivity. }
  assert (S2 : parse_stage i' = Ok None) by reflexivity.
  assert (S3 : mapM (offer_z (nonphysical i')) (zclues_label None) = Ok []) by reflexivity.
  assert (S4 : pick (fun t x => x =? t) (map zi_z ([info; info] ++ [])) (map zi_z ([info; info] ++ [])) = Ok (oZ o)).
  { cbn [app map]. unfold pick. cbn [find forallb]. rewrite Ez, Z.eqb_refl. reflexivity. }
  assert (S6 : exists aci, mapM (offer_c (oE o) (mtol i')) (clues i' None) = Ok (aci ++ [IM (oA o) (omass o); IR (oreal o); IU (ouser o)])
               /\ forall y, In y aci -> exists t, y = IA (oA o) t /\ (Qabs (omass o - t) <= mtol i)%Q).
  { unfold i', feedback, clues. cbn [nA nmass nreal nlabel speclabel mtol opt app].
    destruct (oA o =? -1) eqn:Eq.
    - exists []. split; [|intros y []]. cbn [opt app mapM offer_c obind]. rewrite K2, Hlow. reflexivity.
    - apply Z.eqb_neq in Eq. destruct (K1 Eq) as [t [Ht Hlt]]. exists [IA (oA o) t]. split.
      + cbn [opt app mapM offer_c obind]. rewrite Ht. cbn [obind]. rewrite K2, Hlow. reflexivity.
      + intros y [<-|[]]. exists t. auto. }
  destruct S6 as [aci [S6 Haci]].
  destruct (tail_picks (mtol i) info aci (oA o) (omass o) (oreal o) (ouser o) Hmt0 Hat0 Haci)
    as (mf & af & rf & lf & P1 & P2 & P3 & P4 & E1 & E2 & E3 & E4).
  exists {| oA := af; oZ := oZ o; oE := oE o; omass := mf; oreal := rf; ouser := lf |}. split.
  - apply (reconcile_intro i' [info; info] None [] (oZ o) (oE o) _ mf af rf lf S1 S2 S3 S4 HE S6); assumption.
  - constructor; simpl; auto.
Qed.

(** Regression witness for the repaired boundary case (af456dc): a mass exactly mtol away from the nuclide's is
    accepted and its output fed back is reproduced (it used to be refused: offer_mass_number tested < mtol). *)
Definition boundary_in : nuc_in :=
  {| nA := None; nZ := Some 27; nE := None; nmass := Some (5943319429 # 100000000); nreal := None; nlabel := None;
     speclabel := true; nonphysical := false; mtol := 1 # 2 |}.
Definition boundary_out : nuc_out :=
  {| oA := 59; oZ := 27; oE := "Co"; omass := 5943319429 # 100000000; oreal := true; ouser := "" |}.

Lemma feedback_boundary_witness :
  reconcile boundary_in = Ok boundary_out /\ reconcile (feedback boundary_in boundary_out) = Ok boundary_out.
Proof. split; vm_compute; reflexivity. Qed.
