(** C01: whole families of malformed identifiers are rejected — unbounded statements over strings. *)
From Coq Require Import ZArith NArith List String Ascii Bool Lia.
Require Import QV.Common.Outcome QV.Common.PyAscii.
Require Import QV.Gen.PTable QV.Model.PeriodicTable QV.Proofs.PeriodicTable.
Import ListNotations.
Open Scope Z_scope.

Opaque pt_Z pt_E pt_name pt_EE pt_EA pt_A pt_mass pt_mass_str.

Fixpoint chars (s : string) : list ascii :=
  match s with EmptyString => [] | String c r => c :: chars r end.

Definition is_other (t : tok) : bool := match t with TOther => true | _ => false end.

(** int() never accepts a text containing a character that is not a digit, sign, underscore or blank *)
Lemma all_sp_no_other l : all_sp l = true -> existsb is_other l = false.
Proof. induction l as [|t r IH]; simpl; [reflexivity|]. destruct t; try discriminate. exact IH. Qed.

Lemma scan_no_other l : forall acc cnt p r, scan_digits l acc cnt p = Some r -> existsb is_other l = false.
Proof.
  induction l as [|t l IH]; intros acc cnt p r H; simpl in *; [reflexivity|].
  destruct t; simpl; try discriminate.
  - destruct p; [discriminate|]. destruct (all_sp l) eqn:A; [|discriminate]. now apply all_sp_no_other.
  - eapply IH, H.
  - destruct p; [discriminate|]. eapply IH, H.
Qed.

Lemma drop_sp_other l : existsb is_other (drop_sp l) = existsb is_other l.
Proof. induction l as [|t r IH]; simpl; [reflexivity|]. destruct t; simpl; try reflexivity. exact IH. Qed.

Lemma int_of_toks_other l : existsb is_other l = true -> int_of_toks l = Err PyValueError.
Proof.
  intro H. unfold int_of_toks. rewrite <- drop_sp_other in H.
  destruct (drop_sp l) as [|t r]; [reflexivity|].
  assert (G : forall d r', existsb is_other r' = true ->
              match scan_digits r' d 1%N false with
              | Some (v, cnt) => if N.ltb max_str_digits cnt then Err PyValueError else Ok v
              | None => Err PyValueError end = Err PyValueError
              /\ scan_digits r' d 1%N false = None).
  { intros d r' O. destruct (scan_digits r' d 1%N false) as [[v c]|] eqn:S; [|split; reflexivity].
    apply scan_no_other in S. congruence. }
  destruct t; simpl in H; try reflexivity.
  - destruct r as [|t' r']; [reflexivity|]. destruct t'; try reflexivity. simpl in H.
    destruct (G d r' H) as [_ G2]. now rewrite G2.
  - destruct r as [|t' r']; [reflexivity|]. destruct t'; try reflexivity. simpl in H.
    destruct (G d r' H) as [_ G2]. now rewrite G2.
  - destruct (G d r H) as [_ G2]. now rewrite G2.
Qed.

Definition other_char (c : ascii) : bool := is_other (classify c).

Lemma pyint_other s : existsb other_char (chars s) = true -> pyint_str s = Err PyValueError.
Proof.
  intro H. unfold pyint_str. apply int_of_toks_other.
  induction s as [|c r IH]; simpl in *; [discriminate|].
  unfold other_char in H at 1. destruct (is_other (classify c)); [reflexivity|]. simpl in *. now apply IH.
Qed.

(** letters and '.' are such characters, and letter case does not change that *)
Definition is_letter (c : ascii) : bool := is_upper c || is_lower c.
Lemma letter_other c : is_letter c = true -> other_char c = true.
Proof. destruct c as [[] [] [] [] [] [] [] []]; vm_compute; intro; congruence. Qed.
Lemma dot_other : other_char "."%char = true.
Proof. reflexivity. Qed.

(** shape of the table's keys and names (finite facts): every label and name starts with a letter and
    contains no '.' *)
Definition starts_with_letter (s : string) : bool :=
  match s with String c _ => is_letter c | EmptyString => false end.
Definition has_dot (s : string) : bool := existsb (Ascii.eqb "."%char) (chars s).

Lemma labels_shape : forallb (fun k => starts_with_letter k && negb (has_dot k)) pt_EA = true.
Proof. vm_compute. reflexivity. Qed.
Lemma names_shape : forallb (fun k => starts_with_letter k && negb (has_dot k)) pt_name = true.
Proof. vm_compute. reflexivity. Qed.

Lemma capitalize_first_letter c : is_letter (to_upper c) = is_letter c.
Proof. destruct c as [[] [] [] [] [] [] [] []]; reflexivity. Qed.

Lemma to_lower_dot c : Ascii.eqb "."%char (to_lower c) = Ascii.eqb "."%char c.
Proof. destruct c as [[] [] [] [] [] [] [] []]; reflexivity. Qed.
Lemma to_upper_dot c : Ascii.eqb "."%char (to_upper c) = Ascii.eqb "."%char c.
Proof. destruct c as [[] [] [] [] [] [] [] []]; reflexivity. Qed.
Lemma has_dot_lower s : has_dot (lower s) = has_dot s.
Proof. unfold has_dot. induction s as [|c r IH]; cbn [lower chars existsb]; [reflexivity|]. now rewrite to_lower_dot, IH. Qed.
Lemma has_dot_capitalize s : has_dot (capitalize s) = has_dot s.
Proof.
  destruct s as [|c r]; [reflexivity|]. unfold has_dot. cbn [capitalize chars existsb]. rewrite to_upper_dot. f_equal. apply has_dot_lower.
Qed.

(** 1. the mass number in front ("84kr"), or any text that starts with a non-letter and contains a letter *)
Theorem leading_nonletter_with_letter_rejected c r b :
  is_letter c = false -> existsb is_letter (chars r) = true ->
  resolve (PStr (String c r)) b = Err NotAnElement.
Proof.
  intros NL HL. apply str_outside_rejected.
  - intro I. pose proof (proj1 (forallb_forall _ _) labels_shape _ I) as S.
    rewrite andb_true_iff in S. destruct S as [S _]. simpl in S. rewrite capitalize_first_letter in S. congruence.
  - intros z P. rewrite pyint_other in P; [discriminate|].
    simpl. apply orb_true_iff. right.
    clear -HL. induction (chars r) as [|x l IH]; simpl in *; [discriminate|].
    apply orb_true_iff in HL. apply orb_true_iff. destruct HL as [H|H]; [left; now apply letter_other|right; now apply IH].
  - intro I. pose proof (proj1 (forallb_forall _ _) names_shape _ I) as S.
    rewrite andb_true_iff in S. destruct S as [S _]. simpl in S. rewrite capitalize_first_letter in S. congruence.
Qed.

(** 2. decimal-number strings ("1.0", "36.5", "kr84.0"): anything containing a '.' *)
Theorem dotted_rejected s b : has_dot s = true -> resolve (PStr s) b = Err NotAnElement.
Proof.
  intro H. apply str_outside_rejected.
  - intro I. pose proof (proj1 (forallb_forall _ _) labels_shape _ I) as S.
    rewrite andb_true_iff, negb_true_iff, has_dot_capitalize in S. destruct S as [_ S]. congruence.
  - intros z P. rewrite pyint_other in P; [discriminate|].
    clear -H. unfold has_dot in H. induction (chars s) as [|x l IH]; cbn [existsb] in *; [discriminate|].
    apply orb_true_iff in H. apply orb_true_iff. destruct H as [H|H]; [left|right; now apply IH].
    apply Ascii.eqb_eq in H. subst x. reflexivity.
  - intro I. pose proof (proj1 (forallb_forall _ _) names_shape _ I) as S.
    rewrite andb_true_iff, negb_true_iff, has_dot_capitalize in S. destruct S as [_ S]. congruence.
Qed.
