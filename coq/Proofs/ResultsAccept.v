(** C20 — WavefunctionProperties(...): ACCEPTANCE as an iff (the half the clause map listed as "only correspondence").
    [wfn_acceptable w] is a declarative, per-field reading of the class (no accumulator, no error flag):
    no unknown key; `basis` is a basis set and `restricted` a bool; every array that has a reshape rule is absent or an
    array whose size fits the rule for the object's OWN nbf; arrays without a rule are absent / None / any array; every return
    pointer is absent or a string naming a field DECLARED EARLIER that is present and not None. *)
From Coq Require Import ZArith List String Bool Lia.
Require Import QV.Common.Outcome QV.Gen.KeepLists QV.Model.Results QV.Proofs.Results QV.Proofs.ResultsValidate.
Import ListNotations.
Local Open Scope string_scope.
Local Open Scope list_scope.
Local Open Scope Z_scope.

Definition nonnone (o : option wval) : bool :=
  match o with None | Some WNone => false | Some _ => true end.

Definition fits (a : arr) (dims : list Z) : bool :=
  match reshape_dims (zlen (dat a)) dims with Ok _ => true | Err _ => false end.

(** one field, given the names declared before it *)
Definition field_ok (w : wdict) (nbf : Z) (earlier : list string) (f : string * fkind) : bool :=
  let '(name, kind) := f in
  match dget name w with
  | None => match kind with FBasis | FRestricted => false | _ => true end
  | Some v =>
    match kind, v with
    | FBasis, WBasis _ => true
    | FRestricted, WBool _ => true
    | FArr None _, WNone => true
    | FArr None _, WArr _ => true
    | FArr (Some t) _, WArr a => fits a (inst (if uses_nbf t then nbf else 0) 0 t)
    | FPtr, WStr s => smem s earlier && nonnone (dget s w)
    | _, _ => false
    end
  end.

Fixpoint fields_ok (w : wdict) (nbf : Z) (earlier : list string) (fs : list (string * fkind)) : bool :=
  match fs with
  | [] => true
  | f :: r => field_ok w nbf earlier f && fields_ok w nbf (earlier ++ [fst f]) r
  end.

Definition wfn_acceptable (w : wdict) : bool :=
  forallb (fun k => smem k (keys wfn_fields)) (keys w)
  && match dget "basis" w with
     | Some (WBasis n) => fields_ok w n [] wfn_fields
     | _ => false
     end.

Lemma smem_app_single s l n : smem s (l ++ [n]) = smem s l || String.eqb s n.
Proof. unfold smem. rewrite existsb_app. simpl. rewrite orb_false_r. reflexivity. Qed.

Lemma reshape_fits a dims : (exists a', reshape a dims = Ok a') <-> fits a dims = true.
Proof.
  unfold reshape, fits. destruct (reshape_dims (zlen (dat a)) dims) as [s|k]; simpl; split.
  - reflexivity.
  - intros _. eexists; reflexivity.
  - intros [a' H]; discriminate.
  - discriminate.
Qed.

Section Fold.
  Context (w : wdict) (nbf : Z).

  (** what the accumulator of accepted fields says about a name: present and not None there  iff  declared so far and
      present and not None in w *)
  Definition acc_inv (earlier : list string) (vals : wdict) : Prop :=
    forall s, nonnone (dget s vals) = smem s earlier && nonnone (dget s w).

  Lemma step_ok vals earlier name kind :
    acc_inv earlier vals ->
    dget "basis" vals = Some (WBasis nbf) ->
    dget name vals = None ->
    String.eqb "basis" name = false ->
    let '(vals1, b1) := wfn_field w (vals, false) (name, kind) in
    b1 = negb (field_ok w nbf earlier (name, kind))
    /\ (b1 = false -> acc_inv (earlier ++ [name]) vals1 /\ dget "basis" vals1 = Some (WBasis nbf)
                      /\ forall k, String.eqb k name = false -> dget k vals1 = dget k vals).
  Proof.
    intros Inv Hb Hfresh Hnb.
    assert (Absent : dget name w = None -> acc_inv (earlier ++ [name]) vals).
    { intros En s. rewrite smem_app_single, Inv. destruct (String.eqb_spec s name) as [->|].
      - rewrite En. simpl. rewrite !andb_false_r. reflexivity.
      - rewrite orb_false_r. reflexivity. }
    assert (Added : forall v v', dget name w = Some v -> nonnone (Some v') = nonnone (Some v) ->
                                 acc_inv (earlier ++ [name]) (vals ++ [(name, v')])).
    { intros v v' En Hn s. rewrite dget_app_single, smem_app_single.
      destruct (String.eqb_spec s name) as [->|Ne].
      - rewrite Hfresh, En, Hn. rewrite orb_true_r. reflexivity.
      - rewrite orb_false_r. specialize (Inv s). destruct (dget s vals); exact Inv. }
    assert (BasisKept : forall v', dget "basis" (vals ++ [(name, v')]) = Some (WBasis nbf)).
    { intro v'. rewrite dget_app_single, Hb. reflexivity. }
    assert (Others : forall v' k, String.eqb k name = false -> dget k (vals ++ [(name, v')]) = dget k vals).
    { intros v' k Hk. rewrite dget_app_single, Hk. destruct (dget k vals); reflexivity. }
    unfold wfn_field, field_ok.
    destruct (dget name w) as [v|] eqn:En.
    - destruct kind as [| |[t|] decl|]; destruct v as [|b|n|s|a];
        try (split; [reflexivity|discriminate]);
        try (split; [reflexivity|intros _; split; [apply (Added _ _ eq_refl); reflexivity|split; [apply BasisKept|apply Others]]]).
      + (* array with a rule *)
        assert (Eb : (if uses_nbf t then dget "basis" vals else Some (WBasis 0)) = Some (WBasis (if uses_nbf t then nbf else 0))).
        { destruct (uses_nbf t); [exact Hb|reflexivity]. }
        rewrite Eb. unfold fits, reshape.
        destruct (reshape_dims (zlen (dat a)) (inst (if uses_nbf t then nbf else 0) 0 t)) as [sh|k]; simpl.
        * split; [reflexivity|]. intros _. split; [apply (Added _ _ eq_refl); reflexivity|split; [apply BasisKept|apply Others]].
        * split; [reflexivity|discriminate].
      + (* pointer *)
        pose proof (Inv s) as Is. unfold nonnone in Is at 1.
        destruct (dget s vals) as [[| | | |]|]; rewrite <- Is; simpl;
          try (split; [reflexivity|discriminate]);
          (split; [reflexivity|intros _; split; [apply (Added _ _ eq_refl); reflexivity|split; [apply BasisKept|apply Others]]]).
    - destruct kind; simpl;
        try (split; [reflexivity|discriminate]);
        (split; [reflexivity|intros _; split; [apply Absent; reflexivity|split; [exact Hb|reflexivity]]]).
  Qed.

  Lemma run_ok : forall fs vals earlier,
    acc_inv earlier vals ->
    dget "basis" vals = Some (WBasis nbf) ->
    nodupb (keys fs) = true ->
    (forall k, smem k (keys fs) = true -> dget k vals = None) ->
    smem "basis" (keys fs) = false ->
    snd (run fs w (vals, false)) = negb (fields_ok w nbf earlier fs).
  Proof.
    induction fs as [|[name kind] r IH]; intros vals earlier Inv Hb ND Hfresh Hnb; [reflexivity|].
    simpl in ND. apply andb_true_iff in ND. destruct ND as [Hnot ND]. apply negb_true_iff in Hnot.
    unfold keys in Hnb. cbn [map smem existsb fst] in Hnb. apply orb_false_iff in Hnb. destruct Hnb as [Hnb0 Hnb].
    assert (Hname : dget name vals = None) by (apply Hfresh; simpl; rewrite String.eqb_refl; reflexivity).
    pose proof (step_ok vals earlier name kind Inv Hb Hname Hnb0) as S.
    unfold run in *. cbn [fold_left fields_ok fst].
    destruct (wfn_field w (vals, false) (name, kind)) as [vals1 b1]. destruct S as [E1 S].
    destruct b1.
    - pose proof (run_bad_sticky r w vals1) as St. unfold run in St. rewrite St.
      apply (f_equal negb) in E1. rewrite negb_involutive in E1. cbn [negb] in E1. rewrite <- E1. reflexivity.
    - destruct (S eq_refl) as [Inv1 [Hb1 Oth]].
      apply (f_equal negb) in E1. rewrite negb_involutive in E1. cbn [negb] in E1. rewrite <- E1. cbn [andb].
      apply IH; try assumption.
      intros k Hk. rewrite Oth.
      + apply Hfresh. simpl. rewrite Hk. apply orb_true_r.
      + destruct (String.eqb_spec k name) as [->|]; [|reflexivity]. unfold keys in *. congruence.
  Qed.
End Fold.

Lemma tl_fields_nodup' : nodupb (keys (tl wfn_fields)) = true.
Proof. vm_compute. reflexivity. Qed.
Lemma tl_fields_no_basis' : smem "basis" (keys (tl wfn_fields)) = false.
Proof. vm_compute. reflexivity. Qed.
Lemma wfn_fields_basis_first' : wfn_fields = ("basis", FBasis) :: tl wfn_fields.
Proof. reflexivity. Qed.

Lemma first_step w : wfn_field w ([], false) ("basis", FBasis)
  = match dget "basis" w with Some (WBasis n) => ([("basis", WBasis n)], false) | _ => ([], true) end.
Proof. unfold wfn_field. destruct (dget "basis" w) as [[| | | |]|]; reflexivity. Qed.

Lemma bad_start_rejects w fs vals :
  ~ exists w', (let '(values, bad) := fold_left (wfn_field w) fs (vals, true) in if bad then Err Validation else Ok values) = Ok w'.
Proof.
  pose proof (run_bad_sticky fs w vals) as St. unfold run in St.
  destruct (fold_left (wfn_field w) fs (vals, true)) as [vv bb]. cbn [snd] in St. subst bb. intros [w' H]. discriminate.
Qed.

Lemma accepts_iff_gen w fs : nodupb (keys fs) = true -> smem "basis" (keys fs) = false ->
  (exists w', (let '(values, bad) := run (("basis", FBasis) :: fs) w ([], false) in
               if bad then Err Validation else Ok values) = Ok w')
  <-> match dget "basis" w with Some (WBasis n) => fields_ok w n [] (("basis", FBasis) :: fs) | _ => false end = true.
Proof.
  intros ND NB. unfold run. cbn [fold_left]. rewrite first_step.
  destruct (dget "basis" w) as [[| | nbf | |]|] eqn:Eb;
    try (split; [intro H; destruct (bad_start_rejects w fs [] H)|discriminate]).
  cbn [fields_ok fst app]. unfold field_ok at 1. rewrite Eb. cbn [andb].
  assert (Inv0 : acc_inv w ["basis"] [("basis", WBasis nbf)]).
  { intro s. cbn [dget smem existsb]. destruct (String.eqb_spec s "basis") as [->|]; [rewrite Eb; reflexivity|reflexivity]. }
  assert (Hfresh : forall k, smem k (keys fs) = true -> dget k [("basis", WBasis nbf)] = None).
  { intros k Hk. cbn [dget]. destruct (String.eqb_spec k "basis"); [|reflexivity]. subst. rewrite NB in Hk. discriminate. }
  remember (fold_left (wfn_field w) fs ([("basis", WBasis nbf)], false)) as res eqn:Eres.
  assert (R : snd res = negb (fields_ok w nbf ["basis"] fs)).
  { subst res. exact (run_ok w nbf fs [("basis", WBasis nbf)] ["basis"] Inv0 eq_refl ND Hfresh NB). }
  clear Eres. destruct res as [values bad]. simpl in R. subst bad.
  destruct (fields_ok w nbf ["basis"] fs); cbn [negb]; split; try discriminate.
  - reflexivity.
  - intros _. eexists; reflexivity.
  - intros [w' H]; discriminate.
Qed.

(** WavefunctionProperties built from the dictionary w is accepted  iff  w is acceptable *)
Theorem wfn_validate_accepts_iff w : (exists w', wfn_validate w = Ok w') <-> wfn_acceptable w = true.
Proof.
  unfold wfn_validate, wfn_acceptable.
  destruct (forallb (fun k => smem k (keys wfn_fields)) (keys w)); cbn [negb andb];
    [|split; [intros [w' H]; discriminate|discriminate]].
  exact (accepts_iff_gen w (tl wfn_fields) tl_fields_nodup' tl_fields_no_basis').
Qed.

(** Every array field is declared before every return pointer (finite check on the generated table): a pointer that names an
    array field is accepted iff that array is present (and not None) — "the arrays they point to". *)
Fixpoint arrays_before_pointers (seen_ptr : bool) (fs : list (string * fkind)) : bool :=
  match fs with
  | [] => true
  | (_, FPtr) :: r => arrays_before_pointers true r
  | (_, FArr _ _) :: r => negb seen_ptr && arrays_before_pointers seen_ptr r
  | _ :: r => arrays_before_pointers seen_ptr r
  end.
Lemma wfn_arrays_before_pointers : arrays_before_pointers false wfn_fields = true.
Proof. vm_compute. reflexivity. Qed.

(** every field of an accepted dictionary is ok with the names declared before it *)
Lemma fields_ok_split w nbf : forall fs earlier pre f post,
  fields_ok w nbf earlier fs = true -> fs = pre ++ f :: post -> field_ok w nbf (earlier ++ keys pre) f = true.
Proof.
  induction fs as [|g r IH]; intros earlier pre f post H E.
  - destruct pre; discriminate.
  - cbn [fields_ok] in H. apply andb_true_iff in H. destruct H as [Hg Hr].
    destruct pre as [|p pre'].
    + simpl in E. inversion E; subst g r. unfold keys. simpl. rewrite app_nil_r. exact Hg.
    + simpl in E. inversion E; subst p r.
      pose proof (IH (earlier ++ [fst g]) pre' f post Hr eq_refl) as P.
      unfold keys in *. cbn [map]. rewrite <- app_assoc in P. exact P.
Qed.

Lemma wfn_validate_err' w k : wfn_validate w = Err k -> k = Validation.
Proof.
  unfold wfn_validate. destruct (negb (forallb _ (keys w))); [intro H; inversion H; reflexivity|].
  destruct (fold_left (wfn_field w) wfn_fields ([], false)) as [values bad]. destruct bad; intro H; inversion H. reflexivity.
Qed.

(** the refusing half, field by field: a dictionary with ONE field that is not ok is refused with a validation error, whatever
    the other fields are *)
Theorem wfn_validate_rejects_field w nbf pre f post :
  wfn_fields = pre ++ f :: post -> dget "basis" w = Some (WBasis nbf) ->
  field_ok w nbf (keys pre) f = false -> wfn_validate w = Err Validation.
Proof.
  intros E Eb Hf. destruct (wfn_validate w) as [w'|k] eqn:Ev.
  - exfalso. assert (A : wfn_acceptable w = true) by (apply wfn_validate_accepts_iff; exists w'; exact Ev).
    unfold wfn_acceptable in A. apply andb_true_iff in A. destruct A as [_ A]. rewrite Eb in A.
    pose proof (fields_ok_split w nbf wfn_fields [] pre f post A E) as P. simpl in P. congruence.
  - rewrite (wfn_validate_err' w k Ev). reflexivity.
Qed.

(** a return pointer whose target is absent or None is refused *)
Corollary wfn_validate_rejects_dangling w nbf name s :
  In (name, FPtr) wfn_fields -> dget "basis" w = Some (WBasis nbf) ->
  dget name w = Some (WStr s) -> nonnone (dget s w) = false -> wfn_validate w = Err Validation.
Proof.
  intros Hin Eb En Hs. destruct (in_split _ _ Hin) as [pre [post E]].
  apply (wfn_validate_rejects_field w nbf pre (name, FPtr) post E Eb).
  unfold field_ok. rewrite En, Hs. apply andb_false_r.
Qed.

(** an array with a reshape rule whose size does not fit the rule for the object's own nbf is refused (also: given as None) *)
Corollary wfn_validate_rejects_unfit w nbf name t d :
  In (name, FArr (Some t) d) wfn_fields -> dget "basis" w = Some (WBasis nbf) ->
  match dget name w with
  | Some (WArr a) => fits a (inst (if uses_nbf t then nbf else 0) 0 t) = false
  | Some _ => True
  | None => False
  end -> wfn_validate w = Err Validation.
Proof.
  intros Hin Eb H. destruct (in_split _ _ Hin) as [pre [post E]].
  apply (wfn_validate_rejects_field w nbf pre _ post E Eb).
  unfold field_ok. destruct (dget name w) as [[| | | |a]|]; try reflexivity; [exact H|destruct H].
Qed.

(** satisfiable, and not vacuous: a 2-function basis with a flat 4-element Fock matrix, 2x1 orbitals and two pointers is
    acceptable; the same with a 3-element Fock matrix, or with a pointer to the absent scf_density_a, or with a pointer that names
    a LATER pointer, is not *)
Definition ex_w (fock : list Z) (ptr : string) : wdict :=
  [("restricted", WBool false); ("basis", WBasis 2); ("scf_fock_a", WArr {| dat := fock; shp := [zlen fock] |});
   ("scf_orbitals_a", WArr {| dat := [1; 2]; shp := [2] |}); ("orbitals_a", WStr "scf_orbitals_a"); ("fock_a", WStr ptr)].
Example ex_acceptable :
  wfn_acceptable (ex_w [1; 2; 3; 4] "scf_fock_a") = true /\ wfn_acceptable (ex_w [1; 2; 3] "scf_fock_a") = false
  /\ wfn_acceptable (ex_w [1; 2; 3; 4] "scf_density_a") = false
  /\ wfn_acceptable (ex_w [1; 2; 3; 4] "orbitals_a") = true /\ wfn_acceptable (ex_w [1; 2; 3; 4] "eigenvalues_a") = false.
Proof. vm_compute. repeat split. Qed.
