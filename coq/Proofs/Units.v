(** C03 — proofs about Model/Units.v. *)
From Coq Require Import ZArith QArith Qpower Qabs Qfield List String Ascii Bool Lia.
Require Import QV.Common.Outcome QV.Common.DecC02 QV.Common.StrC02 QV.Common.UnitsC03.
Require Import QV.Gen.Codata2014 QV.Gen.Codata2018 QV.Gen.UregDefs.
Require Import QV.Model.Units.
Import ListNotations.
Open Scope Q_scope.

(** * Dimensions *)
Lemma dim_eqb_eq : forall a b, dim_eqb a b = true <-> a = b.
Proof.
  intros [a1 a2 a3 a4 a5 a6 a7] [b1 b2 b3 b4 b5 b6 b7]; unfold dim_eqb; simpl.
  rewrite !andb_true_iff, !Z.eqb_eq. split.
  - intros [[[[[[-> ->] ->] ->] ->] ->] ->]. reflexivity.
  - intro H; injection H; intros; subst; tauto.
Qed.
Lemma dim_eqb_refl : forall a, dim_eqb a a = true.
Proof. intro a. apply dim_eqb_eq. reflexivity. Qed.
Lemma dim_eqb_sym : forall a b, dim_eqb a b = dim_eqb b a.
Proof.
  intros a b. destruct (dim_eqb a b) eqn:E.
  - apply dim_eqb_eq in E; subst. symmetry; apply dim_eqb_refl.
  - destruct (dim_eqb b a) eqn:E2; [|reflexivity]. apply dim_eqb_eq in E2; subst. rewrite dim_eqb_refl in E. discriminate.
Qed.
Lemma dadd_zero_l : forall a, dadd dzero a = a.
Proof. intros []; unfold dadd, dzero; simpl. reflexivity. Qed.
Lemma dadd_zero_r : forall a, dadd a dzero = a.
Proof. intros []; unfold dadd, dzero; simpl. f_equal; lia. Qed.
Lemma dadd_comm : forall a b, dadd a b = dadd b a.
Proof. intros [] []; unfold dadd; simpl; f_equal; lia. Qed.
Lemma dadd_assoc : forall a b c, dadd a (dadd b c) = dadd (dadd a b) c.
Proof. intros [] [] []; unfold dadd; simpl; f_equal; lia. Qed.
Lemma dscale_add : forall n m a, dscale (n + m) a = dadd (dscale n a) (dscale m a).
Proof. intros n m []; unfold dadd, dscale; simpl; f_equal; lia. Qed.
Lemma dscale_zero : forall a, dscale 0 a = dzero.
Proof. intros []; unfold dscale, dzero; simpl; reflexivity. Qed.
Lemma dscale_dadd : forall n a b, dscale n (dadd a b) = dadd (dscale n a) (dscale n b).
Proof. intros n [] []; unfold dadd, dscale; simpl; f_equal; lia. Qed.
Lemma dscale_dscale : forall n m a, dscale n (dscale m a) = dscale (m * n) a.
Proof. intros n m []; unfold dscale; simpl; f_equal; lia. Qed.
Lemma dscale_one : forall a, dscale 1 a = a.
Proof. intros [a1 a2 a3 a4 a5 a6 a7]; unfold dscale; cbn [dL dM dT dI dK dN dJ]; f_equal; lia. Qed.
Lemma dscale_dzero : forall n, dscale n dzero = dzero.
Proof. intros n; unfold dscale, dzero; simpl; f_equal; lia. Qed.

(** * Keys *)
Lemma key_eqb_eq : forall a b, key_eqb a b = true -> a = b.
Proof.
  intros [a1 a2] [b1 b2]; unfold key_eqb; simpl. rewrite andb_true_iff, !String.eqb_eq. intros [-> ->]. reflexivity.
Qed.

Lemma pow10Q_nz : forall k, ~ pow10Q k == 0.
Proof.
  intro k. unfold pow10Q. destruct (0 <=? k)%Z eqn:E.
  - apply Z.leb_le in E. unfold Qeq; simpl. pose proof (Z.pow_pos_nonneg 10 k ltac:(lia) E). lia.
  - unfold Qeq; simpl. lia.
Qed.

Lemma prefix_scale_nz : forall p s, prefix_scale p = Some s -> ~ s == 0.
Proof.
  intros p s H. unfold prefix_scale in H. destruct (String.eqb p "").
  - injection H as <-. unfold Qeq; simpl; lia.
  - destruct (find _ prefix_table) as [[q k]|]; [|discriminate]. injection H as <-. apply pow10Q_nz.
Qed.

(** * Laws, for any registry whose magnitudes are non-zero *)
Section Laws.
  Variable rg : string -> option (Q * dimvec).
  Variable nist_names : list string.
  Hypothesis reg_nz : forall n m d, rg n = Some (m, d) -> ~ m == 0.

  Lemma atom_mag_nz : forall k, ~ atom_mag rg k == 0.
  Proof.
    intro k. unfold atom_mag, atom_md.
    destruct (prefix_scale (fst k)) as [s|] eqn:P; [|unfold Qeq; simpl; lia].
    destruct (rg (snd k)) as [[m d]|] eqn:R; [|unfold Qeq; simpl; lia].
    intro H. apply Qmult_integral in H. destruct H as [H|H].
    - exact (prefix_scale_nz _ _ P H).
    - exact (reg_nz _ _ _ R H).
  Qed.

  Lemma cmag_nz : forall c, ~ cmag rg c == 0.
  Proof.
    induction c as [|[k e] r IH]; cbn [cmag].
    - unfold Qeq; simpl; lia.
    - intro H. apply Qmult_integral in H. destruct H as [H|H]; [|exact (IH H)].
      exact (Qpower_not_0 _ e (atom_mag_nz k) H).
  Qed.

  Ltac nz := repeat split; first [apply cmag_nz | assumption | apply Qpower_not_0, atom_mag_nz].

  Lemma cadd_mag : forall k e c, cmag rg (cadd k e c) == Qpower (atom_mag rg k) e * cmag rg c.
  Proof.
    intros k e c. induction c as [|[k' e'] r IH]; cbn [cadd cmag].
    - destruct (e =? 0)%Z eqn:E; cbn [cmag].
      + apply Z.eqb_eq in E; subst. rewrite Qpower_0_r. ring.
      + reflexivity.
    - destruct (key_eqb k k') eqn:K.
      + apply key_eqb_eq in K; subst k'. destruct (e' + e =? 0)%Z eqn:E.
        * apply Z.eqb_eq in E. rewrite Qmult_assoc, <- (Qpower_plus _ e e' (atom_mag_nz k)).
          replace (e + e')%Z with 0%Z by lia. rewrite Qpower_0_r. ring.
        * cbn [cmag]. rewrite (Qpower_plus _ e' e (atom_mag_nz k)). ring.
      + cbn [cmag]. rewrite IH. ring.
  Qed.

  Lemma cadd_dim : forall k e c, cdim rg (cadd k e c) = dadd (dscale e (atom_dim rg k)) (cdim rg c).
  Proof.
    intros k e c. induction c as [|[k' e'] r IH]; cbn [cadd cdim].
    - destruct (e =? 0)%Z eqn:E; cbn [cdim].
      + apply Z.eqb_eq in E; subst. rewrite dscale_zero. reflexivity.
      + reflexivity.
    - destruct (key_eqb k k') eqn:K.
      + apply key_eqb_eq in K; subst k'. destruct (e' + e =? 0)%Z eqn:E.
        * apply Z.eqb_eq in E. rewrite dadd_assoc, <- dscale_add. replace (e + e')%Z with 0%Z by lia.
          rewrite dscale_zero, dadd_zero_l. reflexivity.
        * cbn [cdim]. rewrite dscale_add, dadd_assoc. f_equal. apply dadd_comm.
      + cbn [cdim]. rewrite IH, !dadd_assoc. f_equal. apply dadd_comm.
  Qed.

  Lemma cmul_mag : forall b a, cmag rg (cmul a b) == cmag rg a * cmag rg b.
  Proof.
    unfold cmul. induction b as [|[k e] r IH]; intro a; cbn [fold_left cmag fst snd].
    - ring.
    - rewrite IH, cadd_mag. ring.
  Qed.
  Lemma cmul_dim : forall b a, cdim rg (cmul a b) = dadd (cdim rg a) (cdim rg b).
  Proof.
    unfold cmul. induction b as [|[k e] r IH]; intro a; cbn [fold_left cdim fst snd].
    - rewrite dadd_zero_r. reflexivity.
    - rewrite IH, cadd_dim. rewrite !dadd_assoc. f_equal. apply dadd_comm.
  Qed.

  Lemma cdiv_mag : forall b a, cmag rg (cdiv a b) == cmag rg a / cmag rg b.
  Proof.
    unfold cdiv. induction b as [|[k e] r IH]; intro a; cbn [fold_left cmag fst snd].
    - field.
    - rewrite IH, cadd_mag, Qpower_opp. field; nz.
  Qed.
  Lemma cdiv_dim : forall b a, cdim rg (cdiv a b) = dsub (cdim rg a) (cdim rg b).
  Proof.
    unfold cdiv, dsub. induction b as [|[k e] r IH]; intro a; cbn [fold_left cdim fst snd].
    - rewrite dscale_dzero, dadd_zero_r. reflexivity.
    - rewrite IH, cadd_dim, dscale_dadd, dscale_dscale. replace (e * -1)%Z with (- e)%Z by lia.
      rewrite !dadd_assoc. f_equal. apply dadd_comm.
  Qed.

  Lemma cpow_mag : forall n c, cmag rg (cpow c n) == Qpower (cmag rg c) n.
  Proof.
    intros n c. unfold cpow. induction c as [|[k e] r IH]; cbn [map cmag fst snd].
    - rewrite Qpower_1. reflexivity.
    - rewrite IH, Qmult_power, Qpower_mult. reflexivity.
  Qed.
  Lemma cpow_dim : forall n c, cdim rg (cpow c n) = dscale n (cdim rg c).
  Proof.
    intros n c. unfold cpow. induction c as [|[k e] r IH]; cbn [map cdim fst snd].
    - rewrite dscale_dzero. reflexivity.
    - rewrite IH, dscale_dadd, dscale_dscale. reflexivity.
  Qed.

  (** the algebraic meaning of an expression: product of powers of atom magnitudes / sum of dimensions *)
  Fixpoint emag (e : uexpr) : Q :=
    match e with
    | UNum q => q
    | UAtom p b => atom_mag rg (p, b)
    | UMul a b => emag a * emag b
    | UDiv a b => emag a / emag b
    | UPow a n => Qpower (emag a) n
    end.
  Fixpoint edim (e : uexpr) : dimvec :=
    match e with
    | UNum q => dzero
    | UAtom p b => atom_dim rg (p, b)
    | UMul a b => dadd (edim a) (edim b)
    | UDiv a b => dsub (edim a) (edim b)
    | UPow a n => dscale n (edim a)
    end.

  (** pint's container bookkeeping (ordered dict, merged exponents, deleted zeros) is faithful to that meaning *)
  Lemma parse_sem : forall e k c, parse rg e = Ok (k, c) -> k * cmag rg c == emag e /\ cdim rg c = edim e.
  Proof.
    induction e as [p b|q|a IHa b IHb|a IHa b IHb|a IHa n]; intros k c H; cbn [parse] in H.
    - destruct (atom_md rg (p, b)); [|discriminate]. injection H as <- <-. cbn [cmag cdim emag edim]. split.
      + change (Qpower (atom_mag rg (p, b)) 1) with (atom_mag rg (p, b)). ring.
      + rewrite dadd_zero_r. apply dscale_one.
    - injection H as <- <-. cbn [cmag cdim emag edim]. split; [ring | reflexivity].
    - destruct (parse rg a) as [[ka ca]|] eqn:Ea; [|discriminate]. destruct (parse rg b) as [[kb cb]|] eqn:Eb; [|discriminate].
      cbn [obind fst snd] in H. injection H as <- <-.
      destruct (IHa _ _ eq_refl) as [A1 A2]. destruct (IHb _ _ eq_refl) as [B1 B2].
      cbn [emag edim]. rewrite cmul_mag, cmul_dim, <- A1, <- B1, A2, B2. split; [ring | reflexivity].
    - destruct (parse rg a) as [[ka ca]|] eqn:Ea; [|discriminate]. destruct (parse rg b) as [[kb cb]|] eqn:Eb; [|discriminate].
      cbn [obind fst snd] in H. destruct (Qeq_bool kb 0) eqn:Z; [discriminate|]. injection H as <- <-.
      apply Qeq_bool_neq in Z.
      destruct (IHa _ _ eq_refl) as [A1 A2]. destruct (IHb _ _ eq_refl) as [B1 B2].
      cbn [emag edim]. rewrite cdiv_mag, cdiv_dim, <- A1, <- B1, A2, B2. split; [|reflexivity].
      field; nz.
    - destruct (parse rg a) as [[ka ca]|] eqn:Ea; [|discriminate].
      cbn [obind fst snd] in H. destruct (Qeq_bool ka 0 && (n <? 0)%Z); [discriminate|]. injection H as <- <-.
      destruct (IHa _ _ eq_refl) as [A1 A2].
      cbn [emag edim]. rewrite cpow_mag, cpow_dim, <- A1, A2, Qmult_power. split; reflexivity.
  Qed.

  (** ** same-dimension conversions: no context is consulted, the factor is the ratio of SI magnitudes *)
  Lemma conv_same_dim : forall a b ka ca kb cb,
    parse rg a = Ok (ka, ca) -> parse rg b = Ok (kb, cb) -> ~ kb == 0 ->
    dim_eqb (cdim rg ca) (cdim rg cb) = true ->
    conv rg nist_names a b = Ok (Qred (ka / kb * cmag rg ca / cmag rg cb)).
  Proof.
    intros a b ka ca kb cb Ha Hb Hk Hd. unfold conv. rewrite Ha, Hb. cbn [obind fst snd].
    destruct (Qeq_bool kb 0) eqn:Z; [apply Qeq_bool_eq in Z; contradiction|].
    unfold find_path. rewrite Hd. cbn [apply_hops obind fst snd]. rewrite Hd. reflexivity.
  Qed.

  Theorem same_dimension_is_SI_ratio : forall a b ka ca kb cb,
    parse rg a = Ok (ka, ca) -> parse rg b = Ok (kb, cb) -> ~ kb == 0 -> edim a = edim b ->
    exists v, conv rg nist_names a b = Ok v /\ v == emag a / emag b.
  Proof.
    intros a b ka ca kb cb Ha Hb Hk Hd.
    destruct (parse_sem _ _ _ Ha) as [A1 A2]. destruct (parse_sem _ _ _ Hb) as [B1 B2].
    eexists. split.
    - apply (conv_same_dim a b ka ca kb cb Ha Hb Hk). apply dim_eqb_eq. congruence.
    - rewrite Qred_correct, <- A1, <- B1. field; nz.
  Qed.

  Theorem law_diagonal : forall a k c, parse rg a = Ok (k, c) -> ~ k == 0 ->
    exists v, conv rg nist_names a a = Ok v /\ v == 1.
  Proof.
    intros a k c Ha Hk. eexists. split.
    - apply (conv_same_dim a a k c k c Ha Ha Hk). apply dim_eqb_refl.
    - rewrite Qred_correct. field; nz.
  Qed.

  Theorem law_reciprocal : forall a b ka ca kb cb,
    parse rg a = Ok (ka, ca) -> parse rg b = Ok (kb, cb) -> ~ ka == 0 -> ~ kb == 0 ->
    cdim rg ca = cdim rg cb ->
    exists v w, conv rg nist_names a b = Ok v /\ conv rg nist_names b a = Ok w /\ v * w == 1.
  Proof.
    intros a b ka ca kb cb Ha Hb Hka Hkb Hd. eexists. eexists. split; [|split].
    - apply (conv_same_dim a b ka ca kb cb Ha Hb Hkb). apply dim_eqb_eq. exact Hd.
    - apply (conv_same_dim b a kb cb ka ca Hb Ha Hka). apply dim_eqb_eq. symmetry. exact Hd.
    - rewrite !Qred_correct. field; nz.
  Qed.

  Theorem law_chain : forall a b c ka ca kb cb kc cc,
    parse rg a = Ok (ka, ca) -> parse rg b = Ok (kb, cb) -> parse rg c = Ok (kc, cc) -> ~ kb == 0 -> ~ kc == 0 ->
    cdim rg ca = cdim rg cb -> cdim rg cb = cdim rg cc ->
    exists u v w, conv rg nist_names a b = Ok u /\ conv rg nist_names b c = Ok v /\ conv rg nist_names a c = Ok w /\ u * v == w.
  Proof.
    intros a b c ka ca kb cb kc cc Ha Hb Hc Hkb Hkc Hab Hbc. do 3 eexists. split; [|split; [|split]].
    - apply (conv_same_dim a b ka ca kb cb Ha Hb Hkb). apply dim_eqb_eq. exact Hab.
    - apply (conv_same_dim b c kb cb kc cc Hb Hc Hkc). apply dim_eqb_eq. exact Hbc.
    - apply (conv_same_dim a c ka ca kc cc Ha Hc Hkc). apply dim_eqb_eq. congruence.
    - rewrite !Qred_correct. field; nz.
  Qed.

  Lemma parse_scaled : forall k a ka ca, parse rg a = Ok (ka, ca) ->
    parse rg (UMul (UNum k) a) = Ok (k * ka, cmul [] ca).
  Proof. intros k a ka ca Ha. cbn [parse]. rewrite Ha. reflexivity. Qed.

  Lemma cmul_nil_mag : forall c, cmag rg (cmul [] c) == cmag rg c.
  Proof. intro c. rewrite cmul_mag. cbn [cmag]. ring. Qed.
  Lemma cmul_nil_dim : forall c, cdim rg (cmul [] c) = cdim rg c.
  Proof. intro c. rewrite cmul_dim. cbn [cdim]. apply dadd_zero_l. Qed.

  Theorem law_linear_source : forall k a b ka ca kb cb,
    parse rg a = Ok (ka, ca) -> parse rg b = Ok (kb, cb) -> ~ kb == 0 -> cdim rg ca = cdim rg cb ->
    exists v w, conv rg nist_names a b = Ok v /\ conv rg nist_names (UMul (UNum k) a) b = Ok w /\ w == k * v.
  Proof.
    intros k a b ka ca kb cb Ha Hb Hkb Hd. do 2 eexists. split; [|split].
    - apply (conv_same_dim a b ka ca kb cb Ha Hb Hkb). apply dim_eqb_eq. exact Hd.
    - apply (conv_same_dim _ b _ _ kb cb (parse_scaled k a ka ca Ha) Hb Hkb). apply dim_eqb_eq. rewrite cmul_nil_dim. exact Hd.
    - rewrite !Qred_correct, cmul_nil_mag. field; nz.
  Qed.

  Theorem law_linear_target : forall k a b ka ca kb cb,
    parse rg a = Ok (ka, ca) -> parse rg b = Ok (kb, cb) -> ~ kb == 0 -> ~ k == 0 -> cdim rg ca = cdim rg cb ->
    exists v w, conv rg nist_names a b = Ok v /\ conv rg nist_names a (UMul (UNum k) b) = Ok w /\ w == v / k.
  Proof.
    intros k a b ka ca kb cb Ha Hb Hkb Hk Hd. do 2 eexists. split; [|split].
    - apply (conv_same_dim a b ka ca kb cb Ha Hb Hkb). apply dim_eqb_eq. exact Hd.
    - apply (conv_same_dim a _ ka ca _ _ Ha (parse_scaled k b kb cb Hb)).
      + intro Z. apply Qmult_integral in Z. tauto.
      + apply dim_eqb_eq. rewrite cmul_nil_dim. exact Hd.
    - rewrite !Qred_correct, cmul_nil_mag. field; nz.
  Qed.

  (** ** physically unrelated dimensions: an error, never a number *)
  Definition is_bridge_source (d : dimvec) : bool :=
    existsb (fun e => dim_eqb (dim_of_list (fst (fst e))) d) bridges.

  Lemma find_path_no_source : forall a b, is_bridge_source a = false -> dim_eqb a b = false -> find_path a b = [].
  Proof.
    intros a b Hs Hd. unfold find_path. rewrite Hd.
    assert (F : forall (g : list Z * list Z * hop -> bool),
               find (fun e => dim_eqb (dim_of_list (fst (fst e))) a && g e) bridges = None).
    { intro g. unfold is_bridge_source in Hs. induction bridges as [|e r IH]; [reflexivity|].
      cbn [existsb] in Hs. apply orb_false_iff in Hs. destruct Hs as [H1 H2].
      cbn [find]. rewrite H1. cbn [andb]. apply IH. exact H2. }
    unfold edge_from_to. rewrite (F (fun e => dim_eqb (dim_of_list (snd (fst e))) b)).
    rewrite (F (fun e => match (match find (fun e0 => dim_eqb (dim_of_list (fst (fst e0))) (dim_of_list (snd (fst e))) && dim_eqb (dim_of_list (snd (fst e0))) b) bridges with
                                | Some (_, h) => Some h | None => None end) with Some _ => true | None => false end)).
    reflexivity.
  Qed.

  Theorem unrelated_dims_error : forall a b ka ca kb cb,
    parse rg a = Ok (ka, ca) -> parse rg b = Ok (kb, cb) -> ~ kb == 0 ->
    cdim rg ca <> cdim rg cb -> is_bridge_source (cdim rg ca) = false ->
    conv rg nist_names a b = Err Dimensionality.
  Proof.
    intros a b ka ca kb cb Ha Hb Hk Hd Hs. unfold conv. rewrite Ha, Hb. cbn [obind fst snd].
    destruct (Qeq_bool kb 0) eqn:Z; [apply Qeq_bool_eq in Z; contradiction|].
    assert (E : dim_eqb (cdim rg ca) (cdim rg cb) = false).
    { destruct (dim_eqb (cdim rg ca) (cdim rg cb)) eqn:E; [|reflexivity]. apply dim_eqb_eq in E. contradiction. }
    rewrite (find_path_no_source _ _ Hs E). cbn [apply_hops obind fst snd]. rewrite E. reflexivity.
  Qed.

  (** a conversion never returns a number when the dimensions finally disagree — whatever the path *)
  Theorem number_implies_dimension_reached : forall a b v,
    conv rg nist_names a b = Ok v ->
    exists pa pb x, parse rg a = Ok pa /\ parse rg b = Ok pb
      /\ apply_hops rg nist_names (find_path (cdim rg (snd pa)) (cdim rg (snd pb))) ((fst pa / fst pb)%Q, snd pa) = Ok x
      /\ cdim rg (snd x) = cdim rg (snd pb).
  Proof.
    intros a b v H. unfold conv in H.
    destruct (parse rg a) as [pa|] eqn:Ea; [|discriminate]. destruct (parse rg b) as [pb|] eqn:Eb; [|discriminate].
    cbn [obind] in H. destruct (Qeq_bool (fst pb) 0); [discriminate|].
    destruct (apply_hops rg nist_names _ _) as [x|] eqn:Ex; [|discriminate]. cbn [obind] in H.
    destruct (dim_eqb (cdim rg (snd x)) (cdim rg (snd pb))) eqn:D; [|discriminate].
    exists pa, pb, x. split; [reflexivity|]. split; [reflexivity|]. split; [exact Ex|]. apply dim_eqb_eq. exact D.
  Qed.
End Laws.

(** * Single-atom sources across a bridge: the hop part does not depend on the target expression *)
Section Hops.
  Variable rg : string -> option (Q * dimvec).
  Variable nist_names : list string.
  Hypothesis reg_nz : forall n m d, rg n = Some (m, d) -> ~ m == 0.

  Definition hop_rel (k : Q) (x y : outcome (Q * ucont)) : Prop :=
    match x, y with
    | Ok (f, c1), Ok (f2, c2) => c1 = c2 /\ f2 == k * f
    | Err e1, Err e2 => e1 = e2
    | _, _ => False
    end.

  Lemma apply_hop_scale : forall h k a b c, b == k * a ->
    hop_rel k (apply_hop rg nist_names h (a, c)) (apply_hop rg nist_names h (b, c)).
  Proof.
    intros h k a b c H. destruct h as [r d| |]; cbn [apply_hop fst snd hop_rel].
    - destruct (find_nist_unit nist_names c) as [l|].
      + destruct (resolve_name rg (l ++ "_to_" ++ r)); cbn [hop_rel]; [split; [reflexivity | exact H] | reflexivity].
      + destruct (parse rg d) as [[kd cd]|e]; cbn [obind fst snd hop_rel]; [|reflexivity].
        split; [reflexivity|]. rewrite H. ring.
    - split; [reflexivity | exact H].
    - split; [reflexivity | exact H].
  Qed.

  Lemma apply_hops_scale : forall hs k a b c, b == k * a ->
    hop_rel k (apply_hops rg nist_names hs (a, c)) (apply_hops rg nist_names hs (b, c)).
  Proof.
    induction hs as [|h r IH]; intros k a b c H; cbn [apply_hops].
    - cbn [hop_rel]. split; [reflexivity | exact H].
    - pose proof (apply_hop_scale h k a b c H) as S.
      destruct (apply_hop rg nist_names h (a, c)) as [[f c1]|e1]; destruct (apply_hop rg nist_names h (b, c)) as [[f2 c2]|e2];
        cbn [hop_rel] in S; try contradiction.
      + destruct S as [<- S]. cbn [obind]. apply IH. exact S.
      + subst. cbn [obind hop_rel]. reflexivity.
  Qed.

  (** conversion of a single (possibly prefixed) unit to ANY target expression, in terms of the hop result computed
      once for the target's dimension *)
  Lemma single_source_conv : forall p b t kt ct f c',
    atom_md rg (p, b) <> None -> parse rg t = Ok (kt, ct) -> ~ kt == 0 ->
    apply_hops rg nist_names (find_path (cdim rg [((p, b), 1%Z)]) (cdim rg ct)) (1, [((p, b), 1%Z)]) = Ok (f, c') ->
    dim_eqb (cdim rg c') (cdim rg ct) = true ->
    exists v, conv rg nist_names (UAtom p b) t = Ok v /\ v == f * cmag rg c' / (kt * cmag rg ct).
  Proof.
    intros p b t kt ct f c' Hd Ht Hk Hh Hdim. unfold conv. cbn [parse].
    destruct (atom_md rg (p, b)); [|contradiction]. rewrite Ht. cbn [obind fst snd].
    destruct (Qeq_bool kt 0) eqn:Z; [apply Qeq_bool_eq in Z; contradiction|].
    assert (S : (1 / kt) == (1 / kt) * 1) by ring.
    pose proof (apply_hops_scale (find_path (cdim rg [((p, b), 1%Z)]) (cdim rg ct)) (1 / kt) 1 (1 / kt) [((p, b), 1%Z)] S) as R.
    unfold ucont, ukey in *. rewrite Hh in R.
    match type of R with hop_rel _ _ ?X => destruct X as [[f2 c2]|e] end; cbn [hop_rel] in R; [|contradiction].
    destruct R as [<- R]. cbn [obind fst snd]. rewrite Hdim. eexists. split; [reflexivity|].
    rewrite Qred_correct, R. field. split; [apply (cmag_nz rg reg_nz) | exact Hk].
  Qed.
End Hops.

(** * The concrete registries *)

Lemma assoc_In : forall {V} k (l : list (string * V)) v, assoc k l = Some v -> In (k, v) l.
Proof.
  intros V k l v. induction l as [|[k' v'] r IH]; cbn [assoc]; [discriminate|].
  destruct (String.eqb k k') eqn:E.
  - apply String.eqb_eq in E. subst. intro H; injection H as <-. left; reflexivity.
  - intro H. right. apply IH. exact H.
Qed.

Lemma reg_nz_ctx : forall c n m d, reg c n = Some (m, d) -> ~ m == 0.
Proof.
  intros c n m d H. unfold reg in H. apply assoc_In in H.
  assert (A : forallb (fun e : string * (Q * dimvec) => negb (Qeq_bool (fst (snd e)) 0)) (table c) = true)
    by (destruct c; vm_compute; reflexivity).
  pose proof (proj1 (forallb_forall _ _) A _ H) as N. cbn [fst snd] in N.
  apply negb_true_iff in N. apply Qeq_bool_neq in N. exact N.
Qed.

Lemma codata_value_some_dec : forall c k q, codata_value c k = Some q -> True.
Proof. trivial. Qed.

(** relative closeness, decided by computation *)
Definition rel_close (tol x y : Q) : bool := Qle_bool (Qabs (x - y)) (tol * Qabs y).
Lemma rel_close_spec : forall tol x y, rel_close tol x y = true -> Qabs (x - y) <= tol * Qabs y.
Proof. intros tol x y H. apply Qle_bool_iff. exact H. Qed.

(** every '<a>-<b> relationship' key of the shipped table splits into exactly two sides (k.split("-") never raises) *)
Definition rel_key_ok (k : string) : bool :=
  if contains "-" k && contains "relationship" k then match split_dash k with Some _ => true | None => false end else true.

(** conversions between the two sides of a published relationship *)
Definition rel_conv (c : cctx) (l r : string) : outcome Q := conv_ctx c (side_expr l) (side_expr r).

(* exact reproduction *)
Definition rel_exact_ok (c : cctx) (x : string * string * string) : bool :=
  let '(l, r, key) := x in
  match rel_conv c l r, codata_value c key with
  | Ok v, Some p => Qeq_bool v p
  | _, _ => false
  end.
Lemma rel_exact_ok_spec : forall c l r key, rel_exact_ok c (l, r, key) = true ->
  exists v p, rel_conv c l r = Ok v /\ codata_value c key = Some p /\ v == p.
Proof.
  intros c l r key H. unfold rel_exact_ok in H.
  destruct (rel_conv c l r) as [v|]; [|discriminate]. destruct (codata_value c key) as [p|]; [|discriminate].
  exists v, p. repeat split; try reflexivity. apply Qeq_bool_eq. exact H.
Qed.

(* every shipped relationship: the conversion either is not offered (two named hops) or agrees to [tol] *)
Definition rel_row_ok (tol : Q) (c : cctx) (row : string * string * string * string * string) : bool :=
  let '(k, _, _, _, _) := row in
  match rel_sides k, codata_value c k with
  | Some (l, r), Some p =>
      match rel_conv c l r with
      | Ok v => rel_close tol v p
      | Err _ => true
      end
  | Some _, None => false
  | None, _ => true
  end.

(* prefix double scaling, decided per (prefix, unit, target dimension) *)
Definition single_hops (c : cctx) (p b : string) (D : dimvec) : outcome (Q * ucont) :=
  apply_hops (reg c) (nist c) (find_path (cdim (reg c) [((p, b), 1%Z)]) D) (1, [((p, b), 1%Z)]).

Definition double_scaled_ok (c : cctx) (x : string * string * dimvec) : bool :=
  let '(p, b, D) := x in
  match prefix_scale p, atom_md (reg c) (p, b), atom_md (reg c) ("", b), single_hops c p b D, single_hops c "" b D with
  | Some s, Some _, Some _, Ok (f, c1), Ok (f0, c0) =>
      dim_eqb (cdim (reg c) c1) D && dim_eqb (cdim (reg c) c0) D
      && Qeq_bool (f * cmag (reg c) c1) (s * s * (f0 * cmag (reg c) c0))
      && negb (Qeq_bool s 1)
  | _, _, _, _, _ => false
  end.

Lemma double_scaled_spec : forall c p b D, double_scaled_ok c (p, b, D) = true ->
  forall t kt ct, parse (reg c) t = Ok (kt, ct) -> ~ kt == 0 -> cdim (reg c) ct = D ->
  exists s v w, prefix_scale p = Some s /\ ~ s == 1
    /\ conv_ctx c (UAtom p b) t = Ok v /\ conv_ctx c (UAtom "" b) t = Ok w /\ v == s * s * w.
Proof.
  intros c p b D H t kt ct Ht Hk HD. unfold double_scaled_ok in H.
  destruct (prefix_scale p) as [s|] eqn:Ps; [|discriminate].
  destruct (atom_md (reg c) (p, b)) eqn:A1; [|discriminate].
  destruct (atom_md (reg c) ("", b)) eqn:A0; [|discriminate].
  destruct (single_hops c p b D) as [[f c1]|] eqn:H1; [|discriminate].
  destruct (single_hops c "" b D) as [[f0 c0]|] eqn:H0; [|discriminate].
  apply andb_true_iff in H; destruct H as [H Hs].
  apply andb_true_iff in H; destruct H as [H Hq].
  apply andb_true_iff in H; destruct H as [Hd1 Hd0].
  apply Qeq_bool_eq in Hq. apply negb_true_iff in Hs. apply Qeq_bool_neq in Hs.
  subst D. unfold single_hops in H1, H0.
  destruct (single_source_conv (reg c) (nist c) (reg_nz_ctx c) p b t kt ct f c1) as [v [Cv Ev]]; auto; try congruence.
  destruct (single_source_conv (reg c) (nist c) (reg_nz_ctx c) "" b t kt ct f0 c0) as [w [Cw Ew]]; auto; try congruence.
  exists s, v, w. repeat split; auto.
  rewrite Ev, Ew, Hq. field. split; [apply (cmag_nz (reg c) (reg_nz_ctx c)) | exact Hk].
Qed.

(** * The default route of a named bridge: sources that name no NIST unit (and carry no bare meter^-1) *)
Section DefaultRoute.
  Variable rg : string -> option (Q * dimvec).
  Variable nist_names : list string.
  Hypothesis reg_nz : forall n m d, rg n = Some (m, d) -> ~ m == 0.

  Lemma default_route_conv : forall src dst r d kd cd a b ka ca kb cb,
    find_path src dst = [HNamed r d] -> parse rg d = Ok (kd, cd) -> dim_eqb (dadd src (cdim rg cd)) dst = true ->
    parse rg a = Ok (ka, ca) -> parse rg b = Ok (kb, cb) -> ~ kb == 0 ->
    cdim rg ca = src -> cdim rg cb = dst -> find_nist_unit nist_names ca = None ->
    exists v, conv rg nist_names a b = Ok v /\ v == (ka * cmag rg ca) * (kd * cmag rg cd) / (kb * cmag rg cb).
  Proof.
    intros src dst r d kd cd a b ka ca kb cb Hp Hd Hdim Ha Hb Hk Hs Ht Hn.
    unfold conv. rewrite Ha, Hb. cbn [obind fst snd].
    destruct (Qeq_bool kb 0) eqn:Z; [apply Qeq_bool_eq in Z; contradiction|].
    rewrite Hs, Ht, Hp. cbn [apply_hops apply_hop obind fst snd]. rewrite Hn, Hd. cbn [obind fst snd].
    rewrite cmul_dim, Hs, Hdim. eexists. split; [reflexivity|].
    rewrite Qred_correct, (cmul_mag rg reg_nz). field. split; [apply (cmag_nz rg reg_nz) | exact Hk].
  Qed.
End DefaultRoute.

Definition named_edges : list (dimvec * dimvec * string * uexpr) :=
  flat_map (fun e => match e with (s, d, HNamed r x) => [(dim_of_list s, dim_of_list d, r, x)] | _ => [] end) bridges.

Lemma uexpr_eq_dec : forall a b : uexpr, {a = b} + {a <> b}.
Proof.
  decide equality; try apply string_dec; try apply Z.eq_dec.
  destruct q as [n1 d1], q0 as [n2 d2]. destruct (Z.eq_dec n1 n2); [|right; congruence].
  destruct (Pos.eq_dec d1 d2); [left; congruence | right; congruence].
Defined.

(* the constant by which the default route multiplies: (kd * cmag cd) of the default expression *)
Definition default_constant (c : cctx) (x : uexpr) : option Q :=
  match parse (reg c) x with Ok (kd, cd) => Some (Qred (kd * cmag (reg c) cd)) | Err _ => None end.

Definition default_edge_ok (c : cctx) (e : dimvec * dimvec * string * uexpr) : bool :=
  let '(s, d, r, x) := e in
  match find_path s d, parse (reg c) x with
  | [HNamed r' x'], Ok (kd, cd) =>
      String.eqb r r' && (if uexpr_eq_dec x x' then true else false) && dim_eqb (dadd s (cdim (reg c) cd)) d
  | _, _ => false
  end.

Lemma default_edge_spec : forall c s d r x, default_edge_ok c (s, d, r, x) = true ->
  find_path s d = [HNamed r x] /\ exists kd cd, parse (reg c) x = Ok (kd, cd) /\ dim_eqb (dadd s (cdim (reg c) cd)) d = true.
Proof.
  intros c s d r x H. unfold default_edge_ok in H.
  destruct (find_path s d) as [|[r' x'| |] [|? ?]]; try discriminate.
  destruct (parse (reg c) x) as [[kd cd]|]; [|discriminate].
  apply andb_true_iff in H. destruct H as [H H3]. apply andb_true_iff in H. destruct H as [H1 H2].
  apply String.eqb_eq in H1. destruct (uexpr_eq_dec x x'); [|discriminate]. subst.
  split; [reflexivity|]. exists kd, cd. split; [reflexivity | exact H3].
Qed.

(** for every named bridge of the registry, every source expression that names no NIST unit, every target expression *)
Lemma default_bridge : forall c s d r x, In (s, d, r, x) named_edges -> default_edge_ok c (s, d, r, x) = true ->
  forall a b ka ca kb cb,
    parse (reg c) a = Ok (ka, ca) -> parse (reg c) b = Ok (kb, cb) -> ~ kb == 0 ->
    cdim (reg c) ca = s -> cdim (reg c) cb = d -> find_nist_unit (nist c) ca = None ->
    exists v kd cd, parse (reg c) x = Ok (kd, cd) /\ conv_ctx c a b = Ok v
                    /\ v == (ka * cmag (reg c) ca) * (kd * cmag (reg c) cd) / (kb * cmag (reg c) cb).
Proof.
  intros c s d r x _ H a b ka ca kb cb Ha Hb Hk Hs Hd Hn.
  destruct (default_edge_spec c s d r x H) as [Hp [kd [cd [Px Hdim]]]].
  destruct (default_route_conv (reg c) (nist c) (reg_nz_ctx c) s d r x kd cd a b ka ca kb cb Hp Px Hdim Ha Hb Hk Hs Hd Hn) as [v [Cv Ev]].
  exists v, kd, cd. auto.
Qed.
