(** C10 — (a) serialising what was parsed gives the identical payload, stated directly on the parsed instance;
    (b) the include / exclude options of Model.serialize / Model.dict: a top-level restriction of the dict() tree.
    Restricting commutes with serialisation (the other fields of the payload are untouched), a restricted valid
    instance is still a valid instance, hence round-trips through all four encodings. *)
From Coq Require Import ZArith List String Bool Lia.
Require Import QV.Common.Outcome QV.Gen.SuffixMaps QV.Model.Results QV.Model.Serial QV.Model.SerialInst QV.Proofs.Results
  QV.Proofs.Serial QV.Proofs.SerialInst.
Import ListNotations.
Local Open Scope string_scope.
Local Open Scope list_scope.
Local Open Scope Z_scope.

Lemma filter_map_key {A B} (keep : key -> bool) (g : A -> B) (d : list (key * A)) :
  filter (fun kv => keep (fst kv)) (map (fun kv => (fst kv, g (snd kv))) d)
  = map (fun kv => (fst kv, g (snd kv))) (filter (fun kv => keep (fst kv)) d).
Proof.
  induction d as [|[k v] r IH]; simpl; [reflexivity|]. destruct (keep k); simpl; rewrite IH; reflexivity.
Qed.

Section Options.
  Variable elems : ndarray -> list value.
  Variable of_elems : string -> list value -> string.
  Variable sc : ndarray -> value.
  Hypothesis EL1 : forall a, wf_arrb a = true -> of_elems (dt a) (elems a) = data a.
  Hypothesis EL2 : forall a, wf_arrb a = true -> zlen (elems a) = prodz (shape a).
  Hypothesis EL3 : forall a, Forall (fun x => is_leaf x = true) (elems a).

  (** ** re-serialisation, on the instance that parse returned *)
  Theorem reser_after_parse_flat m s m' :
    conforms true s m = true -> parse_flat of_elems s (ser_flat elems sc m) = Ok m' ->
    ser_flat elems sc m' = ser_flat elems sc m.
  Proof.
    intros Hc Hp. rewrite (flat_model_roundtrip elems of_elems sc EL1 EL2 EL3 m s Hc) in Hp. inversion Hp. apply reser_flat.
  Qed.

  Theorem reser_after_parse_ext c m s m' :
    codec_ok c -> (k_nd c = KStr "_nd_" \/ k_nd c = KBytes "_nd_") ->
    conforms false s m = true -> parse_ext of_elems c s (ser_ext sc c m) = Ok m' ->
    ser_ext sc c m' = ser_ext sc c m.
  Proof.
    intros OK Hk Hc Hp. rewrite (ext_model_roundtrip of_elems sc c OK Hk m s Hc) in Hp. inversion Hp. apply reser_ext.
  Qed.

  (** ** include / exclude *)
  Lemma restrict_ser_flat keep d : ser_flat elems sc (restrict keep (VDict d)) = restrict keep (ser_flat elems sc (VDict d)).
  Proof. unfold ser_flat. simpl. f_equal. rewrite !filter_map_key. reflexivity. Qed.

  Lemma restrict_ser_ext c keep d : ser_ext sc c (restrict keep (VDict d)) = restrict keep (ser_ext sc c (VDict d)).
  Proof. unfold ser_ext. simpl. f_equal. rewrite !filter_map_key. reflexivity. Qed.

  Lemma conforms_restrict fl keep s d : conforms fl s (VDict d) = true -> conforms fl s (restrict keep (VDict d)) = true.
  Proof.
    destruct s as [| | |fields]; simpl; try discriminate; intro H; rewrite forallb_forall in *; intros kv Hin;
      apply filter_In in Hin; destruct Hin as [Hin _]; apply H; exact Hin.
  Qed.

  (** serialize(enc, include/exclude) then parse: the restricted instance comes back, whatever the restriction *)
  Theorem restricted_roundtrip keep d s :
    (conforms true s (VDict d) = true ->
       parse_flat of_elems s (restrict keep (ser_flat elems sc (VDict d))) = Ok (normalise (restrict keep (VDict d))))
    /\ (forall c, codec_ok c -> (k_nd c = KStr "_nd_" \/ k_nd c = KBytes "_nd_") -> conforms false s (VDict d) = true ->
       parse_ext of_elems c s (restrict keep (ser_ext sc c (VDict d))) = Ok (normalise (restrict keep (VDict d)))).
  Proof.
    split.
    - intro Hc. rewrite <- restrict_ser_flat. apply (flat_model_roundtrip elems of_elems sc EL1 EL2 EL3). apply conforms_restrict. exact Hc.
    - intros c OK Hk Hc. rewrite <- restrict_ser_ext. apply (ext_model_roundtrip of_elems sc c OK Hk).
      apply conforms_restrict. exact Hc.
  Qed.
End Options.

(** excluding a set of fields then including its complement's names: the two option spellings agree on str keys *)
Lemma excluding_spec ks d k v : In (KStr k, v) (match restrict (excluding ks) (VDict d) with VDict x => x | _ => [] end)
  <-> In (KStr k, v) d /\ ~ In k ks.
Proof.
  simpl. rewrite filter_In. simpl. split; intros [H1 H2]; (split; [exact H1|]).
  - intro Hin. apply negb_true_iff in H2. apply (proj2 (smem_In k ks)) in Hin. congruence.
  - apply negb_true_iff. apply not_true_is_false. intro E. apply H2. apply smem_In. exact E.
Qed.
