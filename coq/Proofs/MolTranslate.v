(** C04 — the model of from_arrays is invariant under rigid translation of the geometry: the decision (accept /
    which error) is the same wherever the molecule sits, and an accepted record differs only by the translated
    coordinates.  In particular the overlap screen refuses a pair closer than tooclose at ANY distance from the origin
    (the class of inputs of the correspondence stream "far" / "far_sweep": what the exact model says there is what it
    says about the same molecule at the origin). *)
From Coq Require Import ZArith List Bool String QArith Lia.
Require Import QV.Common.Outcome QV.Model.Nucleus QV.Model.ChgMult QV.Gen.MolConsts QV.Model.MolRec.
Require Import QV.Proofs.MolRec.
Import ListNotations.
Open Scope list_scope.

Definition shift_pt (t p : Q * Q * Q) : Q * Q * Q :=
  let '(tx, ty, tz) := t in let '(x, y, z) := p in ((x + tx)%Q, (y + ty)%Q, (z + tz)%Q).

(** a flat geometry translated by t (a trailing partial triple, which from_arrays refuses anyway, is left alone) *)
Fixpoint shift_geom (t : Q * Q * Q) (g : list Q) : list Q :=
  match g with
  | x :: y :: z :: r => let '(tx, ty, tz) := t in (x + tx)%Q :: (y + ty)%Q :: (z + tz)%Q :: shift_geom t r
  | _ => g
  end.

Definition translate_raw (t : Q * Q * Q) (r : raw) : raw :=
  {| r_geom := shift_geom t (r_geom r); r_elea := r_elea r; r_elez := r_elez r; r_elem := r_elem r; r_mass := r_mass r;
     r_real := r_real r; r_elbl := r_elbl r; r_units := r_units r; r_iutau := r_iutau r; r_fix_com := r_fix_com r;
     r_fix_orientation := r_fix_orientation r; r_fix_symmetry := r_fix_symmetry r; r_seps := r_seps r; r_fchg := r_fchg r;
     r_fmult := r_fmult r; r_chg := r_chg r; r_mult := r_mult r; r_conn := r_conn r; r_speclabel := r_speclabel r;
     r_tooclose := r_tooclose r; r_zgf := r_zgf r; r_nonphysical := r_nonphysical r; r_mtol := r_mtol r; r_minimal := r_minimal r |}.

Definition translate_rec (t : Q * Q * Q) (m : molrec) : molrec :=
  {| m_units := m_units m; m_iutau := m_iutau m; m_geom := shift_geom t (m_geom m); m_elea := m_elea m; m_elez := m_elez m;
     m_elem := m_elem m; m_mass := m_mass m; m_real := m_real m; m_elbl := m_elbl m; m_seps := m_seps m; m_fchg := m_fchg m;
     m_fmult := m_fmult m; m_chg := m_chg m; m_mult := m_mult m; m_fix_com := m_fix_com m;
     m_fix_orientation := m_fix_orientation m; m_fix_symmetry := m_fix_symmetry m; m_conn := m_conn m |}.

Definition translate_outcome (t : Q * Q * Q) (o : outcome molrec) : outcome molrec :=
  match o with Ok m => Ok (translate_rec t m) | Err k => Err k end.

Lemma triples_shift_n t : forall n g, (List.length g <= n)%nat ->
  triples (shift_geom t g) = match triples g with Ok pts => Ok (map (shift_pt t) pts) | Err k => Err k end.
Proof.
  destruct t as [[tx ty] tz].
  induction n as [|n IH]; intros g L.
  - destruct g; [reflexivity | simpl in L; lia].
  - destruct g as [|x [|y [|z r]]]; try reflexivity.
    cbn [shift_geom triples]. rewrite IH by (simpl in L; lia).
    destruct (triples r) as [pts|k]; reflexivity.
Qed.

Lemma triples_shift t g :
  triples (shift_geom t g) = match triples g with Ok pts => Ok (map (shift_pt t) pts) | Err k => Err k end.
Proof. apply (triples_shift_n t (List.length g)). lia. Qed.

Lemma dist2_shift t p q : (dist2 (shift_pt t p) (shift_pt t q) == dist2 p q)%Q.
Proof. destruct t as [[tx ty] tz], p as [[x1 y1] z1], q as [[x2 y2] z2]. unfold dist2, shift_pt. ring. Qed.

Lemma Qlt_b_compat a b c : (a == b)%Q -> Qlt_b a c = Qlt_b b c.
Proof.
  intro E. unfold Qlt_b. f_equal.
  destruct (Qle_bool c a) eqn:E1, (Qle_bool c b) eqn:E2; try reflexivity.
  - apply Qle_bool_iff in E1. rewrite E in E1. apply Qle_bool_iff in E1. congruence.
  - apply Qle_bool_iff in E2. rewrite <- E in E2. apply Qle_bool_iff in E2. congruence.
Qed.

Lemma too_close_shift t metric pts : too_close metric (map (shift_pt t) pts) = too_close metric pts.
Proof.
  induction pts as [|p r IH]; [reflexivity|]. cbn [map too_close]. rewrite IH. f_equal.
  clear IH. induction r as [|q r IH]; [reflexivity|]. cbn [map existsb]. rewrite IH. f_equal.
  apply Qlt_b_compat, dist2_shift.
Qed.

Lemma flatten3_shift t pts : flatten3 (map (shift_pt t) pts) = shift_geom t (flatten3 pts).
Proof.
  destruct t as [[tx ty] tz]. induction pts as [|[[x y] z] r IH]; [reflexivity|].
  change (flatten3 ((x, y, z) :: r)) with (x :: y :: z :: flatten3 r).
  cbn [map shift_pt]. change (flatten3 ((x + tx, y + ty, z + tz)%Q :: map (shift_pt (tx, ty, tz)) r))
    with ((x + tx)%Q :: (y + ty)%Q :: (z + tz)%Q :: flatten3 (map (shift_pt (tx, ty, tz)) r)).
  rewrite IH. reflexivity.
Qed.

Lemma is_nil_shift t g : is_nil (shift_geom t g) = is_nil g.
Proof. destruct t as [[tx ty] tz]. destruct g as [|x [|y [|z r]]]; reflexivity. Qed.

Lemma geometry_stage_shift t r :
  geometry_stage (translate_raw t r) = match geometry_stage r with Ok pts => Ok (map (shift_pt t) pts) | Err k => Err k end.
Proof.
  unfold geometry_stage. cbn [translate_raw r_geom r_tooclose]. rewrite triples_shift.
  destruct (triples (r_geom r)) as [pts|k]; [|reflexivity]. cbn [obind]. rewrite too_close_shift.
  destruct (too_close _ pts); reflexivity.
Qed.

(** from_arrays commutes with translation: same decision, same error class, same record up to the translated coordinates *)
Theorem translation_invariant t r : from_arrays (translate_raw t r) = translate_outcome t (from_arrays r).
Proof.
  unfold from_arrays. cbn [translate_raw r_geom r_minimal]. rewrite is_nil_shift.
  destruct (is_nil (r_geom r) && negb (r_minimal r)); [reflexivity|].
  change (units_stage (translate_raw t r)) with (units_stage r).
  destruct (units_stage r) as [[[u iu] conn]|k]; [|reflexivity]. cbn [obind].
  rewrite geometry_stage_shift. destruct (geometry_stage r) as [pts|k]; [|reflexivity]. cbn [obind].
  rewrite map_length.
  change (nuclei_stage (translate_raw t r) (List.length pts)) with (nuclei_stage r (List.length pts)).
  destruct (nuclei_stage r (List.length pts)) as [ros|k]; [|reflexivity]. cbn [obind].
  change (fragments_stage (translate_raw t r) (List.length pts)) with (fragments_stage r (List.length pts)).
  destruct (fragments_stage r (List.length pts)) as [[[seps frc] frm]|k]; [|reflexivity]. cbn [obind].
  change (cm_input (translate_raw t r) ros seps frc frm) with (cm_input r ros seps frc frm).
  destruct (fill (cm_input r ros seps frc frm)) as [cm|k]; [|reflexivity]. cbn [obind].
  change (frame_stage (translate_raw t r)) with (frame_stage r).
  destruct (frame_stage r) as [[com ori] sym]. cbn [translate_outcome]. unfold translate_rec. cbn. rewrite flatten3_shift. reflexivity.
Qed.

(** in particular: a pair closer than tooclose is refused wherever the molecule sits *)
Corollary too_close_refused_anywhere t r pts i j p q :
  triples (r_geom r) = Ok pts -> (i < j)%nat -> nth_error pts i = Some p -> nth_error pts j = Some q ->
  (dist2 p q < r_tooclose r * r_tooclose r)%Q -> forall m, from_arrays (translate_raw t r) <> Ok m.
Proof.
  intros Ht Hij Hp Hq Hd m H. rewrite translation_invariant in H.
  destruct (from_arrays r) as [m0|k] eqn:E; [|discriminate].
  exact (rejects_too_close r pts i j p q Ht Hij Hp Hq Hd m0 E).
Qed.
