(** C03 — proofs about the glue of conversion_factor: lru_cache transparency, prefactor linearity on every path, round trips *)
From Coq Require Import ZArith QArith Qabs Qpower List String Bool Lia.
Require Import QV.Common.Outcome QV.Common.DecC02 QV.Common.UnitsC03.
Require Import QV.Gen.Codata2014 QV.Gen.Codata2018 QV.Gen.UregDefs.
Require Import QV.Model.Units QV.Model.UnitsText QV.Model.UnitsGlue QV.Proofs.Units.
Import ListNotations.
Open Scope string_scope.
Open Scope Q_scope.

(** * answers compared up to the representation of the rational *)
Definition res_eq (x y : outcome Q) : Prop :=
  match x, y with Ok u, Ok v => u == v | Err e, Err e' => e = e' | _, _ => False end.

Lemma res_eq_refl : forall x, res_eq x x.
Proof. destruct x; cbn; reflexivity. Qed.

(** * lru_cache *)
Definition stable (c : cctx) (a b : carg) : Prop :=
  forall a' b', argkey_eqb c a' a = true -> argkey_eqb c b' b = true -> res_eq (cf_pure c a' b') (cf_pure c a b).
Definition cache_ok (c : cctx) (ch : list centry) : Prop :=
  forall e, In e ch -> forall a b, entry_matches c a b e = true -> res_eq (cf_pure c a b) (Ok (snd e)).

Lemma cache_take_spec : forall c a b ch e r, cache_take c a b ch = Some (e, r) ->
  entry_matches c a b e = true /\ (forall x, In x (e :: r) -> In x ch).
Proof.
  intros c a b ch. induction ch as [|x t IH]; intros e r H; cbn [cache_take] in H; [discriminate|].
  destruct (entry_matches c a b x) eqn:M.
  - injection H as <- <-. split; [exact M | auto].
  - destruct (cache_take c a b t) as [[y r']|] eqn:T; [|discriminate]. injection H as <- <-.
    destruct (IH _ _ eq_refl) as [M' I]. split; [exact M'|].
    intros z [<-|[<-|Hz]].
    + right. apply I. left; reflexivity.
    + left; reflexivity.
    + right. apply I. right; exact Hz.
Qed.

Lemma firstn_In : forall {A} n (l : list A) x, In x (firstn n l) -> In x l.
Proof. intros A n. induction n; intros l x H; destruct l; cbn in *; try contradiction. destruct H; auto. Qed.

Lemma cf_cached_step : forall c ch a b, cache_ok c ch -> stable c a b ->
  res_eq (fst (cf_cached c ch a b)) (cf_pure c a b) /\ cache_ok c (snd (cf_cached c ch a b)).
Proof.
  intros c ch a b Hok Hst. unfold cf_cached.
  destruct (cache_take c a b ch) as [[e rest]|] eqn:T.
  - destruct (cache_take_spec _ _ _ _ _ _ T) as [M I]. cbn [fst snd]. split.
    + pose proof (Hok e (I e (or_introl eq_refl)) a b M) as R.
      destruct (cf_pure c a b); cbn in *; [symmetry; exact R | contradiction].
    + intros x Hx. apply Hok. apply I. exact Hx.
  - destruct (cf_pure c a b) as [v|k] eqn:P; cbn [fst snd].
    + split; [cbn; reflexivity|].
      intros x Hx a' b' M. apply firstn_In in Hx. destruct Hx as [<-|Hx]; [|exact (Hok x Hx a' b' M)].
      cbn [snd]. unfold entry_matches in M. cbn [fst snd] in M. apply andb_true_iff in M. destruct M as [M1 M2].
      pose proof (Hst a' b' M1 M2) as R. rewrite P in R. exact R.
    + split; [cbn; reflexivity | exact Hok].
Qed.

Theorem cache_transparent : forall c calls ch, cache_ok c ch ->
  (forall a b, In (a, b) calls -> stable c a b) ->
  Forall2 res_eq (run c ch calls) (map (fun p => cf_pure c (fst p) (snd p)) calls).
Proof.
  intros c calls. induction calls as [|[a b] r IH]; intros ch Hok Hst; cbn [run map].
  - constructor.
  - destruct (cf_cached_step c ch a b Hok (Hst a b (or_introl eq_refl))) as [R O].
    destruct (cf_cached c ch a b) as [o ch'] eqn:E. cbn [fst snd] in *. constructor; [exact R|].
    apply IH; [exact O|]. intros a0 b0 H. apply Hst. right. exact H.
Qed.

Lemma cache_ok_nil : forall c, cache_ok c [].
Proof. intros c e []. Qed.

(** str arguments are keyed by their text *)
Lemma key_eqb_str : forall c a s, argkey_eqb c a (AStr s) = true -> a = AStr s.
Proof. intros c [s'|k e|e] s H; cbn in H; try discriminate. apply String.eqb_eq in H. subst. reflexivity. Qed.

Lemma ucont_eqb_eq : forall a b, ucont_eqb a b = true -> a = b.
Proof.
  induction a as [|[k e] r IH]; intros [|[k' e'] r'] H; cbn [ucont_eqb] in H; try discriminate; [reflexivity|].
  apply andb_true_iff in H. destruct H as [H H3]. apply andb_true_iff in H. destruct H as [H1 H2].
  apply key_eqb_eq in H1. apply Z.eqb_eq in H2. subst. f_equal. apply IH. exact H3.
Qed.

Lemma stable_str : forall c s t, stable c (AStr s) (AStr t).
Proof. intros c s t a' b' Ha Hb. apply key_eqb_str in Ha. apply key_eqb_str in Hb. subst. apply res_eq_refl. Qed.

(** key-equal arguments mean the same physical quantity *)
Lemma key_eq_sem : forall c a' a ea ka ca, argkey_eqb c a' a = true -> arg_expr a = inr ea -> parse (reg c) ea = Ok (ka, ca) ->
  exists ea' ka' ca', arg_expr a' = inr ea' /\ parse (reg c) ea' = Ok (ka', ca')
     /\ emag (reg c) ea' == emag (reg c) ea /\ edim (reg c) ea' = edim (reg c) ea.
Proof.
  intros c a' a ea ka ca K Ha Hp. destruct a as [s|k e|e].
  - apply key_eqb_str in K. subst a'. exists ea, ka, ca. repeat split; auto; reflexivity.
  - destruct a' as [s'|k' e'|e']; cbn [argkey_eqb] in K; [discriminate| |discriminate].
    unfold qty_key in K.
    destruct (parse (reg c) e') as [[m' u']|] eqn:P'; [|discriminate].
    destruct (parse (reg c) e) as [[m u]|] eqn:P; [|discriminate].
    apply andb_true_iff in K. destruct K as [K1 K2]. apply Qeq_bool_eq in K1. apply dim_eqb_eq in K2.
    rewrite !Qred_correct in K1.
    cbn [arg_expr] in Ha. injection Ha as <-.
    exists (UMul (UNum k') e'), (k' * m'), (cmul [] u'). split; [reflexivity|]. split; [cbn [parse]; rewrite P'; reflexivity|].
    destruct (parse_sem (reg c) (reg_nz_ctx c) _ _ _ P') as [A1 A2]. destruct (parse_sem (reg c) (reg_nz_ctx c) _ _ _ P) as [B1 B2].
    cbn [emag edim]. rewrite <- A1, <- B1, <- A2, <- B2. split.
    + rewrite !Qmult_assoc. exact K1.
    + rewrite !dadd_zero_l. exact K2.
  - destruct a' as [s'|k' e'|e']; cbn [argkey_eqb] in K; try discriminate.
    cbn [arg_expr] in Ha. injection Ha as <-. rewrite Hp in K.
    destruct (parse (reg c) e') as [[m' u']|] eqn:P'; [|discriminate].
    apply andb_true_iff in K. destruct K as [K1 K2]. apply Qeq_bool_eq in K1. apply ucont_eqb_eq in K2. subst u'.
    exists e', m', ca. split; [reflexivity|]. split; [exact P'|].
    destruct (parse_sem (reg c) (reg_nz_ctx c) _ _ _ P') as [A1 A2]. destruct (parse_sem (reg c) (reg_nz_ctx c) _ _ _ Hp) as [B1 B2].
    split; [rewrite <- A1, <- B1, K1; reflexivity | congruence].
Qed.

Theorem stable_same_dimension : forall c a b ea eb ka ca kb cb,
  arg_expr a = inr ea -> arg_expr b = inr eb -> parse (reg c) ea = Ok (ka, ca) -> parse (reg c) eb = Ok (kb, cb) -> ~ kb == 0 ->
  edim (reg c) ea = edim (reg c) eb -> stable c a b.
Proof.
  intros c a b ea eb ka ca kb cb Ha Hb Pa Pb Hk Hd a' b' Ka Kb.
  destruct (key_eq_sem c a' a ea ka ca Ka Ha Pa) as [ea' [ka' [ca' [Ha' [Pa' [Ma Da]]]]]].
  destruct (key_eq_sem c b' b eb kb cb Kb Hb Pb) as [eb' [kb' [cb' [Hb' [Pb' [Mb Db]]]]]].
  assert (Hk' : ~ kb' == 0).
  { destruct (parse_sem (reg c) (reg_nz_ctx c) _ _ _ Pb') as [A1 _]. destruct (parse_sem (reg c) (reg_nz_ctx c) _ _ _ Pb) as [B1 _].
    intro Z. assert (E : kb * cmag (reg c) cb == 0) by (rewrite B1, <- Mb, <- A1, Z; ring).
    apply Qmult_integral in E. destruct E as [E|E]; [contradiction | exact (cmag_nz (reg c) (reg_nz_ctx c) cb E)]. }
  destruct (same_dimension_is_SI_ratio (reg c) (nist c) (reg_nz_ctx c) ea eb ka ca kb cb Pa Pb Hk Hd) as [v [Cv Ev]].
  assert (Hd' : edim (reg c) ea' = edim (reg c) eb') by congruence.
  destruct (same_dimension_is_SI_ratio (reg c) (nist c) (reg_nz_ctx c) ea' eb' ka' ca' kb' cb' Pa' Pb' Hk' Hd') as [v' [Cv' Ev']].
  unfold cf_pure. rewrite Ha, Hb, Ha', Hb'. unfold conv_ctx. rewrite Cv, Cv'. cbn [res_eq]. rewrite Ev, Ev', Ma, Mb. reflexivity.
Qed.

(** * the cache is NOT transparent across a bridge with Quantity arguments (known finding, new manifestation) *)
Lemma cache_poisoned_witness :
  exists v w, run C2014 [] [(AQty 1 (UAtom "mega" "hertz"), AStr "hartree"); (AQty 1000000 (UAtom "" "hertz"), AStr "hartree")] = [Ok v; Ok v]
    /\ cf_pure C2014 (AQty 1000000 (UAtom "" "hertz")) (AStr "hartree") = Ok w /\ v == 1000000 * w.
Proof. eexists. eexists. split; [vm_compute; reflexivity|]. split; vm_compute; reflexivity. Qed.

(** * containers produced by [parse] from expressions without a zero power are in normal form *)
Fixpoint pow0free (e : uexpr) : bool :=
  match e with
  | UAtom _ _ | UNum _ => true
  | UMul a b | UDiv a b => pow0free a && pow0free b
  | UPow a n => pow0free a && negb (n =? 0)%Z
  end.

Definition ckeys (c : ucont) : list ukey := map fst c.
Definition cnormal (c : ucont) : Prop := NoDup (ckeys c) /\ Forall (fun ke => snd ke <> 0%Z) c.

Lemma key_eqb_refl : forall k, key_eqb k k = true.
Proof. intros [p b]. unfold key_eqb. cbn. rewrite !String.eqb_refl. reflexivity. Qed.
Lemma key_eqb_neq : forall a b, a <> b -> key_eqb a b = false.
Proof. intros a b H. destruct (key_eqb a b) eqn:E; [|reflexivity]. apply key_eqb_eq in E. contradiction. Qed.

Lemma cadd_keys_incl : forall k e c x, In x (ckeys (cadd k e c)) -> x = k \/ In x (ckeys c).
Proof.
  intros k e c. induction c as [|[k' e'] r IH]; intros x H; cbn [cadd] in H.
  - destruct (e =? 0)%Z; cbn in H; [contradiction|]. destruct H as [<-|[]]. left; reflexivity.
  - destruct (key_eqb k k') eqn:K.
    + destruct (e' + e =? 0)%Z; cbn in *; tauto.
    + cbn in H. destruct H as [<-|H]; [right; left; reflexivity|]. destruct (IH _ H); [left; assumption | right; right; assumption].
Qed.

Lemma cadd_normal : forall k e c, cnormal c -> cnormal (cadd k e c).
Proof.
  intros k e c. induction c as [|[k' e'] r IH]; intros [N F]; cbn [cadd].
  - destruct (e =? 0)%Z eqn:E; split; cbn; try constructor; auto; try constructor.
    cbn. apply Z.eqb_neq in E. exact E.
  - inversion N as [|? ? Nin N']; subst. inversion F as [|? ? Fe F']; subst. cbn [snd] in Fe.
    destruct (key_eqb k k') eqn:K.
    + apply key_eqb_eq in K; subst k'. destruct (e' + e =? 0)%Z eqn:E.
      * split; assumption.
      * split; [exact N|]. constructor; [cbn; apply Z.eqb_neq in E; exact E | exact F'].
    + destruct (IH (conj N' F')) as [N2 F2]. split.
      * cbn. constructor; [|exact N2]. intro H. apply cadd_keys_incl in H. destruct H as [->|H]; [|contradiction].
        rewrite key_eqb_refl in K. discriminate.
      * constructor; [exact Fe | exact F2].
Qed.

Lemma fold_cadd_normal : forall (f : Z -> Z) b a, cnormal a -> cnormal (fold_left (fun acc ke => cadd (fst ke) (f (snd ke)) acc) b a).
Proof. intros f b. induction b as [|[k e] r IH]; intros a H; cbn [fold_left]; [exact H|]. apply IH. apply cadd_normal. exact H. Qed.

Lemma cmul_normal : forall a b, cnormal a -> cnormal (cmul a b).
Proof. intros a b H. unfold cmul. exact (fold_cadd_normal (fun z => z) b a H). Qed.
Lemma cdiv_normal : forall a b, cnormal a -> cnormal (cdiv a b).
Proof. intros a b H. unfold cdiv. exact (fold_cadd_normal Z.opp b a H). Qed.
Lemma cpow_normal : forall a n, n <> 0%Z -> cnormal a -> cnormal (cpow a n).
Proof.
  intros a n Hn [N F]. unfold cpow, cnormal, ckeys. rewrite map_map. cbn [fst]. split; [exact N|].
  apply Forall_map. eapply Forall_impl; [|exact F]. intros [k e] H. cbn [snd] in *. lia.
Qed.

Lemma cnormal_nil : cnormal [].
Proof. split; constructor. Qed.

Lemma parse_normal : forall rg e k c, pow0free e = true -> parse rg e = Ok (k, c) -> cnormal c.
Proof.
  intros rg. induction e as [p b|q|a IHa b IHb|a IHa b IHb|a IHa n]; intros k c F H; cbn [parse pow0free] in *.
  - destruct (atom_md rg (p, b)); [|discriminate]. injection H as <- <-. split; cbn; repeat constructor; auto. cbn. lia.
  - injection H as <- <-. apply cnormal_nil.
  - apply andb_true_iff in F. destruct F as [Fa Fb].
    destruct (parse rg a) as [[ka ca]|]; [|discriminate]. destruct (parse rg b) as [[kb cb]|]; [|discriminate].
    cbn [obind fst snd] in H. injection H as <- <-. apply cmul_normal. eapply IHa; eauto.
  - apply andb_true_iff in F. destruct F as [Fa Fb].
    destruct (parse rg a) as [[ka ca]|]; [|discriminate]. destruct (parse rg b) as [[kb cb]|]; [|discriminate].
    cbn [obind fst snd] in H. destruct (Qeq_bool kb 0); [discriminate|]. injection H as <- <-. apply cdiv_normal. eapply IHa; eauto.
  - apply andb_true_iff in F. destruct F as [Fa Fn]. apply negb_true_iff in Fn. apply Z.eqb_neq in Fn.
    destruct (parse rg a) as [[ka ca]|]; [|discriminate]. cbn [obind fst snd] in H.
    destruct (Qeq_bool ka 0 && (n <? 0)%Z); [discriminate|]. injection H as <- <-. apply cpow_normal; [exact Fn|]. eapply IHa; eauto.
Qed.

Lemma cadd_fresh : forall k e acc, ~ In k (ckeys acc) -> e <> 0%Z -> cadd k e acc = (acc ++ [(k, e)])%list.
Proof.
  intros k e acc. induction acc as [|[k' e'] r IH]; intros Hn He; cbn [cadd app].
  - destruct (e =? 0)%Z eqn:E; [apply Z.eqb_eq in E; contradiction | reflexivity].
  - cbn in Hn. rewrite key_eqb_neq by (intro; subst; apply Hn; left; reflexivity). f_equal. apply IH; [tauto | exact He].
Qed.

Lemma fold_cadd_app : forall c acc, NoDup (ckeys acc ++ ckeys c)%list -> Forall (fun ke => snd ke <> 0%Z) c ->
  fold_left (fun a ke => cadd (fst ke) (snd ke) a) c acc = (acc ++ c)%list.
Proof.
  induction c as [|[k e] r IH]; intros acc N F; cbn [fold_left].
  - rewrite app_nil_r. reflexivity.
  - inversion F as [|? ? Fe F']; subst. cbn [fst snd] in *.
    assert (Hn : ~ In k (ckeys acc)).
    { intro H. cbn in N. apply NoDup_remove_2 in N. apply N. apply in_or_app. left. exact H. }
    rewrite cadd_fresh by assumption. rewrite IH; [rewrite <- app_assoc; reflexivity | | exact F'].
    unfold ckeys in *. rewrite map_app. cbn [map fst]. rewrite <- app_assoc. exact N.
Qed.

Lemma cmul_nil_normal : forall c, cnormal c -> cmul [] c = c.
Proof. intros c [N F]. unfold cmul. rewrite fold_cadd_app; [reflexivity | exact N | exact F]. Qed.

(** * a numeric prefactor in the source or in the target scales EVERY conversion (same dimension, every bridge, every error) *)
Section AllPaths.
  Variable rg : string -> option (Q * dimvec).
  Variable nist_names : list string.
  Hypothesis reg_nz : forall n m d, rg n = Some (m, d) -> ~ m == 0.

  Definition scaled_by (k : Q) (x y : outcome Q) : Prop :=
    match x, y with Ok v, Ok w => w == k * v | Err e, Err e' => e = e' | _, _ => False end.

  Theorem linear_source_all_paths : forall k a b, pow0free a = true ->
    scaled_by k (conv rg nist_names a b) (conv rg nist_names (UMul (UNum k) a) b).
  Proof.
    intros k a b Fa. unfold conv. cbn [parse].
    destruct (parse rg a) as [[ka ca]|ea] eqn:Pa; cbn [obind fst snd]; [|reflexivity].
    rewrite (cmul_nil_normal ca (parse_normal rg a ka ca Fa Pa)).
    destruct (parse rg b) as [[kb cb]|eb]; cbn [obind fst snd]; [|reflexivity].
    destruct (Qeq_bool kb 0); [reflexivity|].
    assert (S : k * ka / kb == k * (ka / kb)) by (unfold Qdiv; ring).
    pose proof (apply_hops_scale rg nist_names (find_path (cdim rg ca) (cdim rg cb)) k (ka / kb) (k * ka / kb) ca S) as R.
    unfold ucont, ukey in *.
    destruct (apply_hops rg nist_names (find_path (cdim rg ca) (cdim rg cb)) (ka / kb, ca)) as [[f c1]|e1];
      destruct (apply_hops rg nist_names (find_path (cdim rg ca) (cdim rg cb)) (k * ka / kb, ca)) as [[f2 c2]|e2]; cbn [hop_rel] in R; try contradiction.
    - destruct R as [<- R]. cbn [obind fst snd]. destruct (dim_eqb (cdim rg c1) (cdim rg cb)); cbn [scaled_by]; [|reflexivity].
      rewrite !Qred_correct, R. unfold Qdiv. ring.
    - subst. reflexivity.
  Qed.

  Theorem linear_target_all_paths : forall k a b, pow0free b = true -> ~ k == 0 ->
    scaled_by (/ k) (conv rg nist_names a b) (conv rg nist_names a (UMul (UNum k) b)).
  Proof.
    intros k a b Fb Hk. unfold conv. cbn [parse].
    destruct (parse rg a) as [[ka ca]|ea] eqn:Pa; cbn [obind fst snd]; [|reflexivity].
    destruct (parse rg b) as [[kb cb]|eb] eqn:Pb; cbn [obind fst snd]; [|reflexivity].
    rewrite (cmul_nil_normal cb (parse_normal rg b kb cb Fb Pb)).
    destruct (Qeq_bool kb 0) eqn:Z.
    - apply Qeq_bool_eq in Z. assert (Z' : Qeq_bool (k * kb) 0 = true) by (apply Qeq_bool_iff; rewrite Z; ring). rewrite Z'. reflexivity.
    - apply Qeq_bool_neq in Z. assert (Z' : Qeq_bool (k * kb) 0 = false).
      { destruct (Qeq_bool (k * kb) 0) eqn:E; [|reflexivity]. apply Qeq_bool_eq in E. apply Qmult_integral in E. tauto. }
      rewrite Z'.
      assert (S : ka / (k * kb) == / k * (ka / kb)) by (field; tauto).
      pose proof (apply_hops_scale rg nist_names (find_path (cdim rg ca) (cdim rg cb)) (/ k) (ka / kb) (ka / (k * kb)) ca S) as R.
      unfold ucont, ukey in *.
      destruct (apply_hops rg nist_names (find_path (cdim rg ca) (cdim rg cb)) (ka / kb, ca)) as [[f c1]|e1];
        destruct (apply_hops rg nist_names (find_path (cdim rg ca) (cdim rg cb)) (ka / (k * kb), ca)) as [[f2 c2]|e2]; cbn [hop_rel] in R; try contradiction.
      + destruct R as [<- R]. cbn [obind fst snd]. destruct (dim_eqb (cdim rg c1) (cdim rg cb)); cbn [scaled_by]; [|reflexivity].
        rewrite !Qred_correct, R. unfold Qdiv. ring.
      + subst. reflexivity.
  Qed.
End AllPaths.

(** * a -> b then b -> a gives 1 *)

(** the published relationships, both directions *)
Definition rel_rows (c : cctx) : list (string * string * string) :=
  flat_map (fun row => match row with (k, _, _, _, _) =>
     match rel_sides k with Some (l, r) => [(l, r, k)] | None => [] end end) (shipped c).

Definition rt_pair_ok (tol : Q) (c : cctx) (x y : string * string * string) : bool :=
  let '(l, r, k) := x in
  let '(l', r', k') := y in
  if String.eqb l r' && String.eqb r l' then
    match codata_value c k, codata_value c k' with
    | Some p, Some p' => rel_close tol (p * p') 1
    | _, _ => false
    end
  else true.
Definition rt_all_ok (tol : Q) (c : cctx) : bool :=
  forallb (fun x => forallb (rt_pair_ok tol c x) (rel_rows c)) (rel_rows c).

Lemma rt_all_ok_spec : forall tol c, rt_all_ok tol c = true ->
  forall l r k k', In (l, r, k) (rel_rows c) -> In (r, l, k') (rel_rows c) ->
  exists p p', codata_value c k = Some p /\ codata_value c k' = Some p' /\ Qabs (p * p' - 1) <= tol * Qabs 1.
Proof.
  intros tol c H l r k k' H1 H2. unfold rt_all_ok in H.
  pose proof (proj1 (forallb_forall _ _) H _ H1) as A. cbn beta in A.
  pose proof (proj1 (forallb_forall _ _) A _ H2) as B. unfold rt_pair_ok in B.
  rewrite !String.eqb_refl in B. cbn [andb] in B.
  destruct (codata_value c k) as [p|]; [|discriminate]. destruct (codata_value c k') as [p'|]; [|discriminate].
  exists p, p'. split; [reflexivity|]. split; [reflexivity|]. apply rel_close_spec. exact B.
Qed.

(** the default routes (sources naming no NIST unit), both directions, for ALL expressions *)
Definition default_rt_ok (tol : Q) (c : cctx) (e e' : dimvec * dimvec * string * uexpr) : bool :=
  let '(s, d, r, x) := e in
  let '(s', d', r', x') := e' in
  if dim_eqb s d' && dim_eqb d s' then
    default_edge_ok c e && default_edge_ok c e' &&
    match default_constant c x, default_constant c x' with
    | Some K, Some K' => rel_close tol (K * K') 1
    | _, _ => false
    end
  else true.
Definition default_rt_all_ok (tol : Q) (c : cctx) : bool :=
  forallb (fun e => forallb (default_rt_ok tol c e) named_edges) named_edges.

Lemma default_constant_val : forall c x kd cd K, parse (reg c) x = Ok (kd, cd) -> default_constant c x = Some K -> K == kd * cmag (reg c) cd.
Proof. intros c x kd cd K P D. unfold default_constant in D. rewrite P in D. assert (E : K = Qred (kd * cmag (reg c) cd)) by congruence. rewrite E. apply Qred_correct. Qed.

Theorem default_route_roundtrip : forall tol c, default_rt_all_ok tol c = true ->
  forall s d r x r' x', In (s, d, r, x) named_edges -> In (d, s, r', x') named_edges ->
  forall a b ka ca kb cb,
    parse (reg c) a = Ok (ka, ca) -> parse (reg c) b = Ok (kb, cb) -> ~ ka == 0 -> ~ kb == 0 ->
    cdim (reg c) ca = s -> cdim (reg c) cb = d ->
    find_nist_unit (nist c) ca = None -> find_nist_unit (nist c) cb = None ->
    exists v w, conv_ctx c a b = Ok v /\ conv_ctx c b a = Ok w /\ Qabs (v * w - 1) <= tol * Qabs 1.
Proof.
  intros tol c H s d r x r' x' H1 H2 a b ka ca kb cb Pa Pb Hka Hkb Ds Dd Na Nb.
  unfold default_rt_all_ok in H.
  pose proof (proj1 (forallb_forall _ _) H _ H1) as A. cbn beta in A.
  pose proof (proj1 (forallb_forall _ _) A _ H2) as B. unfold default_rt_ok in B.
  rewrite !dim_eqb_refl in B. cbn [andb] in B.
  apply andb_true_iff in B. destruct B as [B B3]. apply andb_true_iff in B. destruct B as [B1 B2].
  destruct (default_bridge c s d r x H1 B1 a b ka ca kb cb Pa Pb Hkb Ds Dd Na) as [v [kd [cd [Px [Cv Ev]]]]].
  destruct (default_bridge c d s r' x' H2 B2 b a kb cb ka ca Pb Pa Hka Dd Ds Nb) as [w [kd' [cd' [Px' [Cw Ew]]]]].
  destruct (default_constant c x) as [K|] eqn:DK; [|discriminate]. destruct (default_constant c x') as [K'|] eqn:DK'; [|discriminate].
  apply rel_close_spec in B3.
  exists v, w. split; [exact Cv|]. split; [exact Cw|].
  assert (E : v * w == K * K').
  { rewrite Ev, Ew, (default_constant_val c x kd cd K Px DK), (default_constant_val c x' kd' cd' K' Px' DK').
    field. repeat split; try assumption; apply (cmag_nz (reg c) (reg_nz_ctx c)). }
  rewrite E. exact B3.
Qed.

Lemma rt_2014 : rt_all_ok (4 # 10 ^ 8) C2014 = true /\ default_rt_all_ok (4 # 10 ^ 8) C2014 = true.
Proof. split; vm_compute; reflexivity. Qed.
Lemma rt_2018 : rt_all_ok (1 # 10 ^ 8) C2018 = true /\ default_rt_all_ok (1 # 10 ^ 8) C2018 = true.
Proof. split; vm_compute; reflexivity. Qed.

(** * an unprefixed NIST-relationship unit as source: the published value is used exactly once, whatever the target expression *)
Definition unpref_ok (c : cctx) (x : string * string * dimvec * string * string) : bool :=
  let '(p, b, D, key, rgt) := x in
  match atom_md (reg c) (p, b), single_hops c p b D, codata_value c key, expr_md (reg c) (side_expr rgt) with
  | Some _, Ok (f, c1), Some v, Some (mr, dr) =>
      dim_eqb (cdim (reg c) c1) D && dim_eqb dr D && Qeq_bool (f * cmag (reg c) c1) (v * mr)
  | _, _, _, _ => false
  end.

Lemma unpref_spec : forall c p b D key rgt, unpref_ok c (p, b, D, key, rgt) = true ->
  forall t kt ct, parse (reg c) t = Ok (kt, ct) -> ~ kt == 0 -> cdim (reg c) ct = D ->
  exists v pub mr dr, conv_ctx c (UAtom p b) t = Ok v /\ codata_value c key = Some pub
     /\ expr_md (reg c) (side_expr rgt) = Some (mr, dr) /\ dr = D /\ v == pub * mr / (kt * cmag (reg c) ct).
Proof.
  intros c p b D key rgt H t kt ct Ht Hk HD. unfold unpref_ok in H.
  destruct (atom_md (reg c) (p, b)) eqn:A1; [|discriminate].
  destruct (single_hops c p b D) as [[f c1]|] eqn:H1; [|discriminate].
  destruct (codata_value c key) as [pub|]; [|discriminate].
  destruct (expr_md (reg c) (side_expr rgt)) as [[mr dr]|]; [|discriminate].
  apply andb_true_iff in H; destruct H as [H Hq]. apply andb_true_iff in H; destruct H as [Hd1 Hd2].
  apply Qeq_bool_eq in Hq. apply dim_eqb_eq in Hd2. subst D. unfold single_hops in H1.
  destruct (single_source_conv (reg c) (nist c) (reg_nz_ctx c) p b t kt ct f c1) as [v [Cv Ev]]; auto; try congruence.
  exists v, pub, mr, dr. repeat split; auto. rewrite Ev, Hq. reflexivity.
Qed.
Definition dE_ := mkdim 2 1 (-2) 0 0 0 0.
Definition dF_ := mkdim 0 0 (-1) 0 0 0 0.   Definition dW_ := mkdim (-1) 0 0 0 0 0 0.
Definition dMs := mkdim 0 1 0 0 0 0 0.     Definition dTp := mkdim 0 0 0 0 1 0 0.
Definition unprefixed_sources : list (string * string * dimvec * string * string) :=
  [ ("", "hartree", dF_, "hartree-hertz relationship", "hertz"); ("", "hartree", dW_, "hartree-inverse meter relationship", "inverse_meter");
    ("", "hartree", dMs, "hartree-kilogram relationship", "kilogram"); ("", "hartree", dTp, "hartree-kelvin relationship", "kelvin");
    ("", "joule", dF_, "joule-hertz relationship", "hertz"); ("", "joule", dW_, "joule-inverse meter relationship", "inverse_meter");
    ("", "joule", dMs, "joule-kilogram relationship", "kilogram"); ("", "joule", dTp, "joule-kelvin relationship", "kelvin");
    ("", "electron_volt", dF_, "electron volt-hertz relationship", "hertz"); ("", "electron_volt", dW_, "electron volt-inverse meter relationship", "inverse_meter");
    ("", "electron_volt", dMs, "electron volt-kilogram relationship", "kilogram"); ("", "electron_volt", dTp, "electron volt-kelvin relationship", "kelvin");
    ("", "hertz", dE_, "hertz-hartree relationship", "hartree"); ("", "kelvin", dE_, "kelvin-hartree relationship", "hartree");
    ("", "atomic_mass_unit", dE_, "atomic mass unit-hartree relationship", "hartree"); ("kilo", "gram", dE_, "kilogram-hartree relationship", "hartree") ].
Lemma unprefixed_all_ok : forall c, forallb (unpref_ok c) unprefixed_sources = true.
Proof. intros []; vm_compute; reflexivity. Qed.
