(** C14 — the inner loops never fail under the invariant: _step4's while-loop needs at most (uncovered rows + 1)
    iterations, and _step5's path never exceeds the capacity n+m of state.path (no IndexError). *)
From Coq Require Import ZArith List Bool Arith Lia.
Require Import QV.Common.Outcome QV.Model.Hungarian QV.Proofs.HungarianCert QV.Proofs.HungarianLib
  QV.Proofs.HungarianInv QV.Proofs.HungarianStep4 QV.Proofs.HungarianStep5 QV.Proofs.HungarianFinal.
Import ListNotations.
Open Scope Z_scope.

Definition count_unc (l : list bool) : nat := length (filter (fun b : bool => b) l).

Lemma count_unc_upd : forall l i, bget l i = true -> (count_unc (upd l i false) + 1 = count_unc l)%nat.
Proof.
  unfold count_unc, bget. induction l; intros i H.
  - destruct i; discriminate.
  - destruct i; simpl in *.
    + subst a. simpl. lia.
    + destruct a; simpl; rewrite <- (IHl i H); lia.
Qed.

Lemma count_unc_le l : (count_unc l <= length l)%nat.
Proof. unfold count_unc. induction l; simpl; auto. destruct a; simpl; lia. Qed.

Lemma NoDup_bound_length : forall (l : list nat) n, NoDup l -> (forall x, In x l -> (x < n)%nat) -> (length l <= n)%nat.
Proof.
  intros l n ND B. rewrite <- (seq_length n 0). apply NoDup_incl_length; auto.
  intros x Hx. apply in_seq. specialize (B x Hx). lia.
Qed.

Section Total.
Variables (C0 : mat) (n m : nat).
Hypothesis Hn : (0 < n)%nat.
Hypothesis Hnm : (n <= m)%nat.

Lemma step4_loop_total u v C : forall fuel cov s,
  hC s = C -> inv4 C0 n m u v s -> covinv n m C cov (rowunc s) (colunc s) ->
  (count_unc (rowunc s) < fuel)%nat ->
  exists k' s', step4_loop fuel C n m cov s = Ok (k', s').
Proof.
  induction fuel; intros cov s EC I CV Hf; [lia|]. simpl.
  destruct (find_first cov) as [[row col]|] eqn:F; [|eauto].
  apply find_first_Some in F.
  destruct CV as [CR CVv].
  destruct (bmget_true_bounds cov n m row col CR F) as [Hrow Hcol].
  rewrite (CVv row col Hrow Hcol) in F.
  apply andb_true_iff in F. destruct F as [F Hcu]. apply andb_true_iff in F. destruct F as [Hz Hru].
  apply Z.eqb_eq in Hz. rewrite <- EC in Hz.
  pose proof (i4_base C0 n m u v s I) as B.
  change (mset (marked s) row col 2) with (marked (primed s row col)).
  destruct (first_idx (fun x => x =? 1) (nth row (marked (primed s row col)) [])) as [sc|] eqn:FI; [|eauto].
  apply (first_idx_Some _ 0) in FI. destruct FI as [Lsc Esc]. apply Z.eqb_eq in Esc.
  assert (S0 : star (primed s row col) row sc) by exact Esc.
  pose proof (primed_inv4 C0 n m Hn u v s row col I Hrow Hcol Hz Hru Hcu sc S0) as I2.
  assert (S1 : star s row sc) by (apply (primed_star C0 n m u v s row col I Hrow Hcol Hru Hcu); auto).
  destruct (star_range C0 n m Hn u v s row sc B S1) as [_ Hsc].
  apply IHfuel; simpl; auto.
  - apply covinv_update; auto; try (split; assumption);
      try apply (b_ru C0 n m u v s B); try apply (b_cu C0 n m u v s B).
  - pose proof (count_unc_upd (rowunc s) row Hru). lia.
Qed.

Lemma step4_total u v s : inv4 C0 n m u v s -> exists k' s', step4 s = Ok (k', s').
Proof.
  intros I. unfold step4. pose proof (i4_base C0 n m u v s I) as B.
  rewrite (rect_nrows _ n m (b_shC C0 n m u v s B)), (rect_ncols _ n m (b_shC C0 n m u v s B) Hn).
  apply (step4_loop_total u v (hC s)); auto.
  - split. apply bmtab_rect. intros. apply bmget_bmtab; auto.
  - pose proof (count_unc_le (rowunc s)). rewrite (b_ru C0 n m u v s B) in H. lia.
Qed.

Section Path.
Variables (u v : nat -> Z) (s : hstate).
Hypothesis I : inv5 C0 n m u v s.
Variable rank : nat -> nat.
Hypothesis RP : forall r c r', prime s r c -> star s r' c -> (rank r' < rank r)%nat.

Lemma build_path_total : forall fuel count c acc r prows,
  pathinv s rank acc r c ->
  NoDup prows -> (forall i, In i prows -> (i < n)%nat /\ exists j, In (i, j) acc) ->
  (2 * length prows = count + 2)%nat ->
  (n + m + 2 <= 2 * fuel + count)%nat ->
  exists racc, build_path fuel (marked s) n m count c acc = Ok racc.
Proof.
  pose proof (i5_base C0 n m u v s I) as B.
  pose proof (b_shM C0 n m u v s B) as HM.
  induction fuel; intros count c acc r prows Q ND PB PL Hf.
  - exfalso. assert (length prows <= n)%nat by (apply NoDup_bound_length; auto; intros x Hx; apply (PB x Hx)). lia.
  - simpl.
    destruct (first_idx (fun x => x =? 1) (column (marked s) c)) as [row|] eqn:F1; [|eauto].
    apply (first_idx_Some _ 0) in F1. destruct F1 as [Lr Er].
    rewrite column_length in Lr. rewrite (proj1 HM) in Lr.
    rewrite (column_nth (marked s) n m c row HM Lr) in Er. apply Z.eqb_eq in Er.
    assert (S : star s row c) by exact Er.
    pose proof (RP r c row (q_hprime _ _ _ _ _ Q) S) as Rk.
    assert (Nin : ~ In row prows).
    { intro Hin. destruct (PB row Hin) as [_ [j Hj]]. pose proof (q_rank _ _ _ _ _ Q row j Hj). lia. }
    assert (L : (length (row :: prows) <= n)%nat).
    { apply NoDup_bound_length. constructor; auto. intros x [E|Hx]. subst; auto. apply (PB x Hx). }
    simpl in L.
    assert (E1 : (count + 1 <? n + m)%nat = true) by (apply Nat.ltb_lt; lia).
    assert (E2 : (count + 2 <? n + m)%nat = true) by (apply Nat.ltb_lt; lia).
    rewrite E1, E2.
    destruct (i5_B C0 n m u v s I r c row (q_hprime _ _ _ _ _ Q) S) as [c'' P''].
    destruct (first_idx (fun x => x =? 2) (nth row (marked s) [])) as [c'|] eqn:F2.
    + apply (first_idx_Some _ 0) in F2. destruct F2 as [_ Ec]. apply Z.eqb_eq in Ec.
      assert (P : prime s row c') by exact Ec.
      apply (IHfuel (count + 2)%nat c' ((row, c') :: (row, c) :: acc) row (row :: prows)).
      * eapply pathinv_push; eauto.
      * constructor; auto.
      * intros i [E|Hi]. subst i. split; auto. exists c'. simpl; auto.
        destruct (PB i Hi) as [X [j Y]]. split; auto. exists j. simpl; auto.
      * simpl. lia.
      * lia.
    + exfalso. destruct (prime_range C0 n m Hn u v s row c'' B P'') as [_ Hc''].
      pose proof (first_idx_None _ _ F2 (nth c'' (nth row (marked s) []) 0)) as X.
      unfold prime, mget in P''. rewrite P'' in X. simpl in X.
      assert (false = true -> False) by discriminate. apply H. symmetry. apply X.
      rewrite <- P''. apply nth_In. rewrite (rect_nth_length _ n m row HM Lr). auto.
Qed.
End Path.

Lemma step5_total u v s : inv5 C0 n m u v s -> exists k' s', step5 s = Ok (k', s').
Proof.
  intros I. unfold step5.
  pose proof (i5_base C0 n m u v s I) as B.
  rewrite (rect_nrows _ n m (b_shC C0 n m u v s B)), (rect_ncols _ n m (b_shC C0 n m u v s B) Hn).
  destruct (i5_rank C0 n m u v s I) as [rank RP].
  destruct (prime_range C0 n m Hn u v s _ _ B (i5_z0 C0 n m u v s I)) as [Hr0 _].
  destruct (build_path_total u v s I rank RP (S (n + m)) O (z0c s) [(z0r s, z0c s)] (z0r s) [z0r s]) as [racc E].
  - apply (pathinv_init C0 n m u v s I).
  - constructor; auto. constructor.
  - intros i [E|[]]. subst i. split; auto. exists (z0c s). simpl; auto.
  - simpl. lia.
  - lia.
  - rewrite E. eauto.
Qed.

(** every step of the state machine succeeds from a state satisfying the invariant *)
Lemma step_total k s : good C0 n m k s -> exists k' s', step k s = Ok (k', s').
Proof.
  intros G. destruct k; simpl in *; try (destruct (step1 s); eauto; fail);
    try (destruct (step3 s); eauto; fail); try (destruct (step6 s); eauto; fail); eauto.
  - destruct G as [u [v I]]. apply (step4_total u v s I).
  - destruct G as [u [v I]]. apply (step5_total u v s I).
Qed.

(** the run can only stop early by exhausting the fuel of the driver loop *)
Lemma run_only_fuel : forall fuel k s e, good C0 n m k s -> run fuel k s = Err e -> e = OutOfFuel.
Proof.
  induction fuel; intros k s e G H.
  - destruct k; simpl in H; inversion H; auto.
  - destruct (hstep_eq_dec k Done) as [E|NE].
    + subst k. rewrite run_Done in H. discriminate.
    + rewrite (run_S fuel k s NE) in H.
      destruct (step_total k s G) as [k' [s' E]]. rewrite E in H.
      apply (IHfuel k' s' e); auto. eapply step_good; eauto.
Qed.

End Total.

Theorem lsa_fuel_only_fuel : forall fuel C e,
  rect C (nrows C) (ncols C) -> lsa_fuel fuel C = Err e -> e = OutOfFuel.
Proof.
  intros fuel C e HR H. unfold lsa_fuel in H.
  set (n0 := nrows C) in *. set (m0 := ncols C) in *.
  destruct (Nat.eqb n0 0 || Nat.eqb m0 0) eqn:Z0; try discriminate.
  apply orb_false_iff in Z0. destruct Z0 as [Zn Zm]. apply Nat.eqb_neq in Zn. apply Nat.eqb_neq in Zm.
  destruct (m0 <? n0)%nat eqn:TR.
  - apply Nat.ltb_lt in TR.
    destruct (run fuel S1 (init_state (transpose C))) as [s|e'] eqn:RUN; try discriminate.
    inversion H; subst e'.
    assert (RT : rect (transpose C) m0 n0) by (unfold transpose; apply tab_rect).
    eapply (run_only_fuel (transpose C) m0 n0); [| | | exact RUN]; try lia.
    simpl. apply init_state_ok; auto. lia.
  - apply Nat.ltb_ge in TR.
    destruct (run fuel S1 (init_state C)) as [s|e'] eqn:RUN; try discriminate.
    inversion H; subst e'.
    eapply (run_only_fuel C n0 m0); [| | | exact RUN]; try lia.
    simpl. apply init_state_ok; auto. lia.
Qed.
