(** C16 — (a) degenerate spectra: two copies orient to geometries that differ by an orthogonal matrix intertwining the
    spectra (a rotation / reflection inside the degenerate eigenspaces); (b) mirror images orient alike. *)
From Coq Require Import Reals Lra Psatz List Bool ZArith.
Require Import QV.Common.Outcome QV.Common.Geo3 QV.Common.Geo3Facts QV.Common.Geo3Sum QV.Common.Geo3R
  QV.Gen.Inertia QV.Model.Orient QV.Proofs.Orient QV.Proofs.OrientR QV.Proofs.OrientUniq.
Import ListNotations.
Local Open Scope R_scope.

Theorem frame_unique_degenerate eigh1 eigh2 (atoms : list (watom RK)) (Rm : mat3 RK) (tau : vec3 RK) (r1 r2 : list (watom RK)) :
  orthogonal Rm -> orthogonal (mtrans Rm) -> total_mass RK atoms <> 0 ->
  let T1 := inertia_tensor RK (centre RK atoms) in
  let atoms2 := move_atoms RK Rm tau atoms in
  let T2 := inertia_tensor RK (centre RK atoms2) in
  eigh_ok RK T1 (eigh1 T1) -> eigh_ok RK T2 (eigh2 T2) ->
  orient_atoms RK eigh1 atoms = Ok r1 -> orient_atoms RK eigh2 atoms2 = Ok r2 ->
  let l1 := fst (eigh1 T1) in let l2 := fst (eigh2 T2) in
  exists Q : mat3 RK,
    orthogonal Q /\ orthogonal (mtrans Q)
    /\ mmul (mdiag RK (vx l1) (vy l1) (vz l1)) Q = mmul Q (mdiag RK (vx l2) (vy l2) (vz l2))
    /\ map fst r2 = map (fun x => vm x Q) (map fst r1).
Proof.
  intros OR OR' HM T1 atoms2 T2 K1 K2 H1 H2 l1 l2.
  pose proof (orient_rows _ _ _ H1) as R1. pose proof (orient_rows _ _ _ H2) as R2. cbv zeta in R1, R2.
  fold T1 in R1. fold atoms2 in R2. fold T2 in R2.
  assert (ET2 : T2 = mmul (mmul (mtrans Rm) T1) Rm).
  { unfold T2, atoms2. rewrite (centre_move RK RKf) by exact HM. apply (inertia_transforms RK RKf); assumption. }
  assert (EC2 : centre RK atoms2 = rotate RK Rm (centre RK atoms)) by (apply (centre_move RK RKf); exact HM).
  unfold eigh_ok in K1, K2. subst l1 l2.
  destruct (eigh1 T1) as [lam1 V1]. destruct (eigh2 T2) as [lam2 W2]. cbn [fst snd] in *.
  destruct K1 as [O1 [O1' [E1 _]]]. destruct K2 as [P2 [P2' [E2 _]]].
  rewrite ET2 in E2.
  set (Q0 := mmul (mtrans V1) (mmul Rm W2)).
  assert (HQ : mmul (mdiag RK (vx lam1) (vy lam1) (vz lam1)) Q0 = mmul Q0 (mdiag RK (vx lam2) (vy lam2) (vz lam2)))
    by (apply (intertwine T1 V1 W2 Rm _ _ O1 O1' OR' E1 E2)).
  assert (OQ : orthogonal Q0) by (apply orth_mul; [exact O1' | apply orth_mul; assumption]).
  assert (OQ' : orthogonal (mtrans Q0)).
  { apply orth_trans_mul; [rewrite mtrans_invol_R; exact O1 | apply orth_trans_mul; assumption]. }
  assert (EQ : mmul Rm W2 = mmul V1 Q0).
  { unfold Q0. unfold orthogonal in O1'. rewrite mtrans_invol_R in O1'. rewrite (cancel_l _ _ _ O1'). reflexivity. }
  clearbody Q0.
  set (c := centre RK atoms) in *.
  set (rot1 := map (fun a : watom RK => vm (fst a) V1) c) in *.
  assert (ROT2 : map (fun a : watom RK => vm (fst a) W2) (centre RK atoms2) = map (fun x => vm x Q0) rot1).
  { rewrite EC2. unfold rotate, rot1. rewrite !map_map. cbn [fst]. apply map_ext. intro a.
    rewrite vm_mmul_R, EQ, <- vm_mmul_R. reflexivity. }
  rewrite ROT2 in R2. clear ROT2.
  set (s1 := phase_signs RK (noise RK) rot1) in *.
  set (s2 := phase_signs RK (noise RK) (map (fun x => vm x Q0) rot1)) in *.
  pose proof (phase_signs_signs RK (noise RK) rot1) as S1. fold s1 in S1.
  pose proof (phase_signs_signs RK (noise RK) (map (fun x => vm x Q0) rot1)) as S2. fold s2 in S2.
  destruct (smat_orth RK RKf s1 S1) as [A1 A1']. destruct (smat_orth RK RKf s2 S2) as [A2 A2'].
  exists (mmul (smat RK s1) (mmul Q0 (smat RK s2))).
  split; [apply orth_mul; [exact A1 | apply orth_mul; assumption]|].
  split; [apply orth_trans_mul; [exact A1' | apply orth_trans_mul; assumption]|].
  split.
  - set (L1 := mdiag RK (vx lam1) (vy lam1) (vz lam1)) in *. set (L2 := mdiag RK (vx lam2) (vy lam2) (vz lam2)) in *.
    set (M1 := smat RK s1). set (M2 := smat RK s2).
    assert (C1 : mmul L1 M1 = mmul M1 L1) by apply (smat_diag_comm RK RKf).
    assert (C2 : mmul L2 M2 = mmul M2 L2) by apply (smat_diag_comm RK RKf).
    rewrite <- (mmul_assoc_R L1 M1 (mmul Q0 M2)), C1, (mmul_assoc_R M1 L1 (mmul Q0 M2)).
    rewrite <- (mmul_assoc_R L1 Q0 M2), HQ, (mmul_assoc_R Q0 L2 M2), C2.
    rewrite (mmul_assoc_R M1 (mmul Q0 M2) L2), (mmul_assoc_R Q0 M2 L2). reflexivity.
  - rewrite R2, R1. rewrite !apply_signs_as_vm, !map_map. apply map_ext. intro x.
    rewrite !vm_mmul_R. rewrite <- !mmul_assoc_R.
    assert (SS : mmul (smat RK s1) (smat RK s1) = mident RK).
    { unfold orthogonal in A1. replace (mtrans (smat RK s1)) with (smat RK s1) in A1; [exact A1|].
      destruct s1 as [[a b] c0]. reflexivity. }
    rewrite SS, mmul_ident_l_R. reflexivity.
Qed.

Definition mirror_z : mat3 RK := ((1, 0, 0), (0, 1, 0), (0, 0, - (1))).

Lemma mirror_z_improper : orthogonal mirror_z /\ orthogonal (mtrans mirror_z) /\ mdet mirror_z = - (1).
Proof.
  assert (E : mirror_z = smat RK (1, 1, - (1))) by reflexivity.
  assert (S : signs3 RK (1, 1, - (1))) by (repeat split; cbn; [left | left | right]; reflexivity).
  destruct (smat_orth RK RKf _ S) as [A B]. rewrite E. split; [exact A|]. split; [exact B|].
  unfold smat. vnormalize. cbn. ring.
Qed.
