(** C19 — proofs about ProtoModel.dict's keyword handling and the class-level exclude set shared by all models
    (Model/ModelDict.v): a model-to-dict conversion leaves the shared set as it found it, so after ANY history of
    conversions a comparison of two models sees every field; generated glue = hand model. *)
From Coq Require Import List Bool String.
Require Import QV.Model.Compare QV.Proofs.Compare QV.Model.ModelDict QV.Gen.CompareGlue.
Import ListNotations.
Local Open Scope string_scope.

Lemma pm_dict_shared_unchanged : forall s fl kw m, snd (pm_dict s fl kw m) = s.
Proof. intros. unfold pm_dict, pm_dict_kwargs. reflexivity. Qed.

Lemma after_history_unchanged : forall h s, after_history s h = s.
Proof.
  unfold after_history. induction h as [|c h IH]; intros s.
  - reflexivity.
  - cbn [fold_left]. rewrite pm_dict_shared_unchanged. apply IH.
Qed.

Lemma sunion_nil_r : forall a, sunion a [] = a.
Proof. reflexivity. Qed.

(** a plain .dict() under the initial shared set excludes nothing and keeps unset fields unless the class's own Config
    says otherwise *)
Lemma pm_dict_plain_shared0 : forall fl m, pm_dict shared0 fl plain m = (visible fl m, shared0).
Proof. intros. unfold pm_dict, pm_dict_kwargs, visible, plain, shared0. simpl. reflexivity. Qed.

Theorem model_compare_history_free : forall h o fa fb a b,
  protomodel_compare_after h o fa fb a b = protomodel_compare o (visible fa a) (visible fb b).
Proof.
  intros. unfold protomodel_compare_after. rewrite after_history_unchanged.
  rewrite pm_dict_plain_shared0. rewrite pm_dict_plain_shared0. reflexivity.
Qed.

(** with the class defaults of ProtoModel.Config every field is compared *)
Lemma visible_protoflags0 : forall m, visible protoflags0 m = TDict (map (fun f => (fst f, snd (snd f))) m).
Proof.
  intros. unfold visible, base_dict, protoflags0. simpl. f_equal. f_equal.
  induction m as [|f m IH]; simpl; [reflexivity|]. rewrite IH. reflexivity.
Qed.

(** never a pass after any history when a field (or anything below it) fails its rule and is not excused *)
Theorem model_no_false_pass_after_history : forall h o fa fb a b n,
  Fails (lo_of o) false "root" (visible fa a) (visible fb b) n -> ~ Excused o (visible fa a) (visible fb b) n ->
  protomodel_compare_after h o fa fb a b <> Ok true.
Proof.
  intros h o fa fb a b n F E. rewrite model_compare_history_free. unfold protomodel_compare.
  exact (no_false_pass o _ _ n F E).
Qed.

(** what an earlier call named in exclude= is dropped from THAT call's dict only *)
Lemma smem_app : forall x a b, smem x (a ++ b) = smem x a || smem x b.
Proof. intros. unfold smem. apply existsb_app. Qed.

Lemma sunion_mem : forall b a x, smem x (sunion a b) = smem x a || smem x b.
Proof.
  induction b as [|y b IH]; intros a x; simpl.
  - rewrite orb_false_r. reflexivity.
  - destruct (smem y a) eqn:Y.
    + rewrite IH. destruct (String.eqb x y) eqn:E.
      * apply String.eqb_eq in E. subst. rewrite Y. reflexivity.
      * reflexivity.
    + rewrite IH, smem_app. simpl. rewrite orb_false_r. rewrite <- orb_assoc. reflexivity.
Qed.

Theorem dict_exclude_spec : forall s fl kw x,
  smem x (fst (fst (pm_dict_kwargs s fl kw))) = smem x (or_empty (kw_exclude kw)) || smem x s.
Proof. intros. unfold pm_dict_kwargs. simpl. apply sunion_mem. Qed.

(** generated = hand model *)
Theorem glue_model_dict :
  (forall s fl kw, pm_dict_kwargs s fl kw = ((gen_dict_exclude s kw, gen_dict_exclude_unset fl kw), gen_dict_shared_after s kw))
  /\ gen_shared0 = shared0 /\ gen_protoflags0 = protoflags0
  /\ (forall ex eu, gen_serialize_kw ex eu = serialize_kw ex eu)
  /\ gen_serialize_forwards = ["include"; "exclude"; "exclude_unset"; "exclude_defaults"; "exclude_none"].
Proof. repeat split; reflexivity. Qed.
