(** C01: whole-table facts established by evaluation (split off so that they build in parallel). *)
From Coq Require Import ZArith NArith List String Ascii Bool.
Require Import QV.Common.Outcome QV.Common.PyAscii.
Require Import QV.Gen.PTable QV.Gen.PeriodGroup QV.Gen.Srd144 QV.Model.PeriodicTable.
Import ListNotations.
Open Scope Z_scope.

Definition res_is (x : pyval) (e : string) : bool := outcome_eqb String.eqb (resolve_eliso x) (Ok e).

(** every nuclide label of the table resolves to itself *)
Lemma all_labels_self : forallb (fun ea => res_is (PStr ea) ea) pt_EA = true.
Proof. vm_cast_no_check (@eq_refl bool true). Qed.

(** table consistency: every resolved key has all its data (no KeyError can escape) *)
Definition key_total (k : string) : bool :=
  is_ok (key_Z k) && is_ok (key_E k) && is_ok (key_name k) && is_ok (key_A k) && is_ok (key_mass_dec k).

Lemma all_keys_total : forallb key_total pt_EA = true.
Proof. vm_cast_no_check (@eq_refl bool true). Qed.
