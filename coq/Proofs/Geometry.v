(** C18 — proofs about the generated code Gen/Dihedral.v (regenerated from qcelemental/util/misc.py)
    and the hand models of Model/Geometry.v.
    Part 1: any field (ring/field only; closed under the global context).
    Part 2: the real numbers (sqrt, acos, atan2, order; depends on the Reals axioms). *)
From Coq Require Import List Bool ZArith Field Ring Lia.
Require Import QV.Common.Outcome QV.Common.Geo3 QV.Common.Geo3Np QV.Common.Geo3Facts QV.Gen.Dihedral QV.Model.Geometry.
Import ListNotations.

(** * Part 1: any field *)
Section AnyField.
  Variable K : Fops.
  Hypothesis Kf : is_field K.
  Let Kf' : field_theory (f0 K) (f1 K) (fadd K) (fmul K) (fsub K) (fopp K) (fdiv K) (finv K) eq := Kf.
  Add Field KFG : Kf'.
  Local Notation "a + b" := (fadd K a b).
  Local Notation "a * b" := (fmul K a b).
  Local Notation "a - b" := (fsub K a b).
  Local Notation "- a" := (fopp K a).
  Local Notation "a / b" := (fdiv K a b).

  (** ** what the generated code computes on one row *)

  (* the cosine the code hands to clip/arccos: note v23 = p2 - p3 points away from p3 *)
  Definition code_cos (p1 p2 p3 : vec3 K) : K :=
    vdot (vsub p1 p2) (vsub p2 p3) / (vnorm (vsub p1 p2) * vnorm (vsub p2 p3)).

  (* closed forms of the (y, x) handed to arctan2, in dot/triple products of b1 b2 b3 and i = 1/|b2| *)
  Definition dihYc (b1 b2 b3 : vec3 K) : K := triple b1 b2 b3 * finv K (vnorm b2).
  Definition dihXc (b1 b2 b3 : vec3 K) : K :=
    let i := finv K (vnorm b2) in
    vdot b2 b3 * vdot b1 b2 * (i * i) - vdot b1 b3 - vdot b1 b1 * vdot b2 b3 * i
    + vdot b1 b1 * vdot b2 b3 * vdot b2 b2 * (i * i * i).

  Lemma distance_row (p q : vec3 K) :
    compute_distance K (A2 [p]) (A2 [q]) = Ok (A1 [tb_dist K p q]).
  Proof. dvec p; dvec q. reflexivity. Qed.

  Lemma distance_1d (p q : vec3 K) :
    compute_distance K (vec_arr K p) (vec_arr K q) = Ok (A1 [tb_dist K p q]).
  Proof. dvec p; dvec q. reflexivity. Qed.

  Lemma angle_pre_row (p1 p2 p3 : vec3 K) :
    compute_angle_pre K (A2 [p1]) (A2 [p2]) (A2 [p3])
    = Ok (A1 [clip1 K (- f1 K) (f1 K) (code_cos p1 p2 p3)]).
  Proof. dvec p1; dvec p2; dvec p3. reflexivity. Qed.

  Lemma angle_pre_1d (p1 p2 p3 : vec3 K) :
    compute_angle_pre K (vec_arr K p1) (vec_arr K p2) (vec_arr K p3) = compute_angle_pre K (A2 [p1]) (A2 [p2]) (A2 [p3]).
  Proof. dvec p1; dvec p2; dvec p3. reflexivity. Qed.

  Lemma code_cos_textbook (p1 p2 p3 : vec3 K) :
    vnorm (vsub p1 p2) <> f0 K -> vnorm (vsub p3 p2) <> f0 K ->
    code_cos p1 p2 p3 = - tb_cos K p1 p2 p3.
  Proof.
    intros H1 H2. unfold code_cos, tb_cos. rewrite (vnorm_sub_swap K Kf p2 p3).
    rewrite (vsub_swap K Kf p2 p3), (vdot_neg_r K Kf).
    set (s := vnorm (vsub p1 p2)) in *. set (t := vnorm (vsub p3 p2)) in *.
    set (d := vdot (vsub p1 p2) (vsub p3 p2)). field. split; assumption.
  Qed.

  Lemma dihedral_pre_closed (p1 p2 p3 p4 : vec3 K) :
    compute_dihedral_pre K (A2 [p1]) (A2 [p2]) (A2 [p3]) (A2 [p4])
    = Ok (A1 [dihYc (vsub p2 p1) (vsub p3 p2) (vsub p4 p3)], A1 [dihXc (vsub p2 p1) (vsub p3 p2) (vsub p4 p3)]).
  Proof.
    dvec p1; dvec p2; dvec p3; dvec p4.
    unfold dihYc, dihXc. cbn. vnormalize.
    set (s := fsqrt K _). clearbody s.
    rewrite !(fdiv_def K Kf).
    set (i := finv K s). clearbody i.
    f_equal. f_equal; f_equal; f_equal; ring.
  Qed.

  Lemma dihedral_pre_1d (p1 p2 p3 p4 : vec3 K) :
    compute_dihedral_pre K (vec_arr K p1) (vec_arr K p2) (vec_arr K p3) (vec_arr K p4)
    = compute_dihedral_pre K (A2 [p1]) (A2 [p2]) (A2 [p3]) (A2 [p4]).
  Proof. dvec p1; dvec p2; dvec p3; dvec p4. reflexivity. Qed.

  (** the pair handed to arctan2 is the textbook pair divided by |b2|^2 *)
  Lemma dih_closed_textbook (p1 p2 p3 p4 : vec3 K) :
    let s := vnorm (vsub p3 p2) in
    s * s = norm2 (vsub p3 p2) -> s <> f0 K ->
    (s * s) * dihYc (vsub p2 p1) (vsub p3 p2) (vsub p4 p3) = tb_dih_y K p1 p2 p3 p4
    /\ (s * s) * dihXc (vsub p2 p1) (vsub p3 p2) (vsub p4 p3) = tb_dih_x K p1 p2 p3 p4.
  Proof.
    intros s Hs Hn. subst s. unfold dihYc, dihXc, tb_dih_y, tb_dih_x.
    dvec p1; dvec p2; dvec p3; dvec p4. vnormalize.
    set (s := fsqrt K _) in *. clearbody s.
    split; field [Hs]; assumption.
  Qed.

  (** ** rigid motions, reflections *)
  Lemma tb_dist_rigid (M : mat3 K) (t p q : vec3 K) :
    orthogonal M -> tb_dist K (rigid M t p) (rigid M t q) = tb_dist K p q.
  Proof. intro H. unfold tb_dist, vnorm. rewrite (rigid_norm2 K Kf) by assumption. reflexivity. Qed.

  Lemma code_cos_rigid (M : mat3 K) (t p1 p2 p3 : vec3 K) :
    orthogonal M -> code_cos (rigid M t p1) (rigid M t p2) (rigid M t p3) = code_cos p1 p2 p3.
  Proof.
    intro H. unfold code_cos. rewrite !(rigid_diff K Kf), (mv_dot K Kf), !(mv_vnorm K Kf) by assumption. reflexivity.
  Qed.

  Lemma tb_cos_rigid (M : mat3 K) (t p1 p2 p3 : vec3 K) :
    orthogonal M -> tb_cos K (rigid M t p1) (rigid M t p2) (rigid M t p3) = tb_cos K p1 p2 p3.
  Proof.
    intro H. unfold tb_cos. rewrite !(rigid_diff K Kf), (mv_dot K Kf), !(mv_vnorm K Kf) by assumption. reflexivity.
  Qed.

  Lemma dihXc_mv (M : mat3 K) (b1 b2 b3 : vec3 K) :
    orthogonal M -> dihXc (mv M b1) (mv M b2) (mv M b3) = dihXc b1 b2 b3.
  Proof. intro H. unfold dihXc. rewrite !(mv_dot K Kf), (mv_vnorm K Kf) by assumption. reflexivity. Qed.

  Lemma dihYc_mv (M : mat3 K) (b1 b2 b3 : vec3 K) :
    orthogonal M -> dihYc (mv M b1) (mv M b2) (mv M b3) = mdet M * dihYc b1 b2 b3.
  Proof. intro H. unfold dihYc. rewrite (triple_mv K Kf), (mv_vnorm K Kf) by assumption. ring. Qed.

  Lemma dihedral_pre_rigid (M : mat3 K) (t p1 p2 p3 p4 : vec3 K) :
    orthogonal M -> mdet M = f1 K ->
    compute_dihedral_pre K (A2 [rigid M t p1]) (A2 [rigid M t p2]) (A2 [rigid M t p3]) (A2 [rigid M t p4])
    = compute_dihedral_pre K (A2 [p1]) (A2 [p2]) (A2 [p3]) (A2 [p4]).
  Proof.
    intros H D. rewrite !dihedral_pre_closed, !(rigid_diff K Kf), dihXc_mv, dihYc_mv, D by assumption.
    f_equal. f_equal. f_equal. f_equal. ring.
  Qed.

  Lemma dihedral_pre_reflect (M : mat3 K) (t p1 p2 p3 p4 : vec3 K) :
    orthogonal M -> mdet M = - f1 K ->
    compute_dihedral_pre K (A2 [rigid M t p1]) (A2 [rigid M t p2]) (A2 [rigid M t p3]) (A2 [rigid M t p4])
    = Ok (A1 [- dihYc (vsub p2 p1) (vsub p3 p2) (vsub p4 p3)], A1 [dihXc (vsub p2 p1) (vsub p3 p2) (vsub p4 p3)]).
  Proof.
    intros H D. rewrite !dihedral_pre_closed, !(rigid_diff K Kf), dihXc_mv, dihYc_mv, D by assumption.
    f_equal. f_equal. f_equal. f_equal. ring.
  Qed.

  Lemma angle_pre_rigid (M : mat3 K) (t p1 p2 p3 : vec3 K) :
    orthogonal M ->
    compute_angle_pre K (A2 [rigid M t p1]) (A2 [rigid M t p2]) (A2 [rigid M t p3])
    = compute_angle_pre K (A2 [p1]) (A2 [p2]) (A2 [p3]).
  Proof. intro H. rewrite !angle_pre_row, code_cos_rigid by assumption. reflexivity. Qed.

  Lemma distance_rigid (M : mat3 K) (t p q : vec3 K) :
    orthogonal M ->
    compute_distance K (A2 [rigid M t p]) (A2 [rigid M t q]) = compute_distance K (A2 [p]) (A2 [q]).
  Proof. intro H. rewrite !distance_row, tb_dist_rigid by assumption. reflexivity. Qed.

  (* the full functions only post-process the _pre results *)
  Lemma compute_angle_via_pre a b c a' b' c' dg :
    compute_angle_pre K a b c = compute_angle_pre K a' b' c' -> compute_angle K a b c dg = compute_angle K a' b' c' dg.
  Proof. intro H. unfold compute_angle. rewrite H. reflexivity. Qed.

  Lemma compute_dihedral_via_pre a b c d a' b' c' d' dg :
    compute_dihedral_pre K a b c d = compute_dihedral_pre K a' b' c' d' ->
    compute_dihedral K a b c d dg = compute_dihedral K a' b' c' d' dg.
  Proof. intro H. unfold compute_dihedral. rewrite H. reflexivity. Qed.

  (** ** listing the four points backwards *)
  Lemma dihedral_pre_reverse (p1 p2 p3 p4 : vec3 K) :
    let s := vnorm (vsub p3 p2) in
    s * s = norm2 (vsub p3 p2) -> s <> f0 K ->
    compute_dihedral_pre K (A2 [p4]) (A2 [p3]) (A2 [p2]) (A2 [p1])
    = compute_dihedral_pre K (A2 [p1]) (A2 [p2]) (A2 [p3]) (A2 [p4]).
  Proof.
    intros s Hs Hn. subst s. rewrite !dihedral_pre_closed. unfold dihYc, dihXc.
    rewrite (vnorm_sub_swap K Kf p2 p3).
    dvec p1; dvec p2; dvec p3; dvec p4. vnormalize.
    set (s := fsqrt K _) in *. clearbody s.
    f_equal. f_equal; f_equal; f_equal; field [Hs]; assumption.
  Qed.

  Lemma angle_pre_reverse (p1 p2 p3 : vec3 K) :
    compute_angle_pre K (A2 [p3]) (A2 [p2]) (A2 [p1]) = compute_angle_pre K (A2 [p1]) (A2 [p2]) (A2 [p3]).
  Proof.
    rewrite !angle_pre_row. f_equal. f_equal. f_equal. f_equal. unfold code_cos.
    rewrite (vnorm_sub_swap K Kf p3 p2), (vnorm_sub_swap K Kf p2 p1).
    rewrite (vsub_swap K Kf p3 p2), (vsub_swap K Kf p2 p1), (vdot_neg_neg K Kf), (vdot_comm K Kf).
    rewrite !(fdiv_def K Kf). f_equal. f_equal. ring.
  Qed.

  Lemma tb_dist_sym (p q : vec3 K) : tb_dist K p q = tb_dist K q p.
  Proof. unfold tb_dist. apply (vnorm_sub_swap K Kf). Qed.

  (** ** degrees = radians * 180 / pi *)
  Lemma angle_degrees a b c :
    compute_angle K a b c true = r <- compute_angle K a b c false ;; np_degrees K r.
  Proof.
    unfold compute_angle. destruct (compute_angle_pre K a b c) as [pre|e]; [|reflexivity]. cbn.
    destruct (np_un K (facos K) pre); reflexivity.
  Qed.

  Lemma dihedral_degrees a b c d :
    compute_dihedral K a b c d true = r <- compute_dihedral K a b c d false ;; np_degrees K r.
  Proof.
    unfold compute_dihedral. destruct (compute_dihedral_pre K a b c d) as [[y x]|e]; [|reflexivity]. cbn.
    destruct (np_arctan2 K y x); reflexivity.
  Qed.

  Lemma np_degrees_row (x : K) : np_degrees K (A1 [x]) = Ok (A1 [x * fofZ K 180 / fpi K]).
  Proof. reflexivity. Qed.

  (** ** batched (2-D, n rows) forms agree with the row-wise results *)
  Lemma bzip_same {A B C} (f : A -> B -> C) (la : list A) (lb : list B) :
    length la = length lb -> bzip f la lb = Ok (map2 f la lb).
  Proof. intro H. unfold bzip. rewrite H, Nat.eqb_refl. reflexivity. Qed.

  Lemma map2_map {A B C D} (f : B -> C -> D) (g : A -> B) (h : A -> C) (l : list A) :
    map2 f (map g l) (map h l) = map (fun r => f (g r) (h r)) l.
  Proof. induction l; cbn; [reflexivity | rewrite IHl; reflexivity]. Qed.

  Lemma bzip_map {A B B' C} (f : B -> B' -> C) (g : A -> B) (h : A -> B') (l : list A) :
    bzip f (map g l) (map h l) = Ok (map (fun r => f (g r) (h r)) l).
  Proof. rewrite bzip_same by (rewrite !map_length; reflexivity). rewrite map2_map. reflexivity. Qed.

  Lemma bzip_map_id {A C} (f : A -> A -> C) (l : list A) : bzip f l l = Ok (map (fun r => f r r) l).
  Proof. rewrite <- (map_id l) at 1 2. apply bzip_map. Qed.

  Lemma distance_batched {A} (g h : A -> vec3 K) (l : list A) :
    compute_distance K (A2 (map g l)) (A2 (map h l)) = Ok (A1 (map (fun r => tb_dist K (g r) (h r)) l)).
  Proof.
    unfold compute_distance, py_norm. cbn. rewrite bzip_map. cbn. rewrite bzip_map_id. cbn.
    rewrite !map_map. unfold np_sqrt. cbn. rewrite map_map. reflexivity.
  Qed.

  Lemma angle_pre_batched {A} (g1 g2 g3 : A -> vec3 K) (l : list A) :
    compute_angle_pre K (A2 (map g1 l)) (A2 (map g2 l)) (A2 (map g3 l))
    = Ok (A1 (map (fun r => clip1 K (- f1 K) (f1 K) (code_cos (g1 r) (g2 r) (g3 r))) l)).
  Proof.
    unfold compute_angle_pre, py_norm. cbn. rewrite !bzip_map. cbn. rewrite !bzip_map_id. cbn.
    rewrite !map_map.
    rewrite (bzip_map (fmul K) (fun x => fsqrt K (vdot (vzip (fsub K) (g1 x) (g2 x)) (vzip (fsub K) (g1 x) (g2 x))))
                      (fun x => fsqrt K (vdot (vzip (fsub K) (g2 x) (g3 x)) (vzip (fsub K) (g2 x) (g3 x)))) l).
    cbn.
    rewrite (bzip_map vdot (fun r => vzip (fsub K) (g1 r) (g2 r)) (fun r => vzip (fsub K) (g2 r) (g3 r)) l).
    cbn.
    rewrite (bzip_map (fdiv K) (fun r => vdot (vzip (fsub K) (g1 r) (g2 r)) (vzip (fsub K) (g2 r) (g3 r)))
               (fun r => fsqrt K (vdot (vzip (fsub K) (g1 r) (g2 r)) (vzip (fsub K) (g1 r) (g2 r)))
                         * fsqrt K (vdot (vzip (fsub K) (g2 r) (g3 r)) (vzip (fsub K) (g2 r) (g3 r)))) l).
    cbn. rewrite map_map. reflexivity.
  Qed.

  (** batched compute_dihedral (after the repair 056f883 of the broadcast along the wrong axis):
      every row gets the closed form of the one-row result *)
  Lemma dihedral_pre_batched {A} (g1 g2 g3 g4 : A -> vec3 K) (l : list A) :
    compute_dihedral_pre K (A2 (map g1 l)) (A2 (map g2 l)) (A2 (map g3 l)) (A2 (map g4 l))
    = Ok (A1 (map (fun r => dihYc (vsub (g2 r) (g1 r)) (vsub (g3 r) (g2 r)) (vsub (g4 r) (g3 r))) l),
          A1 (map (fun r => dihXc (vsub (g2 r) (g1 r)) (vsub (g3 r) (g2 r)) (vsub (g4 r) (g3 r))) l)).
  Proof.
    unfold compute_dihedral_pre, py_norm. cbn.
    repeat (rewrite ?bzip_map, ?bzip_map_id, ?map_map; cbn).
    f_equal. f_equal; f_equal; apply map_ext; intro r;
      destruct (g1 r) as [[a1 a2] a3], (g2 r) as [[b1 b2] b3], (g3 r) as [[c1 c2] c3], (g4 r) as [[d1 d2] d3];
      unfold dihYc, dihXc; vnormalize;
      set (s := fsqrt K _); clearbody s; rewrite !(fdiv_def K Kf); set (i := finv K s); clearbody i; ring.
  Qed.

  (** ** measure_coordinates: index-based form = row-wise form on the selected rows *)
  Lemma py_row_nth (coords : list (vec3 K)) (i : nat) (p : vec3 K) :
    nth_error coords i = Some p -> py_row K coords (Z.of_nat i) = Ok p.
  Proof.
    intro H. unfold py_row.
    assert (Hl : (i < length coords)%nat) by (apply nth_error_Some; rewrite H; discriminate).
    destruct (Z.of_nat i <? 0)%Z eqn:E; [apply Z.ltb_lt in E; lia|].
    replace ((Z.of_nat i <? 0)%Z || (Z.of_nat (length coords) <=? Z.of_nat i)%Z) with false.
    - rewrite Nat2Z.id, H. reflexivity.
    - symmetry. apply orb_false_iff. split; [assumption | apply Z.leb_gt; lia].
  Qed.

  Lemma bounds_ok (coords : list (vec3 K)) (l : list nat) :
    Forall (fun i => (i < length coords)%nat) l ->
    existsb (fun x => (Z.of_nat (length coords) <=? x)%Z) (map Z.of_nat l) = false.
  Proof.
    induction 1; cbn; [reflexivity|]. rewrite IHForall, orb_false_r. apply Z.leb_gt. lia.
  Qed.

  Lemma measure_distance coords dg i j pi pj :
    nth_error coords i = Some pi -> nth_error coords j = Some pj ->
    measure1 K coords dg [Z.of_nat i; Z.of_nat j] = Ok (tb_dist K pi pj).
  Proof.
    intros Hi Hj. unfold measure1, measure_one.
    change [Z.of_nat i; Z.of_nat j] with (map Z.of_nat [i; j]).
    rewrite bounds_ok.
    - cbn [map]. rewrite (py_row_nth _ _ _ Hi), (py_row_nth _ _ _ Hj). cbn [obind].
      unfold first_of. rewrite distance_1d. reflexivity.
    - repeat constructor; apply nth_error_Some; [rewrite Hi | rewrite Hj]; discriminate.
  Qed.

  Lemma measure_angle coords dg i j k pi pj pk :
    nth_error coords i = Some pi -> nth_error coords j = Some pj -> nth_error coords k = Some pk ->
    measure1 K coords dg [Z.of_nat i; Z.of_nat j; Z.of_nat k]
    = first_of K (compute_angle K (vec_arr K pi) (vec_arr K pj) (vec_arr K pk) dg).
  Proof.
    intros Hi Hj Hk. unfold measure1, measure_one.
    change [Z.of_nat i; Z.of_nat j; Z.of_nat k] with (map Z.of_nat [i; j; k]).
    rewrite bounds_ok.
    - cbn [map]. rewrite (py_row_nth _ _ _ Hi), (py_row_nth _ _ _ Hj), (py_row_nth _ _ _ Hk). reflexivity.
    - repeat constructor; apply nth_error_Some; [rewrite Hi | rewrite Hj | rewrite Hk]; discriminate.
  Qed.

  Lemma measure_dihedral coords dg i j k l pi pj pk pl :
    nth_error coords i = Some pi -> nth_error coords j = Some pj -> nth_error coords k = Some pk ->
    nth_error coords l = Some pl ->
    measure1 K coords dg [Z.of_nat i; Z.of_nat j; Z.of_nat k; Z.of_nat l]
    = first_of K (compute_dihedral K (vec_arr K pi) (vec_arr K pj) (vec_arr K pk) (vec_arr K pl) dg).
  Proof.
    intros Hi Hj Hk Hl. unfold measure1, measure_one.
    change [Z.of_nat i; Z.of_nat j; Z.of_nat k; Z.of_nat l] with (map Z.of_nat [i; j; k; l]).
    rewrite bounds_ok.
    - cbn [map]. rewrite (py_row_nth _ _ _ Hi), (py_row_nth _ _ _ Hj), (py_row_nth _ _ _ Hk), (py_row_nth _ _ _ Hl). reflexivity.
    - repeat constructor; apply nth_error_Some; [rewrite Hi | rewrite Hj | rewrite Hk | rewrite Hl]; discriminate.
  Qed.

  (** distance_matrix: its diagonal is compute_distance, every entry the textbook distance *)
  Lemma distance_matrix_entry (a b : list (vec3 K)) i j p q :
    nth_error a i = Some p -> nth_error b j = Some q ->
    option_map (fun row => nth_error row j) (nth_error (distance_matrix K a b) i) = Some (Some (tb_dist K p q)).
  Proof.
    intros Ha Hb. unfold distance_matrix.
    rewrite nth_error_map, Ha. cbn. rewrite nth_error_map, Hb. reflexivity.
  Qed.
End AnyField.

(** * Connectivity: the double loop lists exactly the bonded pairs i<j, in lexicographic order *)
Section Connectivity.
  Variable K : Fops.
  Variable bd : atom K -> atom K -> bool.

  Lemma conn_row_spec x ax j rest i k :
    In (i, k) (conn_row K bd x ax j rest) <->
    i = x /\ exists ak, (j <= k)%nat /\ nth_error rest (k - j) = Some ak /\ bd ax ak = true.
  Proof.
    revert j. induction rest as [|aj tl IH]; intro j; cbn.
    - split; [intros [] | intros [_ [ak [_ [H _]]]]]. destruct (k - j)%nat; discriminate.
    - rewrite in_app_iff, IH. split.
      + intros [H | [Hi [ak [Hle [Hn Hb]]]]].
        * destruct (bd ax aj) eqn:E; [|destruct H]. destruct H as [H|[]]. injection H as <- <-.
          split; [reflexivity|]. exists aj. rewrite Nat.sub_diag. repeat split; [lia | assumption].
        * split; [assumption|]. exists ak. split; [lia|]. split; [|assumption].
          replace (k - j)%nat with (S (k - S j)) by lia. exact Hn.
      + intros [Hi [ak [Hle [Hn Hb]]]]. destruct (Nat.eq_dec k j) as [->|Hne].
        * left. rewrite Nat.sub_diag in Hn. injection Hn as ->. rewrite Hb. left. subst. reflexivity.
        * right. split; [assumption|]. exists ak. split; [lia|]. split; [|assumption].
          replace (k - j)%nat with (S (k - S j)) in Hn by lia. exact Hn.
  Qed.

  Lemma conn_from_spec x atoms i k :
    In (i, k) (conn_from K bd x atoms) <->
    exists ai ak, (x <= i)%nat /\ (i < k)%nat /\ nth_error atoms (i - x) = Some ai /\ nth_error atoms (k - x) = Some ak
                  /\ bd ai ak = true.
  Proof.
    revert x. induction atoms as [|ax tl IH]; intro x; cbn.
    - split; [intros [] | intros [ai [ak [_ [_ [H _]]]]]]. destruct (i - x)%nat; discriminate.
    - rewrite in_app_iff, conn_row_spec, IH. split.
      + intros [[-> [ak [Hle [Hn Hb]]]] | [ai [ak [Hxi [Hik [Hi [Hk Hb]]]]]]].
        * exists ax, ak. rewrite Nat.sub_diag. repeat split; try lia; try assumption.
          replace (k - x)%nat with (S (k - S x)) by lia. exact Hn.
        * exists ai, ak. repeat split; try lia; try assumption.
          -- replace (i - x)%nat with (S (i - S x)) by lia. exact Hi.
          -- replace (k - x)%nat with (S (k - S x)) by lia. exact Hk.
      + intros [ai [ak [Hxi [Hik [Hi [Hk Hb]]]]]]. destruct (Nat.eq_dec i x) as [->|Hne].
        * left. split; [reflexivity|]. rewrite Nat.sub_diag in Hi. injection Hi as ->.
          exists ak. split; [lia|]. split; [|assumption].
          replace (k - x)%nat with (S (k - S x)) in Hk by lia. exact Hk.
        * right. exists ai, ak. repeat split; try lia; try assumption.
          -- replace (i - x)%nat with (S (i - S x)) in Hi by lia. exact Hi.
          -- replace (k - x)%nat with (S (k - S x)) in Hk by lia. exact Hk.
  Qed.

  (* strict lexicographic order on pairs *)
  Definition lex_lt (a b : nat * nat) : Prop := (fst a < fst b)%nat \/ (fst a = fst b /\ (snd a < snd b)%nat).

  Inductive lex_sorted : list (nat * nat) -> Prop :=
  | ls_nil : lex_sorted []
  | ls_cons a l : (forall b, In b l -> lex_lt a b) -> lex_sorted l -> lex_sorted (a :: l).

  Lemma lex_sorted_app l1 l2 :
    lex_sorted l1 -> lex_sorted l2 -> (forall a b, In a l1 -> In b l2 -> lex_lt a b) -> lex_sorted (l1 ++ l2).
  Proof.
    induction 1 as [|a l Ha Hl IH]; intros H2 H12; cbn; [assumption|].
    constructor.
    - intros b Hb. apply in_app_iff in Hb. destruct Hb; [apply Ha; assumption | apply H12; [left; reflexivity | assumption]].
    - apply IH; [assumption|]. intros; apply H12; [right|]; assumption.
  Qed.

  Lemma conn_row_sorted x ax j rest : lex_sorted (conn_row K bd x ax j rest).
  Proof.
    revert j. induction rest as [|aj tl IH]; intro j; cbn; [constructor|].
    apply lex_sorted_app.
    - destruct (bd ax aj); [constructor; [intros b0 [] | constructor] | constructor].
    - apply IH.
    - intros a0 ik Ha Hb. destruct ik as [i k]. destruct (bd ax aj); [|destruct Ha]. destruct Ha as [<-|[]].
      apply conn_row_spec in Hb. destruct Hb as [-> [ak [Hle _]]]. right. cbn. split; [reflexivity | lia].
  Qed.

  Lemma conn_from_sorted x atoms : lex_sorted (conn_from K bd x atoms).
  Proof.
    revert x. induction atoms as [|ax tl IH]; intro x; cbn; [constructor|].
    apply lex_sorted_app; [apply conn_row_sorted | apply IH |].
    intros ik ik' Ha Hb. destruct ik as [i k]. destruct ik' as [i' k']. apply conn_row_spec in Ha. destruct Ha as [-> _].
    apply conn_from_spec in Hb. destruct Hb as [_ [_ [Hle _]]]. left. cbn. lia.
  Qed.

  (** the spec: with 0-based indices *)
  Theorem connectivity_spec_gen atoms i k :
    In (i, k) (conn_from K bd 0 atoms) <->
    exists ai ak, (i < k)%nat /\ nth_error atoms i = Some ai /\ nth_error atoms k = Some ak /\ bd ai ak = true.
  Proof.
    rewrite conn_from_spec. split.
    - intros [ai [ak [_ [Hik [Hi [Hk Hb]]]]]]. rewrite Nat.sub_0_r in *. exists ai, ak. auto.
    - intros [ai [ak [Hik [Hi [Hk Hb]]]]]. exists ai, ak. rewrite !Nat.sub_0_r. repeat split; try lia; assumption.
  Qed.

  (** the result depends on the atoms only through the pairwise decisions *)
  Lemma conn_row_ext (bd' : atom K -> atom K -> bool) (f : atom K -> atom K) x ax j rest :
    (forall a b, bd' (f a) (f b) = bd a b) ->
    conn_row K bd' x (f ax) j (map f rest) = conn_row K bd x ax j rest.
  Proof. intro H. revert j. induction rest; intro j; cbn; [reflexivity|]. rewrite H, IHrest. reflexivity. Qed.

  Lemma conn_from_ext (bd' : atom K -> atom K -> bool) (f : atom K -> atom K) x atoms :
    (forall a b, bd' (f a) (f b) = bd a b) ->
    conn_from K bd' x (map f atoms) = conn_from K bd x atoms.
  Proof.
    intro H. revert x. induction atoms; intro x; cbn; [reflexivity|].
    rewrite (conn_row_ext bd' f _ _ _ _ H), IHatoms. reflexivity.
  Qed.
End Connectivity.

Section ConnectivityField.
  Variable K : Fops.
  Hypothesis Kf : is_field K.
  Let Kf' : field_theory (f0 K) (f1 K) (fadd K) (fmul K) (fsub K) (fopp K) (fdiv K) (finv K) eq := Kf.
  Add Field KFC : Kf'.

  Definition move_atom (M : mat3 K) (t : vec3 K) (a : atom K) : atom K := (rigid M t (fst a), snd a).

  Lemma bonded_rigid thr M t a b : orthogonal M -> bonded K thr (move_atom M t a) (move_atom M t b) = bonded K thr a b.
  Proof. intro H. unfold bonded, move_atom. cbn [fst snd]. rewrite (rigid_norm2 K Kf) by assumption. reflexivity. Qed.

  Lemma bonded_sym thr a b : bonded K thr a b = bonded K thr b a.
  Proof.
    unfold bonded. rewrite (norm2_sub_swap K Kf (fst a) (fst b)).
    replace (fadd K (snd a) (snd b)) with (fadd K (snd b) (snd a)) by ring. reflexivity.
  Qed.

  Theorem connectivity_rigid thr M t atoms :
    orthogonal M -> guess_connectivity K thr (map (move_atom M t) atoms) = guess_connectivity K thr atoms.
  Proof. intro H. unfold guess_connectivity. apply conn_from_ext. intros a b. apply bonded_rigid. assumption. Qed.

  (** unordered pair {i,j} is listed *)
  Definition listed (l : list (nat * nat)) (i j : nat) : Prop := In (Nat.min i j, Nat.max i j) l.

  Lemma listed_spec thr atoms i j ai aj :
    i <> j -> nth_error atoms i = Some ai -> nth_error atoms j = Some aj ->
    (listed (guess_connectivity K thr atoms) i j <-> bonded K thr ai aj = true).
  Proof.
    intros Hne Hi Hj. unfold listed, guess_connectivity. rewrite connectivity_spec_gen.
    destruct (Nat.lt_ge_cases i j) as [Hlt | Hge].
    - rewrite Nat.min_l, Nat.max_r by lia. split.
      + intros [a [b [_ [Ha [Hb H]]]]]. rewrite Hi in Ha. rewrite Hj in Hb. injection Ha as <-. injection Hb as <-. exact H.
      + intro H. exists ai, aj. auto.
    - rewrite Nat.min_r, Nat.max_l by lia. split.
      + intros [a [b [_ [Ha [Hb H]]]]]. rewrite Hj in Ha. rewrite Hi in Hb. injection Ha as <-. injection Hb as <-.
        rewrite bonded_sym. exact H.
      + intro H. exists aj, ai. rewrite bonded_sym. repeat split; try assumption. lia.
  Qed.

  (** relabelling: if atom i of the reordered molecule is atom s(i) of the original one, then
      {i,j} is listed for the reordered molecule iff {s i, s j} is listed for the original *)
  Theorem connectivity_relabel thr atoms atoms' (s : nat -> nat) i j ai aj :
    (forall k a, nth_error atoms' k = Some a -> nth_error atoms (s k) = Some a) ->
    i <> j -> s i <> s j -> nth_error atoms' i = Some ai -> nth_error atoms' j = Some aj ->
    (listed (guess_connectivity K thr atoms') i j <-> listed (guess_connectivity K thr atoms) (s i) (s j)).
  Proof.
    intros Hs Hne Hsne Hi Hj.
    rewrite (listed_spec thr atoms' i j ai aj Hne Hi Hj).
    rewrite (listed_spec thr atoms (s i) (s j) ai aj Hsne (Hs _ _ Hi) (Hs _ _ Hj)). reflexivity.
  Qed.
End ConnectivityField.
