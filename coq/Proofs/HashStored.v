(** C11 — bond lists that are stored as given (they did not pass validate_bonds): the hash reads the stored list, so hash equality
    is equality of the listings themselves; invariance under re-listing is a property of the validator (Proofs/HashMol.v), not of
    get_hash.  Known finding C11-text-keyword-bonds-unvalidated: Molecule.from_data(text, connectivity=...) stores the keyword list. *)
From Coq Require Import ZArith QArith Qabs List String Bool Permutation Lia Lqa.
Require Import QV.Common.Outcome QV.Common.HFRound QV.Common.HFBin64 QV.Common.HFHash QV.Gen.HashConsts QV.Model.Hash QV.Proofs.Hash QV.Proofs.HashPrep QV.Proofs.HashMol QV.Proofs.HashFl64.
Import ListNotations.
Open Scope Z_scope.
Definition sbd (a b n : Z) (d : positive) : bond := (a, b, Qmake n d).
Definition stored_water : mol :=
  {| symbols := ["O"; "H"; "H"]%string; masses_ := None; mcharge := FQ 0; mmult := 1; real_ := None;
     geometry := [FQ 0; FQ 0; FQ 0; FQ 0; FQ (3 # 2); FQ (11 # 10); FQ 0; FQ (-3 # 2); FQ (11 # 10)];
     fragments_ := None; fcharges_ := None; fmults_ := None; connectivity_ := None; others := [] |}.
Lemma stored_listing_visible_refuted :
  exists to_mass m l l' bs, Permutation l (flip_by bs l') /\ canon_bonds l = canon_bonds l'
    /\ canon to_mass (with_connectivity m (Some l)) <> canon to_mass (with_connectivity m (Some l'))
    /\ canon to_mass (with_connectivity m (Some (canon_bonds l))) = canon to_mass (with_connectivity m (Some (canon_bonds l'))).
Proof.
  exists (fun _ => FQ 1), stored_water, [sbd 0 1 1 1; sbd 0 2 1 1], [sbd 2 0 1 1; sbd 1 0 1 1], [true; true].
  split; [|split; [|split]].
  - simpl. apply perm_swap.
  - vm_compute. reflexivity.
  - vm_compute. discriminate.
  - vm_compute. reflexivity.
Qed.

Definition listed_as_given (s : list bond) : list bond := map (fun b : bond => let '(a1, a2, o) := b in (a1, a2, Qred o)) s.
Lemma stored_listing_hash_eq_iff : forall to_mass m s s', wf m ->
  (canon to_mass (with_connectivity m (Some s)) = canon to_mass (with_connectivity m (Some s')) <-> listed_as_given s = listed_as_given s').
Proof.
  intros to_mass m s s' Hwf. split.
  - intro H. apply canon_injective in H; [| exact Hwf | exact Hwf].
    destruct H as (_ & _ & _ & _ & _ & _ & _ & _ & _ & Hb).
    unfold bonds_repr in Hb. simpl in Hb. injection Hb as Hb. exact Hb.
  - intro H. apply canon_complete. unfold agree. repeat split; try reflexivity.
    unfold bonds_repr. simpl. unfold listed_as_given in H. rewrite H. reflexivity.
Qed.
