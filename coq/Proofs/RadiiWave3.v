(** C17 (wave 3): the tabulated value under ANY name of the element; the missing-data contract instantiated for every
    untabulated element and for non-atoms; the special labels tied to the generic-element aliases. *)
From Coq Require Import ZArith QArith List String Ascii Bool.
Require Import QV.Common.Outcome QV.Common.PyAscii.
Require Import QV.Gen.PTable QV.Gen.Radii QV.Model.PeriodicTable QV.Model.PeriodicTableFloat QV.Model.Radii.
Require Import QV.Proofs.PeriodicTableF1 QV.Proofs.PeriodicTable QV.Proofs.PeriodicTableReject QV.Proofs.PeriodicTableFloatStr
               QV.Proofs.PeriodicTableWave3 QV.Proofs.Radii.
Import ListNotations.
Open Scope Z_scope.

Opaque pt_Z pt_E pt_name pt_EE pt_EA pt_A pt_mass pt_mass_str.

(** a source row whose label is an element symbol, asked for under ANY name of that element: its Datum, and factor x value *)
Lemma row_by_any_name {M} t units rows x l v c (missing : option M) f :
  keys_self t = true -> forallb (row_entry_ok t units) rows = true ->
  to_E x false = Ok l -> In (l, v, c) rows ->
  exists d, dec_of_string v = Some d /\
    get t x missing true f = Ok (RDatum {| en_label := l; en_units := units; en_data := Some d; en_comment := c |}) /\
    get t x missing false f = Ok (RValue (f units * dec_Q d)%Q).
Proof.
  intros K R H I. destruct (row_own_entry _ _ _ _ _ _ R I) as [d [D E]]. exists d. split; [exact D|].
  unfold get. rewrite (ident_by_element t x l K H). cbn [obind]. rewrite E. split; reflexivity.
Qed.

(** a valid atom whose element has no entry: exactly the caller's fallback, or DataUnavailableError *)
Lemma untabulated_contract {M} t x e (missing : option M) rt f :
  keys_self t = true -> to_E x false = Ok e -> tbl_get t e = None ->
  get t x missing rt f = match missing, rt with Some m, false => Ok (RMissing m) | _, _ => Err DataUnavailable end.
Proof.
  intros K H N. unfold get. rewrite (ident_by_element t x e K H). cbn [obind]. rewrite N. reflexivity.
Qed.

(** every element row of the periodic table without entry, all alias forms and letter cases *)
Lemma untabulated_element_aliases {M} t z e n s (missing : option M) rt f :
  keys_self t = true -> In (z, e, n) elem_rows ->
  same_mod_case s (str_of_Z z) \/ same_mod_case s e \/ same_mod_case s n ->
  tbl_get t e = None ->
  get t (PInt z) missing rt f = match missing, rt with Some m, false => Ok (RMissing m) | _, _ => Err DataUnavailable end /\
  get t (PStr s) missing rt f = match missing, rt with Some m, false => Ok (RMissing m) | _, _ => Err DataUnavailable end.
Proof.
  intros K H C N. destruct (alias_to_E z e n s H C) as [E1 E2].
  split; eapply untabulated_contract; eassumption.
Qed.

(** a non-atom that is not an exact label of the table: NotAnElementError whatever the options *)
Lemma non_atom_rejected {M} t x (missing : option M) rt f :
  (forall k, ~ justified x k) -> (forall s, x = PStr s -> tbl_mem t s = false) ->
  get t x missing rt f = Err NotAnElement.
Proof.
  intros J K. destruct (unnamed_rejected_everywhere x J false) as [_ [_ [E _]]].
  unfold get, ident. destruct x as [z|s]; [now rewrite E|]. rewrite (K s eq_refl), E. reflexivity.
Qed.

(** to_E is case-insensitive (C01) *)
Lemma to_E_mod_case s t b : same_mod_case s t -> to_E (PStr s) b = to_E (PStr t) b.
Proof. intro C. unfold to_E. now rewrite (resolve_mod_case _ _ b C). Qed.

(** the special labels: every source row whose label contains '_' is a variant  E_xxx  of an element E that has a
    generic alias; the label is not an atom name, so it is taken literally, and in the right letter case only *)
Definition has_underscore (s : string) : bool := existsb (Ascii.eqb "_"%char) (chars s).
Definition variant_ok (r : string * string * string) : bool :=
  let '(l, _, _) := r in
  negb (has_underscore l) ||
  (existsb (fun a => let '(idn, _, _, _) := a in prefixb (idn ++ "_") l && str_mem idn pt_E) cov_aliases &&
   outcome_eqb String.eqb (to_E (PStr l) false) (Err NotAnElement)).
Lemma all_variants_ok : forallb variant_ok cov_rows = true.
Proof. vm_compute. reflexivity. Qed.
Lemma vdw_no_variants : forallb (fun r => negb (has_underscore (fst r))) vdw_rows = true.
Proof. vm_compute. reflexivity. Qed.

Lemma variant_has_generic l v c :
  In (l, v, c) cov_rows -> has_underscore l = true ->
  (exists idn u src c', In (idn, u, src, c') cov_aliases /\ prefixb (idn ++ "_") l = true /\ In idn pt_E) /\
  to_E (PStr l) false = Err NotAnElement.
Proof.
  intros I U. pose proof (proj1 (forallb_forall _ _) all_variants_ok _ I) as A. unfold variant_ok in A.
  rewrite U in A. cbn [negb orb] in A. rewrite andb_true_iff in A. destruct A as [A1 A2].
  split.
  - apply existsb_exists in A1. destruct A1 as [[[[idn u] src] c'] [IA P]].
    rewrite andb_true_iff in P. destruct P as [P1 P2]. apply str_mem_In in P2. exists idn, u, src, c'. auto.
  - apply (outcome_eqb_true _ string_eqb_true) in A2. exact A2.
Qed.

Lemma variant_wrong_case_rejected {M} l v c s (missing : option M) rt f :
  In (l, v, c) cov_rows -> has_underscore l = true -> same_mod_case s l -> tbl_mem cov_table s = false ->
  get cov_table (PStr s) missing rt f = Err NotAnElement.
Proof.
  intros I U C N. destruct (variant_has_generic l v c I U) as [_ E].
  unfold get, ident. rewrite N, (to_E_mod_case s l false C), E. reflexivity.
Qed.
