(** C16 — what the public entry points STORE (float_prep of the internal result) stays within the geometry rounding of the
    internal result: interatomic distances (clause 1) and the centre of mass (clause 3).  np.around is a parameter constrained
    only by [around_ok] (within half a unit, 0.5e-8, of its argument); the zero flip (|round(x, 8)| < 5^-9 -> 0.0) is the
    generated [float_prep_entry_gen]. *)
From Coq Require Import List Bool ZArith Reals Lra Psatz.
Require Import QV.Common.Outcome QV.Common.Geo3 QV.Common.Geo3Facts QV.Common.Geo3Sum QV.Common.Geo3R QV.Common.Geo3Loop.
Require Import QV.Gen.Inertia QV.Gen.OrientBody QV.Gen.OrientStore QV.Model.Orient QV.Proofs.Orient QV.Proofs.OrientR QV.Proofs.OrientStore.
Import ListNotations.
Local Open Scope R_scope.

Lemma Rabs_le_bounds (x y : R) : Rabs x <= y -> - y <= x <= y.
Proof. unfold Rabs. destruct (Rcase_abs x); intro; lra. Qed.

(** reverse triangle inequality for the Euclidean norm on R^3 *)
Lemma vnorm_reverse_triangle (a b : vec3 RK) : Rabs (vnorm a - vnorm b) <= vnorm (vsub a b).
Proof.
  pose proof (vnorm_nonneg a) as Pa. pose proof (vnorm_nonneg b) as Pb. pose proof (vnorm_nonneg (vsub a b)) as Pu.
  pose proof (vnorm_sq a) as Sa. pose proof (vnorm_sq b) as Sb. pose proof (vnorm_sq (vsub a b)) as Su.
  pose proof (cauchy_schwarz a b) as CS. rewrite <- Sa, <- Sb in CS.
  assert (E : norm2 (vsub a b) = norm2 a + norm2 b - 2 * vdot a b).
  { dvec a; dvec b. vnormalize. cbn. ring. }
  set (s := vnorm a) in *. set (t := vnorm b) in *. set (u := vnorm (vsub a b)) in *. set (d := vdot a b) in *.
  assert (D : d <= s * t).
  { destruct (Rle_dec d 0) as [N | N]; [apply Rle_trans with 0; [exact N | apply Rmult_le_pos; assumption]|].
    apply Rnot_le_lt in N. assert (0 <= s * t) by (apply Rmult_le_pos; assumption). nra. }
  assert (Q : (s - t) * (s - t) <= u * u) by (rewrite Su, E, <- Sa, <- Sb; lra).
  apply Rabs_le. split; nra.
Qed.

(** a vector whose components are bounded by d has norm at most sqrt 3 * d *)
Lemma vnorm_componentwise (e : vec3 RK) (d : R) : 0 <= d ->
  Rabs (vx e) <= d -> Rabs (vy e) <= d -> Rabs (vz e) <= d -> vnorm e <= sqrt 3 * d.
Proof.
  intros Hd Hx Hy Hz. dvec e. cbn [vx vy vz fst snd] in *.
  assert (B : norm2 ((ex, ey, ez) : vec3 RK) <= 3 * (d * d)).
  { vnormalize. cbn. apply Rabs_le_bounds in Hx, Hy, Hz. nra. }
  unfold vnorm. change (fsqrt RK) with sqrt.
  replace (sqrt 3 * d) with (sqrt (3 * (d * d))).
  - apply sqrt_le_1_alt. exact B.
  - rewrite sqrt_mult by nra. rewrite sqrt_square by exact Hd. reflexivity.
Qed.

(** moving every coordinate by at most d changes a distance by at most 2 sqrt 3 d *)
Lemma dist_perturb (f : R -> R) (d : R) : 0 <= d -> (forall x, Rabs (f x - x) <= d) ->
  forall p q : vec3 RK, Rabs (vnorm (vsub (@vmap RK f p) (@vmap RK f q)) - vnorm (vsub p q)) <= 2 * sqrt 3 * d.
Proof.
  intros Hd Hf p q.
  eapply Rle_trans; [apply vnorm_reverse_triangle|].
  replace (2 * sqrt 3 * d) with (sqrt 3 * (2 * d)) by ring.
  assert (C : forall a b, Rabs (f a - f b - (a - b)) <= 2 * d).
  { intros a b. pose proof (Hf a) as A. pose proof (Hf b) as B. apply Rabs_le_bounds in A, B.
    replace (f a - f b - (a - b)) with ((f a - a) - (f b - b)) by ring. apply Rabs_le. lra. }
  dvec p; dvec q.
  apply vnorm_componentwise; [lra | | | ]; vnormalize; cbn [vx vy vz fst snd vmap]; apply C.
Qed.

Section StoredDist.
  Variable np_around : Z -> R -> R.
  Hypothesis Hr : around_ok (np_around geometry_noise_exp).
  Let st : R -> R := float_prep_entry_gen RK np_around geometry_noise_exp.

  (** what float_prep does to one entry: at most half a unit of the rounding plus the zero-flip threshold 5^-9 *)
  Lemma st_close (x : R) : Rabs (st x - x) <= noise RK / 2 + / 1953125.
  Proof.
    pose proof (Hr x) as A. rewrite noise_val in *.
    destruct (st_cases np_around x) as [[E B] | [E B]]; fold st in E; rewrite E.
    - revert A B. unfold Rabs. repeat destruct Rcase_abs; intros; lra.
    - revert A. unfold Rabs. repeat destruct Rcase_abs; intros; lra.
  Qed.

  (** an entry that is stored non-zero is just the rounded entry *)
  Lemma st_close_visible (x : R) : st x <> 0 -> Rabs (st x - x) <= noise RK / 2.
  Proof.
    intro H. pose proof (Hr x) as A.
    destruct (st_cases np_around x) as [[E B] | [E B]]; fold st in E; [contradiction|]. rewrite E. exact A.
  Qed.

  (** every interatomic distance of the STORED geometry is the distance in the internal result up to 2 sqrt 3 (0.5e-8 + 5^-9) *)
  Lemma stored_distance_close (p q : vec3 RK) :
    Rabs (vnorm (vsub (@vmap RK st p) (@vmap RK st q)) - vnorm (vsub p q)) <= 2 * sqrt 3 * (noise RK / 2 + / 1953125).
  Proof. apply dist_perturb; [rewrite noise_val; lra | exact st_close]. Qed.
End StoredDist.

(** Clause 1 on what the public entry points STORE (default geometry_noise): the stored geometry is one map g applied to the
    original positions, in the original order, and every interatomic distance of the stored molecule differs from the
    original one by at most 2 sqrt 3 (0.5e-8 + 5^-9) (about 1.8e-6; 1.8e-8 where no coordinate is flushed to zero). *)
Theorem stored_isometry_within_rounding (np_around : Z -> R -> R) : around_ok (np_around geometry_noise_exp) ->
  forall eigh (atoms : list (watom RK)) (s : list (vec3 RK)),
  orient_stored_gen RK eigh np_around geometry_noise_exp (map fst atoms) (map snd atoms) = Ok s ->
  eigh_ok RK (inertia_tensor RK (centre RK atoms)) (eigh (inertia_tensor RK (centre RK atoms))) ->
  exists g, s = map g (map fst atoms)
            /\ forall p q, Rabs (vnorm (vsub (g p) (g q)) - vnorm (vsub p q)) <= 2 * sqrt 3 * (noise RK / 2 + / 1953125).
Proof.
  intros Hr eigh atoms s H E. rewrite orient_stored_gen_is_model in H.
  destruct (orient_atoms RK eigh atoms) as [r | e] eqn:O; [|discriminate]. cbn in H. injection H as H.
  destruct (orient_isometry RK RK_field eigh atoms r O E) as [f [Hf I]].
  exists (fun p => @vmap RK (float_prep_entry_gen RK np_around geometry_noise_exp) (f p)). split.
  - rewrite <- H, Hf, !map_map. reflexivity.
  - intros p q. replace (vnorm (vsub p q)) with (vnorm (vsub (f p) (f q))).
    + apply (stored_distance_close np_around Hr).
    + unfold vnorm. rewrite I. reflexivity.
Qed.

(** where no coordinate of either atom is flushed (all six stored coordinates non-zero) only the rounding remains *)
Theorem stored_distance_visible (np_around : Z -> R -> R) : around_ok (np_around geometry_noise_exp) ->
  forall p q : vec3 RK,
  let st := float_prep_entry_gen RK np_around geometry_noise_exp in
  (forall c, In c [vx p; vy p; vz p; vx q; vy q; vz q] -> st c <> 0) ->
  Rabs (vnorm (vsub (@vmap RK st p) (@vmap RK st q)) - vnorm (vsub p q)) <= 2 * sqrt 3 * (noise RK / 2).
Proof.
  intros Hr p q st Hv.
  eapply Rle_trans; [apply vnorm_reverse_triangle|].
  replace (2 * sqrt 3 * (noise RK / 2)) with (sqrt 3 * (2 * (noise RK / 2))) by ring.
  assert (C : forall a b, st a <> 0 -> st b <> 0 -> Rabs (st a - st b - (a - b)) <= 2 * (noise RK / 2)).
  { intros a b Ha Hb. pose proof (st_close_visible np_around Hr a Ha) as A. pose proof (st_close_visible np_around Hr b Hb) as B.
    fold st in A, B. apply Rabs_le_bounds in A, B.
    replace (st a - st b - (a - b)) with ((st a - a) - (st b - b)) by ring. apply Rabs_le. lra. }
  dvec p; dvec q. cbn [vx vy vz fst snd] in Hv.
  apply vnorm_componentwise; [rewrite noise_val; lra | | | ]; vnormalize; cbn [vx vy vz fst snd vmap]; apply C; apply Hv; cbn; tauto.
Qed.

(** moving every coordinate by at most d moves a mass-weighted coordinate sum by at most d * sum |m_i| *)
Lemma wsum_perturb (f : R -> R) (d : R) (proj : vec3 RK -> R) : (forall x, Rabs (f x - x) <= d) ->
  forall l : list (watom RK),
  Rabs (fsum RK (map (fun a => snd a * f (proj (fst a))) l) - fsum RK (map (fun a => snd a * proj (fst a)) l))
  <= d * fsum RK (map (fun a => Rabs (snd a)) l).
Proof.
  intros Hf l. induction l as [|[x m] l IH].
  - unfold fsum. cbn. rewrite Rminus_0_r, Rabs_R0. lra.
  - cbn [map]. rewrite !fsum_cons. cbn [fst snd]. change (fadd RK) with Rplus.
    set (A := fsum RK (map (fun a => snd a * f (proj (fst a))) l)) in *.
    set (B := fsum RK (map (fun a => snd a * proj (fst a)) l)) in *.
    set (C := fsum RK (map (fun a => Rabs (snd a)) l)) in *.
    replace (m * f (proj x) + A - (m * proj x + B)) with (m * (f (proj x) - proj x) + (A - B)) by ring.
    eapply Rle_trans; [apply Rabs_triang|]. rewrite Rabs_mult.
    pose proof (Hf (proj x)) as H. pose proof (Rabs_pos m) as Pm. pose proof (Rabs_pos (f (proj x) - proj x)) as Pf.
    assert (Rabs m * Rabs (f (proj x) - proj x) <= Rabs m * d) by (apply Rmult_le_compat_l; assumption).
    lra.
Qed.

(** Clause 3 on what is STORED: every component of the mass-weighted coordinate sum of the stored geometry is at most
    (0.5e-8 + 5^-9) * sum |m_i| in magnitude (so the centre of mass lies within 5.17e-7 of the origin per axis when all masses
    are positive). *)
Theorem stored_com_within_rounding (np_around : Z -> R -> R) : around_ok (np_around geometry_noise_exp) ->
  forall eigh (atoms r : list (watom RK)),
  orient_atoms RK eigh atoms = Ok r -> total_mass RK atoms <> 0 ->
  let st := float_prep_entry_gen RK np_around geometry_noise_exp in
  let stored := map (fun a => (@vmap RK st (fst a), snd a)) r in
  let bound := (noise RK / 2 + / 1953125) * fsum RK (map (fun a => Rabs (snd a)) atoms) in
  Rabs (vx (wsum RK stored)) <= bound /\ Rabs (vy (wsum RK stored)) <= bound /\ Rabs (vz (wsum RK stored)) <= bound.
Proof.
  intros Hr eigh atoms r O M st stored bound.
  pose proof (orient_com_at_origin RK RK_field eigh atoms r O M) as Z.
  assert (Em : fsum RK (map (fun a => Rabs (snd a)) atoms) = fsum RK (map (fun a => Rabs (snd a)) r)).
  { transitivity (fsum RK (map Rabs (map snd atoms))); [rewrite map_map; reflexivity|].
    rewrite <- (orient_masses RK eigh atoms r O), map_map. reflexivity. }
  unfold bound. rewrite Em. unfold wsum in Z. injection Z as Zx Zy Zz. change (f0 RK) with 0 in Zx, Zy, Zz.
  unfold stored, wsum. cbn [vx vy vz fst snd]. rewrite !map_map. cbn [fst snd].
  repeat split.
  - pose proof (wsum_perturb st _ vx (st_close np_around Hr) r) as P. change (fmul RK) with Rmult in *.
    rewrite Zx, Rminus_0_r in P.
    erewrite fsum_map_ext; [exact P|]. intros [[[x y] z] m]. reflexivity.
  - pose proof (wsum_perturb st _ vy (st_close np_around Hr) r) as P. change (fmul RK) with Rmult in *.
    rewrite Zy, Rminus_0_r in P.
    erewrite fsum_map_ext; [exact P|]. intros [[[x y] z] m]. reflexivity.
  - pose proof (wsum_perturb st _ vz (st_close np_around Hr) r) as P. change (fmul RK) with Rmult in *.
    rewrite Zz, Rminus_0_r in P.
    erewrite fsum_map_ext; [exact P|]. intros [[[x y] z] m]. reflexivity.
Qed.

Lemma Rabs_mul_bound (x y a b : R) : Rabs x <= a -> Rabs y <= b -> Rabs (x * y) <= a * b.
Proof.
  intros Hx Hy. rewrite Rabs_mult. apply Rmult_le_compat; [apply Rabs_pos | apply Rabs_pos | exact Hx | exact Hy].
Qed.

(** moving every coordinate by at most d moves a mass-weighted sum of products of two coordinates by at most
    d * sum |m_i| (|u_i| + |v_i| + d) *)
Lemma wprod_perturb (f : R -> R) (d : R) (p1 p2 : vec3 RK -> R) : 0 <= d -> (forall x, Rabs (f x - x) <= d) ->
  forall l : list (watom RK),
  Rabs (fsum RK (map (fun a => snd a * f (p1 (fst a)) * f (p2 (fst a))) l) - fsum RK (map (fun a => snd a * p1 (fst a) * p2 (fst a)) l))
  <= d * fsum RK (map (fun a => Rabs (snd a) * (Rabs (p1 (fst a)) + Rabs (p2 (fst a)) + d)) l).
Proof.
  intros Hd Hf l. induction l as [|[x m] l IH].
  - unfold fsum. cbn. rewrite Rminus_0_r, Rabs_R0. lra.
  - cbn [map]. rewrite !fsum_cons. cbn [fst snd]. change (fadd RK) with Rplus.
    set (A := fsum RK (map (fun a => snd a * f (p1 (fst a)) * f (p2 (fst a))) l)) in *.
    set (B := fsum RK (map (fun a => snd a * p1 (fst a) * p2 (fst a)) l)) in *.
    set (C := fsum RK (map (fun a => Rabs (snd a) * (Rabs (p1 (fst a)) + Rabs (p2 (fst a)) + d)) l)) in *.
    set (u := p1 x). set (v := p2 x). set (du := f u - u). set (dv := f v - v).
    pose proof (Hf u) as Hu. pose proof (Hf v) as Hv. fold du in Hu. fold dv in Hv.
    replace (m * f u * f v + A - (m * u * v + B)) with (m * (u * dv + v * du + du * dv) + (A - B)) by (unfold du, dv; ring).
    eapply Rle_trans; [apply Rabs_triang|]. rewrite Rabs_mult.
    assert (E : Rabs (u * dv + v * du + du * dv) <= Rabs u * d + Rabs v * d + d * d).
    { eapply Rle_trans; [apply Rabs_triang|]. apply Rplus_le_compat.
      - eapply Rle_trans; [apply Rabs_triang|]. apply Rplus_le_compat; apply Rabs_mul_bound; try assumption; apply Rle_refl.
      - apply Rabs_mul_bound; assumption. }
    pose proof (Rabs_pos m) as Pm.
    assert (Rabs m * Rabs (u * dv + v * du + du * dv) <= Rabs m * (Rabs u * d + Rabs v * d + d * d)) by (apply Rmult_le_compat_l; assumption).
    nra.
Qed.

(** Clause 4 on what is STORED: the off-diagonal entries of the inertia tensor of the stored geometry are at most
    d * sum |m_i| (|u_i| + |v_i| + d), d = 0.5e-8 + 5^-9, u_i, v_i the two coordinates of atom i in the internal result
    (whose tensor is exactly diagonal). *)
Theorem stored_inertia_offdiagonal_within_rounding (np_around : Z -> R -> R) : around_ok (np_around geometry_noise_exp) ->
  forall eigh (atoms r : list (watom RK)),
  orient_atoms RK eigh atoms = Ok r ->
  eigh_ok RK (inertia_tensor RK (centre RK atoms)) (eigh (inertia_tensor RK (centre RK atoms))) ->
  let st := float_prep_entry_gen RK np_around geometry_noise_exp in
  let stored := map (fun a => (@vmap RK st (fst a), snd a)) r in
  let d := noise RK / 2 + / 1953125 in
  let bound (p1 p2 : vec3 RK -> R) := d * fsum RK (map (fun a => Rabs (snd a) * (Rabs (p1 (fst a)) + Rabs (p2 (fst a)) + d)) r) in
  Rabs (it_0_1 RK stored) <= bound vx vy /\ Rabs (it_0_2 RK stored) <= bound vx vz /\ Rabs (it_1_2 RK stored) <= bound vy vz
  /\ it_1_0 RK stored = it_0_1 RK stored /\ it_2_0 RK stored = it_0_2 RK stored /\ it_2_1 RK stored = it_1_2 RK stored.
Proof.
  intros Hr eigh atoms r O E st stored d bound.
  destruct (orient_inertia_diagonal RK RK_field eigh atoms r O E) as [D _].
  unfold inertia_tensor, mdiag in D. injection D as _ D01 D02 _ _ D12 _ _ _.
  assert (Hd : 0 <= d) by (unfold d; rewrite noise_val; lra).
  assert (M1 : fofZ RK (-1) = -1) by (rewrite fofZ_IZR; reflexivity).
  unfold it_0_1, it_0_2, it_1_2 in D01, D02, D12. change (fmul RK) with Rmult in *. change (f0 RK) with 0 in *.
  repeat split; try reflexivity.
  - pose proof (wprod_perturb st d vx vy Hd (st_close np_around Hr) r) as P.
    unfold it_0_1, stored. rewrite M1, map_map. cbn [fst snd]. change (fmul RK) with Rmult.
    replace (fsum RK (map (fun a : vec3 RK * R => snd a * vx (fst a) * vy (fst a)) r)) with 0 in P by lra.
    rewrite Rminus_0_r in P. rewrite Rabs_mult. replace (Rabs (-1)) with 1 by (rewrite Rabs_left; lra). rewrite Rmult_1_l.
    erewrite fsum_map_ext; [exact P|]. intros [[[x y] z] m]. reflexivity.
  - pose proof (wprod_perturb st d vx vz Hd (st_close np_around Hr) r) as P.
    unfold it_0_2, stored. rewrite M1, map_map. cbn [fst snd]. change (fmul RK) with Rmult.
    replace (fsum RK (map (fun a : vec3 RK * R => snd a * vx (fst a) * vz (fst a)) r)) with 0 in P by lra.
    rewrite Rminus_0_r in P. rewrite Rabs_mult. replace (Rabs (-1)) with 1 by (rewrite Rabs_left; lra). rewrite Rmult_1_l.
    erewrite fsum_map_ext; [exact P|]. intros [[[x y] z] m]. reflexivity.
  - pose proof (wprod_perturb st d vy vz Hd (st_close np_around Hr) r) as P.
    unfold it_1_2, stored. rewrite M1, map_map. cbn [fst snd]. change (fmul RK) with Rmult.
    replace (fsum RK (map (fun a : vec3 RK * R => snd a * vy (fst a) * vz (fst a)) r)) with 0 in P by lra.
    rewrite Rminus_0_r in P. rewrite Rabs_mult. replace (Rabs (-1)) with 1 by (rewrite Rabs_left; lra). rewrite Rmult_1_l.
    erewrite fsum_map_ext; [exact P|]. intros [[[x y] z] m]. reflexivity.
Qed.
