(** C06 — the nuclide key "E" + str(A): looking it up finds exactly the tabulated row (E, A).
    String facts about str(int) and about the shipped table's keys. *)
From Coq Require Import ZArith NArith List Bool String Ascii QArith Qabs Lia Lqa
     DecimalString DecimalZ Decimal DecimalFacts DecimalPos.
Require Import QV.Common.Outcome QV.Gen.PTable QV.Model.Nucleus.
Import ListNotations.
Open Scope list_scope.
Open Scope Z_scope.

(* ------------------------------------------------------------------------------------------ *)
(** * Characters *)

Ltac ncases := repeat match goal with |- context [(?a <=? ?b)%N] => destruct (N.leb_spec a b) end; cbn [andb orb negb].

Lemma lower_c_idem c : lower_c (lower_c c) = lower_c c.
Proof.
  unfold lower_c at 2. destruct (is_upper c) eqn:U; [|unfold lower_c; rewrite U; reflexivity].
  unfold lower_c, is_upper, acode in *. apply andb_true_iff in U. destruct U as [U1 U2].
  apply N.leb_le in U1. apply N.leb_le in U2.
  rewrite N_ascii_embedding by lia.
  replace ((N_of_ascii c + 32 <=? 90)%N) with false by (symmetry; apply N.leb_gt; lia). rewrite andb_false_r.
  apply N.leb_le in U1. apply N.leb_le in U2. rewrite U1, U2. reflexivity.
Qed.

Lemma alpha_not_digit c : is_alpha c = true -> is_digit c = false.
Proof.
  unfold is_alpha, is_upper, is_lower, is_digit. generalize (acode c). intro n.
  ncases; intro Hx; try reflexivity; try discriminate Hx; lia.
Qed.

Lemma lower_c_nonalpha c : is_alpha c = false -> lower_c c = c.
Proof. unfold lower_c, is_alpha. intro H. apply orb_false_iff in H. destruct H as [-> _]. reflexivity. Qed.

Lemma lower_idem s : lower (lower s) = lower s.
Proof. unfold lower. induction s as [|c s IH]; cbn [smap]; [reflexivity|]. rewrite lower_c_idem, IH. reflexivity. Qed.

Lemma lower_app a b : lower (a ++ b)%string = (lower a ++ lower b)%string.
Proof. unfold lower. induction a as [|c a IH]; cbn [smap String.append]; [reflexivity|]. rewrite IH. reflexivity. Qed.

Lemma lower_nonalpha s : sforall (fun c => negb (is_alpha c)) s = true -> lower s = s.
Proof.
  unfold lower. induction s as [|c s IH]; cbn [smap sforall]; [reflexivity|]. intro H. apply andb_true_iff in H. destruct H as [H1 H2].
  apply negb_true_iff in H1. rewrite lower_c_nonalpha by exact H1. rewrite IH by exact H2. reflexivity.
Qed.

Lemma sforall_app p a b : sforall p (a ++ b)%string = sforall p a && sforall p b.
Proof. induction a as [|c a IH]; simpl; [reflexivity|]. rewrite IH. apply andb_assoc. Qed.

(* ------------------------------------------------------------------------------------------ *)
(** * str(int) *)

Definition nonalpha (c : ascii) : bool := negb (is_alpha c).

Lemma uint_string_nonalpha d : sforall nonalpha (NilEmpty.string_of_uint d) = true.
Proof. induction d; simpl; auto. Qed.

Lemma str_of_Z_nonalpha a : sforall nonalpha (str_of_Z a) = true.
Proof.
  unfold str_of_Z, NilZero.string_of_int, NilZero.string_of_uint.
  destruct (Z.to_int a) as [d|d]; destruct d; simpl; try reflexivity; apply uint_string_nonalpha.
Qed.

Lemma str_of_Z_nonempty a : exists c r, str_of_Z a = String c r /\ is_alpha c = false.
Proof.
  pose proof (str_of_Z_nonalpha a) as H. destruct (str_of_Z a) as [|c r] eqn:E.
  - exfalso. unfold str_of_Z, NilZero.string_of_int, NilZero.string_of_uint in E.
    destruct (Z.to_int a) as [d|d]; destruct d; simpl in E; discriminate.
  - exists c, r. split; [reflexivity|]. simpl in H. apply andb_true_iff in H. destruct H as [H _].
    apply negb_true_iff in H. exact H.
Qed.

Lemma to_int_not_nil a : Z.to_int a <> Pos Nil /\ Z.to_int a <> Neg Nil.
Proof.
  destruct a as [|p|p]; simpl; split; try discriminate; intro H; injection H as H; apply (Unsigned.to_uint_nonnil p H).
Qed.

Lemma str_of_Z_inj a b : str_of_Z a = str_of_Z b -> a = b.
Proof.
  unfold str_of_Z. intro H. apply (f_equal NilZero.int_of_string) in H.
  destruct (to_int_not_nil a) as [A1 A2]. destruct (to_int_not_nil b) as [B1 B2].
  rewrite !NilZero.isi in H by assumption. injection H as H. apply DecimalZ.to_int_inj, H.
Qed.

(* ------------------------------------------------------------------------------------------ *)
(** * Splitting letters ++ non-letter-headed suffix *)

Lemma split_unique e1 e2 s1 s2 :
  (e1 ++ s1 = e2 ++ s2)%string ->
  sforall is_alpha e1 = true -> sforall is_alpha e2 = true ->
  (exists c r, s1 = String c r /\ is_alpha c = false) -> (exists c r, s2 = String c r /\ is_alpha c = false) ->
  e1 = e2 /\ s1 = s2.
Proof.
  revert e2; induction e1 as [|c1 e1 IH]; intros e2 H A1 A2 N1 N2; destruct e2 as [|c2 e2]; simpl in *.
  - auto.
  - destruct N1 as (c & r & -> & Hc). injection H as -> _. apply andb_true_iff in A2. destruct A2 as [A2 _]. congruence.
  - destruct N2 as (c & r & -> & Hc). injection H as -> _. apply andb_true_iff in A1. destruct A1 as [A1 _]. congruence.
  - injection H as -> H. apply andb_true_iff in A1. destruct A1 as [_ A1]. apply andb_true_iff in A2. destruct A2 as [_ A2].
    destruct (IH e2 H A1 A2 N1 N2) as [-> ->]. auto.
Qed.

(* ------------------------------------------------------------------------------------------ *)
(** * The rows of the shipped table *)

Definition t_full : list (string * (string * (Z * Q))) :=
  Eval vm_compute in combine pt_EA (combine pt_EE (combine pt_A pt_massQ)).

Lemma full_eliso2mass : map (fun r => (fst r, snd (snd (snd r)))) t_full = t_eliso2mass.
Proof. vm_compute. reflexivity. Qed.
Lemma full_rows : map (fun r => (fst (snd r), (fst (snd (snd r)), snd (snd (snd r))))) t_full = t_rows.
Proof. vm_compute. reflexivity. Qed.
Lemma element2el_keys : map fst t_element2el = pt_name.
Proof. vm_compute. reflexivity. Qed.

Definition row_ok (r : string * (string * (Z * Q))) : bool :=
  let '(ea, (ee, (a, m))) := r in
  (String.eqb ea (ee ++ str_of_Z a) || String.eqb ea ee || String.eqb ea "D" || String.eqb ea "T")
  && sforall is_alpha ee && (0 <=? a) && Qle_bool 0 m && Qlt_b (Qabs (m - inject_Z a)) (1 # 4).

Lemma rows_ok : forallb row_ok t_full = true.
Proof. vm_compute. reflexivity. Qed.

Definition sym_ok (e : string) : bool :=
  negb (String.eqb e "") && String.eqb (capitalize e) e && sforall is_alpha e.
Lemma syms_ok : forallb sym_ok pt_E = true.
Proof. vm_compute. reflexivity. Qed.
Lemma names_ok : forallb (sforall is_alpha) pt_name = true.
Proof. vm_compute. reflexivity. Qed.

Lemma Qlt_b_true' x y : Qlt_b x y = true -> (x < y)%Q.
Proof.
  unfold Qlt_b. rewrite negb_true_iff. intro H. apply Qnot_le_lt. intro L. apply Qle_bool_iff in L. congruence.
Qed.

Lemma assoc_in {B} k (l : list (string * B)) v : assoc k l = Some v -> In (k, v) l.
Proof.
  induction l as [|[k' v'] l IH]; simpl; [discriminate|].
  destruct (String.eqb k k') eqn:E; intro H.
  - apply String.eqb_eq in E. subst k'. injection H as ->. left. reflexivity.
  - right. apply IH, H.
Qed.

Lemma capitalize_sym_app e s : sym_ok e = true -> capitalize (e ++ s) = (e ++ lower s)%string.
Proof.
  unfold sym_ok. intro H. apply andb_true_iff in H. destruct H as [H H3]. apply andb_true_iff in H. destruct H as [H1 H2].
  apply String.eqb_eq in H2. destruct e as [|c e]; [discriminate|]. simpl in *. rewrite lower_app.
  injection H2 as H2a H2b. rewrite H2a. unfold lower in *. rewrite H2b. reflexivity.
Qed.

(** The key E+str(a) resolves to a tabulated row of element E with mass number a — and to nothing else. *)
Theorem nuclide_row e a t :
  In e pt_E -> nuclide_mass e a = Ok t ->
  In (e, (a, t)) t_rows /\ 0 <= a /\ (0 <= t)%Q /\ (Qabs (t - inject_Z a) < 1 # 4)%Q.
Proof.
  intros He H.
  pose proof syms_ok as S. rewrite forallb_forall in S. specialize (S e He).
  pose proof S as S'. unfold sym_ok in S'. apply andb_true_iff in S'. destruct S' as [S' Salpha].
  apply andb_true_iff in S'. destruct S' as [Sne _]. apply negb_true_iff, String.eqb_neq in Sne.
  destruct (str_of_Z_nonempty a) as (c0 & r0 & Estr & Hc0).
  assert (Hnotalpha : sforall is_alpha (e ++ str_of_Z a)%string = false).
  { rewrite sforall_app, Salpha, Estr. simpl. rewrite Hc0. reflexivity. }
  assert (Hcap : capitalize (e ++ str_of_Z a) = (e ++ str_of_Z a)%string).
  { rewrite capitalize_sym_app by exact S. rewrite lower_nonalpha; [reflexivity | apply str_of_Z_nonalpha]. }
  unfold nuclide_mass, to_mass_str, resolve_str in H. rewrite Hcap in H. cbn [andb negb] in H.
  assert (Hkey : assoc (e ++ str_of_Z a)%string t_eliso2mass = Some t).
  { destruct (assoc (e ++ str_of_Z a)%string t_eliso2mass) as [m|] eqn:E1.
    - cbn [obind sval] in H. rewrite E1 in H. cbn [sval] in H. congruence.
    - exfalso.
      assert (Edig : sforall is_digit (e ++ str_of_Z a)%string = false).
      { destruct e as [|c e']; [congruence|]. simpl. simpl in Salpha. apply andb_true_iff in Salpha.
        destruct Salpha as [Sa _]. rewrite (alpha_not_digit _ Sa). reflexivity. }
      rewrite Edig, andb_false_r in H.
      destruct (assoc (e ++ str_of_Z a)%string t_element2el) as [el|] eqn:E3; [|discriminate].
      apply assoc_in in E3. apply (in_map fst) in E3. rewrite element2el_keys in E3. simpl in E3.
      pose proof names_ok as Nm. rewrite forallb_forall in Nm. rewrite (Nm _ E3) in Hnotalpha. discriminate. }
  apply assoc_in in Hkey. rewrite <- full_eliso2mass in Hkey. apply in_map_iff in Hkey.
  destruct Hkey as [[ea [ee [a' m]]] [Hr Hin]]. simpl in Hr. injection Hr as -> ->.
  pose proof rows_ok as Rk. rewrite forallb_forall in Rk. specialize (Rk _ Hin). unfold row_ok in Rk.
  repeat (apply andb_true_iff in Rk; destruct Rk as [Rk ?]).
  assert (Hea : e = ee /\ a = a').
  { repeat (apply orb_true_iff in Rk; destruct Rk as [Rk|Rk]); apply String.eqb_eq in Rk.
    - destruct (str_of_Z_nonempty a') as (c1 & r1 & Estr' & Hc1).
      destruct (split_unique e ee (str_of_Z a) (str_of_Z a') Rk Salpha ltac:(assumption)) as [E1 E2]; eauto.
      split; [exact E1 | apply str_of_Z_inj, E2].
    - exfalso. rewrite Rk in Hnotalpha. congruence.
    - exfalso. rewrite Rk in Hnotalpha. discriminate.
    - exfalso. rewrite Rk in Hnotalpha. discriminate. }
  destruct Hea as [<- <-].
  split; [|split; [apply Z.leb_le; assumption | split; [apply Qle_bool_iff; assumption | apply Qlt_b_true'; assumption]]].
  rewrite <- full_rows. apply in_map_iff. exists ((e ++ str_of_Z a)%string, (e, (a, t))). split; [reflexivity | exact Hin].
Qed.
