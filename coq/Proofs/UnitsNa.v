(** C03 wave 4 — the two Avogadro hops of the context graph (energy <-> energy/mol): [conv] on ALL source and target expressions of
    these dimensions.  Unlike the named bridges these hops never look at NIST unit names ([apply_hop] HMulNA / HDivNA), so the
    statements carry no [find_nist_unit] hypothesis and hold for SI-prefixed sources too. *)
From Coq Require Import ZArith QArith Qpower Qabs List String Bool.
Require Import QV.Common.Outcome QV.Common.DecC02 QV.Common.UnitsC03.
Require Import QV.Gen.Codata2014 QV.Gen.Codata2018 QV.Gen.UregDefs.
Require Import QV.Model.Units QV.Proofs.Units.
Import ListNotations.
Open Scope string_scope.
Open Scope Q_scope.

Definition na_key : ukey := ("", "avogadro_constant").

Section NaHop.
  Variable rg : string -> option (Q * dimvec).
  Variable nist_names : list string.
  Hypothesis reg_nz : forall n m d, rg n = Some (m, d) -> ~ m == 0.

  Lemma cmag_na : cmag rg [(na_key, 1%Z)] == atom_mag rg na_key.
  Proof. cbn [cmag]. remember (atom_mag rg na_key) as NA. cbn. ring. Qed.

  Lemma na_mul_conv : forall src dst a b ka ca kb cb,
    find_path src dst = [HMulNA] -> dim_eqb (dadd src (cdim rg [(na_key, 1%Z)])) dst = true ->
    parse rg a = Ok (ka, ca) -> parse rg b = Ok (kb, cb) -> ~ kb == 0 ->
    cdim rg ca = src -> cdim rg cb = dst ->
    exists v, conv rg nist_names a b = Ok v /\ v == (ka * cmag rg ca) * atom_mag rg na_key / (kb * cmag rg cb).
  Proof.
    intros src dst a b ka ca kb cb Hp Hdim Ha Hb Hk Hs Ht.
    unfold conv. rewrite Ha, Hb. cbn [obind fst snd].
    destruct (Qeq_bool kb 0) eqn:Z; [apply Qeq_bool_eq in Z; contradiction|].
    rewrite Hs, Ht, Hp. cbn [apply_hops apply_hop obind fst snd].
    rewrite cmul_dim, Hs.
    match goal with |- context [if ?x then _ else _] => replace x with true by (symmetry; exact Hdim) end. eexists. split; [reflexivity|].
    rewrite Qred_correct, (cmul_mag rg reg_nz), cmag_na.
    field. split; [apply (cmag_nz rg reg_nz) | exact Hk].
  Qed.

  Lemma na_div_conv : forall src dst a b ka ca kb cb,
    find_path src dst = [HDivNA] -> dim_eqb (dsub src (cdim rg [(na_key, 1%Z)])) dst = true ->
    parse rg a = Ok (ka, ca) -> parse rg b = Ok (kb, cb) -> ~ kb == 0 ->
    cdim rg ca = src -> cdim rg cb = dst ->
    exists v, conv rg nist_names a b = Ok v /\ v == (ka * cmag rg ca) / atom_mag rg na_key / (kb * cmag rg cb).
  Proof.
    intros src dst a b ka ca kb cb Hp Hdim Ha Hb Hk Hs Ht.
    unfold conv. rewrite Ha, Hb. cbn [obind fst snd].
    destruct (Qeq_bool kb 0) eqn:Z; [apply Qeq_bool_eq in Z; contradiction|].
    rewrite Hs, Ht, Hp. cbn [apply_hops apply_hop obind fst snd].
    rewrite cdiv_dim, Hs.
    match goal with |- context [if ?x then _ else _] => replace x with true by (symmetry; exact Hdim) end. eexists. split; [reflexivity|].
    rewrite Qred_correct, (cdiv_mag rg reg_nz), cmag_na.
    field. repeat split; try apply (cmag_nz rg reg_nz); try exact Hk; apply (atom_mag_nz rg reg_nz).
  Qed.
End NaHop.

Definition dEn := mkdim 2 1 (-2) 0 0 0 0.
Definition dEmol := mkdim 2 1 (-2) 0 0 (-1) 0.

(* finite facts about the registry of each set: the two N_A hops are the paths between energy and energy/mol, their dimensions
   add up, and the magnitude of avogadro_constant is the set's own CODATA "Avogadro constant" *)
Definition na_hops_ok (c : cctx) : bool :=
  match find_path dEn dEmol, find_path dEmol dEn, codata_value c "avogadro constant" with
  | [HMulNA], [HDivNA], Some v =>
      dim_eqb (dadd dEn (cdim (reg c) [(na_key, 1%Z)])) dEmol && dim_eqb (dsub dEmol (cdim (reg c) [(na_key, 1%Z)])) dEn
      && Qeq_bool (atom_mag (reg c) na_key) v
  | _, _, _ => false
  end.

Lemma na_hops_ok_all : forall c, na_hops_ok c = true.
Proof. destruct c; vm_compute; reflexivity. Qed.

Lemma energy_to_per_mole : forall c a b ka ca kb cb,
  parse (reg c) a = Ok (ka, ca) -> parse (reg c) b = Ok (kb, cb) -> ~ kb == 0 ->
  cdim (reg c) ca = dEn -> cdim (reg c) cb = dEmol ->
  exists v NA, codata_value c "avogadro constant" = Some NA /\ conv_ctx c a b = Ok v
               /\ v == (ka * cmag (reg c) ca) * NA / (kb * cmag (reg c) cb).
Proof.
  intros c a b ka ca kb cb Ha Hb Hk Hs Ht.
  pose proof (na_hops_ok_all c) as H. unfold na_hops_ok in H.
  destruct (find_path dEn dEmol) as [|[| |] [|]] eqn:P1; try discriminate.
  destruct (find_path dEmol dEn) as [|[| |] [|]] eqn:P2; try discriminate.
  destruct (codata_value c "avogadro constant") as [NA|]; [|discriminate].
  apply andb_true_iff in H. destruct H as [H H3]. apply andb_true_iff in H. destruct H as [H1 H2].
  apply Qeq_bool_eq in H3.
  destruct (na_mul_conv (reg c) (nist c) (reg_nz_ctx c) dEn dEmol a b ka ca kb cb P1 H1 Ha Hb Hk Hs Ht) as [v [Cv Ev]].
  exists v, NA. split; [reflexivity|]. split; [exact Cv|]. rewrite Ev, H3. reflexivity.
Qed.

Lemma per_mole_to_energy : forall c a b ka ca kb cb,
  parse (reg c) a = Ok (ka, ca) -> parse (reg c) b = Ok (kb, cb) -> ~ kb == 0 ->
  cdim (reg c) ca = dEmol -> cdim (reg c) cb = dEn ->
  exists v NA, codata_value c "avogadro constant" = Some NA /\ conv_ctx c a b = Ok v
               /\ v == (ka * cmag (reg c) ca) / NA / (kb * cmag (reg c) cb).
Proof.
  intros c a b ka ca kb cb Ha Hb Hk Hs Ht.
  pose proof (na_hops_ok_all c) as H. unfold na_hops_ok in H.
  destruct (find_path dEn dEmol) as [|[| |] [|]] eqn:P1; try discriminate.
  destruct (find_path dEmol dEn) as [|[| |] [|]] eqn:P2; try discriminate.
  destruct (codata_value c "avogadro constant") as [NA|]; [|discriminate].
  apply andb_true_iff in H. destruct H as [H H3]. apply andb_true_iff in H. destruct H as [H1 H2].
  apply Qeq_bool_eq in H3.
  destruct (na_div_conv (reg c) (nist c) (reg_nz_ctx c) dEmol dEn a b ka ca kb cb P2 H2 Ha Hb Hk Hs Ht) as [v [Cv Ev]].
  exists v, NA. split; [reflexivity|]. split; [exact Cv|]. rewrite Ev, H3. reflexivity.
Qed.

(* round trip energy -> energy/mol -> energy = 1, for ALL expressions (prefixed or not) *)
Lemma per_mole_roundtrip : forall c a b ka ca kb cb,
  parse (reg c) a = Ok (ka, ca) -> parse (reg c) b = Ok (kb, cb) -> ~ ka == 0 -> ~ kb == 0 ->
  cdim (reg c) ca = dEn -> cdim (reg c) cb = dEmol ->
  exists v w, conv_ctx c a b = Ok v /\ conv_ctx c b a = Ok w /\ v * w == 1.
Proof.
  intros c a b ka ca kb cb Ha Hb Hka Hkb Hs Ht.
  destruct (energy_to_per_mole c a b ka ca kb cb Ha Hb Hkb Hs Ht) as [v [NA [E1 [Cv Ev]]]].
  destruct (per_mole_to_energy c b a kb cb ka ca Hb Ha Hka Ht Hs) as [w [NA' [E2 [Cw Ew]]]].
  rewrite E1 in E2. injection E2 as <-.
  exists v, w. split; [exact Cv|]. split; [exact Cw|]. rewrite Ev, Ew.
  assert (NZ : ~ NA == 0).
  { pose proof (na_hops_ok_all c) as H. unfold na_hops_ok in H.
    destruct (find_path dEn dEmol) as [|[| |] [|]]; try discriminate.
    destruct (find_path dEmol dEn) as [|[| |] [|]]; try discriminate.
    rewrite E1 in H. apply andb_true_iff in H. destruct H as [_ H3]. apply Qeq_bool_eq in H3.
    rewrite <- H3. apply (atom_mag_nz (reg c) (reg_nz_ctx c)). }
  field. repeat split; try apply (cmag_nz (reg c) (reg_nz_ctx c)); assumption.
Qed.
