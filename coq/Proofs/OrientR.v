(** C16 — Part 2: facts that need the order of the real numbers: the phase convention, and the
    uniqueness of the oriented frame for distinct principal moments.  (Reals axioms.) *)
From Coq Require Import Reals Lra Psatz List Bool ZArith.
Require Import QV.Common.Outcome QV.Common.Geo3 QV.Common.Geo3Facts QV.Common.Geo3Sum QV.Common.Geo3R
  QV.Gen.Inertia QV.Model.Orient QV.Proofs.Orient.
Import ListNotations.
Local Open Scope R_scope.

(** ** the phase loop, axis by axis (any Fops) *)
Section Scan.
  Variable K : Fops.
  Variable nz : K.

  Lemma axis_step_checked st v : fst st = true -> axis_step K nz st v = st.
  Proof. intro H. unfold axis_step. rewrite H. reflexivity. Qed.

  Lemma row_step_checked st r : all_checked K st = true -> row_step K nz st r = st.
  Proof.
    destruct st as [[a b] c]. cbn. intro H. apply andb_true_iff in H. destruct H as [H Hc].
    apply andb_true_iff in H. destruct H as [Ha Hb].
    rewrite !axis_step_checked by assumption. reflexivity.
  Qed.

  Lemma fold_rows_checked rows st : all_checked K st = true -> fold_left (row_step K nz) rows st = st.
  Proof. intro H. induction rows as [|r tl IH]; cbn [fold_left]; [reflexivity|]. rewrite row_step_checked by assumption. exact IH. Qed.

  (* the early exit does not change the result *)
  Lemma phase_scan_fold rows st : phase_scan K nz rows st = fold_left (row_step K nz) rows st.
  Proof.
    revert st. induction rows as [|r tl IH]; intro st; cbn [phase_scan fold_left]; [reflexivity|].
    destruct (all_checked K (row_step K nz st r)) eqn:E; [|apply IH].
    symmetry. apply fold_rows_checked. exact E.
  Qed.

  Lemma fold_rows_axes rows a b c :
    fold_left (row_step K nz) rows (a, b, c)
    = (fold_left (axis_step K nz) (map vx rows) a, fold_left (axis_step K nz) (map vy rows) b,
       fold_left (axis_step K nz) (map vz rows) c).
  Proof.
    revert a b c. induction rows as [|r tl IH]; intros a b c; cbn [fold_left map]; [reflexivity|].
    change (row_step K nz (a, b, c) r) with (axis_step K nz a (vx r), axis_step K nz b (vy r), axis_step K nz c (vz r)).
    apply IH.
  Qed.

  Definition axis_sign (col : list K) : K := snd (fold_left (axis_step K nz) col (false, f1 K)).

  Lemma phase_signs_axes rows :
    phase_signs K nz rows = (axis_sign (map vx rows), axis_sign (map vy rows), axis_sign (map vz rows)).
  Proof. unfold phase_signs, pstate0. rewrite phase_scan_fold, fold_rows_axes. reflexivity. Qed.

  Lemma fold_axis_checked col st : fst st = true -> fold_left (axis_step K nz) col st = st.
  Proof. intro H. induction col as [|v tl IH]; cbn [fold_left]; [reflexivity|]. rewrite axis_step_checked by assumption. exact IH. Qed.
End Scan.

(** ** over the reals *)
Lemma fabs_Rabs (v : R) : @fabs RK v = Rabs v.
Proof.
  unfold fabs. cbn. destruct (Rltb v 0) eqn:E.
  - apply Rltb_true in E. rewrite Rabs_left by lra. reflexivity.
  - apply Rltb_false in E. rewrite Rabs_right by lra. reflexivity.
Qed.

Lemma axis_small_prefix (nz : RK) (pre rest : list RK) (st : (bool * RK)%type) :
  fst st = false -> (forall u, In u pre -> Rabs u < nz) ->
  fold_left (axis_step RK nz) (pre ++ rest) st = fold_left (axis_step RK nz) rest st.
Proof.
  intros Hst H. induction pre as [|u tl IH]; cbn [app fold_left]; [reflexivity|].
  assert (E : axis_step RK nz st u = st).
  { unfold axis_step. rewrite Hst. rewrite fabs_Rabs.
    replace (fltb RK (Rabs u) nz) with true; [reflexivity|]. symmetry. apply Rltb_true. apply H. left. reflexivity. }
  rewrite E. apply IH. intros w Hw. apply H. right. exact Hw.
Qed.

Definition sgnR (v : R) : R := if Rltb v 0 then - (1) else 1.

Lemma axis_hit (nz v : RK) (post : list RK) :
  nz <= Rabs v -> fold_left (axis_step RK nz) (v :: post) (false, 1) = (true, sgnR v).
Proof.
  intro H. cbn [fold_left].
  assert (E : axis_step RK nz (false, 1) v = (true, sgnR v)).
  { unfold axis_step. cbn [fst]. rewrite fabs_Rabs.
    replace (fltb RK (Rabs v) nz) with false; [reflexivity|]. symmetry. apply Rltb_false. exact H. }
  rewrite E. apply fold_axis_checked. reflexivity.
Qed.

Lemma axis_sign_first (nz : RK) (pre : list RK) (v : RK) (post : list RK) :
  (forall u, In u pre -> Rabs u < nz) -> nz <= Rabs v -> axis_sign RK nz (pre ++ v :: post) = sgnR v.
Proof.
  intros Hp Hv. unfold axis_sign. rewrite axis_small_prefix by (try reflexivity; assumption).
  rewrite axis_hit by assumption. reflexivity.
Qed.

Lemma axis_sign_none (nz : RK) (col : list RK) :
  (forall u, In u col -> Rabs u < nz) -> axis_sign RK nz col = 1.
Proof.
  intros H. unfold axis_sign. rewrite <- (app_nil_r col). rewrite axis_small_prefix by (try reflexivity; assumption).
  reflexivity.
Qed.

Lemma axis_sign_is_sign (nz : RK) (col : list RK) : axis_sign RK nz col = 1 \/ axis_sign RK nz col = - (1).
Proof.
  unfold axis_sign.
  assert (G : forall st : (bool * RK)%type, (snd st = 1 \/ snd st = - (1)) ->
              snd (fold_left (axis_step RK nz) col st) = 1 \/ snd (fold_left (axis_step RK nz) col st) = - (1)).
  { induction col as [|v tl IH]; intros st H; cbn [fold_left]; [exact H|]. apply IH.
    unfold axis_step. destruct (fst st); [exact H|]. destruct (fltb RK (fabs v) nz); [exact H|].
    cbn. destruct (Rltb v 0); [right | left]; reflexivity. }
  apply G. left. reflexivity.
Qed.

Lemma sgnR_mul_pos (v : R) : v <> 0 -> 0 < sgnR v * v.
Proof.
  intro H. unfold sgnR. destruct (Rltb v 0) eqn:E.
  - apply Rltb_true in E. lra.
  - apply Rltb_false in E. lra.
Qed.

Lemma Rabs_sign_mul (s u : R) : (s = 1 \/ s = - (1)) -> Rabs (s * u) = Rabs u.
Proof. intros [-> | ->]; [rewrite Rmult_1_l; reflexivity|]. replace (- (1) * u) with (- u) by ring. apply Rabs_Ropp. Qed.

(* one column: after multiplying by its axis sign, the first significant entry is positive *)
Lemma column_convention (nz : RK) (col : list RK) (pre : list RK) (v : RK) (post : list RK) :
  0 < nz ->
  map (Rmult (axis_sign RK nz col)) col = pre ++ v :: post ->
  (forall u, In u pre -> Rabs u < nz) -> nz <= Rabs v -> 0 < v.
Proof.
  intros Hnz E Hp Hv.
  pose proof (axis_sign_is_sign nz col) as Hs. set (s := axis_sign RK nz col) in *.
  apply map_eq_app in E. destruct E as [pre0 [rest0 [Ec [Epre Erest]]]].
  apply map_eq_cons in Erest. destruct Erest as [v0 [post0 [Er [Ev Epost]]]]. subst rest0.
  assert (Hp0 : forall u, In u pre0 -> Rabs u < nz).
  { intros u Hu. rewrite <- (Rabs_sign_mul s u Hs). apply Hp. rewrite <- Epre. apply in_map. exact Hu. }
  assert (Hv0 : nz <= Rabs v0) by (rewrite <- (Rabs_sign_mul s v0 Hs), Ev; exact Hv).
  assert (Es : s = sgnR v0) by (unfold s; rewrite Ec; apply axis_sign_first; assumption).
  rewrite <- Ev, Es. apply sgnR_mul_pos. intro Z. rewrite Z, Rabs_R0 in Hv0. lra.
Qed.

Lemma apply_signs_col (s : vec3 RK) (rows : list (vec3 RK)) :
  map vx (apply_signs RK s rows) = map (Rmult (vx s)) (map vx rows)
  /\ map vy (apply_signs RK s rows) = map (Rmult (vy s)) (map vy rows)
  /\ map vz (apply_signs RK s rows) = map (Rmult (vz s)) (map vz rows).
Proof.
  unfold apply_signs. rewrite !map_map. dvec s.
  repeat split; apply map_ext; intro r; dvec r; reflexivity.
Qed.

Theorem phase_convention_R (nz : RK) (rows : list (vec3 RK)) (proj : vec3 RK -> RK) :
  0 < nz -> (proj = vx \/ proj = vy \/ proj = vz) ->
  forall pre v post,
    map proj (apply_phase RK nz rows) = pre ++ v :: post ->
    (forall u, In u pre -> Rabs u < nz) -> nz <= Rabs v -> 0 < v.
Proof.
  intros Hnz Hproj pre v post E Hp Hv. unfold apply_phase in E.
  destruct (apply_signs_col (phase_signs RK nz rows) rows) as [Cx [Cy Cz]].
  rewrite phase_signs_axes in *. cbn [vx vy vz fst snd] in *.
  destruct Hproj as [-> | [-> | ->]].
  - rewrite Cx in E. eapply column_convention; eassumption.
  - rewrite Cy in E. eapply column_convention; eassumption.
  - rewrite Cz in E. eapply column_convention; eassumption.
Qed.

Lemma fofpos_pos_R (p : positive) : 0 < fofpos RK p.
Proof. induction p; cbn [fofpos]; cbn [fadd fmul f1 RK] in *; nra. Qed.

Lemma noise_pos_R : 0 < noise RK.
Proof.
  unfold noise. change (finv RK) with Rinv. apply Rinv_0_lt_compat.
  destruct (10 ^ geometry_noise_exp)%Z eqn:E; try (vm_compute in E; discriminate).
  cbn [fofZ]. apply fofpos_pos_R.
Qed.

Lemma map_fst_combine_len {A B} (l1 : list A) (l2 : list B) :
  length l1 = length l2 -> map fst (combine l1 l2) = l1.
Proof.
  revert l2. induction l1 as [|a l1 IH]; intros [|b l2] H; cbn in *; try reflexivity; try discriminate.
  rewrite IH by (injection H; auto). reflexivity.
Qed.

Theorem orient_phase_convention_R eigh (atoms r : list (watom RK)) (proj : vec3 RK -> RK) :
  orient_atoms RK eigh atoms = Ok r -> (proj = vx \/ proj = vy \/ proj = vz) ->
  forall pre v post,
    map proj (map fst r) = pre ++ v :: post ->
    (forall u, In u pre -> Rabs u < noise RK) -> noise RK <= Rabs v -> 0 < v.
Proof.
  intros H Hproj pre v post E Hp Hv.
  unfold orient_atoms in H. destruct (is_zero RK (total_mass RK atoms)); [discriminate|]. injection H as <-.
  unfold with_masses in E.
  set (rot := rotate RK (snd (eigh (inertia_tensor RK (centre RK atoms)))) (centre RK atoms)) in *.
  rewrite map_fst_combine_len in E by (unfold apply_phase, apply_signs; rewrite !map_length; reflexivity).
  eapply phase_convention_R; try eassumption. apply noise_pos_R.
Qed.
