(** C14 — the Munkres invariant and its preservation by _step1, _step3, _step6 (the algebraic steps). *)
From Coq Require Import ZArith List Bool Arith Lia.
Require Import QV.Common.Outcome QV.Model.Hungarian QV.Proofs.HungarianCert QV.Proofs.HungarianLib.
Import ListNotations.
Open Scope Z_scope.

Lemma mget_nz_range M n m i j : rect M n m -> mget M i j <> 0 -> (i < n)%nat /\ (j < m)%nat.
Proof.
  intros [H1 H2] H. unfold mget in H.
  destruct (Nat.ltb_spec i n).
  - split; auto. destruct (Nat.ltb_spec j m); auto.
    rewrite nth_overflow in H; try congruence.
    rewrite Forall_forall in H2. rewrite (H2 (nth i M [])); auto. apply nth_In; lia.
  - rewrite (nth_overflow M) in H by lia. destruct j; simpl in H; congruence.
Qed.

Definition star (s : hstate) (i j : nat) : Prop := mget (marked s) i j = 1.
Definition prime (s : hstate) (i j : nat) : Prop := mget (marked s) i j = 2.

Section Inv.
Variables (C0 : mat) (n m : nat).
Hypothesis Hn : (0 < n)%nat.

(** the part of the invariant that holds between all steps: the current matrix is the working cost matrix minus
    row and column potentials, it is non-negative, the stars are a partial matching on its zeros, and columns
    without a star carry the maximal column potential *)
Record base (u v : nat -> Z) (s : hstate) : Prop := {
  b_shC : rect (hC s) n m;
  b_shM : rect (marked s) n m;
  b_ru : length (rowunc s) = n;
  b_cu : length (colunc s) = m;
  b_pot : forall i j, (i < n)%nat -> (j < m)%nat -> mget (hC s) i j = mget C0 i j - u i - v j;
  b_nn : forall i j, (i < n)%nat -> (j < m)%nat -> 0 <= mget (hC s) i j;
  b_star0 : forall i j, star s i j -> mget (hC s) i j = 0;
  b_row1 : forall i j j', star s i j -> star s i j' -> j = j';
  b_col1 : forall i i' j, star s i j -> star s i' j -> i = i';
  b_vmax : forall j, (j < m)%nat -> (forall i, ~ star s i j) -> forall j', (j' < m)%nat -> v j' <= v j
}.

Lemma star_range u v s i j : base u v s -> star s i j -> (i < n)%nat /\ (j < m)%nat.
Proof. intros B H. apply (mget_nz_range (marked s) n m); [apply (b_shM u v s B)|unfold star in H; lia]. Qed.

Lemma prime_range u v s i j : base u v s -> prime s i j -> (i < n)%nat /\ (j < m)%nat.
Proof. intros B H. apply (mget_nz_range (marked s) n m); [apply (b_shM u v s B)|unfold prime in H; lia]. Qed.

(** entry of _step3: no primes, nothing covered *)
Record phase3 (u v : nat -> Z) (s : hstate) : Prop := {
  p3_base : base u v s;
  p3_noprime : forall i j, ~ prime s i j;
  p3_ru : forall i, (i < n)%nat -> bget (rowunc s) i = true;
  p3_cu : forall j, (j < m)%nat -> bget (colunc s) j = true
}.

(** entry of _step4 and _step6 *)
Record inv4 (u v : nat -> Z) (s : hstate) : Prop := {
  i4_base : base u v s;
  i4_cu : forall j, (j < m)%nat -> bget (colunc s) j = false -> exists i, star s i j;
  i4_sc : forall i j, star s i j -> bget (colunc s) j = true -> bget (rowunc s) i = false;
  i4_rcov : forall i, (i < n)%nat -> bget (rowunc s) i = false ->
            exists j j', star s i j /\ bget (colunc s) j = true /\ prime s i j';
  i4_p0 : forall i j, prime s i j -> mget (hC s) i j = 0;
  i4_prow : forall i j, prime s i j -> bget (rowunc s) i = false;
  i4_pcol : forall i j, prime s i j -> bget (colunc s) j = true;
  i4_p1 : forall i j j', prime s i j -> prime s i j' -> j = j';
  i4_rank : exists (rank : nat -> nat) (K : nat),
      (forall i, (i < n)%nat -> bget (rowunc s) i = false -> (rank i < K)%nat)
      /\ (forall r c r', prime s r c -> star s r' c -> (rank r' < rank r)%nat)
}.

(** entry of _step5: Z0 is a primed zero in a row without a star *)
Record inv5 (u v : nat -> Z) (s : hstate) : Prop := {
  i5_base : base u v s;
  i5_z0 : prime s (z0r s) (z0c s);
  i5_nostar : forall j, ~ star s (z0r s) j;
  i5_p0 : forall i j, prime s i j -> mget (hC s) i j = 0;
  i5_p1 : forall i j j', prime s i j -> prime s i j' -> j = j';
  i5_B : forall r c r', prime s r c -> star s r' c -> exists c', prime s r' c';
  i5_rank : exists rank : nat -> nat, forall r c r', prime s r c -> star s r' c -> (rank r' < rank r)%nat
}.

(** state in which the driver loop stops *)
Definition final (u v : nat -> Z) (s : hstate) : Prop := base u v s /\ (n <= count_stars (marked s))%nat.

(** ** _step1 *)
Definition init_ok (s : hstate) : Prop :=
  hC s = C0 /\ rect C0 n m /\ rect (marked s) n m /\ (forall i j, mget (marked s) i j = 0)
  /\ length (rowunc s) = n /\ length (colunc s) = m
  /\ (forall i, (i < n)%nat -> bget (rowunc s) i = true) /\ (forall j, (j < m)%nat -> bget (colunc s) j = true).

Lemma sub_rowmin_rect C : rect C n m -> rect (sub_rowmin C) n m.
Proof.
  intros [H1 H2]. unfold sub_rowmin. split. rewrite map_length; auto.
  apply Forall_forall. intros r Hr. apply in_map_iff in Hr. destruct Hr as [r' [E Hr']]. subst r.
  rewrite map_length. rewrite Forall_forall in H2. auto.
Qed.

Lemma mget_sub_rowmin C i j : rect C n m -> (i < n)%nat -> (j < m)%nat ->
  mget (sub_rowmin C) i j = mget C i j - lmin (nth i C []).
Proof.
  intros HR Hi Hj. pose proof (rect_nth_length C n m i HR Hi) as L. destruct HR as [H1 H2].
  unfold mget, sub_rowmin.
  rewrite (nth_indep _ [] ((fun row => map (fun x => x - lmin row) row) [])) by (rewrite map_length; lia).
  rewrite (map_nth (fun row => map (fun x => x - lmin row) row) C [] i).
  rewrite (nth_indep _ 0 ((fun x => x - lmin (nth i C [])) 0)) by (rewrite map_length; lia).
  rewrite (map_nth (fun x => x - lmin (nth i C [])) (nth i C []) 0 j). reflexivity.
Qed.

Lemma bget_upd l i b k : bget (upd l i b) k = if (Nat.eqb i k && (i <? length l)%nat) then b else bget l k.
Proof. unfold bget. apply nth_upd. Qed.

Definition greedy_inv (C : mat) (st : mat * list bool * list bool) : Prop :=
  let '(mk, ru, cu) := st in
  rect mk n m /\ length ru = n /\ length cu = m
  /\ (forall i j, mget mk i j = 1 -> mget C i j = 0 /\ bget ru i = false /\ bget cu j = false)
  /\ (forall i j, mget mk i j = 0 \/ mget mk i j = 1)
  /\ (forall i j j', mget mk i j = 1 -> mget mk i j' = 1 -> j = j')
  /\ (forall i i' j, mget mk i j = 1 -> mget mk i' j = 1 -> i = i').

Lemma greedy_one_inv C st p : (fst p < n)%nat -> (snd p < m)%nat ->
  greedy_inv C st -> greedy_inv C (greedy_one C st p).
Proof.
  destruct st as [[mk ru] cu]. destruct p as [i j]. simpl. intros Hi Hj G.
  destruct ((mget C i j =? 0) && bget cu j && bget ru i) eqn:Cond; auto.
  apply andb_true_iff in Cond. destruct Cond as [Cond Eru]. apply andb_true_iff in Cond. destruct Cond as [Ez Ecu].
  apply Z.eqb_eq in Ez.
  destruct G as [G1 [G2 [G3 [G4 [G5 [G6 G7]]]]]].
  assert (V : forall i' j', mget (mset mk i j 1) i' j' = if (Nat.eqb i i' && Nat.eqb j j') then 1 else mget mk i' j').
  { intros. apply (mget_mset mk n m); auto. }
  unfold greedy_inv.
  split; [apply mset_rect; auto|]. split; [rewrite upd_length; auto|]. split; [rewrite upd_length; auto|].
  split; [|split; [|split]].
  - intros i0 j0 H. rewrite V in H. rewrite !bget_upd.
    assert (L1 : (i <? length ru)%nat = true) by (apply Nat.ltb_lt; lia).
    assert (L2 : (j <? length cu)%nat = true) by (apply Nat.ltb_lt; lia).
    rewrite L1, L2, !andb_true_r.
    destruct (Nat.eqb_spec i i0); destruct (Nat.eqb_spec j j0); simpl in H; subst; auto;
      destruct (G4 _ _ H) as [X [Y Z]]; auto.
  - intros i0 j0. rewrite V. destruct (Nat.eqb i i0 && Nat.eqb j j0); auto.
  - intros i0 j0 j0'. rewrite !V. intros A B.
    destruct (Nat.eqb_spec i i0); simpl in *.
    + subst i0. destruct (Nat.eqb_spec j j0); destruct (Nat.eqb_spec j j0'); subst; auto.
      * destruct (G4 _ _ B) as [_ [X _]]. congruence.
      * destruct (G4 _ _ A) as [_ [X _]]. congruence.
      * eapply G6; eauto.
    + eapply G6; eauto.
  - intros i0 i0' j0. rewrite !V. intros A B.
    destruct (Nat.eqb_spec j j0); simpl in *.
    + subst j0. rewrite !andb_true_r in *.
      destruct (Nat.eqb_spec i i0); destruct (Nat.eqb_spec i i0'); subst; auto.
      * destruct (G4 _ _ B) as [_ [_ X]]. congruence.
      * destruct (G4 _ _ A) as [_ [_ X]]. congruence.
      * eapply G7; eauto.
    + rewrite !andb_false_r in *. eapply G7; eauto.
Qed.

Lemma greedy_fold_inv C : forall l st, Forall (fun p => (fst p < n)%nat /\ (snd p < m)%nat) l ->
  greedy_inv C st -> greedy_inv C (fold_left (greedy_one C) l st).
Proof.
  induction l; simpl; intros; auto. inversion H; subst. apply IHl; auto.
  destruct H3. apply greedy_one_inv; auto.
Qed.

Lemma positions_range : Forall (fun p => (fst p < n)%nat /\ (snd p < m)%nat) (positions n m).
Proof. apply Forall_forall. intros [i j] H. apply in_positions in H. exact H. Qed.

Lemma step1_phase3 s : init_ok s ->
  exists u v, phase3 u v (snd (step1 s)) /\ fst (step1 s) = S3.
Proof.
  intros [EC [HR [HM [HZ [Lr [Lc [Ar Ac]]]]]]].
  exists (fun i => lmin (nth i C0 [])), (fun _ => 0).
  unfold step1. rewrite EC.
  rewrite (rect_nrows C0 n m HR), (rect_ncols C0 n m HR Hn).
  pose proof (greedy_fold_inv (sub_rowmin C0) (positions n m) (marked s, rowunc s, colunc s) positions_range) as G.
  destruct (fold_left (greedy_one (sub_rowmin C0)) (positions n m) (marked s, rowunc s, colunc s)) as [[mk ru] cu].
  simpl. split; auto.
  assert (G0 : greedy_inv (sub_rowmin C0) (marked s, rowunc s, colunc s)).
  { unfold greedy_inv. split; [auto|]. split; [auto|]. split; [auto|].
    split; [|split; [|split]]; intros; try (rewrite HZ in *; discriminate); auto. }
  specialize (G G0). destruct G as [G1 [G2 [G3 [G4 [G5 [G6 G7]]]]]].
  constructor; simpl.
  - constructor; simpl; unfold star; simpl.
    + apply sub_rowmin_rect; auto.
    + auto.
    + apply repeat_length.
    + apply repeat_length.
    + intros. rewrite mget_sub_rowmin; auto. lia.
    + intros. rewrite mget_sub_rowmin; auto.
      assert (lmin (nth i C0 []) <= mget C0 i j).
      { apply lmin_le. unfold mget. apply nth_In. rewrite (rect_nth_length C0 n m i HR); auto. }
      lia.
    + intros i j H. apply (G4 _ _ H).
    + exact G6.
    + exact G7.
    + intros; lia.
  - unfold prime; simpl. intros i j H. destruct (G5 i j); lia.
  - intros. apply bget_repeat_true; auto.
  - intros. apply bget_repeat_true; auto.
Qed.

(** ** _step3 *)
Lemma step3_spec u v s : phase3 u v s ->
  (fst (step3 s) = S4 /\ inv4 u v (snd (step3 s))) \/ (fst (step3 s) = Done /\ final u v (snd (step3 s))).
Proof.
  intros [B NP Ru Cu].
  unfold step3.
  rewrite (rect_nrows _ n m (b_shC u v s B)), (rect_ncols _ n m (b_shC u v s B) Hn).
  set (cu := btab m (fun j => if star_in_col (marked s) j then false else bget (colunc s) j)).
  assert (B' : base u v {| hC := hC s; rowunc := rowunc s; colunc := cu; marked := marked s; z0r := z0r s; z0c := z0c s |}).
  { destruct B. constructor; simpl; auto. unfold cu. apply btab_length. }
  destruct (count_stars (marked s) <? n)%nat eqn:E; simpl.
  - left. split; auto. constructor; simpl; auto; unfold star, prime in *; simpl.
    + intros j Hj H. unfold cu in H. rewrite bget_btab in H by auto.
      destruct (star_in_col (marked s) j) eqn:S.
      * apply (star_in_col_true _ n m j (b_shM u v s B)) in S. destruct S as [i [_ S]]. exists i; auto.
      * rewrite Cu in H; auto. discriminate.
    + intros i j H Hc. destruct (star_range u v s i j B H) as [Hi Hj].
      unfold cu in Hc. rewrite bget_btab in Hc by auto.
      assert (S : star_in_col (marked s) j = true).
      { apply (star_in_col_true _ n m j (b_shM u v s B)). exists i; auto. }
      rewrite S in Hc. discriminate.
    + intros i Hi H. rewrite Ru in H; auto. discriminate.
    + intros i j H. exfalso. apply (NP i j H).
    + intros i j H. exfalso. apply (NP i j H).
    + intros i j H. exfalso. apply (NP i j H).
    + intros i j j' H. exfalso. apply (NP i j H).
    + exists (fun _ => O), O. split.
      * intros i Hi H. rewrite Ru in H; auto. discriminate.
      * intros r c r' H. exfalso. apply (NP r c H).
  - right. split; auto. split; auto. simpl. apply Nat.ltb_ge in E. auto.
Qed.

(** ** _step6 *)
Lemma in_uncovered_vals C ru cu i j : rect C n m -> (i < n)%nat -> (j < m)%nat ->
  bget ru i = true -> bget cu j = true -> In (mget C i j) (uncovered_vals C ru cu).
Proof.
  intros HR Hi Hj Hr Hc. unfold uncovered_vals.
  rewrite (rect_nrows C n m HR), (rect_ncols C n m HR Hn).
  apply in_flat_map. exists (i, j). split. apply in_positions; auto.
  rewrite Hr, Hc. simpl. auto.
Qed.

Lemma uncovered_vals_nonneg C ru cu : rect C n m ->
  (forall i j, (i < n)%nat -> (j < m)%nat -> 0 <= mget C i j) ->
  forall x, In x (uncovered_vals C ru cu) -> 0 <= x.
Proof.
  intros HR Hnn x Hx. unfold uncovered_vals in Hx.
  rewrite (rect_nrows C n m HR), (rect_ncols C n m HR Hn) in Hx.
  apply in_flat_map in Hx. destruct Hx as [[i j] [Hp Hx]]. apply in_positions in Hp.
  destruct (bget ru i && bget cu j); simpl in Hx; try contradiction.
  destruct Hx as [Hx|[]]. subst x. apply Hnn; tauto.
Qed.

Lemma star_covered_row u v s i j : inv4 u v s -> star s i j -> bget (colunc s) j = false -> bget (rowunc s) i = true.
Proof.
  intros I H Hc. destruct (bget (rowunc s) i) eqn:E; auto.
  destruct (star_range u v s i j (i4_base u v s I) H) as [Hi Hj].
  destruct (i4_rcov u v s I i Hi E) as [j0 [j' [S [C _]]]].
  assert (j = j0) by (eapply (b_row1 u v s (i4_base u v s I)); eauto). subst. congruence.
Qed.

Lemma step6_inv4 u v s : inv4 u v s -> fst (step6 s) = S4 /\ exists u' v', inv4 u' v' (snd (step6 s)).
Proof.
  intros I. pose proof (i4_base u v s I) as B.
  unfold step6.
  rewrite (rect_nrows _ n m (b_shC u v s B)), (rect_ncols _ n m (b_shC u v s B) Hn).
  destruct (existsb (fun b : bool => b) (rowunc s) && existsb (fun b : bool => b) (colunc s)); simpl.
  2:{ split; auto. exists u, v. auto. }
  split; auto.
  set (mv := lmin (uncovered_vals (hC s) (rowunc s) (colunc s))).
  assert (M0 : 0 <= mv).
  { apply lmin_nonneg. apply uncovered_vals_nonneg. apply (b_shC u v s B). apply (b_nn u v s B). }
  assert (M1 : forall i j, (i < n)%nat -> (j < m)%nat -> bget (rowunc s) i = true -> bget (colunc s) j = true ->
               mv <= mget (hC s) i j).
  { intros. apply lmin_le. apply in_uncovered_vals; auto. apply (b_shC u v s B). }
  exists (fun i => u i - (if bget (rowunc s) i then 0 else mv)), (fun j => v j + (if bget (colunc s) j then mv else 0)).
  set (C' := tab n m (fun i j => mget (hC s) i j + (if bget (rowunc s) i then 0 else mv) - (if bget (colunc s) j then mv else 0))).
  assert (V : forall i j, (i < n)%nat -> (j < m)%nat ->
              mget C' i j = mget (hC s) i j + (if bget (rowunc s) i then 0 else mv) - (if bget (colunc s) j then mv else 0)).
  { intros. unfold C'. rewrite mget_tab; auto. }
  destruct I as [_ Icu Isc Ircov Ip0 Iprow Ipcol Ip1 Irank].
  assert (I : inv4 u v s) by (constructor; auto).
  constructor; simpl; auto; unfold star, prime in *; simpl.
  - destruct B. constructor; simpl; auto; unfold star in *; simpl.
    + apply tab_rect.
    + intros. rewrite V; auto. rewrite b_pot0; auto. lia.
    + intros. rewrite V; auto. pose proof (b_nn0 i j H H0).
      destruct (bget (rowunc s) i) eqn:Er; destruct (bget (colunc s) j) eqn:Ec; try lia.
      pose proof (M1 i j H H0 Er Ec). lia.
    + intros i j H. destruct (mget_nz_range (marked s) n m i j b_shM0) as [Hi Hj]. lia.
      rewrite V; auto. rewrite (b_star1 i j H).
      destruct (bget (colunc s) j) eqn:Ec.
      * rewrite (Isc i j H Ec). lia.
      * rewrite (star_covered_row u v s i j I H Ec). lia.
    + intros j Hj Hns j' Hj'.
      assert (Ec : bget (colunc s) j = true).
      { destruct (bget (colunc s) j) eqn:Ec; auto. destruct (Icu j Hj Ec) as [i Hi]. exfalso. apply (Hns i Hi). }
      rewrite Ec. pose proof (b_vmax0 j Hj Hns j' Hj'). destruct (bget (colunc s) j'); lia.
  - intros i j H. destruct (mget_nz_range (marked s) n m i j (b_shM u v s B)) as [Hi Hj]. lia.
    rewrite V; auto. rewrite (Ip0 i j H), (Iprow i j H), (Ipcol i j H). lia.
Qed.

End Inv.
