(** C07 — the public entry point with dtype=None (format auto-detection) and the xyz / xyz+ line-level layout
    statements: totality of the cascade, texts written for psi4 are detected as psi4 and read back, the known
    shadowing of xyz+ by strict xyz, blank lines and line padding under the xyz readers. *)
From Coq Require Import ZArith NArith List String Ascii Bool Lia.
Require Import QV.Common.Outcome QV.Common.WText QV.Common.WBin64 QV.Model.WriterTypes QV.Gen.WriterTables QV.Model.Writers
               QV.Model.Text QV.Proofs.Writers QV.Proofs.Text QV.Proofs.TextRT QV.Proofs.TextLex QV.Proofs.TextLayout
               QV.Proofs.TextRoundTrip QV.Proofs.TextRoundTripXyz.
Import ListNotations.
Open Scope nat_scope.

Local Notation "a +++ b" := (String.append a b) (at level 60, right associativity).

(* ------------------------------------------------------------------------------------------ *)
(** * the cascade in terms of the three readers *)
Lemma parse_auto_cascade text :
  parse_auto text
  = let r1 := parse "psi4" text in
    if is_format_error r1 then
      let r2 := parse "xyz" text in
      if is_format_error r2 then
        let r3 := parse "xyz+" text in
        if is_format_error r3 then Err OutOfFuel else tag_with "xyz+" r3
      else tag_with "xyz" r2
    else tag_with "psi4" r1.
Proof. reflexivity. Qed.

(** outcomes of auto-detection: a dictionary under one of the three Cartesian dtypes, or "outside the model" (all
    three refuse the text: the implementation goes on to the psi4+ dialect; or a pubchem / efp line) *)
Definition auto_documented (o : outcome (string * processed)) : Prop :=
  (exists d p, o = Ok (d, p) /\ cartesian_dtype d) \/ o = Err OutOfFuel.

Lemma tag_cases d r :
  cartesian_dtype d -> documented_or_valueerror r -> is_format_error r = false ->
  auto_documented (tag_with d r) \/ tag_with d r = Err PyValueError.
Proof.
  intros Hd [[[p ->]|[->| ->]]| ->] Hf; simpl in *; try discriminate.
  - left; left; eauto.
  - left; right; reflexivity.
  - right; reflexivity.
Qed.
Lemma tag_cases_short d r :
  cartesian_dtype d -> documented r -> is_format_error r = false -> auto_documented (tag_with d r).
Proof.
  intros Hd [[p ->]|[->| ->]] Hf; simpl in *; try discriminate.
  - left; eauto.
  - right; reflexivity.
Qed.

Theorem parse_auto_total text : auto_documented (parse_auto text) \/ parse_auto text = Err PyValueError.
Proof.
  rewrite parse_auto_cascade. cbv zeta.
  destruct (is_format_error (parse "psi4" text)) eqn:E1; [|apply tag_cases; [right; right; reflexivity | apply parse_total; right; right; reflexivity | assumption]].
  destruct (is_format_error (parse "xyz" text)) eqn:E2; [|apply tag_cases; [left; reflexivity | apply parse_total; left; reflexivity | assumption]].
  destruct (is_format_error (parse "xyz+" text)) eqn:E3; [left; right; reflexivity|].
  apply tag_cases; [right; left; reflexivity | apply parse_total; right; left; reflexivity | assumption].
Qed.

Theorem parse_auto_total_short text : String.length text <= int_max_str_digits -> auto_documented (parse_auto text).
Proof.
  intro H. rewrite parse_auto_cascade. cbv zeta.
  destruct (is_format_error (parse "psi4" text)) eqn:E1; [|apply tag_cases_short; [right; right; reflexivity | apply parse_total_short; [right; right; reflexivity | assumption] | assumption]].
  destruct (is_format_error (parse "xyz" text)) eqn:E2; [|apply tag_cases_short; [left; reflexivity | apply parse_total_short; [left; reflexivity | assumption] | assumption]].
  destruct (is_format_error (parse "xyz+" text)) eqn:E3; [right; reflexivity|].
  apply tag_cases_short; [right; left; reflexivity | apply parse_total_short; [right; left; reflexivity | assumption] | assumption].
Qed.

(** a text the psi4 reader accepts is detected as psi4 *)
Lemma auto_psi4_first text p : parse "psi4" text = Ok p -> parse_auto text = Ok ("psi4"%string, p).
Proof. intro H. rewrite parse_auto_cascade. cbv zeta. rewrite H. reflexivity. Qed.

(** the round trip through the default entry point: what the psi4 writer produces is detected as psi4 and read back *)
Theorem roundtrip_psi4_auto cfg m text kw w r :
  s_lower (w_dtype cfg) = "psi4"%string -> to_string_model cfg m = Ok (text, kw) ->
  unit_word (units_of e_psi4 cfg) = Some (w, r) -> psi4_fits cfg m ->
  exists atoms,
    atoms_formatter (af_of e_psi4 cfg) (gf_of e_psi4 cfg) (factor_of e_psi4 cfg m) (m_atoms m) = Ok atoms
    /\ parse_auto text = Ok ("psi4"%string, carried_psi4 cfg m atoms r).
Proof.
  intros Hd H Hu Hf. destruct (roundtrip_psi4 cfg m text kw w r Hd H Hu Hf) as [atoms [Ha Hp]].
  exists atoms. split; [assumption | now apply auto_psi4_first].
Qed.

(** a text only the later readers accept is detected by the first of them *)
Lemma auto_xyz_second text p : parse "psi4" text = Err MoleculeFormat -> parse "xyz" text = Ok p -> parse_auto text = Ok ("xyz"%string, p).
Proof. intros H1 H2. rewrite parse_auto_cascade. cbv zeta. rewrite H1, H2. reflexivity. Qed.

(* ------------------------------------------------------------------------------------------ *)
(** * blank lines and white space around lines (xyz, xyz+): after the two header lines *)
Definition xyz_of_lines (strict : bool) (L : list string) : outcome processed := parse_xyz_lines strict (map s_strip L).

Lemma xyz_atoms_blank nuc L1 L2 : forall a, xyz_atoms nuc (L1 ++ EmptyString :: L2) a = xyz_atoms nuc (L1 ++ L2) a.
Proof.
  induction L1 as [|l r IH]; intro a; cbn [app xyz_atoms].
  - unfold atom_match. cbn. destruct a; cbn. rewrite orb_false_r. reflexivity.
  - destruct (atom_match nuc l) as [[[[n x] y] z]|]; apply IH.
Qed.

Theorem layout_blank_lines_xyz strict l0 l1 L1 w L2 :
  s_all c_is_space w = true ->
  xyz_of_lines strict (l0 :: l1 :: L1 ++ w :: L2) = xyz_of_lines strict (l0 :: l1 :: L1 ++ L2).
Proof.
  intro H. unfold xyz_of_lines. cbn [map]. rewrite !map_app. cbn [map]. rewrite (strip_all_ws w H).
  unfold parse_xyz_lines. cbv beta iota zeta.
  match goal with |- (let '(u, r0) := ?c in _) = _ => destruct c as [units rem0] end.
  match goal with |- obind ?c _ = obind ?c _ => destruct c as [cmv|k]; [|reflexivity] end.
  cbn [obind]. now rewrite xyz_atoms_blank.
Qed.

Theorem layout_line_padding_xyz strict L L' :
  Forall2 (fun l l' => exists w1 w2, s_all c_is_space w1 = true /\ s_all c_is_space w2 = true /\ l' = w1 +++ l +++ w2) L L' ->
  xyz_of_lines strict L' = xyz_of_lines strict L.
Proof.
  intro H. unfold xyz_of_lines. f_equal.
  induction H as [|l l' L L' [w1 [w2 [H1 [H2 ->]]]] _ IH]; [reflexivity|]. cbn [map]. rewrite strip_outer by assumption. now rewrite IH.
Qed.

(** a comment-free text whose first and last characters are not blank is read from its lines *)
Theorem xyz_text_of_lines (strict : bool) L :
  L <> [] -> Forall plain_line L ->
  first_is c_is_space (jn L) = false -> last_is c_is_space (jn L) = false -> is_empty (jn L) = false ->
  parse (if strict then "xyz"%string else "xyz+"%string) (jn L) = xyz_of_lines strict L.
Proof.
  intros Hn Hp Hf Hl He. unfold parse.
  assert (E : filter_comments (s_strip (jn L)) = jn L) by (rewrite (strip_id_gen _ Hf Hl He); apply filter_comments_id, hash_jn_plain, Hp).
  destruct strict.
  - change (s_eqb "xyz" "xyz") with true. cbv iota. unfold parse_xyz, stripped_lines, xyz_of_lines. now rewrite E, (split_join_plain _ Hn Hp).
  - change (s_eqb "xyz+" "xyz") with false. change (s_eqb "xyz+" "xyz+") with true. cbv iota.
    unfold parse_xyz, stripped_lines, xyz_of_lines. now rewrite E, (split_join_plain _ Hn Hp).
Qed.

(* ------------------------------------------------------------------------------------------ *)
(** * letter case of nucleus labels: the NUCLEUS / SIMPLENUCLEUS recognisers do not look at it *)
Section LowerInvariant.
  Variable p : ascii -> bool.
  Hypothesis Hp : forall c, p (c_lower c) = p c.
  Lemma take_while_lower s : take_while p (s_lower s) = s_lower (take_while p s).
  Proof. induction s as [|c s IH]; [reflexivity|]. cbn [s_lower take_while]. rewrite Hp. destruct (p c); [cbn [s_lower]; now rewrite IH | reflexivity]. Qed.
  Lemma drop_while_lower s : drop_while p (s_lower s) = s_lower (drop_while p s).
  Proof. induction s as [|c s IH]; [reflexivity|]. cbn [s_lower drop_while]. rewrite Hp. destruct (p c); [exact IH | reflexivity]. Qed.
  Lemma s_all_lower s : s_all p (s_lower s) = s_all p s.
  Proof. induction s as [|c s IH]; [reflexivity|]. cbn [s_lower s_all]. now rewrite Hp, IH. Qed.
  Lemma first_is_lower s : first_is p (s_lower s) = first_is p s.
  Proof. destruct s; [reflexivity|]. cbn. apply Hp. Qed.
End LowerInvariant.

Lemma lower_digit c : c_is_digit (c_lower c) = c_is_digit c.
Proof. destruct c as [[] [] [] [] [] [] [] []]; reflexivity. Qed.
Lemma lower_alpha c : c_is_alpha (c_lower c) = c_is_alpha c.
Proof. destruct c as [[] [] [] [] [] [] [] []]; reflexivity. Qed.
Lemma lower_word c : c_is_word (c_lower c) = c_is_word c.
Proof. destruct c as [[] [] [] [] [] [] [] []]; reflexivity. Qed.
Lemma lower_not_at c : not_at (c_lower c) = not_at c.
Proof. destruct c as [[] [] [] [] [] [] [] []]; reflexivity. Qed.
Lemma lower_eqb_us c : c_eqb (c_lower c) c_us = c_eqb c c_us.
Proof. destruct c as [[] [] [] [] [] [] [] []]; reflexivity. Qed.
Lemma lower_eqb_dot c : c_eqb (c_lower c) c_dot = c_eqb c c_dot.
Proof. destruct c as [[] [] [] [] [] [] [] []]; reflexivity. Qed.
Lemma lower_eqb_at c : c_eqb (c_lower c) c_at = c_eqb c c_at.
Proof. destruct c as [[] [] [] [] [] [] [] []]; reflexivity. Qed.
Lemma lower_eqb_rpar c : c_eqb (c_lower c) c_rpar = c_eqb c c_rpar.
Proof. destruct c as [[] [] [] [] [] [] [] []]; reflexivity. Qed.

Lemma length_lower s : String.length (s_lower s) = String.length s.
Proof. induction s; simpl; congruence. Qed.
Lemma len_between_lower lo hi s : len_between lo hi (s_lower s) = len_between lo hi s.
Proof. unfold len_between. now rewrite length_lower. Qed.
Lemma all_digits_lower s : all_digits (s_lower s) = all_digits s.
Proof. unfold all_digits. now rewrite is_empty_lower, (s_all_lower _ lower_digit). Qed.

Lemma user1_ok_lower s : user1_ok (s_lower s) = user1_ok s.
Proof.
  destruct s as [|c r]; [reflexivity|]. change (s_lower (String c r)) with (String (c_lower c) (s_lower r)).
  unfold user1_ok. rewrite lower_eqb_us. destruct (c_eqb c c_us).
  - now rewrite is_empty_lower, (s_all_lower _ lower_word).
  - change (String (c_lower c) (s_lower r)) with (s_lower (String c r)). apply all_digits_lower.
Qed.
Lemma user2_ok_lower s : user2_ok (s_lower s) = user2_ok s.
Proof.
  destruct s as [|c r]; [reflexivity|]. cbn [s_lower user2_ok]. now rewrite lower_eqb_us, is_empty_lower, (s_all_lower _ lower_word).
Qed.
Lemma core_ok_lower s : core_ok (s_lower s) = core_ok s.
Proof.
  unfold core_ok. rewrite (take_while_lower _ lower_digit), (drop_while_lower _ lower_digit), (first_is_lower _ lower_alpha).
  rewrite (take_while_lower _ lower_alpha), (drop_while_lower _ lower_alpha), !len_between_lower, user1_ok_lower, user2_ok_lower. reflexivity.
Qed.
Lemma mass_ok_lower s : mass_ok (s_lower s) = mass_ok s.
Proof.
  unfold mass_ok. rewrite (take_while_lower _ lower_digit), (drop_while_lower _ lower_digit), is_empty_lower.
  destruct (drop_while c_is_digit s) as [|c r]; [reflexivity|]. cbn [s_lower]. now rewrite lower_eqb_dot, all_digits_lower.
Qed.
Lemma core_mass_ok_lower s : core_mass_ok (s_lower s) = core_mass_ok s.
Proof.
  unfold core_mass_ok. rewrite (take_while_lower _ lower_not_at), (drop_while_lower _ lower_not_at), core_ok_lower.
  destruct (drop_while not_at s) as [|c r]; [reflexivity|]. cbn [s_lower]. now rewrite mass_ok_lower.
Qed.
Lemma strip_rpar_lower s : strip_rpar (s_lower s) = option_map s_lower (strip_rpar s).
Proof.
  induction s as [|c s IH]; [reflexivity|]. destruct s as [|c2 s2].
  - cbn [s_lower strip_rpar]. rewrite lower_eqb_rpar. now destruct (c_eqb c c_rpar).
  - change (s_lower (String c (String c2 s2))) with (String (c_lower c) (s_lower (String c2 s2))).
    change (strip_rpar (String (c_lower c) (s_lower (String c2 s2))))
      with (match strip_rpar (s_lower (String c2 s2)) with Some t => Some (String (c_lower c) t) | None => None end).
    rewrite IH. change (strip_rpar (String c (String c2 s2))) with (match strip_rpar (String c2 s2) with Some t => Some (String c t) | None => None end).
    destruct (strip_rpar (String c2 s2)); reflexivity.
Qed.

Theorem is_nucleus_lower s : is_nucleus (s_lower s) = is_nucleus s.
Proof.
  destruct s as [|c r]; [reflexivity|].
  change (s_lower (String c r)) with (String (c_lower c) (s_lower r)). unfold is_nucleus.
  rewrite lower_eqb_at. destruct (c_eqb c c_at); [apply core_mass_ok_lower|].
  change (String (c_lower c) (s_lower r)) with (s_lower (String c r)). rewrite s_lower_idem.
  destruct (s_prefix "gh(" (s_lower (String c r))).
  - rewrite <- s_lower_drop, strip_rpar_lower. destruct (strip_rpar (s_drop 3 (String c r))); [apply core_mass_ok_lower | reflexivity].
  - apply core_mass_ok_lower.
Qed.
Theorem is_simple_nucleus_lower s : is_simple_nucleus (s_lower s) = is_simple_nucleus s.
Proof. unfold is_simple_nucleus. now rewrite len_between_lower, (s_all_lower _ lower_alpha), (s_all_lower _ lower_digit). Qed.

(** labels that differ only in letter case (element symbol, "Gh(...)" wrapper, user label) are recognised alike *)
Theorem layout_symbol_case n n' :
  s_lower n = s_lower n' -> is_nucleus n = is_nucleus n' /\ is_simple_nucleus n = is_simple_nucleus n'.
Proof. intro H. split; [rewrite <- (is_nucleus_lower n), <- (is_nucleus_lower n'), H | rewrite <- (is_simple_nucleus_lower n), <- (is_simple_nucleus_lower n'), H]; reflexivity. Qed.
