(** C09 — lemmas about Model/GeomInit.v *)
From Coq Require Import ZArith Bool List.
Require Import QV.Gen.MolGeomInit QV.Model.GeomInit.
Open Scope Z_scope.

Section Theorems.
  Variable G : Type.
  Variable prep : Z -> G -> G.
  Variable orient_fn : G -> G.
  Hypothesis prep_idem : forall g, prep hash_geometry_noise (prep hash_geometry_noise g) = prep hash_geometry_noise g.

  (* Molecule built from mol.dict() for a dictionary that says validated=True: the coordinates are stored as they are, whatever truncation
     they were stored with before *)
  Lemma rebuilt_keeps_geometry nk g : stored_geometry G prep orient_fn false None true false nk g = g.
  Proof. reflexivity. Qed.
  Lemma rebuilt_same_hashed_geometry nk g :
    hashed_geometry G prep (stored_geometry G prep orient_fn false None true false nk g) = hashed_geometry G prep g.
  Proof. reflexivity. Qed.
  (* the same dictionary without the validated flag (re-validated from scratch, default truncation): hashed the same *)
  Lemma revalidated_same_hashed_geometry g :
    hashed_geometry G prep (stored_geometry G prep orient_fn false None false false None g) = hashed_geometry G prep g.
  Proof. unfold hashed_geometry, stored_geometry. cbn. apply prep_idem. Qed.
  Lemma explicit_novalidate_keeps_geometry vk nk g : stored_geometry G prep orient_fn false (Some false) vk false nk g = g.
  Proof. reflexivity. Qed.
End Theorems.

(** the hypothesis is satisfiable: truncation of fixed-point coordinates (units of 1e-20) to n decimals *)
Definition trunc_prep (n : Z) (g : list Z) : list Z := map (fun x => x / 10 ^ (20 - n) * 10 ^ (20 - n)) g.
Lemma trunc_prep_idem g : trunc_prep hash_geometry_noise (trunc_prep hash_geometry_noise g) = trunc_prep hash_geometry_noise g.
Proof.
  unfold trunc_prep. rewrite map_map. apply map_ext. intros x.
  rewrite Z.div_mul; [reflexivity|]. vm_compute. discriminate.
Qed.
