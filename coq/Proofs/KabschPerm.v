(** C12 — proofs about Model/KabschPerm.v (the permutative candidate generator). *)
From Coq Require Import List Arith Lia Bool Permutation.
Require Import QV.Common.Outcome QV.Common.AlignAlg QV.Common.AlignAlgFacts QV.Common.AlignAlgQuat QV.Model.KabschPerm.
Import ListNotations.

(** ---- dedup / indices_of / count ---- *)
Lemma dedup_in x l : In x (dedup l) <-> In x l.
Proof.
  induction l as [|a l IH]; cbn [dedup]; [tauto|]. split.
  - intros [->|H]; [left; reflexivity|]. apply filter_In in H. right. apply IH. tauto.
  - intros [->|H]; [left; reflexivity|]. destruct (Nat.eq_dec x a) as [->|N]; [left; reflexivity|].
    right. apply filter_In. split; [apply IH; exact H|]. apply negb_true_iff. apply Nat.eqb_neq. exact N.
Qed.

Lemma dedup_nodup l : NoDup (dedup l).
Proof.
  induction l as [|a l IH]; cbn [dedup]; constructor.
  - intros H. apply filter_In in H. destruct H as [_ H]. rewrite Nat.eqb_refl in H. discriminate.
  - apply NoDup_filter. exact IH.
Qed.

Lemma indices_of_in k lab i : In i (indices_of k lab) <-> (i < length lab /\ nth i lab O = k).
Proof.
  unfold indices_of. rewrite filter_In, in_seq, Nat.eqb_eq. split; intros [A B]; split; try assumption; lia.
Qed.

Lemma indices_of_nodup k lab : NoDup (indices_of k lab).
Proof. unfold indices_of. apply NoDup_filter. apply seq_NoDup. Qed.

Lemma count_filter_seq k (l : list nat) s :
  length (filter (fun i => Nat.eqb (nth (i - s) l O) k) (seq s (length l))) = count_nat k l.
Proof.
  revert s. induction l as [|a l IH]; intros s; [reflexivity|].
  assert (E : filter (fun i => Nat.eqb (nth (i - s) (a :: l) O) k) (seq (S s) (length l)) =
              filter (fun i => Nat.eqb (nth (i - S s) l O) k) (seq (S s) (length l))).
  { apply filter_ext_in. intros i Hi. apply in_seq in Hi. replace (i - s) with (S (i - S s)) by lia. reflexivity. }
  change (seq s (length (a :: l))) with (s :: seq (S s) (length l)).
  cbn [filter count_nat]. rewrite Nat.sub_diag. change (nth 0 (a :: l) 0) with a.
  rewrite (Nat.eqb_sym a k). rewrite E.
  destruct (Nat.eqb k a); cbn [length]; rewrite IH; reflexivity.
Qed.

Lemma indices_of_length k lab : length (indices_of k lab) = count_nat k lab.
Proof.
  unfold indices_of. rewrite <- (count_filter_seq k lab 0). f_equal. apply filter_ext. intros i. rewrite Nat.sub_0_r. reflexivity.
Qed.

Lemma same_multiset_spec a b :
  same_multiset a b = true -> length a = length b /\ forall k, In k a -> count_nat k a = count_nat k b.
Proof.
  unfold same_multiset. rewrite andb_true_iff, Nat.eqb_eq, forallb_forall. intros [L F]. split; [exact L|].
  intros k Hk. apply Nat.eqb_eq. apply F. exact Hk.
Qed.

(** ---- itertools.permutations ---- *)
Lemma remove_at_length {A} i (l : list A) : i < length l -> length (remove_at i l) = length l - 1.
Proof.
  revert i. induction l as [|a l IH]; intros i H; cbn [length] in *; [lia|]. destruct i; cbn [remove_at length]; [lia|].
  rewrite IH by lia. lia.
Qed.

Lemma remove_at_perm i (l : list nat) : i < length l -> Permutation l (nth i l O :: remove_at i l).
Proof.
  revert i. induction l as [|a l IH]; intros i H; cbn [length] in *; [lia|]. destruct i; cbn [remove_at nth]; [reflexivity|].
  rewrite perm_swap. constructor. apply IH. lia.
Qed.

Lemma perms_fuel_sound f : forall l pm, length l = f -> In pm (perms_fuel f l) -> Permutation pm l.
Proof.
  induction f as [|f IH]; intros l pm HL H.
  - destruct l; [|discriminate]. cbn in H. destruct H as [<-|[]]. reflexivity.
  - destruct l as [|a l]; [discriminate|]. cbn [perms_fuel] in H.
    apply in_flat_map in H. destruct H as [i [Hi H]]. apply in_seq in Hi.
    apply in_map_iff in H. destruct H as [pm' [<- H]].
    apply Permutation_sym. etransitivity; [apply (remove_at_perm i); cbn [length] in *; lia|]. constructor.
    apply Permutation_sym. apply IH; [|exact H]. rewrite remove_at_length by (cbn [length] in *; lia). cbn [length] in *. lia.
Qed.

Lemma perms_fuel_complete f : forall l pm, length l = f -> Permutation pm l -> In pm (perms_fuel f l).
Proof.
  induction f as [|f IH]; intros l pm HL H.
  - destruct l; [|discriminate]. apply Permutation_sym, Permutation_nil in H. subst. left. reflexivity.
  - destruct l as [|a l]; [discriminate|].
    destruct pm as [|x pm]; [apply Permutation_nil in H; discriminate|].
    assert (Hx : In x (a :: l)) by (eapply Permutation_in; [exact H|left; reflexivity]).
    destruct (In_nth _ _ O Hx) as [i [Hi Ei]].
    cbn [perms_fuel]. apply in_flat_map. exists i. split; [apply in_seq; lia|].
    rewrite Ei. apply in_map. apply IH.
    + rewrite remove_at_length by lia. cbn [length] in *. lia.
    + apply Permutation_cons_inv with x. etransitivity; [exact H|]. rewrite <- Ei. apply remove_at_perm. exact Hi.
Qed.

Lemma perms_spec l pm : In pm (perms l) <-> Permutation pm l.
Proof. unfold perms. split; [apply perms_fuel_sound|apply perms_fuel_complete]; reflexivity. Qed.

(** ---- itertools.product ---- *)
Lemma cart_spec {A} (ls : list (list A)) cp : In cp (cart ls) <-> Forall2 (fun x l => In x l) cp ls.
Proof.
  revert cp. induction ls as [|l ls IH]; intros cp; cbn [cart].
  - split; [intros [<-|[]]; constructor | intros H; inversion H; left; reflexivity].
  - rewrite in_flat_map. split.
    + intros [x [Hx H]]. apply in_map_iff in H. destruct H as [cp' [<- H]]. constructor; [exact Hx|apply IH; exact H].
    + intros H. inversion H as [|x l' cp' ls' Hx H']; subst. exists x. split; [exact Hx|]. apply in_map. apply IH. exact H'.
Qed.

(** ---- assembly ---- *)
Lemma alookup_in i (a : list (nat * nat)) v : In (i, v) a -> In (i, alookup i a) a.
Proof.
  induction a as [|[k w] a IH]; intros H; [destruct H|]. cbn [alookup].
  destruct (Nat.eqb i k) eqn:E.
  - apply Nat.eqb_eq in E. subst. left. reflexivity.
  - destruct H as [H|H]; [inversion H; subst; rewrite Nat.eqb_refl in E; discriminate|]. right. apply IH. exact H.
Qed.

Lemma alookup_unique i (a : list (nat * nat)) v :
  In (i, v) a -> (forall w, In (i, w) a -> w = v) -> alookup i a = v.
Proof. intros H U. apply U. eapply alookup_in. exact H. Qed.

Lemma in_combine_nth {A B} (a : list A) (b : list B) x y :
  In (x, y) (combine a b) -> exists t, t < length a /\ t < length b /\ nth_error a t = Some x /\ nth_error b t = Some y.
Proof.
  revert b. induction a as [|a0 a IH]; intros [|b0 b] H; cbn [combine] in H; try destruct H.
  - inversion H; subst. exists 0. cbn. repeat split; lia.
  - destruct (IH b H) as [t [A1 [A2 [A3 A4]]]]. exists (S t). cbn. repeat split; try lia; assumption.
Qed.

Lemma combine_in_nth {A B} (a : list A) (b : list B) t x y :
  nth_error a t = Some x -> nth_error b t = Some y -> In (x, y) (combine a b).
Proof.
  revert b t. induction a as [|a0 a IH]; intros [|b0 b] [|t] Ha Hb; cbn in *; try discriminate.
  - inversion Ha; inversion Hb; subst. left. reflexivity.
  - right. eapply IH; eassumption.
Qed.


Lemma Forall2_map_r {A B C} (P : A -> C -> Prop) (f : B -> C) l1 l2 :
  Forall2 P l1 (map f l2) <-> Forall2 (fun a b => P a (f b)) l1 l2.
Proof.
  revert l1. induction l2 as [|b l2 IH]; intros l1; cbn [map].
  - split; intros H; inversion H; constructor.
  - split; intros H; inversion H; subst; constructor; try assumption; apply IH; assumption.
Qed.

Lemma Forall2_map_l_self {B C} (Q : C -> B -> Prop) (g : B -> C) l :
  (forall b, In b l -> Q (g b) b) -> Forall2 Q (map g l) l.
Proof.
  induction l as [|b l IH]; intros H; cbn [map]; constructor.
  - apply H. left. reflexivity.
  - apply IH. intros b' Hb. apply H. right. exact Hb.
Qed.

Lemma combine_nodup_r {A B} (a : list A) (b : list B) x1 x2 y :
  NoDup b -> In (x1, y) (combine a b) -> In (x2, y) (combine a b) -> x1 = x2.
Proof.
  intros ND H1 H2. destruct (in_combine_nth _ _ _ _ H1) as [t1 [_ [L1 [A1 B1]]]].
  destruct (in_combine_nth _ _ _ _ H2) as [t2 [_ [L2 [A2 B2]]]].
  assert (t1 = t2) by (eapply (proj1 (NoDup_nth_error b) ND); [exact L1|congruence]). subst.
  congruence.
Qed.

Lemma combine_map_self {A B} (f : A -> B) l x y : In (x, y) (combine l (map f l)) -> y = f x.
Proof.
  induction l as [|a l IH]; cbn; intros H; [destruct H|]. destruct H as [H|H]; [inversion H; reflexivity|apply IH; exact H].
Qed.

Lemma pairs_map {A B} (f : A -> B) l : pairs (map f l) = map (fun p => (f (fst p), f (snd p))) (pairs l).
Proof.
  unfold pairs. destruct l as [|a l]; [reflexivity|]. cbn [map tl]. revert a.
  induction l as [|b l IH]; intros a; [reflexivity|]. cbn [map combine fst snd]. f_equal. apply IH.
Qed.

Lemma pairs_in {A} (l : list A) a b : In (a, b) (pairs l) -> In a l /\ In b l.
Proof.
  unfold pairs. intros H. split; [eapply in_combine_l; exact H|].
  apply in_combine_r in H. destruct l; [destruct H|right; exact H].
Qed.

Lemma map_seq_nth {A} (f : nat -> A) n j d : j < n -> nth j (map f (seq 0 n)) d = f j.
Proof.
  intros H. rewrite (nth_indep _ d (f 0)) by (rewrite map_length, seq_length; exact H).
  rewrite (map_nth f (seq 0 n) 0 j). rewrite seq_nth by exact H. reflexivity.
Qed.

Lemma cart_map_spec {A B} (f : B -> list A) ks cp :
  In cp (cart (map f ks)) <-> Forall2 (fun x k => In x (f k)) cp ks.
Proof. rewrite cart_spec. apply (Forall2_map_r (fun x l => In x l) f). Qed.

Lemma Forall2_impl' {A B} (P Q : A -> B -> Prop) l1 l2 :
  (forall a b, P a b -> Q a b) -> Forall2 P l1 l2 -> Forall2 Q l1 l2.
Proof. intros H F. induction F; constructor; auto. Qed.

Section Generator.
Context {K : Type} {KO : Ops K} {KD : DivOps K}.
Variables rr cc : nat -> nat -> K.
Variables atol rtol : K.

Notation ir ref := (fun k => indices_of k ref).
Definition assoc_of (ref : list nat) (ks : list nat) (cp : list (list nat)) : list (nat * nat) :=
  concat (map (fun kg : list nat * list nat => combine (fst kg) (snd kg)) (combine (map (fun k => indices_of k ref) ks) cp)).

Lemma assoc_entry (Q : list nat -> nat -> Prop) ref ks cp j v :
  Forall2 Q cp ks -> In (j, v) (assoc_of ref ks cp) ->
  exists t k pm, nth_error ks t = Some k /\ nth_error cp t = Some pm /\ Q pm k /\ In (j, v) (combine (indices_of k ref) pm).
Proof.
  unfold assoc_of. intros F. induction F as [|pm k cp ks Hp F IH]; cbn; intros H; [destruct H|].
  apply in_app_or in H. destruct H as [H|H].
  - exists 0, k, pm. cbn. auto.
  - destruct (IH H) as [t [k' [pm' [A [B [C D]]]]]]. exists (S t), k', pm'. cbn. auto.
Qed.

Lemma assoc_has (Q : list nat -> nat -> Prop) ref ks cp t k pm j v :
  Forall2 Q cp ks -> nth_error ks t = Some k -> nth_error cp t = Some pm ->
  In (j, v) (combine (indices_of k ref) pm) -> In (j, v) (assoc_of ref ks cp).
Proof.
  unfold assoc_of. intros F. revert t. induction F as [|pm0 k0 cp ks Hp F IH]; intros t Hk Hpm H; [destruct t; discriminate|].
  cbn. apply in_or_app. destruct t; cbn in Hk, Hpm.
  - inversion Hk; inversion Hpm; subst. left. exact H.
  - right. eapply IH; eassumption.
Qed.

Lemma Forall2_nth_r {A B} (Q : A -> B -> Prop) l1 l2 t b :
  Forall2 Q l1 l2 -> nth_error l2 t = Some b -> exists a, nth_error l1 t = Some a /\ Q a b.
Proof.
  intros F. revert t. induction F as [|a0 b0 l1 l2 H F IH]; intros t Hb; [destruct t; discriminate|].
  destruct t; cbn in *; [inversion Hb; subst; eauto|apply IH; exact Hb].
Qed.

(** every candidate ordering is a permutation of 0..n-1 that maps each reference atom to a concern atom
    with the same label *)
Theorem candidates_are_label_preserving_permutations ref cur L :
  plausible_orderings rr cc atol rtol ref cur = Ok L ->
  forall ord, In ord L ->
    length ord = length ref /\ NoDup ord /\
    forall j, j < length ref -> nth j ord O < length cur /\ nth (nth j ord O) cur O = nth j ref O.
Proof.
  unfold plausible_orderings. destruct (same_multiset ref cur) eqn:SM; [|discriminate]. cbn [negb].
  intros HL. injection HL as <-. intros ord Hord.
  destruct (same_multiset_spec _ _ SM) as [Hlen Hcnt].
  apply in_map_iff in Hord. destruct Hord as [cp [<- Hcp]].
  unfold connect in Hcp. rewrite map_map in Hcp. cbn [fst snd] in Hcp.
  apply cart_map_spec in Hcp.
  set (ks := dedup ref) in *.
  assert (F : Forall2 (fun pm k => Permutation pm (indices_of k cur)) cp ks).
  { eapply Forall2_impl'; [|exact Hcp]. intros pm k H. unfold filter_permutative in H. apply filter_In in H.
    apply perms_spec. exact (proj1 H). }
  unfold assemble, connect. rewrite !map_map. cbn [fst].
  fold (assoc_of ref ks cp). set (assoc := assoc_of ref ks cp).
  (* the entry looked up for j *)
  assert (Entry : forall j, j < length ref ->
            exists t pm, nth_error ks t = Some (nth j ref O) /\ nth_error cp t = Some pm /\
                         Permutation pm (indices_of (nth j ref O) cur) /\
                         In (j, alookup j assoc) (combine (indices_of (nth j ref O) ref) pm)).
  { intros j Hj. set (k := nth j ref O).
    assert (Hk : In k ks) by (apply dedup_in; apply nth_In; exact Hj).
    destruct (In_nth_error _ _ Hk) as [t Ht]. destruct (Forall2_nth_r _ _ _ _ _ F Ht) as [pm [Hpm Pp]].
    assert (Hin : In j (indices_of k ref)) by (apply indices_of_in; split; [exact Hj|reflexivity]).
    destruct (In_nth_error _ _ Hin) as [u Hu].
    assert (Lpm : length pm = length (indices_of k ref)).
    { rewrite (Permutation_length Pp), !indices_of_length. symmetry. apply Hcnt. apply nth_In. exact Hj. }
    assert (Hu' : u < length pm) by (rewrite Lpm; apply nth_error_Some; rewrite Hu; discriminate).
    destruct (nth_error pm u) as [v|] eqn:Ev; [|apply nth_error_None in Ev; lia].
    assert (Hex : In (j, v) assoc) by (eapply assoc_has; try eassumption; eapply combine_in_nth; eassumption).
    pose proof (alookup_in _ _ _ Hex) as Hal.
    destruct (assoc_entry _ _ _ _ _ _ F Hal) as [t' [k' [pm' [A [B [C D]]]]]].
    assert (Ek : k' = k).
    { apply in_combine_l in D. apply indices_of_in in D. symmetry. exact (proj2 D). }
    subst k'. exists t', pm'. auto. }
  split; [rewrite map_length, seq_length; reflexivity|].
  assert (Nth : forall j, j < length ref -> nth j (map (fun i => alookup i assoc) (seq 0 (length ref))) O = alookup j assoc).
  { intros j Hj. exact (map_seq_nth (fun i => alookup i assoc) _ j O Hj). }
  split.
  - apply (proj2 (NoDup_nth _ O)). rewrite map_length, seq_length. intros j1 j2 H1 H2 E.
    rewrite !Nth in E by assumption.
    destruct (Entry j1 H1) as [t1 [pm1 [A1 [B1 [P1 D1]]]]]. destruct (Entry j2 H2) as [t2 [pm2 [A2 [B2 [P2 D2]]]]].
    assert (L1 : nth (alookup j1 assoc) cur O = nth j1 ref O).
    { apply in_combine_r in D1. eapply Permutation_in in D1; [|exact P1]. apply indices_of_in in D1. tauto. }
    assert (L2 : nth (alookup j2 assoc) cur O = nth j2 ref O).
    { apply in_combine_r in D2. eapply Permutation_in in D2; [|exact P2]. apply indices_of_in in D2. tauto. }
    assert (Ek : nth j1 ref O = nth j2 ref O) by congruence.
    rewrite Ek in *.
    assert (t1 = t2).
    { eapply (proj1 (NoDup_nth_error ks) (dedup_nodup ref)); [apply nth_error_Some; rewrite A1; discriminate|congruence]. }
    subst t2. assert (pm1 = pm2) by congruence. subst pm2.
    rewrite E in D1. eapply combine_nodup_r; [|exact D1|exact D2].
    eapply Permutation_NoDup; [apply Permutation_sym; exact P1|apply indices_of_nodup].
  - intros j Hj. rewrite Nth by exact Hj. destruct (Entry j Hj) as [t [pm [A [B [P D]]]]].
    apply in_combine_r in D. eapply Permutation_in in D; [|exact P]. apply indices_of_in in D. exact D.
Qed.

(** ---- the true ordering of a shuffled rigid copy is a candidate ---- *)
Hypothesis close_refl : forall x : K, kleb (kabs (ksub x x)) (kadd atol (kmul rtol (kabs x))) = true.

Lemma allclose1_refl l : allclose1 atol rtol l l = true.
Proof. induction l as [|x l IH]; cbn [allclose1]; [reflexivity|]. rewrite close_refl, IH. reflexivity. Qed.

Theorem true_ordering_is_a_candidate ref cur L (o : list nat) :
  plausible_orderings rr cc atol rtol ref cur = Ok L ->
  length o = length ref -> NoDup o ->
  (forall j, j < length ref -> nth j o O < length cur /\ nth (nth j o O) cur O = nth j ref O) ->   (* same labels *)
  (forall a b, a < length ref -> b < length ref -> cc (nth a o O) (nth b o O) = rr a b) ->          (* same distances *)
  In o L.
Proof.
  unfold plausible_orderings. destruct (same_multiset ref cur) eqn:SM; [|discriminate]. cbn [negb].
  intros HL Lo NDo Hlab Hdist. injection HL as <-.
  destruct (same_multiset_spec _ _ SM) as [Hlen Hcnt].
  set (ks := dedup ref).
  set (g := fun k => map (fun j => nth j o O) (indices_of k ref)).
  apply in_map_iff. exists (map g ks). split.
  - (* assembling the per-class pieces gives o back *)
    unfold assemble, connect. rewrite !map_map. cbn [fst]. fold ks. fold (assoc_of ref ks (map g ks)).
    set (assoc := assoc_of ref ks (map g ks)).
    assert (F : Forall2 (fun pm k => pm = g k) (map g ks) ks) by (apply Forall2_map_l_self; reflexivity).
    apply nth_ext_eq with (d := O); [rewrite map_length, seq_length; lia|].
    rewrite map_length, seq_length. intros j Hj.
    rewrite (map_seq_nth (fun i => alookup i assoc) _ j O Hj).
    apply alookup_unique.
    + set (k := nth j ref O).
      assert (Hk : In k ks) by (apply dedup_in; apply nth_In; exact Hj).
      destruct (In_nth_error _ _ Hk) as [t Ht].
      eapply (assoc_has _ ref ks (map g ks) t k (g k)); [exact F|exact Ht|rewrite nth_error_map, Ht; reflexivity|].
      assert (Hin : In j (indices_of k ref)) by (apply indices_of_in; split; [exact Hj|reflexivity]).
      destruct (In_nth_error _ _ Hin) as [u Hu].
      eapply combine_in_nth; [exact Hu|]. unfold g. rewrite nth_error_map, Hu. reflexivity.
    + intros w Hw. destruct (assoc_entry _ _ _ _ _ _ F Hw) as [t [k [pm [A [B [-> D]]]]]].
      unfold g in D. apply combine_map_self in D. exact D.
  - (* each piece passes the filter of its class *)
    unfold connect. rewrite map_map. cbn [fst snd]. apply cart_map_spec. fold ks.
    apply Forall2_map_l_self. intros k Hk. apply (proj1 (dedup_in k ref)) in Hk.
    unfold filter_permutative. apply filter_In. split.
    + apply perms_spec. unfold g. apply NoDup_Permutation_bis.
      * (* injective on indices *)
        assert (NDi := indices_of_nodup k ref).
        assert (Hlt : forall j, In j (indices_of k ref) -> j < length ref) by (intros j Hj; apply indices_of_in in Hj; tauto).
        induction (indices_of k ref) as [|a l IH]; cbn [map]; constructor.
        -- intros H. apply in_map_iff in H. destruct H as [b [E Hb]].
           inversion NDi as [|? ? Hnot ?]; subst. apply Hnot.
           assert (a = b); [|subst; exact Hb].
           symmetry. eapply (proj1 (NoDup_nth o O) NDo); [rewrite Lo; apply Hlt; right; exact Hb|rewrite Lo; apply Hlt; left; reflexivity|exact E].
        -- inversion NDi; subst. apply IH; [assumption|]. intros j Hj. apply Hlt. right. exact Hj.
      * rewrite map_length, !indices_of_length. rewrite (Hcnt k Hk). lia.
      * intros v Hv. apply in_map_iff in Hv. destruct Hv as [j [<- Hj]]. apply indices_of_in in Hj. destruct Hj as [Hj Ej].
        apply indices_of_in. destruct (Hlab j Hj) as [A B]. split; [exact A|congruence].
    + unfold g. rewrite pairs_map, map_map. cbn [fst snd].
      replace (map (fun x : nat * nat => cc (nth (fst x) o O) (nth (snd x) o O)) (pairs (indices_of k ref)))
        with (map (fun p : nat * nat => rr (fst p) (snd p)) (pairs (indices_of k ref))); [apply allclose1_refl|].
      apply map_ext_in. intros [a b] Hab. apply pairs_in in Hab. destruct Hab as [Ha Hb].
      apply indices_of_in in Ha. apply indices_of_in in Hb. cbn [fst snd]. symmetry. apply Hdist; tauto.
Qed.
End Generator.
