(** C18 — the single/many wrapping of measure_coordinates and the default_connectivity post-processing of guess_connectivity
    (Gen/GeoGlue.v: measure_wrap_gen, measure_coordinates_entry_gen, attach_default_gen, translated from the statements around the
    loops). *)
From Coq Require Import List Bool ZArith.
Require Import QV.Common.Outcome QV.Common.Geo3 QV.Common.Geo3Np QV.Common.Geo3Glue QV.Gen.Dihedral QV.Model.Geometry QV.Gen.GeoGlue.
Import ListNotations.

(** a single measurement [m] (non-empty list of indices) returns the bare value of that measurement: exactly what the row of the
    list form computes ([measure1]), not wrapped in a list; errors pass through *)
Lemma measure_wrap_single (K : Fops) coords (dg : option bool) (m : list Z) : m <> [] ->
  measure_coordinates_entry_gen K coords (MOne m) dg
  = obind (measure1 K coords (match dg with Some d => d | None => measure_coordinates_degrees_default end) m) (fun v => Ok (ROne v)).
Proof.
  intro H. destruct m as [|a m]; [contradiction|].
  unfold measure_coordinates_entry_gen, measure_wrap_gen, measure_coordinates_call, kw_or, measure, measure_many, measure1.
  cbn [nth_error omap]. destruct (measure_one _ _ _ _ _ _ _ (a :: m)); reflexivity.
Qed.

(** a list of measurements returns the list of their values; the empty list raises IndexError (measurements[0]) *)
Lemma measure_wrap_many (K : Fops) coords (dg : option bool) (ms : list (list Z)) :
  measure_coordinates_entry_gen K coords (MMany ms) dg
  = obind (measure K coords (match dg with Some d => d | None => measure_coordinates_degrees_default end) ms) (fun r => Ok (RMany r)).
Proof.
  unfold measure_coordinates_entry_gen, measure_wrap_gen, measure_coordinates_call, kw_or.
  destruct ms; reflexivity.
Qed.

Lemma measure_wrap_empty (K : Fops) coords (dg : option bool) :
  measure_coordinates_entry_gen K coords (MMany []) dg = Err PyIndexError
  /\ measure_coordinates_entry_gen K coords (MOne []) dg = Err PyIndexError.
Proof. split; reflexivity. Qed.

(** attaching default_connectivity never adds, drops, reorders or alters a bond; the third component is the value on every bond when
    it is truthy, and absent otherwise (None, 0, 0.0, "" are falsy in Python: then the pairs are returned as they are) *)
Lemma attach_default_pairs {B} (truthy : B -> bool) dc con :
  map (fun t => (fst (fst t), snd (fst t))) (attach_default_gen truthy dc con) = con
  /\ forall t, In t (attach_default_gen truthy dc con) ->
       snd t = match dc with Some v => if truthy v then Some v else None | None => None end.
Proof.
  unfold attach_default_gen. split.
  - destruct dc as [v|]; [destruct (truthy v)|]; rewrite map_map; cbn [fst snd];
      (rewrite <- (map_id con) at 2; apply map_ext; intros [i j]; reflexivity).
  - intros t. destruct dc as [v|]; [destruct (truthy v)|]; rewrite in_map_iff; intros [x [E _]]; subst t; reflexivity.
Qed.
