(** Proofs about Model/Radii.v (C17). *)
From Coq Require Import ZArith NArith QArith Qabs List String Ascii Bool Lia.
Require Import QV.Common.Outcome QV.Common.PyAscii.
Require Import QV.Gen.PTable QV.Gen.Radii QV.Model.PeriodicTable QV.Model.Radii.
Require Import QV.Proofs.PeriodicTableF1 QV.Proofs.PeriodicTable.
Import ListNotations.
Open Scope Z_scope.

Opaque pt_Z pt_E pt_name pt_EE pt_EA pt_A pt_mass pt_mass_str.

(* ------------------------------------------------------------------------------------------ *)
(** * generic facts about the dictionaries *)

Lemma alist_get_in {V} k : forall (l : list (string * V)) acc v,
  alist_get k l acc = Some v -> In (k, v) l \/ acc = Some v.
Proof.
  induction l as [|[k' v'] r IH]; intros acc v H; simpl in H; [now right|].
  apply IH in H. destruct H as [H|H]; [left; now right|].
  destruct (String.eqb_spec k k') as [->|N]; [left; left; now inversion H|now right].
Qed.

Lemma tbl_mem_key t k : tbl_mem t k = true -> In k (map fst t).
Proof.
  unfold tbl_mem, tbl_get. destruct (alist_get k t None) as [e|] eqn:E; [|discriminate].
  intros _. apply alist_get_in in E. destruct E as [E|E]; [|discriminate].
  apply in_map_iff. exists (k, e). split; [reflexivity|exact E].
Qed.

(** a table whose element-symbol keys denote themselves: looking a key up through the periodic table
    gives the same key, or the key is not an atom name at all (C_sp3, ...) *)
Definition keys_self (t : list (string * entry)) : bool :=
  forallb (fun k => match to_E (PStr k) false with Ok e => String.eqb e k | Err _ => true end) (map fst t).

Lemma cov_keys_self : keys_self cov_table = true.
Proof. vm_cast_no_check (@eq_refl bool true). Qed.
Lemma vdw_keys_self : keys_self vdw_table = true.
Proof. vm_cast_no_check (@eq_refl bool true). Qed.

(** the identifier used for the lookup is the element symbol of the atom, whatever name was given *)
Lemma ident_by_element t x e : keys_self t = true -> to_E x false = Ok e -> ident t x = Ok e.
Proof.
  intros K H. destruct x as [z|s]; [exact H|].
  unfold ident. destruct (tbl_mem t s) eqn:M; [|exact H].
  apply tbl_mem_key in M. unfold keys_self in K. rewrite forallb_forall in K. specialize (K _ M).
  rewrite H in K. apply String.eqb_eq in K. now subst.
Qed.

Lemma get_by_element {M} t x e (missing : option M) rt f :
  keys_self t = true -> to_E x false = Ok e -> get t x missing rt f = get t (PStr e) missing rt f.
Proof.
  intros K H. unfold get. rewrite (ident_by_element t x e K H).
  assert (HE : ident t (PStr e) = Ok e).
  { unfold ident. destruct (tbl_mem t e); [reflexivity|].
    (* to_E of an element symbol that to_E itself produced *)
    unfold to_E, resolve in H |- *.
    destruct (resolve_eliso x) as [k|]; cbn [obind] in H; [|discriminate].
    unfold strict_filter in H; cbn [andb obind] in H. unfold key_E in H.
    destruct (eliso2el k) as [e'|] eqn:E'; cbn [getk] in H; [|discriminate]. inversion H; subst e'.
    (* e is a value of the _EE column; every such value resolves to itself with E = itself *)
    assert (V : In e pt_EE).
    { unfold eliso2el in E'. apply (sdict_sound pt_EA pt_EE) in E'. now apply in_combine_r in E'. }
    pose proof (proj1 (forallb_forall _ _)
                  (ltac:(vm_cast_no_check (@eq_refl bool true)) :
                     forallb (fun e => outcome_eqb String.eqb (to_E (PStr e) false) (Ok e)) pt_EE = true) _ V) as S.
    apply (outcome_eqb_ok _ string_eqb_true) in S. exact S. }
  rewrite HE. reflexivity.
Qed.

Lemma ident_closed t x k : ident t x = Err k -> k = NotAnElement.
Proof.
  destruct x as [z|s]; unfold ident.
  - intro H. pose proof (fails_closed (PInt z) false) as C. destruct C as [_ [_ [C _]]]. rewrite H in C. exact C.
  - destruct (tbl_mem t s); [discriminate|].
    intro H. pose proof (fails_closed (PStr s) false) as C. destruct C as [_ [_ [C _]]]. rewrite H in C. exact C.
Qed.

(* ------------------------------------------------------------------------------------------ *)
(** * alias forms of every element row *)

Lemma elements_own_E : forallb (fun e => outcome_eqb String.eqb (key_E e) (Ok e)) pt_E = true.
Proof. vm_cast_no_check (@eq_refl bool true). Qed.

Lemma alias_to_E z e n s :
  In (z, e, n) elem_rows ->
  same_mod_case s (str_of_Z z) \/ same_mod_case s e \/ same_mod_case s n ->
  to_E (PInt z) false = Ok e /\ to_E (PStr s) false = Ok e.
Proof.
  intros H C. destruct (alias_invariance z e n s false H C) as [R1 [R2 _]].
  destruct (row_alias _ _ _ H) as [_ [_ [_ [_ I]]]].
  pose proof (proj1 (forallb_forall _ _) elements_own_E _ I) as S.
  apply (outcome_eqb_ok _ string_eqb_true) in S.
  unfold to_E. rewrite R1, R2. cbn [obind]. split; exact S.
Qed.

(* ------------------------------------------------------------------------------------------ *)
(** * the tables: every source row has its own entry; aliases are the largest variant *)

Definition row_entry_ok (t : list (string * entry)) (units : string) (r : string * string * string) : bool :=
  let '(l, v, c) := r in
  match tbl_get t l, dec_of_string v with
  | Some e, Some d => entry_eqb e {| en_label := l; en_units := units; en_data := Some d; en_comment := c |}
  | _, _ => false
  end.

Lemma cov_rows_own_entry : forallb (row_entry_ok cov_table cov_units) cov_rows = true.
Proof. vm_compute. reflexivity. Qed.
Lemma vdw_rows_own_entry :
  forallb (row_entry_ok vdw_table vdw_units) (map (fun r => (fst r, snd r, EmptyString)) vdw_rows) = true.
Proof. vm_compute. reflexivity. Qed.

Lemma entry_eqb_true a b : entry_eqb a b = true -> a = b.
Proof.
  destruct a as [l1 u1 d1 c1], b as [l2 u2 d2 c2]. unfold entry_eqb; simpl.
  rewrite !andb_true_iff, !String.eqb_eq. intros [[[-> ->] D] ->].
  f_equal. destruct d1 as [x|], d2 as [y|]; simpl in D; try discriminate; [|reflexivity].
  apply pair_eqb_true in D. now subst.
Qed.

Lemma row_own_entry t units rows l v c :
  forallb (row_entry_ok t units) rows = true -> In (l, v, c) rows ->
  exists d, dec_of_string v = Some d /\
            tbl_get t l = Some {| en_label := l; en_units := units; en_data := Some d; en_comment := c |}.
Proof.
  intros A H. rewrite forallb_forall in A. specialize (A _ H). unfold row_entry_ok in A.
  destruct (tbl_get t l) as [e|]; [|discriminate]. destruct (dec_of_string v) as [d|]; [|discriminate].
  apply entry_eqb_true in A. subst e. exists d; split; reflexivity.
Qed.

(** ident of an exact table key is that key (special labels are taken literally) *)
Lemma ident_of_key t k : tbl_mem t k = true -> ident t (PStr k) = Ok k.
Proof. intro M. unfold ident. now rewrite M. Qed.

Fixpoint prefixb (p s : string) : bool :=
  match p, s with
  | EmptyString, _ => true
  | String a p', String b s' => Ascii.eqb a b && prefixb p' s'
  | _, _ => false
  end.

Definition alias_ok (a : string * string * string * string) : bool :=
  let '(idn, u, src, c) := a in
  match tbl_get cov_table (capitalize idn), tbl_get cov_table src with
  | Some e, Some es =>
      match en_data e, en_data es with
      | Some d, Some ds =>
          pair_eqb d ds && String.eqb (en_label e) idn && String.eqb (en_units e) u &&
          String.eqb (capitalize idn) idn && str_mem idn pt_E &&
          (* largest of the variants  idn_xxx *)
          forallb (fun r => let '(l, v, _) := r in
                            negb (prefixb (idn ++ "_") l) ||
                            match dec_of_string v with Some dv => dec_le dv d | None => false end) cov_rows &&
          (* and there is at least one variant *)
          existsb (fun r => let '(l, _, _) := r in prefixb (idn ++ "_") l) cov_rows
      | _, _ => false
      end
  | _, _ => false
  end.

Lemma all_aliases_ok : forallb alias_ok cov_aliases = true.
Proof. vm_compute. reflexivity. Qed.

Lemma alias_largest idn u src c :
  In (idn, u, src, c) cov_aliases ->
  exists e es d,
    In idn pt_E /\
    tbl_get cov_table idn = Some e /\ tbl_get cov_table src = Some es /\
    en_data e = Some d /\ en_data es = Some d /\ en_label e = idn /\ en_units e = u /\
    forall l v c', In (l, v, c') cov_rows -> prefixb (idn ++ "_") l = true ->
                   exists dv, dec_of_string v = Some dv /\ dec_le dv d = true.
Proof.
  intro H. pose proof (proj1 (forallb_forall _ _) all_aliases_ok _ H) as A. unfold alias_ok in A.
  destruct (tbl_get cov_table (capitalize idn)) as [e|] eqn:E1; [|discriminate].
  destruct (tbl_get cov_table src) as [es|] eqn:E2; [|discriminate].
  destruct (en_data e) as [d|] eqn:D1; [|discriminate].
  destruct (en_data es) as [ds|] eqn:D2; [|discriminate].
  rewrite !andb_true_iff in A. destruct A as [[[[[[A1 A2] A3] A4] A5] A6] _].
  apply pair_eqb_true in A1. subst ds. apply String.eqb_eq in A2, A3, A4. apply str_mem_In in A5.
  rewrite A4 in E1.
  exists e, es, d. repeat split; try assumption.
  intros l v c' I P. rewrite forallb_forall in A6. specialize (A6 _ I). cbn beta iota in A6.
  rewrite P in A6. cbn [negb orb] in A6.
  destruct (dec_of_string v) as [dv|]; [|discriminate]. exists dv; split; [reflexivity|exact A6].
Qed.

(** all tabulated radii are in the native unit of their table *)
Lemma all_units_native :
  forallb (fun kv => String.eqb (en_units (snd kv)) cov_units) cov_table &&
  forallb (fun kv => String.eqb (en_units (snd kv)) vdw_units) vdw_table = true.
Proof. vm_compute. reflexivity. Qed.

(* ------------------------------------------------------------------------------------------ *)
(** * units *)

Lemma radius_value_spec t x f v :
  radius_value t x f = Ok v ->
  exists id e d, ident t x = Ok id /\ tbl_get t id = Some e /\ en_data e = Some d /\
                 v = (f (en_units e) * dec_Q d)%Q.
Proof.
  unfold radius_value, get. destruct (ident t x) as [id|k] eqn:I; cbn [obind]; [|discriminate].
  destruct (tbl_get t id) as [e|] eqn:E; [|discriminate]. cbn.
  destruct (en_data e) as [d|] eqn:D; [|discriminate].
  intro H. inversion H. exists id, e, d. repeat split; try assumption; reflexivity.
Qed.

Lemma radius_native t x f v :
  radius_value t x f = Ok v -> (forall u, f u == 1)%Q ->
  exists id e d, ident t x = Ok id /\ tbl_get t id = Some e /\ en_data e = Some d /\ (v == dec_Q d)%Q.
Proof.
  intros H F. destruct (radius_value_spec _ _ _ _ H) as [id [e [d [H1 [H2 [H3 H4]]]]]].
  exists id, e, d. repeat split; try assumption. subst v. rewrite F. ring.
Qed.

Lemma radius_linear t x f a v :
  radius_value t x f = Ok v ->
  exists v', radius_value t x (fun u => a * f u)%Q = Ok v' /\ (v' == a * v)%Q.
Proof.
  intro H. destruct (radius_value_spec _ _ _ _ H) as [id [e [d [H1 [H2 [H3 H4]]]]]].
  unfold radius_value, get. rewrite H1. cbn [obind]. rewrite H2. cbn. rewrite H3.
  eexists; split; [reflexivity|]. subst v. ring.
Qed.

(** the Datum form is the table entry itself: native unit, Decimal of the source string *)
Lemma datum_form {M} t x (missing : option M) f e :
  get t x missing true f = Ok (RDatum e) -> exists id, ident t x = Ok id /\ tbl_get t id = Some e.
Proof.
  unfold get. destruct (ident t x) as [id|k] eqn:I; cbn [obind]; [|discriminate].
  destruct (tbl_get t id) as [e'|] eqn:E.
  - intro H. inversion H; subst. exists id; split; [reflexivity|exact E].
  - destruct missing; discriminate.
Qed.

(* ------------------------------------------------------------------------------------------ *)
(** * the missing-data contract *)

Lemma missing_contract {M} t x (missing : option M) rt f :
  match ident t x with
  | Err k => k = NotAnElement /\ get t x missing rt f = Err NotAnElement
  | Ok id =>
      match tbl_get t id with
      | None => get t x missing rt f =
                match missing, rt with Some m, false => Ok (RMissing m) | _, _ => Err DataUnavailable end
      | Some e => (forall m, get t x missing rt f <> Ok (RMissing m)) /\
                  get t x missing rt f <> Err DataUnavailable /\ get t x missing rt f <> Err NotAnElement
      end
  end.
Proof.
  destruct (ident t x) as [id|k] eqn:I.
  - unfold get. rewrite I. cbn [obind]. destruct (tbl_get t id) as [e|]; [|reflexivity].
    destruct rt; [repeat split; try intro m; discriminate|].
    destruct (en_data e); repeat split; try intro m; discriminate.
  - pose proof (ident_closed _ _ _ I) as K. subst k. split; [reflexivity|].
    unfold get. rewrite I. reflexivity.
Qed.

Lemma get_closed {M} t x (missing : option M) rt f k :
  (forall kv, In kv t -> en_data (snd kv) <> None) ->
  get t x missing rt f = Err k -> k = NotAnElement \/ k = DataUnavailable.
Proof.
  intros D. unfold get. destruct (ident t x) as [id|k'] eqn:I; cbn [obind].
  - destruct (tbl_get t id) as [e|] eqn:E.
    + destruct rt; [discriminate|]. destruct (en_data e) eqn:DE; [discriminate|].
      exfalso. unfold tbl_get in E. apply alist_get_in in E. destruct E as [E|E]; [|discriminate].
      apply (D _ E). exact DE.
    + destruct missing, rt; intro H; inversion H; now right.
  - intro H; inversion H; subst. left. eapply ident_closed, I.
Qed.

Lemma tables_have_data :
  forallb (fun kv => match en_data (snd kv) with Some _ => true | None => false end) cov_table &&
  forallb (fun kv => match en_data (snd kv) with Some _ => true | None => false end) vdw_table = true.
Proof. vm_compute. reflexivity. Qed.

Lemma table_data t :
  forallb (fun kv : string * entry => match en_data (snd kv) with Some _ => true | None => false end) t = true ->
  forall kv, In kv t -> en_data (snd kv) <> None.
Proof.
  intros A kv I. rewrite forallb_forall in A. specialize (A _ I). destruct (en_data (snd kv)); [discriminate|discriminate].
Qed.
