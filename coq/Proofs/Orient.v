(** C16 — proofs about Model/Orient.v and the generated inertia tensor Gen/Inertia.v.
    Part 1 (this file): any field; ring/field + induction over the atom list; closed under the global context.
    Part 2 (Proofs/OrientR.v): the real numbers (phase convention, uniqueness of the frame). *)
From Coq Require Import List Bool ZArith Field Ring Lia.
Require Import QV.Common.Outcome QV.Common.Geo3 QV.Common.Geo3Facts QV.Common.Geo3Sum QV.Gen.Inertia QV.Model.Orient.
Import ListNotations.

Lemma mat3_ext {K : Fops} (a00 a01 a02 a10 a11 a12 a20 a21 a22 b00 b01 b02 b10 b11 b12 b20 b21 b22 : K) :
  a00 = b00 -> a01 = b01 -> a02 = b02 -> a10 = b10 -> a11 = b11 -> a12 = b12 -> a20 = b20 -> a21 = b21 -> a22 = b22 ->
  ((a00, a01, a02), (a10, a11, a12), (a20, a21, a22)) = (((b00, b01, b02), (b10, b11, b12), (b20, b21, b22)) : mat3 K).
Proof. intros; subst; reflexivity. Qed.

Section AnyField.
  Variable K : Fops.
  Hypothesis Kf : is_field K.
  Let Kf' : field_theory (f0 K) (f1 K) (fadd K) (fmul K) (fsub K) (fopp K) (fdiv K) (finv K) eq := Kf.
  Add Field KFO : Kf'.
  Local Notation "a + b" := (fadd K a b).
  Local Notation "a * b" := (fmul K a b).
  Local Notation "a - b" := (fsub K a b).
  Local Notation "- a" := (fopp K a).
  Local Notation "a / b" := (fdiv K a b).

  (** ** row vector times matrix *)
  Lemma vm_as_mv (x : vec3 K) (V : mat3 K) : vm x V = mv (mtrans V) x.
  Proof. dmat V; dvec x. vnormalize. apply vec3_eq; ring. Qed.

  Lemma vm_dot (V : mat3 K) (x y : vec3 K) : orthogonal (mtrans V) -> vdot (vm x V) (vm y V) = vdot x y.
  Proof. intro H. rewrite !vm_as_mv. apply (mv_dot K Kf). exact H. Qed.

  Lemma vm_sub (V : mat3 K) (x y : vec3 K) : vm (vsub x y) V = vsub (vm x V) (vm y V).
  Proof. dmat V; dvec x; dvec y. vnormalize. apply vec3_eq; ring. Qed.

  Lemma vm_zero (V : mat3 K) : vm (vzero K) V = vzero K.
  Proof. dmat V. vnormalize. apply vec3_eq; ring. Qed.

  Lemma vm_norm2 (V : mat3 K) (x : vec3 K) : orthogonal (mtrans V) -> norm2 (vm x V) = norm2 x.
  Proof. intro H. unfold norm2. apply vm_dot. exact H. Qed.

  (** ** signs *)
  Definition is_sign (s : K) : Prop := s = f1 K \/ s = - f1 K.
  Definition signs3 (s : vec3 K) : Prop := is_sign (vx s) /\ is_sign (vy s) /\ is_sign (vz s).

  Lemma is_sign_sq (s : K) : is_sign s -> s * s = f1 K.
  Proof. intros [-> | ->]; ring. Qed.

  Definition smat (s : vec3 K) : mat3 K := mdiag K (vx s) (vy s) (vz s).

  Lemma vzip_as_vm (s x : vec3 K) : vzip (fmul K) s x = vm x (smat s).
  Proof. dvec s; dvec x. unfold smat. vnormalize. apply vec3_eq; ring. Qed.

  Lemma smat_orth (s : vec3 K) : signs3 s -> orthogonal (smat s) /\ orthogonal (mtrans (smat s)).
  Proof.
    dvec s. intros [H0 [H1 H2]]. cbn in H0, H1, H2.
    pose proof (is_sign_sq _ H0) as E0. pose proof (is_sign_sq _ H1) as E1. pose proof (is_sign_sq _ H2) as E2.
    unfold smat. split; vnormalize; apply mat3_ext; ring_simplify; try reflexivity; try assumption;
      try (rewrite <- E0; ring); try (rewrite <- E1; ring); try (rewrite <- E2; ring).
  Qed.

  (** the phase loop returns signs *)
  Lemma axis_step_sign nz st v : is_sign (snd st) -> is_sign (snd (axis_step K nz st v)).
  Proof.
    intro H. unfold axis_step. destruct (fst st); [exact H|].
    destruct (fltb K (fabs v) nz); [exact H|]. cbn. destruct (fltb K v (f0 K)); [right | left]; reflexivity.
  Qed.

  Definition pstate_signs (st : pstate K) : Prop :=
    let '(a, b, c) := st in is_sign (snd a) /\ is_sign (snd b) /\ is_sign (snd c).

  Lemma phase_scan_signs nz rows st : pstate_signs st -> pstate_signs (phase_scan K nz rows st).
  Proof.
    revert st. induction rows as [|r tl IH]; intros st H; cbn; [exact H|].
    assert (H' : pstate_signs (row_step K nz st r)).
    { destruct st as [[a b] c]. destruct H as [Ha [Hb Hc]]. cbn. repeat split; apply axis_step_sign; assumption. }
    destruct (all_checked K (row_step K nz st r)); [exact H' | apply IH; exact H'].
  Qed.

  Lemma phase_signs_signs nz rows : signs3 (phase_signs K nz rows).
  Proof.
    unfold phase_signs. pose proof (phase_scan_signs nz rows (pstate0 K)) as H.
    destruct (phase_scan K nz rows (pstate0 K)) as [[a b] c]. apply H. cbn. repeat split; left; reflexivity.
  Qed.

  (** ** the result as one map over the atoms *)
  Definition place (c : vec3 K) (V : mat3 K) (s : vec3 K) (p : vec3 K) : vec3 K := vzip (fmul K) s (vm (vsub p c) V).

  Lemma combine_map_fst_snd {A B C} (f : A -> B) (g : A -> C) (l : list A) :
    combine (map f l) (map g l) = map (fun a => (f a, g a)) l.
  Proof. induction l; cbn; [reflexivity | rewrite IHl; reflexivity]. Qed.

  Lemma orient_atoms_shape eigh atoms r :
    orient_atoms K eigh atoms = Ok r ->
    exists c V s,
      c = centroid K atoms /\ V = snd (eigh (inertia_tensor K (centre K atoms))) /\ signs3 s
      /\ s = phase_signs K (noise K) (map fst (rotate K V (centre K atoms)))
      /\ r = map (fun a => (place c V s (fst a), snd a)) atoms
      /\ is_zero K (total_mass K atoms) = false.
  Proof.
    unfold orient_atoms. destruct (is_zero K (total_mass K atoms)) eqn:Z; [discriminate|].
    intro H. injection H as <-.
    set (c := centroid K atoms). set (V := snd (eigh (inertia_tensor K (centre K atoms)))).
    set (rot := rotate K V (centre K atoms)).
    exists c, V, (phase_signs K (noise K) (map fst rot)).
    repeat split; try apply phase_signs_signs.
    unfold with_masses, apply_phase, apply_signs, rot, rotate, centre, shift. fold c.
    rewrite !map_map. cbn [fst snd]. rewrite combine_map_fst_snd. reflexivity.
  Qed.

  (** ** T1: every pair distance is preserved *)
  Lemma place_isometry c V s p q :
    orthogonal (mtrans V) -> signs3 s ->
    norm2 (vsub (place c V s p) (place c V s q)) = norm2 (vsub p q).
  Proof.
    intros HV Hs. unfold place. rewrite !vzip_as_vm, <- !vm_sub.
    destruct (smat_orth s Hs) as [_ HS]. rewrite (vm_norm2 _ _ HS), (vm_norm2 _ _ HV).
    f_equal. dvec p; dvec q; dvec c. vnormalize. apply vec3_eq; ring.
  Qed.

  Theorem orient_isometry eigh atoms r :
    orient_atoms K eigh atoms = Ok r ->
    eigh_ok K (inertia_tensor K (centre K atoms)) (eigh (inertia_tensor K (centre K atoms))) ->
    exists f, r = map (fun a => (f (fst a), snd a)) atoms
              /\ forall p q, norm2 (vsub (f p) (f q)) = norm2 (vsub p q).
  Proof.
    intros H E. destruct (orient_atoms_shape _ _ _ H) as [c [V [s [Hc [HV [Hs [_ [Hr _]]]]]]]].
    exists (place c V s). split; [exact Hr|]. intros p q. apply place_isometry; [|exact Hs].
    unfold eigh_ok in E. rewrite HV. destruct (eigh (inertia_tensor K (centre K atoms))) as [lam W]. cbn. tauto.
  Qed.

  (** ** T2: the centre of mass is at the origin *)
  Lemma wsum_nil : wsum K [] = vzero K.
  Proof. reflexivity. Qed.

  Lemma wsum_cons (a : watom K) (l : list (watom K)) : wsum K (a :: l) = vadd (vscale (snd a) (fst a)) (wsum K l).
  Proof.
    destruct a as [[[x y] z] m]. unfold wsum. cbn [map fst snd]. rewrite !fsum_cons.
    vnormalize. reflexivity.
  Qed.

  Lemma total_mass_cons (a : watom K) (l : list (watom K)) : total_mass K (a :: l) = snd a + total_mass K l.
  Proof. reflexivity. Qed.

  Lemma wsum_vm (M : mat3 K) (l : list (watom K)) :
    wsum K (map (fun a => (vm (fst a) M, snd a)) l) = vm (wsum K l) M.
  Proof.
    induction l as [|a l IH].
    - cbn [map]. rewrite wsum_nil, vm_zero. reflexivity.
    - cbn [map]. rewrite !wsum_cons, IH. cbn [fst snd].
      destruct (wsum K l) as [[w0 w1] w2]. destruct a as [[[x y] z] m]. dmat M.
      vnormalize. apply vec3_eq; ring.
  Qed.

  Lemma wsum_shift (c : vec3 K) (l : list (watom K)) :
    wsum K (shift K c l) = vsub (wsum K l) (vscale (total_mass K l) c).
  Proof.
    unfold shift. induction l as [|a l IH].
    - cbn [map]. unfold wsum, total_mass, fsum. cbn [map fold_right]. dvec c. vnormalize. apply vec3_eq; ring.
    - cbn [map]. rewrite !wsum_cons, IH, total_mass_cons. cbn [fst snd].
      destruct (wsum K l) as [[w0 w1] w2]. set (T := total_mass K l). destruct a as [[[x y] z] m]. dvec c.
      vnormalize. apply vec3_eq; ring.
  Qed.

  Lemma wsum_centre (l : list (watom K)) : total_mass K l <> f0 K -> wsum K (centre K l) = vzero K.
  Proof.
    intro H. unfold centre. rewrite wsum_shift. unfold centroid.
    destruct (wsum K l) as [[w0 w1] w2]. set (M := total_mass K l) in *. vnormalize. apply vec3_eq; field; exact H.
  Qed.

  Lemma place_as_maps c V s (atoms : list (watom K)) :
    map (fun a => (place c V s (fst a), snd a)) atoms
    = map (fun a => (vm (fst a) (smat s), snd a)) (map (fun a => (vm (fst a) V, snd a)) (shift K c atoms)).
  Proof. unfold shift, place. rewrite !map_map. cbn [fst snd]. apply map_ext. intro a. rewrite vzip_as_vm. reflexivity. Qed.

  Theorem orient_com_at_origin eigh atoms r :
    orient_atoms K eigh atoms = Ok r -> total_mass K atoms <> f0 K -> wsum K r = vzero K.
  Proof.
    intros H M. destruct (orient_atoms_shape _ _ _ H) as [c [V [s [Hc [_ [_ [_ [Hr _]]]]]]]].
    rewrite Hr, place_as_maps, !wsum_vm, Hc. fold (centre K atoms). rewrite (wsum_centre _ M), !vm_zero. reflexivity.
  Qed.

  (** masses are carried along unchanged, in order *)
  Theorem orient_masses eigh atoms r : orient_atoms K eigh atoms = Ok r -> map snd r = map snd atoms.
  Proof.
    intros H. destruct (orient_atoms_shape _ _ _ H) as [c [V [s [_ [_ [_ [_ [Hr _]]]]]]]].
    rewrite Hr, map_map. reflexivity.
  Qed.

  (** ** T3: the generated inertia tensor transforms as  I(x V) = V^T I(x) V *)
  Lemma inertia_nil : inertia_tensor K [] = mzero K.
  Proof.
    unfold inertia_tensor, it_0_0, it_0_1, it_0_2, it_1_0, it_1_1, it_1_2, it_2_0, it_2_1, it_2_2, mzero, vzero, fsum.
    cbn. apply mat3_ext; ring.
  Qed.

  Lemma inertia_cons (a : watom K) (l : list (watom K)) :
    inertia_tensor K (a :: l) = madd (inertia_tensor K [a]) (inertia_tensor K l).
  Proof.
    unfold inertia_tensor, it_0_0, it_0_1, it_0_2, it_1_0, it_1_1, it_1_2, it_2_0, it_2_1, it_2_2, madd, vadd, vzip.
    cbn [map]. rewrite !fsum_cons, !fsum_nil. cbn [fofZ fofpos]. apply mat3_ext; ring.
  Qed.

  (* m (n2 G - y y^T) *)
  Definition gram_form (m n2 : K) (G : mat3 K) (y : vec3 K) : mat3 K :=
    let '((g00, g01, g02), (g10, g11, g12), (g20, g21, g22)) := G in
    let '(y0, y1, y2) := y in
    ((m * (n2 * g00 - y0 * y0), m * (n2 * g01 - y0 * y1), m * (n2 * g02 - y0 * y2)),
     (m * (n2 * g10 - y1 * y0), m * (n2 * g11 - y1 * y1), m * (n2 * g12 - y1 * y2)),
     (m * (n2 * g20 - y2 * y0), m * (n2 * g21 - y2 * y1), m * (n2 * g22 - y2 * y2))).

  Lemma inertia_one_gram (x : vec3 K) (m : K) : inertia_tensor K [(x, m)] = gram_form m (norm2 x) (mident K) x.
  Proof.
    dvec x. unfold inertia_tensor, it_0_0, it_0_1, it_0_2, it_1_0, it_1_1, it_1_2, it_2_0, it_2_1, it_2_2, gram_form, mident.
    cbn [map]. rewrite !fsum_cons, !fsum_nil. vnormalize. cbn [fofZ fofpos]. apply mat3_ext; ring.
  Qed.

  Lemma gram_conj (V : mat3 K) (x : vec3 K) (m : K) :
    mmul (mmul (mtrans V) (gram_form m (norm2 x) (mident K) x)) V
    = gram_form m (norm2 x) (mmul (mtrans V) V) (vm x V).
  Proof. dmat V; dvec x. unfold gram_form. vnormalize. apply mat3_ext; ring. Qed.

  Lemma inertia_one_rotate (V : mat3 K) (x : vec3 K) (m : K) :
    orthogonal V -> orthogonal (mtrans V) ->
    inertia_tensor K [(vm x V, m)] = mmul (mmul (mtrans V) (inertia_tensor K [(x, m)])) V.
  Proof.
    intros H1 H2. rewrite !inertia_one_gram, gram_conj. unfold orthogonal in H1. rewrite H1, (vm_norm2 _ _ H2). reflexivity.
  Qed.

  Lemma conj_madd (V A B : mat3 K) :
    mmul (mmul (mtrans V) (madd A B)) V = madd (mmul (mmul (mtrans V) A) V) (mmul (mmul (mtrans V) B) V).
  Proof. dmat V; dmat A; dmat B. unfold madd. vnormalize. apply mat3_ext; ring. Qed.

  Lemma conj_mzero (V : mat3 K) : mmul (mmul (mtrans V) (mzero K)) V = mzero K.
  Proof. dmat V. unfold mzero. vnormalize. apply mat3_ext; ring. Qed.

  Theorem inertia_transforms (V : mat3 K) (atoms : list (watom K)) :
    orthogonal V -> orthogonal (mtrans V) ->
    inertia_tensor K (rotate K V atoms) = mmul (mmul (mtrans V) (inertia_tensor K atoms)) V.
  Proof.
    intros H1 H2. unfold rotate. induction atoms as [|[x m] l IH].
    - cbn [map]. rewrite inertia_nil, conj_mzero. reflexivity.
    - cbn [map fst snd]. rewrite (inertia_cons (vm x V, m)), (inertia_cons (x, m) l), conj_madd, IH.
      rewrite (inertia_one_rotate V x m H1 H2). reflexivity.
  Qed.

  (** ** T4: after orientation the tensor is diag(lambda) *)
  Lemma mmul_assoc (A B C : mat3 K) : mmul (mmul A B) C = mmul A (mmul B C).
  Proof. dmat A; dmat B; dmat C. vnormalize. apply mat3_ext; ring. Qed.

  Lemma mmul_ident_l (A : mat3 K) : mmul (mident K) A = A.
  Proof. dmat A. vnormalize. apply mat3_ext; ring. Qed.

  Lemma diag_conj_signs (s : vec3 K) (l0 l1 l2 : K) :
    signs3 s -> mmul (mmul (mtrans (smat s)) (mdiag K l0 l1 l2)) (smat s) = mdiag K l0 l1 l2.
  Proof.
    dvec s. intros [H0 [H1 H2]]. cbn in H0, H1, H2.
    pose proof (is_sign_sq _ H0) as E0. pose proof (is_sign_sq _ H1) as E1. pose proof (is_sign_sq _ H2) as E2.
    unfold smat. vnormalize. apply mat3_ext; ring_simplify; try reflexivity.
    - replace (sx * sx * l0) with ((sx * sx) * l0) by ring. rewrite E0. ring.
    - replace (sy * sy * l1) with ((sy * sy) * l1) by ring. rewrite E1. ring.
    - replace (sz * sz * l2) with ((sz * sz) * l2) by ring. rewrite E2. ring.
  Qed.

  Theorem orient_inertia_diagonal eigh atoms r :
    orient_atoms K eigh atoms = Ok r ->
    eigh_ok K (inertia_tensor K (centre K atoms)) (eigh (inertia_tensor K (centre K atoms))) ->
    let lam := fst (eigh (inertia_tensor K (centre K atoms))) in
    inertia_tensor K r = mdiag K (vx lam) (vy lam) (vz lam)
    /\ fleb K (vx lam) (vy lam) = true /\ fleb K (vy lam) (vz lam) = true.
  Proof.
    intros H E lam. destruct (orient_atoms_shape _ _ _ H) as [c [V [s [Hc [HV [Hs [_ [Hr _]]]]]]]].
    unfold eigh_ok in E. subst lam. destruct (eigh (inertia_tensor K (centre K atoms))) as [lam W] eqn:EW.
    cbn [fst snd] in *. subst V. destruct E as [O1 [O2 [EV [A1 A2]]]].
    split; [|split; assumption].
    rewrite Hr, place_as_maps. destruct (smat_orth s Hs) as [S1 S2].
    fold (rotate K W (shift K c atoms)). fold (rotate K (smat s) (rotate K W (shift K c atoms))).
    rewrite (inertia_transforms (smat s) _ S1 S2), (inertia_transforms W _ O1 O2).
    rewrite Hc. fold (centre K atoms).
    rewrite (mmul_assoc (mtrans W)), EV, <- (mmul_assoc (mtrans W)).
    unfold orthogonal in O1. rewrite O1, mmul_ident_l. apply diag_conj_signs. exact Hs.
  Qed.

  (** ** more matrix algebra, moved copies (used by Proofs/OrientUniq.v) *)
  Lemma mmul_ident_r (A : mat3 K) : mmul A (mident K) = A.
  Proof. dmat A. vnormalize. apply mat3_ext; ring. Qed.

  Lemma mtrans_mmul (A B : mat3 K) : mtrans (mmul A B) = mmul (mtrans B) (mtrans A).
  Proof. dmat A; dmat B. vnormalize. apply mat3_ext; ring. Qed.

  Lemma mtrans_invol (A : mat3 K) : mtrans (mtrans A) = A.
  Proof. dmat A. reflexivity. Qed.

  Lemma vm_mmul (x : vec3 K) (A B : mat3 K) : vm (vm x A) B = vm x (mmul A B).
  Proof. dmat A; dmat B; dvec x. vnormalize. apply vec3_eq; ring. Qed.

  Definition move_atoms (Rm : mat3 K) (tau : vec3 K) (atoms : list (watom K)) : list (watom K) :=
    map (fun a => (vadd (vm (fst a) Rm) tau, snd a)) atoms.

  Lemma total_mass_move Rm tau atoms : total_mass K (move_atoms Rm tau atoms) = total_mass K atoms.
  Proof. unfold total_mass, move_atoms. rewrite map_map. reflexivity. Qed.

  Lemma wsum_move Rm tau atoms :
    wsum K (move_atoms Rm tau atoms) = vadd (vm (wsum K atoms) Rm) (vscale (total_mass K atoms) tau).
  Proof.
    unfold move_atoms. induction atoms as [|a l IH].
    - cbn [map]. unfold wsum, total_mass, fsum. cbn [map fold_right]. dmat Rm; dvec tau. vnormalize. apply vec3_eq; ring.
    - cbn [map]. rewrite !wsum_cons, IH, total_mass_cons. cbn [fst snd].
      destruct (wsum K l) as [[w0 w1] w2]. set (T := total_mass K l). destruct a as [[[x y] z] m]. dmat Rm; dvec tau.
      vnormalize. apply vec3_eq; ring.
  Qed.

  Lemma centre_move Rm tau atoms :
    total_mass K atoms <> f0 K -> centre K (move_atoms Rm tau atoms) = rotate K Rm (centre K atoms).
  Proof.
    intro M. unfold centre, centroid. rewrite wsum_move, total_mass_move.
    unfold shift, rotate, move_atoms. rewrite !map_map. cbn [fst snd]. apply map_ext. intros [[[x y] z] m].
    destruct (wsum K atoms) as [[w0 w1] w2]. set (T := total_mass K atoms) in *. dmat Rm; dvec tau.
    vnormalize. f_equal. apply vec3_eq; field; exact M.
  Qed.

  Lemma place_as_move (c : vec3 K) (V : mat3 K) (s p : vec3 K) :
    place c V s p = vadd (vm p (mmul V (smat s))) (vneg (vm c (mmul V (smat s)))).
  Proof.
    unfold place. rewrite vzip_as_vm, vm_mmul, vm_sub.
    destruct (vm p (mmul V (smat s))) as [[a0 a1] a2]. destruct (vm c (mmul V (smat s))) as [[b0 b1] b2].
    vnormalize. apply vec3_eq; ring.
  Qed.

  Lemma smat_diag_comm (s : vec3 K) (a b c : K) : mmul (mdiag K a b c) (smat s) = mmul (smat s) (mdiag K a b c).
  Proof. dvec s. unfold smat. vnormalize. apply mat3_ext; ring. Qed.
End AnyField.
