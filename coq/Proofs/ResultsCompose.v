(** C20 — the composition protocol filter ; WavefunctionProperties validation is idempotent, and whole
    AtomicResult re-validation is the identity outside the native_files-default case. *)
From Coq Require Import ZArith List String Bool Lia.
Require Import QV.Common.Outcome QV.Gen.KeepLists QV.Model.Results QV.Proofs.Results QV.Proofs.ResultsValidate.
Import ListNotations.
Local Open Scope string_scope.
Local Open Scope list_scope.
Local Open Scope Z_scope.

(** two values the filter cannot tell apart: arrays may differ (reshaped), everything else is equal *)
Definition kindsim (x y : wval) : Prop :=
  match x, y with
  | WArr _, WArr _ => True
  | WArr _, _ | _, WArr _ => False
  | _, _ => x = y
  end.
Definition sim (a b : wdict) : Prop :=
  forall k, match dget k a, dget k b with
            | None, None => True
            | Some x, Some y => kindsim x y
            | _, _ => False
            end.

Lemma kindsim_truthy x y : kindsim x y -> truthy x = truthy y.
Proof. destruct x, y; simpl; intro H; try contradiction; try reflexivity; inversion H; reflexivity. Qed.
Lemma kindsim_none x y : kindsim x y -> (x = WNone <-> y = WNone).
Proof. destruct x, y; simpl; intro H; try contradiction; split; intro E; try discriminate; try reflexivity; inversion H. Qed.
Lemma kindsim_str x y s : kindsim x y -> (x = WStr s <-> y = WStr s).
Proof. destruct x, y; simpl; intro H; try contradiction; split; intro E; try discriminate; try (inversion H; subst; assumption); congruence. Qed.

Lemma sim_is_some a b k : sim a b -> is_some (dget k a) = is_some (dget k b).
Proof. intro S. specialize (S k). destruct (dget k a), (dget k b); simpl; try reflexivity; contradiction. Qed.

Lemma sim_after_restricted a b r r' : sim a b -> truthy r = truthy r' -> sim (after_restricted r a) (after_restricted r' b).
Proof.
  intros S T k. rewrite !dget_after_restricted, <- T. destruct (truthy r && ends_with "_b" k); [exact I|apply S].
Qed.

Lemma sim_ptr a b rk : sim a b ->
  match dget rk a, dget rk b with
  | Some (WStr x), Some (WStr y) => x = y
  | Some (WStr _), _ | _, Some (WStr _) => False
  | _, _ => True
  end.
Proof.
  intro S. specialize (S rk). destruct (dget rk a) as [[]|], (dget rk b) as [[]|]; simpl in *; try exact I; try contradiction;
    try discriminate; try (inversion S; reflexivity).
Qed.

Lemma sim_selb l a b k : sim a b -> selb l a k = selb l b k.
Proof.
  intro S. unfold selb. induction l as [|rk r IH]; simpl; [reflexivity|]. rewrite IH. f_equal.
  pose proof (sim_ptr a b rk S) as P.
  destruct (dget rk a) as [[]|], (dget rk b) as [[]|]; try reflexivity; try contradiction. subst. reflexivity.
Qed.

Lemma sim_keptb l a b k : sim a b -> keptb l a k = keptb l b k.
Proof. intro S. unfold keptb. rewrite (sim_selb l a b k S), (sim_is_some a b "basis" S). reflexivity. Qed.

Lemma sim_ptr_ok a b rk : sim a b -> ptr_ok a rk -> ptr_ok b rk.
Proof.
  intros S Ha. unfold ptr_ok in *. pose proof (S rk) as Sk.
  destruct (dget rk a) as [x|]; destruct (dget rk b) as [y|]; simpl in Sk; try contradiction; [|exact I].
  destruct x, y; simpl in Sk; try contradiction; try discriminate; try exact I.
  inversion Sk; subst. intro E. apply Ha. pose proof (sim_is_some a b s0 S) as I2. rewrite E in I2.
  destruct (dget s0 a); [discriminate|reflexivity].
Qed.

(** the filter run on a similar dictionary succeeds and keeps the same keys, with that dictionary's own values *)
Lemma filter_sim act a b a' :
  sim a b -> wfn_filter act a = Ok (Some a') ->
  exists b', wfn_filter act b = Ok (Some b') /\ forall k, dget k b' = if is_some (dget k a') then dget k b else None.
Proof.
  intros S H. destruct act as [| |l].
  - destruct (wfn_filter_keep_all _ _ H) as [r [Hr [Hn [Ea Sa]]]].
    pose proof (S "restricted") as Sr. rewrite Hr in Sr. destruct (dget "restricted" b) as [r'|] eqn:Hr'; [|contradiction].
    assert (Hn' : r' <> WNone) by (intro E; apply Hn; apply (kindsim_none _ _ Sr); exact E).
    exists (after_restricted r' b). split.
    + unfold wfn_filter. rewrite Hr'. fold (after_restricted r' b). destruct r'; try congruence; reflexivity.
    + intro k. rewrite dget_after_restricted, Sa, <- (kindsim_truthy _ _ Sr).
      destruct (truthy r && ends_with "_b" k); [reflexivity|].
      pose proof (S k) as Sk. destruct (dget k a), (dget k b); simpl; try reflexivity; contradiction.
  - apply wfn_filter_keep_nothing in H. discriminate.
  - destruct (wfn_filter_keep_list _ _ _ H) as [r [Hr [Hn [Sa _]]]]. cbv zeta in Sa.
    pose proof (S "restricted") as Sr. rewrite Hr in Sr. destruct (dget "restricted" b) as [r'|] eqn:Hr'; [|contradiction].
    assert (Hn' : r' <> WNone) by (intro E; apply Hn; apply (kindsim_none _ _ Sr); exact E).
    assert (S1 : sim (after_restricted r a) (after_restricted r' b)) by (apply sim_after_restricted; [exact S|apply kindsim_truthy; exact Sr]).
    assert (OKa : forall rk, In rk l -> ptr_ok (after_restricted r a) rk).
    { apply (proj1 (wfn_filter_succeeds_iff l a r Hr Hn)). eexists; exact H. }
    destruct (proj2 (wfn_filter_succeeds_iff l b r' Hr' Hn') (fun rk Hin => sim_ptr_ok _ _ rk S1 (OKa rk Hin))) as [b' Hb].
    exists b'. split; [exact Hb|].
    destruct (wfn_filter_keep_list _ _ _ Hb) as [r2 [Hr2 [_ [Sb _]]]]. cbv zeta in Sb.
    rewrite Hr' in Hr2. inversion Hr2; subst r2. intro k. rewrite Sb, Sa, <- (sim_keptb l _ _ k S1).
    destruct (keptb l (after_restricted r a) k); [|reflexivity].
    pose proof (S1 k) as Sk. rewrite !dget_after_restricted in *. rewrite <- (kindsim_truthy _ _ Sr) in *.
    destruct (truthy r && ends_with "_b" k); [reflexivity|].
    destruct (dget k a), (dget k b); simpl; try reflexivity; contradiction.
Qed.

(** ** validation relates input and output by [sim] *)
Ltac fin_case := eexists; split; [reflexivity|split; [|reflexivity]]; simpl; auto.

Lemma wfn_field_cases w vals name kind vals1 :
  wfn_field w (vals, false) (name, kind) = (vals1, false) ->
  (dget name w = None /\ vals1 = vals)
  \/ (exists v v', dget name w = Some v /\ kindsim v v' /\ vals1 = vals ++ [(name, v')]).
Proof.
  unfold wfn_field. destruct (dget name w) as [v|].
  - intro H. right. exists v.
    destruct kind as [| |[t|] decl|]; destruct v as [|b|n|s|a]; try (inversion H; fail);
      try (inversion H; fin_case; fail).
    + revert H. destruct (if uses_nbf t then dget "basis" vals else Some (WBasis 0)) as [[| | nbf | |]|]; intro H;
        try (inversion H; fin_case; fail).
      destruct (reshape a (inst nbf 0 t)); inversion H. fin_case.
    + revert H. destruct (dget s vals) as [[]|]; intro H; inversion H; fin_case.
  - intro H. left. destruct kind; inversion H; auto.
Qed.

Lemma run_sim w : forall fields vals final,
  run fields w (vals, false) = (final, false) ->
  nodupb (keys fields) = true ->
  (forall k, smem k (keys fields) = true -> dget k vals = None) ->
  forall k, smem k (keys fields) = true ->
  match dget k w, dget k final with None, None => True | Some x, Some y => kindsim x y | _, _ => False end.
Proof.
  induction fields as [|[name kind] r IH]; intros vals final H ND Hfresh k Hk; [discriminate|].
  simpl in ND. apply andb_true_iff in ND. destruct ND as [Hnot ND]. apply negb_true_iff in Hnot.
  unfold run in *. cbn [fold_left] in H.
  destruct (wfn_field w (vals, false) (name, kind)) as [vals1 b1] eqn:E1.
  assert (b1 = false).
  { destruct b1; [|reflexivity]. pose proof (run_bad_sticky r w vals1) as S. unfold run in S. rewrite H in S. discriminate. }
  subst b1.
  assert (Hname : dget name vals = None) by (apply Hfresh; simpl; rewrite String.eqb_refl; reflexivity).
  unfold keys in Hk. cbn [map smem existsb fst] in Hk. apply orb_true_iff in Hk. destruct Hk as [Hk|Hk].
  - apply String.eqb_eq in Hk. subst k.
    rewrite (run_dget_other r w _ _ _ _ H name Hnot).
    destruct (wfn_field_cases _ _ _ _ _ E1) as [[En Ev]|[v [v' [En [Ks Ev]]]]]; subst vals1; rewrite En.
    + rewrite Hname. exact I.
    + rewrite dget_app_single, Hname, String.eqb_refl. exact Ks.
  - apply (IH vals1 final H ND); [|exact Hk].
    intros k' Hk'. destruct (wfn_field_cases _ _ _ _ _ E1) as [[En Ev]|[v [v' [En [Ks Ev]]]]]; subst vals1.
    + apply Hfresh. simpl. rewrite Hk'. apply orb_true_r.
    + rewrite dget_app_single. rewrite (Hfresh k') by (simpl; rewrite Hk'; apply orb_true_r).
      destruct (String.eqb_spec k' name); [subst; congruence|reflexivity].
Qed.

Lemma validate_sim w w' : wfn_validate w = Ok w' -> sim w w'.
Proof.
  unfold wfn_validate. destruct (forallb (fun k => smem k (keys wfn_fields)) (keys w)) eqn:Hkeys; cbn [negb]; [|discriminate].
  destruct (fold_left (wfn_field w) wfn_fields ([], false)) as [values bad] eqn:R. destruct bad; [discriminate|].
  intro H. inversion H; subst values. clear H. intro k.
  destruct (smem k (keys wfn_fields)) eqn:Hk.
  - apply (run_sim w wfn_fields [] w' R wfn_fields_nodup (fun _ _ => eq_refl) k Hk).
  - assert (dget k w = None).
    { destruct (dget k w) eqn:E; [|reflexivity]. exfalso.
      assert (Hin : In k (keys w)) by (apply dget_In; congruence).
      rewrite forallb_forall in Hkeys. rewrite (Hkeys k Hin) in Hk. discriminate. }
    assert (dget k w' = None).
    { destruct (dget k w') eqn:E; [|reflexivity]. exfalso.
      assert (Hin : In k (keys w')) by (apply dget_In; congruence).
      destruct (run_keys _ _ _ _ _ _ R k Hin) as [[]|Hf]. apply smem_In in Hf. congruence. }
    rewrite H, H0. exact I.
Qed.

(** validation only reads the dictionary through [dget] *)
Lemma wfn_field_ext x y st f : (forall k, dget k x = dget k y) -> wfn_field x st f = wfn_field y st f.
Proof. intro E. destruct st as [vals bad], f as [name kind]. unfold wfn_field. rewrite (E name). reflexivity. Qed.

Lemma validate_ext x y r : (forall k, dget k x = dget k y) -> wfn_validate y = Ok r -> wfn_validate x = Ok r.
Proof.
  intro E. unfold wfn_validate.
  destruct (forallb (fun k => smem k (keys wfn_fields)) (keys y)) eqn:Hy; cbn [negb]; [|discriminate].
  assert (Hx : forallb (fun k => smem k (keys wfn_fields)) (keys x) = true).
  { apply forallb_forall. intros k Hin. apply dget_In in Hin. rewrite E in Hin. apply dget_In in Hin.
    rewrite forallb_forall in Hy. apply Hy. exact Hin. }
  rewrite Hx. cbn [negb].
  replace (fold_left (wfn_field x) wfn_fields ([], false)) with (fold_left (wfn_field y) wfn_fields ([], false)); [auto|].
  generalize (@nil (string * wval), false). generalize wfn_fields as fl.
  induction fl as [|f r0 IH]; intro st; cbn [fold_left]; [reflexivity|].
  rewrite (wfn_field_ext x y st f E). apply IH.
Qed.

(** ** the composition *)
Theorem wfn_stage_idempotent p w w' :
  wfn_stage (Some p) (Some w) = Ok (Some w') -> wfn_stage (Some p) (Some w') = Ok (Some w').
Proof.
  unfold wfn_stage. destruct (wfn_pre (Some p) (Some w)) as [[f|]|] eqn:Ef; simpl; try discriminate.
  destruct (wfn_validate f) as [v|] eqn:Ev; simpl; [|discriminate]. intro H. inversion H; subst v. clear H.
  unfold wfn_pre in *. destruct (assoc String.eqb p wfn_keep_table) as [act|]; [|discriminate].
  (* the filter is idempotent on its own output f, and w' is similar to f *)
  destruct (wfn_filter_idempotent act w f Ef) as [f2 [Ef2 Eq2]].
  pose proof (validate_sim f w' Ev) as S.
  destruct (filter_sim act f w' f2 S Ef2) as [b' [Hb Sb]].
  rewrite Hb. simpl.
  assert (Ext : forall k, dget k b' = dget k w').
  { intro k. rewrite Sb, Eq2. pose proof (S k) as Sk. destruct (dget k f), (dget k w'); simpl; try reflexivity; contradiction. }
  rewrite (validate_ext b' w' w' Ext (wfn_validate_idempotent f w' Ev)). reflexivity.
Qed.

(** * the whole AtomicResult *)
Lemma coerce_rr_idem r : coerce_rr (coerce_rr r) = coerce_rr r.
Proof. destruct r as [z|[d s]]; [reflexivity|]. simpl. destruct d as [|z [|z2 d']]; try reflexivity. destruct s; reflexivity. Qed.

Lemma coerce_rr_shaped a : shp a <> [] -> coerce_rr (RArr a) = RArr a.
Proof. destruct a as [d s]. simpl. intro H. destruct d as [|z [|z2 d']]; try reflexivity. destruct s; [contradiction|reflexivity]. Qed.

Lemma return_result_idempotent driver r r' : return_result driver r = Ok r' -> return_result driver r' = Ok r'.
Proof.
  destruct (String.eqb_spec driver "gradient") as [->|Ng].
  - rewrite !rr_gradient. cbv zeta. set (a := to_arr (coerce_rr r)).
    destruct (zlen (dat a) mod 3 =? 0) eqn:E; [|discriminate]. intro H. inversion H; subst r'. clear H.
    rewrite coerce_rr_shaped by discriminate. simpl to_arr. simpl dat. rewrite E. reflexivity.
  - destruct (String.eqb_spec driver "hessian") as [->|Nh].
    + intro H. apply rr_hessian in H. destruct H as [n [Hn [Hsq ->]]].
      apply rr_hessian. exists n. rewrite coerce_rr_shaped by discriminate. simpl. auto.
    + rewrite !(rr_other driver) by assumption. intro H. inversion H. rewrite coerce_rr_idem. reflexivity.
Qed.

Definition refeed (i : ar_in) (o : ar_out) : ar_in :=
  {| a_driver := a_driver i; a_pw := a_pw i; a_pstdout := a_pstdout i; a_pnative := a_pnative i;
     a_wfn := o_wfn o; a_rr := o_rr o; a_stdout := o_stdout o; a_native := Some (o_native o) |}.

Definition native_policy (i : ar_in) : string := match a_pnative i with Some p => p | None => default_native_files end.

(** re-validating an accepted AtomicResult (its own fields fed back) returns the same object, provided native_files was
    supplied, or was absent under a policy that maps the empty dict to itself (all, none: not `input`) *)
Theorem atomic_revalidation i o :
  atomic_result i = Ok o ->
  (a_native i <> None \/ native_protocol (native_policy i) [] = Ok []) ->
  atomic_result (refeed i o) = Ok o.
Proof.
  unfold atomic_result. intros H Hnat.
  assert (Pok : protocols_ok (refeed i o) = protocols_ok i) by reflexivity.
  rewrite Pok. simpl a_driver. simpl a_wfn. simpl a_rr. simpl a_stdout. simpl a_native. simpl a_pw. simpl a_pstdout. simpl a_pnative.
  fold (native_policy i) in *.
  destruct (protocols_ok i) eqn:P.
  - (* protocols valid *)
    set (pw := match a_pw i with Some p => p | None => default_wavefunction end) in *.
    set (ps := match a_pstdout i with Some b => b | None => default_stdout end) in *.
    destruct (wfn_stage (Some pw) (a_wfn i)) as [wv|] eqn:Ew;
      destruct (return_result (a_driver i) (a_rr i)) as [rv|] eqn:Er;
      destruct (stdout_protocol (Some ps) (a_stdout i)) as [sv|] eqn:Es;
      destruct (a_native i) as [nv|] eqn:En.
    all: try (destruct (native_protocol (native_policy i) nv) as [nn|[]] eqn:Enn); try discriminate.
    + (* native supplied *)
      inversion H; subst o; clear H. cbn [o_wfn o_rr o_stdout o_native].
      rewrite (return_result_idempotent _ _ _ Er), (stdout_idempotent _ _ _ Es), (native_idempotent _ _ _ Enn).
      destruct wv as [w'|].
      * destruct (a_wfn i) as [w0|] eqn:Ea; [|simpl in Ew; discriminate].
        rewrite (wfn_stage_idempotent pw w0 w' Ew). reflexivity.
      * reflexivity.
    + (* native absent *)
      inversion H; subst o; clear H. cbn [o_wfn o_rr o_stdout o_native].
      destruct Hnat as [Hc|Hn0]; [congruence|]. rewrite Hn0.
      rewrite (return_result_idempotent _ _ _ Er), (stdout_idempotent _ _ _ Es).
      destruct wv as [w'|].
      * destruct (a_wfn i) as [w0|] eqn:Ea; [|simpl in Ew; discriminate].
        rewrite (wfn_stage_idempotent pw w0 w' Ew). reflexivity.
      * reflexivity.
  - (* protocols invalid: never accepted *)
    exfalso. revert H. destruct (a_native i); [discriminate|].
    destruct (wfn_stage None (a_wfn i)); destruct (return_result (a_driver i) (a_rr i)); destruct (stdout_protocol None (a_stdout i));
      discriminate.
Qed.
