(** C12 — the matrix qcelemental.util.random_rotation_matrix builds (Gen/Rand3dRot.v, regenerated from the source)
    is a proper rotation for all random numbers and every deflection in [0, 1]. *)
From Coq Require Import Reals Lra Lia Nsatz.
Require Import QV.Common.AlignAlg QV.Common.AlignAlgFacts QV.Common.AlignAlgQuat QV.Common.AlignAlgR QV.Model.Rand3dRot QV.Gen.Rand3dRot
               QV.Proofs.KabschR QV.Proofs.KabschSurj.
Local Open Scope R_scope.

(* algebraic core: only sin^2 + cos^2 = 1 (twice) and sqrt(z)^2 + sqrt(2 - z)^2 = 2 are used *)
Theorem gen_rand_rot_proper_alg (sp cp r s2 st ct : R) :
  sp * sp + cp * cp = 1 -> r * r + s2 * s2 = 2 -> st * st + ct * ct = 1 ->
  proper (gen_rand_rot sp cp r s2 st ct).
Proof.
  intros H1 H2 H3. unfold proper. split.
  - cbv [gen_rand_rot mmul mtrans msub3 outer mid mk3 ment mrow comp vmat mcol dot3 vsub vscale]. runfold.
    repeat match goal with |- pair _ _ = pair _ _ => apply f_equal2 end; nsatz.
  - cbv [gen_rand_rot mmul msub3 outer mid ment mrow comp vmat mcol dot3 vsub vscale det3]. runfold. nsatz.
Qed.

(** theta, phi arbitrary (the code takes (x1 - 1/2) * deflection * 2 pi and x2 * 2 pi); z = x3 * 2 * deflection *)
Theorem random_rotation_is_proper (theta phi z : R) :
  0 <= z <= 2 ->
  proper (gen_rand_rot (sin phi) (cos phi) (sqrt z) (sqrt (2 - z)) (sin theta) (cos theta)).
Proof.
  intros Hz. apply gen_rand_rot_proper_alg.
  - pose proof (sin2_cos2 phi) as H. unfold Rsqr in H. exact H.
  - rewrite !sqrt_sqrt by lra. ring.
  - pose proof (sin2_cos2 theta) as H. unfold Rsqr in H. exact H.
Qed.

Lemma rand_rot_z_domain (x3 d : R) : 0 <= x3 <= 1 -> 0 <= d <= 1 -> 0 <= x3 * 2 * d <= 2.
Proof. intros [A B] [C D]. split; nra. Qed.

(** for deflection = 0 (no rotation requested: theta = 0, z = 0, phi = x2 * 2 pi arbitrary) the matrix is the identity *)
Theorem random_rotation_no_deflection (phi : R) :
  gen_rand_rot (sin phi) (cos phi) (sqrt 0) (sqrt (2 - 0)) (sin 0) (cos 0) = mid.
Proof.
  rewrite sin_0, cos_0, sqrt_0. replace (2 - 0) with 2 by ring.
  assert (H : sqrt 2 * sqrt 2 = 2) by (apply sqrt_sqrt; lra).
  cbv [gen_rand_rot mmul msub3 outer mid ment mrow comp vmat mcol dot3 vsub vscale]. runfold.
  repeat match goal with |- pair _ _ = pair _ _ => apply f_equal2 end; try ring; nsatz.
Qed.
