(** C16 — the code generated from the body of Molecule._orient_molecule_internal (Gen/OrientBody.v: eager,
    in-place phase loop, np.average / np.dot primitives) computes exactly what the hand model
    Model/Orient.v (deferred signs) computes.  Any field; closed under the global context. *)
From Coq Require Import List Bool ZArith Field Ring Lia.
Require Import QV.Common.Outcome QV.Common.Geo3 QV.Common.Geo3Facts QV.Common.Geo3Sum QV.Common.Geo3Loop.
Require Import QV.Gen.Inertia QV.Gen.OrientBody QV.Model.Orient QV.Proofs.Orient QV.Proofs.OrientR.
Import ListNotations.

Section Eq.
  Variable K : Fops.
  Hypothesis Kf : is_field K.
  Let Kf' : field_theory (f0 K) (f1 K) (fadd K) (fmul K) (fsub K) (fopp K) (fdiv K) (finv K) eq := Kf.
  Add Field KFE : Kf'.

  Section Cols.
    Variable small neg : K -> bool.
    Variable mult : K.

    Definition col_step (num : nat) (st : bool * list K) : bool * list K :=
      if fst st then st
      else let val := nth num (snd st) (f0 K) in
           if small val then st
           else if neg val then (true, map (fun u => fmul K u mult) (snd st)) else (true, snd st).

    Definition proj (a : axis) (st : chk3 * list (vec3 K)) : bool * list K := (getc (fst st) a, map (comp K a) (snd st)).

    Lemma comp_zero a : comp K a (vzero K) = f0 K.
    Proof. destruct a; reflexivity. Qed.

    Lemma getc_setc_same c a : getc (setc c a) a = true.
    Proof. destruct c as [[c0 c1] c2]; destruct a; reflexivity. Qed.

    Lemma getc_setc_other c a b : a <> b -> getc (setc c a) b = getc c b.
    Proof. destruct c as [[c0 c1] c2]; destruct a, b; intro H; try reflexivity; contradiction. Qed.

    Lemma comp_flip_same a m r : comp K a (flip K a m r) = fmul K (comp K a r) m.
    Proof. destruct r as [[x y] z]; destruct a; reflexivity. Qed.

    Lemma comp_flip_other a b m r : a <> b -> comp K b (flip K a m r) = comp K b r.
    Proof. destruct r as [[x y] z]; destruct a, b; intro H; try reflexivity; contradiction. Qed.

    Lemma proj_inner_same num a st : proj a (inner_step K small neg mult num a st) = col_step num (proj a st).
    Proof.
      destruct st as [c g]. unfold inner_step, col_step, proj. cbn [fst snd].
      destruct (getc c a) eqn:G; [cbn [fst snd]; rewrite G; reflexivity|].
      rewrite <- (comp_zero a), map_nth.
      destruct (small (comp K a (nth num g (vzero K)))); [cbn [fst snd]; rewrite G; reflexivity|].
      destruct (neg (comp K a (nth num g (vzero K)))); cbn [fst snd]; rewrite getc_setc_same; [|reflexivity].
      f_equal. rewrite !map_map. apply map_ext. intro r. apply comp_flip_same.
    Qed.

    Lemma proj_inner_other num a b st : a <> b -> proj b (inner_step K small neg mult num a st) = proj b st.
    Proof.
      intro H. destruct st as [c g]. unfold inner_step, proj. cbn [fst snd].
      destruct (getc c a); [reflexivity|].
      destruct (small (comp K a (nth num g (vzero K)))); [reflexivity|].
      destruct (neg (comp K a (nth num g (vzero K)))); cbn [fst snd]; rewrite (getc_setc_other c a b H); [|reflexivity].
      f_equal. rewrite map_map. apply map_ext. intro r. apply comp_flip_other. exact H.
    Qed.

    Lemma proj_row_iter num a st : proj a (row_iter K small neg mult num st) = col_step num (proj a st).
    Proof.
      unfold row_iter. destruct a.
      - rewrite proj_inner_other by discriminate. rewrite proj_inner_other by discriminate. apply proj_inner_same.
      - rewrite proj_inner_other by discriminate. rewrite proj_inner_same. rewrite proj_inner_other by discriminate. reflexivity.
      - rewrite proj_inner_same. rewrite proj_inner_other by discriminate. rewrite proj_inner_other by discriminate. reflexivity.
    Qed.

    Lemma col_step_false n col :
      col_step n (false, col)
      = let val := nth n col (f0 K) in
        if small val then (false, col) else if neg val then (true, map (fun u => fmul K u mult) col) else (true, col).
    Proof. reflexivity. Qed.

    Lemma col_step_done num st : fst st = true -> col_step num st = st.
    Proof. intro H. unfold col_step. rewrite H. reflexivity. Qed.

    Lemma fold_col_done nums st : fst st = true -> fold_left (fun s n => col_step n s) nums st = st.
    Proof. intro H. induction nums as [|n tl IH]; cbn [fold_left]; [reflexivity|]. rewrite col_step_done by exact H. exact IH. Qed.

    Lemma allc_getc c a : allc c = true -> getc c a = true.
    Proof.
      destruct c as [[c0 c1] c2]. cbn. intro H. apply andb_true_iff in H. destruct H as [H H2].
      apply andb_true_iff in H. destruct H as [H0 H1]. destruct a; assumption.
    Qed.

    (* the early exit changes nothing: each column sees its own loop over all atoms *)
    Lemma proj_outer nums a st :
      proj a (outer K small neg mult nums st) = fold_left (fun s n => col_step n s) nums (proj a st).
    Proof.
      revert st. induction nums as [|n tl IH]; intro st; cbn [outer fold_left]; [reflexivity|].
      rewrite <- proj_row_iter.
      destruct (allc (fst (row_iter K small neg mult n st))) eqn:E; [|apply IH].
      symmetry. apply fold_col_done. unfold proj. cbn [fst]. apply allc_getc. exact E.
    Qed.
  End Cols.

  Lemma axis_step_false nz v :
    axis_step K nz (false, f1 K) v
    = if fltb K (fabs v) nz then (false, f1 K) else (true, if fltb K v (f0 K) then fopp K (f1 K) else f1 K).
  Proof. reflexivity. Qed.

  (** one column: the eager loop multiplies the column by the sign the deferred scan records *)
  Section OneColumn.
    Variable nz : K.
    Local Notation small := (fun val : K => fltb K (py_abs K val) nz).
    Local Notation neg := (fun val : K => fltb K val (fofZ K 0)).
    Local Notation mult := (fofZ K (-1)).

    Lemma map_mul_one (l : list K) : map (fmul K (f1 K)) l = l.
    Proof. rewrite <- (map_id l) at 2. apply map_ext. intro u. ring. Qed.

    Lemma col_loop_sign (pre rest : list K) :
      (forall u, In u pre -> small u = true) ->
      snd (fold_left (fun s n => col_step small neg mult n s) (seq (length pre) (length rest)) (false, pre ++ rest))
      = map (fmul K (snd (fold_left (axis_step K nz) rest (false, f1 K)))) (pre ++ rest).
    Proof.
      revert pre. induction rest as [|v tl IH]; intros pre Hp.
      - cbn [length seq fold_left snd]. rewrite map_mul_one. reflexivity.
      - cbn [length seq fold_left].
        assert (Hn : nth (length pre) (pre ++ v :: tl) (f0 K) = v) by (rewrite app_nth2, Nat.sub_diag by lia; reflexivity).
        rewrite col_step_false, axis_step_false. cbv zeta beta. rewrite Hn. change (fabs v) with (py_abs K v).
        destruct (fltb K (py_abs K v) nz) eqn:Sm.
        + replace (pre ++ v :: tl) with ((pre ++ [v]) ++ tl) by (rewrite <- app_assoc; reflexivity).
          replace (S (length pre)) with (length (pre ++ [v])) by (rewrite app_length; cbn; lia).
          apply IH. intros u Hu. apply in_app_iff in Hu. destruct Hu as [Hu | [<- | []]]; [apply Hp; exact Hu | exact Sm].
        + change (fofZ K 0) with (f0 K).
          destruct (fltb K v (f0 K)).
          * rewrite fold_col_done by reflexivity. rewrite (fold_axis_checked K nz) by reflexivity. cbn [snd].
            apply map_ext. intro u. cbn [fofZ fofpos]. ring.
          * rewrite fold_col_done by reflexivity. rewrite (fold_axis_checked K nz) by reflexivity. cbn [snd].
            symmetry. apply map_mul_one.
    Qed.

    Lemma col_loop_axis_sign (col : list K) :
      snd (fold_left (fun s n => col_step small neg mult n s) (seq 0 (length col)) (false, col))
      = map (fmul K (axis_sign K nz col)) col.
    Proof. apply (col_loop_sign [] col). intros u []. Qed.
  End OneColumn.

  Lemma rows_eq_cols_gen (A B : list (vec3 K)) :
    map vx A = map vx B -> map vy A = map vy B -> map vz A = map vz B -> A = B.
  Proof.
    revert B. induction A as [|a A IH]; intros [|b B] Hx Hy Hz; cbn in *; try reflexivity; try discriminate.
    injection Hx as Hx0 Hx. injection Hy as Hy0 Hy. injection Hz as Hz0 Hz.
    rewrite (IH B Hx Hy Hz). f_equal. destruct a as [[a0 a1] a2], b as [[b0 b1] b2]. cbn in *. subst. reflexivity.
  Qed.

  Lemma apply_signs_cols (s : vec3 K) (rows : list (vec3 K)) :
    map vx (apply_signs K s rows) = map (fmul K (vx s)) (map vx rows)
    /\ map vy (apply_signs K s rows) = map (fmul K (vy s)) (map vy rows)
    /\ map vz (apply_signs K s rows) = map (fmul K (vz s)) (map vz rows).
  Proof.
    unfold apply_signs. rewrite !map_map. destruct s as [[s0 s1] s2].
    repeat split; apply map_ext; intro r; destruct r as [[x y] z]; reflexivity.
  Qed.

  (** the generated eager loop = the model's phase application *)
  Theorem eager_loop_is_apply_phase (nz : K) (g : list (vec3 K)) :
    eager_phase_loop K (fun val => fltb K (py_abs K val) nz) (fun val => fltb K val (fofZ K 0)) (fofZ K (-1)) g
    = apply_phase K nz g.
  Proof.
    unfold eager_phase_loop, apply_phase.
    set (small := fun val : K => fltb K (py_abs K val) nz). set (neg := fun val : K => fltb K val (fofZ K 0)).
    set (st := outer K small neg (fofZ K (-1)) (seq 0 (length g)) (false, false, false, g)).
    assert (P : forall a, map (comp K a) (snd st) = map (fmul K (axis_sign K nz (map (comp K a) g))) (map (comp K a) g)).
    { intro a. pose proof (proj_outer small neg (fofZ K (-1)) (seq 0 (length g)) a (false, false, false, g)) as E.
      fold st in E. apply (f_equal snd) in E. unfold proj at 1 in E. cbn [snd] in E. rewrite E.
      unfold proj. cbn [fst snd]. replace (getc (false, false, false) a) with false by (destruct a; reflexivity).
      rewrite <- (map_length (comp K a) g). apply col_loop_axis_sign. }
    destruct (apply_signs_cols (phase_signs K nz g) g) as [Cx [Cy Cz]].
    rewrite (phase_signs_axes K nz g) in *. cbn [vx vy vz fst snd] in Cx, Cy, Cz.
    apply rows_eq_cols_gen.
    - rewrite Cx. exact (P AX).
    - rewrite Cy. exact (P AY).
    - rewrite Cz. exact (P AZ).
  Qed.

  Lemma combine_fst_snd {A B} (l : list (A * B)) : combine (map fst l) (map snd l) = l.
  Proof. induction l as [|[a b] l IH]; cbn; [reflexivity | rewrite IH; reflexivity]. Qed.

  Lemma average_is_centroid (atoms : list (watom K)) :
    is_zero K (total_mass K atoms) = false ->
    np_average0 K (map fst atoms) (map snd atoms) = Ok (centroid K atoms).
  Proof.
    intro Z. unfold np_average0. unfold is_zero, total_mass in Z. rewrite Z. rewrite combine_fst_snd.
    unfold centroid, wsum, total_mass. cbn [vmap]. f_equal. apply vec3_eq; f_equal; apply fsum_map_ext; intro a; ring.
  Qed.

  Lemma average_zero (atoms : list (watom K)) :
    is_zero K (total_mass K atoms) = true -> np_average0 K (map fst atoms) (map snd atoms) = Err PyAssertion.
  Proof. intro Z. unfold np_average0. unfold is_zero, total_mass in Z. rewrite Z. reflexivity. Qed.

  (** the generated body = the hand model (geometry part) *)
  Theorem orient_gen_is_model (eigh : mat3 K -> vec3 K * mat3 K) (atoms : list (watom K)) :
    orient_internal_gen K eigh (map fst atoms) (map snd atoms)
    = obind (orient_atoms K eigh atoms) (fun r => Ok (map fst r)).
  Proof.
    unfold orient_internal_gen, orient_atoms. destruct (is_zero K (total_mass K atoms)) eqn:Z.
    - rewrite (average_zero atoms Z). reflexivity.
    - rewrite (average_is_centroid atoms Z). cbn [obind].
      assert (E1 : combine (np_isub_rows K (map fst atoms) (centroid K atoms)) (map snd atoms) = centre K atoms).
      { unfold np_isub_rows, centre, shift. rewrite map_map. rewrite combine_map_fst_snd. reflexivity. }
      rewrite E1.
      assert (E2 : np_dot_rows K (np_isub_rows K (map fst atoms) (centroid K atoms)) (snd (eigh (inertia_tensor K (centre K atoms))))
                   = map fst (rotate K (snd (eigh (inertia_tensor K (centre K atoms)))) (centre K atoms))).
      { unfold np_dot_rows, np_isub_rows, rotate, centre, shift. rewrite !map_map. reflexivity. }
      rewrite E2. rewrite eager_loop_is_apply_phase. f_equal.
      unfold with_masses. rewrite map_fst_combine_len; [reflexivity|].
      unfold apply_phase, apply_signs. rewrite !map_length. reflexivity.
  Qed.
End Eq.
