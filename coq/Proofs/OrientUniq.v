(** C16 — uniqueness of the oriented frame for distinct principal moments (real numbers):
    two copies of a molecule that differ by ANY orthogonal map and a translation are oriented to the
    same coordinates, up to the sign of those axes on which no coordinate reaches the phase threshold
    (there the two results may differ by a column sign, i.e. by less than twice the threshold).
    Orienting twice is the special case where the second copy is the first result. *)
From Coq Require Import Reals Lra Psatz List Bool ZArith.
Require Import QV.Common.Outcome QV.Common.Geo3 QV.Common.Geo3Facts QV.Common.Geo3Sum QV.Common.Geo3R
  QV.Gen.Inertia QV.Model.Orient QV.Proofs.Orient QV.Proofs.OrientR.
Import ListNotations.
Local Open Scope R_scope.

(** ** a diagonal matrix with distinct ascending entries commutes with an orthogonal Q into another
       ascending diagonal matrix only if Q is a diagonal sign matrix (and the diagonals agree) *)
Lemma sq1_sign (q : R) : q * q = 1 -> q = 1 \/ q = - (1).
Proof. intro H. assert (E : (q - 1) * (q + 1) = 0) by nra. apply Rmult_integral in E. destruct E; [left | right]; lra. Qed.

Lemma col_hits (a0 a1 a2 b q0 q1 q2 : R) :
  a0 * q0 = q0 * b -> a1 * q1 = q1 * b -> a2 * q2 = q2 * b -> q0 * q0 + q1 * q1 + q2 * q2 = 1 ->
  b = a0 \/ b = a1 \/ b = a2.
Proof.
  intros H0 H1 H2 N.
  destruct (Req_dec q0 0) as [Z0|N0].
  - destruct (Req_dec q1 0) as [Z1|N1].
    + destruct (Req_dec q2 0) as [Z2|N2]; [subst; lra|].
      right; right. assert (E : (a2 - b) * q2 = 0) by lra. apply Rmult_integral in E. destruct E; lra.
    + right; left. assert (E : (a1 - b) * q1 = 0) by lra. apply Rmult_integral in E. destruct E; lra.
  - left. assert (E : (a0 - b) * q0 = 0) by lra. apply Rmult_integral in E. destruct E; lra.
Qed.

Lemma off_zero (a b q : R) : a * q = q * b -> a <> b -> q = 0.
Proof. intros H N. assert (E : (a - b) * q = 0) by lra. apply Rmult_integral in E. destruct E; lra. Qed.

Lemma diag_commute (a0 a1 a2 b0 b1 b2 q00 q01 q02 q10 q11 q12 q20 q21 q22 : R) :
  a0 < a1 -> a1 < a2 -> b0 <= b1 -> b1 <= b2 ->
  a0 * q00 = q00 * b0 -> a0 * q01 = q01 * b1 -> a0 * q02 = q02 * b2 ->
  a1 * q10 = q10 * b0 -> a1 * q11 = q11 * b1 -> a1 * q12 = q12 * b2 ->
  a2 * q20 = q20 * b0 -> a2 * q21 = q21 * b1 -> a2 * q22 = q22 * b2 ->
  q00 * q00 + q10 * q10 + q20 * q20 = 1 -> q01 * q01 + q11 * q11 + q21 * q21 = 1 -> q02 * q02 + q12 * q12 + q22 * q22 = 1 ->
  q00 * q00 + q01 * q01 + q02 * q02 = 1 -> q10 * q10 + q11 * q11 + q12 * q12 = 1 -> q20 * q20 + q21 * q21 + q22 * q22 = 1 ->
  (b0 = a0 /\ b1 = a1 /\ b2 = a2)
  /\ (q01 = 0 /\ q02 = 0 /\ q10 = 0 /\ q12 = 0 /\ q20 = 0 /\ q21 = 0)
  /\ ((q00 = 1 \/ q00 = - (1)) /\ (q11 = 1 \/ q11 = - (1)) /\ (q22 = 1 \/ q22 = - (1))).
Proof.
  intros A01 A12 B01 B12 E00 E01 E02 E10 E11 E12 E20 E21 E22 C0 C1 C2 R0 R1 R2.
  (* every b_j is one of the a_i (columns), every a_i one of the b_j (rows) *)
  pose proof (col_hits a0 a1 a2 b0 q00 q10 q20 E00 E10 E20 C0) as HB0.
  pose proof (col_hits a0 a1 a2 b1 q01 q11 q21 E01 E11 E21 C1) as HB1.
  pose proof (col_hits a0 a1 a2 b2 q02 q12 q22 E02 E12 E22 C2) as HB2.
  assert (HA0 : a0 = b0 \/ a0 = b1 \/ a0 = b2).
  { apply (col_hits b0 b1 b2 a0 q00 q01 q02); lra. }
  assert (HA1 : a1 = b0 \/ a1 = b1 \/ a1 = b2).
  { apply (col_hits b0 b1 b2 a1 q10 q11 q12); lra. }
  assert (HA2 : a2 = b0 \/ a2 = b1 \/ a2 = b2).
  { apply (col_hits b0 b1 b2 a2 q20 q21 q22); lra. }
  assert (EB : b0 = a0 /\ b1 = a1 /\ b2 = a2).
  { assert (b0 = a0) by (destruct HB0 as [?|[?|?]], HA0 as [?|[?|?]]; lra).
    assert (b2 = a2) by (destruct HB2 as [?|[?|?]], HA2 as [?|[?|?]]; lra).
    assert (b1 = a1) by (destruct HB1 as [?|[?|?]], HA1 as [?|[?|?]]; lra).
    auto. }
  destruct EB as [-> [-> ->]].
  assert (Z01 : q01 = 0) by (apply (off_zero a0 a1); lra).
  assert (Z02 : q02 = 0) by (apply (off_zero a0 a2); lra).
  assert (Z10 : q10 = 0) by (apply (off_zero a1 a0); lra).
  assert (Z12 : q12 = 0) by (apply (off_zero a1 a2); lra).
  assert (Z20 : q20 = 0) by (apply (off_zero a2 a0); lra).
  assert (Z21 : q21 = 0) by (apply (off_zero a2 a1); lra).
  subst. repeat split; try reflexivity; apply sq1_sign; lra.
Qed.

(** ** matrix algebra over the reals (from the field lemmas) *)
Definition RKf := RK_field.

Lemma mmul_assoc_R (A B C : mat3 RK) : mmul (mmul A B) C = mmul A (mmul B C).
Proof. apply (mmul_assoc RK RKf). Qed.

Lemma mmul_ident_l_R (A : mat3 RK) : mmul (mident RK) A = A.
Proof. apply (mmul_ident_l RK RKf). Qed.

Lemma mmul_ident_r_R (A : mat3 RK) : mmul A (mident RK) = A.
Proof. apply (mmul_ident_r RK RKf). Qed.

Lemma mtrans_mmul_R (A B : mat3 RK) : mtrans (mmul A B) = mmul (mtrans B) (mtrans A).
Proof. apply (mtrans_mmul RK RKf). Qed.

Lemma mtrans_invol_R (A : mat3 RK) : mtrans (mtrans A) = A.
Proof. apply (mtrans_invol RK). Qed.

Lemma vm_mmul_R (x : vec3 RK) (A B : mat3 RK) : vm (vm x A) B = vm x (mmul A B).
Proof. apply (vm_mmul RK RKf). Qed.

Lemma cancel_l (A B X : mat3 RK) : mmul A B = mident RK -> mmul A (mmul B X) = X.
Proof. intro H. rewrite <- mmul_assoc_R, H, mmul_ident_l_R. reflexivity. Qed.

Lemma orth_mul (A B : mat3 RK) : orthogonal A -> orthogonal B -> orthogonal (mmul A B).
Proof.
  unfold orthogonal. intros HA HB. rewrite mtrans_mmul_R, mmul_assoc_R, (cancel_l _ _ _ HA). exact HB.
Qed.

Lemma orth_trans_mul (A B : mat3 RK) : orthogonal (mtrans A) -> orthogonal (mtrans B) -> orthogonal (mtrans (mmul A B)).
Proof.
  unfold orthogonal. rewrite !mtrans_invol_R. intros HA HB.
  rewrite mtrans_mmul_R, mmul_assoc_R, (cancel_l _ _ _ HB). exact HA.
Qed.

(* the heart: if V1 diagonalises T1 and W2 diagonalises Rm^T T1 Rm, then V1^T Rm W2 intertwines the two spectra *)
Lemma intertwine (T1 V1 W2 Rm L1 L2 : mat3 RK) :
  orthogonal V1 -> orthogonal (mtrans V1) -> orthogonal (mtrans Rm) ->
  mmul T1 V1 = mmul V1 L1 ->
  mmul (mmul (mmul (mtrans Rm) T1) Rm) W2 = mmul W2 L2 ->
  mmul L1 (mmul (mtrans V1) (mmul Rm W2)) = mmul (mmul (mtrans V1) (mmul Rm W2)) L2.
Proof.
  unfold orthogonal. rewrite !mtrans_invol_R. intros O1 O1' OR E1 E2.
  (* L1 V1^T = V1^T T1 *)
  assert (S1 : mmul L1 (mtrans V1) = mmul (mtrans V1) T1).
  { rewrite <- (mmul_ident_l_R L1), <- O1, !mmul_assoc_R. rewrite <- (mmul_assoc_R V1 L1), <- E1.
    rewrite (mmul_assoc_R T1 V1), O1', mmul_ident_r_R. reflexivity. }
  (* T1 (Rm W2) = (Rm W2) L2 *)
  assert (S2 : mmul T1 (mmul Rm W2) = mmul (mmul Rm W2) L2).
  { rewrite (mmul_assoc_R Rm W2 L2), <- E2. rewrite !mmul_assoc_R. rewrite (cancel_l _ _ _ OR). reflexivity. }
  rewrite <- mmul_assoc_R, S1, mmul_assoc_R, S2, <- mmul_assoc_R. reflexivity.
Qed.

(** ** columns *)
Definition significant (nz : RK) (col : list RK) : Prop := exists v, In v col /\ nz <= Rabs v.

Lemma not_significant_small (nz : RK) (col : list RK) : ~ significant nz col -> forall u, In u col -> Rabs u < nz.
Proof. intros H u Hu. destruct (Rlt_dec (Rabs u) nz) as [L|L]; [exact L|]. exfalso. apply H. exists u. split; [exact Hu | lra]. Qed.

Lemma significant_split (nz : RK) (col : list RK) :
  significant nz col -> exists pre v post, col = pre ++ v :: post /\ (forall u, In u pre -> Rabs u < nz) /\ nz <= Rabs v.
Proof.
  induction col as [|x tl IH]; intros [v [Hin Hv]]; [destruct Hin|].
  destruct (Rlt_dec (Rabs x) nz) as [L|L].
  - destruct Hin as [->|Hin]; [lra|].
    destruct (IH (ex_intro _ v (conj Hin Hv))) as [pre [w [post [E [Hp Hw]]]]].
    exists (x :: pre), w, post. split; [rewrite E; reflexivity|]. split; [|exact Hw].
    intros u [<-|Hu]; [exact L | apply Hp; exact Hu].
  - exists [], x, tl. split; [reflexivity|]. split; [intros u []| lra].
Qed.

Lemma classic_sig (nz : RK) (col : list RK) : significant nz col \/ ~ significant nz col.
Proof.
  induction col as [|x tl IH].
  - right. intros [v [[] _]].
  - destruct (Rlt_dec (Rabs x) nz) as [L|L].
    + destruct IH as [[v [Hin Hv]] | N].
      * left. exists v. split; [right; exact Hin | exact Hv].
      * right. intros [v [[<-|Hin] Hv]]; [lra|]. apply N. exists v. split; assumption.
    + left. exists x. split; [left; reflexivity | lra].
Qed.

Lemma sgnR_scaled (t v : R) : (t = 1 \/ t = - (1)) -> v <> 0 -> sgnR (t * v) = t * sgnR v.
Proof.
  intros [-> | ->] Hv; unfold sgnR.
  - rewrite Rmult_1_l. ring.
  - destruct (Rltb v 0) eqn:E1; destruct (Rltb (- (1) * v) 0) eqn:E2;
      try apply Rltb_true in E1; try apply Rltb_false in E1; try apply Rltb_true in E2; try apply Rltb_false in E2; try lra; ring.
Qed.

(* the sign chosen for a column multiplied by t = +-1 *)
Lemma axis_sign_scaled (nz t : RK) (col : list RK) :
  0 < nz -> (t = 1 \/ t = - (1)) ->
  (significant nz col -> axis_sign RK nz (map (Rmult t) col) = t * axis_sign RK nz col)
  /\ (~ significant nz col -> axis_sign RK nz (map (Rmult t) col) = 1 /\ axis_sign RK nz col = 1).
Proof.
  intros Hnz Ht. split.
  - intro S. destruct (significant_split nz col S) as [pre [v [post [E [Hp Hv]]]]]. subst col.
    rewrite (axis_sign_first nz pre v post Hp Hv).
    rewrite map_app. cbn [map].
    etransitivity.
    { apply (axis_sign_first nz (map (Rmult t) pre) (t * v) (map (Rmult t) post)).
      - intros u Hu. apply in_map_iff in Hu. destruct Hu as [w [<- Hw]]. rewrite (Rabs_sign_mul t w Ht). apply Hp. exact Hw.
      - rewrite (Rabs_sign_mul t v Ht). exact Hv. }
    apply sgnR_scaled; [exact Ht|]. intro Z. rewrite Z, Rabs_R0 in Hv. lra.
  - intro NS. pose proof (not_significant_small nz col NS) as Hs. split.
    + apply axis_sign_none. intros u Hu. apply in_map_iff in Hu. destruct Hu as [w [<- Hw]].
      rewrite (Rabs_sign_mul t w Ht). apply Hs. exact Hw.
    + apply axis_sign_none. exact Hs.
Qed.

(* one axis of the comparison: column x of copy 1 gets sign s1, column t*x of copy 2 gets sign s2 *)
Lemma column_unique (nz t : RK) (col : list RK) :
  0 < nz -> (t = 1 \/ t = - (1)) ->
  let s1 := axis_sign RK nz col in
  let s2 := axis_sign RK nz (map (Rmult t) col) in
  exists u, (u = 1 \/ u = - (1))
            /\ map (Rmult s2) (map (Rmult t) col) = map (Rmult u) (map (Rmult s1) col)
            /\ (significant nz (map (Rmult s1) col) -> u = 1).
Proof.
  intros Hnz Ht s1 s2. destruct (axis_sign_scaled nz t col Hnz Ht) as [HS HN].
  pose proof (axis_sign_is_sign nz col) as Hs1. fold s1 in Hs1.
  assert (SigEq : significant nz (map (Rmult s1) col) -> significant nz col).
  { intros [v [Hin Hv]]. apply in_map_iff in Hin. destruct Hin as [w [<- Hw]]. exists w. split; [exact Hw|].
    rewrite (Rabs_sign_mul s1 w Hs1) in Hv. exact Hv. }
  destruct (classic_sig nz col) as [S|NS].
  - exists 1. split; [left; reflexivity|]. split; [|reflexivity].
    unfold s2. rewrite (HS S). fold s1. rewrite !map_map. apply map_ext. intro x.
    destruct Ht as [-> | ->]; destruct Hs1 as [E | E]; rewrite E; ring.
  - destruct (HN NS) as [E2 E1]. exists t. split; [exact Ht|]. split.
    + unfold s2, s1. rewrite E2, E1. rewrite !map_map. apply map_ext. intro x. ring.
    + intro S. exfalso. apply NS. apply SigEq. exact S.
Qed.

(** ** the theorem *)
Lemma rows_eq_cols (A B : list (vec3 RK)) :
  map vx A = map vx B -> map vy A = map vy B -> map vz A = map vz B -> A = B.
Proof.
  revert B. induction A as [|a A IH]; intros [|b B] Hx Hy Hz; cbn in *; try reflexivity; try discriminate.
  injection Hx as Hx0 Hx. injection Hy as Hy0 Hy. injection Hz as Hz0 Hz.
  rewrite (IH B Hx Hy Hz). f_equal. dvec a; dvec b. cbn in *. subst. reflexivity.
Qed.

Lemma orient_rows eigh (atoms r : list (watom RK)) :
  orient_atoms RK eigh atoms = Ok r ->
  let rot := map (fun a : watom RK => vm (fst a) (snd (eigh (inertia_tensor RK (centre RK atoms))))) (centre RK atoms) in
  map fst r = apply_signs RK (phase_signs RK (noise RK) rot) rot.
Proof.
  unfold orient_atoms. destruct (is_zero RK (total_mass RK atoms)); [discriminate|]. intro H. injection H as <-.
  unfold with_masses. rewrite map_fst_combine_len by (unfold apply_phase, apply_signs; rewrite !map_length; reflexivity).
  unfold apply_phase, rotate. rewrite !map_map. cbn [fst]. reflexivity.
Qed.

Lemma apply_signs_as_vm (t : vec3 RK) (rows : list (vec3 RK)) : apply_signs RK t rows = map (fun x => vm x (smat RK t)) rows.
Proof. unfold apply_signs. apply map_ext. intro x. apply (vzip_as_vm RK RKf). Qed.

Theorem frame_unique eigh1 eigh2 (atoms : list (watom RK)) (Rm : mat3 RK) (tau : vec3 RK) (r1 r2 : list (watom RK)) :
  orthogonal Rm -> orthogonal (mtrans Rm) -> total_mass RK atoms <> 0 ->
  let T1 := inertia_tensor RK (centre RK atoms) in
  let atoms2 := move_atoms RK Rm tau atoms in
  let T2 := inertia_tensor RK (centre RK atoms2) in
  eigh_ok RK T1 (eigh1 T1) -> eigh_ok RK T2 (eigh2 T2) ->
  vx (fst (eigh1 T1)) < vy (fst (eigh1 T1)) -> vy (fst (eigh1 T1)) < vz (fst (eigh1 T1)) ->
  orient_atoms RK eigh1 atoms = Ok r1 -> orient_atoms RK eigh2 atoms2 = Ok r2 ->
  exists u : vec3 RK,
    signs3 RK u /\ map fst r2 = apply_signs RK u (map fst r1)
    /\ (significant (noise RK) (map vx (map fst r1)) -> vx u = 1)
    /\ (significant (noise RK) (map vy (map fst r1)) -> vy u = 1)
    /\ (significant (noise RK) (map vz (map fst r1)) -> vz u = 1).
Proof.
  intros OR OR' HM T1 atoms2 T2 K1 K2 D01 D12 H1 H2.
  pose proof (orient_rows _ _ _ H1) as R1. pose proof (orient_rows _ _ _ H2) as R2. cbv zeta in R1, R2.
  fold T1 in R1. fold atoms2 in R2. fold T2 in R2.
  assert (ET2 : T2 = mmul (mmul (mtrans Rm) T1) Rm).
  { unfold T2, atoms2. rewrite (centre_move RK RKf) by exact HM. apply (inertia_transforms RK RKf); assumption. }
  assert (EC2 : centre RK atoms2 = rotate RK Rm (centre RK atoms)) by (apply (centre_move RK RKf); exact HM).
  unfold eigh_ok in K1, K2.
  destruct (eigh1 T1) as [lam1 V1]. destruct (eigh2 T2) as [lam2 W2]. cbn [fst snd] in *.
  destruct K1 as [O1 [O1' [E1 _]]]. destruct K2 as [P2 [P2' [E2 [A01 A12]]]].
  apply Rleb_true in A01. apply Rleb_true in A12.
  dvec lam1. dvec lam2. cbn [vx vy vz fst snd] in *.
  rewrite ET2 in E2.
  set (Q := mmul (mtrans V1) (mmul Rm W2)).
  assert (HQ : mmul (mdiag RK lam1x lam1y lam1z) Q = mmul Q (mdiag RK lam2x lam2y lam2z))
    by (apply (intertwine T1 V1 W2 Rm _ _ O1 O1' OR' E1 E2)).
  assert (OQ : orthogonal Q) by (apply orth_mul; [exact O1' | apply orth_mul; assumption]).
  assert (OQ' : orthogonal (mtrans Q)).
  { apply orth_trans_mul; [rewrite mtrans_invol_R; exact O1 | apply orth_trans_mul; assumption]. }
  assert (EQ : mmul Rm W2 = mmul V1 Q).
  { unfold Q. unfold orthogonal in O1'. rewrite mtrans_invol_R in O1'. rewrite (cancel_l _ _ _ O1'). reflexivity. }
  clearbody Q.
  assert (SQ : exists t, signs3 RK t /\ Q = smat RK t).
  { dmat Q. unfold orthogonal in OQ, OQ'. vnormalize. cbn in HQ, OQ, OQ'.
    injection HQ as h00 h01 h02 h10 h11 h12 h20 h21 h22.
    injection OQ as c00 c01 c02 c10 c11 c12 c20 c21 c22.
    injection OQ' as r00 r01 r02 r10 r11 r12 r20 r21 r22.
    destruct (diag_commute lam1x lam1y lam1z lam2x lam2y lam2z Q0x Q0y Q0z Q1x Q1y Q1z Q2x Q2y Q2z)
      as [_ [[Z01 [Z02 [Z10 [Z12 [Z20 Z21]]]]] [S0 [S1 S2]]]]; try lra.
    exists (Q0x, Q1y, Q2z). split; [repeat split; cbn; assumption|].
    unfold smat. vnormalize. cbn. subst. reflexivity. }
  destruct SQ as [t [St ->]].
  set (c := centre RK atoms) in *.
  set (rot1 := map (fun a : watom RK => vm (fst a) V1) c) in *.
  assert (ROT2 : map (fun a : watom RK => vm (fst a) W2) (centre RK atoms2) = apply_signs RK t rot1).
  { rewrite EC2. unfold rotate, rot1. rewrite apply_signs_as_vm, !map_map. cbn [fst]. apply map_ext. intro a.
    rewrite vm_mmul_R, EQ, <- vm_mmul_R. reflexivity. }
  rewrite ROT2 in R2. clear ROT2.
  pose proof (noise_pos_R) as Hnz. set (nz := noise RK) in *.
  destruct St as [St0 [St1 St2]]. dvec t. cbn [vx vy vz fst snd] in St0, St1, St2.
  destruct (apply_signs_col (tx, ty, tz) rot1) as [Cx [Cy Cz]]. cbn [vx vy vz fst snd] in Cx, Cy, Cz.
  rewrite (phase_signs_axes RK nz rot1) in R1.
  rewrite (phase_signs_axes RK nz (apply_signs RK (tx, ty, tz) rot1)), Cx, Cy, Cz in R2.
  destruct (column_unique nz tx (map vx rot1) Hnz St0) as [ux [Hux [Eux Sux]]].
  destruct (column_unique nz ty (map vy rot1) Hnz St1) as [uy [Huy [Euy Suy]]].
  destruct (column_unique nz tz (map vz rot1) Hnz St2) as [uz [Huz [Euz Suz]]].
  cbv zeta in *.
  set (s1x := axis_sign RK nz (map vx rot1)) in *. set (s1y := axis_sign RK nz (map vy rot1)) in *.
  set (s1z := axis_sign RK nz (map vz rot1)) in *.
  set (s2x := axis_sign RK nz (map (Rmult tx) (map vx rot1))) in *.
  set (s2y := axis_sign RK nz (map (Rmult ty) (map vy rot1))) in *.
  set (s2z := axis_sign RK nz (map (Rmult tz) (map vz rot1))) in *.
  destruct (apply_signs_col (s1x, s1y, s1z) rot1) as [A1x [A1y A1z]]. cbn [vx vy vz fst snd] in A1x, A1y, A1z.
  destruct (apply_signs_col (s2x, s2y, s2z) (apply_signs RK (tx, ty, tz) rot1)) as [A2x [A2y A2z]].
  cbn [vx vy vz fst snd] in A2x, A2y, A2z. rewrite Cx in A2x. rewrite Cy in A2y. rewrite Cz in A2z.
  exists (ux, uy, uz). split; [repeat split; cbn; assumption|].
  split.
  - rewrite R1, R2.
    destruct (apply_signs_col (ux, uy, uz) (apply_signs RK (s1x, s1y, s1z) rot1)) as [Bx [By Bz]].
    cbn [vx vy vz fst snd] in Bx, By, Bz. rewrite A1x in Bx. rewrite A1y in By. rewrite A1z in Bz.
    apply rows_eq_cols; [rewrite A2x, Bx; exact Eux | rewrite A2y, By; exact Euy | rewrite A2z, Bz; exact Euz].
  - rewrite R1, A1x, A1y, A1z. cbn [vx vy vz fst snd]. repeat split; assumption.
Qed.

(** orienting twice: the second orientation acts on the first result, which is the original molecule moved by the
    orthogonal matrix V1 S1 (possibly improper) and a translation *)
Theorem orient_twice eigh1 eigh2 (atoms r1 r2 : list (watom RK)) :
  total_mass RK atoms <> 0 ->
  let T1 := inertia_tensor RK (centre RK atoms) in
  let T2 := inertia_tensor RK (centre RK r1) in
  eigh_ok RK T1 (eigh1 T1) -> eigh_ok RK T2 (eigh2 T2) ->
  vx (fst (eigh1 T1)) < vy (fst (eigh1 T1)) -> vy (fst (eigh1 T1)) < vz (fst (eigh1 T1)) ->
  orient_atoms RK eigh1 atoms = Ok r1 -> orient_atoms RK eigh2 r1 = Ok r2 ->
  exists u : vec3 RK,
    signs3 RK u /\ map fst r2 = apply_signs RK u (map fst r1)
    /\ (significant (noise RK) (map vx (map fst r1)) -> vx u = 1)
    /\ (significant (noise RK) (map vy (map fst r1)) -> vy u = 1)
    /\ (significant (noise RK) (map vz (map fst r1)) -> vz u = 1).
Proof.
  intros HM T1 T2 K1 K2 D01 D12 H1 H2.
  destruct (orient_atoms_shape RK _ _ _ H1) as [c [V [s [Hc [HV [Hs [_ [Hr _]]]]]]]].
  fold T1 in HV.
  assert (OV : orthogonal V /\ orthogonal (mtrans V)).
  { unfold eigh_ok in K1. rewrite HV. destruct (eigh1 T1) as [lam W]. cbn. tauto. }
  destruct OV as [OV OV']. destruct (smat_orth RK RKf s Hs) as [OS OS'].
  set (M := mmul V (smat RK s)).
  assert (Er : r1 = move_atoms RK M (vneg (vm c M)) atoms).
  { rewrite Hr. unfold move_atoms. apply map_ext. intro a. rewrite (place_as_move RK RKf). reflexivity. }
  assert (OM : orthogonal M) by (apply orth_mul; assumption).
  assert (OM' : orthogonal (mtrans M)) by (apply orth_trans_mul; assumption).
  unfold T2 in K2. rewrite Er in K2, H2.
  apply (frame_unique eigh1 eigh2 atoms M (vneg (vm c M)) r1 r2 OM OM' HM K1 K2 D01 D12 H1 H2).
Qed.

(** readable form: on every axis the two coordinate columns are equal, or all entries are below the
    threshold and the columns are opposite *)
Definition same_or_tiny_opposite (nz : RK) (c1 c2 : list RK) : Prop :=
  c2 = c1 \/ ((forall v, In v c1 -> Rabs v < nz) /\ c2 = map Ropp c1).

Lemma col_same_or_tiny (nz u : RK) (c1 : list RK) :
  (u = 1 \/ u = - (1)) -> (significant nz c1 -> u = 1) -> same_or_tiny_opposite nz c1 (map (Rmult u) c1).
Proof.
  intros [-> | ->] H.
  - left. rewrite <- (map_id c1) at 2. apply map_ext. intro x. apply Rmult_1_l.
  - right. split.
    + apply not_significant_small. intro S. specialize (H S). lra.
    + apply map_ext. intro x. ring.
Qed.

Lemma signs_cols_readable (u : vec3 RK) (rows1 rows2 : list (vec3 RK)) (nz : RK) :
  signs3 RK u -> rows2 = apply_signs RK u rows1 ->
  (significant nz (map vx rows1) -> vx u = 1) -> (significant nz (map vy rows1) -> vy u = 1) ->
  (significant nz (map vz rows1) -> vz u = 1) ->
  same_or_tiny_opposite nz (map vx rows1) (map vx rows2)
  /\ same_or_tiny_opposite nz (map vy rows1) (map vy rows2)
  /\ same_or_tiny_opposite nz (map vz rows1) (map vz rows2).
Proof.
  intros [S0 [S1 S2]] -> Hx Hy Hz. destruct (apply_signs_col u rows1) as [Cx [Cy Cz]]. rewrite Cx, Cy, Cz.
  repeat split; apply col_same_or_tiny; assumption.
Qed.
