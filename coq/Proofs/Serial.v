(** C10 — proofs about Model/Serial.v: the `_nd_` extension round trip on arrays and on container trees of
    any depth, and the consistency of the automatic encoding / suffix choices. *)
From Coq Require Import ZArith NArith List String Bool Ascii Lia.
Require Import QV.Common.Outcome QV.Gen.SuffixMaps QV.Model.Results QV.Model.Serial QV.Proofs.Results.
Import ListNotations.
Local Open Scope string_scope.
Local Open Scope list_scope.
Local Open Scope Z_scope.

(** * bytes.hex / bytes.fromhex *)
Lemma unhex_hex_step ch r :
  unhex (hex (String ch r)) = match unhex (hex r) with Some t => Some (String ch t) | None => None end.
Proof. destruct ch as [[] [] [] [] [] [] [] []]; reflexivity. Qed.

Lemma unhex_hex b : unhex (hex b) = Some b.
Proof. induction b as [|ch r IH]; [reflexivity|]. rewrite unhex_hex_step, IH. reflexivity. Qed.

(** * induction over payload trees (nested lists) *)
Section ValueInd.
  Variable P : value -> Prop.
  Hypothesis HNone : P VNone.
  Hypothesis HBool : forall b, P (VBool b).
  Hypothesis HInt : forall z, P (VInt z).
  Hypothesis HFloat : forall b, P (VFloat b).
  Hypothesis HStr : forall s, P (VStr s).
  Hypothesis HBytes : forall s, P (VBytes s).
  Hypothesis HList : forall l, Forall P l -> P (VList l).
  Hypothesis HTuple : forall l, Forall P l -> P (VTuple l).
  Hypothesis HDict : forall d, Forall (fun kv => P (snd kv)) d -> P (VDict d).
  Hypothesis HArr : forall a, P (VArr a).

  Fixpoint value_ind' (v : value) : P v :=
    match v with
    | VNone => HNone | VBool b => HBool b | VInt z => HInt z | VFloat b => HFloat b
    | VStr s => HStr s | VBytes s => HBytes s
    | VList l => HList l ((fix go (l : list value) : Forall P l :=
                             match l with [] => Forall_nil _ | x :: r => Forall_cons _ (value_ind' x) (go r) end) l)
    | VTuple l => HTuple l ((fix go (l : list value) : Forall P l :=
                               match l with [] => Forall_nil _ | x :: r => Forall_cons _ (value_ind' x) (go r) end) l)
    | VDict d => HDict d ((fix go (d : list (key * value)) : Forall (fun kv => P (snd kv)) d :=
                             match d with [] => Forall_nil _ | x :: r => Forall_cons _ (value_ind' (snd x)) (go r) end) d)
    | VArr a => HArr a
    end.
End ValueInd.

(** * what the proofs need to know about a codec *)
Definition is_leaf (v : value) : bool :=
  match v with VList _ | VTuple _ | VDict _ | VArr _ => false | _ => true end.

Record codec_ok (c : extcodec) : Prop := {
  ok_nd_dtype : key_eqb (k_nd c) (k_dtype c) = false;
  ok_nd_data : key_eqb (k_nd c) (k_data c) = false;
  ok_data_dtype : key_eqb (k_data c) (k_dtype c) = false;
  ok_dtype_data : key_eqb (k_dtype c) (k_data c) = false;
  ok_shape_nd : key_eqb (k_shape c) (k_nd c) = false;
  ok_shape_dtype : key_eqb (k_shape c) (k_dtype c) = false;
  ok_shape_data : key_eqb (k_shape c) (k_data c) = false;
  ok_rank : rank_gt c = 1;
  ok_leaf : forall b, is_leaf (enc_data c b) = true;
  ok_data : forall b, dec_data c (enc_data c b) = Some b
}.

Lemma mp_codec_ok : codec_ok mp_codec.
Proof. constructor; try reflexivity. Qed.
Lemma js_codec_ok : codec_ok js_codec.
Proof. constructor; try reflexivity. intro b. apply unhex_hex. Qed.

Lemma key_eqb_refl k : key_eqb k k = true.
Proof. destruct k; apply String.eqb_refl. Qed.
Lemma key_eqb_sym a b : key_eqb a b = key_eqb b a.
Proof. destruct a, b; simpl; try reflexivity; apply String.eqb_sym. Qed.

Section Proofs.
  Variable c : extcodec.
  Variable sc : ndarray -> value.
  Hypothesis OK : codec_ok c.

  Lemma leaf_normalise v : is_leaf v = true -> normalise v = v.
  Proof. destruct v; simpl; intro H; try reflexivity; discriminate. Qed.
  Lemma leaf_dec v : is_leaf v = true -> dec_tree c v = Ok v.
  Proof. destruct v; simpl; intro H; try reflexivity; discriminate. Qed.

  Lemma omap_ints l : omap (dec_tree c) (map VInt l) = Ok (map VInt l).
  Proof. induction l as [|z r IH]; simpl; [reflexivity|]. rewrite IH. reflexivity. Qed.
  Lemma ints_map l : ints (map VInt l) = Some l.
  Proof. induction l as [|z r IH]; simpl; [reflexivity|]. rewrite IH. reflexivity. Qed.
  Lemma normalise_ints l : map normalise (map VInt l) = map VInt l.
  Proof. induction l as [|z r IH]; simpl; [reflexivity|]. rewrite IH. reflexivity. Qed.

  Lemma forallb_nonneg l : forallb (fun d => 0 <=? d) l = true -> Forall (fun d => 0 <= d) l.
  Proof.
    induction l as [|d r IH]; simpl; intro H; constructor.
    - apply andb_true_iff in H. destruct H as [H _]. apply Z.leb_le. exact H.
    - apply IH. apply andb_true_iff in H. tauto.
  Qed.

  (** ** one array: dtype, shape and bytes all come back, for every rank >= 1 and every extent (incl. 0) *)
  Theorem ext_array_roundtrip a : wf_arrb a = true -> dec_tree c (normalise (enc_arr c sc a)) = Ok (VArr a).
  Proof.
    unfold wf_arrb. destruct (itemsize (dt a)) as [isz|] eqn:Ei; [|discriminate].
    intro H. repeat (apply andb_true_iff in H; destruct H as [H ?]).
    rename H into Hpos. apply Z.ltb_lt in Hpos.
    match goal with Hl : (_ =? _) = true |- _ => apply Z.eqb_eq in Hl; rename Hl into Hlen end.
    match goal with Hf : forallb _ _ = true |- _ => apply forallb_nonneg in Hf; rename Hf into Hnn end.
    destruct a as [dts sh bytes]. simpl in *.
    destruct sh as [|d0 rest]; [discriminate|].
    unfold enc_arr. simpl shape. cbv iota. rewrite (ok_rank c OK).
    assert (Hmod : Z.of_nat (String.length bytes) mod isz = 0) by (rewrite Hlen, Z.mul_comm; apply Z.mod_mul; lia).
    assert (Hdiv : Z.of_nat (String.length bytes) / isz = prodz (d0 :: rest))
      by (rewrite Hlen, Z.mul_comm; apply Z.div_mul; lia).
    assert (Hle : isz <=? 0 = false) by (apply Z.leb_gt; lia).
    destruct rest as [|d1 rest'].
    - (* rank 1: no shape entry *)
      change (1 <? zlen [d0]) with false. cbv iota. rewrite app_nil_r.
      simpl normalise. rewrite (leaf_normalise _ (ok_leaf c OK bytes)).
      simpl dec_tree. rewrite (leaf_dec _ (ok_leaf c OK bytes)). simpl obind.
      unfold dec_hook. simpl kget. rewrite key_eqb_refl.
      assert (E1 : key_eqb (k_data c) (k_nd c) = false) by (rewrite key_eqb_sym; exact (ok_nd_data c OK)).
      assert (E2 : key_eqb (k_dtype c) (k_nd c) = false) by (rewrite key_eqb_sym; exact (ok_nd_dtype c OK)).
      rewrite ?key_eqb_refl, ?E1, ?E2, ?(ok_data_dtype c OK), ?(ok_dtype_data c OK).
      rewrite (ok_data c OK), Ei, Hle, Hmod. simpl negb. cbv iota.
      rewrite ?(ok_shape_nd c OK), ?(ok_shape_dtype c OK), ?(ok_shape_data c OK).
      rewrite Hdiv. unfold prodz; simpl. rewrite Z.mul_1_r. reflexivity.
    - (* rank >= 2: shape entry present *)
      assert (Hr : 1 <? zlen (d0 :: d1 :: rest') = true).
      { apply Z.ltb_lt. unfold zlen. simpl List.length. lia. }
      rewrite Hr. cbv iota.
      simpl normalise. rewrite (leaf_normalise _ (ok_leaf c OK bytes)).
      change (map normalise (VInt d0 :: VInt d1 :: map VInt rest')) with (map normalise (map VInt (d0 :: d1 :: rest'))).
      rewrite normalise_ints.
      simpl dec_tree. rewrite (leaf_dec _ (ok_leaf c OK bytes)). simpl obind.
      change (VInt d0 :: VInt d1 :: map VInt rest') with (map VInt (d0 :: d1 :: rest')).
      rewrite omap_ints. simpl obind.
      unfold dec_hook. simpl kget. rewrite key_eqb_refl.
      assert (E1 : key_eqb (k_data c) (k_nd c) = false) by (rewrite key_eqb_sym; exact (ok_nd_data c OK)).
      assert (E2 : key_eqb (k_dtype c) (k_nd c) = false) by (rewrite key_eqb_sym; exact (ok_nd_dtype c OK)).
      rewrite ?key_eqb_refl, ?E1, ?E2, ?(ok_data_dtype c OK), ?(ok_dtype_data c OK).
      rewrite (ok_data c OK), Ei, Hle, Hmod. simpl negb. cbv iota.
      rewrite ?(ok_shape_nd c OK), ?(ok_shape_dtype c OK), ?(ok_shape_data c OK), ?key_eqb_refl.
      change (VInt d0 :: VInt d1 :: map VInt rest') with (map VInt (d0 :: d1 :: rest')).
      rewrite ints_map, Hdiv.
      destruct (filter_nonneg_all _ Hnn) as [F1 F2]. unfold reshape_dims. rewrite F1, F2, Z.eqb_refl. reflexivity.
  Qed.

  (** ** whole payload trees *)
  (** no dict of the payload carries the marker key; every array is well formed with rank >= 1 *)
  Fixpoint payload_ok (v : value) : bool :=
    match v with
    | VList l | VTuple l => forallb payload_ok l
    | VDict d => negb (existsb (fun kv => key_eqb (k_nd c) (fst kv)) d) && forallb (fun kv => payload_ok (snd kv)) d
    | VArr a => wf_arrb a
    | _ => true
    end.

  Lemma kget_none_map (f : value -> value) k d :
    existsb (fun kv => key_eqb k (fst kv)) d = false -> kget k (map (fun kv => (fst kv, f (snd kv))) d) = None.
  Proof.
    induction d as [|[k' v] r IH]; simpl; [reflexivity|]. intro H. apply orb_false_iff in H. destruct H as [H1 H2].
    rewrite H1. apply IH. exact H2.
  Qed.

  Lemma omap_map {A B C} (f : B -> outcome C) (h : A -> B) (g : A -> C) l :
    (forall x, In x l -> f (h x) = Ok (g x)) -> omap f (map h l) = Ok (map g l).
  Proof.
    induction l as [|x r IH]; simpl; intro H; [reflexivity|].
    rewrite (H x (or_introl eq_refl)). simpl. rewrite IH by (intros; apply H; right; assumption). reflexivity.
  Qed.

  Theorem ext_tree_roundtrip v : payload_ok v = true -> roundtrip c sc v = Ok (normalise v).
  Proof.
    unfold roundtrip, wire. induction v using value_ind'; intro Hok; try reflexivity.
    - (* list *)
      simpl in Hok. rewrite forallb_forall in Hok. rewrite Forall_forall in H.
      simpl. rewrite map_map.
      rewrite (omap_map (dec_tree c) (fun x => normalise (enc_tree c sc x)) normalise); [reflexivity|].
      intros x Hx. apply H; [exact Hx|apply Hok; exact Hx].
    - (* tuple: comes back as a list *)
      simpl in Hok. rewrite forallb_forall in Hok. rewrite Forall_forall in H.
      simpl. rewrite map_map.
      rewrite (omap_map (dec_tree c) (fun x => normalise (enc_tree c sc x)) normalise); [reflexivity|].
      intros x Hx. apply H; [exact Hx|apply Hok; exact Hx].
    - (* dict *)
      simpl in Hok. apply andb_true_iff in Hok. destruct Hok as [Hk Hv].
      apply negb_true_iff in Hk. rewrite forallb_forall in Hv. rewrite Forall_forall in H.
      simpl. rewrite map_map. simpl.
      rewrite (omap_map (fun kv => obind (dec_tree c (snd kv)) (fun x => Ok (fst kv, x)))
                        (fun kv => (fst kv, normalise (enc_tree c sc (snd kv))))
                        (fun kv => (fst kv, normalise (snd kv)))).
      + simpl. unfold dec_hook. rewrite (kget_none_map normalise (k_nd c) d Hk). reflexivity.
      + intros kv Hin. simpl. rewrite (H kv Hin (Hv kv Hin)). reflexivity.
    - (* array leaf *)
      simpl in Hok. simpl. apply ext_array_roundtrip. exact Hok.
  Qed.
End Proofs.

(** * automatic choices: finite checks over the generated tables *)
Lemma parse_raw_auto_consistent : forallb parse_raw_auto_ok [TStr; TBytes] = true.
Proof. vm_compute. reflexivity. Qed.
Lemma parse_file_consistent : forallb parse_file_ok (map fst parse_file_suffix) = true.
Proof. vm_compute. reflexivity. Qed.
Lemma molecule_file_consistent : forallb molecule_file_ok (map fst molecule_extension_map) = true.
Proof. vm_compute. reflexivity. Qed.
(** every encoding name has a writer and a reader of the same wire family, and the reader takes the writer's output type *)
Definition encoding_ok (enc : string) : bool :=
  match assoc String.eqb enc serialize_table, assoc String.eqb enc deserialize_table with
  | Some w, Some (r, types) => reads r w && existsb (blobtype_eqb (writer_output w)) types
  | _, _ => false
  end.
Lemma encodings_consistent :
  forallb encoding_ok ["json"; "json-ext"; "msgpack"; "msgpack-ext"] = true
  /\ list_eqb String.eqb (map fst serialize_table) (map fst deserialize_table) = true.
Proof. split; vm_compute; reflexivity. Qed.
Lemma cross_file_consistent : forallb cross_file_ok (map fst molecule_extension_map) = true.
Proof. vm_compute. reflexivity. Qed.
